(* C01Model.v — executable model of the mp4ff box codec (mp4/box.go, boxsr.go, container.go, unknown.go
   and one dec/enc/size triple per leaf box file).  DEFINITIONS ONLY.

   The model follows the SliceReader path (DecodeBoxSR applied to a slice) and the Go text of each
   box: per leaf kind k
     dec_k  : hdr -> parser (leaf * rsvT)   DecodeXxxSR: the value AND the raw bytes of every field the
                                            Go code skips (reserved / pre_defined / matrices)
     body_k : leaf -> rsvT -> res bytes     what EncodeSW writes after the box header; rsv are the bytes
                                            put where Go writes zeros / the unity matrix; Go's own
                                            encoder is body_k v (dflt_k v)
     size_k : leaf -> N                     Size()
   The three are transcribed separately (they are separately written in Go and do disagree, e.g.
   tkhd decodes on version==1, encodes on Version==0 and sizes on Version==1).
   Signed Go fields (int16/int32) are kept as their unsigned bit patterns.  *)
From V.lib Require Import Base.
From V.c01 Require Import C01Codec.

(* ---------------------------------------------------------------- names *)
Definition name4 (a b c d : N) : list N := [a; b; c; d].
Fixpoint bytes_eqb (x y : list N) : bool :=
  match x, y with
  | [], [] => true
  | a :: x', b :: y' => (a =? b) && bytes_eqb x' y'
  | _, _ => false
  end.

Definition n_ftyp := name4 102 116 121 112.
Definition n_styp := name4 115 116 121 112.
Definition n_free := name4 102 114 101 101.
Definition n_skip := name4 115 107 105 112.
Definition n_mdat := name4 109 100 97 116.
Definition n_mfhd := name4 109 102 104 100.
Definition n_tfhd := name4 116 102 104 100.
Definition n_tfdt := name4 116 102 100 116.
Definition n_trun := name4 116 114 117 110.
Definition n_mvhd := name4 109 118 104 100.
Definition n_tkhd := name4 116 107 104 100.
Definition n_sidx := name4 115 105 100 120.
Definition n_trex := name4 116 114 101 120.
Definition n_mdhd := name4 109 100 104 100.
Definition n_hdlr := name4 104 100 108 114.
Definition n_stts := name4 115 116 116 115.
Definition n_moov := name4 109 111 111 118.
Definition n_trak := name4 116 114 97 107.
Definition n_mdia := name4 109 100 105 97.
Definition n_minf := name4 109 105 110 102.
Definition n_stbl := name4 115 116 98 108.
Definition n_moof := name4 109 111 111 102.
Definition n_traf := name4 116 114 97 102.
Definition n_mvex := name4 109 118 101 120.
Definition n_dinf := name4 100 105 110 102.
Definition n_edts := name4 101 100 116 115.
Definition n_udta := name4 117 100 116 97.
Definition n_sinf := name4 115 105 110 102.
Definition n_schi := name4 115 99 104 105.
Definition n_mfra := name4 109 102 114 97.
Definition n_tref := name4 116 114 101 102.
Definition n_elst := name4 101 108 115 116.
Definition n_stsc := name4 115 116 115 99.
Definition n_stsz := name4 115 116 115 122.
Definition n_stco := name4 115 116 99 111.
Definition n_co64 := name4 99 111 54 52.
Definition n_stss := name4 115 116 115 115.
Definition n_sdtp := name4 115 100 116 112.
Definition n_ctts := name4 99 116 116 115.
Definition n_saiz := name4 115 97 105 122.
Definition n_saio := name4 115 97 105 111.
Definition n_sbgp := name4 115 98 103 112.
Definition n_prft := name4 112 114 102 116.
Definition n_tenc := name4 116 101 110 99.
Definition n_frma := name4 102 114 109 97.
Definition n_vmhd := name4 118 109 104 100.
Definition n_smhd := name4 115 109 104 100.
Definition n_nmhd := name4 110 109 104 100.
Definition n_sthd := name4 115 116 104 100.
Definition n_mfro := name4 109 102 114 111.
Definition n_mehd := name4 109 101 104 100.
Definition n_tfra := name4 116 102 114 97.
Definition n_pssh := name4 112 115 115 104.
(* stage 3 *)
Definition n_stsd := name4 115 116 115 100.
Definition n_dref := name4 100 114 101 102.
Definition n_url := name4 117 114 108 32.
Definition n_avc1 := name4 97 118 99 49.
Definition n_avc3 := name4 97 118 99 51.
Definition n_hvc1 := name4 104 118 99 49.
Definition n_hev1 := name4 104 101 118 49.
Definition n_encv := name4 101 110 99 118.
Definition n_av01 := name4 97 118 48 49.
Definition n_vp08 := name4 118 112 48 56.
Definition n_vp09 := name4 118 112 48 57.
Definition n_mp4a := name4 109 112 52 97.
Definition n_enca := name4 101 110 99 97.
Definition n_ac3 := name4 97 99 45 51.
Definition n_ec3 := name4 101 99 45 51.
Definition n_avcC := name4 97 118 99 67.
Definition n_btrt := name4 98 116 114 116.
Definition n_pasp := name4 112 97 115 112.
Definition n_colr := name4 99 111 108 114.
Definition n_clap := name4 99 108 97 112.
Definition n_schm := name4 115 99 104 109.
Definition n_cslg := name4 99 115 108 103.
Definition n_senc := name4 115 101 110 99.
Definition n_emsg := name4 101 109 115 103.
Definition n_elng := name4 101 108 110 103.
Definition n_kind := name4 107 105 110 100.
Definition n_nclx := name4 110 99 108 120.
Definition n_nclc := name4 110 99 108 99.
Definition n_rICC := name4 114 73 67 67.
Definition n_prof := name4 112 114 111 102.
(* stage 4 *)
Definition n_hvcC := name4 104 118 99 67.
Definition n_subs := name4 115 117 98 115.
Definition n_esds := name4 101 115 100 115.
Definition n_uuid := name4 117 117 105 100.
Definition n_sgpd := name4 115 103 112 100.
Definition n_seig := name4 115 101 105 103.
Definition n_roll := name4 114 111 108 108.
Definition n_rap := name4 114 97 112 32.
Definition n_alst := name4 97 108 115 116.
(* stage 5 *)
Definition n_meta := name4 109 101 116 97.
Definition n_ilst := name4 105 108 115 116.
Definition n_cART := name4 169 65 82 84.      (* "\xa9ART" *)
Definition n_cnam := name4 169 110 97 109.
Definition n_ctoo := name4 169 116 111 111.
Definition n_ccpy := name4 169 99 112 121.
Definition n_desc := name4 100 101 115 99.
Definition n_vttc := name4 118 116 116 99.
Definition n_vttC := name4 118 116 116 67.
Definition n_vlab := name4 118 108 97 98.
Definition n_ctim := name4 99 116 105 109.
Definition n_iden := name4 105 100 101 110.
Definition n_sttg := name4 115 116 116 103.
Definition n_payl := name4 112 97 121 108.
Definition n_vtta := name4 118 116 116 97.
Definition n_vtte := name4 118 116 116 101.
Definition n_vsid := name4 118 115 105 100.
Definition n_data := name4 100 97 116 97.
Definition n_mime := name4 109 105 109 101.
Definition n_wvtt := name4 119 118 116 116.
Definition n_dac3 := name4 100 97 99 51.
Definition n_dec3 := name4 100 101 99 51.

(* ---------------------------------------------------------------- box header (box.go / boxsr.go) *)
Record hdr := mkHdr { h_name : list N; h_size : N; h_len : N }.

(* DecodeHeaderSR: size u32, type, size==1 -> u64 largesize, size==0 rejected, hdrlen > size rejected *)
Definition dec_hdr : parser hdr :=
  pdo size <- rd 4 ;;
  pdo name <- rdB 4 ;;
  if size =? 1 then
    (pdo large <- rd 8 ;; if large <? 16 then pfail else pret (mkHdr name large 16))
  else if size =? 0 then pfail
  else if size <? 8 then pfail
  else pret (mkHdr name size 8).

(* EncodeHeaderSW: always the compact 8-byte header; size >= 2^32 is an error (see enc_fits) *)
Definition enc_hdr (name : list N) (size : N) : list N := be_enc 4 size ++ name.
(* EncodeHeaderWithSizeSW(.., largeSize=true) (mdat only) *)
Definition enc_hdr_large (name : list N) (size : N) : list N := be_enc 4 1 ++ name ++ be_enc 8 size.

Definition payload_len (h : hdr) : N := h_size h - h_len h.   (* int(Size) - Hdrlen, never negative *)

(* ---------------------------------------------------------------- leaf values *)
Definition rsvT := list (list N).

(* trun sample: Dur Size Flags CompositionTimeOffset (absent fields are 0) *)
Record tsample := mkTs { ts_dur : N; ts_size : N; ts_flags : N; ts_cto : N }.
(* sidx reference *)
Record sref := mkSref { sr_type : N; sr_size : N; sr_dur : N; sr_sap : N; sr_saptype : N; sr_delta : N }.

(* esds descriptors (mp4/descriptors.go).  nb is the number of bytes of the size field as read (a ghost value: Go keeps
   sizeFieldSizeMinus1 = byte(nb - 1)); the DecSpecificInfo / SLConfig pointers and the OtherDescriptors slice of
   Go are one list here, in stream order (EncodeSW writes them back in that order). *)
Inductive desc :=
| DDcd (nb ot st buf maxbr avgbr : N) (children : list desc) (unknown : list N)   (* DecoderConfigDescriptor *)
| DDsi (nb : N) (dc : list N)                                                     (* DecSpecificInfoDescriptor *)
| DSlc (nb cv : N) (more : list N)                                                (* SLConfigDescriptor *)
| DRaw (tag nb : N) (data : list N).                                              (* RawDescriptor *)

(* sample group description entries (mp4/samplegroupentries.go) *)
Inductive sge :=
| SSeig (crypt skip isp ivs : N) (kid civ : list N)          (* CryptByteBlock SkipByteBlock IsProtected PerSampleIVSize KID ConstantIV *)
| SRoll (dist : N)                                            (* RollDistance (int16 bit pattern) *)
| SRap (known num : N)                                        (* NumLeadingSamplesKnown NumLeadingSamples *)
| SAlst (roll first : N) (offs : list N) (outs : list (N * N)) (* RollCount FirstOutputSample SampleOffset (NumOutputSamples, NumTotalSamples) *)
| SUnk (data : list N).

Inductive leaf :=
| LFtyp (name : list N) (data : list N)                 (* ftyp / styp: data []byte *)
| LFree (name : list N) (data : list N)                 (* free / skip: notDecoded *)
| LMdat (large : bool) (data : list N)                  (* LargeSize, Data *)
| LMfhd (version flags seq : N)
| LTfhd (version flags trackID baseDataOffset sdi dur size sflags : N)
| LTfdt (version flags bmdt : N)
| LTrun (version flags dataOffset firstSampleFlags : N) (samples : list tsample)
| LMvhd (version flags ctime mtime timescale duration rate volume nextTrackID : N)
| LTkhd (version flags ctime mtime trackID duration layer altGroup volume width height : N)
| LSidx (version flags refID timescale ept firstOffset : N) (refs : list sref)
| LTrex (version flags trackID dsdi dur size sflags : N)
| LMdhd (version flags ctime mtime timescale duration language : N)
| LHdlr (version flags preDefined : N) (handlerType : list N) (name : list N) (lacksNull : bool)
| LStts (version flags : N) (entries : list (N * N))
(* --- stage 2 --- *)
| LStsc (version flags : N) (entries : list (N * N)) (single : N) (ids : list N)
        (* Entries (FirstChunk, SamplesPerChunk), singleSampleDescriptionID, SampleDescriptionID *)
| LStsz (version flags uniform number : N) (sizes : list N)
| LTab (name : list N) (w : nat) (version flags : N) (items : list N)   (* stco, stss (w=4), co64 (w=8) *)
| LSdtp (version flags : N) (entries : list N)
| LCtts (version flags : N) (ends : list N) (offsets : list N)           (* EndSampleNr, SampleOffset *)
| LElst (version flags : N) (entries : list (N * N * N * N))
| LSaiz (version flags : N) (auxType : list N) (auxParam dflt count : N) (info : list N)
| LSaio (version flags : N) (auxType : list N) (auxParam : N) (offs : list N)
| LSbgp (version flags : N) (gtype : list N) (gparam : N) (entries : list (N * N))
| LPrft (version flags refID ntp mediatime : N)
| LTenc (version flags crypt skip isProt ivSize : N) (kid : list N) (constIV : list N)
| LFrma (fmt : list N)
| LVmhd (version flags mode c0 c1 c2 : N)
| LSmhd (version flags balance : N)
| LFullOnly (name : list N) (version flags : N)                           (* nmhd, sthd *)
| LMfro (version flags parentSize : N)
| LMehd (version flags duration : N)
| LTfra (version flags trackID lt lr ls : N) (entries : list (N * N * N * N * N))
| LPssh (version flags : N) (sysid : list N) (kids : list (list N)) (data : list N)
(* --- stage 3 --- *)
(* prefixes of boxes that carry fields AND child boxes (MPre): stsd, dref, Visual/AudioSampleEntry *)
| LStsd (version flags count : N)                                         (* SampleCount *)
| LDref (version flags count : N)                                         (* EntryCount *)
| LVisual (name : list N) (dri width height hres vres frameCount : N) (cname : list N)
| LAudio (name : list N) (dri chan ssize srate : N)
(* leaves *)
| LUrl (version flags : N) (loc : list N) (noLoc noZero : bool)           (* Location, NoLocation, NoZeroTermination *)
| LAvcC (profile compat level : N) (sps pps : list (list N)) (chroma bdl bdc nspsext : N) (noTrailing : bool)
| LBtrt (bufsize maxbr avgbr : N)
| LPasp (hsp vsp : N)
| LColr (ctype : list N) (prim trans matrix : N) (fullRange : bool) (payload : list N)  (* ICCProfile / UnknownPayload *)
| LClap (wn wd hn hd_ hon hod von vod : N)
| LSchm (version flags : N) (stype : list N) (sversion : N) (uri : list N)
| LCslg (version flags shift least greatest cstart cend : N)
| LSenc (flags count : N) (raw : list N) (readSize : N) (notParsed : bool)   (* rawData, readBoxSize, readButNotParsed *)
| LEmsg (version flags timescale ptime dur id : N) (scheme value data : list N)
| LElng (missing : bool) (version flags : N) (lang : list N)                  (* missingFullBox *)
| LKind (version flags : N) (scheme value : list N)
(* --- stage 4 --- *)
(* hevc.DecConfRec: GeneralProfileSpace GeneralTierFlag GeneralProfileIDC GeneralProfileCompatibilityFlags
   GeneralConstraintIndicatorFlags GeneralLevelIDC MinSpatialSegmentationIDC ParallellismType ChromaFormatIDC
   BitDepthLumaMinus8 BitDepthChromaMinus8 AvgFrameRate ConstantFrameRate NumTemporalLayers TemporalIDNested
   (LengthSizeMinusOne is 3 in every accepted record) NaluArrays (completeAndType, Nalus) *)
| LHvcC (space : N) (tier : bool) (idc compat constr level mss par chroma bdl bdc afr cfr ntl tin : N)
        (arrays : list (N * list (list N)))
(* Entries (SampleDelta, SubSamples (SubsampleSize, SubsamplePriority, Discardable, CodecSpecificParameters)) *)
| LSubs (version flags : N) (entries : list (N * list (N * N * N * N)))
(* EsdsBox: Version Flags, ESDescriptor (size field bytes, EsID FlagsAndPriority DependsOnEsID URLString OCResID,
   DecConfigDescriptor, SLConfig/Other descriptors, UnknownData); canon (ghost, computed by the decoder): every size
   field was written in the encoder's form and no UnknownData was kept *)
| LEsds (version flags nb esid fl dep : N) (url : list N) (ocr : N) (dcd : desc) (children : list desc)
        (unknown : list N) (canon : bool)
(* UUIDBox: tfxd (Version Flags FragmentAbsoluteTime FragmentAbsoluteDuration), tfrf (Version Flags FragmentCount, times and
   durations), PIFF sample encryption (a SencBox without header: the fields of LSenc), any other uuid (UnknownPayload) *)
| LUuidTfxd (version flags t d : N)
| LUuidTfrf (version flags count : N) (entries : list (N * N))
| LUuidSenc (flags count : N) (raw : list N) (readSize : N) (notParsed : bool)
| LUuidUnk (uuid payload : list N)
(* SgpdBox: Version Flags GroupingType DefaultLength DefaultGroupDescriptionIndex, per entry (description length, entry); the
   reserved byte that a seig entry skips is captured (one number per entry in chunk 0) *)
| LSgpd (version flags : N) (gtype : list N) (dlen dgdi : N) (items : list (N * sge))
(* --- stage 5 --- *)
(* DataBox (mp4/ffmpeg.go, the value atom of an iTunes metadata item): typeIndicator, locale (kept by a decoded box since
   repo commit f36e540; before, they were skipped and written as 1 and 0: finding C01-F7), Data *)
| LData (typ loc : N) (d : list N)
(* MimeBox: Version Flags ContentType LacksZeroTermination *)
| LMime (version flags : N) (ct : list N) (lacks : bool)
(* WvttBox prefix: DataReferenceIndex; short (ghost): the reader ran dry inside the eight prefix bytes and the decoder
   went on with zeros (DecodeWvttSR does not look at sr.AccError()) *)
| LWvtt (dri : N) (short : bool)
(* Dac3Box: FSCod BSID BSMod ACMod LFEOn BitRateCode Reserved InitialZeroes; canon (ghost): the payload was exactly
   InitialZeroes + 3 bytes (a shorter one is padded by the bit reader's zeros, 256*k more bytes are dropped) *)
| LDac3 (fscod bsid bsmod acmod lfeon brc rsvd iz : N) (canon : bool)
(* Dec3Box: DataRate, EC3Subs (FSCod BSID ASVC BSMod ACMod LFEOn NumDepSub ChanLoc), Reserved (the bytes after the last
   substream); canon (ghost): the reserved bits inside the substreams (1 + 3, and 1 more without dependent substreams)
   were 0 -- the decoder drops them, the encoder writes 0 *)
| LDec3 (datarate : N) (subs : list (N * N * N * N * N * N * N * N)) (reserved : list N) (canon : bool).

Definition leaf_name (l : leaf) : list N :=
  match l with
  | LFtyp n _ => n | LFree n _ => n | LMdat _ _ => n_mdat | LMfhd _ _ _ => n_mfhd
  | LTfhd _ _ _ _ _ _ _ _ => n_tfhd | LTfdt _ _ _ => n_tfdt | LTrun _ _ _ _ _ => n_trun
  | LMvhd _ _ _ _ _ _ _ _ _ => n_mvhd | LTkhd _ _ _ _ _ _ _ _ _ _ _ => n_tkhd
  | LSidx _ _ _ _ _ _ _ => n_sidx | LTrex _ _ _ _ _ _ _ => n_trex | LMdhd _ _ _ _ _ _ _ => n_mdhd
  | LHdlr _ _ _ _ _ _ => n_hdlr | LStts _ _ _ => n_stts
  | LStsc _ _ _ _ _ => n_stsc | LStsz _ _ _ _ _ => n_stsz | LTab n _ _ _ _ => n | LSdtp _ _ _ => n_sdtp
  | LCtts _ _ _ _ => n_ctts | LElst _ _ _ => n_elst | LSaiz _ _ _ _ _ _ _ => n_saiz | LSaio _ _ _ _ _ => n_saio
  | LSbgp _ _ _ _ _ => n_sbgp | LPrft _ _ _ _ _ => n_prft | LTenc _ _ _ _ _ _ _ _ => n_tenc | LFrma _ => n_frma
  | LVmhd _ _ _ _ _ _ => n_vmhd | LSmhd _ _ _ => n_smhd | LFullOnly n _ _ => n | LMfro _ _ _ => n_mfro
  | LMehd _ _ _ => n_mehd | LTfra _ _ _ _ _ _ _ => n_tfra | LPssh _ _ _ _ _ => n_pssh
  | LStsd _ _ _ => n_stsd | LDref _ _ _ => n_dref | LVisual n _ _ _ _ _ _ _ => n | LAudio n _ _ _ _ => n
  | LUrl _ _ _ _ _ => n_url | LAvcC _ _ _ _ _ _ _ _ _ _ => n_avcC | LBtrt _ _ _ => n_btrt | LPasp _ _ => n_pasp
  | LColr _ _ _ _ _ _ => n_colr | LClap _ _ _ _ _ _ _ _ => n_clap | LSchm _ _ _ _ _ => n_schm
  | LCslg _ _ _ _ _ _ _ => n_cslg
  | LSenc _ _ _ _ _ => n_senc | LEmsg _ _ _ _ _ _ _ _ _ => n_emsg | LElng _ _ _ _ => n_elng | LKind _ _ _ _ => n_kind
  | LHvcC _ _ _ _ _ _ _ _ _ _ _ _ _ _ _ _ => n_hvcC | LSubs _ _ _ => n_subs
  | LEsds _ _ _ _ _ _ _ _ _ _ _ _ => n_esds
  | LUuidTfxd _ _ _ _ => n_uuid | LUuidTfrf _ _ _ _ => n_uuid | LUuidSenc _ _ _ _ _ => n_uuid | LUuidUnk _ _ => n_uuid
  | LSgpd _ _ _ _ _ _ => n_sgpd
  | LData _ _ _ => n_data | LMime _ _ _ _ => n_mime | LWvtt _ _ => n_wvtt
  | LDac3 _ _ _ _ _ _ _ _ _ => n_dac3 | LDec3 _ _ _ _ => n_dec3
  end.

Definition unity_matrix : list N :=
  [0;1;0;0] ++ zeros 12 ++ [0;1;0;0] ++ zeros 12 ++ [64;0;0;0].

Definition chunk (i : nat) (r : rsvT) : list N := nth i r [].

(* ---------------------------------------------------------------- ftyp / styp / free / skip / mdat *)
(* payloads shorter than major brand + minor version are rejected (repo commit c85b5f6) *)
Definition dec_ftyp (h : hdr) : parser (leaf * rsvT) :=
  if payload_len h <? 8 then pfail else
  pdo data <- rdB (payload_len h) ;; pret (LFtyp (h_name h) data, []).
Definition dec_free (h : hdr) : parser (leaf * rsvT) :=
  pdo data <- rdB (payload_len h) ;; pret (LFree (h_name h) data, []).
(* DecodeMdatSR returns a nil error: a short slice gives an empty payload (sr.ReadBytes -> []byte{}) *)
Definition dec_mdat (h : hdr) : parser (leaf * rsvT) :=
  fun bs => match rdB (payload_len h) bs with
            | Ok (data, r) => Ok ((LMdat (8 <? h_len h) data, []), r)
            | _ => Ok ((LMdat (8 <? h_len h) [], []), bs)
            end.

(* ---------------------------------------------------------------- mfhd *)
Definition dec_mfhd (h : hdr) : parser (leaf * rsvT) :=
  pdo vf <- rd 4 ;; pdo seq <- rd 4 ;;
  pret (LMfhd (vf_version vf) (vf_flags vf) seq, []).

(* ---------------------------------------------------------------- tfhd *)
Definition rd_if (c : bool) (n : nat) : parser N := if c then rd n else pret 0.
Definition wr_if (c : bool) (n : nat) (v : N) : list N := if c then be_enc n v else [].

Definition dec_tfhd (h : hdr) : parser (leaf * rsvT) :=
  pdo vf <- rd 4 ;; pdo tid <- rd 4 ;;
  let fl := vf_flags vf in
  pdo bdo <- rd_if (has fl 1) 8 ;;
  pdo sdi <- rd_if (has fl 2) 4 ;;
  pdo dur <- rd_if (has fl 8) 4 ;;
  pdo sz <- rd_if (has fl 16) 4 ;;
  pdo sf <- rd_if (has fl 32) 4 ;;
  pret (LTfhd (vf_version vf) fl tid bdo sdi dur sz sf, []).

(* ---------------------------------------------------------------- tfdt *)
Definition dec_tfdt (h : hdr) : parser (leaf * rsvT) :=
  pdo vf <- rd 4 ;;
  pdo t <- (if vf_version vf =? 0 then rd 4 else rd 8) ;;
  pret (LTfdt (vf_version vf) (vf_flags vf) t, []).

(* ---------------------------------------------------------------- trun *)
Definition trun_bps (fl : N) : N :=
  (if has fl 256 then 4 else 0) + (if has fl 512 then 4 else 0) +
  (if has fl 1024 then 4 else 0) + (if has fl 2048 then 4 else 0).
(* expectedSize(sampleCount) *)
Definition trun_expected (fl cnt : N) : N :=
  16 + (if has fl 1 then 4 else 0) + (if has fl 4 then 4 else 0) + cnt * trun_bps fl.

Definition rd_tsample (fl : N) : parser tsample :=
  pdo dur <- rd_if (has fl 256) 4 ;;
  pdo sz <- rd_if (has fl 512) 4 ;;
  pdo sf <- rd_if (has fl 1024) 4 ;;
  pdo cto <- rd_if (has fl 2048) 4 ;;
  pret (mkTs dur sz sf cto).
Definition wr_tsample (fl : N) (s : tsample) : list N :=
  wr_if (has fl 256) 4 (ts_dur s) ++ wr_if (has fl 512) 4 (ts_size s) ++
  wr_if (has fl 1024) 4 (ts_flags s) ++ wr_if (has fl 2048) 4 (ts_cto s).

(* `else if t.HasFirstSampleFlags() && i == 0 { flags = t.firstSampleFlags }` *)
Definition trun_patch_first (fl fsf : N) (l : list tsample) : list tsample :=
  match l with
  | s :: t => if negb (has fl 1024) && has fl 4
              then mkTs (ts_dur s) (ts_size s) fsf (ts_cto s) :: t else l
  | [] => []
  end.

Definition dec_trun (h : hdr) : parser (leaf * rsvT) :=
  pdo vf <- rd 4 ;; pdo cnt <- rd 4 ;;
  let fl := vf_flags vf in
  if negb (h_size h =? trun_expected fl cnt) then pfail
  else if (1024 <? cnt) && (trun_bps fl =? 0) then pfail
  else
    pdo doff <- rd_if (has fl 1) 4 ;;
    pdo fsf <- rd_if (has fl 4) 4 ;;
    fun bs =>
      (pdo samples <- rd_many (length bs + 1100) cnt (rd_tsample fl) ;;
       pret (LTrun (vf_version vf) fl doff fsf samples, [])) bs.

(* ---------------------------------------------------------------- mvhd *)
Definition dec_mvhd (h : hdr) : parser (leaf * rsvT) :=
  pdo vf <- rd 4 ;;
  let w := if vf_version vf =? 1 then 8%nat else 4%nat in
  pdo ct <- rd w ;; pdo mt <- rd w ;; pdo ts <- rd 4 ;; pdo du <- rd w ;;
  pdo rate <- rd 4 ;; pdo vol <- rd 2 ;;
  pdo r10 <- rdB 10 ;; pdo mx <- rdB 36 ;; pdo r24 <- rdB 24 ;;
  pdo nt <- rd 4 ;;
  pret (LMvhd (vf_version vf) (vf_flags vf) ct mt ts du rate vol nt, [r10; mx; r24]).

(* ---------------------------------------------------------------- tkhd *)
Definition dec_tkhd (h : hdr) : parser (leaf * rsvT) :=
  pdo vf <- rd 4 ;;
  let w := if vf_version vf =? 1 then 8%nat else 4%nat in
  pdo ct <- rd w ;; pdo mt <- rd w ;; pdo tid <- rd 4 ;; pdo r4 <- rdB 4 ;; pdo du <- rd w ;;
  pdo r8 <- rdB 8 ;;
  pdo layer <- rd 2 ;; pdo ag <- rd 2 ;; pdo vol <- rd 2 ;;
  pdo r2 <- rdB 2 ;; pdo mx <- rdB 36 ;;
  pdo wd <- rd 4 ;; pdo ht <- rd 4 ;;
  pret (LTkhd (vf_version vf) (vf_flags vf) ct mt tid du layer ag vol wd ht, [r4; r8; r2; mx]).

(* ---------------------------------------------------------------- sidx *)
Definition rd_sref : parser sref :=
  pdo w1 <- rd 4 ;; pdo du <- rd 4 ;; pdo w2 <- rd 4 ;;
  pret (mkSref (w1 / 2147483648) (w1 mod 2147483648) du
               (w2 / 2147483648) ((w2 / 268435456) mod 8) (w2 mod 268435456)).
(* uint32(ReferenceType)<<31 | ReferencedSize ;  StartsWithSAP<<31 | SAPType<<28 | SAPDeltaTime *)
Definition wr_sref (r : sref) : list N :=
  be_enc 4 (N.lor (sr_type r * 2147483648) (sr_size r)) ++
  be_enc 4 (sr_dur r) ++
  be_enc 4 (N.lor (N.lor (sr_sap r * 2147483648) (sr_saptype r * 268435456)) (sr_delta r)).

Definition dec_sidx (h : hdr) : parser (leaf * rsvT) :=
  pdo vf <- rd 4 ;; pdo rid <- rd 4 ;; pdo ts <- rd 4 ;;
  let w := if vf_version vf =? 0 then 4%nat else 8%nat in
  pdo ept <- rd w ;; pdo fo <- rd w ;;
  pdo r2 <- rdB 2 ;; pdo cnt <- rd 2 ;;
  fun bs =>
    (pdo refs <- rd_many (S (length bs)) cnt rd_sref ;;
     pret (LSidx (vf_version vf) (vf_flags vf) rid ts ept fo refs, [r2])) bs.

(* ---------------------------------------------------------------- trex *)
Definition dec_trex (h : hdr) : parser (leaf * rsvT) :=
  pdo vf <- rd 4 ;; pdo tid <- rd 4 ;; pdo dsdi <- rd 4 ;; pdo dur <- rd 4 ;; pdo sz <- rd 4 ;; pdo sf <- rd 4 ;;
  pret (LTrex (vf_version vf) (vf_flags vf) tid dsdi dur sz sf, []).

(* ---------------------------------------------------------------- mdhd *)
Definition dec_mdhd (h : hdr) : parser (leaf * rsvT) :=
  pdo vf <- rd 4 ;;
  let v := vf_version vf in
  if 1 <? v then pfail else
  let w := if v =? 1 then 8%nat else 4%nat in
  pdo ct <- rd w ;; pdo mt <- rd w ;; pdo ts <- rd 4 ;; pdo du <- rd w ;;
  pdo lang <- rd 2 ;; pdo r2 <- rdB 2 ;;
  pret (LMdhd v (vf_flags vf) ct mt ts du lang, [r2]).

(* ---------------------------------------------------------------- hdlr *)
Definition dec_hdlr (h : hdr) : parser (leaf * rsvT) :=
  pdo vf <- rd 4 ;; pdo pd <- rd 4 ;; pdo ht <- rdB 4 ;; pdo r12 <- rdB 12 ;;
  if 24 <? payload_len h then
    (pdo left <- rdB (payload_len h - 24) ;;
     if last left 0 =? 0
     then pret (LHdlr (vf_version vf) (vf_flags vf) pd ht (removelast left) false, [r12])
     else pret (LHdlr (vf_version vf) (vf_flags vf) pd ht left true, [r12]))
  else pret (LHdlr (vf_version vf) (vf_flags vf) pd ht [] true, [r12]).

(* ---------------------------------------------------------------- stts *)
Definition rd_pair : parser (N * N) := pdo a <- rd 4 ;; pdo b <- rd 4 ;; pret (a, b).
Definition wr_pair (p : N * N) : list N := be_enc 4 (fst p) ++ be_enc 4 (snd p).
(* DecodeSttsSR returns a nil error; with an 8-byte header and the size check the reads cannot fail.
   With a 16-byte header they can, and Go then keeps zero entries: that case is NOT modelled (Err). *)
Definition dec_stts (h : hdr) : parser (leaf * rsvT) :=
  pdo vf <- rd 4 ;; pdo cnt <- rd 4 ;;
  if negb (h_size h =? 16 + cnt * 8) then pfail else
  fun bs =>
    (pdo es <- rd_many (S (length bs)) cnt rd_pair ;;
     pret (LStts (vf_version vf) (vf_flags vf) es, [])) bs.

(* ================================================================ stage 2 leaf kinds *)
Definition rdB_if (c : bool) (n : N) : parser (list N) := if c then rdB n else pret [].

(* ---------------------------------------------------------------- stsc *)
(* the per-entry loop of DecodeStscSR on the sample description ids: (singleSampleDescriptionID, SampleDescriptionID);
   SampleDescriptionID is `make([]uint32, entryCount)` at the switch, modelled by the prefix filled so far *)
Definition rd_triple : parser (N * N * N) := pdo a <- rd 4 ;; pdo b <- rd 4 ;; pdo c <- rd 4 ;; pret (a, b, c).
Definition wr_triple (t : N * N * N) : list N := be_enc 4 (fst (fst t)) ++ be_enc 4 (snd (fst t)) ++ be_enc 4 (snd t).
Fixpoint stsc_ids (i : nat) (single : N) (ids : list N) (sdis : list N) : option (N * list N) :=
  match sdis with
  | [] => Some (single, ids)
  | sdi :: t =>
      if sdi =? 0 then None                                  (* "stsc sample description id is 0" *)
      else match i with
           | O => stsc_ids 1 sdi ids t
           | S _ =>
               if negb (sdi =? single) then
                 (if negb (single =? 0) then stsc_ids (S i) 0 (repeat single i ++ [sdi]) t
                  else stsc_ids (S i) single (ids ++ [sdi]) t)
               else stsc_ids (S i) single (if single =? 0 then ids ++ [sdi] else ids) t
           end
  end.
Definition dec_stsc (h : hdr) : parser (leaf * rsvT) :=
  pdo vf <- rd 4 ;; pdo cnt <- rd 4 ;;
  if negb (h_size h =? 16 + cnt * 12) then pfail else
  fun bs =>
    (pdo es <- rd_many (S (length bs)) cnt rd_triple ;;
     match stsc_ids 0 0 [] (map snd es) with
     | None => pfail
     | Some (single, ids) => pret (LStsc (vf_version vf) (vf_flags vf) (map fst es) single ids, [])
     end) bs.
Fixpoint wr_stsc (es : list (N * N)) (single : N) (ids : list N) : list N :=
  match es with
  | [] => []
  | (fc, spc) :: t =>
      be_enc 4 fc ++ be_enc 4 spc ++ be_enc 4 (if negb (single =? 0) then single else hd 0 ids) ++
      wr_stsc t single (tl ids)
  end.

(* ---------------------------------------------------------------- stsz *)
Definition dec_stsz (h : hdr) : parser (leaf * rsvT) :=
  pdo vf <- rd 4 ;; pdo uni <- rd 4 ;; pdo num <- rd 4 ;;
  if negb (h_size h =? (if 0 <? uni then 20 else 20 + num * 4)) then pfail else
  if uni =? 0 then
    fun bs => (pdo ss <- rd_many (S (length bs)) num (rd 4) ;;
               pret (LStsz (vf_version vf) (vf_flags vf) uni num ss, [])) bs
  else pret (LStsz (vf_version vf) (vf_flags vf) uni num [], []).

(* ---------------------------------------------------------------- stco / stss / co64 *)
Definition dec_tab (w : nat) (h : hdr) : parser (leaf * rsvT) :=
  pdo vf <- rd 4 ;; pdo cnt <- rd 4 ;;
  if negb (h_size h =? 16 + cnt * N.of_nat w) then pfail else
  fun bs => (pdo es <- rd_many (S (length bs)) cnt (rd w) ;;
             pret (LTab (h_name h) w (vf_version vf) (vf_flags vf) es, [])) bs.

(* ---------------------------------------------------------------- sdtp *)
Definition dec_sdtp (h : hdr) : parser (leaf * rsvT) :=
  pdo vf <- rd 4 ;;
  if payload_len h <? 4 then pfail else
  pdo es <- rdB (payload_len h - 4) ;;
  pret (LSdtp (vf_version vf) (vf_flags vf) es, []).

(* ---------------------------------------------------------------- ctts *)
(* EndSampleNr[i+1] = EndSampleNr[i] + sampleCount in uint32 *)
Fixpoint ctts_ends (acc : N) (es : list (N * N)) : list N :=
  match es with [] => [] | (c, _) :: t => let a := u32 (acc + c) in a :: ctts_ends a t end.
Definition dec_ctts (h : hdr) : parser (leaf * rsvT) :=
  pdo vf <- rd 4 ;; pdo cnt <- rd 4 ;;
  if negb (h_size h =? 16 + cnt * 8) then pfail else
  fun bs => (pdo es <- rd_many (S (length bs)) cnt rd_pair ;;
             pret (LCtts (vf_version vf) (vf_flags vf) (0 :: ctts_ends 0 es) (map snd es), [])) bs.
(* sampleCount := EndSampleNr[i+1] - EndSampleNr[i] in uint32 *)
Fixpoint wr_ctts (ends offs : list N) : list N :=
  match offs, ends with
  | o :: ot, e0 :: ((e1 :: _) as et) => be_enc 4 (u32 (e1 + 4294967296 - e0)) ++ be_enc 4 o ++ wr_ctts et ot
  | _, _ => []
  end.

(* ---------------------------------------------------------------- elst *)
Definition rd_elst (w : nat) : parser (N * N * N * N) :=
  pdo d <- rd w ;; pdo t <- rd w ;; pdo ri <- rd 2 ;; pdo rf <- rd 2 ;; pret (d, t, ri, rf).
Definition wr_elst (w : nat) (e : N * N * N * N) : list N :=
  match e with (d, t, ri, rf) => be_enc w d ++ be_enc w t ++ be_enc 2 ri ++ be_enc 2 rf end.
Definition dec_elst (h : hdr) : parser (leaf * rsvT) :=
  pdo vf <- rd 4 ;; pdo cnt <- rd 4 ;;
  let v := vf_version vf in
  if negb (h_size h =? 16 + cnt * (if v =? 1 then 20 else 12)) then pfail else
  if 1 <? v then pfail else
  fun bs => (pdo es <- rd_many (S (length bs)) cnt (rd_elst (if v =? 1 then 8%nat else 4%nat)) ;;
             pret (LElst v (vf_flags vf) es, [])) bs.

(* ---------------------------------------------------------------- saiz / saio *)
Definition dec_saiz (h : hdr) : parser (leaf * rsvT) :=
  pdo vf <- rd 4 ;;
  let fl := vf_flags vf in
  pdo at_ <- rdB_if (has fl 1) 4 ;; pdo ap <- rd_if (has fl 1) 4 ;;
  pdo dflt <- rd 1 ;; pdo cnt <- rd 4 ;;
  if negb (h_size h =? 17 + (if has fl 1 then 8 else 0) + (if dflt =? 0 then cnt else 0)) then pfail else
  if dflt =? 0 then
    fun bs => (pdo info <- rd_many (S (length bs)) cnt (rd 1) ;;
               pret (LSaiz (vf_version vf) fl at_ ap dflt cnt info, [])) bs
  else pret (LSaiz (vf_version vf) fl at_ ap dflt cnt [], []).

Definition dec_saio (h : hdr) : parser (leaf * rsvT) :=
  pdo vf <- rd 4 ;;
  let fl := vf_flags vf in let v := vf_version vf in
  pdo at_ <- rdB_if (has fl 1) 4 ;; pdo ap <- rd_if (has fl 1) 4 ;;
  pdo cnt <- rd 4 ;;
  if negb (h_size h =? 16 + (if has fl 1 then 8 else 0) + (if v =? 0 then 4 else 8) * cnt) then pfail else
  fun bs => (pdo os <- rd_many (S (length bs)) cnt (rd (if v =? 0 then 4%nat else 8%nat)) ;;
             pret (LSaio v fl at_ ap os, [])) bs.

(* ---------------------------------------------------------------- sbgp *)
Definition dec_sbgp (h : hdr) : parser (leaf * rsvT) :=
  pdo vf <- rd 4 ;;
  let v := vf_version vf in
  pdo gt <- rdB 4 ;; pdo gp <- rd_if (v =? 1) 4 ;; pdo cnt <- rd 4 ;;
  if negb (h_size h =? 20 + (if v =? 1 then 4 else 0) + 8 * cnt) then pfail else
  fun bs => (pdo es <- rd_many (S (length bs)) cnt rd_pair ;;
             pret (LSbgp v (vf_flags vf) gt gp es, [])) bs.

(* ---------------------------------------------------------------- prft *)
Definition dec_prft (h : hdr) : parser (leaf * rsvT) :=
  pdo vf <- rd 4 ;; pdo rid <- rd 4 ;; pdo ntp <- rd 8 ;;
  pdo mt <- (if vf_version vf =? 0 then rd 4 else rd 8) ;;
  pret (LPrft (vf_version vf) (vf_flags vf) rid ntp mt, []).

(* ---------------------------------------------------------------- tenc *)
Definition dec_tenc (h : hdr) : parser (leaf * rsvT) :=
  pdo vf <- rd 4 ;;
  let v := vf_version vf in
  pdo r1 <- rdB 1 ;;
  pdo r2 <- rdB_if (v =? 0) 1 ;;
  pdo info <- rd_if (negb (v =? 0)) 1 ;;
  pdo isp <- rd 1 ;; pdo ivs <- rd 1 ;; pdo kid <- rdB 16 ;;
  if (isp =? 1) && (ivs =? 0) then
    (pdo n <- rd 1 ;; pdo iv <- rdB n ;;
     pret (LTenc v (vf_flags vf) (info / 16) (info mod 16) isp ivs kid iv, [r1; r2]))
  else pret (LTenc v (vf_flags vf) (info / 16) (info mod 16) isp ivs kid [], [r1; r2]).

(* ---------------------------------------------------------------- frma, vmhd, smhd, nmhd, sthd, mfro, mehd *)
Definition dec_frma (h : hdr) : parser (leaf * rsvT) :=
  if negb (payload_len h =? 4) then pfail else pdo f <- rdB 4 ;; pret (LFrma f, []).
Definition dec_vmhd (h : hdr) : parser (leaf * rsvT) :=
  pdo vf <- rd 4 ;; pdo m <- rd 2 ;; pdo c0 <- rd 2 ;; pdo c1 <- rd 2 ;; pdo c2 <- rd 2 ;;
  pret (LVmhd (vf_version vf) (vf_flags vf) m c0 c1 c2, []).
Definition dec_smhd (h : hdr) : parser (leaf * rsvT) :=
  pdo vf <- rd 4 ;; pdo b <- rd 2 ;; pdo r2 <- rdB 2 ;;
  pret (LSmhd (vf_version vf) (vf_flags vf) b, [r2]).
Definition dec_fullonly (h : hdr) : parser (leaf * rsvT) :=
  pdo vf <- rd 4 ;; pret (LFullOnly (h_name h) (vf_version vf) (vf_flags vf), []).
Definition dec_mfro (h : hdr) : parser (leaf * rsvT) :=
  pdo vf <- rd 4 ;; pdo ps <- rd 4 ;; pret (LMfro (vf_version vf) (vf_flags vf) ps, []).
Definition dec_mehd (h : hdr) : parser (leaf * rsvT) :=
  pdo vf <- rd 4 ;; pdo d <- (if vf_version vf =? 0 then rd 4 else rd 8) ;;
  pret (LMehd (vf_version vf) (vf_flags vf) d, []).

(* ---------------------------------------------------------------- tfra *)
(* the reserved 26 bits of the sizes word are kept as the number sizesBlock / 64 (a one-element chunk) *)
Definition rd_tfra (w nt nr ns : nat) : parser (N * N * N * N * N) :=
  pdo t <- rd w ;; pdo mo <- rd w ;; pdo a <- rd nt ;; pdo b <- rd nr ;; pdo c <- rd ns ;; pret (t, mo, a, b, c).
Definition wr_tfra (w nt nr ns : nat) (e : N * N * N * N * N) : list N :=
  match e with (t, mo, a, b, c) => be_enc w t ++ be_enc w mo ++ be_enc nt a ++ be_enc nr b ++ be_enc ns c end.
Definition tfra_w (v : N) : nat := if v =? 1 then 8%nat else 4%nat.
Definition tfra_n (l : N) : nat := N.to_nat (1 + l).      (* ReadUint8/16/24/32 for length size 0..3 *)
Definition dec_tfra (h : hdr) : parser (leaf * rsvT) :=
  pdo vf <- rd 4 ;; pdo tid <- rd 4 ;; pdo sb <- rd 4 ;; pdo cnt <- rd 4 ;;
  let v := vf_version vf in
  let lt := (sb / 16) mod 4 in let lr := (sb / 4) mod 4 in let ls := sb mod 4 in
  if negb (h_size h =? 24 + cnt * ((if v =? 1 then 16 else 8) + (1 + lt) + (1 + lr) + (1 + ls))) then pfail else
  fun bs => (pdo es <- rd_many (S (length bs)) cnt (rd_tfra (tfra_w v) (tfra_n lt) (tfra_n lr) (tfra_n ls)) ;;
             pret (LTfra v (vf_flags vf) tid lt lr ls es, [[sb / 64]])) bs.

(* ---------------------------------------------------------------- pssh *)
Definition dec_pssh (h : hdr) : parser (leaf * rsvT) :=
  pdo vf <- rd 4 ;;
  let v := vf_version vf in
  pdo sid <- rdB 16 ;;
  pdo kc <- rd_if (0 <? v) 4 ;;
  fun bs =>
    (pdo kids <- rd_many (S (length bs)) kc (rdB 16) ;;
     pdo dl <- rd 4 ;;
     pdo data <- rdB dl ;;
     pret (LPssh v (vf_flags vf) sid kids data, [])) bs.

(* ================================================================ stage 3 leaf kinds *)
(* sr.ReadZeroTerminatedString(maxLen): the zero must be found among the first maxLen bytes of the slice *)
Fixpoint zt (bs : list N) (n : N) {struct bs} : res (list N * list N) :=
  if n =? 0 then Err else
  match bs with
  | [] => Err
  | c :: t => if c =? 0 then Ok ([], t)
              else match zt t (n - 1) with
                   | Ok (s, r) => Ok (c :: s, r)
                   | Err => Err | Panic => Panic | OutOfFuel => OutOfFuel
                   end
  end.
Definition rd_zt (n : N) : parser (list N) := fun bs => zt bs n.
(* sr.ReadPossiblyZeroTerminatedString(maxLen): stops at a zero or after maxLen bytes; indexes the slice
   without a bounds check (Panic) *)
Fixpoint pz (bs : list N) (n : N) {struct bs} : res ((list N * bool) * list N) :=
  if n =? 0 then Ok (([], false), bs) else
  match bs with
  | [] => Panic
  | c :: t => if c =? 0 then Ok (([], true), t)
              else match pz t (n - 1) with
                   | Ok ((s, z), r) => Ok ((c :: s, z), r)
                   | Err => Err | Panic => Panic | OutOfFuel => OutOfFuel
                   end
  end.
Definition rd_pz (n : N) : parser (list N * bool) := fun bs => pz bs n.

(* ---------------------------------------------------------------- stsd / dref prefixes *)
(* DecodeStsdSR returns sr.AccError() since repo commit cc4ccf6 (before, an stsd with a large-size header and
   no body was accepted with invented zeros: finding C01-F4) *)
Definition dec_stsd (h : hdr) : parser (leaf * rsvT) :=
  pdo vf <- rd 4 ;; pdo cnt <- rd 4 ;; pret (LStsd (vf_version vf) (vf_flags vf) cnt, []).
Definition dec_dref (h : hdr) : parser (leaf * rsvT) :=
  pdo vf <- rd 4 ;; pdo cnt <- rd 4 ;; pret (LDref (vf_version vf) (vf_flags vf) cnt, []).

(* ---------------------------------------------------------------- VisualSampleEntry / AudioSampleEntry prefixes *)
Definition dec_visual (h : hdr) : parser (leaf * rsvT) :=
  pdo r6 <- rdB 6 ;; pdo dri <- rd 2 ;; pdo r16 <- rdB 16 ;; pdo w <- rd 2 ;; pdo ht <- rd 2 ;;
  pdo hres <- rd 4 ;; pdo vres <- rd 4 ;; pdo r4 <- rdB 4 ;; pdo fc <- rd 2 ;; pdo cl <- rd 1 ;;
  if 31 <? cl then pfail else
  pdo cn <- rdB cl ;; pdo pad <- rdB (31 - cl) ;; pdo depth <- rdB 2 ;; pdo pd <- rdB 2 ;;
  pret (LVisual (h_name h) dri w ht hres vres fc cn, [r6; r16; r4; pad; depth; pd]).
(* SampleRate = uint16(ReadUint32() >> 16): the low half is read and dropped *)
Definition dec_audio (h : hdr) : parser (leaf * rsvT) :=
  pdo r6 <- rdB 6 ;; pdo dri <- rd 2 ;; pdo r8 <- rdB 8 ;; pdo ch <- rd 2 ;; pdo ss <- rd 2 ;;
  pdo r4 <- rdB 4 ;; pdo sr <- rd 2 ;; pdo lo <- rdB 2 ;;
  pret (LAudio (h_name h) dri ch ss sr, [r6; r8; r4; lo]).

(* ---------------------------------------------------------------- url *)
Definition dec_url (h : hdr) : parser (leaf * rsvT) :=
  pdo vf <- rd 4 ;;
  if 4 <? payload_len h then
    (pdo sz <- rd_pz (payload_len h - 4) ;;
     pret (LUrl (vf_version vf) (vf_flags vf) (fst sz) false (negb (snd sz)), []))
  else pret (LUrl (vf_version vf) (vf_flags vf) [] true false, []).

(* ---------------------------------------------------------------- avcC (avc.DecodeAVCDecConfRec on the payload) *)
Definition rd_nalu : parser (list N) := pdo n <- rd 2 ;; rdB n.
Definition wr_nalu (x : list N) : list N := be_enc 2 (lenN x) ++ x.
Definition avc_plain (p : N) : bool := (p =? 66) || (p =? 77) || (p =? 88).
(* rsv: [6 reserved bits of byte 4]; [3 reserved bits of byte 5]; [6], [5], [5] reserved bits of the trailing
   info (numbers, one-element chunks); then the bytes after the record, which the decoder drops *)
Definition avcc_rec : parser (leaf * rsvT) :=
  pdo cv <- rd 1 ;;
  if negb (cv =? 1) then pfail else
  pdo prof <- rd 1 ;; pdo compat <- rd 1 ;; pdo lvl <- rd 1 ;; pdo b4 <- rd 1 ;;
  if negb (b4 mod 4 =? 3) then pfail else
  pdo b5 <- rd 1 ;;
  pdo sps <- rd_many 32 (b5 mod 32) rd_nalu ;;
  pdo npps <- rd 1 ;;
  pdo pps <- rd_many 256 npps rd_nalu ;;
  if avc_plain prof then pret (LAvcC prof compat lvl sps pps 0 0 0 0 false, [[b4 / 4]; [b5 / 32]; [63]; [31]; [31]])
  else fun bs =>
    match bs with
    | [] => Ok ((LAvcC prof compat lvl sps pps 0 0 0 0 true, [[b4 / 4]; [b5 / 32]; [63]; [31]; [31]]), [])
    | _ => (pdo c0 <- rd 1 ;; pdo c1 <- rd 1 ;; pdo c2 <- rd 1 ;; pdo ne <- rd 1 ;;
            if negb (ne =? 0) then pfail else
            pret (LAvcC prof compat lvl sps pps (c0 mod 4) (c1 mod 8) (c2 mod 8) ne false,
                  [[b4 / 4]; [b5 / 32]; [c0 / 4]; [c1 / 8]; [c2 / 8]])) bs
    end.
Definition dec_avcC (h : hdr) : parser (leaf * rsvT) :=
  pdo data <- rdB (payload_len h) ;;
  fun r => match avcc_rec data with
           | Ok ((l, rsv), extra) => Ok ((l, rsv ++ [extra]), r)
           | Err => Err | Panic => Panic | OutOfFuel => OutOfFuel
           end.

(* ---------------------------------------------------------------- btrt pasp clap cslg *)
Definition dec_btrt (h : hdr) : parser (leaf * rsvT) :=
  pdo a <- rd 4 ;; pdo b <- rd 4 ;; pdo c <- rd 4 ;; pret (LBtrt a b c, []).
Definition dec_pasp (h : hdr) : parser (leaf * rsvT) :=
  pdo a <- rd 4 ;; pdo b <- rd 4 ;; pret (LPasp a b, []).
Definition dec_clap (h : hdr) : parser (leaf * rsvT) :=
  pdo a <- rd 4 ;; pdo b <- rd 4 ;; pdo c <- rd 4 ;; pdo d <- rd 4 ;;
  pdo e <- rd 4 ;; pdo f <- rd 4 ;; pdo g <- rd 4 ;; pdo i <- rd 4 ;; pret (LClap a b c d e f g i, []).
Definition dec_cslg (h : hdr) : parser (leaf * rsvT) :=
  pdo vf <- rd 4 ;;
  let w := if vf_version vf =? 0 then 4%nat else 8%nat in
  pdo a <- rd w ;; pdo b <- rd w ;; pdo c <- rd w ;; pdo d <- rd w ;; pdo e <- rd w ;;
  pret (LCslg (vf_version vf) (vf_flags vf) a b c d e, []).

(* ---------------------------------------------------------------- colr *)
Definition colr_icc (t : list N) : bool := bytes_eqb t n_rICC || bytes_eqb t n_prof.
Definition dec_colr (h : hdr) : parser (leaf * rsvT) :=
  pdo ct <- rdB 4 ;;
  if bytes_eqb ct n_nclx then
    (pdo p <- rd 2 ;; pdo t <- rd 2 ;; pdo m <- rd 2 ;; pdo b <- rd 1 ;;
     pret (LColr ct p t m (128 <=? b) [], [[b mod 128]]))
  else if bytes_eqb ct n_nclc then
    (pdo p <- rd 2 ;; pdo t <- rd 2 ;; pdo m <- rd 2 ;; pret (LColr ct p t m false [], [[0]]))
  else if payload_len h <? 4 then pfail             (* ReadBytes of a negative count *)
  else pdo pl <- rdB (payload_len h - 4) ;; pret (LColr ct 0 0 0 false pl, [[0]]).

(* ---------------------------------------------------------------- schm *)
Definition dec_schm (h : hdr) : parser (leaf * rsvT) :=
  pdo vf <- rd 4 ;; pdo st <- rdB 4 ;; pdo sv <- rd 4 ;;
  if has (vf_flags vf) 1 then
    (pdo uri <- rd_zt (payload_len h) ;; pret (LSchm (vf_version vf) (vf_flags vf) st sv uri, []))
  else pret (LSchm (vf_version vf) (vf_flags vf) st sv [], []).

(* ---------------------------------------------------------------- senc (kept raw by DecodeSencSR) *)
(* EncodeSWNoHdr writes rawData back when the box is readButNotParsed and, since repo commit 954ff09, when it was
   decoded (readBoxSize > 0) and has no samples *)
Definition senc_keeps (np : bool) (cnt rs : N) : bool := np || ((cnt =? 0) && (0 <? rs)).
Definition dec_senc (h : hdr) : parser (leaf * rsvT) :=
  if h_size h <? 16 then pfail else
  pdo vf <- rd 4 ;;
  if 0 <? vf_version vf then pfail else
  pdo cnt <- rd 4 ;;
  let fl := vf_flags vf in
  (* nrDataBytes := payloadLen - 8, checked against the sub-sample minimum since repo commit b8f1424 (it was
     Size-16: with a large-size header a senc without data got through and Encode panicked, finding C01-F5) *)
  if payload_len h <? 8 then pfail else
  if has fl 2 && (payload_len h - 8 <? 2 * cnt) then pfail else
  pdo raw <- rdB (payload_len h - 8) ;;
  pret (LSenc fl cnt raw (h_size h - h_len h + 8) (negb ((cnt =? 0) || (lenN raw =? 0))), []).

(* ---------------------------------------------------------------- emsg *)
Definition dec_emsg (h : hdr) : parser (leaf * rsvT) :=
  pdo vf <- rd 4 ;;
  let v := vf_version vf in let pl := payload_len h in
  (* remainingBytes := int(hdr.Size) - (bytes read + boxHeaderSize) *)
  let tail (used : N) (mk : list N -> leaf) : parser (leaf * rsvT) :=
    if used + 8 <? h_size h then (pdo d <- rdB (h_size h - (used + 8)) ;; pret (mk d, [])) else pret (mk [], []) in
  if v =? 1 then
    (pdo ts <- rd 4 ;; pdo pt <- rd 8 ;; pdo du <- rd 4 ;; pdo id <- rd 4 ;;
     pdo sc <- rd_zt (pl - 24 - 1) ;;
     pdo va <- rd_zt (pl - (24 + lenN sc + 1)) ;;
     tail (24 + lenN sc + 1 + lenN va + 1) (LEmsg v (vf_flags vf) ts pt du id sc va))
  else if v =? 0 then
    (pdo sc <- rd_zt (pl - 4 - 17) ;;
     pdo va <- rd_zt (pl - (4 + lenN sc + 1) - 16) ;;
     pdo ts <- rd 4 ;; pdo pt <- rd 4 ;; pdo du <- rd 4 ;; pdo id <- rd 4 ;;
     tail (4 + lenN sc + 1 + lenN va + 1 + 16) (LEmsg v (vf_flags vf) ts pt du id sc va))
  else pfail.

(* ---------------------------------------------------------------- elng / kind *)
(* ReadZeroTerminatedString that also says where the reader stands after a failed scan (at maxPos) *)
Fixpoint ztf (bs : list N) (n : N) {struct bs} : option (list N) * list N :=
  if n =? 0 then (None, bs) else
  match bs with
  | [] => (None, [])
  | c :: t => if c =? 0 then (Some [], t)
              else match ztf t (n - 1) with (Some s, r) => (Some (c :: s), r) | (None, r) => (None, r) end
  end.
(* a payload below 7 bytes is read as a bare string and the read error is dropped (`return &b, nil`): without a
   terminator the language is empty.  The bytes scanned are kept as chunk 0 (what the encoder writes there is
   the language and its terminator) *)
Definition dec_elng (h : hdr) : parser (leaf * rsvT) :=
  let pl := payload_len h in
  if pl <? 7 then
    fun bs => match ztf bs pl with
              | (Some s, r) => Ok ((LElng true 0 0 s, [s ++ [0]]), r)
              | (None, r) => Ok ((LElng true 0 0 [], [firstn (length bs - length r) bs]), r)
              end
  else
    pdo vf <- rd 4 ;;
    if negb (vf =? 0) then pfail else
    pdo s <- rd_zt (pl - 4) ;; pret (LElng false 0 0 s, [s ++ [0]]).
Definition dec_kind (h : hdr) : parser (leaf * rsvT) :=
  pdo vf <- rd 4 ;;
  pdo sc <- rd_zt (payload_len h - 5) ;;
  pdo va <- rd_zt (payload_len h - (4 + lenN sc + 1)) ;;
  pret (LKind (vf_version vf) (vf_flags vf) sc va, []).

(* ================================================================ stage 4 leaf kinds *)
(* ---------------------------------------------------------------- hvcC (hevc.DecodeHEVCDecConfRec on the payload) *)
(* one NaluArray: completeAndType, numNalus, then (length, bytes) per NALU *)
Definition rd_narr : parser (N * list (list N)) :=
  pdo ct <- rd 1 ;; pdo n <- rd 2 ;;
  fun bs => (pdo nalus <- rd_many (S (length bs)) n rd_nalu ;; pret (ct, nalus)) bs.
Definition wr_narr (a : N * list (list N)) : list N :=
  be_enc 1 (fst a) ++ be_enc 2 (lenN (snd a)) ++ flat_map wr_nalu (snd a).
(* GeneralConstraintIndicatorFlags = ReadUint32()<<16 | ReadUint16(), written by WriteUint48: six bytes, big endian.
   rsv: the 4 reserved bits beside MinSpatialSegmentationIDC, the 6+6 beside ParallellismType and ChromaFormatIDC,
   the 5+5 beside the bit depths (numbers, one-element chunks); then (dec_hvcC) the bytes after the record *)
Definition hvcc_rec : parser (leaf * rsvT) :=
  pdo cv <- rd 1 ;;
  if negb (cv =? 1) then pfail else
  pdo a <- rd 1 ;; pdo compat <- rd 4 ;; pdo cstr <- rd 6 ;; pdo lvl <- rd 1 ;;
  pdo mss <- rd 2 ;; pdo par <- rd 1 ;; pdo chroma <- rd 1 ;; pdo bdl <- rd 1 ;; pdo bdc <- rd 1 ;;
  pdo afr <- rd 2 ;; pdo b <- rd 1 ;;
  if negb (b mod 4 =? 3) then pfail else          (* ErrLengthSize *)
  pdo na <- rd 1 ;;
  pdo arrays <- rd_many 256 na rd_narr ;;
  pret (LHvcC ((a / 64) mod 4) ((a / 32) mod 2 =? 1) (a mod 32) compat cstr lvl (mss mod 4096) (par mod 4) (chroma mod 4)
              (bdl mod 8) (bdc mod 8) afr ((b / 64) mod 4) ((b / 8) mod 8) ((b / 4) mod 2) arrays,
        [[mss / 4096]; [par / 4]; [chroma / 4]; [bdl / 8]; [bdc / 8]]).
Definition dec_hvcC (h : hdr) : parser (leaf * rsvT) :=
  pdo data <- rdB (payload_len h) ;;
  fun r => match hvcc_rec data with
           | Ok ((l, rsv), extra) => Ok ((l, rsv ++ [extra]), r)
           | Err => Err | Panic => Panic | OutOfFuel => OutOfFuel
           end.

(* ---------------------------------------------------------------- subs *)
Definition rd_subsample (w : nat) : parser (N * N * N * N) :=
  pdo sz <- rd w ;; pdo pr <- rd 1 ;; pdo di <- rd 1 ;; pdo csp <- rd 4 ;; pret (sz, pr, di, csp).
Definition wr_subsample (w : nat) (s : N * N * N * N) : list N :=
  match s with (sz, pr, di, csp) => be_enc w sz ++ be_enc 1 pr ++ be_enc 1 di ++ be_enc 4 csp end.
Definition rd_subs_entry (w : nat) : parser (N * list (N * N * N * N)) :=
  pdo delta <- rd 4 ;; pdo n <- rd 2 ;;
  fun bs => (pdo ss <- rd_many (S (length bs)) n (rd_subsample w) ;; pret (delta, ss)) bs.
Definition wr_subs_entry (w : nat) (e : N * list (N * N * N * N)) : list N :=
  be_enc 4 (fst e) ++ be_enc 2 (lenN (snd e)) ++ flat_map (wr_subsample w) (snd e).
(* the subsample size is 32 bits wide on version == 1 only (decode, encode and Size agree) *)
Definition subs_w (v : N) : nat := if v =? 1 then 4%nat else 2%nat.
Definition dec_subs (h : hdr) : parser (leaf * rsvT) :=
  pdo vf <- rd 4 ;; pdo cnt <- rd 4 ;;
  fun bs => (pdo es <- rd_many (S (length bs)) cnt (rd_subs_entry (subs_w (vf_version vf))) ;;
             pret (LSubs (vf_version vf) (vf_flags vf) es, [])) bs.

(* ---------------------------------------------------------------- esds (mp4/esds.go, mp4/descriptors.go) *)
(* The FixedSliceReader accumulates its error: after a read beyond the slice every later read returns nothing and
   DecodeEsdsSR ends with sr.AccError(), so ONE short read makes the whole box fail (DHard / Err).  A descriptor
   that fails for another reason (DSoft: maxNrBytes < 2, tag 3, size beyond maxNrBytes, nested failure) makes its
   parent take the rest of its bytes as UnknownData. *)
Definition int64 (x : N) : Z :=
  if x <? 9223372036854775808 then Z.of_N x else (Z.of_N x - 18446744073709551616)%Z.
Definition sfs_of (nb : N) : N := (nb - 1) mod 256.          (* sizeFieldSizeMinus1 is a byte *)

(* readSizeSize: 7 bits per byte, the top bit says that another byte follows; the value accumulates in a uint64.
   Returns (number of bytes, value, the bytes) *)
Fixpoint sz_loop (bs : list N) (acc : N) : res ((N * N * list N) * list N) :=
  match bs with
  | [] => Err
  | b :: t =>
      let acc' := u64 (acc * 128 + b mod 128) in
      if 128 <=? b then
        match sz_loop t acc' with
        | Ok ((nb, sz, raw), r) => Ok ((nb + 1, sz, b :: raw), r)
        | Err => Err | Panic => Panic | OutOfFuel => OutOfFuel
        end
      else Ok ((1, acc', [b]), t)
  end.
(* writeDescriptorSize(sw, size, sizeFieldSizeMinus1): for pos := sfs; pos >= 0; pos-- *)
Fixpoint wr_size (size : N) (pos : nat) : list N :=
  match pos with
  | O => [size mod 128]
  | S p => ((size / 2 ^ (7 * N.of_nat pos)) mod 128 + 128) :: wr_size size p
  end.

Inductive dres := DOk (d : desc) (rsv : rsvT) (rest : list N) | DSoft | DHard | DFuel.
Inductive lres := LDone (ds : list desc) (rsv : rsvT) (rest : list N)
                | LUnknown (ds : list desc) (rsv : rsvT) (u : list N) (rest : list N) | LTooFar | LHard | LFuel.

(* the `for { nrBytesLeft := int(size) - (currPos - dataStart) ... }` loop of DecodeESDescriptor and
   DecodeDecoderConfigDescriptor; dd = DecodeDescriptor, used = currPos - dataStart *)
Fixpoint dec_loop (dd : Z -> list N -> dres) (k : nat) (size : Z) (used : N) (bs : list N) : lres :=
  match k with
  | O => LFuel
  | S k' =>
      let left := (size - Z.of_N used)%Z in
      if (left =? 0)%Z then LDone [] [] bs
      else if (left <? 0)%Z then LTooFar
      else match dd left bs with
           | DOk d rsv r =>
               match dec_loop dd k' size (used + (lenN bs - lenN r)) r with
               | LDone ds rs r' => LDone (d :: ds) (rsv ++ rs) r'
               | LUnknown ds rs u r' => LUnknown (d :: ds) (rsv ++ rs) u r'
               | LTooFar => LTooFar | LHard => LHard | LFuel => LFuel
               end
           | DSoft => match rdB (Z.to_N left) bs with     (* sr.SetPos(currPos); UnknownData = sr.ReadBytes(nrBytesLeft) *)
                      | Ok (u, r) => LUnknown [] [] u r
                      | _ => LHard
                      end
           | DHard => LHard
           | DFuel => LFuel
           end
  end.

Definition rd_dcd_fields : parser (N * N * N * N) :=
  pdo ot <- rd 1 ;; pdo x <- rd 4 ;; pdo maxbr <- rd 4 ;; pdo avgbr <- rd 4 ;; pret (ot, x, maxbr, avgbr).

(* DecodeDecoderConfigDescriptor after tag and size field *)
Definition dec_dcd (dd : Z -> list N -> dres) (k : nat) (nb size : N) (raw : list N) (r : list N) : dres :=
  match rd_dcd_fields r with
  | Ok ((ot, x, maxbr, avgbr), r1) =>
      let left := (int64 size - 13)%Z in
      if (left =? 0)%Z then DOk (DDcd nb ot (x / 16777216) (x mod 16777216) maxbr avgbr [] []) [raw] r1
      else match dd left r1 with
           | DOk d1 rs1 r2 =>
               match dec_loop dd k (int64 size) (13 + (lenN r1 - lenN r2)) r2 with
               | LDone ds rs r3 => DOk (DDcd nb ot (x / 16777216) (x mod 16777216) maxbr avgbr (d1 :: ds) []) (raw :: rs1 ++ rs) r3
               | LUnknown ds rs u r3 => DOk (DDcd nb ot (x / 16777216) (x mod 16777216) maxbr avgbr (d1 :: ds) u) (raw :: rs1 ++ rs) r3
               | LTooFar => DSoft | LHard => DHard | LFuel => DFuel
               end
           | DSoft => DSoft | DHard => DHard | DFuel => DFuel
           end
  | _ => DHard
  end.

(* sr.ReadBytes(int(n)) for a uint64 n: a negative int sets the reader's error *)
Definition rd_bytes64 (n : N) (bs : list N) : option (list N * list N) :=
  if 9223372036854775808 <=? n then None
  else match rdB n bs with Ok (x, r) => Some (x, r) | _ => None end.

(* DecodeDescriptor(sr, maxNrBytes); the fuel bounds the nesting and the loops *)
Fixpoint dec_desc (fuel : nat) (maxNr : Z) (bs : list N) : dres :=
  match fuel with
  | O => DFuel
  | S fu =>
      if (maxNr <? 2)%Z then DSoft else
      match bs with
      | [] => DHard
      | tag :: t =>
          if tag =? 3 then DSoft                                   (* "use DecodeESDescriptor instead" *)
          else match sz_loop t 0 with
               | Ok ((nb, size, raw), r) =>
                   (* exceedsMaxNrBytes: 1+uint64(sizeFieldSizeMinus1)+1+size > uint64(maxNrBytes) *)
                   if Z.to_N maxNr <? u64 (2 + sfs_of nb + size) then DSoft
                   else if tag =? 4 then dec_dcd (dec_desc fu) fu nb size raw r
                   else if tag =? 5 then
                     match rd_bytes64 size r with Some (dc, r') => DOk (DDsi nb dc) [raw] r' | None => DHard end
                   else if tag =? 6 then
                     match r with
                     | [] => DHard
                     | cv :: r1 =>
                         if size =? 0 then DSoft      (* "SLConfigDescriptor size 0 too small" (repo commit 89e24df) *)
                         else if 1 <? size then
                           match rd_bytes64 (size - 1) r1 with Some (more, r') => DOk (DSlc nb cv more) [raw] r' | None => DHard end
                         else DOk (DSlc nb cv []) [raw] r1
                     end
                   else match rd_bytes64 size r with Some (data, r') => DOk (DRaw tag nb data) [raw] r' | None => DHard end
               | _ => DHard
               end
      end
  end.

(* Size() / SizeSize() of the descriptors *)
Fixpoint desc_size_of (d : desc) : N :=
  match d with
  | DDcd _ _ _ _ _ _ cs u =>
      13 + (fix sum (l : list desc) : N :=
              match l with [] => 0 | c :: r => (1 + sfs_of (match c with DDcd nb _ _ _ _ _ _ _ => nb | DDsi nb _ => nb | DSlc nb _ _ => nb | DRaw _ nb _ => nb end) + 1 + desc_size_of c) + sum r end) cs
      + lenN u
  | DDsi _ dc => lenN dc
  | DSlc _ _ more => 1 + lenN more
  | DRaw _ _ data => lenN data
  end.
Definition desc_nb (d : desc) : N :=
  match d with DDcd nb _ _ _ _ _ _ _ => nb | DDsi nb _ => nb | DSlc nb _ _ => nb | DRaw _ nb _ => nb end.
Definition desc_sizesize (d : desc) : N := 1 + sfs_of (desc_nb d) + 1 + desc_size_of d.
Definition sizes_sum (l : list desc) : N := sumN (map desc_sizesize l).

(* EncodeSW of a descriptor; the size fields are taken from the stream of chunks r (captured ones, or dflt_desc) *)
Fixpoint enc_desc (d : desc) (r : rsvT) : list N * rsvT :=
  match d with
  | DDcd _ ot st buf maxbr avgbr cs u =>
      let '(body, r') :=
        (fix go (l : list desc) (r : rsvT) : list N * rsvT :=
           match l with
           | [] => ([], r)
           | c :: t => let '(x, r1) := enc_desc c r in let '(y, r2) := go t r1 in (x ++ y, r2)
           end) cs (tl r) in
      (* streamTypeAndBufferSizeDB := (uint32(d.StreamType) << 24) | d.BufferSizeDB *)
      ([4] ++ hd [] r ++ be_enc 1 ot ++ be_enc 4 (N.lor (u32 (st * 16777216)) buf) ++ be_enc 4 maxbr ++ be_enc 4 avgbr ++
       body ++ u, r')
  | DDsi _ dc => ([5] ++ hd [] r ++ dc, tl r)
  | DSlc _ cv more => ([6] ++ hd [] r ++ [cv] ++ more, tl r)
  | DRaw tag _ data => ([tag] ++ hd [] r ++ data, tl r)
  end.
Fixpoint enc_descs (l : list desc) (r : rsvT) : list N * rsvT :=
  match l with
  | [] => ([], r)
  | c :: t => let '(x, r1) := enc_desc c r in let '(y, r2) := enc_descs t r1 in (x ++ y, r2)
  end.
(* the size fields as the encoder writes them, in the order enc_desc consumes them *)
Fixpoint dflt_desc (d : desc) : rsvT :=
  wr_size (desc_size_of d) (N.to_nat (sfs_of (desc_nb d))) ::
  match d with
  | DDcd _ _ _ _ _ _ cs _ => (fix go (l : list desc) : rsvT := match l with [] => [] | c :: t => dflt_desc c ++ go t end) cs
  | _ => []
  end.
Definition dflt_descs (l : list desc) : rsvT := flat_map dflt_desc l.
Fixpoint nounk (d : desc) : bool :=
  match d with
  | DDcd _ _ _ _ _ _ cs u => (lenN u =? 0) && (fix go (l : list desc) : bool := match l with [] => true | c :: t => nounk c && go t end) cs
  | _ => true
  end.

Definition es_opt_size (fl : N) (url : list N) : N :=
  (if fl / 128 =? 1 then 2 else 0) + (if (fl / 64) mod 2 =? 1 then 1 + lenN url else 0) + (if (fl / 32) mod 2 =? 1 then 2 else 0).
Definition es_size_of (fl : N) (url : list N) (dcd : desc) (cs : list desc) (u : list N) : N :=
  3 + es_opt_size fl url + desc_sizesize dcd + sizes_sum cs + lenN u.
Definition esds_dflt (nb fl : N) (url : list N) (dcd : desc) (cs : list desc) (u : list N) : rsvT :=
  wr_size (es_size_of fl url dcd cs u) (N.to_nat (sfs_of nb)) :: dflt_desc dcd ++ dflt_descs cs.
Fixpoint rsv_eqb0 (r d : rsvT) : bool :=
  match r, d with
  | [], [] => true
  | c :: r', e :: d' => bytes_eqb c e && rsv_eqb0 r' d'
  | _, _ => false
  end.
Definition esds_canon (rsv : rsvT) (nb fl : N) (url : list N) (dcd : desc) (cs : list desc) (u : list N) : bool :=
  rsv_eqb0 rsv (esds_dflt nb fl url dcd cs u) && nounk dcd && forallb nounk cs && (lenN u =? 0).

Definition rd_es_fields : parser (N * N * N * list N * N) :=
  pdo esid <- rd 2 ;; pdo fl <- rd 1 ;;
  pdo dep <- rd_if (fl / 128 =? 1) 2 ;;
  pdo url <- (if (fl / 64) mod 2 =? 1 then (pdo n <- rd 1 ;; rdB n) else pret []) ;;
  pdo ocr <- rd_if ((fl / 32) mod 2 =? 1) 2 ;;
  pret (esid, fl, dep, url, ocr).

(* DecodeEsdsSR: versionAndFlags, DecodeESDescriptor (descSize is not used by the Go code), sr.AccError().
   Fuel: nesting depth and loop counts are bounded by half the number of bytes the reader can reach.  dec_esds_in is
   the run on the reader `psr` over the payload of the box (see dec_esds below; before repo commit 27ea537 it ran on
   the caller's reader and a descriptor announcing more than the box holds was completed with the bytes behind the
   box, finding C03-F7).  The fuel is the announced box size plus 65536 -- more than the payload can need, enough for
   every slice below 128 KiB on a direct call, the same in a second decode of the re-encoded box (the header is the
   same), and OutOfFuel is a separate outcome that the theorems exclude. *)
Definition dec_esds_in (h : hdr) : parser (leaf * rsvT) :=
  pdo vf <- rd 4 ;;
  fun bs =>
    let F := S (N.to_nat (h_size h + 65536)) in
    let dd := dec_desc F in
    match bs with
    | [] => Err
    | tag :: t =>
        if negb (tag =? 3) then Err else
        match sz_loop t 0 with
        | Ok ((nb, size, raw), r) =>
            match rd_es_fields r with
            | Ok ((esid, fl, dep, url, ocr), r1) =>
                let mk dcd cs u rsv := LEsds (vf_version vf) (vf_flags vf) nb esid fl dep url ocr dcd cs u
                                             (esds_canon rsv nb fl url dcd cs u) in
                match dd (int64 size - Z.of_N (lenN r - lenN r1))%Z r1 with
                | DOk (DDcd a b c d0 e0 f0 g0 h0) rs1 r2 =>
                    let dcd := DDcd a b c d0 e0 f0 g0 h0 in
                    let left2 := (int64 size - Z.of_N (lenN r - lenN r2))%Z in
                    match dd left2 r2 with
                    | DOk d2 rs2 r3 =>
                        match dec_loop dd F (int64 size) (lenN r - lenN r3) r3 with
                        | LDone ds rs r4 =>
                            let rsv := raw :: rs1 ++ rs2 ++ rs in
                            if negb (size =? es_size_of fl url dcd (d2 :: ds) []) then Err
                            else Ok ((mk dcd (d2 :: ds) [] rsv, rsv), r4)
                        | LUnknown ds rs u r4 =>
                            let rsv := raw :: rs1 ++ rs2 ++ rs in Ok ((mk dcd (d2 :: ds) u rsv, rsv), r4)
                        | LTooFar => Err | LHard => Err | LFuel => OutOfFuel
                        end
                    | DSoft =>
                        if (left2 <? 0)%Z then Err
                        else match rdB (Z.to_N left2) r2 with
                             | Ok (u, r3) => let rsv := raw :: rs1 in Ok ((mk dcd [] u rsv, rsv), r3)
                             | _ => Err
                             end
                    | DHard => Err | DFuel => OutOfFuel
                    end
                | DOk _ _ _ => Err                    (* "expected DecoderConfigDescriptor" *)
                | DSoft => Err | DHard => Err | DFuel => OutOfFuel
                end
            | _ => Err
            end
        | _ => Err
        end
    end.

(* DecodeEsdsSR since repo commit 27ea537: payload := sr.ReadBytes(hdr.payloadLen()); the box is decoded with a reader
   of its own over the payload (psr), as the reader path DecodeEsds always did, so no descriptor is completed with the
   bytes that follow the box; sr.SetPos(initPos + psr.GetPos()): the caller's reader ends behind the ES descriptor. *)
Definition dec_esds (h : hdr) : parser (leaf * rsvT) :=
  fun bs =>
    match rdB (payload_len h) bs with
    | Ok (data, rest) =>
        match dec_esds_in h data with
        | Ok (x, extra) => Ok (x, extra ++ rest)
        | Err => Err | Panic => Panic | OutOfFuel => OutOfFuel
        end
    | Err => Err | Panic => Panic | OutOfFuel => OutOfFuel
    end.

(* ---------------------------------------------------------------- uuid (mp4/uuid.go) *)
Definition uuid_tfxd : list N := [109; 29; 155; 5; 66; 213; 68; 230; 128; 226; 20; 29; 175; 247; 87; 178].
Definition uuid_tfrf : list N := [212; 128; 126; 242; 202; 57; 70; 149; 142; 84; 38; 203; 158; 70; 167; 159].
Definition uuid_piff : list N := [162; 57; 79; 82; 90; 155; 79; 20; 162; 68; 108; 66; 124; 100; 141; 244].
Definition rd_pairw (w : nat) : parser (N * N) := pdo a <- rd w ;; pdo b <- rd w ;; pret (a, b).
Definition wr_pairw (w : nat) (p : N * N) : list N := be_enc w (fst p) ++ be_enc w (snd p).
Definition uuid_w (v : N) : nat := if v =? 0 then 4%nat else 8%nat.
(* the PIFF variant hands DecodeSencSR the header {"senc", hdr.Size - 16, 8}; the unknown variant reads
   int(hdr.Size) - 8 - 16 bytes whatever the header length *)
Definition dec_uuid (h : hdr) : parser (leaf * rsvT) :=
  pdo u <- rdB 16 ;;
  if bytes_eqb u uuid_tfxd then
    (pdo vf <- rd 4 ;; pdo t <- rd (uuid_w (vf_version vf)) ;; pdo d <- rd (uuid_w (vf_version vf)) ;;
     pret (LUuidTfxd (vf_version vf) (vf_flags vf) t d, []))
  else if bytes_eqb u uuid_tfrf then
    (pdo vf <- rd 4 ;; pdo cnt <- rd 1 ;;
     pdo es <- rd_many 256 cnt (rd_pairw (uuid_w (vf_version vf))) ;;
     pret (LUuidTfrf (vf_version vf) (vf_flags vf) cnt es, []))
  else if bytes_eqb u uuid_piff then
    (if h_size h <? 16 then pfail else
     pdo x <- dec_senc (mkHdr n_senc (h_size h - 16) 8) ;;
     match fst x with
     | LSenc fl cnt raw rs np => pret (LUuidSenc fl cnt raw rs np, [])
     | _ => pfail
     end)
  else if h_size h <? 24 then pfail
  else pdo p <- rdB (h_size h - 24) ;; pret (LUuidUnk u p, []).

(* ---------------------------------------------------------------- sgpd (mp4/sgpd.go, mp4/samplegroupentries.go) *)
Definition sge_size (e : sge) : N :=
  match e with
  | SSeig _ _ isp ivs _ civ => 20 + (if (isp =? 1) && (ivs =? 0) then 1 + lenN civ else 0)
  | SRoll _ => 2
  | SRap _ _ => 1
  | SAlst _ _ offs outs => 4 + 4 * lenN offs + 2 * lenN outs + 2 * lenN outs
  | SUnk d => lenN d
  end.
Definition rd_pair16 : parser (N * N) := pdo a <- rd 2 ;; pdo b <- rd 2 ;; pret (a, b).
Definition wr_pair16 (p : N * N) : list N := be_enc 2 (fst p) ++ be_enc 2 (snd p).
(* decodeSampleGroupEntry(name, length, sr) followed by the check sgEntry.Size() == descriptionLength of DecodeSgpdSR;
   the second component is the reserved byte that a seig entry skips (0 for the other kinds) *)
Definition rd_sge (gt : list N) (dl : N) : parser (sge * N) :=
  if bytes_eqb gt n_seig then
    (pdo rs <- rd 1 ;; pdo b2 <- rd 1 ;; pdo isp <- rd 1 ;; pdo ivs <- rd 1 ;; pdo kid <- rdB 16 ;;
     pdo civ <- (if (isp =? 1) && (ivs =? 0) then (pdo n <- rd 1 ;; rdB n) else pret []) ;;
     let e := SSeig (b2 / 16) (b2 mod 16) isp ivs kid civ in
     if negb (dl =? sge_size e) then pfail else pret (e, rs))
  else if bytes_eqb gt n_roll then
    (pdo d <- rd 2 ;; if negb (dl =? 2) then pfail else pret (SRoll d, 0))
  else if bytes_eqb gt n_rap then
    (pdo b <- rd 1 ;; if negb (dl =? 1) then pfail else pret (SRap (b / 128) (b mod 128), 0))
  else if bytes_eqb gt n_alst then
    (pdo rc <- rd 2 ;; pdo first <- rd 2 ;;
     fun bs0 =>
       (pdo offs <- rd_many (S (length bs0)) rc (rd 4) ;;
        if dl <? 4 + 4 * rc then pfail else
        let rem := (dl - (4 + 4 * rc)) / 4 in            (* int(length-uint32(entry.Size())) / 4 *)
        if rem =? 0 then (if negb (dl =? 4 + 4 * rc) then pfail else pret (SAlst rc first offs [], 0))
        else fun bs =>
          if lenN bs / 4 <? rem then Err                 (* remaining > sr.NrRemainingBytes()/4 *)
          else (pdo outs <- rd_many (S (length bs)) rem rd_pair16 ;;
                if negb (dl =? 4 + 4 * rc + 4 * rem) then pfail else pret (SAlst rc first offs outs, 0)) bs) bs0)
  else (pdo d <- rdB dl ;; pret (SUnk d, 0)).
Definition wr_sge (e : sge) (rb : N) : list N :=
  match e with
  | SSeig crypt skip isp ivs kid civ =>
      be_enc 1 rb ++ be_enc 1 (N.lor (u8 (crypt * 16)) skip) ++ be_enc 1 isp ++ be_enc 1 ivs ++ kid ++
      (if (isp =? 1) && (ivs =? 0) then be_enc 1 (lenN civ) ++ civ else [])
  | SRoll d => be_enc 2 d
  | SRap known num => be_enc 1 (N.lor (u8 (known * 128)) num)
  | SAlst rc first offs outs => be_enc 2 rc ++ be_enc 2 first ++ flat_map (be_enc 4) offs ++ flat_map wr_pair16 outs
  | SUnk d => d
  end.
(* one entry of the loop of DecodeSgpdSR: the description length (DefaultLength, or read when that is 0 and version >= 1) *)
Definition rd_sgpd_item (v dlen : N) (gt : list N) : parser ((N * sge) * N) :=
  pdo dl <- (if (1 <=? v) && (dlen =? 0) then rd 4 else pret dlen) ;;
  if dl =? 0 then pfail else
  pdo x <- rd_sge gt dl ;; pret ((dl, fst x), snd x).
Definition wr_sgpd_item (dlen : N) (it : (N * sge) * N) : list N :=
  (if dlen =? 0 then be_enc 4 (fst (fst it)) else []) ++ wr_sge (snd (fst it)) (snd it).
Definition dec_sgpd (h : hdr) : parser (leaf * rsvT) :=
  pdo vf <- rd 4 ;;
  let v := vf_version vf in
  pdo gt <- rdB 4 ;;
  pdo dlen <- rd_if (1 <=? v) 4 ;;
  pdo dgdi <- rd_if (2 <=? v) 4 ;;
  pdo cnt <- rd 4 ;;
  fun bs => (pdo its <- rd_many (S (length bs)) cnt (rd_sgpd_item v dlen gt) ;;
             pret (LSgpd v (vf_flags vf) gt dlen dgdi (map fst its), [map snd its])) bs.

(* ================================================================ stage 5 *)
(* vttC vlab ctim iden sttg payl vtta: `sr.ReadFixedLengthString(hdr.payloadLen())`, Size 8+len, the string written
   back: the same three texts as free/skip (dec_free; a Go string holds any bytes).
   vtte: DecodeVtteSR reads nothing, Size() = 8, Encode writes the header.
   vsid: SourceID = sr.ReadUint32(), Size() = 12 (the four bytes are kept as bytes). *)
(* ---------------------------------------------------------------- data (mp4/ffmpeg.go) *)
(* typeIndicator := sr.ReadUint32(); locale := sr.ReadUint32(); Data = sr.ReadBytes(payloadLen-8) (a negative count is an
   error); sr.AccError() *)
Definition dec_data (h : hdr) : parser (leaf * rsvT) :=
  pdo t <- rd 4 ;; pdo loc <- rd 4 ;;
  if payload_len h <? 8 then pfail else
  pdo d <- rdB (payload_len h - 8) ;; pret (LData t loc d, []).

(* ---------------------------------------------------------------- mime *)
(* the payload check comes after the version and flags have been read; rest[len(rest)-1] decides the termination *)
Definition dec_mime (h : hdr) : parser (leaf * rsvT) :=
  pdo vf <- rd 4 ;;
  if payload_len h <? 5 then pfail else
  pdo rest <- rdB (payload_len h - 4) ;;
  if last rest 0 =? 0 then pret (LMime (vf_version vf) (vf_flags vf) (removelast rest) false, [])
  else pret (LMime (vf_version vf) (vf_flags vf) rest true, []).

(* ---------------------------------------------------------------- wvtt prefix (WebVTT sample entry) *)
(* sr.SkipBytes(6); DataReferenceIndex = sr.ReadUint16(); then `for pos < endPos { DecodeBoxSR; pos += box.Size() }` from
   pos = startPos+16 (PEntry 16).  DecodeWvttSR never asks sr.AccError(): when the slice ends inside the eight bytes the
   reader is left in its error state, the index is 0, and the box is accepted if no child is due (Size <= 16); a child
   decode on the errored reader fails (size 0). *)
Definition dec_wvtt (h : hdr) : parser (leaf * rsvT) := fun bs =>
  match rdB 6 bs with
  | Ok (r6, r1) =>
      match rd 2 r1 with
      | Ok (dri, r2) => Ok ((LWvtt dri false, [r6]), r2)
      | _ => if 16 <? h_size h then Err else Ok ((LWvtt 0 true, [r6]), r1)
      end
  | _ => if 16 <? h_size h then Err else Ok ((LWvtt 0 true, [zeros 6]), bs)
  end.

(* ---------------------------------------------------------------- dac3 / dec3 (bits.Reader over the whole payload) *)
(* decoders of the shape `data := sr.ReadBytes(hdr.payloadLen()); return decodeXxxFromData(data)` *)
Definition dec_whole (f : list N -> option leaf) (h : hdr) : parser (leaf * rsvT) :=
  pdo data <- rdB (payload_len h) ;;
  fun r => match f data with Some l => Ok ((l, []), r) | None => Err end.

Definition dac3_word (fscod bsid bsmod acmod lfeon brc rsvd : N) : N :=
  fscod * 4194304 + bsid * 131072 + bsmod * 16384 + acmod * 2048 + lfeon * 1024 + brc * 32 + rsvd.
(* the seven bit fields of the 24-bit word, most significant first: 2 5 3 3 1 5 5 bits *)
Definition dac3_fields (w : N) : N * N * N * N * N * N * N :=
  let q1 := w / 32 in let q2 := q1 / 32 in let q3 := q2 / 2 in let q4 := q3 / 8 in let q5 := q4 / 8 in let q6 := q5 / 32 in
  (q6 mod 4, q5 mod 32, q4 mod 8, q3 mod 8, q2 mod 2, q1 mod 32, w mod 32).
(* bits.Reader.Read answers 0 for a field that needs a byte behind the end of the data, and for every field after it:
   with n < 3 bytes the fields ending at bit 2 7 10 13 14 19 24 survive when they end within 8*n bits *)
Definition dac3_cut (n : N) (e v : N) : N := if e <=? 8 * n then v else 0.
(* decodeDac3FromData: InitialZeroes = byte(len(data)-3) when len(data) > 3; those bytes must be 0; then the 24 bits *)
Definition dac3_of (data : list N) : option leaf :=
  let n := lenN data in
  if n <? 3 then
    match dac3_fields (nth 0 data 0 * 65536 + nth 1 data 0 * 256) with
    | (a, b, c, d, e, f, g) =>
        let k := dac3_cut n in Some (LDac3 (k 2 a) (k 7 b) (k 10 c) (k 13 d) (k 14 e) (k 19 f) (k 24 g) 0 false)
    end
  else
    let iz := if 3 <? n then u8 (n - 3) else 0 in
    match rdB iz data with
    | Ok (zs, rest) =>
        if negb (forallb (N.eqb 0) zs) then None else
        match rd 3 rest with
        | Ok (w, extra) =>
            match dac3_fields w with
            | (a, b, c, d, e, f, g) => Some (LDac3 a b c d e f g iz (lenN extra =? 0))
            end
        | _ => None
        end
    | _ => None
    end.
Definition dec_dac3 : hdr -> parser (leaf * rsvT) := dec_whole dac3_of.

(* one EC3Sub, three bytes or four (ChanLoc present when NumDepSub > 0); the flag says that the reserved bits were 0 *)
Definition rd_ec3sub : parser ((N * N * N * N * N * N * N * N) * bool) :=
  pdo b0 <- rd 1 ;; pdo b1 <- rd 1 ;; pdo b2 <- rd 1 ;;
  let nds := (b2 / 2) mod 16 in
  let flds cl := (b0 / 64, (b0 / 2) mod 32, b1 / 128, (b1 / 16) mod 8, (b1 / 2) mod 8, b1 mod 2, nds, cl) in
  if 0 <? nds then (pdo b3 <- rd 1 ;; pret (flds ((b2 mod 2) * 256 + b3), (b0 mod 2 =? 0) && (b2 / 32 =? 0)))
  else pret (flds 0, (b0 mod 2 =? 0) && (b2 / 32 =? 0) && (b2 mod 2 =? 0)).
Definition wr_ec3sub (s : N * N * N * N * N * N * N * N) : list N :=
  match s with (fscod, bsid, asvc, bsmod, acmod, lfeon, nds, cl) =>
    be_enc 1 (fscod * 64 + bsid * 2) ++ be_enc 1 (asvc * 128 + bsmod * 16 + acmod * 2 + lfeon) ++
    be_enc 1 (nds * 2 + (if 0 <? nds then cl / 256 else 0)) ++ (if 0 <? nds then be_enc 1 (cl mod 256) else [])
  end.
(* decodeDec3FromData: DataRate (13 bits), nrSubs-1 (3 bits), the substreams (an error when the data ends inside one),
   Reserved = the remaining bytes *)
Definition dec3_of (data : list N) : option leaf :=
  match (pdo hd <- rd 2 ;; pdo subs <- rd_many 9 (hd mod 8 + 1) rd_ec3sub ;; pret (hd / 8, subs)) data with
  | Ok ((dr, subs), reserved) => Some (LDec3 dr (map fst subs) reserved (forallb snd subs))
  | _ => None
  end.
Definition dec_dec3 : hdr -> parser (leaf * rsvT) := dec_whole dec3_of.

Definition dec_empty (h : hdr) : parser (leaf * rsvT) := pret (LFree (h_name h) [], []).
Definition dec_b4 (h : hdr) : parser (leaf * rsvT) := pdo d <- rdB 4 ;; pret (LFree (h_name h) d, []).

(* ---------------------------------------------------------------- encoders (bodies) *)
Definition ok_bytes (l : list N) : res (list N) := Ok l.

Definition body_leaf (l : leaf) (r : rsvT) : res (list N) :=
  match l with
  | LFtyp _ data => Ok data
  | LFree _ data => Ok data
  | LMdat _ data => Ok data
  | LMfhd v f seq => Ok (be_enc 4 (vf_join v f) ++ be_enc 4 seq)
  | LTfhd v f tid bdo sdi dur sz sf =>
      Ok (be_enc 4 (vf_join v f) ++ be_enc 4 tid ++ wr_if (has f 1) 8 bdo ++ wr_if (has f 2) 4 sdi ++
          wr_if (has f 8) 4 dur ++ wr_if (has f 16) 4 sz ++ wr_if (has f 32) 4 sf)
  | LTfdt v f t => Ok (be_enc 4 (vf_join v f) ++ (if v =? 0 then be_enc 4 t else be_enc 8 t))
  | LTrun v f doff fsf samples =>
      if has f 1 && (doff =? 0) then Err     (* "trun data offset not set" (an error since repo commit babad8a) *)
      else Ok (be_enc 4 (vf_join v f) ++ be_enc 4 (lenN samples) ++ wr_if (has f 1) 4 doff ++
               wr_if (has f 4) 4 fsf ++ flat_map (wr_tsample f) samples)
  | LMvhd v f ct mt ts du rate vol nt =>
      let w := if v =? 1 then 8%nat else 4%nat in   (* Version == 1 since repo commit 5633466 *)
      Ok (be_enc 4 (vf_join v f) ++ be_enc w ct ++ be_enc w mt ++ be_enc 4 ts ++ be_enc w du ++
          be_enc 4 rate ++ be_enc 2 vol ++ chunk 0 r ++ chunk 1 r ++ chunk 2 r ++ be_enc 4 nt)
  | LTkhd v f ct mt tid du layer ag vol wd ht =>
      let w := if v =? 1 then 8%nat else 4%nat in   (* Version == 1 since repo commit 1982f88 *)
      Ok (be_enc 4 (vf_join v f) ++ be_enc w ct ++ be_enc w mt ++ be_enc 4 tid ++ chunk 0 r ++ be_enc w du ++
          chunk 1 r ++ be_enc 2 layer ++ be_enc 2 ag ++ be_enc 2 vol ++ chunk 2 r ++ chunk 3 r ++
          be_enc 4 wd ++ be_enc 4 ht)
  | LSidx v f rid ts ept fo refs =>
      let w := if v =? 0 then 4%nat else 8%nat in
      Ok (be_enc 4 (vf_join v f) ++ be_enc 4 rid ++ be_enc 4 ts ++ be_enc w ept ++ be_enc w fo ++
          chunk 0 r ++ be_enc 2 (lenN refs) ++ flat_map wr_sref refs)
  | LTrex v f tid dsdi dur sz sf =>
      Ok (be_enc 4 (vf_join v f) ++ be_enc 4 tid ++ be_enc 4 dsdi ++ be_enc 4 dur ++ be_enc 4 sz ++ be_enc 4 sf)
  | LMdhd v f ct mt ts du lang =>
      let w := if v =? 1 then 8%nat else 4%nat in
      Ok (be_enc 4 (vf_join v f) ++ be_enc w ct ++ be_enc w mt ++ be_enc 4 ts ++ be_enc w du ++
          be_enc 2 lang ++ chunk 0 r)
  | LHdlr v f pd ht name lacks =>
      (* versionAndFlags uses | here; Flags < 2^24 makes it the same as + *)
      Ok (be_enc 4 (vf_join v f) ++ be_enc 4 pd ++ ht ++ chunk 0 r ++ name ++ (if lacks then [] else [0]))
  | LStts v f es =>
      Ok (be_enc 4 (vf_join v f) ++ be_enc 4 (lenN es) ++ flat_map wr_pair es)
  | LStsc v f es single ids =>
      (* b.SampleDescriptionID[i] panics when the slice is shorter than Entries *)
      if (single =? 0) && (lenN ids <? lenN es) then Panic
      else Ok (be_enc 4 (vf_join v f) ++ be_enc 4 (lenN es) ++ wr_stsc es single ids)
  | LStsz v f uni num ss =>
      Ok (be_enc 4 (vf_join v f) ++ be_enc 4 uni ++
          (if lenN ss =? 0 then be_enc 4 num else be_enc 4 (lenN ss) ++ flat_map (be_enc 4) ss))
  | LTab _ w v f items => Ok (be_enc 4 (vf_join v f) ++ be_enc 4 (lenN items) ++ flat_map (be_enc w) items)
  | LSdtp v f es => Ok (be_enc 4 (vf_join v f) ++ es)
  | LCtts v f ends offs =>
      if negb (lenN ends =? 1 + lenN offs) then Panic     (* EndSampleNr[i+1] out of range *)
      else Ok (be_enc 4 (vf_join v f) ++ be_enc 4 (lenN offs) ++ wr_ctts ends offs)
  | LElst v f es =>
      Ok (be_enc 4 (vf_join v f) ++ be_enc 4 (lenN es) ++ flat_map (wr_elst (if v =? 1 then 8%nat else 4%nat)) es)
  | LSaiz v f at_ ap dflt cnt info =>
      if (dflt =? 0) && (lenN info <? cnt) then Panic      (* b.SampleInfo[i] out of range *)
      else Ok (be_enc 4 (vf_join v f) ++ (if has f 1 then at_ ++ be_enc 4 ap else []) ++ be_enc 1 dflt ++ be_enc 4 cnt ++
               (if dflt =? 0 then flat_map (be_enc 1) (firstn (N.to_nat cnt) info) else []))
  | LSaio v f at_ ap os =>
      Ok (be_enc 4 (vf_join v f) ++ (if has f 1 then at_ ++ be_enc 4 ap else []) ++ be_enc 4 (lenN os) ++
          flat_map (be_enc (if v =? 0 then 4%nat else 8%nat)) os)
  | LSbgp v f gt gp es =>
      Ok (be_enc 4 (vf_join v f) ++ gt ++ wr_if (v =? 1) 4 gp ++ be_enc 4 (lenN es) ++ flat_map wr_pair es)
  | LPrft v f rid ntp mt =>
      Ok (be_enc 4 (vf_join v f) ++ be_enc 4 rid ++ be_enc 8 ntp ++ (if v =? 0 then be_enc 4 mt else be_enc 8 mt))
  | LTenc v f crypt skip isp ivs kid iv =>
      Ok (be_enc 4 (vf_join v f) ++ chunk 0 r ++
          (if v =? 0 then chunk 1 r else be_enc 1 (N.lor (u8 (crypt * 16)) skip)) ++
          be_enc 1 isp ++ be_enc 1 ivs ++ kid ++
          (if (isp =? 1) && (ivs =? 0) then be_enc 1 (lenN iv) ++ iv else []))
  | LFrma f => Ok f
  | LVmhd v f m c0 c1 c2 => Ok (be_enc 4 (vf_join v f) ++ be_enc 2 m ++ be_enc 2 c0 ++ be_enc 2 c1 ++ be_enc 2 c2)
  | LSmhd v f b => Ok (be_enc 4 (vf_join v f) ++ be_enc 2 b ++ chunk 0 r)
  | LFullOnly _ v f => Ok (be_enc 4 (vf_join v f))
  | LMfro v f ps => Ok (be_enc 4 (vf_join v f) ++ be_enc 4 ps)
  | LMehd v f d => Ok (be_enc 4 (vf_join v f) ++ (if v =? 0 then be_enc 4 d else be_enc 8 d))
  | LTfra v f tid lt lr ls es =>
      (* sizesBlock := uint32(LengthSizeOfTrafNum<<4 + LengthSizeOfTrunNum<<2 + LengthSizeOfSampleNum) (byte arithmetic) *)
      Ok (be_enc 4 (vf_join v f) ++ be_enc 4 tid ++ be_enc 4 (hd 0 (chunk 0 r) * 64 + u8 (lt * 16 + lr * 4 + ls)) ++
          be_enc 4 (lenN es) ++ flat_map (wr_tfra (tfra_w v) (tfra_n lt) (tfra_n lr) (tfra_n ls)) es)
  | LPssh v f sid kids data =>
      Ok (be_enc 4 (vf_join v f) ++ sid ++ (if 0 <? v then be_enc 4 (lenN kids) ++ flat_map (fun k => k) kids else []) ++
          be_enc 4 (lenN data) ++ data)
  (* stage 3: for the MPre kinds this is what is written between the box header and the children *)
  | LStsd v f cnt => Ok (be_enc 4 (vf_join v f) ++ be_enc 4 cnt)
  | LDref v f cnt => Ok (be_enc 4 (vf_join v f) ++ be_enc 4 cnt)
  | LVisual _ dri w ht hres vres fc cn =>
      (* compressorNameLength := byte(len(name)); WriteZeroBytes(int(31 - compressorNameLength)) in byte arithmetic *)
      Ok (chunk 0 r ++ be_enc 2 dri ++ chunk 1 r ++ be_enc 2 w ++ be_enc 2 ht ++ be_enc 4 hres ++ be_enc 4 vres ++
          chunk 2 r ++ be_enc 2 fc ++ be_enc 1 (lenN cn) ++ cn ++ chunk 3 r ++ chunk 4 r ++ chunk 5 r)
  | LAudio _ dri ch ss sr =>
      Ok (chunk 0 r ++ be_enc 2 dri ++ chunk 1 r ++ be_enc 2 ch ++ be_enc 2 ss ++ chunk 2 r ++ be_enc 2 sr ++ chunk 3 r)
  | LUrl v f loc noLoc noZero =>
      Ok (be_enc 4 (vf_join v f) ++ (if noLoc then [] else loc ++ (if noZero then [] else [0])))
  | LAvcC prof compat lvl sps pps chroma bdl bdc ne noTr =>
      Ok (be_enc 1 1 ++ be_enc 1 prof ++ be_enc 1 compat ++ be_enc 1 lvl ++
          be_enc 1 (N.lor 3 (hd 0 (chunk 0 r) * 4)) ++
          be_enc 1 (N.lor (u8 (lenN sps)) (hd 0 (chunk 1 r) * 32)) ++ flat_map wr_nalu sps ++
          be_enc 1 (lenN pps) ++ flat_map wr_nalu pps ++
          (if avc_plain prof || noTr then []
           else be_enc 1 (N.lor (hd 0 (chunk 2 r) * 4) chroma) ++ be_enc 1 (N.lor (hd 0 (chunk 3 r) * 8) bdl) ++
                be_enc 1 (N.lor (hd 0 (chunk 4 r) * 8) bdc) ++ be_enc 1 ne) ++
          chunk 5 r)
  | LBtrt a b c => Ok (be_enc 4 a ++ be_enc 4 b ++ be_enc 4 c)
  | LPasp a b => Ok (be_enc 4 a ++ be_enc 4 b)
  | LColr ct p t m fr pl =>
      if bytes_eqb ct n_nclx then
        Ok (ct ++ be_enc 2 p ++ be_enc 2 t ++ be_enc 2 m ++ be_enc 1 ((if fr then 128 else 0) + hd 0 (chunk 0 r)))
      else if bytes_eqb ct n_nclc then Ok (ct ++ be_enc 2 p ++ be_enc 2 t ++ be_enc 2 m)
      else Ok (ct ++ pl)
  | LClap a b c d e f g i =>
      Ok (be_enc 4 a ++ be_enc 4 b ++ be_enc 4 c ++ be_enc 4 d ++ be_enc 4 e ++ be_enc 4 f ++ be_enc 4 g ++ be_enc 4 i)
  | LSchm v f st sv uri =>
      Ok (be_enc 4 (vf_join v f) ++ st ++ be_enc 4 sv ++ (if has f 1 then uri ++ [0] else []))
  | LCslg v f a b c d e =>
      let w := if v =? 0 then 4%nat else 8%nat in
      Ok (be_enc 4 (vf_join v f) ++ be_enc w a ++ be_enc w b ++ be_enc w c ++ be_enc w d ++ be_enc w e)
  | LSenc f cnt raw rs np =>
      (* not readButNotParsed: perSampleIVSize is 0; with the sub-sample flag the loop indexes the empty SubSamples *)
      if negb np && has f 2 && (0 <? cnt) then Panic
      else Ok (be_enc 4 (vf_join 0 f) ++ be_enc 4 cnt ++ (if senc_keeps np cnt rs then raw else []))
  | LEmsg v f ts pt du id sc va d =>
      Ok (be_enc 4 (vf_join v f) ++
          (if v =? 1 then be_enc 4 ts ++ be_enc 8 pt ++ be_enc 4 du ++ be_enc 4 id ++ sc ++ [0] ++ va ++ [0]
           else sc ++ [0] ++ va ++ [0] ++ be_enc 4 ts ++ be_enc 4 pt ++ be_enc 4 du ++ be_enc 4 id) ++ d)
  | LElng missing v f _ => Ok ((if missing then [] else be_enc 4 (N.lor (u32 (v * 16777216)) f)) ++ chunk 0 r)
  | LKind v f sc va => Ok (be_enc 4 (vf_join v f) ++ sc ++ [0] ++ va ++ [0])
  | LHvcC sp tier idc compat cstr lvl mss par chroma bdl bdc afr cfr ntl tin arrays =>
      (* GeneralProfileSpace<<6 | generalTierFlagBit | GeneralProfileIDC etc. in byte arithmetic; 0xf000 | mss, 0xfc | .., 0xf8 | .. *)
      Ok (be_enc 1 1 ++ be_enc 1 (N.lor (N.lor (u8 (sp * 64)) (if tier then 32 else 0)) idc) ++ be_enc 4 compat ++
          be_enc 6 cstr ++ be_enc 1 lvl ++
          be_enc 2 (N.lor (hd 0 (chunk 0 r) * 4096) mss) ++ be_enc 1 (N.lor (hd 0 (chunk 1 r) * 4) par) ++
          be_enc 1 (N.lor (hd 0 (chunk 2 r) * 4) chroma) ++ be_enc 1 (N.lor (hd 0 (chunk 3 r) * 8) bdl) ++
          be_enc 1 (N.lor (hd 0 (chunk 4 r) * 8) bdc) ++ be_enc 2 afr ++
          be_enc 1 (N.lor (N.lor (N.lor (u8 (cfr * 64)) (u8 (ntl * 8))) (u8 (tin * 4))) 3) ++
          be_enc 1 (lenN arrays) ++ flat_map wr_narr arrays ++ chunk 5 r)
  | LSubs v f es =>
      Ok (be_enc 4 (vf_join v f) ++ be_enc 4 (lenN es) ++ flat_map (wr_subs_entry (subs_w v)) es)
  | LEsds v f nb esid fl dep url ocr dcd cs u _ =>
      let '(x, r1) := enc_desc dcd (tl r) in
      let '(y, _) := enc_descs cs r1 in
      Ok (be_enc 4 (vf_join v f) ++ [3] ++ hd [] r ++ be_enc 2 esid ++ be_enc 1 fl ++
          (if fl / 128 =? 1 then be_enc 2 dep else []) ++
          (if (fl / 64) mod 2 =? 1 then be_enc 1 (lenN url) ++ url else []) ++
          (if (fl / 32) mod 2 =? 1 then be_enc 2 ocr else []) ++ x ++ y ++ u)
  | LUuidTfxd v f t d =>
      Ok (uuid_tfxd ++ be_enc 4 (vf_join v f) ++ be_enc (uuid_w v) t ++ be_enc (uuid_w v) d)
  | LUuidTfrf v f cnt es =>
      (* for i := byte(0); i < t.FragmentCount; i++ { ...FragmentAbsoluteTimes[i]... } *)
      if lenN es <? cnt then Panic
      else Ok (uuid_tfrf ++ be_enc 4 (vf_join v f) ++ be_enc 1 cnt ++ flat_map (wr_pairw (uuid_w v)) (firstn (N.to_nat cnt) es))
  | LUuidSenc f cnt raw rs np =>      (* b.Senc.EncodeSWNoHdr *)
      if negb np && has f 2 && (0 <? cnt) then Panic
      else Ok (uuid_piff ++ be_enc 4 (vf_join 0 f) ++ be_enc 4 cnt ++ (if senc_keeps np cnt rs then raw else []))
  | LUuidUnk u p => Ok (u ++ p)
  | LSgpd v f gt dlen dgdi items =>
      (* the reserved byte of a seig entry is written as 0: chunk 0 holds one byte per entry *)
      Ok (be_enc 4 (vf_join v f) ++ gt ++ wr_if (1 <=? v) 4 dlen ++ wr_if (2 <=? v) 4 dgdi ++ be_enc 4 (lenN items) ++
          flat_map (wr_sgpd_item dlen) (combine items (chunk 0 r)))
  (* sw.WriteUint32(b.TypeIndicator()); sw.WriteUint32(b.Locale()); sw.WriteBytes(b.Data) -- of a decoded box *)
  | LData t loc d => Ok (be_enc 4 t ++ be_enc 4 loc ++ d)
  | LMime v f ct lacks => Ok (be_enc 4 (vf_join v f) ++ ct ++ (if lacks then [] else [0]))
  | LWvtt dri _ => Ok (chunk 0 r ++ be_enc 2 dri)
  (* InitialZeroes times WriteBits(0, 8), then the seven fields *)
  | LDac3 a b c d e f g iz _ => Ok (zeros (N.to_nat iz) ++ be_enc 3 (dac3_word a b c d e f g))
  (* WriteBits(DataRate, 13); WriteBits(len(EC3Subs)-1, 3); the substreams with their reserved bits 0; Reserved *)
  | LDec3 dr subs reserved _ => Ok (be_enc 2 (dr * 8 + (lenN subs - 1) mod 8) ++ flat_map wr_ec3sub subs ++ reserved)
  end.

(* WriteZeroBytes(int(31 - compressorNameLength)) with compressorNameLength := byte(len(name)), in byte arithmetic *)
Definition vis_pad (n : N) : N := u8 (31 + 256 - u8 n).

(* what Go writes in the reserved places *)
Definition dflt_rsv (l : leaf) : rsvT :=
  match l with
  | LMvhd _ _ _ _ _ _ _ _ _ => [zeros 10; unity_matrix; zeros 24]
  | LTkhd _ _ _ _ _ _ _ _ _ _ _ => [zeros 4; zeros 8; zeros 2; unity_matrix]
  | LSidx _ _ _ _ _ _ _ => [zeros 2]
  | LMdhd _ _ _ _ _ _ _ => [zeros 2]
  | LHdlr _ _ _ _ _ _ => [zeros 12]
  | LTenc v _ _ _ _ _ _ _ => if v =? 0 then [zeros 1; zeros 1] else [zeros 1; []]
  | LSmhd _ _ _ => [zeros 2]
  | LTfra _ _ _ _ _ _ _ => [[0]]
  | LVisual _ _ _ _ _ _ _ cn =>
      [zeros 6; zeros 16; zeros 4; zeros (N.to_nat (vis_pad (lenN cn))); [0; 24]; [255; 255]]
  | LAudio _ _ _ _ _ => [zeros 6; zeros 8; zeros 4; zeros 2]
  | LAvcC _ _ _ _ _ _ _ _ _ _ => [[63]; [7]; [63]; [31]; [31]; []]
  | LColr _ _ _ _ _ _ => [[0]]
  | LElng _ _ _ lang => [lang ++ [0]]
  | LHvcC _ _ _ _ _ _ _ _ _ _ _ _ _ _ _ _ => [[15]; [63]; [63]; [31]; [31]; []]
  | LEsds _ _ nb _ fl _ url _ dcd cs u _ => esds_dflt nb fl url dcd cs u
  | LSgpd _ _ _ _ _ items => [map (fun _ => 0) items]
  | LWvtt _ _ => [zeros 6]
  | _ => []
  end.

(* which captured chunks are ISO reserved / pre_defined bits (the committed don't-care list) -- true -- and which
   are bits that the encoder re-derives although the list does not excuse them -- false: the padding after the
   compressor name and the depth of a VisualSampleEntry, the fraction of the AudioSampleEntry sample rate, the
   bytes after an AVC decoder configuration record.  Chunks beyond the list are don't-care. *)
Definition rsv_dc (l : leaf) : list bool :=
  match l with
  | LVisual _ _ _ _ _ _ _ _ => [true; true; true; false; false; true]
  | LAudio _ _ _ _ _ => [true; true; true; false]
  | LAvcC _ _ _ _ _ _ _ _ _ _ => [true; true; true; true; true; false]
  | LElng _ _ _ _ => [false]
  | LHvcC _ _ _ _ _ _ _ _ _ _ _ _ _ _ _ _ => [true; true; true; true; true; false]
  (* the size fields of the descriptors are not reserved bits *)
  | LEsds _ _ nb _ fl _ url _ dcd cs u _ => map (fun _ => false) (esds_dflt nb fl url dcd cs u)
  | LWvtt _ _ => [true]
  (* the reserved byte of the seig entries: ISO reserved *)
  | LSgpd _ _ _ _ _ _ => [true]
  | _ => []
  end.

(* ---------------------------------------------------------------- Size() *)
Definition size_leaf (l : leaf) : N :=
  match l with
  | LFtyp _ data => 8 + lenN data
  | LFree _ data => 8 + lenN data
  | LMdat large data =>
      (* Size() sets LargeSize when the payload exceeds 2^32-1-8 *)
      let large' := large || (4294967287 <? lenN data) in
      8 + lenN data + (if large' then 8 else 0)
  | LMfhd _ _ _ => 16
  | LTfhd _ f _ _ _ _ _ _ =>
      16 + (if has f 1 then 8 else 0) + (if has f 2 then 4 else 0) + (if has f 8 then 4 else 0) +
      (if has f 16 then 4 else 0) + (if has f 32 then 4 else 0)
  | LTfdt v _ _ => if v =? 0 then 16 else 20       (* repo commit c9514d3; was 16 + 4*Version *)
  | LTrun _ f _ _ samples => trun_expected f (u32 (lenN samples))
  | LMvhd v _ _ _ _ _ _ _ _ => if v =? 1 then 120 else 108
  | LTkhd v _ _ _ _ _ _ _ _ _ _ => if v =? 1 then 104 else 92
  | LSidx v _ _ _ _ _ refs => 32 + (if v =? 0 then 0 else 8) + lenN refs * 12   (* repo commit ede563a; was 8*Version *)
  | LTrex _ _ _ _ _ _ _ => 32
  | LMdhd v _ _ _ _ _ _ => if v =? 1 then 44 else 32
  | LHdlr _ _ _ ht name lacks => 8 + 20 + lenN ht + lenN name + 1 - (if lacks then 1 else 0)   (* len(HandlerType) since repo commit 3502d85 *)
  | LStts _ _ es => 16 + u32 (lenN es) * 8
  | LStsc _ _ es _ _ => 16 + lenN es * 12
  | LStsz _ _ uni num _ => if 0 <? uni then 20 else 20 + num * 4
  | LTab _ w _ _ items => 16 + u32 (lenN items) * N.of_nat w
  | LSdtp _ _ es => 12 + lenN es
  | LCtts _ _ _ offs => 16 + u32 (lenN offs) * 8
  | LElst v _ es => 16 + u32 (lenN es) * (if v =? 1 then 20 else 12)
  | LSaiz _ f _ _ dflt cnt _ => 17 + (if has f 1 then 8 else 0) + (if dflt =? 0 then cnt else 0)
  | LSaio v f _ _ os => 16 + (if has f 1 then 8 else 0) + (if v =? 0 then 4 else 8) * u32 (lenN os)
  | LSbgp v _ _ _ es => 20 + (if v =? 1 then 4 else 0) + 8 * u32 (lenN es)
  | LPrft v _ _ _ _ => if v =? 0 then 28 else 32
  | LTenc _ _ _ _ isp ivs _ iv => 32 + (if (isp =? 1) && (ivs =? 0) then 1 + lenN iv else 0)
  | LFrma _ => 12
  | LVmhd _ _ _ _ _ _ => 20
  | LSmhd _ _ _ => 16
  | LFullOnly _ _ _ => 12
  | LMfro _ _ _ => 16
  | LMehd v _ _ => 12 + (if v =? 0 then 4 else 8)
  | LTfra v _ _ lt lr ls es =>
      24 + u32 (lenN es) * ((if v =? 1 then 16 else 8) + (1 + lt) + (1 + lr) + (1 + ls))
  | LPssh v _ _ kids data => 32 + lenN data + (if 0 <? v then 4 + 16 * lenN kids else 0)
  (* stage 3; for the MPre kinds: header + prefix (the children are added by size_box) *)
  | LStsd _ _ _ => 16
  | LDref _ _ _ => 16
  | LVisual _ _ _ _ _ _ _ _ => 86
  | LAudio _ _ _ _ _ => 36
  | LUrl _ _ loc noLoc noZero => 12 + (if noLoc then 0 else lenN loc + 1 - (if noZero then 1 else 0))
  | LAvcC prof _ _ sps pps _ _ _ _ noTr =>
      8 + 7 + sumN (map (fun x => 2 + lenN x) sps) + sumN (map (fun x => 2 + lenN x) pps) +
      (if avc_plain prof then 0 else if noTr then 0 else 4)
  | LBtrt _ _ _ => 20
  | LPasp _ _ => 16
  | LColr ct _ _ _ _ pl =>
      12 + (if bytes_eqb ct n_nclx then 7 else if colr_icc ct then lenN pl else if bytes_eqb ct n_nclc then 6 else lenN pl)
  | LClap _ _ _ _ _ _ _ _ => 40
  | LSchm _ f _ _ uri => 20 + (if has f 1 then lenN uri + 1 else 0)
  | LCslg v _ _ _ _ _ _ => if negb (v =? 0) then 52 else 32
  | LSenc _ _ _ rs _ => rs          (* readBoxSize > 0 always after decoding (>= 16) *)
  | LEmsg v _ _ _ _ _ sc va d =>
      (if v =? 1 then 8 + 4 + 4 + 8 + 4 + 4 else 8 + 4 + 4 + 4 + 4 + 4) + lenN sc + 1 + lenN va + 1 + lenN d
  | LElng missing _ _ lang => 8 + 4 + lenN lang + 1 - (if missing then 4 else 0)
  | LKind _ _ sc va => 8 + 4 + lenN sc + 1 + lenN va + 1
  | LHvcC _ _ _ _ _ _ _ _ _ _ _ _ _ _ _ arrays =>
      8 + 23 + sumN (map (fun a => 3 + sumN (map (fun x => 2 + lenN x) (snd a))) arrays)
  | LSubs v _ es => 16 + sumN (map (fun e => 6 + lenN (snd e) * (if v =? 1 then 10 else 8)) es)
  | LEsds _ _ nb _ fl _ url _ dcd cs u _ => 8 + 4 + (1 + sfs_of nb + 1 + es_size_of fl url dcd cs u)
  | LUuidTfxd v _ _ _ => 24 + (if negb (v =? 0) then 20 else 12)
  | LUuidTfrf v _ cnt _ => 24 + 5 + (if negb (v =? 0) then 16 else 8) * cnt
  | LUuidSenc _ _ _ rs _ => 24 + (rs - 8)                  (* b.Senc.Size() - 8 *)
  | LUuidUnk _ p => 24 + lenN p
  | LSgpd v _ _ dlen _ items =>
      20 + (if 1 <=? v then 4 else 0) + (if 2 <=? v then 4 else 0) +
      (if 1 <=? v then (if negb (dlen =? 0) then lenN items * dlen else sumN (map (fun it => 4 + fst it) items)) else 0)
  | LData _ _ d => 8 + 8 + lenN d
  | LMime _ _ ct lacks => 8 + 4 + lenN ct + 1 - (if lacks then 1 else 0)
  | LWvtt _ _ => 16
  | LDac3 _ _ _ _ _ _ _ iz _ => 8 + 3 + iz
  | LDec3 _ subs reserved _ =>
      8 + 2 + sumN (map (fun s => match s with (_, _, _, _, _, _, nds, _) => if 0 <? nds then 4 else 3 end) subs) + lenN reserved
  end.

(* header written by the leaf encoder *)
Definition leaf_large (l : leaf) : bool :=
  match l with LMdat large data => large || (4294967287 <? lenN data) | _ => false end.
Definition leaf_hdr (l : leaf) : list N :=
  if leaf_large l then enc_hdr_large (leaf_name l) (size_leaf l) else enc_hdr (leaf_name l) (size_leaf l).

(* raw bytes a leaf encoder attempts to write (header + body) *)
Definition raw_leaf (l : leaf) (r : rsvT) : res (list N) :=
  match body_leaf l r with
  | Ok b => Ok (leaf_hdr l ++ b)
  | Err => Err | Panic => Panic | OutOfFuel => OutOfFuel
  end.

(* ---------------------------------------------------------------- dispatch by box type *)
Inductive kind := KLeaf (d : hdr -> parser (leaf * rsvT)) | KCont | KUnknown.

Definition leaf_table : list (list N * (hdr -> parser (leaf * rsvT))) :=
  [ (n_ftyp, dec_ftyp); (n_styp, dec_ftyp); (n_free, dec_free); (n_skip, dec_free); (n_mdat, dec_mdat);
    (n_mfhd, dec_mfhd); (n_tfhd, dec_tfhd); (n_tfdt, dec_tfdt); (n_trun, dec_trun); (n_mvhd, dec_mvhd);
    (n_tkhd, dec_tkhd); (n_sidx, dec_sidx); (n_trex, dec_trex); (n_mdhd, dec_mdhd); (n_hdlr, dec_hdlr);
    (n_stts, dec_stts);
    (n_stsc, dec_stsc); (n_stsz, dec_stsz); (n_stco, dec_tab 4); (n_stss, dec_tab 4); (n_co64, dec_tab 8);
    (n_sdtp, dec_sdtp); (n_ctts, dec_ctts); (n_elst, dec_elst); (n_saiz, dec_saiz); (n_saio, dec_saio);
    (n_sbgp, dec_sbgp); (n_prft, dec_prft); (n_tenc, dec_tenc); (n_frma, dec_frma); (n_vmhd, dec_vmhd);
    (n_smhd, dec_smhd); (n_nmhd, dec_fullonly); (n_sthd, dec_fullonly); (n_mfro, dec_mfro); (n_mehd, dec_mehd);
    (n_tfra, dec_tfra); (n_pssh, dec_pssh);
    (n_url, dec_url); (n_avcC, dec_avcC); (n_btrt, dec_btrt); (n_pasp, dec_pasp); (n_colr, dec_colr);
    (n_clap, dec_clap); (n_schm, dec_schm); (n_cslg, dec_cslg);
    (n_senc, dec_senc); (n_emsg, dec_emsg); (n_elng, dec_elng); (n_kind, dec_kind);
    (n_hvcC, dec_hvcC); (n_subs, dec_subs); (n_esds, dec_esds); (n_uuid, dec_uuid); (n_sgpd, dec_sgpd);
    (n_vttC, dec_free); (n_vlab, dec_free); (n_ctim, dec_free); (n_iden, dec_free); (n_sttg, dec_free);
    (n_payl, dec_free); (n_vtta, dec_free); (n_vtte, dec_empty); (n_vsid, dec_b4);
    (n_data, dec_data); (n_mime, dec_mime); (n_dac3, dec_dac3); (n_dec3, dec_dec3) ].

(* boxes with a field prefix followed by child boxes.  PStrict off: DecodeContainerChildrenSR(hdr, startPos+off,
   startPos+hdr.Size) (sizes cross-checked against the bytes consumed); PEntry start: the sample entry loop
   `for pos < startPos+hdr.Size { DecodeBoxSR; pos += box.Size() }` starting at pos = startPos+start *)
Inductive loopkind := PStrict (off : N) | PEntry (start : N).
Definition pre_table : list (list N * ((hdr -> parser (leaf * rsvT)) * loopkind)) :=
  [ (n_stsd, (dec_stsd, PStrict 16)); (n_dref, (dec_dref, PStrict 16));
    (n_avc1, (dec_visual, PEntry 86)); (n_avc3, (dec_visual, PEntry 86)); (n_hvc1, (dec_visual, PEntry 86));
    (n_hev1, (dec_visual, PEntry 86)); (n_encv, (dec_visual, PEntry 86)); (n_av01, (dec_visual, PEntry 86));
    (n_vp08, (dec_visual, PEntry 86)); (n_vp09, (dec_visual, PEntry 86));
    (n_mp4a, (dec_audio, PEntry 36)); (n_enca, (dec_audio, PEntry 36)); (n_ac3, (dec_audio, PEntry 36));
    (n_ec3, (dec_audio, PEntry 36));
    (* MetaBox in its ISO form (version and flags, then the children: DecodeContainerChildrenSR(hdr, startPos+12, ..));
       the QuickTime form is a pure container, see meta_qt *)
    (n_meta, (dec_fullonly, PStrict 12));
    (n_wvtt, (dec_wvtt, PEntry 16)) ].
(* len(children) != int(sampleCount) / entryCount != dref.EntryCount *)
Definition pre_count_ok (l : leaf) (n : N) : bool :=
  match l with LStsd _ _ c => n =? c | LDref _ _ c => n =? c | _ => true end.

(* containers whose decoder is DecodeContainerChildrenSR + AddChild and whose encoder is EncodeContainerSW *)
Definition cont_table : list (list N) :=
  [ n_moov; n_trak; n_mdia; n_minf; n_stbl; n_moof; n_traf; n_mvex; n_dinf; n_edts; n_udta; n_sinf; n_schi;
    n_mfra; n_tref;
    (* ilst, the GenericContainerBox types (iTunes metadata items, desc) and vttc *)
    n_ilst; n_cART; n_cnam; n_ctoo; n_ccpy; n_desc; n_vttc ].

Fixpoint lookup {A} (n : list N) (t : list (list N * A)) : option A :=
  match t with [] => None | (k, a) :: t' => if bytes_eqb n k then Some a else lookup n t' end.

Definition is_cont (n : list N) : bool := existsb (bytes_eqb n) cont_table.

(* DecodeMetaSR looks ahead: with a payload of at least 8 bytes whose bytes 4..8 are "hdlr" the box is a QuickTime meta
   atom -- no version and flags, children from startPos+8, Size() = 8 + children, Encode / EncodeSW (since repo commit
   35ed2e5) write header and children: a pure container.  Otherwise it is the ISO form of pre_table.  r is the slice
   behind the header; DecodeBoxSR has checked that it holds the payload. *)
Definition meta_qt (h : hdr) (r : list N) : bool :=
  bytes_eqb (h_name h) n_meta && (8 <=? payload_len h) && bytes_eqb (firstn 4 (skipn 4 r)) n_hdlr.
Definition pre_lookup (h : hdr) (r : list N) : option ((hdr -> parser (leaf * rsvT)) * loopkind) :=
  if meta_qt h r then None else lookup (h_name h) pre_table.
Definition cont_like (h : hdr) (r : list N) : bool := is_cont (h_name h) || meta_qt h r.

(* ---------------------------------------------------------------- the tree *)
Inductive mbox :=
| MLeaf (h : hdr) (l : leaf) (r : rsvT)            (* h: the header as decoded *)
| MCont (h : hdr) (cs : list mbox)
| MUnknown (h : hdr) (payload : list N)            (* UnknownBox{name, size = hdr.Size, notDecoded} *)
| MPre (h : hdr) (l : leaf) (r : rsvT) (cs : list mbox).   (* stsd, dref, sample entries: fields, then children *)

Fixpoint size_box (t : mbox) : N :=
  match t with
  | MLeaf _ l _ => size_leaf l
  | MCont _ cs => 8 + sumN (map size_box cs)        (* containerSize *)
  | MUnknown h _ => h_size h                        (* b.size: the decoded header size, large header included *)
  | MPre _ l _ cs => size_leaf l + sumN (map size_box cs)
  end.

Definition box_name (t : mbox) : list N :=
  match t with MLeaf _ l _ => leaf_name l | MCont h _ => h_name h | MUnknown h _ => h_name h
             | MPre _ l _ _ => leaf_name l end.

(* MoovBox.AddChild: a trak arriving when the last trak is neither first nor last is inserted after it.
   Generic in the element type so that the same re-ordering can be applied to the children's encodings. *)
Fixpoint last_trak_idx {A} (is_trak : A -> bool) (cs : list A) (i acc : nat) : nat :=
  match cs with [] => acc | c :: t => last_trak_idx is_trak t (S i) (if is_trak c then i else acc) end.
Definition moov_cond {A} (is_trak : A -> bool) (cs : list A) (c : A) : bool :=
  is_trak c && (let k := last_trak_idx is_trak cs 0 0 in negb (Nat.eqb k 0) && negb (Nat.eqb k (length cs - 1))).
Definition moov_add {A} (is_trak : A -> bool) (cs : list A) (c : A) : list A :=
  if moov_cond is_trak cs c then
    let k := last_trak_idx is_trak cs 0 0 in firstn (S k) cs ++ c :: skipn (S k) cs
  else cs ++ [c].
Definition moov_order {A} (is_trak : A -> bool) (cs : list A) : list A := fold_left (moov_add is_trak) cs [].
(* no re-ordering happens while the children are added one by one *)
Fixpoint moov_stable_from {A} (is_trak : A -> bool) (acc cs : list A) : bool :=
  match cs with [] => true | c :: t => negb (moov_cond is_trak acc c) && moov_stable_from is_trak (acc ++ [c]) t end.
Definition is_trak_box (t : mbox) : bool := bytes_eqb (box_name t) n_trak.

(* DecodeEdtsSR rejects any child that is not elst *)
Definition edts_ok (cs : list mbox) : bool := forallb (fun c => bytes_eqb (box_name c) n_elst) cs.

(* DecodeBoxSR / DecodeContainerChildrenSR.  fuel bounds the recursion (S (length bs) is enough). *)
Fixpoint decode_box (fuel : nat) (bs : list N) : res (mbox * list N) :=
  match fuel with
  | O => OutOfFuel
  | S f =>
    match dec_hdr bs with
    | Ok (h, r) =>
      if (lenN r + h_len h <? h_size h) && negb (bytes_eqb (h_name h) n_mdat) then Err
      else match lookup (h_name h) leaf_table with
           | Some d => match d h r with
                       | Ok ((l, rsv), r') => Ok (MLeaf h l rsv, r')
                       | Err => Err | Panic => Panic | OutOfFuel => OutOfFuel
                       end
           | None =>
             match pre_lookup h r with
             | Some (d, lk) =>
               match d h r with
               | Ok ((l, rsv), r1) =>
                 match lk with
                 | PStrict off =>
                     if h_size h <? off then Err       (* pos > endPos at once *)
                     else match decode_children f (h_size h - off) 0 0 r1 with
                          | Ok (cs, r') => if pre_count_ok l (lenN cs) then Ok (MPre h l rsv cs, r') else Err
                          | Err => Err | Panic => Panic | OutOfFuel => OutOfFuel
                          end
                 | PEntry start =>
                     match decode_entries f (h_size h) start r1 with
                     | Ok (cs, r') => Ok (MPre h l rsv cs, r')
                     | Err => Err | Panic => Panic | OutOfFuel => OutOfFuel
                     end
                 end
               | Err => Err | Panic => Panic | OutOfFuel => OutOfFuel
               end
             | None =>
             if cont_like h r then
               (* pos starts at startPos+8 whatever the header length; endPos = startPos+size *)
               match decode_children f (h_size h - 8) 0 0 r with
               | Ok (cs, r') =>
                   if bytes_eqb (h_name h) n_edts && negb (edts_ok cs) then Err
                   else Ok (MCont h cs, r')
               | Err => Err | Panic => Panic | OutOfFuel => OutOfFuel
               end
             else match rdB (payload_len h) r with
                  | Ok (p, r') => Ok (MUnknown h p, r')
                  | Err => Err | Panic => Panic | OutOfFuel => OutOfFuel
                  end
             end
           end
    | Err => Err | Panic => Panic | OutOfFuel => OutOfFuel
    end
  end
(* target = endPos - (startPos+8); pos = sum of child.Size() so far; used = bytes consumed so far *)
with decode_children (fuel : nat) (target pos used : N) (bs : list N) : res (list mbox * list N) :=
  match fuel with
  | O => OutOfFuel
  | S f =>
    if target <? pos then Err
    else if pos =? target then Ok ([], bs)
    else match decode_box f bs with
         | Ok (c, r) =>
             let pos' := pos + size_box c in
             let used' := used + (lenN bs - lenN r) in
             if negb (pos' =? used') then Err
             else match decode_children f target pos' used' r with
                  | Ok (cs, r') => Ok (c :: cs, r')
                  | Err => Err | Panic => Panic | OutOfFuel => OutOfFuel
                  end
         | Err => Err | Panic => Panic | OutOfFuel => OutOfFuel
         end
  end
(* the child loop of Visual/AudioSampleEntry: no cross-check of sizes against consumed bytes, overshoot accepted *)
with decode_entries (fuel : nat) (target pos : N) (bs : list N) : res (list mbox * list N) :=
  match fuel with
  | O => OutOfFuel
  | S f =>
    if target <=? pos then Ok ([], bs)
    else match decode_box f bs with
         | Ok (c, r) =>
             match decode_entries f target (pos + size_box c) r with
             | Ok (cs, r') => Ok (c :: cs, r')
             | Err => Err | Panic => Panic | OutOfFuel => OutOfFuel
             end
         | Err => Err | Panic => Panic | OutOfFuel => OutOfFuel
         end
  end.

Definition decode (bs : list N) : res (mbox * list N) := decode_box (S (length bs)) bs.

(* the box loop of DecodeFileSR: DecodeBoxSR until the slice is used up.  The File-level acceptance checks
   (complete trak/.../stts chain in moov, mdat placement, senc parsing) and File.AddChild's segment bookkeeping
   are NOT modelled; in box-tree encode mode File.Encode writes f.Children in order (encode_seq). *)
Fixpoint decode_seq (fuel : nat) (bs : list N) : res (list mbox) :=
  match fuel with
  | O => OutOfFuel
  | S f =>
    match bs with
    | [] => Ok []
    | _ => match decode bs with
           | Ok (t, r) => match decode_seq f r with
                          | Ok ts => Ok (t :: ts)
                          | Err => Err | Panic => Panic | OutOfFuel => OutOfFuel
                          end
           | Err => Err | Panic => Panic | OutOfFuel => OutOfFuel
           end
    end
  end.
Definition decode_file (bs : list N) : res (list mbox) := decode_seq (S (length bs)) bs.

(* ---------------------------------------------------------------- encoding the tree *)
(* bytes the encoders attempt to write.  keep = true puts the captured reserved bytes back (used to state
   losslessness); keep = false is the Go encoder (zeros / unity matrix). *)
Definition rcat (a b : res (list N)) : res (list N) :=
  match a with
  | Ok x => match b with Ok y => Ok (x ++ y) | Err => Err | Panic => Panic | OutOfFuel => OutOfFuel end
  | Err => Err | Panic => Panic | OutOfFuel => OutOfFuel
  end.

(* MoofBox.Encode(SW) first walks the truns of every traf: an unset data offset is an error (repo commit 1704b4c) *)
Definition trun_unset (t : mbox) : bool :=
  match t with MLeaf _ (LTrun _ f doff _ _) _ => has f 1 && (doff =? 0) | _ => false end.
Definition traf_unset (t : mbox) : bool :=
  match t with MCont h tcs => bytes_eqb (h_name h) n_traf && existsb trun_unset tcs | _ => false end.
Definition moof_pre (cs : list mbox) : res unit := if existsb traf_unset cs then Err else Ok tt.

Fixpoint raw_box (keep : bool) (t : mbox) : res (list N) :=
  match t with
  | MLeaf _ l r => raw_leaf l (if keep then r else dflt_rsv l)
  | MCont h cs =>
      (* children are written in the order of m.Children, which for moov is the AddChild order *)
      let encs := map (fun c => (is_trak_box c, raw_box keep c)) cs in
      let encs' := if bytes_eqb (h_name h) n_moov then moov_order fst encs else encs in
      let body := fold_right (fun e acc => rcat (snd e) acc) (Ok []) encs' in
      let all := rcat (Ok (enc_hdr (h_name h) (8 + sumN (map size_box cs)))) body in
      if bytes_eqb (h_name h) n_moof then
        match moof_pre cs with Ok _ => all | Err => Err | Panic => Panic | OutOfFuel => OutOfFuel end
      else all
  | MUnknown h p =>      (* the header form seen at decode is written back (repo commit 6d4574a) *)
      Ok ((if 8 <? h_len h then enc_hdr_large (h_name h) (h_size h) else enc_hdr (h_name h) (h_size h)) ++ p)
  | MPre _ l r cs =>     (* EncodeHeaderSW; the prefix fields; then the children in order *)
      let body := fold_right (fun c acc => rcat (raw_box keep c) acc) (Ok []) cs in
      rcat (Ok (enc_hdr (leaf_name l) (size_leaf l + sumN (map size_box cs))))
           (rcat (body_leaf l (if keep then r else dflt_rsv l)) body)
  end.

(* EncodeHeaderSW refuses sizes >= 2^32 (mdat with LargeSize excepted) *)
Fixpoint enc_fits (t : mbox) : bool :=
  match t with
  | MLeaf _ l _ => leaf_large l || (size_leaf l <? 4294967296)
  | MCont _ cs => (8 + sumN (map size_box cs) <? 4294967296) && forallb enc_fits cs
  | MUnknown h _ => (8 <? h_len h) || (h_size h <? 4294967296)
  | MPre _ l _ cs => (size_leaf l + sumN (map size_box cs) <? 4294967296) && forallb enc_fits cs
  end.

(* per-leaf FixedSliceWriter capacity check of the io.Writer path: every non-container box allocates
   NewFixedSliceWriter(Size()) itself (mdat writes straight to w); overflow = error, under-fill silent *)
Fixpoint caps_ok (t : mbox) : bool :=
  match t with
  | MLeaf _ (LMdat _ _) _ => true
  | MLeaf _ l r => match raw_leaf l (dflt_rsv l) with Ok b => lenN b <=? size_leaf l | _ => true end
  | MCont _ cs => forallb caps_ok cs
  | MUnknown h p => (if 8 <? h_len h then 16 else 8) + lenN p <=? h_size h
  | MPre _ _ _ cs => forallb caps_ok cs      (* header, prefix and children are written straight to w *)
  end.

(* b.Encode(w) *)
Definition encode_w (t : mbox) : res (list N) :=
  match raw_box false t with
  | Ok b => if enc_fits t && caps_ok t then Ok b else Err
  | Err => Err | Panic => Panic | OutOfFuel => OutOfFuel
  end.

(* sw := NewFixedSliceWriter(int(b.Size())); b.EncodeSW(sw); sw.Bytes(): one capacity for the whole tree *)
Definition encode_sw (t : mbox) : res (list N) :=
  match raw_box false t with
  | Ok b => if enc_fits t && (lenN b <=? size_box t) then Ok b else Err
  | Err => Err | Panic => Panic | OutOfFuel => OutOfFuel
  end.

(* File.Encode in box-tree mode *)
Fixpoint encode_seq (keep : bool) (ts : list mbox) : res (list N) :=
  match ts with [] => Ok [] | t :: r => rcat (raw_box keep t) (encode_seq keep r) end.

(* the size field found at the start of an encoded box *)
Definition hdr_size_field (bs : list N) : N :=
  match rd 4 bs with Ok (1, r) => (match rd 8 (skipn 4 r) with Ok (v, _) => v | _ => 0 end)
                | Ok (v, _) => v | _ => 0 end.

(* ---------------------------------------------------------------- exactness guards *)
(* What must hold of a decoded leaf for its re-encoding to be the input.  Before the repairs 5633466, 1982f88
   (mvhd/tkhd encode on Version==1), c9514d3, ede563a (tfdt/sidx Size) this also excluded versions >= 2 of
   mvhd, tkhd, tfdt, sidx; what is left is the trun whose data offset is present and zero (Encode refuses it). *)
Definition leaf_guard (l : leaf) : bool :=
  match l with
  | LTrun _ f doff _ _ => negb (has f 1 && (doff =? 0))
  (* a decoded senc with sample_count 0 writes its data back since repo commit 954ff09 *)
  | LSenc _ cnt raw rs np => senc_keeps np cnt rs || (lenN raw =? 0)
  (* an esds whose size fields are not in the encoder's form (e.g. an SLConfigDescriptor announcing 0 bytes) or that
     kept UnknownData *)
  | LEsds _ _ _ _ _ _ _ _ _ _ _ canon => canon
  | LUuidSenc _ cnt raw rs np => senc_keeps np cnt rs || (lenN raw =? 0)
  (* a wvtt whose prefix was not there *)
  | LWvtt _ short => negb short
  | LDac3 _ _ _ _ _ _ _ _ canon => canon
  | LDec3 _ _ _ canon => canon
  | _ => true
  end.

(* the header seen at decode is the one the encoder writes: compact, and its size is Size() *)
Definition hdr_exact (h : hdr) (sz : N) : bool := (h_len h =? 8) && (h_size h =? sz).

Fixpoint exact_box (t : mbox) : bool :=
  match t with
  | MLeaf h l _ => (if leaf_large l then (h_len h =? 16) && (h_size h =? size_leaf l) else hdr_exact h (size_leaf l))
                   && leaf_guard l
  | MCont h cs => (h_len h =? 8) && forallb exact_box cs &&
                  (negb (bytes_eqb (h_name h) n_moov) || moov_stable_from is_trak_box [] cs) &&
                  (negb (bytes_eqb (h_name h) n_moof) || match moof_pre cs with Ok _ => true | _ => false end)
  | MUnknown h _ => (h_len h =? 8) || (h_len h =? 16)
  | MPre h l _ cs => hdr_exact h (size_leaf l + sumN (map size_box cs)) && leaf_guard l && forallb exact_box cs
  end.

(* ---------------------------------------------------------------- why a decoded tree is not reproduced *)
(* Every way in which the model's re-encoding of a decoded tree can differ from the input, as data: the check
   labels each failing input of the search with the reasons the model gives for it (C01_explained: no reason,
   no difference). *)
Inductive reason :=
| RLarge                       (* large-size header that is written back compact (listed normalisation) *)
| RSizeBig | RSizeSmall        (* announced size above / below what the decoded fields need (Size()) *)
| RGuard                       (* trun whose data offset is present and zero: Encode refuses it *)
| RMoov                        (* trak moved by MoovBox.AddChild (listed normalisation) *)
| RMoof                        (* moof holding a trun with an unset data offset: Encode refuses it *)
| RRsv (dc : bool) (i : nat)   (* captured chunk i differs from what the encoder writes; dc: ISO reserved bits *)
| RShape.                      (* never for decoded trees *)

Fixpoint chunks_why (i : nat) (dc : list bool) (r d : rsvT) : list reason :=
  match r, d with
  | [], [] => []
  | c :: r', e :: d' => (if bytes_eqb c e then [] else [RRsv (hd true dc) i]) ++ chunks_why (S i) (tl dc) r' d'
  | _, _ => [RShape]
  end.
Definition hdr_why (large : bool) (h : hdr) (sz : N) : list reason :=
  (if h_len h =? (if large then 16 else 8) then [] else [RLarge]) ++
  (if sz <? h_size h then [RSizeBig] else []) ++ (if h_size h <? sz then [RSizeSmall] else []).
Definition leaf_why (large : bool) (h : hdr) (l : leaf) (r : rsvT) (sz : N) : list reason :=
  hdr_why large h sz ++ (if leaf_guard l then [] else [RGuard]) ++ chunks_why 0 (rsv_dc l) r (dflt_rsv l).
Fixpoint why_box (t : mbox) : list (list N * reason) :=
  match t with
  | MLeaf h l r => map (pair (leaf_name l)) (leaf_why (leaf_large l) h l r (size_leaf l))
  | MCont h cs =>
      map (pair (h_name h))
        ((if h_len h =? 8 then [] else [RLarge]) ++
         (if negb (bytes_eqb (h_name h) n_moov) || moov_stable_from is_trak_box [] cs then [] else [RMoov]) ++
         (if negb (bytes_eqb (h_name h) n_moof) || match moof_pre cs with Ok _ => true | _ => false end
          then [] else [RMoof]))
      ++ flat_map why_box cs
  | MUnknown h _ => if (h_len h =? 8) || (h_len h =? 16) then [] else [(h_name h, RShape)]
  | MPre h l r cs =>
      map (pair (leaf_name l)) (leaf_why false h l r (size_leaf l + sumN (map size_box cs))) ++ flat_map why_box cs
  end.

Fixpoint rsv_eqb (r d : rsvT) : bool :=
  match r, d with
  | [], [] => true
  | c :: r', e :: d' => bytes_eqb c e && rsv_eqb r' d'
  | _, _ => false
  end.
(* every captured chunk has the value the encoder writes *)
Fixpoint rsv_default (t : mbox) : bool :=
  match t with
  | MLeaf _ l r => rsv_eqb r (dflt_rsv l)
  | MCont _ cs => forallb rsv_default cs
  | MUnknown _ _ => true
  | MPre _ l r cs => rsv_eqb r (dflt_rsv l) && forallb rsv_default cs
  end.

(* ---------------------------------------------------------------- the second decode *)
(* a decoded tree in which every captured reserved chunk has been replaced by what the encoder writes there:
   the tree that decoding the re-encoded bytes yields (C01_fixpoint) *)
Fixpoint norm_box (t : mbox) : mbox :=
  match t with
  | MLeaf h l _ => MLeaf h l (dflt_rsv l)
  | MCont h cs => MCont h (map norm_box cs)
  | MUnknown h p => MUnknown h p
  | MPre h l _ cs => MPre h l (dflt_rsv l) (map norm_box cs)
  end.
(* the same tree with the captured chunks erased: two trees are equal up to captured reserved bytes iff their
   erasures are equal *)
Fixpoint erase_rsv (t : mbox) : mbox :=
  match t with
  | MLeaf h l _ => MLeaf h l []
  | MCont h cs => MCont h (map erase_rsv cs)
  | MUnknown h p => MUnknown h p
  | MPre h l _ cs => MPre h l [] (map erase_rsv cs)
  end.
