(* C01SizeProofs.v — Size() = bytes written for every leaf kind of the C01 model (the leaf part of C02, kept with the
   model because the fixed-point theorem of C01 needs it: a re-encoded box fills exactly its announced size). *)
From V.lib Require Import Base.
From V.c01 Require Import C01Codec C01Model C01LeafProofs C01TreeProofs C01EsdsProofs.

(* ---------------------------------------------------------------- leaves *)
Definition leaf_size_guard (l : leaf) : bool :=
  match l with
  | LFtyp n _ => lenN n =? 4
  | LFree n _ => lenN n =? 4
  | LMdat _ data => lenN data <? 18446744073709551600
  | LTrun _ _ _ _ samples => lenN samples <? 4294967296
  | LStts _ _ es => lenN es <? 4294967296
  | LStsz _ _ uni num ss => if 0 <? uni then lenN ss =? 0 else lenN ss =? num
  | LTab n _ _ _ items => (lenN n =? 4) && (lenN items <? 4294967296)
  | LCtts _ _ _ offs => lenN offs <? 4294967296
  | LElst _ _ es => lenN es <? 4294967296
  | LSaiz _ f at_ _ dflt cnt info => (negb (has f 1) || (lenN at_ =? 4)) && (negb (dflt =? 0) || (cnt <=? lenN info))
  | LSaio _ f at_ _ os => (negb (has f 1) || (lenN at_ =? 4)) && (lenN os <? 4294967296)
  | LSbgp _ _ gt _ es => (lenN gt =? 4) && (lenN es <? 4294967296)
  | LTenc _ _ _ _ _ _ kid _ => lenN kid =? 16
  | LFrma f => lenN f =? 4
  | LFullOnly n _ _ => lenN n =? 4
  | LTfra _ _ _ _ _ _ es => lenN es <? 4294967296
  | LPssh _ _ sid kids _ => (lenN sid =? 16) && forallb (fun k => lenN k =? 16) kids
  | LVisual n _ _ _ _ _ _ cn => (lenN n =? 4) && (lenN cn <=? 31)
  | LAudio n _ _ _ _ => lenN n =? 4
  | LColr ct _ _ _ _ _ => lenN ct =? 4
  | LSchm _ _ st _ _ => lenN st =? 4
  (* readBoxSize is what the fields need: holds of an exact decoded senc whose data is written back *)
  | LSenc _ cnt raw rs np => rs =? 16 + (if senc_keeps np cnt rs then lenN raw else 0)
  | LUuidTfrf _ _ cnt es => cnt <=? lenN es
  | LUuidSenc _ cnt raw rs np => rs =? 16 + (if senc_keeps np cnt rs then lenN raw else 0)
  | LUuidUnk u _ => lenN u =? 16
  | LSgpd v _ gt dlen _ items =>
      (lenN gt =? 4) && forallb (fun it => lenN (wr_sge (snd it) 0) =? fst it) items &&
      ((dlen =? 0) || forallb (fun it => fst it =? dlen) items) && ((1 <=? v) || (lenN items =? 0))
  | _ => true
  end.

Lemma lenN_wr_tsample f s : lenN (wr_tsample f s) = trun_bps f.
Proof.
  unfold wr_tsample, trun_bps, wr_if.
  destruct (has f 256), (has f 512), (has f 1024), (has f 2048);
    repeat rewrite lenN_app; repeat rewrite lenN_be_enc; cbn; reflexivity.
Qed.

Lemma lenN_wr_pair p : lenN (wr_pair p) = 8.
Proof. unfold wr_pair. now rewrite lenN_app, !lenN_be_enc. Qed.

Lemma lenN_wr_sref p : lenN (wr_sref p) = 12.
Proof. unfold wr_sref. now rewrite !lenN_app, !lenN_be_enc. Qed.

Lemma lenN_wr_triple p : lenN (wr_triple p) = 12.
Proof. unfold wr_triple. now rewrite !lenN_app, !lenN_be_enc. Qed.

Lemma lenN_wr_elst w e : lenN (wr_elst w e) = 2 * N.of_nat w + 4.
Proof. destruct e as [[[d t] ri] rf]. unfold wr_elst. rewrite !lenN_app, !lenN_be_enc. lia. Qed.

Lemma lenN_wr_tfra w a b c e : lenN (wr_tfra w a b c e) = 2 * N.of_nat w + N.of_nat a + N.of_nat b + N.of_nat c.
Proof. destruct e as [[[[t mo] x] y] z]. unfold wr_tfra. rewrite !lenN_app, !lenN_be_enc. lia. Qed.

Lemma lenN_wr_stsc es single : forall ids, lenN (wr_stsc es single ids) = 12 * lenN es.
Proof.
  induction es as [|[fc spc] t IH]; intros ids; [reflexivity|].
  cbn [wr_stsc]. rewrite !lenN_app, !lenN_be_enc, IH, lenN_cons. lia.
Qed.

Lemma lenN_wr_ctts offs : forall ends, lenN ends = 1 + lenN offs -> lenN (wr_ctts ends offs) = 8 * lenN offs.
Proof.
  induction offs as [|o ot IH]; intros ends H; [destruct ends; reflexivity|].
  destruct ends as [|e0 [|e1 et]]; rewrite ?lenN_cons, ?lenN_nil in H; try lia.
  change (wr_ctts (e0 :: e1 :: et) (o :: ot)) with
    (be_enc 4 (u32 (e1 + 4294967296 - e0)) ++ be_enc 4 o ++ wr_ctts (e1 :: et) ot).
  rewrite !lenN_app, !lenN_be_enc, IH, lenN_cons by (rewrite lenN_cons; lia). lia.
Qed.

Lemma lenN_firstn {A} (l : list A) n : n <= lenN l -> lenN (firstn (N.to_nat n) l) = n.
Proof. unfold lenN. intros H. rewrite firstn_length. lia. Qed.

Lemma lenN_flat_id (kids : list (list N)) : forallb (fun k => lenN k =? 16) kids = true ->
  lenN (flat_map (fun k => k) kids) = 16 * lenN kids.
Proof.
  induction kids as [|k t IH]; intros H; [reflexivity|]. cbn [forallb] in H. apply andb_true_iff in H.
  destruct H as [Hk Ht]. apply N.eqb_eq in Hk. cbn [flat_map]. rewrite lenN_app, lenN_cons, IH, Hk by assumption. lia.
Qed.

Lemma lenN_wr_nalus l : lenN (flat_map wr_nalu l) = sumN (map (fun x => 2 + lenN x) l).
Proof.
  induction l as [|x t IH]; [reflexivity|]. cbn [flat_map map sumN]. unfold wr_nalu at 1.
  rewrite !lenN_app, lenN_be_enc, IH. lia.
Qed.

Lemma lenN_wr_narrs l : lenN (flat_map wr_narr l) = sumN (map (fun a => 3 + sumN (map (fun x => 2 + lenN x) (snd a))) l).
Proof.
  induction l as [|a t IH]; [reflexivity|]. cbn [flat_map map sumN]. unfold wr_narr at 1.
  rewrite !lenN_app, !lenN_be_enc, lenN_wr_nalus, IH. lia.
Qed.

Lemma lenN_wr_subsample w s : lenN (wr_subsample w s) = N.of_nat w + 6.
Proof. destruct s as [[[a b] c] d]. unfold wr_subsample. rewrite !lenN_app, !lenN_be_enc. lia. Qed.

Lemma lenN_wr_subs_entries v l :
  lenN (flat_map (wr_subs_entry (subs_w v)) l) = sumN (map (fun e => 6 + lenN (snd e) * (if v =? 1 then 10 else 8)) l).
Proof.
  induction l as [|e t IH]; [reflexivity|]. cbn [flat_map map sumN]. unfold wr_subs_entry at 1.
  rewrite !lenN_app, !lenN_be_enc, (lenN_flat_map_const _ _ _ (lenN_wr_subsample _)), IH.
  unfold subs_w. destruct (v =? 1); lia.
Qed.

Lemma lenN_wr_pairw w p : lenN (wr_pairw w p) = 2 * N.of_nat w.
Proof. unfold wr_pairw. rewrite lenN_app, !lenN_be_enc. lia. Qed.

Lemma lenN_sgpd_items dlen items : forallb (fun it => lenN (wr_sge (snd it) 0) =? fst it) items = true ->
  lenN (flat_map (wr_sgpd_item dlen) (combine items (map (fun _ => 0) items))) =
  sumN (map (fun it => (if dlen =? 0 then 4 else 0) + fst it) items).
Proof.
  induction items as [|it t IH]; intros H; [reflexivity|]. cbn [forallb] in H. apply andb_true_iff in H. destruct H as [H1 H2].
  apply N.eqb_eq in H1. cbn [map combine flat_map sumN]. unfold wr_sgpd_item at 1. cbn [fst snd].
  rewrite !lenN_app, H1, (IH H2). destruct (dlen =? 0); rewrite ?lenN_be_enc; change (lenN (@nil N)) with 0; lia.
Qed.
Lemma sumN_const_fst dlen (items : list (N * sge)) : forallb (fun it => fst it =? dlen) items = true ->
  sumN (map (fun it => 0 + fst it) items) = lenN items * dlen.
Proof.
  induction items as [|it t IH]; intros H; [reflexivity|]. cbn [forallb] in H. apply andb_true_iff in H. destruct H as [H1 H2].
  apply N.eqb_eq in H1. cbn [map sumN]. rewrite (IH H2), lenN_cons, H1. lia.
Qed.

Lemma lenN_unity : lenN unity_matrix = 36.
Proof. reflexivity. Qed.

Local Opaque zeros unity_matrix.

Ltac lens :=
  cbn [size_leaf N.eqb Pos.eqb];
  repeat match goal with Hn : lenN (leaf_name _) = 4 |- _ => rewrite Hn end;
  repeat first [ rewrite lenN_app | rewrite lenN_be_enc | rewrite lenN_zeros | rewrite lenN_unity
               | rewrite lenN_cons | progress change (lenN (@nil N)) with 0
               | rewrite (lenN_flat_map_const _ _ _ (lenN_wr_tsample _))
               | rewrite (lenN_flat_map_const _ _ _ lenN_wr_pair)
               | rewrite (lenN_flat_map_const _ _ _ lenN_wr_sref)
               | rewrite (lenN_flat_map_const _ _ _ lenN_wr_triple)
               | rewrite (lenN_flat_map_const _ _ _ (lenN_wr_elst _))
               | rewrite (lenN_flat_map_const _ _ _ (lenN_wr_tfra _ _ _ _))
               | rewrite (lenN_flat_map_const _ _ _ (lenN_be_enc _))
               | rewrite lenN_wr_stsc | rewrite lenN_wr_nalus
               | match goal with Hn : lenN (leaf_name _) = 4 |- _ => rewrite Hn end ].

Lemma leaf_name_len l : leaf_size_guard l = true -> lenN (leaf_name l) = 4.
Proof.
  destruct l; cbn [leaf_size_guard leaf_name]; intros H; try reflexivity;
    try (apply andb_true_iff in H; destruct H as [H _]); now apply N.eqb_eq in H.
Qed.

Lemma lenN_wr_ec3subs_sz l : lenN (flat_map wr_ec3sub l) =
  sumN (map (fun s : N * N * N * N * N * N * N * N => match s with (_, _, _, _, _, _, nds, _) => if 0 <? nds then 4 else 3 end) l).
Proof.
  induction l as [|s t IH]; [reflexivity|]. cbn [flat_map map sumN]. rewrite lenN_app, IH. f_equal.
  destruct s as [[[[[[[a b] c] d] e] f] nds] cl]. cbn [wr_ec3sub]. destruct (0 <? nds);
    repeat rewrite lenN_app; repeat rewrite lenN_be_enc; reflexivity.
Qed.

(* bytes written by a leaf encoder = Size() *)
Lemma leaf_size l b :
  raw_leaf l (dflt_rsv l) = Ok b -> leaf_size_guard l = true -> lenN b = size_leaf l.
Proof.
  intros H G. pose proof (leaf_name_len l G) as Hn. unfold raw_leaf in H.
  destruct (body_leaf l (dflt_rsv l)) as [body| | |] eqn:Eb; try discriminate.
  injection H as <-. unfold leaf_hdr, enc_hdr, enc_hdr_large.
  destruct l; cbn [body_leaf dflt_rsv chunk nth leaf_large] in Eb |- *;
    try (injection Eb as <-); cbn [leaf_size_guard] in G.
  - (* ftyp *) lens. lia.
  - lens. lia.
  - (* mdat *) cbn [size_leaf]. destruct (large || (4294967287 <? lenN data)); lens; rewrite ?Hn; lia.
  - lens. lia.
  - (* tfhd *) unfold wr_if. cbn [size_leaf].
    destruct (has flags 1), (has flags 2), (has flags 8), (has flags 16), (has flags 32); lens; lia.
  - (* tfdt *) cbn [size_leaf]. destruct (version =? 0); lens; lia.
  - (* trun *) destruct (has flags 1 && (dataOffset =? 0)); [discriminate|]. injection Eb as <-.
    apply N.ltb_lt in G. cbn [size_leaf]. unfold trun_expected, wr_if, u32. rewrite N.mod_small by assumption.
    destruct (has flags 1), (has flags 4); lens; lia.
  - (* mvhd *) cbn [size_leaf]. destruct (version =? 1); lens; lia.
  - (* tkhd *) cbn [size_leaf]. destruct (version =? 1); lens; lia.
  - (* sidx *) cbn [size_leaf]. destruct (version =? 0); lens; lia.
  - lens. lia.
  - (* mdhd *) cbn [size_leaf]. destruct (version =? 1); lens; lia.
  - (* hdlr *) cbn [size_leaf]. destruct lacksNull; lens; lia.
  - (* stts *) apply N.ltb_lt in G. cbn [size_leaf]. unfold u32. rewrite N.mod_small by assumption. lens. lia.
  - (* stsc *) destruct ((single =? 0) && (lenN ids <? lenN entries)); [discriminate|]. injection Eb as <-. lens. lia.
  - (* stsz *) cbn [size_leaf]. destruct (0 <? uniform); apply N.eqb_eq in G.
    + rewrite G. cbn [N.eqb]. lens. lia.
    + destruct (lenN sizes =? 0) eqn:E0; [apply N.eqb_eq in E0|]; lens; lia.
  - (* stco / stss / co64 *) apply andb_true_iff in G. destruct G as [_ G]. apply N.ltb_lt in G.
    cbn [size_leaf]. unfold u32. rewrite N.mod_small by assumption. lens. lia.
  - lens. lia.
  - (* ctts *) destruct (negb (lenN ends =? 1 + lenN offsets)) eqn:Ec; [discriminate|]. injection Eb as <-.
    apply negb_false_iff, N.eqb_eq in Ec. apply N.ltb_lt in G.
    cbn [size_leaf]. unfold u32. rewrite N.mod_small by assumption. lens. rewrite lenN_wr_ctts by assumption. lia.
  - (* elst *) apply N.ltb_lt in G. cbn [size_leaf]. unfold u32. rewrite N.mod_small by assumption.
    destruct (version =? 1); lens; lia.
  - (* saiz *) destruct ((dflt =? 0) && (lenN info <? count)); [discriminate|]. injection Eb as <-.
    apply andb_true_iff in G. destruct G as [G1 G2]. cbn [size_leaf].
    destruct (has flags 1); cbn [negb orb] in G1; [apply N.eqb_eq in G1|];
      (destruct (dflt =? 0); cbn [negb orb] in G2; [apply N.leb_le in G2|]; lens; rewrite ?lenN_firstn by assumption; lia).
  - (* saio *) apply andb_true_iff in G. destruct G as [G1 G2]. apply N.ltb_lt in G2. cbn [size_leaf].
    unfold u32. rewrite N.mod_small by assumption.
    destruct (has flags 1); cbn [negb orb] in G1; [apply N.eqb_eq in G1|]; (destruct (version =? 0); lens; lia).
  - (* sbgp *) apply andb_true_iff in G. destruct G as [G1 G2]. apply N.eqb_eq in G1. apply N.ltb_lt in G2.
    cbn [size_leaf]. unfold u32, wr_if. rewrite N.mod_small by assumption. destruct (version =? 1); lens; lia.
  - (* prft *) cbn [size_leaf]. destruct (version =? 0); lens; lia.
  - (* tenc *) apply N.eqb_eq in G. cbn [size_leaf].
    destruct (version =? 0); cbn [chunk nth]; (destruct ((isProt =? 1) && (ivSize =? 0)); lens; lia).
  - (* frma *) apply N.eqb_eq in G. lens. lia.
  - lens. lia.
  - (* smhd *) cbn [chunk nth]. lens. lia.
  - lens. lia.
  - lens. lia.
  - (* mehd *) cbn [size_leaf]. destruct (version =? 0); lens; lia.
  - (* tfra *) apply N.ltb_lt in G. cbn [size_leaf]. unfold u32, tfra_w, tfra_n. rewrite N.mod_small by assumption.
    destruct (version =? 1); lens; lia.
  - (* pssh *) apply andb_true_iff in G. destruct G as [G1 G2]. apply N.eqb_eq in G1. cbn [size_leaf].
    destruct (0 <? version); lens; rewrite ?lenN_flat_id by assumption; lia.
  - (* stsd *) lens. lia.
  - (* dref *) lens. lia.
  - (* visual *) apply andb_true_iff in G. destruct G as [_ G]. apply N.leb_le in G. cbn [chunk nth].
    lens. unfold vis_pad, u8. rewrite (N.mod_small (lenN cname)) by lia.
    replace ((31 + 256 - lenN cname) mod 256) with (31 - lenN cname)
      by (rewrite <- (N.mod_unique (31 + 256 - lenN cname) 256 1 (31 - lenN cname)); lia).
    lia.
  - (* audio *) cbn [chunk nth]. lens. lia.
  - (* url *) cbn [size_leaf]. destruct noLoc, noZero; lens; lia.
  - (* avcC *) cbn [size_leaf chunk nth hd]. destruct (avc_plain profile); cbn [orb]; [|destruct noTrailing]; lens; lia.
  - (* btrt *) lens. lia.
  - (* pasp *) lens. lia.
  - (* colr *) apply N.eqb_eq in G. cbn [size_leaf]. unfold colr_icc.
    destruct (bytes_eqb ctype n_nclx) eqn:E1.
    + injection Eb as <-. lens. lia.
    + destruct (bytes_eqb ctype n_nclc) eqn:E2.
      * injection Eb as <-. apply bytes_eqb_eq in E2. subst ctype.
        change (bytes_eqb n_nclc n_rICC || bytes_eqb n_nclc n_prof) with false. lens. rewrite ?G. lia.
      * injection Eb as <-. destruct (bytes_eqb ctype n_rICC || bytes_eqb ctype n_prof); lens; lia.
  - (* clap *) lens. lia.
  - (* schm *) apply N.eqb_eq in G. cbn [size_leaf]. destruct (has flags 1); lens; lia.
  - (* cslg *) cbn [size_leaf]. destruct (version =? 0); cbn [negb]; lens; lia.
  - (* senc *) destruct (negb notParsed && has flags 2 && (0 <? count)); [discriminate|]. injection Eb as <-.
    apply N.eqb_eq in G. destruct (senc_keeps notParsed count readSize); lens; lia.
  - (* emsg *) cbn [size_leaf]. destruct (version =? 1); lens; lia.
  - (* elng *) cbn [size_leaf chunk nth]. destruct missing; lens; lia.
  - (* kind *) lens. lia.
  - (* hvcC *) cbn [size_leaf chunk nth hd]. lens. rewrite lenN_wr_narrs. lia.
  - (* subs *) cbn [size_leaf]. lens. rewrite lenN_wr_subs_entries. lia.
  - (* esds *) apply (esds_body_len version flags nb esid fl dep url ocr dcd children unknown canon) in Eb. cbn [size_leaf]. lens. lia.
  - (* uuid tfxd *) cbn [size_leaf]. unfold uuid_w. destruct (version =? 0); cbn [negb]; lens; change (lenN uuid_tfxd) with 16; lia.
  - (* uuid tfrf *) destruct (lenN entries <? count) eqn:Ec; [discriminate|]. injection Eb as <-. apply N.leb_le in G.
    cbn [size_leaf]. unfold uuid_w. destruct (version =? 0); cbn [negb]; lens;
      rewrite ?(lenN_flat_map_const _ _ _ (lenN_wr_pairw _)); rewrite lenN_firstn by assumption; lia.
  - (* uuid piff senc *) destruct (negb notParsed && has flags 2 && (0 <? count)); [discriminate|]. injection Eb as <-.
    apply N.eqb_eq in G. destruct (senc_keeps notParsed count readSize); lens; change (lenN uuid_piff) with 16; lia.
  - (* uuid unknown *) apply N.eqb_eq in G. lens. lia.
  - (* sgpd *) apply andb_true_iff in G. destruct G as [G G4]. apply andb_true_iff in G. destruct G as [G G3].
    apply andb_true_iff in G. destruct G as [G1 G2]. apply N.eqb_eq in G1. cbn [size_leaf]. unfold wr_if.
    assert (Hit := lenN_sgpd_items dlen items G2).
    destruct (1 <=? version) eqn:E1.
    + destruct (dlen =? 0) eqn:Ed; cbn [negb orb] in *.
      * destruct (2 <=? version); lens; rewrite Hit; lia.
      * rewrite (sumN_const_fst _ _ G3) in Hit. destruct (2 <=? version); lens; rewrite Hit; lia.
    + cbn [orb] in G4. apply N.eqb_eq in G4. assert (items = []) by (destruct items; [reflexivity|rewrite lenN_cons in G4; lia]). subst items.
      replace (2 <=? version) with false by (symmetry; apply N.leb_gt; apply N.leb_gt in E1; lia).
      lens. cbn [map combine flat_map]. change (lenN (@nil N)) with 0. lia.
  - (* data *) lens. lia.
  - (* mime *) cbn [size_leaf]. destruct lacks; lens; lia.
  - (* wvtt *) lens. lia.
  - (* dac3 *) lens. rewrite ?lenN_zeros, ?N2Nat.id. lia.
  - (* dec3 *) cbn [size_leaf]. lens. rewrite lenN_wr_ec3subs_sz. lia.
Qed.
