(* C01FileModel.v — the File level of DecodeFileSR / DecodeFile (mp4/boxsr.go:206, mp4/file.go:149) and of File.Encode /
   File.EncodeSW (mp4/file.go:475, :532).  DEFINITIONS ONLY.

   DecodeFileSR is the box loop `for sr.NrRemainingBytes() != 0 { DecodeBoxSR; checks; f.AddChild }`.  Besides the
   box-local acceptance (decode of C01Model) the loop applies rules that are NOT box-local:
     moov   firstTrakSttsEntries must find the chain first trak / mdia / minf / stbl / stts
            (moov.Trak is the FIRST trak added; Trak.Mdia, Mdia.Minf, Minf.Stbl, Stbl.Stts are the LAST of their kind);
     mdat   in a fragmented file the previous top-level box must be a moof; in a progressive file at most one
            mdat may have a payload (f.Mdat is the first mdat, replaced while it is empty);
     moof   for every traf whose first senc / PIFF-uuid-senc child was read but not parsed: with a moov, the traf
            needs a tfhd and, when MoovBox.IsEncrypted(trackID), TrafBox.ParseReadSenc runs; without a moov it
            always runs.  ParseReadSenc is NOT modelled here (VSenc / FSencParse is a separate outcome; the parse is
            the subject of C02/C04: coq/c02/C02AggSencModel.v);
     isFragmented  becomes true with a moov whose first trak has an empty stts, a styp, an emsg or a moof
            (File.AddChild, startSegmentIfNeeded always opens a segment when there is none);
     a truncated mdat (DecodeMdatSR keeps an empty payload and leaves the reader in its error state) ENDS the loop:
            sr.NrRemainingBytes() answers 0 once the reader has an error, whatever follows is silently dropped.
   There is no rule about ftyp/styp coming first, about moov preceding moof, about unknown top-level boxes; trailing
   bytes shorter than a box header and a size-0 header are refused by DecodeHeaderSR (dec_hdr).
   The rules never look at the captured reserved bytes: they are evaluated on erase_rsv t, which says so.

   File.Encode writes f.Children in decode order, each with Box.Encode, for progressive files and, in
   EncModeBoxTree, for fragmented files (file_encode_w); File.EncodeSW does the same into one writer of
   File.Size() bytes (file_encode_sw). *)
From V.lib Require Import Base.
From V.c01 Require Import C01Codec C01Model.

Definition children_of (t : mbox) : list mbox :=
  match t with MCont _ cs => cs | MPre _ _ _ cs => cs | _ => [] end.
Definition named (n : list N) (t : mbox) : bool := bytes_eqb (box_name t) n.
Definition first_named (n : list N) (cs : list mbox) : option mbox := find (named n) cs.
Definition last_named (n : list N) (cs : list mbox) : option mbox := find (named n) (rev cs).
Definition obind {A B} (o : option A) (f : A -> option B) : option B := match o with Some a => f a | None => None end.

(* t.Mdia.Minf.Stbl of a trak (each the last child of its kind) *)
Definition stbl_of_trak (trak : mbox) : option mbox :=
  obind (last_named n_mdia (children_of trak)) (fun mdia =>
  obind (last_named n_minf (children_of mdia)) (fun minf =>
  last_named n_stbl (children_of minf))).

(* firstTrakSttsEntries(moov): len(moov.Trak.Mdia.Minf.Stbl.Stts.SampleCount), ok *)
Definition stts_entries (moov : mbox) : option N :=
  obind (first_named n_trak (children_of moov)) (fun trak =>
  obind (stbl_of_trak trak) (fun stbl =>
  match last_named n_stts (children_of stbl) with
  | Some (MLeaf _ (LStts _ _ es) _) => Some (lenN es)
  | _ => None
  end)).

Definition trak_id (trak : mbox) : option N :=
  match last_named n_tkhd (children_of trak) with
  | Some (MLeaf _ (LTkhd _ _ _ _ tid _ _ _ _ _ _) _) => Some tid
  | _ => None
  end.
(* trak.firstSampleEntry(): Stsd.Children[0] *)
Definition first_entry (trak : mbox) : option mbox :=
  obind (stbl_of_trak trak) (fun stbl =>
  obind (last_named n_stsd (children_of stbl)) (fun stsd => hd_error (children_of stsd))).
(* MoovBox.IsEncrypted(trackID): the loop goes on to the next trak when the first sample entry is neither a
   VisualSampleEntryBox nor an AudioSampleEntryBox *)
Fixpoint is_encrypted (traks : list mbox) (tid : N) : bool :=
  match traks with
  | [] => false
  | trak :: r =>
      match trak_id trak with
      | Some id =>
          if id =? tid then
            match first_entry trak with
            | Some (MPre _ (LVisual nm _ _ _ _ _ _ _) _ _) => bytes_eqb nm n_encv
            | Some (MPre _ (LAudio nm _ _ _ _) _ _) => bytes_eqb nm n_enca
            | _ => is_encrypted r tid
            end
          else is_encrypted r tid
      | None => is_encrypted r tid
      end
  end.

Inductive verdict := VOk | VErr | VSenc.

Definition is_senc_box (c : mbox) : bool :=
  match c with MLeaf _ (LSenc _ _ _ _ _) _ => true | MLeaf _ (LUuidSenc _ _ _ _ _) _ => true | _ => false end.
(* traf.ContainsSencBox(): ok && !parsed (readButNotParsed of the first senc-like child) *)
Definition senc_pending (traf : mbox) : bool :=
  match find is_senc_box (children_of traf) with
  | Some (MLeaf _ (LSenc _ _ _ _ np) _) => np
  | Some (MLeaf _ (LUuidSenc _ _ _ _ np) _) => np
  | _ => false
  end.
Definition traf_tid (traf : mbox) : option N :=
  match last_named n_tfhd (children_of traf) with
  | Some (MLeaf _ (LTfhd _ _ tid _ _ _ _ _) _) => Some tid
  | _ => None
  end.
Fixpoint moof_check (moov : option mbox) (trafs : list mbox) : verdict :=
  match trafs with
  | [] => VOk
  | traf :: r =>
      if senc_pending traf then
        match moov with
        | None => VSenc
        | Some m =>
            match traf_tid traf with
            | None => VErr                                   (* "traf box without tfhd" *)
            | Some tid => if is_encrypted (filter (named n_trak) (children_of m)) tid then VSenc else moof_check moov r
            end
        end
      else moof_check moov r
  end.

(* File: isFragmented, lastBoxType, payload size of f.Mdat (None: nil), f.Moov *)
Record fstate := mkFs { fs_frag : bool; fs_last : list N; fs_mdat : option N; fs_moov : option mbox }.
Definition fs0 : fstate := mkFs false [] None None.

Definition mdat_len (t : mbox) : N := match t with MLeaf _ (LMdat _ d) _ => lenN d | _ => 0 end.

(* the `switch boxType` of the loop *)
Definition file_check (st : fstate) (t : mbox) : verdict :=
  let n := box_name t in
  if bytes_eqb n n_moov then (match stts_entries t with Some _ => VOk | None => VErr end)
  else if bytes_eqb n n_mdat then
    (if fs_frag st then (if bytes_eqb (fs_last st) n_moof then VOk else VErr)
     else match fs_mdat st with
          | Some old => if (0 <? old) && (0 <? mdat_len t) then VErr else VOk
          | None => VOk
          end)
  else if bytes_eqb n n_moof then moof_check (fs_moov st) (filter (named n_traf) (children_of t))
  else VOk.

(* f.AddChild(box, boxStartPos); lastBoxType = boxType *)
Definition file_add (st : fstate) (t : mbox) : fstate :=
  let n := box_name t in
  mkFs (fs_frag st
        || (bytes_eqb n n_moov && match stts_entries t with Some c => c =? 0 | None => false end)
        || bytes_eqb n n_styp || bytes_eqb n n_emsg || bytes_eqb n n_moof)
       n
       (if bytes_eqb n n_mdat && negb (fs_frag st)
        then match fs_mdat st with
             | None => Some (mdat_len t)
             | Some old => if old =? 0 then Some (mdat_len t) else Some old
             end
        else fs_mdat st)
       (if bytes_eqb n n_moov then Some t else fs_moov st).

(* DecodeMdatSR on a slice that is too short: empty payload, reader left in its error state *)
Definition mdat_truncated (t : mbox) : bool :=
  match t with MLeaf h (LMdat _ d) _ => lenN d <? payload_len h | _ => false end.

Inductive fres := FOk (ts : list mbox) | FErr | FPanic | FFuel | FSencParse.

Fixpoint file_loop (fuel : nat) (st : fstate) (bs : list N) : fres :=
  match fuel with
  | O => FFuel
  | S f =>
    match bs with
    | [] => FOk []
    | _ => match decode bs with
           | Ok (t, r) =>
               match file_check st (erase_rsv t) with
               | VErr => FErr
               | VSenc => FSencParse
               | VOk =>
                   if mdat_truncated t then FOk [t]
                   else match file_loop f (file_add st (erase_rsv t)) r with
                        | FOk ts => FOk (t :: ts)
                        | FErr => FErr | FPanic => FPanic | FFuel => FFuel | FSencParse => FSencParse
                        end
               end
           | Err => FErr | Panic => FPanic | OutOfFuel => FFuel
           end
    end
  end.
(* DecodeFileSR on a slice, default options *)
Definition decode_file_sr (bs : list N) : fres := file_loop (S (length bs)) fs0 bs.

(* the rules alone, over a list of (erased) top-level boxes *)
Fixpoint file_rules (st : fstate) (ts : list mbox) : bool :=
  match ts with
  | [] => true
  | t :: r => match file_check st t with VOk => file_rules (file_add st t) r | _ => false end
  end.
(* f.IsFragmented() after the loop *)
Definition file_frag (ts : list mbox) : bool := fs_frag (fold_left file_add (map erase_rsv ts) fs0).

(* File.Encode, progressive or EncModeBoxTree: `for _, b := range f.Children { b.Encode(w) }` *)
Fixpoint file_encode_w (ts : list mbox) : res (list N) :=
  match ts with [] => Ok [] | t :: r => rcat (encode_w t) (file_encode_w r) end.
(* sw := NewFixedSliceWriter(int(f.Size())); f.EncodeSW(sw): one capacity for the whole file *)
Definition file_encode_sw (ts : list mbox) : res (list N) :=
  match encode_seq false ts with
  | Ok b => if forallb enc_fits ts && (lenN b <=? sumN (map size_box ts)) then Ok b else Err
  | Err => Err | Panic => Panic | OutOfFuel => OutOfFuel
  end.
