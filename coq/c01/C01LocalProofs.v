(* C01LocalProofs.v — the decoders are LOCAL: a successful run consumes a prefix x of the slice and does not
   look at what follows it; on x ++ r2 it returns the same value and leaves r2.  This is what lets the
   fixed-point theorem re-decode a box whose later siblings changed (their reserved bytes were rewritten).
   Proved compositionally for the parser combinators of C01Codec, then for every decoder built from them. *)
From V.lib Require Import Base.
From V.c01 Require Import C01Codec C01Model C01LeafProofs.

Definition local {A} (p : parser A) : Prop :=
  forall bs a r, p bs = Ok (a, r) -> exists x, bs = x ++ r /\ forall r2, p (x ++ r2) = Ok (a, r2).

(* a parser that cannot succeed on the empty slice without ... consuming nothing of it *)
Definition progress {A} (p : parser A) : Prop := forall a, p [] <> Ok (a, []).

Lemma local_pret {A} (a : A) : local (pret a).
Proof. intros bs a' r H. injection H as <- <-. exists []. split; reflexivity. Qed.

Lemma local_pfail {A} : local (@pfail A).
Proof. intros bs a r H. discriminate. Qed.

Lemma local_rd n : local (rd n).
Proof.
  intros bs v r H. unfold rd in H. destruct (take n bs) as [[x r0]|] eqn:E; [|discriminate].
  injection H as <- <-. destruct (take_spec _ _ _ _ E) as [-> Hl]. exists x. split; [reflexivity|].
  intros r2. unfold rd. rewrite <- Hl, take_app. reflexivity.
Qed.

Lemma local_rdB n : local (rdB n).
Proof.
  intros bs v r H. unfold rdB in H. destruct (lenN bs <? n); [discriminate|].
  destruct (take (N.to_nat n) bs) as [[x r0]|] eqn:E; [|discriminate].
  injection H as <- <-. destruct (take_spec _ _ _ _ E) as [-> Hl]. exists x. split; [reflexivity|].
  intros r2. replace n with (lenN x) by (unfold lenN; lia). apply rdB_app.
Qed.

Lemma local_rd_if c n : local (rd_if c n).
Proof. unfold rd_if. destruct c; [apply local_rd|apply local_pret]. Qed.

Lemma local_rdB_if c n : local (rdB_if c n).
Proof. unfold rdB_if. destruct c; [apply local_rdB|apply local_pret]. Qed.

Lemma local_bind {A B} (p : parser A) (f : A -> parser B) :
  local p -> (forall a, local (f a)) -> local (pbind p f).
Proof.
  intros Hp Hf bs b r H. apply pbind_ok in H. destruct H as (a & r1 & E1 & E2).
  destruct (Hp _ _ _ E1) as (x1 & -> & H1). destruct (Hf a _ _ _ E2) as (x2 & -> & H2).
  exists (x1 ++ x2). split; [now rewrite app_assoc|].
  intros r2. unfold pbind. rewrite <- app_assoc, H1. apply H2.
Qed.

Lemma local_zt : forall n, local (rd_zt n).
Proof.
  unfold local, rd_zt. intros n bs. revert n.
  induction bs as [|c t IH]; intros n s r H; cbn [zt] in H.
  - destruct (n =? 0); discriminate.
  - destruct (n =? 0) eqn:En; [discriminate|]. destruct (c =? 0) eqn:E0.
    + injection H as <- <-. exists [c]. split; [reflexivity|]. intros r2. cbn [app zt]. now rewrite En, E0.
    + destruct (zt t (n - 1)) as [[s' r']| | |] eqn:E; try discriminate. injection H as <- <-.
      destruct (IH _ _ _ E) as (x & -> & Hx). exists (c :: x). split; [reflexivity|].
      intros r2. cbn [app zt]. rewrite En, E0, Hx. reflexivity.
Qed.

Lemma local_pz : forall n, local (rd_pz n).
Proof.
  unfold local, rd_pz. intros n bs. revert n.
  induction bs as [|c t IH]; intros n [s z] r H; cbn [pz] in H.
  - destruct (n =? 0) eqn:En; [|discriminate]. injection H as <- <- <-. exists []. split; [reflexivity|].
    intros r2. cbn [app]. destruct r2; cbn [pz]; now rewrite En.
  - destruct (n =? 0) eqn:En.
    + injection H as <- <- <-. exists []. split; [reflexivity|].
      intros r2. cbn [app]. destruct r2; cbn [pz]; now rewrite En.
    + destruct (c =? 0) eqn:E0.
      * injection H as <- <- <-. exists [c]. split; [reflexivity|]. intros r2. cbn [app pz]. now rewrite En, E0.
      * destruct (pz t (n - 1)) as [[[s' z'] r']| | |] eqn:E; try discriminate. injection H as <- <- <-.
        destruct (IH _ _ _ E) as (x & -> & Hx). exists (c :: x). split; [reflexivity|].
        intros r2. cbn [app pz]. rewrite En, E0, Hx. reflexivity.
Qed.

(* ---------------------------------------------------------------- counted repetition *)
Lemma many_local {A} (p : parser A) : local p ->
  forall f cnt bs l r, rd_many f cnt p bs = Ok (l, r) ->
  exists x, bs = x ++ r /\ lenN l = cnt /\
    forall f' r2, (length l <= f')%nat -> rd_many f' cnt p (x ++ r2) = Ok (l, r2).
Proof.
  intros Hp. induction f as [|f IH]; intros cnt bs l r H; cbn [rd_many] in H.
  - destruct (cnt =? 0) eqn:Ec; [|discriminate]. injection H as <- <-. exists [].
    split; [reflexivity|]. split; [apply N.eqb_eq in Ec; now subst|].
    intros f' r2 _. destruct f'; cbn [rd_many app]; now rewrite Ec.
  - destruct (cnt =? 0) eqn:Ec.
    + injection H as <- <-. exists [].
      split; [reflexivity|]. split; [apply N.eqb_eq in Ec; now subst|].
      intros f' r2 _. destruct f'; cbn [rd_many app]; now rewrite Ec.
    + destruct (p bs) as [[a r1]| | |] eqn:E1; try discriminate.
      destruct (rd_many f (cnt - 1) p r1) as [[l' r']| | |] eqn:E2; try discriminate.
      injection H as <- <-.
      destruct (Hp _ _ _ E1) as (x1 & -> & H1). destruct (IH _ _ _ _ E2) as (x2 & -> & Hl & H2).
      exists (x1 ++ x2). split; [now rewrite app_assoc|]. apply N.eqb_neq in Ec.
      split; [rewrite lenN_cons; lia|].
      intros f' r2 Hf. destruct f' as [|f']; [cbn in Hf; lia|]. cbn [rd_many].
      replace (cnt =? 0) with false by (symmetry; now apply N.eqb_neq).
      rewrite <- app_assoc, H1, H2 by (cbn in Hf; lia). reflexivity.
Qed.

Lemma progress_nonempty {A} (p : parser A) : local p -> progress p ->
  forall bs a r, p bs = Ok (a, r) -> (length r < length bs)%nat.
Proof.
  intros Hp Hg bs a r H. destruct (Hp _ _ _ H) as (x & -> & Hx). destruct x as [|c x].
  - exfalso. apply (Hg a). exact (Hx []).
  - rewrite app_length. cbn [length]. lia.
Qed.

Lemma many_len {A} (p : parser A) : local p -> progress p ->
  forall f cnt bs l r, rd_many f cnt p bs = Ok (l, r) -> (length l + length r <= length bs)%nat.
Proof.
  intros Hp Hg. induction f as [|f IH]; intros cnt bs l r H; cbn [rd_many] in H.
  - destruct (cnt =? 0); [|discriminate]. injection H as <- <-. cbn. lia.
  - destruct (cnt =? 0); [injection H as <- <-; cbn; lia|].
    destruct (p bs) as [[a r1]| | |] eqn:E1; try discriminate.
    destruct (rd_many f (cnt - 1) p r1) as [[l' r']| | |] eqn:E2; try discriminate.
    injection H as <- <-. pose proof (progress_nonempty p Hp Hg _ _ _ E1). pose proof (IH _ _ _ _ E2).
    cbn [length]. lia.
Qed.

(* `for i := 0; i < cnt; i++` whose fuel is taken from the slice: enough whenever the items are not empty *)
Lemma local_many_S {A B} (p : parser A) cnt (k : list A -> parser B) :
  local p -> progress p -> (forall es, local (k es)) ->
  local (fun bs => pbind (rd_many (S (length bs)) cnt p) k bs).
Proof.
  intros Hp Hg Hk bs b r H. apply pbind_ok in H. destruct H as (l & r1 & E1 & E2).
  destruct (many_local p Hp _ _ _ _ _ E1) as (x1 & -> & _ & H1).
  pose proof (many_len p Hp Hg _ _ _ _ _ E1) as Hlen.
  destruct (Hk l _ _ _ E2) as (x2 & -> & H2).
  exists (x1 ++ x2). split; [now rewrite app_assoc|]. intros r2. unfold pbind.
  rewrite <- app_assoc. rewrite H1; [apply H2|]. rewrite !app_length in *. lia.
Qed.

Lemma local_many_S' {A} (p : parser A) cnt : local p -> progress p ->
  local (fun bs => rd_many (S (length bs)) cnt p bs).
Proof.
  intros Hp Hg bs l r E1.
  destruct (many_local p Hp _ _ _ _ _ E1) as (x1 & -> & _ & H1).
  pose proof (many_len p Hp Hg _ _ _ _ _ E1) as Hlen.
  exists x1. split; [reflexivity|]. intros r2. apply H1. rewrite !app_length in *. lia.
Qed.

(* constant fuel (avcC parameter sets) *)
Lemma many_fuel_len {A} (p : parser A) : forall f cnt bs l r, rd_many f cnt p bs = Ok (l, r) -> (length l <= f)%nat.
Proof.
  induction f as [|f IH]; intros cnt bs l r H; cbn [rd_many] in H.
  - destruct (cnt =? 0); [|discriminate]. injection H as <- <-. cbn. lia.
  - destruct (cnt =? 0); [injection H as <- <-; cbn; lia|].
    destruct (p bs) as [[a r1]| | |]; try discriminate.
    destruct (rd_many f (cnt - 1) p r1) as [[l' r']| | |] eqn:E2; try discriminate.
    injection H as <- <-. specialize (IH _ _ _ _ E2). cbn [length]. lia.
Qed.

Lemma local_many_const {A} (p : parser A) f cnt : local p -> local (rd_many f cnt p).
Proof.
  intros Hp bs l r H. destruct (many_local p Hp _ _ _ _ _ H) as (x & -> & _ & Hx).
  exists x. split; [reflexivity|]. intros r2. apply Hx. exact (many_fuel_len p _ _ _ _ _ H).
Qed.

(* ---------------------------------------------------------------- the shared tactic *)
Lemma local_other {A} (p : parser A) : (forall bs, match p bs with Ok _ => False | _ => True end) -> local p.
Proof. intros Hn bs a r H. specialize (Hn bs). now rewrite H in Hn. Qed.

Ltac loc :=
  repeat (cbv beta zeta;
    first [ apply local_pret | apply local_pfail | apply local_rd | apply local_rdB | apply local_rd_if
          | apply local_rdB_if | apply local_zt | apply local_pz
          | apply local_many_S; [ | | intros ? ]
          | apply local_many_S'
          | apply local_bind; [ | intros ? ]
          | match goal with |- local (if ?c then _ else _) => destruct c eqn:? end
          | match goal with |- local (match ?x with _ => _ end) => destruct x eqn:? end ]).

Ltac prog := intros ? Hprog; vm_compute in Hprog; discriminate Hprog.

(* ---------------------------------------------------------------- items of the tables *)
Lemma local_pair : local rd_pair. Proof. unfold rd_pair. loc. Qed.
Lemma local_triple : local rd_triple. Proof. unfold rd_triple. loc. Qed.
Lemma local_sref : local rd_sref. Proof. unfold rd_sref. loc. Qed.
Lemma local_elst w : local (rd_elst w). Proof. unfold rd_elst. loc. Qed.
Lemma local_tfra w a b c : local (rd_tfra w a b c). Proof. unfold rd_tfra. loc. Qed.
Lemma local_tsample fl : local (rd_tsample fl). Proof. unfold rd_tsample. loc. Qed.
Lemma local_nalu : local rd_nalu. Proof. unfold rd_nalu. loc. Qed.

Lemma rd_nil n a : rd (S n) [] <> Ok (a, []).
Proof. discriminate. Qed.
Lemma progress_rd_S n : progress (rd (S n)). Proof. intros a. apply rd_nil. Qed.
Lemma progress_rd48 (c : bool) : progress (rd (if c then 4%nat else 8%nat)).
Proof. destruct c; apply progress_rd_S. Qed.
Lemma progress_rd84 (c : bool) : progress (rd (if c then 8%nat else 4%nat)).
Proof. destruct c; apply progress_rd_S. Qed.
Lemma progress_rdB16 : progress (rdB 16). Proof. intros a H. discriminate H. Qed.
Lemma progress_pair : progress rd_pair. Proof. intros a H. discriminate H. Qed.
Lemma progress_triple : progress rd_triple. Proof. intros a H. discriminate H. Qed.
Lemma progress_sref : progress rd_sref. Proof. intros a H. discriminate H. Qed.
Lemma progress_elst (c : bool) : progress (rd_elst (if c then 8%nat else 4%nat)).
Proof. destruct c; intros a H; discriminate H. Qed.
Lemma progress_tfra w a b c : progress (rd_tfra (tfra_w w) a b c).
Proof. unfold tfra_w. destruct (w =? 1); intros x H; discriminate H. Qed.
Lemma progress_tsample fl : trun_bps fl <> 0 -> progress (rd_tsample fl).
Proof.
  intros Hb a H. unfold trun_bps in Hb. unfold rd_tsample, pbind, rd_if in H.
  destruct (has fl 256); [discriminate H|]. destruct (has fl 512); [discriminate H|].
  destruct (has fl 1024); [discriminate H|]. destruct (has fl 2048); [discriminate H|]. now apply Hb.
Qed.

(* the trun sample loop: its fuel has a constant slack for the samples without any field *)
Lemma local_many_trun fl cnt :
  (1024 <? cnt) && (trun_bps fl =? 0) = false ->
  local (fun bs => rd_many (length bs + 1100) cnt (rd_tsample fl) bs).
Proof.
  intros Hc bs l r E1.
  destruct (many_local _ (local_tsample fl) _ _ _ _ _ E1) as (x1 & -> & Hl & H1).
  exists x1. split; [reflexivity|]. intros r2. apply H1.
  destruct (trun_bps fl =? 0) eqn:Eb.
  - rewrite andb_true_r in Hc. apply N.ltb_ge in Hc. unfold lenN in Hl. lia.
  - apply N.eqb_neq in Eb.
    pose proof (many_len _ (local_tsample fl) (progress_tsample fl Eb) _ _ _ _ _ E1) as Hlen.
    rewrite !app_length in *. lia.
Qed.

(* ---------------------------------------------------------------- header and decoders *)
Lemma local_hdr : local dec_hdr.
Proof. unfold dec_hdr. loc. Qed.

Ltac locd := intros h; loc;
  try first [ apply progress_rd_S | apply progress_rd48 | apply progress_rd84 | apply progress_rdB16 | apply progress_pair
            | apply progress_triple | apply progress_sref | apply progress_elst | apply progress_tfra
            | apply local_pair | apply local_triple | apply local_sref | apply local_elst | apply local_tfra ].

Lemma local_ftyp : forall h, local (dec_ftyp h). Proof. unfold dec_ftyp. locd. Qed.
Lemma local_free : forall h, local (dec_free h). Proof. unfold dec_free. locd. Qed.
Lemma local_empty : forall h, local (dec_empty h). Proof. unfold dec_empty. locd. Qed.
Lemma local_b4 : forall h, local (dec_b4 h). Proof. unfold dec_b4. locd. Qed.
Lemma local_data : forall h, local (dec_data h). Proof. unfold dec_data. locd. Qed.
Lemma local_mime : forall h, local (dec_mime h). Proof. unfold dec_mime. locd. Qed.
Lemma local_mfhd : forall h, local (dec_mfhd h). Proof. unfold dec_mfhd. locd. Qed.
Lemma local_tfhd : forall h, local (dec_tfhd h). Proof. unfold dec_tfhd. locd. Qed.
Lemma local_tfdt : forall h, local (dec_tfdt h). Proof. unfold dec_tfdt. locd. Qed.
Lemma local_trex : forall h, local (dec_trex h). Proof. unfold dec_trex. locd. Qed.
Lemma local_trun : forall h, local (dec_trun h).
Proof. unfold dec_trun. intros h. loc. all: apply local_many_trun; assumption. Qed.
Lemma local_stts : forall h, local (dec_stts h). Proof. unfold dec_stts. locd. Qed.
Lemma local_stsc : forall h, local (dec_stsc h). Proof. unfold dec_stsc. locd. Qed.
Lemma local_stsz : forall h, local (dec_stsz h). Proof. unfold dec_stsz. locd. Qed.
Lemma local_tab w : (0 < w)%nat -> forall h, local (dec_tab w h).
Proof. intros Hw. unfold dec_tab. locd. destruct w; [lia|apply progress_rd_S]. Qed.
Lemma local_sdtp : forall h, local (dec_sdtp h). Proof. unfold dec_sdtp. locd. Qed.
Lemma local_ctts : forall h, local (dec_ctts h). Proof. unfold dec_ctts. locd. Qed.
Lemma local_elst_box : forall h, local (dec_elst h). Proof. unfold dec_elst. locd. Qed.
Lemma local_saiz : forall h, local (dec_saiz h). Proof. unfold dec_saiz. locd. Qed.
Lemma local_saio : forall h, local (dec_saio h). Proof. unfold dec_saio. locd. Qed.
Lemma local_sbgp : forall h, local (dec_sbgp h). Proof. unfold dec_sbgp. locd. Qed.
Lemma local_prft : forall h, local (dec_prft h). Proof. unfold dec_prft. locd. Qed.
Lemma local_frma : forall h, local (dec_frma h). Proof. unfold dec_frma. locd. Qed.
Lemma local_vmhd : forall h, local (dec_vmhd h). Proof. unfold dec_vmhd. locd. Qed.
Lemma local_fullonly : forall h, local (dec_fullonly h). Proof. unfold dec_fullonly. locd. Qed.
Lemma local_mfro : forall h, local (dec_mfro h). Proof. unfold dec_mfro. locd. Qed.
Lemma local_mehd : forall h, local (dec_mehd h). Proof. unfold dec_mehd. locd. Qed.
Lemma local_pssh : forall h, local (dec_pssh h). Proof. unfold dec_pssh. locd. Qed.
Lemma local_url : forall h, local (dec_url h). Proof. unfold dec_url. locd. Qed.
Lemma local_btrt : forall h, local (dec_btrt h). Proof. unfold dec_btrt. locd. Qed.
Lemma local_pasp : forall h, local (dec_pasp h). Proof. unfold dec_pasp. locd. Qed.
Lemma local_clap : forall h, local (dec_clap h). Proof. unfold dec_clap. locd. Qed.
Lemma local_schm : forall h, local (dec_schm h). Proof. unfold dec_schm. locd. Qed.
Lemma local_cslg : forall h, local (dec_cslg h). Proof. unfold dec_cslg. locd. Qed.
Lemma local_senc : forall h, local (dec_senc h). Proof. unfold dec_senc. locd. Qed.
Lemma local_emsg : forall h, local (dec_emsg h). Proof. unfold dec_emsg. locd. Qed.
Lemma local_kind : forall h, local (dec_kind h). Proof. unfold dec_kind. locd. Qed.
Lemma local_stsd : forall h, local (dec_stsd h). Proof. unfold dec_stsd. locd. Qed.
Lemma local_dref : forall h, local (dec_dref h). Proof. unfold dec_dref. locd. Qed.

(* stage 4 *)
Lemma local_subsample w : local (rd_subsample w). Proof. unfold rd_subsample. loc. Qed.
Lemma progress_subsample v : progress (rd_subsample (subs_w v)).
Proof. unfold subs_w. destruct (v =? 1); intros a H; discriminate H. Qed.
Lemma local_subs_entry v : local (rd_subs_entry (subs_w v)).
Proof. unfold rd_subs_entry. loc; first [apply local_subsample|apply progress_subsample]. Qed.
Lemma progress_subs_entry w : progress (rd_subs_entry w). Proof. intros a H. discriminate H. Qed.
Lemma local_subs : forall h, local (dec_subs h).
Proof. unfold dec_subs. intros h. loc; first [apply local_subs_entry|apply progress_subs_entry|apply progress_subsample|apply local_subsample]. Qed.
Lemma progress_nalu : progress rd_nalu. Proof. intros a H. discriminate H. Qed.
Lemma local_narr : local rd_narr.
Proof. unfold rd_narr. loc; first [apply local_nalu|apply progress_nalu]. Qed.

Lemma local_pairw w : local (rd_pairw w). Proof. unfold rd_pairw. loc. Qed.
Lemma local_uuid : forall h, local (dec_uuid h).
Proof.
  unfold dec_uuid. intros h. apply local_bind; [apply local_rdB|intros u].
  destruct (bytes_eqb u uuid_tfxd); [loc|].
  destruct (bytes_eqb u uuid_tfrf).
  { apply local_bind; [apply local_rd|intros vf]. apply local_bind; [apply local_rd|intros cnt].
    apply local_bind; [apply local_many_const; apply local_pairw|intros es; apply local_pret]. }
  destruct (bytes_eqb u uuid_piff).
  { destruct (h_size h <? 16); [apply local_pfail|].
    apply local_bind; [apply local_senc|intros [l0 rsv0]]. cbn [fst]. destruct l0; first [apply local_pfail|apply local_pret]. }
  destruct (h_size h <? 24); [apply local_pfail|]. loc.
Qed.
