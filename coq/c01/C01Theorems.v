(* C01Theorems.v — the property theorems of C01 (decode then encode is lossless outside reserved fields).
   Each is closed by `exact <lemma>` and followed by Print Assumptions (audited by ./check on every run). *)
From V.lib Require Import Base.
From V.c01 Require Import C01Codec C01Model C01LeafProofs C01Leaf2Proofs C01Leaf3Proofs C01Leaf4Proofs C01Leaf5Proofs C01Leaf6Proofs C01TableProofs C01TreeProofs C01WhyProofs C01Witness C01Witness3
  C01RealFiles C01RealWitness C01SizeProofs C01LocalProofs C01StableProofs C01FixProofs C01Witness4 C01EsdsProofs C01SgpdProofs C01Witness5
  C01FileModel C01FileProofs C01FileExamples C01FileWitness C01Witness6 C01GenModel C01GenProofs C01GenFileModel C01GenFileProofs C01GenWitness.

(* a compact header written by EncodeHeaderSW is read back by DecodeHeaderSR *)
Theorem C01_header_rt : forall name sz r, lenN name = 4 -> 8 <= sz < 4294967296 ->
  dec_hdr (enc_hdr name sz ++ r) = Ok (mkHdr name sz 8, r).
Proof. exact header_rt. Qed.
Print Assumptions C01_header_rt.

Theorem C01_header_large : forall name sz r, lenN name = 4 -> 16 <= sz < 18446744073709551616 ->
  dec_hdr (enc_hdr_large name sz ++ r) = Ok (mkHdr name sz 16, r).
Proof. exact header_large. Qed.
Print Assumptions C01_header_large.

(* every accepted header is one of the two printed forms: nothing in it is lost *)
Theorem C01_header_lossless : forall bs h r, bytes_ok bs = true -> dec_hdr bs = Ok (h, r) ->
  bytes_ok r = true /\ h_len h <= h_size h /\
  ((h_len h = 8 /\ bs = enc_hdr (h_name h) (h_size h) ++ r) \/
   (h_len h = 16 /\ bs = enc_hdr_large (h_name h) (h_size h) ++ r)).
Proof. exact dec_hdr_spec. Qed.
Print Assumptions C01_header_lossless.

(* per leaf kind: whatever the decoder accepts is reproduced from the decoded value and the captured
   reserved bytes -- nothing but the reserved bytes is lost (leaf_guard excludes only the trun whose
   data offset is present and zero, which Encode refuses: C01_trun_refuted) *)
(* ftyp/styp free/skip mdat mfhd tfhd tfdt trun mvhd tkhd sidx trex mdhd hdlr stts *)
Theorem C01_leaf_lossless_stage1 :
  leaf_lossless dec_ftyp /\
  leaf_lossless dec_free /\
  leaf_lossless dec_mdat /\
  leaf_lossless dec_mfhd /\
  leaf_lossless dec_tfhd /\
  leaf_lossless dec_tfdt /\
  leaf_lossless dec_trun /\
  leaf_lossless dec_mvhd /\
  leaf_lossless dec_tkhd /\
  leaf_lossless dec_sidx /\
  leaf_lossless dec_trex /\
  leaf_lossless dec_mdhd /\
  leaf_lossless dec_hdlr /\
  leaf_lossless dec_stts.
Proof. exact (conj lossless_ftyp (conj lossless_free (conj lossless_mdat (conj lossless_mfhd (conj lossless_tfhd (conj lossless_tfdt (conj lossless_trun (conj lossless_mvhd (conj lossless_tkhd (conj lossless_sidx (conj lossless_trex (conj lossless_mdhd (conj lossless_hdlr lossless_stts))))))))))))). Qed.
Print Assumptions C01_leaf_lossless_stage1.

(* stsc stsz stco/stss co64 sdtp ctts elst saiz saio sbgp prft tenc frma vmhd smhd nmhd/sthd mfro mehd tfra pssh *)
Theorem C01_leaf_lossless_stage2 :
  leaf_lossless dec_stsc /\
  leaf_lossless dec_stsz /\
  leaf_lossless (dec_tab 4) /\
  leaf_lossless (dec_tab 8) /\
  leaf_lossless dec_sdtp /\
  leaf_lossless dec_ctts /\
  leaf_lossless dec_elst /\
  leaf_lossless dec_saiz /\
  leaf_lossless dec_saio /\
  leaf_lossless dec_sbgp /\
  leaf_lossless dec_prft /\
  leaf_lossless dec_tenc /\
  leaf_lossless dec_frma /\
  leaf_lossless dec_vmhd /\
  leaf_lossless dec_smhd /\
  leaf_lossless dec_fullonly /\
  leaf_lossless dec_mfro /\
  leaf_lossless dec_mehd /\
  leaf_lossless dec_tfra /\
  leaf_lossless dec_pssh /\
  leaf_lossless dec_url /\
  leaf_lossless dec_avcC /\
  leaf_lossless dec_btrt /\
  leaf_lossless dec_pasp.
Proof. exact (conj lossless_stsc (conj lossless_stsz (conj (lossless_tab 4) (conj (lossless_tab 8) (conj lossless_sdtp (conj lossless_ctts (conj lossless_elst (conj lossless_saiz (conj lossless_saio (conj lossless_sbgp (conj lossless_prft (conj lossless_tenc (conj lossless_frma (conj lossless_vmhd (conj lossless_smhd (conj lossless_fullonly (conj lossless_mfro (conj lossless_mehd (conj lossless_tfra (conj lossless_pssh (conj lossless_url (conj lossless_avcC (conj lossless_btrt lossless_pasp))))))))))))))))))))))). Qed.
Print Assumptions C01_leaf_lossless_stage2.

(* url avcC btrt pasp colr clap schm cslg senc emsg elng kind; hvcC (whole hevc.DecodeHEVCDecConfRec) subs; esds with its whole descriptor tree; uuid (tfxd, tfrf, PIFF senc, unknown); sgpd (seig, roll, rap, alst, unknown entries); the field prefixes of stsd dref Visual/AudioSampleEntry (MPre) *)
Theorem C01_leaf_lossless_stage3 :
  leaf_lossless dec_colr /\
  leaf_lossless dec_clap /\
  leaf_lossless dec_schm /\
  leaf_lossless dec_cslg /\
  leaf_lossless dec_senc /\
  leaf_lossless dec_emsg /\
  leaf_lossless dec_elng /\
  leaf_lossless dec_kind /\
  leaf_lossless dec_hvcC /\
  leaf_lossless dec_subs /\
  leaf_lossless dec_esds /\
  leaf_lossless dec_uuid /\
  leaf_lossless dec_sgpd /\
  leaf_lossless dec_stsd /\
  leaf_lossless dec_dref /\
  leaf_lossless dec_visual /\
  leaf_lossless dec_audio.
Proof. exact (conj lossless_colr (conj lossless_clap (conj lossless_schm (conj lossless_cslg (conj lossless_senc (conj lossless_emsg (conj lossless_elng (conj lossless_kind (conj lossless_hvcC (conj lossless_subs (conj lossless_esds (conj lossless_uuid (conj lossless_sgpd (conj lossless_stsd (conj lossless_dref (conj lossless_visual lossless_audio)))))))))))))))). Qed.
Print Assumptions C01_leaf_lossless_stage3.


(* third extension round: data (type indicator and locale kept since repo commit f36e540), mime, the wvtt sample-entry prefix,
   vtte, vsid; vttC vlab ctim iden sttg payl vtta are entries of leaf_table decoded by dec_free; MetaBox: dec_fullonly as the
   ISO prefix, the QuickTime form is a pure container chosen by meta_qt (the look-ahead of DecodeMetaSR) in decode *)
Theorem C01_leaf_lossless_stage5 :
  leaf_lossless dec_data /\ leaf_lossless dec_mime /\ leaf_lossless dec_wvtt /\ leaf_lossless dec_empty /\ leaf_lossless dec_b4 /\
  leaf_lossless dec_dac3 /\ leaf_lossless dec_dec3.
Proof. exact (conj lossless_data (conj lossless_mime (conj lossless_wvtt (conj lossless_empty (conj lossless_b4 (conj lossless_dac3 lossless_dec3)))))). Qed.
Print Assumptions C01_leaf_lossless_stage5.

(* stage 2 leaf kinds *)

(* stage 3 leaf kinds, and the field prefixes of the boxes that carry fields and children (MPre) *)
(* stage 4: hvcC (the whole hevc.DecodeHEVCDecConfRec with its NALU arrays) and subs *)
(* esds with its whole descriptor tree (ES_Descriptor, DecoderConfigDescriptor with nested descriptors, DecSpecificInfo,
   SLConfig, raw descriptors, UnknownData, size fields of any width): reproduced from the decoded tree plus the size
   fields as read; C01_esds_core adds that a run whose size fields are in the encoder's form and that kept no
   UnknownData (leaf_guard) captured exactly the encoder's size fields and never looked behind the bytes it consumed.
   DecodeEsdsSR reads the payload of the box only (repo commit 27ea537, finding C03-F7: the descriptor decoders used
   to complete a descriptor cut short with the bytes behind the box), so the replay is stated for a header that
   announces exactly the re-encoded body -- what hdr_fits gives in C01_fixpoint. *)
Theorem C01_esds_core : forall h r l rsv r', bytes_ok r = true -> dec_esds h r = Ok ((l, rsv), r') ->
  bytes_ok r' = true /\ leaf_name l = n_esds /\ exists b, body_leaf l rsv = Ok b /\ r = b ++ r' /\
    (leaf_guard l = true -> rsv = dflt_rsv l /\ forall r2, payload_len h = lenN b -> dec_esds h (b ++ r2) = Ok ((l, rsv), r2)).
Proof. exact esds_core. Qed.
Print Assumptions C01_esds_core.


(* the tree: every slice accepted by the model of DecodeBoxSR whose tree is exact (compact headers whose size
   is Size(), guarded versions, no moov re-ordering, moof encodable) is reproduced bit for bit by the encoders
   when the captured reserved bytes are put back; raw_box false (the Go encoder) differs from raw_box true
   only in those bytes, by definition *)
Theorem C01_tree : forall bs t rest, bytes_ok bs = true -> decode bs = Ok (t, rest) -> exact_box t = true ->
  exists enc, raw_box true t = Ok enc /\ bs = enc ++ rest.
Proof. exact tree_lossless. Qed.
Print Assumptions C01_tree.

(* a file: the box loop of DecodeFileSR, written back by File.Encode in box-tree mode *)
Theorem C01_file_tree : forall bs ts, bytes_ok bs = true -> decode_file bs = Ok ts -> forallb exact_box ts = true ->
  encode_seq true ts = Ok bs.
Proof. exact (fun bs ts => seq_lossless (S (length bs)) bs ts). Qed.
Print Assumptions C01_file_tree.

(* the reasons of why_box are complete: a decoded tree for which the model gives no reason is exact and all its
   captured bytes have the values the encoders write; the Go encoders (raw_box false) then reproduce the input *)
Theorem C01_why_complete : forall t, why_box t = [] -> exact_box t = true /\ rsv_default t = true.
Proof. exact why_nil. Qed.
Print Assumptions C01_why_complete.

Theorem C01_explained : forall bs t rest, bytes_ok bs = true -> decode bs = Ok (t, rest) -> why_box t = [] ->
  exists enc, raw_box false t = Ok enc /\ bs = enc ++ rest.
Proof. exact explained. Qed.
Print Assumptions C01_explained.

(* ---------------------------------------------------------------- the fixed point, in general *)
(* the decoders are local: a successful run reads a prefix of the slice and never looks at what follows it *)
Theorem C01_header_local : local dec_hdr.
Proof. exact local_hdr. Qed.
Print Assumptions C01_header_local.

(* the dispatch tables as a whole (C01_leaf_table, C01_pre_table, C01_leaf_stable of the earlier rounds, one statement): every
   registered entry of the model is lossless and names its leaf; and print-then-parse per entry: a decoded leaf whose header is the
   one the encoder writes (hdr_fits) is re-encoded by the Go encoder (reserved places filled with dflt_rsv) into exactly Size() bytes,
   and the decoder applied to those bytes -- whatever follows them -- returns the same leaf, now with the encoder's values as
   captured bytes *)
Theorem C01_leaf_stable : Forall entry_ok leaf_table /\ Forall pre_entry_ok pre_table /\
  Forall (fun e => leaf_stable (snd e)) leaf_table /\ Forall (fun e => pre_stable (fst (snd e))) pre_table.
Proof. exact (conj leaf_table_ok (conj pre_table_ok (conj leaf_table_stable pre_table_stable))). Qed.
Print Assumptions C01_leaf_stable.

(* C01_fixpoint: for EVERY slice the model of DecodeBoxSR accepts completely with an exact tree t -- no hypothesis on the
   reserved bytes --: the Go encoders succeed on both API paths (raw_box false = the bytes written; encode_w = Box.Encode with its
   per-box FixedSliceWriter capacities and the 2^32 limit; encode_sw = Box.EncodeSW into one writer of Size() bytes) with the
   same bytes enc, of the input's length = Size(); decoding enc succeeds and yields norm_box t, i.e. t up to the captured
   reserved bytes (their erasures are equal); encoding that once more gives enc again on all three.  enc differs from the
   input at most in the captured bytes (C01_tree).
   SECOND CONJUNCT (generation2; one theorem with the first because each Print Assumptions over stable_all costs ~12 s of every run):
   the last sentence of the property ("decoding that output again succeeds ... encoding it once more gives exactly the same bytes")
   for accepted inputs OUTSIDE the first conjunct: NO exactness hypothesis on the first tree t (trailing body bytes dropped, header
   size ignored, large-size header compacted, trak re-ordered, guarded shapes ...), bytes may be left over (rest).  gen2_ok enc is a
   boolean on the bytes Box.Encode wrote -- enc is a byte string, the decoder model accepts it completely and why_box has no reason
   for its tree --; the driver evaluates it on the encoders' REAL output for every accepted, not reproduced input of the
   correspondence run (G lines; evidence correspondence.second_generation).  Then enc is a fixed point on every API path: the second
   decode gives an exact tree t2 that is its own normal form; the raw encoder, Box.Encode and Box.EncodeSW all write enc again;
   Size() is its length.  NOT proved: that gen2_ok holds for every accepted input whose encoding succeeds (explored: all G lines). *)
Theorem C01_fixpoint :
  (forall bs t, bytes_ok bs = true -> decode bs = Ok (t, []) -> exact_box t = true ->
   exists enc, raw_box false t = Ok enc /\ encode_w t = Ok enc /\ encode_sw t = Ok enc /\
    lenN enc = lenN bs /\ lenN enc = size_box t /\
    decode enc = Ok (norm_box t, []) /\ erase_rsv (norm_box t) = erase_rsv t /\
    raw_box false (norm_box t) = Ok enc /\ encode_w (norm_box t) = Ok enc /\ encode_sw (norm_box t) = Ok enc) /\
  (forall bs t rest enc, decode bs = Ok (t, rest) -> encode_w t = Ok enc -> gen2_ok enc = true ->
   raw_box false t = Ok enc /\
   exists t2, decode enc = Ok (t2, []) /\ exact_box t2 = true /\ norm_box t2 = t2 /\
    raw_box false t2 = Ok enc /\ encode_w t2 = Ok enc /\ encode_sw t2 = Ok enc /\ size_box t2 = lenN enc).
Proof. exact (conj fixpoint_full generation2). Qed.
Print Assumptions C01_fixpoint.

(* C01_file_boxtree: stated below with the File-level acceptance rules of DecodeFileSR *)

(* the special case proved first (inputs whose reserved bytes already have the encoder's values: enc = input) *)
Theorem C01_fixpoint_partial : forall bs t, bytes_ok bs = true -> decode bs = Ok (t, []) -> why_box t = [] ->
  exists enc, raw_box false t = Ok enc /\ decode enc = Ok (t, []) /\ raw_box false t = Ok enc /\ enc = bs.
Proof. exact fixpoint_partial. Qed.
Print Assumptions C01_fixpoint_partial.

Theorem C01_file_boxtree_partial : forall bs ts, bytes_ok bs = true -> decode_file bs = Ok ts ->
  flat_map why_box ts = [] -> encode_seq false ts = Ok bs /\ decode_file bs = Ok ts.
Proof. exact seq_explained. Qed.
Print Assumptions C01_file_boxtree_partial.

(* the hypotheses of C01_fixpoint are satisfiable by an input that C01_fixpoint_partial does not cover: an
   stsd{avc1{avcC colr}} whose reserved bytes / bits are not the encoder's; the encoders' bytes differ from it and
   are a fixed point *)
Example C01_ex_fixpoint : bytes_ok ex_fix_bytes = true /\ decode ex_fix_bytes = Ok (treeof ex_fix_bytes, []) /\
  exact_box (treeof ex_fix_bytes) = true /\ why_box (treeof ex_fix_bytes) <> [] /\
  raw_box false (treeof ex_fix_bytes) = Ok ex_fix_enc /\ ex_fix_enc <> ex_fix_bytes /\
  decode ex_fix_enc = Ok (norm_box (treeof ex_fix_bytes), []) /\
  raw_box false (norm_box (treeof ex_fix_bytes)) = Ok ex_fix_enc.
Proof. exact ex_fix_ok. Qed.

(* --- what the guards exclude is really lost (witnesses replayed on the Go code by the check) --- *)
(* witnesses of the version >= 2 defect of mvhd / tkhd (decode on version==1, encode on Version==0, Size on
   Version==1: "overflow in SliceWriter"), refuted before the repairs 5633466 / 1982f88, now fixed points *)
Theorem C01_leaf_mvhd_v2_fixed : exists t, decode w_mvhd_v2 = Ok (t, []) /\ encode_w t = Ok w_mvhd_v2 /\ encode_sw t = Ok w_mvhd_v2.
Proof. exact mvhd_v2_fixed. Qed.
Print Assumptions C01_leaf_mvhd_v2_fixed.

Theorem C01_leaf_tkhd_v2_fixed : exists t, decode w_tkhd_v2 = Ok (t, []) /\ encode_w t = Ok w_tkhd_v2 /\ encode_sw t = Ok w_tkhd_v2.
Proof. exact tkhd_v2_fixed. Qed.
Print Assumptions C01_leaf_tkhd_v2_fixed.

Theorem C01_trun_refuted : exists bs t, decode bs = Ok (t, []) /\ encode_w t = Err.
Proof. exact trun_offset0_refuted. Qed.
Print Assumptions C01_trun_refuted.

(* trailing body bytes are accepted and dropped *)
Theorem C01_trailing_refuted : exists bs t rest enc,
  decode bs = Ok (t, rest) /\ exact_box t = false /\ encode_w t = Ok enc /\ enc ++ rest <> bs.
Proof. exact mfhd_trailing_refuted. Qed.
Print Assumptions C01_trailing_refuted.

(* one witness per defect class the model exposes (the reasons of why_box listed as known findings) *)
Theorem C01_visual_padding_refuted : refutes w_vis_pad [(n_avc1, RRsv false 3)].
Proof. exact vis_pad_refuted. Qed.
Print Assumptions C01_visual_padding_refuted.
Theorem C01_visual_depth_refuted : refutes w_vis_depth [(n_hvc1, RRsv false 4)].
Proof. exact vis_depth_refuted. Qed.
Print Assumptions C01_visual_depth_refuted.
Theorem C01_audio_fraction_refuted : refutes w_audio_frac [(n_mp4a, RRsv false 3)].
Proof. exact audio_frac_refuted. Qed.
Print Assumptions C01_audio_fraction_refuted.
Theorem C01_avcC_bits_refuted : refutes w_avcc_bits [(n_avcC, RRsv true 0); (n_avcC, RRsv true 1)].
Proof. exact avcc_bits_refuted. Qed.
Print Assumptions C01_avcC_bits_refuted.
Theorem C01_avcC_extra_refuted : refutes w_avcc_extra [(n_avcC, RSizeBig); (n_avcC, RRsv false 5)].
Proof. exact avcc_extra_refuted. Qed.
Print Assumptions C01_avcC_extra_refuted.
Theorem C01_colr_bits_refuted : refutes w_colr_bits [(n_colr, RRsv true 0)].
Proof. exact colr_bits_refuted. Qed.
Print Assumptions C01_colr_bits_refuted.
Theorem C01_url_tail_refuted : refutes w_url_tail [(n_url, RSizeBig)].
Proof. exact url_tail_refuted. Qed.
Print Assumptions C01_url_tail_refuted.
Theorem C01_senc_zero_fixed : exists t rest enc,
  decode w_senc_zero = Ok (t, rest) /\ raw_box false t = Ok enc /\ enc ++ rest = w_senc_zero /\ why_box t = [].
Proof. exact senc_zero_fixed. Qed.
Print Assumptions C01_senc_zero_fixed.
Theorem C01_senc_large_fixed : decode w_senc_large = Err.
Proof. exact senc_large_fixed. Qed.
Print Assumptions C01_senc_large_fixed.
Theorem C01_elng_unterminated_refuted : refutes w_elng_unterminated [(n_elng, RSizeBig); (n_elng, RRsv false 0)].
Proof. exact elng_unterminated_refuted. Qed.
Print Assumptions C01_elng_unterminated_refuted.
(* finding C01-K77 (repaired by repo commit 89e24df): an SLConfigDescriptor announcing 0 bytes was accepted (the configuration
   byte was read anyway) and written back with size 1; now it is refused, kept as UnknownData, and the input is reproduced *)
Theorem C01_esds_slconfig_size_fixed : decode (ex_esds 0) = Ok (treeof (ex_esds 0), []) /\ raw_box false (treeof (ex_esds 0)) = Ok (ex_esds 0) /\
  match treeof (ex_esds 0) with
  | MLeaf _ (LEsds 0 0 1 1 0 _ [] _ (DDcd 1 64 21 0 128000 128000 [DDsi 1 [17; 144]] []) [] [6; 0; 2] false) _ => True
  | _ => False
  end.
Proof. exact esds_slc0_fixed. Qed.
Print Assumptions C01_esds_slconfig_size_fixed.
Theorem C01_stsd_nobody_fixed : decode w_stsd_nobody = Err.
Proof. exact stsd_nobody_fixed. Qed.
Print Assumptions C01_stsd_nobody_fixed.

(* non-vacuity: a moof and a moov tree decode, are exact, and re-encode to themselves *)
Example C01_ex_moof : decode ex_moof_bytes = Ok (ex_moof_tree, []) /\ exact_box ex_moof_tree = true /\
  bytes_ok ex_moof_bytes = true /\ encode_w ex_moof_tree = Ok ex_moof_bytes.
Proof. exact ex_moof_ok. Qed.
Example C01_ex_moov : decode ex_moov_bytes = Ok (ex_moov_tree, []) /\ exact_box ex_moov_tree = true /\
  bytes_ok ex_moov_bytes = true.
Proof. exact ex_moov_ok. Qed.

(* stsd{avc1{avcC btrt}}: the MPre case of C01_tree / C01_explained is inhabited *)
Example C01_ex_stsd : exact_box (treeof ex_stsd_bytes) = true /\ why_box (treeof ex_stsd_bytes) = [] /\
  decode ex_stsd_bytes = Ok (treeof ex_stsd_bytes, []) /\ raw_box false (treeof ex_stsd_bytes) = Ok ex_stsd_bytes /\
  bytes_ok ex_stsd_bytes = true /\ lenN ex_stsd_bytes = 151.
Proof. exact ex_stsd_ok. Qed.

(* a typical AAC esds: decodes to ES{DecoderConfig{DecSpecificInfo 11 90}, SLConfig 2}, exact, reproduced *)
Example C01_ex_esds : bytes_ok (ex_esds 1) = true /\ decode (ex_esds 1) = Ok (treeof (ex_esds 1), []) /\
  exact_box (treeof (ex_esds 1)) = true /\ why_box (treeof (ex_esds 1)) = [] /\
  raw_box false (treeof (ex_esds 1)) = Ok (ex_esds 1) /\
  match treeof (ex_esds 1) with
  | MLeaf _ (LEsds 0 0 1 1 0 _ [] _ (DDcd 1 64 21 0 128000 128000 [DDsi 1 [17; 144]] []) [DSlc 1 2 []] [] true) _ => True
  | _ => False
  end.
Proof. exact ex_esds_ok. Qed.

(* COMPLETE REAL FILES of /repo testdata decode inside the model, are exact, and the Go encoders' bytes are the file:
   an init segment (ftyp moov{... stsd{avc3{avcC}} ...}) and a media segment (styp sidx moof{mfhd traf{tfhd tfdt trun}} mdat) *)
Example C01_real_init_segment :
  decode_file rf_init_video = Ok (seq_of rf_init_video) /\ names_of (seq_of rf_init_video) = [n_ftyp; n_moov] /\
  forallb exact_box (seq_of rf_init_video) = true /\ bytes_ok rf_init_video = true /\
  encode_seq false (seq_of rf_init_video) = Ok rf_init_video.
Proof. exact real_init_ok. Qed.
(* an AAC init segment (mp4a{esds}) and an HEVC init segment (hvc1{hvcC}): no box is left opaque *)
Example C01_real_init_aac :
  decode_file rf_init_aac = Ok (seq_of rf_init_aac) /\ names_of (seq_of rf_init_aac) = [n_ftyp; n_skip; n_moov] /\
  forallb exact_box (seq_of rf_init_aac) = true /\ flat_map why_box (seq_of rf_init_aac) = [] /\
  count_leaves n_esds (seq_of rf_init_aac) = 1%nat /\ bytes_ok rf_init_aac = true /\
  encode_seq false (seq_of rf_init_aac) = Ok rf_init_aac.
Proof. exact real_init_aac_ok. Qed.
Example C01_real_init_hvc1 :
  decode_file rf_init_hvc1 = Ok (seq_of rf_init_hvc1) /\ names_of (seq_of rf_init_hvc1) = [n_ftyp; n_moov] /\
  forallb exact_box (seq_of rf_init_hvc1) = true /\ flat_map why_box (seq_of rf_init_hvc1) = [] /\
  count_leaves n_hvcC (seq_of rf_init_hvc1) = 1%nat /\ bytes_ok rf_init_hvc1 = true /\
  encode_seq false (seq_of rf_init_hvc1) = Ok rf_init_hvc1.
Proof. exact real_init_hvc1_ok. Qed.
Example C01_real_media_segment :
  decode_file rf_media_seg = Ok (seq_of rf_media_seg) /\
  names_of (seq_of rf_media_seg) = [n_styp; n_sidx; n_moof; n_mdat] /\
  forallb exact_box (seq_of rf_media_seg) = true /\ bytes_ok rf_media_seg = true /\
  encode_seq false (seq_of rf_media_seg) = Ok rf_media_seg.
Proof. exact real_media_ok. Qed.

(* ---------------------------------------------------------------- DecodeFileSR with its File-level acceptance rules *)
(* decode_file_sr (C01FileModel) is the loop of DecodeFileSR: DecodeBoxSR per top-level box AND the rules that are not
   box-local (moov needs the first-trak/mdia/minf/stbl/stts chain; in a fragmented file an mdat must follow a moof, in a
   progressive file only one mdat may have a payload; a traf with an unparsed senc and a moov needs a tfhd; a cut-short mdat
   ends the loop).  The loop is exactly the box loop filtered by the rules as long as no mdat is cut short: *)
Theorem C01_file_rules : forall bs ts, no_trunc ts = true ->
  (decode_file_sr bs = FOk ts <-> (decode_file bs = Ok ts /\ file_rules fs0 (map erase_rsv ts) = true)).
Proof.
  exact (fun bs ts Hn => conj (fun H => loop_sound (S (length bs)) fs0 bs ts H Hn)
                              (fun H => loop_complete (S (length bs)) fs0 bs ts (proj1 H) (proj2 H) Hn)).
Qed.
Print Assumptions C01_file_rules.

(* C01_file_boxtree, restated with the rules (first conjunct): for EVERY byte string that DecodeFileSR accepts (FOk: box-local AND
   File-level rules; files that reach TrafBox.ParseReadSenc have the separate outcome FSencParse and are outside, see C02/C04) whose
   top-level trees are exact: File.Encode (Box.Encode per child: progressive files, and fragmented files in EncModeBoxTree) and
   File.EncodeSW (one writer of File.Size() bytes) succeed with the same bytes enc of the input's length; enc is accepted AGAIN by
   DecodeFileSR with the same trees up to captured reserved bytes and the same IsFragmented(); encoding those gives enc again on both
   paths.  Accepted files outside the hypothesis: not exact (the reasons of why_box, per box) -- at the File level that adds exactly
   the cut-short mdat (C01_file_truncated_mdat_refuted).  Second conjunct: the statement of the earlier rounds, for the bare box loop
   (no File-level rule applied: every sequence of acceptable boxes). *)
Theorem C01_file_boxtree :
  (forall bs ts, bytes_ok bs = true -> decode_file_sr bs = FOk ts -> forallb exact_box ts = true ->
   exists enc, file_encode_w ts = Ok enc /\ file_encode_sw ts = Ok enc /\ encode_seq false ts = Ok enc /\ lenN enc = lenN bs /\
     decode_file_sr enc = FOk (map norm_box ts) /\ (file_frag (map norm_box ts) = file_frag ts) /\
     file_encode_w (map norm_box ts) = Ok enc /\ file_encode_sw (map norm_box ts) = Ok enc) /\
  (forall bs ts, bytes_ok bs = true -> decode_file bs = Ok ts -> forallb exact_box ts = true ->
   exists enc, encode_seq false ts = Ok enc /\ encode_seq_w ts = Ok enc /\ lenN enc = lenN bs /\
     decode_file enc = Ok (map norm_box ts) /\ encode_seq false (map norm_box ts) = Ok enc /\
     encode_seq_w (map norm_box ts) = Ok enc) /\
  (* third conjunct (round 4): the SECOND GENERATION of an accepted file that File.Encode does NOT reproduce (no exactness
     hypothesis on ts: an inexact top-level box, a cut-short mdat): when the bytes enc that File.Encode wrote are accepted again by
     DecodeFileSR and no top-level tree has a reason (gen2_file_ok enc: a boolean the driver evaluates on the REAL output, H lines),
     enc is a fixed point of File.Encode, File.EncodeSW and the raw encoder *)
  (forall bs ts enc, decode_file_sr bs = FOk ts -> file_encode_w ts = Ok enc -> gen2_file_ok enc = true ->
   exists ts2, decode_file_sr enc = FOk ts2 /\ forallb exact_box ts2 = true /\ map norm_box ts2 = ts2 /\
     file_encode_w ts2 = Ok enc /\ file_encode_sw ts2 = Ok enc /\ encode_seq false ts2 = Ok enc).
Proof. exact (conj file_accepted_fixpoint (conj file_fixpoint_full generation2_file)). Qed.
Print Assumptions C01_file_boxtree.

(* the hypotheses are satisfiable, in both configurations of the quantifier: PROGRESSIVE files with the mdat BEFORE the moov and
   with the moov before the mdat (File.Encode does not move boxes nor fix up offsets), empty mdats around the one with a
   payload, and a FRAGMENTED file (box-tree mode) *)
Example C01_ex_progressive_mdat_first : file_ok fx_prog_mdat_first [n_ftyp; n_mdat; n_moov] false.
Proof. exact ex_prog_mdat_first_ok. Qed.
Example C01_ex_progressive_moov_first : file_ok fx_prog_moov_first [n_ftyp; n_moov; n_free; n_mdat] false.
Proof. exact ex_prog_moov_first_ok. Qed.
Example C01_ex_progressive_empty_mdats : file_ok fx_prog_empty_mdats [n_ftyp; n_mdat; n_mdat; n_mdat; n_moov] false.
Proof. exact ex_prog_empty_mdats_ok. Qed.
Example C01_ex_fragmented_file : file_ok fx_frag [n_ftyp; n_moov; n_styp; n_moof; n_mdat; n_moof; n_mdat] true.
Proof. exact ex_frag_ok. Qed.
(* the rules do refuse files whose boxes are all accepted (and exact) one by one *)
Example C01_ex_file_rules_refuse : rule_refuses fx_two_mdats /\ rule_refuses fx_frag_mdat_first /\ rule_refuses fx_nochain /\
  decode_file_sr fx_trailing = FErr /\ decode_file_sr fx_size0 = FErr.
Proof. exact (conj ex_two_mdats_refused (conj ex_frag_mdat_first_refused (conj ex_nochain_refused ex_trailing_refused))). Qed.

(* an ACCEPTED file that is NOT reproduced: the last mdat announces 100 bytes, 4 are there; DecodeMdatSR keeps an empty payload
   and the loop ends; File.Encode writes an 8-byte mdat (known finding leaf-decoders/header-size-ignored, replayed on the
   real code by the whole-file correspondence and search) *)
Theorem C01_file_truncated_mdat_refuted :
  decode_file_sr fx_trunc_mdat = FOk (fseq_of fx_trunc_mdat) /\ map box_name (fseq_of fx_trunc_mdat) = [n_ftyp; n_moov; n_mdat] /\
  forallb exact_box (fseq_of fx_trunc_mdat) = false /\ file_encode_w (fseq_of fx_trunc_mdat) = Ok (fenc_of fx_trunc_mdat) /\
  lenN fx_trunc_mdat = 504 /\ lenN (fenc_of fx_trunc_mdat) = 500 /\ firstn 492 (fenc_of fx_trunc_mdat) = firstn 492 fx_trunc_mdat.
Proof. exact file_trunc_mdat_refuted. Qed.
Print Assumptions C01_file_truncated_mdat_refuted.

(* ---------------------------------------------------------------- third extension round: examples and repaired findings *)
(* a REAL udta box (mp4/testdata/bbb5s_aac_sidx.mp4): udta{meta{hdlr ilst{(c)too{data}}}} with the ISO form of MetaBox, and the same
   metadata in a QuickTime meta atom: every box typed, exact, no reason, fixed points of Encode and EncodeSW *)
Example C01_ex_meta_iso : fixed_point rb_udta_meta /\
  match treeof rb_udta_meta with
  | MCont _ [MPre _ (LFullOnly _ 0 0) _ [MLeaf _ (LHdlr _ _ _ _ _ _) _; MCont _ [MCont _ [MLeaf _ (LData 1 0 _) _]]]] => True
  | _ => False
  end.
Proof. exact ex_meta_iso_ok. Qed.
Example C01_ex_meta_quicktime : fixed_point rb_udta_meta_qt /\
  match treeof rb_udta_meta_qt with
  | MCont _ [MCont h [MLeaf _ (LHdlr _ _ _ _ _ _) _; MCont _ [MCont _ [MLeaf _ (LData 1 0 _) _]]]] => h_name h = n_meta
  | _ => False
  end.
Proof. exact ex_meta_qt_ok. Qed.
Example C01_ex_mime_wvtt : fixed_point ex_mime /\ fixed_point ex_wvtt.
Proof. exact (conj ex_mime_ok (proj1 ex_wvtt_ok)). Qed.
(* finding C01-F7, repaired by repo commit f36e540: the type indicator (21) and the locale of an iTunes value atom survive *)
Theorem C01_data_type_fixed : fixed_point ex_data21 /\
  match treeof ex_data21 with MLeaf _ (LData 21 25966 [0; 7]) _ => True | _ => False end.
Proof. exact data_type_fixed. Qed.
Print Assumptions C01_data_type_fixed.
(* what leaf_guard excludes for wvtt is really not reproduced: a wvtt cut inside its eight prefix bytes is accepted (12 bytes in,
   16 bytes out) *)

(* (c) the two ghost guards (leaf_guard of LEsds / LSgpd) exclude inputs that are really NOT reproduced; each by a witness that
   the search replays on the real code: an esds size field of eleven bytes whose leading group overflows readSizeSize's uint64
   (C01-K77), and the reserved byte of a seig entry of sgpd (C01-K58).  An esds that merely kept UnknownData IS reproduced
   (C01_esds_slconfig_size_fixed); it is outside C01_fixpoint only because print-then-parse is not proved for that shape. *)

(* dac3 / dec3 (AC-3 and E-AC-3 specific boxes, read through bits.Reader): typed, exact, fixed points; their guards exclude a dac3
   payload that is not InitialZeroes + 3 bytes (accepted: the bit reader's error is not looked at; C01-K73) and dec3 substreams
   whose reserved bits are not 0 (dropped by the decoder; C01-K58) *)
Example C01_ex_dac3_dec3 : fixed_point ex_dac3 /\ fixed_point ex_dac3_zeroes /\ fixed_point ex_dec3 /\
  match treeof ex_dec3 with MLeaf _ (LDec3 384 [(0, 16, 0, 0, 7, 1, 1, 289); (1, 16, 1, 0, 7, 0, 0, 0)] [170] true) _ => True | _ => False end.
Proof. exact (conj (proj1 ex_dac3_ok) (conj (proj1 (proj2 ex_dac3_ok)) ex_dec3_ok)). Qed.

(* what the ghost guards of leaf_guard exclude is really NOT reproduced -- one witness each, replayed on the real code by the search:
   wvtt cut inside its eight prefix bytes (12 bytes in, 16 out); an esds size field of eleven bytes overflowing readSizeSize's
   uint64 (C01-K77); a dac3 payload of two bytes (C01-K73); a reserved bit of a dec3 substream (C01-K58).  sgpd has NO guard any
   more: the reserved byte of a seig entry is a captured chunk (stable_sgpd replays the entry loop on the zeroed bytes), an input
   with such a byte (0x55) is exact -- inside C01_fixpoint -- and its only reason is that byte (C01-K58) *)
Theorem C01_guards_refuted :
  (decode ex_wvtt_short = Ok (treeof ex_wvtt_short, [0; 0; 0; 0]) /\ exact_box (treeof ex_wvtt_short) = false /\
   leaf_guard (LWvtt 0 true) = false /\ lenN ex_wvtt_short = 12 /\
   match encode_w (treeof ex_wvtt_short) with Ok enc => lenN enc = 16 | _ => False end) /\
  refutes w_esds_overflow [(n_esds, RGuard); (n_esds, RRsv false 2)] /\
  (refutes w_sgpd_seig_rsv [(n_sgpd, RRsv true 0)] /\ exact_box (treeof w_sgpd_seig_rsv) = true) /\
  refutes w_dac3_short [(n_dac3, RSizeSmall); (n_dac3, RGuard)] /\
  refutes w_dec3_rsv [(n_dec3, RGuard)].
Proof. exact (conj wvtt_short_refuted (conj esds_overflow_refuted (conj (conj sgpd_seig_rsv_refuted (proj1 sgpd_seig_rsv_exact)) (conj dac3_short_refuted dec3_rsv_refuted)))). Qed.
Print Assumptions C01_guards_refuted.

(* ---------------------------------------------------------------- the second generation of inputs that are NOT reproduced
   (C01_fixpoint, second conjunct) *)
(* the hypotheses are satisfiable by inputs the first generation really loses something of (url / avcC / mfhd with trailing body
   bytes, a dac3 payload of two bytes, an unterminated elng): accepted, inexact, encoded to different bytes, gen2_ok of those *)
Example C01_ex_generation2 : lossy_then_fixed w_url_tail /\ lossy_then_fixed w_avcc_extra /\ lossy_then_fixed w_mfhd_trailing /\
  lossy_then_fixed w_dac3_short /\ lossy_then_fixed w_elng_unterminated.
Proof. exact gen2_examples. Qed.
(* gen2_ok is sufficient, not necessary: the esds that kept UnknownData is written back unchanged, the guard still names a reason *)
Example C01_ex_generation2_guard : encode_w (treeof (ex_esds 0)) = Ok (ex_esds 0) /\ gen2 (ex_esds 0) = G2Why /\
  decode (ex_esds 0) = Ok (treeof (ex_esds 0), []).
Proof. exact gen2_guard_example. Qed.
(* File level (C01_file_boxtree, third conjunct): the file with the cut-short mdat loses 4 bytes in the first generation; the 500
   bytes File.Encode writes satisfy gen2_file_ok *)
Example C01_ex_generation2_file : decode_file_sr fx_trunc_mdat = FOk (fseq_of fx_trunc_mdat) /\ forallb exact_box (fseq_of fx_trunc_mdat) = false /\
  file_encode_w (fseq_of fx_trunc_mdat) = Ok (fenc_of fx_trunc_mdat) /\ lenN (fenc_of fx_trunc_mdat) = 500 /\ lenN fx_trunc_mdat = 504 /\
  gen2_file_ok (fenc_of fx_trunc_mdat) = true.
Proof. exact gen2_file_example. Qed.

(* finding C01-K79 (known; found by the second-generation correspondence): DecodeElngSR decides "full-box header missing" from the
   payload length alone (< 7).  The library's own encoding of CreateElng("x") (payload 6) is read back as a bare string starting with
   the zero of version/flags: Language "" and missingFullBox, bytes left over; an accepted elng with bytes after an empty language
   goes 16 -> 13 -> 9 bytes: the encoders' output is accepted again only in part (G2Rest) and the third encoding differs.  This is
   what the hypothesis gen2_ok of C01_fixpoint's second conjunct excludes. *)
Theorem C01_elng_generation2_refuted :
  (raw_box false (MLeaf {| h_name := n_elng; h_size := 14; h_len := 8 |} (LElng false 0 0 [120]) [[120; 0]]) = Ok w_elng_x /\
   exists h rsv rest, decode w_elng_x = Ok (MLeaf h (LElng true 0 0 []) rsv, rest) /\ rest <> []) /\
  (exists t rest enc t2 rest2 enc3, decode w_elng_chain = Ok (t, rest) /\ encode_w t = Ok enc /\ gen2 enc = G2Rest /\
     decode enc = Ok (t2, rest2) /\ rest2 <> [] /\ encode_w t2 = Ok enc3 /\ lenN enc = 13 /\ lenN enc3 = 9).
Proof. exact elng_generation2_refuted. Qed.
Print Assumptions C01_elng_generation2_refuted.
