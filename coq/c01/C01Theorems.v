(* C01Theorems.v — the property theorems of C01 (decode then encode is lossless outside reserved fields).
   Each is closed by `exact <lemma>` and followed by Print Assumptions (audited by ./check on every run). *)
From V.lib Require Import Base.
From V.c01 Require Import C01Codec C01Model C01LeafProofs C01Leaf2Proofs C01TableProofs C01TreeProofs C01Witness.

(* a compact header written by EncodeHeaderSW is read back by DecodeHeaderSR *)
Theorem C01_header_rt : forall name sz r, lenN name = 4 -> 8 <= sz < 4294967296 ->
  dec_hdr (enc_hdr name sz ++ r) = Ok (mkHdr name sz 8, r).
Proof. exact header_rt. Qed.
Print Assumptions C01_header_rt.

Theorem C01_header_large : forall name sz r, lenN name = 4 -> 16 <= sz < 18446744073709551616 ->
  dec_hdr (enc_hdr_large name sz ++ r) = Ok (mkHdr name sz 16, r).
Proof. exact header_large. Qed.
Print Assumptions C01_header_large.

(* every accepted header is one of the two printed forms: nothing in it is lost *)
Theorem C01_header_lossless : forall bs h r, bytes_ok bs = true -> dec_hdr bs = Ok (h, r) ->
  bytes_ok r = true /\ h_len h <= h_size h /\
  ((h_len h = 8 /\ bs = enc_hdr (h_name h) (h_size h) ++ r) \/
   (h_len h = 16 /\ bs = enc_hdr_large (h_name h) (h_size h) ++ r)).
Proof. exact dec_hdr_spec. Qed.
Print Assumptions C01_header_lossless.

(* per leaf kind: whatever the decoder accepts is reproduced from the decoded value and the captured
   reserved bytes -- nothing but the reserved bytes is lost (leaf_guard excludes only the trun whose
   data offset is present and zero, which Encode refuses: C01_trun_refuted) *)
Theorem C01_leaf_lossless_ftyp : leaf_lossless dec_ftyp. Proof. exact lossless_ftyp. Qed.
Print Assumptions C01_leaf_lossless_ftyp.
Theorem C01_leaf_lossless_free : leaf_lossless dec_free. Proof. exact lossless_free. Qed.
Print Assumptions C01_leaf_lossless_free.
Theorem C01_leaf_lossless_mdat : leaf_lossless dec_mdat. Proof. exact lossless_mdat. Qed.
Print Assumptions C01_leaf_lossless_mdat.
Theorem C01_leaf_lossless_mfhd : leaf_lossless dec_mfhd. Proof. exact lossless_mfhd. Qed.
Print Assumptions C01_leaf_lossless_mfhd.
Theorem C01_leaf_lossless_tfhd : leaf_lossless dec_tfhd. Proof. exact lossless_tfhd. Qed.
Print Assumptions C01_leaf_lossless_tfhd.
Theorem C01_leaf_lossless_tfdt : leaf_lossless dec_tfdt. Proof. exact lossless_tfdt. Qed.
Print Assumptions C01_leaf_lossless_tfdt.
Theorem C01_leaf_lossless_trun : leaf_lossless dec_trun. Proof. exact lossless_trun. Qed.
Print Assumptions C01_leaf_lossless_trun.
Theorem C01_leaf_lossless_mvhd : leaf_lossless dec_mvhd. Proof. exact lossless_mvhd. Qed.
Print Assumptions C01_leaf_lossless_mvhd.
Theorem C01_leaf_lossless_tkhd : leaf_lossless dec_tkhd. Proof. exact lossless_tkhd. Qed.
Print Assumptions C01_leaf_lossless_tkhd.
Theorem C01_leaf_lossless_sidx : leaf_lossless dec_sidx. Proof. exact lossless_sidx. Qed.
Print Assumptions C01_leaf_lossless_sidx.
Theorem C01_leaf_lossless_trex : leaf_lossless dec_trex. Proof. exact lossless_trex. Qed.
Print Assumptions C01_leaf_lossless_trex.
Theorem C01_leaf_lossless_mdhd : leaf_lossless dec_mdhd. Proof. exact lossless_mdhd. Qed.
Print Assumptions C01_leaf_lossless_mdhd.
Theorem C01_leaf_lossless_hdlr : leaf_lossless dec_hdlr. Proof. exact lossless_hdlr. Qed.
Print Assumptions C01_leaf_lossless_hdlr.
Theorem C01_leaf_lossless_stts : leaf_lossless dec_stts. Proof. exact lossless_stts. Qed.
Print Assumptions C01_leaf_lossless_stts.

(* stage 2 leaf kinds *)
Theorem C01_leaf_lossless_stsc : leaf_lossless dec_stsc. Proof. exact lossless_stsc. Qed.
Print Assumptions C01_leaf_lossless_stsc.
Theorem C01_leaf_lossless_stsz : leaf_lossless dec_stsz. Proof. exact lossless_stsz. Qed.
Print Assumptions C01_leaf_lossless_stsz.
Theorem C01_leaf_lossless_stco_stss : leaf_lossless (dec_tab 4). Proof. exact (lossless_tab 4). Qed.
Print Assumptions C01_leaf_lossless_stco_stss.
Theorem C01_leaf_lossless_co64 : leaf_lossless (dec_tab 8). Proof. exact (lossless_tab 8). Qed.
Print Assumptions C01_leaf_lossless_co64.
Theorem C01_leaf_lossless_sdtp : leaf_lossless dec_sdtp. Proof. exact lossless_sdtp. Qed.
Print Assumptions C01_leaf_lossless_sdtp.
Theorem C01_leaf_lossless_ctts : leaf_lossless dec_ctts. Proof. exact lossless_ctts. Qed.
Print Assumptions C01_leaf_lossless_ctts.
Theorem C01_leaf_lossless_elst : leaf_lossless dec_elst. Proof. exact lossless_elst. Qed.
Print Assumptions C01_leaf_lossless_elst.
Theorem C01_leaf_lossless_saiz : leaf_lossless dec_saiz. Proof. exact lossless_saiz. Qed.
Print Assumptions C01_leaf_lossless_saiz.
Theorem C01_leaf_lossless_saio : leaf_lossless dec_saio. Proof. exact lossless_saio. Qed.
Print Assumptions C01_leaf_lossless_saio.
Theorem C01_leaf_lossless_sbgp : leaf_lossless dec_sbgp. Proof. exact lossless_sbgp. Qed.
Print Assumptions C01_leaf_lossless_sbgp.
Theorem C01_leaf_lossless_prft : leaf_lossless dec_prft. Proof. exact lossless_prft. Qed.
Print Assumptions C01_leaf_lossless_prft.
Theorem C01_leaf_lossless_tenc : leaf_lossless dec_tenc. Proof. exact lossless_tenc. Qed.
Print Assumptions C01_leaf_lossless_tenc.
Theorem C01_leaf_lossless_frma : leaf_lossless dec_frma. Proof. exact lossless_frma. Qed.
Print Assumptions C01_leaf_lossless_frma.
Theorem C01_leaf_lossless_vmhd : leaf_lossless dec_vmhd. Proof. exact lossless_vmhd. Qed.
Print Assumptions C01_leaf_lossless_vmhd.
Theorem C01_leaf_lossless_smhd : leaf_lossless dec_smhd. Proof. exact lossless_smhd. Qed.
Print Assumptions C01_leaf_lossless_smhd.
Theorem C01_leaf_lossless_nmhd_sthd : leaf_lossless dec_fullonly. Proof. exact lossless_fullonly. Qed.
Print Assumptions C01_leaf_lossless_nmhd_sthd.
Theorem C01_leaf_lossless_mfro : leaf_lossless dec_mfro. Proof. exact lossless_mfro. Qed.
Print Assumptions C01_leaf_lossless_mfro.
Theorem C01_leaf_lossless_mehd : leaf_lossless dec_mehd. Proof. exact lossless_mehd. Qed.
Print Assumptions C01_leaf_lossless_mehd.
Theorem C01_leaf_lossless_tfra : leaf_lossless dec_tfra. Proof. exact lossless_tfra. Qed.
Print Assumptions C01_leaf_lossless_tfra.
Theorem C01_leaf_lossless_pssh : leaf_lossless dec_pssh. Proof. exact lossless_pssh. Qed.
Print Assumptions C01_leaf_lossless_pssh.

(* the dispatch table as a whole: every registered entry of the model is lossless and names its leaf *)
Theorem C01_leaf_table : Forall entry_ok leaf_table.
Proof. exact leaf_table_ok. Qed.
Print Assumptions C01_leaf_table.

(* the tree: every slice accepted by the model of DecodeBoxSR whose tree is exact (compact headers whose size
   is Size(), guarded versions, no moov re-ordering, moof encodable) is reproduced bit for bit by the encoders
   when the captured reserved bytes are put back; raw_box false (the Go encoder) differs from raw_box true
   only in those bytes, by definition *)
Theorem C01_tree : forall bs t rest, bytes_ok bs = true -> decode bs = Ok (t, rest) -> exact_box t = true ->
  exists enc, raw_box true t = Ok enc /\ bs = enc ++ rest.
Proof. exact tree_lossless. Qed.
Print Assumptions C01_tree.

(* --- what the guards exclude is really lost (witnesses replayed on the Go code by the check) --- *)
(* witnesses of the version >= 2 defect of mvhd / tkhd (decode on version==1, encode on Version==0, Size on
   Version==1: "overflow in SliceWriter"), refuted before the repairs 5633466 / 1982f88, now fixed points *)
Theorem C01_leaf_mvhd_v2_fixed : exists t, decode w_mvhd_v2 = Ok (t, []) /\ encode_w t = Ok w_mvhd_v2 /\ encode_sw t = Ok w_mvhd_v2.
Proof. exact mvhd_v2_fixed. Qed.
Print Assumptions C01_leaf_mvhd_v2_fixed.

Theorem C01_leaf_tkhd_v2_fixed : exists t, decode w_tkhd_v2 = Ok (t, []) /\ encode_w t = Ok w_tkhd_v2 /\ encode_sw t = Ok w_tkhd_v2.
Proof. exact tkhd_v2_fixed. Qed.
Print Assumptions C01_leaf_tkhd_v2_fixed.

Theorem C01_trun_refuted : exists bs t, decode bs = Ok (t, []) /\ encode_w t = Err.
Proof. exact trun_offset0_refuted. Qed.
Print Assumptions C01_trun_refuted.

(* trailing body bytes are accepted and dropped *)
Theorem C01_trailing_refuted : exists bs t rest enc,
  decode bs = Ok (t, rest) /\ exact_box t = false /\ encode_w t = Ok enc /\ enc ++ rest <> bs.
Proof. exact mfhd_trailing_refuted. Qed.
Print Assumptions C01_trailing_refuted.

(* non-vacuity: a moof and a moov tree decode, are exact, and re-encode to themselves *)
Example C01_ex_moof : decode ex_moof_bytes = Ok (ex_moof_tree, []) /\ exact_box ex_moof_tree = true /\
  bytes_ok ex_moof_bytes = true /\ encode_w ex_moof_tree = Ok ex_moof_bytes.
Proof. exact ex_moof_ok. Qed.
Example C01_ex_moov : decode ex_moov_bytes = Ok (ex_moov_tree, []) /\ exact_box ex_moov_tree = true /\
  bytes_ok ex_moov_bytes = true.
Proof. exact ex_moov_ok. Qed.
