(* C01SgpdProofs.v — sgpd with its seig / roll / rap / alst / unknown entries: losslessness and locality. *)
From V.lib Require Import Base.
From V.c01 Require Import C01Codec C01Model C01LeafProofs C01Leaf2Proofs C01Leaf3Proofs C01Leaf4Proofs C01Leaf5Proofs C01LocalProofs.

(* ---------------------------------------------------------------- sgpd entries *)
Lemma item_pair16 bs a r : bytes_ok bs = true -> rd_pair16 bs = Ok (a, r) -> bs = wr_pair16 a ++ r /\ bytes_ok r = true.
Proof.
  intros Hok H. unfold rd_pair16 in H. run H. inj_pret H. split; [|assumption].
  unfold wr_pair16. cbn [fst snd]. repeat rewrite <- app_assoc. reflexivity.
Qed.

Lemma lenN_wr_pair16 p : lenN (wr_pair16 p) = 4.
Proof. unfold wr_pair16. now rewrite lenN_app, !lenN_be_enc. Qed.

Lemma lenN_wr_sge_rb e rb : lenN (wr_sge e rb) = lenN (wr_sge e 0).
Proof. destruct e; cbn [wr_sge]; try reflexivity; rewrite !lenN_app, !lenN_be_enc; reflexivity. Qed.

Lemma seig_nibbles b : b < 256 ^ N.of_nat 1 -> N.lor (u8 (b / 16 * 16)) (b mod 16) = b.
Proof. exact (join_nibbles b). Qed.

Lemma rap_join b : b < 256 ^ N.of_nat 1 -> N.lor (u8 (b / 128 * 128)) (b mod 128) = b.
Proof.
  intros H. change (256 ^ N.of_nat 1) with 256 in H. unfold u8. rewrite N.mod_small by lia.
  change 128 with (2 ^ 7). apply join_lowk.
Qed.

Lemma item_sge gt dl bs e rb r : bytes_ok bs = true -> rd_sge gt dl bs = Ok ((e, rb), r) ->
  bs = wr_sge e rb ++ r /\ bytes_ok r = true /\ lenN (wr_sge e rb) = dl.
Proof.
  intros Hok H. unfold rd_sge in H.
  destruct (bytes_eqb gt n_seig).
  { do 5 step H. apply pbind_ok in H. destruct H as (civ & r6 & E & H). cbv beta zeta in H.
    destruct (negb (dl =? sge_size (SSeig (a0 / 16) (a0 mod 16) a1 a2 a3 civ))) eqn:Es; [discriminate H|]. inj_pret H.
    apply negb_false_iff, N.eqb_eq in Es. cbn [sge_size] in Es. cbn [wr_sge]. rewrite seig_nibbles by assumption.
    destruct ((a1 =? 1) && (a2 =? 0)).
    - step E. solve_read E. rewrite Hlen0. split; [repeat rewrite <- app_assoc; reflexivity|]. split; [assumption|].
      rewrite !lenN_app, !lenN_be_enc, Hlen. try subst dl. lia.
    - inj_pret E. split; [repeat rewrite <- app_assoc; cbn [app]; reflexivity|]. split; [assumption|].
      rewrite !lenN_app, !lenN_be_enc, Hlen. try subst dl. change (lenN (@nil N)) with 0. lia. }
  destruct (bytes_eqb gt n_roll).
  { run H. inj_pret H. apply negb_false_iff, N.eqb_eq in Hc. try subst dl. cbn [wr_sge]. split; [reflexivity|]. split; [assumption|].
    now rewrite lenN_be_enc. }
  destruct (bytes_eqb gt n_rap).
  { run H. inj_pret H. apply negb_false_iff, N.eqb_eq in Hc. try subst dl. cbn [wr_sge]. rewrite rap_join by assumption.
    split; [reflexivity|]. split; [assumption|]. now rewrite lenN_be_enc. }
  destruct (bytes_eqb gt n_alst).
  { step H. step H. cbv beta in H. tail_many H (item_rd 4).
    destruct (dl <? 4 + 4 * lenN es) eqn:E1.
    - rewrite <- Hl in H. rewrite E1 in H. discriminate H.
    - rewrite <- Hl in H. rewrite E1 in H. cbv zeta in H.
      destruct ((dl - (4 + 4 * lenN es)) / 4 =? 0) eqn:E2.
      + destruct (negb (dl =? 4 + 4 * lenN es)) eqn:E3; [discriminate H|]. inj_pret H.
        apply negb_false_iff, N.eqb_eq in E3. cbn [wr_sge flat_map]. rewrite app_nil_r.
        split; [repeat rewrite <- app_assoc; reflexivity|]. split; [assumption|].
        rewrite !lenN_app, !lenN_be_enc, (lenN_flat_map_const _ 4) by (intros; apply lenN_be_enc). lia.
      + match type of H with (if ?c then _ else _) = _ => destruct c end; [discriminate H|].
        tail_many H item_pair16.
        destruct (negb (dl =? 4 + 4 * lenN es + 4 * ((dl - (4 + 4 * lenN es)) / 4))) eqn:E3; [discriminate H|]. inj_pret H.
        apply negb_false_iff, N.eqb_eq in E3. cbn [wr_sge].
        split; [repeat rewrite <- app_assoc; reflexivity|]. split; [assumption|].
        rewrite !lenN_app, !lenN_be_enc, (lenN_flat_map_const _ 4) by (intros; apply lenN_be_enc).
        rewrite (lenN_flat_map_const _ 4) by (intros; apply lenN_wr_pair16). lia. }
  run H. inj_pret H. cbn [wr_sge]. now repeat split.
Qed.

Lemma item_sgpd v dlen gt bs it r : bytes_ok bs = true -> rd_sgpd_item v dlen gt bs = Ok (it, r) ->
  bs = wr_sgpd_item dlen it ++ r /\ bytes_ok r = true /\ lenN (wr_sge (snd (fst it)) 0) = fst (fst it) /\
  fst (fst it) <> 0 /\ (negb (dlen =? 0) = true -> fst (fst it) = dlen) /\ ((1 <=? v) = false -> dlen <> 0).
Proof.
  intros Hok H. unfold rd_sgpd_item in H. apply pbind_ok in H. destruct H as (dl & r1 & E & H). cbv beta zeta in H.
  destruct (dl =? 0) eqn:E0; [discriminate H|]. apply N.eqb_neq in E0.
  apply pbind_ok in H. destruct H as ([e rb] & r2 & E2 & H). unfold pret in H. injection H as <- <-. cbn [fst snd].
  unfold wr_sgpd_item. cbn [fst snd].
  destruct ((1 <=? v) && (dlen =? 0)) eqn:Ec.
  - apply andb_true_iff in Ec. destruct Ec as [Ev Ed]. rewrite Ed. destruct (rd_spec _ _ _ _ Hok E) as (-> & _ & Hok1).
    destruct (item_sge _ _ _ _ _ _ Hok1 E2) as (-> & Hok2 & Hl). rewrite lenN_wr_sge_rb in Hl.
    split; [now rewrite <- app_assoc|]. split; [assumption|]. split; [assumption|]. split; [assumption|].
    split; [discriminate|]. intros Hv. rewrite Hv in Ev. discriminate.
  - unfold pret in E. injection E as Hd Hb. subst dl r1.
    destruct (item_sge _ _ _ _ _ _ Hok E2) as (-> & Hok2 & Hl). rewrite lenN_wr_sge_rb in Hl.
    destruct (dlen =? 0) eqn:Ed; [apply N.eqb_eq in Ed; congruence|]. cbn [app].
    split; [reflexivity|]. split; [assumption|]. split; [assumption|]. split; [assumption|].
    split; [reflexivity|]. intros _. assumption.
Qed.

Lemma combine_fst_snd {A B} (l : list (A * B)) : combine (map fst l) (map snd l) = l.
Proof. induction l as [|[a b] t IH]; [reflexivity|]. cbn [map combine fst snd]. now rewrite IH. Qed.

Lemma lossless_sgpd : leaf_lossless dec_sgpd.
Proof.
  intros h r l rsv r' Hok H G. unfold dec_sgpd in H. run H;
  (apply pbind_ok in H; destruct H as (its & r9 & E & H); cbv beta zeta in H;
   match type of E with rd_many _ _ _ ?x = _ => match goal with Hk : bytes_ok x = true |- _ =>
     destruct (rd_many_spec _ (wr_sgpd_item _) (fun bs a r Hb Hp => let '(conj p1 (conj p2 _)) := item_sgpd _ _ _ bs a r Hb Hp in conj p1 p2) _ _ _ _ _ Hk E) as (-> & Hl & Hq) end end;
   inj_pret H; cbn [body_leaf chunk nth]; rewrite combine_fst_snd;
   eexists; split; [reflexivity|]; split; [|assumption];
   rewrite vf_join_split by assumption; unfold wr_if; rew_conds;
   replace (lenN (map fst its)) with (lenN its) by (unfold lenN; now rewrite map_length);
   repeat rewrite <- app_assoc; cbn [app]; reflexivity).
Qed.

(* ---------------------------------------------------------------- locality *)
Lemma rd_width n bs a r : rd n bs = Ok (a, r) -> lenN bs = N.of_nat n + lenN r.
Proof.
  unfold rd. destruct (take n bs) as [[x r0]|] eqn:E; [|discriminate]. intros H. injection H as <- <-.
  destruct (take_spec _ _ _ _ E) as [-> Hl]. rewrite lenN_app. unfold lenN at 1. now rewrite Hl.
Qed.
Lemma pair16_width bs a r : rd_pair16 bs = Ok (a, r) -> lenN bs = 4 + lenN r.
Proof.
  unfold rd_pair16. intros H. apply pbind_ok in H. destruct H as (x & r1 & E1 & H).
  apply pbind_ok in H. destruct H as (y & r2 & E2 & H). unfold pret in H. injection H as <- <-.
  apply rd_width in E1, E2. lia.
Qed.
Lemma many_width {A} (p : parser A) c : (forall bs a r, p bs = Ok (a, r) -> lenN bs = c + lenN r) ->
  forall f cnt bs l r, rd_many f cnt p bs = Ok (l, r) -> lenN bs = c * cnt + lenN r.
Proof.
  intros Hp. induction f as [|f IH]; intros cnt bs l r H; cbn [rd_many] in H.
  - destruct (cnt =? 0) eqn:Ec; [|discriminate]. injection H as <- <-. apply N.eqb_eq in Ec. lia.
  - destruct (cnt =? 0) eqn:Ec; [injection H as <- <-; apply N.eqb_eq in Ec; lia|]. apply N.eqb_neq in Ec.
    destruct (p bs) as [[a r1]| | |] eqn:E1; try discriminate.
    destruct (rd_many f (cnt - 1) p r1) as [[l' r']| | |] eqn:E2; try discriminate. injection H as <- <-.
    apply Hp in E1. apply IH in E2. replace cnt with (N.succ (cnt - 1)) at 1 by lia. rewrite N.mul_succ_r. lia.
Qed.
Lemma local_pair16 : local rd_pair16. Proof. unfold rd_pair16. loc. Qed.
Lemma progress_pair16 : progress rd_pair16. Proof. intros a H. discriminate H. Qed.

Lemma local_alst_tail {B} rem (k : list (N * N) -> parser B) : (forall outs, local (k outs)) ->
  local (fun bs => if lenN bs / 4 <? rem then Err else pbind (rd_many (S (length bs)) rem rd_pair16) k bs).
Proof.
  intros Hk bs b r H. destruct (lenN bs / 4 <? rem) eqn:Ec; [discriminate|].
  apply pbind_ok in H. destruct H as (outs & r1 & E1 & E2).
  pose proof (many_width _ 4 pair16_width _ _ _ _ _ E1) as Hw.
  destruct (many_local _ local_pair16 _ _ _ _ _ E1) as (x1 & -> & _ & H1).
  pose proof (many_len _ local_pair16 progress_pair16 _ _ _ _ _ E1) as Hlen.
  destruct (Hk outs _ _ _ E2) as (x2 & -> & H2).
  exists (x1 ++ x2). split; [now rewrite app_assoc|]. intros r2.
  rewrite !lenN_app in Hw.
  replace (lenN ((x1 ++ x2) ++ r2) / 4 <? rem) with false by (symmetry; apply N.ltb_ge; rewrite !lenN_app; lia).
  unfold pbind. rewrite <- app_assoc. rewrite H1; [apply H2|]. rewrite !app_length in *. lia.
Qed.

Lemma local_sge gt dl : local (rd_sge gt dl).
Proof.
  unfold rd_sge. destruct (bytes_eqb gt n_seig); [loc|]. destruct (bytes_eqb gt n_roll); [loc|].
  destruct (bytes_eqb gt n_rap); [loc|]. destruct (bytes_eqb gt n_alst); [|loc].
  apply local_bind; [apply local_rd|intros rc]. apply local_bind; [apply local_rd|intros first].
  apply local_many_S; [apply local_rd|apply progress_rd_S|intros offs].
  destruct (dl <? 4 + 4 * rc); [apply local_pfail|]. cbv zeta.
  destruct ((dl - (4 + 4 * rc)) / 4 =? 0); [loc|].
  apply local_alst_tail. intros outs. loc.
Qed.

Lemma local_sgpd_item v dlen gt : local (rd_sgpd_item v dlen gt).
Proof.
  unfold rd_sgpd_item. apply local_bind; [destruct ((1 <=? v) && (dlen =? 0)); [apply local_rd|apply local_pret]|intros dl].
  destruct (dl =? 0); [apply local_pfail|]. apply local_bind; [apply local_sge|intros x; apply local_pret].
Qed.

Lemma progress_sgpd_item v dlen gt : progress (rd_sgpd_item v dlen gt).
Proof.
  intros a H. unfold rd_sgpd_item, pbind in H.
  destruct ((1 <=? v) && (dlen =? 0)); [discriminate H|]. unfold pret at 1 in H.
  destruct (dlen =? 0) eqn:Ed; [discriminate H|]. unfold rd_sge in H.
  destruct (bytes_eqb gt n_seig); [discriminate H|]. destruct (bytes_eqb gt n_roll); [discriminate H|].
  destruct (bytes_eqb gt n_rap); [discriminate H|]. destruct (bytes_eqb gt n_alst); [discriminate H|].
  unfold pbind, rdB in H. change (lenN (@nil N)) with 0 in H. apply N.eqb_neq in Ed.
  replace (0 <? dlen) with true in H by (symmetry; apply N.ltb_lt; lia). discriminate H.
Qed.

Lemma local_sgpd : forall h, local (dec_sgpd h).
Proof.
  unfold dec_sgpd. intros h. apply local_bind; [apply local_rd|intros vf]. cbv zeta.
  apply local_bind; [apply local_rdB|intros gt]. apply local_bind; [apply local_rd_if|intros dlen].
  apply local_bind; [apply local_rd_if|intros dgdi]. apply local_bind; [apply local_rd|intros cnt].
  apply local_many_S; [apply local_sgpd_item|apply progress_sgpd_item|intros its; apply local_pret].
Qed.

(* ---------------------------------------------------------------- print-then-parse with the reserved byte of seig zeroed *)
(* the encoder writes 0 where a seig entry has its reserved byte: the entry decoded from those bytes is the same, with 0 captured *)
Lemma many_zero {A} (p : parser A) (wr : A -> list N) (z : A -> A) :
  (forall bs a r, bytes_ok bs = true -> p bs = Ok (a, r) -> bytes_ok r = true /\ forall r2, p (wr (z a) ++ r2) = Ok (z a, r2)) ->
  forall f cnt bs l r, bytes_ok bs = true -> rd_many f cnt p bs = Ok (l, r) ->
  forall f' r2, (length l <= f')%nat -> rd_many f' cnt p (flat_map wr (map z l) ++ r2) = Ok (map z l, r2).
Proof.
  intros Hp. induction f as [|f IH]; intros cnt bs l r Hok H; cbn [rd_many] in H.
  - destruct (cnt =? 0) eqn:Ec; [|discriminate]. injection H as <- <-.
    intros f' r2 _. destruct f'; cbn [rd_many map flat_map app]; now rewrite Ec.
  - destruct (cnt =? 0) eqn:Ec.
    + injection H as <- <-. intros f' r2 _. destruct f'; cbn [rd_many map flat_map app]; now rewrite Ec.
    + destruct (p bs) as [[a r1]| | |] eqn:E1; try discriminate.
      destruct (rd_many f (cnt - 1) p r1) as [[l' r']| | |] eqn:E2; try discriminate.
      injection H as <- <-. destruct (Hp _ _ _ Hok E1) as [Hok1 H1].
      intros f' r2 Hf. destruct f' as [|f']; [cbn in Hf; lia|]. cbn [rd_many map flat_map].
      rewrite Ec, <- app_assoc, H1, (IH _ _ _ _ Hok1 E2) by (cbn in Hf; lia). reflexivity.
Qed.

Lemma rdB_lit0 x n r : lenN x = n -> rdB n (x ++ r) = Ok (x, r).
Proof. intros <-. apply rdB_app. Qed.

Lemma sge_zero gt dl bs e rb r : bytes_ok bs = true -> rd_sge gt dl bs = Ok ((e, rb), r) ->
  forall r2, rd_sge gt dl (wr_sge e 0 ++ r2) = Ok ((e, 0), r2).
Proof.
  intros Hok H. destruct (bytes_eqb gt n_seig) eqn:Es.
  - (* seig: the first byte is read and only handed back *)
    unfold rd_sge in H. rewrite Es in H.
    do 5 step H. apply pbind_ok in H. destruct H as (civ & r6 & E & H). cbv beta zeta in H.
    destruct (negb (dl =? sge_size (SSeig (a0 / 16) (a0 mod 16) a1 a2 a3 civ))) eqn:Ez; [discriminate H|]. inj_pret H.
    unfold rd_sge. rewrite Es. cbn [wr_sge]. rewrite seig_nibbles by assumption.
    unfold pbind. repeat rewrite <- app_assoc.
    rewrite (rd_enc 1 0) by (change (256 ^ N.of_nat 1) with 256; lia). cbv beta iota.
    rewrite !rd_enc by assumption. cbv beta iota. rewrite (rdB_lit0 a3 16) by assumption. cbv beta iota.
    destruct ((a1 =? 1) && (a2 =? 0)) eqn:Eb.
    + step E. solve_read E. repeat rewrite <- app_assoc.
      rewrite rd_enc by (rewrite Hlen0; assumption). cbv beta iota. rewrite (rdB_lit0 civ (lenN civ)) by reflexivity. cbv beta iota.
      rewrite Ez. reflexivity.
    + inj_pret E. cbn [app]. unfold pret at 1. cbv beta iota. rewrite Ez. reflexivity.
  - (* every other grouping type: nothing is captured, the bytes are the same *)
    assert (rb = 0).
    { unfold rd_sge in H. rewrite Es in H. destruct (bytes_eqb gt n_roll); [run H; inj_pret H; reflexivity|].
      destruct (bytes_eqb gt n_rap); [run H; inj_pret H; reflexivity|].
      destruct (bytes_eqb gt n_alst).
      - apply pbind_ok in H. destruct H as (? & ? & _ & H). apply pbind_ok in H. destruct H as (? & ? & _ & H). cbv beta in H.
        apply pbind_ok in H. destruct H as (? & ? & _ & H). cbv beta zeta in H.
        destruct (dl <? 4 + 4 * x); [discriminate H|]. destruct ((dl - (4 + 4 * x)) / 4 =? 0).
        + destruct (negb (dl =? 4 + 4 * x)); [discriminate H|]. now inj_pret H.
        + match type of H with (if ?c then _ else _) = _ => destruct c end; [discriminate H|].
          apply pbind_ok in H. destruct H as (? & ? & _ & H).
          match type of H with (if ?c then _ else _) _ = _ => destruct c end; [discriminate H|]. now inj_pret H.
      - run H. now inj_pret H. }
    subst rb. destruct (item_sge _ _ _ _ _ _ Hok H) as (-> & _ & _).
    destruct (local_sge gt dl _ _ _ H) as (x & Hx & Hall). apply app_inv_tail in Hx. subst x. exact Hall.
Qed.

Lemma sgpd_item_zero v dlen gt bs it r : bytes_ok bs = true -> rd_sgpd_item v dlen gt bs = Ok (it, r) ->
  bytes_ok r = true /\ forall r2, rd_sgpd_item v dlen gt (wr_sgpd_item dlen (fst it, 0) ++ r2) = Ok ((fst it, 0), r2).
Proof.
  intros Hok H. split; [exact (proj1 (proj2 (item_sgpd _ _ _ _ _ _ Hok H)))|].
  unfold rd_sgpd_item in H. apply pbind_ok in H. destruct H as (dl & r1 & E & H). cbv beta zeta in H.
  destruct (dl =? 0) eqn:E0; [discriminate H|].
  apply pbind_ok in H. destruct H as ([e rb] & r3 & E2 & H). unfold pret in H. injection H as <- <-. cbn [fst snd].
  intros r2. unfold rd_sgpd_item, wr_sgpd_item, pbind. cbn [fst snd].
  destruct ((1 <=? v) && (dlen =? 0)) eqn:Ec.
  - apply andb_true_iff in Ec. destruct Ec as [Ev Ed]. rewrite Ed. destruct (rd_spec _ _ _ _ Hok E) as (-> & Hdl & Hok1).
    rewrite <- app_assoc, rd_enc by assumption. cbv beta iota. rewrite E0, (sge_zero _ _ _ _ _ _ Hok1 E2). reflexivity.
  - unfold pret in E. injection E as Hd Hb. subst dl r1.
    rewrite E0. cbn [app]. unfold pret at 1. cbv beta iota. rewrite E0, (sge_zero _ _ _ _ _ _ Hok E2). reflexivity.
Qed.
