(* C01RealWitness.v — complete real files decode inside the model, are exact, and re-encode to themselves. *)
From V.lib Require Import Base.
From V.c01 Require Import C01Codec C01Model C01RealFiles.

Definition seq_of (bs : list N) : list mbox := match decode_file bs with Ok ts => ts | _ => [] end.
Definition names_of (ts : list mbox) : list (list N) := map box_name ts.

(* mp4/testdata/golden_init_video.mp4: ftyp + moov{mvhd trak{tkhd mdia{mdhd hdlr minf{vmhd dinf{dref{url}}
   stbl{stsd{avc3{avcC}} stts stsc stsz stco}}}} mvex{trex}} *)
Lemma real_init_ok :
  decode_file rf_init_video = Ok (seq_of rf_init_video) /\ names_of (seq_of rf_init_video) = [n_ftyp; n_moov] /\
  forallb exact_box (seq_of rf_init_video) = true /\ bytes_ok rf_init_video = true /\
  encode_seq false (seq_of rf_init_video) = Ok rf_init_video.
Proof. vm_compute. repeat split. Qed.

Lemma real_init2_ok :
  decode_file rf_init_cmfv = Ok (seq_of rf_init_cmfv) /\ names_of (seq_of rf_init_cmfv) = [n_ftyp; n_moov] /\
  forallb exact_box (seq_of rf_init_cmfv) = true /\ encode_seq false (seq_of rf_init_cmfv) = Ok rf_init_cmfv.
Proof. vm_compute. repeat split. Qed.

(* cmd/mp4ff-subslister/testdata/multi_vttc.mp4: styp sidx moof{mfhd traf{tfhd tfdt trun}} mdat *)
Lemma real_media_ok :
  decode_file rf_media_seg = Ok (seq_of rf_media_seg) /\
  names_of (seq_of rf_media_seg) = [n_styp; n_sidx; n_moof; n_mdat] /\
  forallb exact_box (seq_of rf_media_seg) = true /\ bytes_ok rf_media_seg = true /\
  encode_seq false (seq_of rf_media_seg) = Ok rf_media_seg.
Proof. vm_compute. repeat split. Qed.
