(* C01RealWitness.v — complete real files decode inside the model, are exact, and re-encode to themselves. *)
From V.lib Require Import Base.
From V.c01 Require Import C01Codec C01Model C01RealFiles.

Definition seq_of (bs : list N) : list mbox := match decode_file bs with Ok ts => ts | _ => [] end.
Definition names_of (ts : list mbox) : list (list N) := map box_name ts.

(* mp4/testdata/golden_init_video.mp4: ftyp + moov{mvhd trak{tkhd mdia{mdhd hdlr minf{vmhd dinf{dref{url}}
   stbl{stsd{avc3{avcC}} stts stsc stsz stco}}}} mvex{trex}} *)
Lemma real_init_ok :
  decode_file rf_init_video = Ok (seq_of rf_init_video) /\ names_of (seq_of rf_init_video) = [n_ftyp; n_moov] /\
  forallb exact_box (seq_of rf_init_video) = true /\ bytes_ok rf_init_video = true /\
  encode_seq false (seq_of rf_init_video) = Ok rf_init_video.
Proof. vm_compute. repeat split. Qed.

Lemma real_init2_ok :
  decode_file rf_init_cmfv = Ok (seq_of rf_init_cmfv) /\ names_of (seq_of rf_init_cmfv) = [n_ftyp; n_moov] /\
  forallb exact_box (seq_of rf_init_cmfv) = true /\ encode_seq false (seq_of rf_init_cmfv) = Ok rf_init_cmfv.
Proof. vm_compute. repeat split. Qed.

(* cmd/mp4ff-subslister/testdata/multi_vttc.mp4: styp sidx moof{mfhd traf{tfhd tfdt trun}} mdat *)
Lemma real_media_ok :
  decode_file rf_media_seg = Ok (seq_of rf_media_seg) /\
  names_of (seq_of rf_media_seg) = [n_styp; n_sidx; n_moof; n_mdat] /\
  forallb exact_box (seq_of rf_media_seg) = true /\ bytes_ok rf_media_seg = true /\
  encode_seq false (seq_of rf_media_seg) = Ok rf_media_seg.
Proof. vm_compute. repeat split. Qed.

(* typed (not MUnknown) leaves with a given name somewhere in a tree *)
Fixpoint count_leaf (n : list N) (t : mbox) : nat :=
  match t with
  | MLeaf _ l _ => if bytes_eqb (leaf_name l) n then 1%nat else 0%nat
  | MCont _ cs => fold_right (fun c a => (count_leaf n c + a)%nat) 0%nat cs
  | MUnknown _ _ => 0%nat
  | MPre _ _ _ cs => fold_right (fun c a => (count_leaf n c + a)%nat) 0%nat cs
  end.
Definition count_leaves (n : list N) (ts : list mbox) : nat := fold_right (fun c a => (count_leaf n c + a)%nat) 0%nat ts.

(* mp4/testdata/aac_init.mp4: ftyp skip moov{... stsd{mp4a{esds}} ...}: the esds descriptor tree is decoded by the model *)
Lemma real_init_aac_ok :
  decode_file rf_init_aac = Ok (seq_of rf_init_aac) /\ names_of (seq_of rf_init_aac) = [n_ftyp; n_skip; n_moov] /\
  forallb exact_box (seq_of rf_init_aac) = true /\ flat_map why_box (seq_of rf_init_aac) = [] /\
  count_leaves n_esds (seq_of rf_init_aac) = 1%nat /\ bytes_ok rf_init_aac = true /\
  encode_seq false (seq_of rf_init_aac) = Ok rf_init_aac.
Proof. vm_compute. repeat split. Qed.

(* mp4/testdata/hvc1_init.mp4: ftyp moov{... stsd{hvc1{hvcC ...}} ...}: the HEVC decoder configuration record is decoded *)
Lemma real_init_hvc1_ok :
  decode_file rf_init_hvc1 = Ok (seq_of rf_init_hvc1) /\ names_of (seq_of rf_init_hvc1) = [n_ftyp; n_moov] /\
  forallb exact_box (seq_of rf_init_hvc1) = true /\ flat_map why_box (seq_of rf_init_hvc1) = [] /\
  count_leaves n_hvcC (seq_of rf_init_hvc1) = 1%nat /\ bytes_ok rf_init_hvc1 = true /\
  encode_seq false (seq_of rf_init_hvc1) = Ok rf_init_hvc1.
Proof. vm_compute. repeat split. Qed.
