(* C01GenFileProofs.v -- the second generation of whole files that File.Encode does NOT reproduce (a top-level box that is not exact,
   a cut-short mdat after which DecodeFileSR silently stops): as soon as the bytes enc that File.Encode wrote are accepted again by
   DecodeFileSR (box-local AND File-level rules) and no top-level tree has a reason (gen2_file_ok enc, evaluated by the driver on the
   real output), enc is a fixed point of File.Encode, File.EncodeSW and the raw encoder. *)
From V.lib Require Import Base.
From V.c01 Require Import C01Codec C01Model C01TreeProofs C01WhyProofs C01FixProofs C01FileModel C01FileProofs C01GenModel C01GenFileModel.

Lemma why_nil_all ts : flat_map why_box ts = [] -> forallb exact_box ts = true.
Proof.
  intros H. apply forallb_forall. intros x Hin. exact (proj1 (why_nil _ (flat_map_nil _ _ H x Hin))).
Qed.

Lemma gen2_file_ok_inv enc : gen2_file_ok enc = true ->
  bytes_ok enc = true /\ exists ts2, decode_file_sr enc = FOk ts2 /\ flat_map why_box ts2 = [].
Proof.
  unfold gen2_file_ok, gen2_file. destruct (bytes_ok enc); [|discriminate]. intros H. split; [reflexivity|].
  destruct (decode_file_sr enc) as [ts2| | | |]; try discriminate.
  exists ts2. split; [reflexivity|]. destruct (flat_map why_box ts2); [reflexivity|discriminate].
Qed.

Lemma generation2_file bs ts enc : decode_file_sr bs = FOk ts -> file_encode_w ts = Ok enc -> gen2_file_ok enc = true ->
  exists ts2, decode_file_sr enc = FOk ts2 /\ forallb exact_box ts2 = true /\ map norm_box ts2 = ts2 /\
    file_encode_w ts2 = Ok enc /\ file_encode_sw ts2 = Ok enc /\ encode_seq false ts2 = Ok enc.
Proof.
  intros _ _ Hg. destruct (gen2_file_ok_inv _ Hg) as (Hok & ts2 & Hd & Hy). exists ts2.
  pose proof (why_nil_all _ Hy) as Hex.
  destruct (file_accepted_fixpoint _ _ Hok Hd Hex) as (e & Hw & Hsw & He & _ & Hd2 & _).
  unfold decode_file_sr in Hd. destruct (loop_sound _ _ _ _ Hd (exact_no_trunc _ Hex)) as [Hs _].
  destruct (seq_explained enc ts2 Hok Hs Hy) as [He2 _].
  assert (e = enc) by (rewrite He in He2; now injection He2). subst e.
  fold (decode_file_sr enc) in Hd. rewrite Hd in Hd2. injection Hd2 as Hn.
  repeat split; try assumption; now symmetry.
Qed.
