(* C01Witness5.v — esds: a typical AAC esds (ES_Descriptor{DecoderConfig{DecSpecificInfo}, SLConfig}) decodes inside
   the model, is exact and a fixed point; the same box with an SLConfigDescriptor announcing 0 bytes was accepted by
   the decoder, which read the configuration byte anyway and wrote the size back as 1 (finding C01-K77, repaired). *)
From V.lib Require Import Base.
From V.c01 Require Import C01Codec C01Model C01Witness C01Witness3.

Definition ex_esds (slc_size : N) : list N :=
  enc_hdr n_esds 39 ++ [0;0;0;0] ++ [3; 25; 0;1; 0] ++
  [4; 17; 64; 21; 0;0;0; 0;1;244;0; 0;1;244;0] ++ [5; 2; 17; 144] ++ [6; slc_size; 2].

Lemma ex_esds_ok : bytes_ok (ex_esds 1) = true /\ decode (ex_esds 1) = Ok (treeof (ex_esds 1), []) /\
  exact_box (treeof (ex_esds 1)) = true /\ why_box (treeof (ex_esds 1)) = [] /\
  raw_box false (treeof (ex_esds 1)) = Ok (ex_esds 1) /\
  match treeof (ex_esds 1) with
  | MLeaf _ (LEsds 0 0 1 1 0 _ [] _ (DDcd 1 64 21 0 128000 128000 [DDsi 1 [17; 144]] []) [DSlc 1 2 []] [] true) _ => True
  | _ => False
  end.
Proof. vm_compute. repeat split. Qed.

(* since repo commit 89e24df the SLConfigDescriptor announcing 0 bytes is refused: the ES descriptor keeps its three bytes
   as UnknownData and the Go encoders write the input back (finding C01-K77, fixed) *)
Lemma esds_slc0_fixed : decode (ex_esds 0) = Ok (treeof (ex_esds 0), []) /\ raw_box false (treeof (ex_esds 0)) = Ok (ex_esds 0) /\
  match treeof (ex_esds 0) with
  | MLeaf _ (LEsds 0 0 1 1 0 _ [] _ (DDcd 1 64 21 0 128000 128000 [DDsi 1 [17; 144]] []) [] [6; 0; 2] false) _ => True
  | _ => False
  end.
Proof. vm_compute. repeat split. Qed.
