(* C01Witness5.v — esds: a typical AAC esds (ES_Descriptor{DecoderConfig{DecSpecificInfo}, SLConfig}) decodes inside
   the model, is exact and a fixed point; the same box with an SLConfigDescriptor announcing 0 bytes is accepted by
   the decoder, which reads the configuration byte anyway and writes the size back as 1 (known finding). *)
From V.lib Require Import Base.
From V.c01 Require Import C01Codec C01Model C01Witness C01Witness3.

Definition ex_esds (slc_size : N) : list N :=
  enc_hdr n_esds 39 ++ [0;0;0;0] ++ [3; 25; 0;1; 0] ++
  [4; 17; 64; 21; 0;0;0; 0;1;244;0; 0;1;244;0] ++ [5; 2; 17; 144] ++ [6; slc_size; 2].

Lemma ex_esds_ok : bytes_ok (ex_esds 1) = true /\ decode (ex_esds 1) = Ok (treeof (ex_esds 1), []) /\
  exact_box (treeof (ex_esds 1)) = true /\ why_box (treeof (ex_esds 1)) = [] /\
  raw_box false (treeof (ex_esds 1)) = Ok (ex_esds 1) /\
  match treeof (ex_esds 1) with
  | MLeaf _ (LEsds 0 0 1 1 0 _ [] _ (DDcd 1 64 21 0 128000 128000 [DDsi 1 [17; 144]] []) [DSlc 1 2 []] [] true) _ => True
  | _ => False
  end.
Proof. vm_compute. repeat split. Qed.

Lemma esds_slc0_refuted : refutes (ex_esds 0) [(n_esds, RGuard); (n_esds, RRsv false 3)].
Proof. refute (ex_esds 0). Qed.
