(* C01Leaf5Proofs.v — losslessness of the stage-4 leaf kinds: hvcC (hevc.DecodeHEVCDecConfRec), subs. *)
From V.lib Require Import Base.
From V.c01 Require Import C01Codec C01Model C01LeafProofs C01Leaf2Proofs C01Leaf3Proofs C01Leaf4Proofs.

(* every property of a byte that is checked by computation on the 256 bytes holds of every byte *)
Lemma byte_all (P : N -> bool) : forallb P (map N.of_nat (seq 0 256)) = true -> forall a, a < 256 -> P a = true.
Proof.
  intros H a Ha. rewrite forallb_forall in H. apply H.
  rewrite <- (N2Nat.id a). apply in_map. apply in_seq. lia.
Qed.

Lemma hvcc_byte1 a : a < 256 ->
  N.lor (N.lor (u8 ((a / 64) mod 4 * 64)) (if (a / 32) mod 2 =? 1 then 32 else 0)) (a mod 32) = a.
Proof.
  intros Ha. apply N.eqb_eq.
  apply (byte_all (fun a => N.lor (N.lor (u8 ((a / 64) mod 4 * 64)) (if (a / 32) mod 2 =? 1 then 32 else 0)) (a mod 32) =? a));
    [vm_compute; reflexivity|exact Ha].
Qed.

Lemma hvcc_byte2 b : b < 256 -> b mod 4 = 3 ->
  N.lor (N.lor (N.lor (u8 ((b / 64) mod 4 * 64)) (u8 ((b / 8) mod 8 * 8))) (u8 ((b / 4) mod 2 * 4))) 3 = b.
Proof.
  intros Hb H3.
  pose proof (byte_all (fun b => negb (b mod 4 =? 3) ||
    (N.lor (N.lor (N.lor (u8 ((b / 64) mod 4 * 64)) (u8 ((b / 8) mod 8 * 8))) (u8 ((b / 4) mod 2 * 4))) 3 =? b))
    ltac:(vm_compute; reflexivity) b Hb) as H.
  cbv beta in H. rewrite H3 in H. cbn [N.eqb Pos.eqb negb orb] in H. now apply N.eqb_eq in H.
Qed.

Lemma join4096 m : N.lor (m / 4096 * 4096) (m mod 4096) = m.
Proof. exact (join_lowk m 12). Qed.

(* ---------------------------------------------------------------- hvcC *)
Lemma item_narr bs a r : bytes_ok bs = true -> rd_narr bs = Ok (a, r) -> bs = wr_narr a ++ r /\ bytes_ok r = true.
Proof.
  intros Hok H. unfold rd_narr in H. run H. tail_many H item_nalu. inj_pret H. split; [|assumption].
  unfold wr_narr. cbn [fst snd]. repeat rewrite <- app_assoc. reflexivity.
Qed.

Lemma hvcc_rec_spec data l rsv extra : bytes_ok data = true -> hvcc_rec data = Ok ((l, rsv), extra) ->
  exists b, body_leaf l (rsv ++ [extra]) = Ok b /\ data = b.
Proof.
  intros Hok H. unfold hvcc_rec in H. run H.
  apply pbind_ok in H. destruct H as (arrs & r1 & E1 & H). many E1 item_narr. inj_pret H.
  apply negb_false_iff, N.eqb_eq in Hc, Hc0. subst.
  change (256 ^ N.of_nat 1) with 256 in *.
  cbn [body_leaf chunk nth hd app]. eexists; split; [reflexivity|].
  rewrite hvcc_byte1, hvcc_byte2, join4096, !join4, !join8 by assumption.
  repeat rewrite <- app_assoc. reflexivity.
Qed.

Lemma lossless_hvcC : leaf_lossless dec_hvcC.
Proof.
  intros h r l rsv r' Hok H G. unfold dec_hvcC in H. step H.
  destruct (hvcc_rec a) as [[[l0 rsv0] extra]| | |] eqn:E; try discriminate.
  injection H as <- <- <-.
  destruct (hvcc_rec_spec _ _ _ _ Hx E) as (b & Hb & ->). exists b. now repeat split.
Qed.

(* ---------------------------------------------------------------- subs *)
Lemma item_subsample w bs a r : bytes_ok bs = true -> rd_subsample w bs = Ok (a, r) ->
  bs = wr_subsample w a ++ r /\ bytes_ok r = true.
Proof.
  intros Hok H. unfold rd_subsample in H. run H. inj_pret H. split; [|assumption].
  unfold wr_subsample. repeat rewrite <- app_assoc. reflexivity.
Qed.

Lemma item_subs_entry w bs a r : bytes_ok bs = true -> rd_subs_entry w bs = Ok (a, r) ->
  bs = wr_subs_entry w a ++ r /\ bytes_ok r = true.
Proof.
  intros Hok H. unfold rd_subs_entry in H. run H. tail_many H (item_subsample w). inj_pret H. split; [|assumption].
  unfold wr_subs_entry. cbn [fst snd]. repeat rewrite <- app_assoc. reflexivity.
Qed.

Lemma lossless_subs : leaf_lossless dec_subs.
Proof.
  intros h r l rsv r' Hok H G. unfold dec_subs in H. run H.
  tail_many H (item_subs_entry (subs_w (vf_version a))). inj_pret H. cbn [body_leaf]. close_with Hl.
Qed.

(* ---------------------------------------------------------------- uuid *)
Lemma item_pairw w bs a r : bytes_ok bs = true -> rd_pairw w bs = Ok (a, r) -> bs = wr_pairw w a ++ r /\ bytes_ok r = true.
Proof.
  intros Hok H. unfold rd_pairw in H. run H. inj_pret H. split; [|assumption].
  unfold wr_pairw. cbn [fst snd]. repeat rewrite <- app_assoc. reflexivity.
Qed.

Lemma bytes_eqb_eq1 x : forall y, bytes_eqb x y = true -> x = y.
Proof.
  induction x as [|a x IH]; intros [|b y] H; cbn [bytes_eqb] in H; try discriminate; [reflexivity|].
  apply andb_true_iff in H. destruct H as [H1 H2]. apply N.eqb_eq in H1. subst. f_equal. now apply IH.
Qed.

Lemma lossless_uuid : leaf_lossless dec_uuid.
Proof.
  intros h r l rsv r' Hok H G. unfold dec_uuid in H. step H.
  destruct (bytes_eqb a uuid_tfxd) eqn:E1.
  { apply bytes_eqb_eq1 in E1. subst a. run H. inj_pret H. cbn [body_leaf].
    eexists; split; [reflexivity|]; split; [|assumption].
    rewrite vf_join_split by assumption. repeat rewrite <- app_assoc. reflexivity. }
  destruct (bytes_eqb a uuid_tfrf) eqn:E2.
  { apply bytes_eqb_eq1 in E2. subst a. run H. tail_many H (item_pairw (uuid_w (vf_version a))). inj_pret H. cbn [body_leaf].
    rewrite N.ltb_irrefl, firstn_lenN.
    eexists; split; [reflexivity|]; split; [|assumption].
    rewrite vf_join_split by assumption. repeat rewrite <- app_assoc. reflexivity. }
  destruct (bytes_eqb a uuid_piff) eqn:E3.
  { apply bytes_eqb_eq1 in E3. subst a. destruct (h_size h <? 16); [discriminate H|].
    apply pbind_ok in H. destruct H as ([l0 rsv0] & r1 & E & H). cbn [fst] in H.
    destruct l0; try discriminate H. inj_pret H.
    destruct (lossless_senc _ _ _ _ _ Hok0 E G) as (b & Hb & -> & Hok1).
    cbn [body_leaf] in *. destruct (negb notParsed && has flags 2 && (0 <? count)); [discriminate Hb|]. injection Hb as <-.
    eexists; split; [reflexivity|]; split; [|assumption]. repeat rewrite <- app_assoc. reflexivity. }
  destruct (h_size h <? 24); [discriminate H|]. run H. inj_pret H. cbn [body_leaf].
  eexists; split; [reflexivity|]; split; [|assumption]. repeat rewrite <- app_assoc. reflexivity.
Qed.

