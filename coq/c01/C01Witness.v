(* C01Witness.v — concrete witnesses (vm_compute) for the refutations and the non-vacuity examples. *)
From V.lib Require Import Base.
From V.c01 Require Import C01Codec C01Model.

Definition treeof (bs : list N) : mbox :=
  match decode bs with Ok (t, _) => t | _ => MUnknown (mkHdr [] 0 8) [] end.

Definition w_mvhd_v2 : list N :=
  enc_hdr n_mvhd 108 ++ [2;0;0;0] ++ zeros 16 ++ [0;1;0;0] ++ [1;0] ++ zeros 10 ++ unity_matrix ++ zeros 24 ++ [0;0;0;2].
(* refuted before repo commit 5633466 (encode_w = Err: overflow in SliceWriter); now a fixed point *)
Lemma mvhd_v2_fixed : exists t, decode w_mvhd_v2 = Ok (t, []) /\ encode_w t = Ok w_mvhd_v2 /\ encode_sw t = Ok w_mvhd_v2.
Proof. exists (treeof w_mvhd_v2). vm_compute. repeat split. Qed.

Definition w_tkhd_v2 : list N :=
  enc_hdr n_tkhd 92 ++ [2;0;0;7] ++ zeros 20 ++ zeros 8 ++ zeros 6 ++ zeros 2 ++ unity_matrix ++ zeros 8.
Lemma tkhd_v2_fixed : exists t, decode w_tkhd_v2 = Ok (t, []) /\ encode_w t = Ok w_tkhd_v2 /\ encode_sw t = Ok w_tkhd_v2.
Proof. exists (treeof w_tkhd_v2). vm_compute. repeat split. Qed.

(* trun, flags 0x000001 (data offset present), sample_count 0, data_offset 0 *)
Definition w_trun_off0 : list N := enc_hdr n_trun 20 ++ [0;0;0;1] ++ [0;0;0;0] ++ [0;0;0;0].
Lemma trun_offset0_refuted : exists bs t, decode bs = Ok (t, []) /\ encode_w t = Err.
Proof. exists w_trun_off0, (treeof w_trun_off0). vm_compute. repeat split. Qed.

(* mfhd whose header says 20 bytes: 4 trailing body bytes are left unread *)
Definition w_mfhd_trailing : list N := enc_hdr n_mfhd 20 ++ [0;0;0;0] ++ [0;0;0;5] ++ [1;2;3;4].
Lemma mfhd_trailing_refuted : exists bs t rest enc,
  decode bs = Ok (t, rest) /\ exact_box t = false /\ encode_w t = Ok enc /\ enc ++ rest <> bs.
Proof.
  exists w_mfhd_trailing, (treeof w_mfhd_trailing), [1;2;3;4],
    (match encode_w (treeof w_mfhd_trailing) with Ok e => e | _ => [] end).
  vm_compute. repeat split. discriminate.
Qed.

(* a moof{mfhd, traf{tfhd, tfdt, trun(2 samples)}} *)
Definition h0 := mkHdr [] 0 8.
Definition ex_moof_pre : mbox :=
  MCont (mkHdr n_moof 0 8)
    [ MLeaf h0 (LMfhd 0 0 7) [];
      MCont (mkHdr n_traf 0 8)
        [ MLeaf h0 (LTfhd 0 131106 1 0 1 0 0 16842752) [];
          MLeaf h0 (LTfdt 1 0 90000000000) [];
          MLeaf h0 (LTrun 1 2817 120 0 [mkTs 3000 1234 0 6000; mkTs 3000 99 0 4294964296]) [] ] ].
Definition ex_moof_bytes : list N :=
  Eval vm_compute in match raw_box false ex_moof_pre with Ok b => b | _ => [] end.
Definition ex_moof_tree : mbox :=
  Eval vm_compute in match decode ex_moof_bytes with Ok (t, _) => t | _ => ex_moof_pre end.
Lemma ex_moof_ok : decode ex_moof_bytes = Ok (ex_moof_tree, []) /\ exact_box ex_moof_tree = true /\
  bytes_ok ex_moof_bytes = true /\ encode_w ex_moof_tree = Ok ex_moof_bytes.
Proof. vm_compute. repeat split. Qed.

(* a moov{mvhd, trak{tkhd, mdia{mdhd, hdlr}}, mvex{trex}} with non-default reserved bytes in tkhd *)
Definition ex_moov_pre : mbox :=
  MCont (mkHdr n_moov 0 8)
    [ MLeaf h0 (LMvhd 1 0 3600000000 3600000001 90000 900000 65536 256 2) [zeros 10; unity_matrix; zeros 24];
      MCont (mkHdr n_trak 0 8)
        [ MLeaf h0 (LTkhd 0 7 1 2 1 0 0 0 0 83886080 47185920) [[9;9;9;9]; zeros 8; [1;1]; unity_matrix];
          MCont (mkHdr n_mdia 0 8)
            [ MLeaf h0 (LMdhd 0 0 1 2 90000 0 21956) [[0;0]];
              MLeaf h0 (LHdlr 0 0 0 [118;105;100;101] [109;112;52;102;102] false) [zeros 12] ] ];
      MCont (mkHdr n_mvex 0 8) [ MLeaf h0 (LTrex 0 0 1 1 0 0 0) [] ] ].
Definition ex_moov_bytes : list N :=
  Eval vm_compute in match raw_box true ex_moov_pre with Ok b => b | _ => [] end.
Definition ex_moov_tree : mbox :=
  Eval vm_compute in match decode ex_moov_bytes with Ok (t, _) => t | _ => ex_moov_pre end.
Lemma ex_moov_ok : decode ex_moov_bytes = Ok (ex_moov_tree, []) /\ exact_box ex_moov_tree = true /\
  bytes_ok ex_moov_bytes = true.
Proof. vm_compute. repeat split. Qed.
