(* C01EsdsProofs.v — the esds descriptor layer: whatever DecodeEsdsSR accepts is reproduced from the decoded
   descriptor tree plus the captured size fields (lossless); a decoder run that kept no UnknownData never looked
   behind the bytes it consumed (guarded locality); the encoder's bytes are Size() many. *)
From V.lib Require Import Base.
From V.c01 Require Import C01Codec C01Model C01LeafProofs C01Leaf2Proofs C01Leaf3Proofs C01LocalProofs.

(* ---------------------------------------------------------------- induction on descriptors *)
Section DescInd.
  Variable P : desc -> Prop.
  Hypothesis Hdcd : forall nb ot st buf maxbr avgbr cs u, Forall P cs -> P (DDcd nb ot st buf maxbr avgbr cs u).
  Hypothesis Hdsi : forall nb dc, P (DDsi nb dc).
  Hypothesis Hslc : forall nb cv more, P (DSlc nb cv more).
  Hypothesis Hraw : forall tag nb data, P (DRaw tag nb data).
  Fixpoint desc_ind2 (d : desc) : P d :=
    match d with
    | DDcd nb ot st buf maxbr avgbr cs u =>
        Hdcd nb ot st buf maxbr avgbr cs u
          ((fix go (l : list desc) : Forall P l :=
              match l with [] => Forall_nil _ | c :: t => Forall_cons _ (desc_ind2 c) (go t) end) cs)
    | DDsi nb dc => Hdsi nb dc
    | DSlc nb cv more => Hslc nb cv more
    | DRaw tag nb data => Hraw tag nb data
    end.
End DescInd.

(* ---------------------------------------------------------------- unfolding the nested fixpoints *)
Lemma enc_desc_dcd nb ot st buf maxbr avgbr cs u r :
  enc_desc (DDcd nb ot st buf maxbr avgbr cs u) r =
  (let '(body, r') := enc_descs cs (tl r) in
   ([4] ++ hd [] r ++ be_enc 1 ot ++ be_enc 4 (N.lor (u32 (st * 16777216)) buf) ++ be_enc 4 maxbr ++ be_enc 4 avgbr ++
    body ++ u, r')).
Proof.
  cbn [enc_desc].
  assert (E : forall l r0,
    (fix go (l : list desc) (r : rsvT) {struct l} : list N * rsvT :=
       match l with
       | [] => ([], r)
       | c :: t => let '(x, r1) := enc_desc c r in let '(y, r2) := go t r1 in (x ++ y, r2)
       end) l r0 = enc_descs l r0).
  { induction l as [|c t IH]; intros r0; [reflexivity|]. cbn [enc_descs]. destruct (enc_desc c r0) as [x r1]. now rewrite IH. }
  now rewrite E.
Qed.

Lemma desc_size_dcd nb ot st buf maxbr avgbr cs u :
  desc_size_of (DDcd nb ot st buf maxbr avgbr cs u) = 13 + sizes_sum cs + lenN u.
Proof.
  cbn [desc_size_of].
  assert (E : forall l,
    (fix sum (l : list desc) : N :=
       match l with
       | [] => 0
       | c :: r => 1 + sfs_of match c with
                              | DDcd nb _ _ _ _ _ _ _ => nb | DDsi nb _ => nb | DSlc nb _ _ => nb | DRaw _ nb _ => nb
                              end + 1 + desc_size_of c + sum r
       end) l = sizes_sum l).
  { unfold sizes_sum. induction l as [|c t IH]; [reflexivity|]. cbn [map sumN]. rewrite <- IH. reflexivity. }
  now rewrite E.
Qed.

Lemma dflt_desc_dcd nb ot st buf maxbr avgbr cs u :
  dflt_desc (DDcd nb ot st buf maxbr avgbr cs u) =
  wr_size (13 + sizes_sum cs + lenN u) (N.to_nat (sfs_of nb)) :: dflt_descs cs.
Proof.
  unfold dflt_descs. cbn [dflt_desc desc_nb]. rewrite desc_size_dcd. reflexivity.
Qed.

Lemma nounk_dcd nb ot st buf maxbr avgbr cs u :
  nounk (DDcd nb ot st buf maxbr avgbr cs u) = (lenN u =? 0) && forallb nounk cs.
Proof.
  cbn [nounk]. reflexivity.
Qed.

(* ---------------------------------------------------------------- size fields *)
Lemma sz_loop_spec bs : forall acc nb sz raw r, sz_loop bs acc = Ok ((nb, sz, raw), r) ->
  bs = raw ++ r /\ (bytes_ok bs = true -> bytes_ok r = true) /\
  forall r2, sz_loop (raw ++ r2) acc = Ok ((nb, sz, raw), r2).
Proof.
  induction bs as [|b t IH]; intros acc nb sz raw r H; cbn [sz_loop] in H; [discriminate|].
  destruct (128 <=? b) eqn:Eb.
  - destruct (sz_loop t (u64 (acc * 128 + b mod 128))) as [[[[nb' sz'] raw'] r']| | |] eqn:E; try discriminate.
    injection H as <- <- <- <-. destruct (IH _ _ _ _ _ E) as (-> & Hok & Hrep).
    split; [reflexivity|]. split.
    + intros Hb. rewrite bytes_ok_cons in Hb. apply andb_true_iff in Hb. now apply Hok.
    + intros r2. cbn [app sz_loop]. now rewrite Eb, Hrep.
  - injection H as <- <- <- <-. split; [reflexivity|]. split.
    + intros Hb. cbn [app] in Hb. rewrite bytes_ok_cons in Hb. now apply andb_true_iff in Hb.
    + intros r2. cbn [app sz_loop]. now rewrite Eb.
Qed.

Lemma lenN_wr_size s k : lenN (wr_size s k) = N.of_nat k + 1.
Proof. induction k as [|k IH]; [reflexivity|]. cbn [wr_size]. rewrite lenN_cons, IH. lia. Qed.

Lemma rd_bytes64_spec n bs x r : rd_bytes64 n bs = Some (x, r) ->
  bs = x ++ r /\ (bytes_ok bs = true -> bytes_ok r = true) /\ forall r2, rd_bytes64 n (x ++ r2) = Some (x, r2).
Proof.
  unfold rd_bytes64. destruct (9223372036854775808 <=? n); [discriminate|].
  destruct (rdB n bs) as [[x' r']| | |] eqn:E; try discriminate. intros H. injection H as <- <-.
  destruct (local_rdB n _ _ _ E) as (y & -> & Hy).
  assert (y = x') as ->.
  { unfold rdB in E. destruct (lenN (y ++ r') <? n); [discriminate|].
    destruct (take (N.to_nat n) (y ++ r')) as [[a b]|] eqn:Et; [|discriminate]. injection E as <- <-.
    destruct (take_spec _ _ _ _ Et) as [He _]. now apply app_inv_tail in He. }
  split; [reflexivity|]. split.
  - intros Hb. rewrite bytes_ok_app in Hb. now apply andb_true_iff in Hb.
  - intros r2. now rewrite Hy.
Qed.

(* ---------------------------------------------------------------- the combined invariant *)
Definition desc_ok (dd : Z -> list N -> dres) : Prop :=
  forall m bs d rsv rest, dd m bs = DOk d rsv rest -> bytes_ok bs = true ->
    bytes_ok rest = true /\ exists x, bs = x ++ rest /\ (forall tl, enc_desc d (rsv ++ tl) = (x, tl)) /\
      (nounk d = true -> forall r2, dd m (x ++ r2) = DOk d rsv r2).

Lemma loop_ok dd : desc_ok dd -> forall k size used bs, bytes_ok bs = true ->
  (forall ds rs rest, dec_loop dd k size used bs = LDone ds rs rest ->
     bytes_ok rest = true /\ exists x, bs = x ++ rest /\ (forall tl, enc_descs ds (rs ++ tl) = (x, tl)) /\
       (forallb nounk ds = true -> forall r2, dec_loop dd k size used (x ++ r2) = LDone ds rs r2)) /\
  (forall ds rs u rest, dec_loop dd k size used bs = LUnknown ds rs u rest ->
     bytes_ok rest = true /\ u <> [] /\ exists x, bs = x ++ u ++ rest /\ (forall tl, enc_descs ds (rs ++ tl) = (x, tl))).
Proof.
  intros Hdd. induction k as [|k IH]; intros size used bs Hok; (split; [intros ds rs rest H|intros ds rs u rest H]);
    cbn [dec_loop] in H; try discriminate.
  - (* LDone *)
    destruct ((size - Z.of_N used =? 0)%Z) eqn:E0.
    { injection H as <- <- <-. split; [assumption|]. exists []. split; [reflexivity|]. split; [intros tl; reflexivity|].
      intros _ r2. cbn [dec_loop app]. now rewrite E0. }
    destruct ((size - Z.of_N used <? 0)%Z) eqn:E1; [discriminate|].
    destruct (dd (size - Z.of_N used)%Z bs) as [d rsv r| | |] eqn:Ed; try discriminate.
    + destruct (Hdd _ _ _ _ _ Ed Hok) as (Hokr & x1 & -> & Henc1 & Hloc1).
      destruct (dec_loop dd k size (used + (lenN (x1 ++ r) - lenN r)) r) as [ds' rs' r'| | | |] eqn:El; try discriminate.
      injection H as <- <- <-.
      destruct (proj1 (IH _ _ _ Hokr) _ _ _ El) as (Hokr' & x2 & -> & Henc2 & Hloc2).
      split; [assumption|]. exists (x1 ++ x2). split; [now rewrite app_assoc|]. split.
      * intros tl. cbn [enc_descs]. rewrite <- app_assoc, Henc1, Henc2. reflexivity.
      * intros Hn r2. cbn [forallb] in Hn. apply andb_true_iff in Hn. destruct Hn as [Hn1 Hn2].
        cbn [dec_loop]. rewrite E0, E1. rewrite <- app_assoc, (Hloc1 Hn1).
        replace (lenN (x1 ++ x2 ++ r2) - lenN (x2 ++ r2)) with (lenN (x1 ++ x2 ++ r') - lenN (x2 ++ r'))
          by (rewrite !lenN_app; lia).
        now rewrite (Hloc2 Hn2).
    + destruct (rdB (Z.to_N (size - Z.of_N used)) bs) as [[u r]| | |]; discriminate.
  - (* LUnknown *)
    destruct ((size - Z.of_N used =? 0)%Z) eqn:E0; [discriminate|].
    destruct ((size - Z.of_N used <? 0)%Z) eqn:E1; [discriminate|].
    destruct (dd (size - Z.of_N used)%Z bs) as [d rsv r| | |] eqn:Ed; try discriminate.
    + destruct (Hdd _ _ _ _ _ Ed Hok) as (Hokr & x1 & -> & Henc1 & Hloc1).
      destruct (dec_loop dd k size (used + (lenN (x1 ++ r) - lenN r)) r) as [ds' rs' r'|ds' rs' u' r'| | |] eqn:El; try discriminate.
      injection H as <- <- <- <-.
      destruct (proj2 (IH _ _ _ Hokr) _ _ _ _ El) as (Hokr' & Hu & x2 & -> & Henc2).
      split; [assumption|]. split; [assumption|]. exists (x1 ++ x2). split; [now rewrite <- !app_assoc|].
      intros tl. cbn [enc_descs]. rewrite <- app_assoc, Henc1, Henc2. reflexivity.
    + destruct (rdB (Z.to_N (size - Z.of_N used)) bs) as [[u' r]| | |] eqn:Eu; try discriminate.
      injection H as <- <- <- <-. destruct (rdB_spec _ _ _ _ Hok Eu) as (-> & Hl & _ & Hokr).
      split; [assumption|]. split.
      * intros ->. change (lenN (@nil N)) with 0 in Hl. apply Z.eqb_neq in E0. apply Z.ltb_ge in E1. lia.
      * exists []. split; [reflexivity|]. intros tl. reflexivity.
Qed.

Lemma local_dcd_fields : local rd_dcd_fields.
Proof. unfold rd_dcd_fields. loc. Qed.

Lemma st_buf_join x : x < 256 ^ N.of_nat 4 -> N.lor (u32 (x / 16777216 * 16777216)) (x mod 16777216) = x.
Proof.
  intros Hx. change (256 ^ N.of_nat 4) with 4294967296 in Hx. unfold u32. rewrite N.mod_small by lia.
  change 16777216 with (2 ^ 24). apply join_lowk.
Qed.

Lemma dcd_ok dd k nb size raw : desc_ok dd ->
  forall r d rsv rest, dec_dcd dd k nb size raw r = DOk d rsv rest -> bytes_ok r = true ->
    bytes_ok rest = true /\ exists x, r = x ++ rest /\ (forall tl, enc_desc d (rsv ++ tl) = ([4] ++ raw ++ x, tl)) /\
      (nounk d = true -> forall r2, dec_dcd dd k nb size raw (x ++ r2) = DOk d rsv r2).
Proof.
  intros Hdd r d rsv rest H Hok. unfold dec_dcd in H.
  destruct (rd_dcd_fields r) as [[[[[ot x] maxbr] avgbr] r1]| | |] eqn:Ef; try discriminate.
  destruct (local_dcd_fields _ _ _ Ef) as (xf & Hxf & Hlocf).
  assert (Hf : r = (be_enc 1 ot ++ be_enc 4 x ++ be_enc 4 maxbr ++ be_enc 4 avgbr) ++ r1 /\ bytes_ok r1 = true /\ x < 256 ^ N.of_nat 4).
  { unfold rd_dcd_fields in Ef. run Ef. inj_pret Ef. repeat rewrite <- app_assoc. now repeat split. }
  destruct Hf as (Hr & Hok1 & Hx). rewrite Hr in Hxf. apply app_inv_tail in Hxf. subst xf.
  destruct ((int64 size - 13 =? 0)%Z) eqn:E0.
  - injection H as <- <- <-. split; [assumption|]. eexists. split; [exact Hr|]. split.
    + intros t0. rewrite enc_desc_dcd. cbn [enc_descs tl hd app]. rewrite st_buf_join by assumption.
      repeat rewrite <- app_assoc. cbn [app]. rewrite app_nil_r. reflexivity.
    + intros _ r2. unfold dec_dcd. rewrite Hlocf, E0. reflexivity.
  - destruct (dd (int64 size - 13)%Z r1) as [d1 rs1 r2| | |] eqn:Ed; try discriminate.
    destruct (Hdd _ _ _ _ _ Ed Hok1) as (Hok2 & x1 & -> & Henc1 & Hloc1).
    destruct (dec_loop dd k (int64 size) (13 + (lenN (x1 ++ r2) - lenN r2)) r2) as [ds rs r3|ds rs u r3| | |] eqn:El; try discriminate.
    + injection H as <- <- <-.
      destruct (proj1 (loop_ok dd Hdd _ _ _ _ Hok2) _ _ _ El) as (Hok3 & x2 & -> & Henc2 & Hloc2).
      split; [assumption|]. exists (be_enc 1 ot ++ be_enc 4 x ++ be_enc 4 maxbr ++ be_enc 4 avgbr ++ x1 ++ x2).
      split; [rewrite Hr; repeat rewrite <- app_assoc; reflexivity|]. split.
      * intros t0. rewrite enc_desc_dcd. cbn [tl hd app enc_descs]. rewrite <- app_assoc, Henc1, Henc2.
        rewrite st_buf_join by assumption. repeat rewrite <- app_assoc. cbn [app]. rewrite app_nil_r. reflexivity.
      * intros Hn r4. rewrite nounk_dcd in Hn. cbn [forallb] in Hn. apply andb_true_iff in Hn. destruct Hn as [_ Hn].
        apply andb_true_iff in Hn. destruct Hn as [Hn1 Hn2].
        unfold dec_dcd. repeat rewrite <- app_assoc.
        replace (be_enc 1 ot ++ be_enc 4 x ++ be_enc 4 maxbr ++ be_enc 4 avgbr ++ x1 ++ x2 ++ r4)
          with ((be_enc 1 ot ++ be_enc 4 x ++ be_enc 4 maxbr ++ be_enc 4 avgbr) ++ x1 ++ x2 ++ r4) by (repeat rewrite <- app_assoc; reflexivity).
        rewrite Hlocf, E0, (Hloc1 Hn1).
        replace (lenN (x1 ++ x2 ++ r4) - lenN (x2 ++ r4)) with (lenN (x1 ++ x2 ++ r3) - lenN (x2 ++ r3)) by (rewrite !lenN_app; lia).
        rewrite (Hloc2 Hn2). reflexivity.
    + injection H as <- <- <-.
      destruct (proj2 (loop_ok dd Hdd _ _ _ _ Hok2) _ _ _ _ El) as (Hok3 & Hu & x2 & -> & Henc2).
      split; [assumption|]. exists (be_enc 1 ot ++ be_enc 4 x ++ be_enc 4 maxbr ++ be_enc 4 avgbr ++ x1 ++ x2 ++ u).
      split; [rewrite Hr; repeat rewrite <- app_assoc; reflexivity|]. split.
      * intros t0. rewrite enc_desc_dcd. cbn [tl hd app enc_descs]. rewrite <- app_assoc, Henc1, Henc2.
        rewrite st_buf_join by assumption. repeat rewrite <- app_assoc. cbn [app]. reflexivity.
      * intros Hn. exfalso. rewrite nounk_dcd in Hn. apply andb_true_iff in Hn. destruct Hn as [Hn _].
        apply N.eqb_eq in Hn. apply Hu. destruct u; [reflexivity|]. rewrite lenN_cons in Hn. lia.
Qed.

Lemma desc_step fu : desc_ok (dec_desc fu) -> desc_ok (dec_desc (S fu)).
Proof.
  intros IH m bs d rsv rest H Hok. cbn [dec_desc] in H.
  destruct ((m <? 2)%Z) eqn:Em; [discriminate|].
  destruct bs as [|tag t]; [discriminate|].
  destruct (tag =? 3) eqn:E3; [discriminate|].
  destruct (sz_loop t 0) as [[[[nb size] raw] r]| | |] eqn:Es; try discriminate.
  destruct (sz_loop_spec _ _ _ _ _ _ Es) as (-> & Hokr & Hreps).
  rewrite bytes_ok_cons in Hok. apply andb_true_iff in Hok. destruct Hok as [_ Hokt]. specialize (Hokr Hokt).
  destruct (Z.to_N m <? u64 (2 + sfs_of nb + size)) eqn:Ex; [discriminate|].
  assert (Hhead : forall r2, dec_desc (S fu) m ((tag :: raw ++ r) ++ r2) = dec_desc (S fu) m (tag :: raw ++ r ++ r2))
    by (intros r2; now rewrite <- app_comm_cons, <- app_assoc).
  destruct (tag =? 4) eqn:E4.
  { apply N.eqb_eq in E4. subst tag.
    destruct (dcd_ok _ _ _ _ _ IH _ _ _ _ H Hokr) as (Hokr' & x & -> & Henc & Hloc).
    split; [assumption|]. exists ([4] ++ raw ++ x). split; [cbn [app]; now rewrite <- app_assoc|]. split; [exact Henc|].
    intros Hn r2. cbn [app dec_desc]. rewrite Em. cbn [N.eqb Pos.eqb]. rewrite <- !app_assoc, Hreps, Ex. now apply Hloc. }
  destruct (tag =? 5) eqn:E5.
  { apply N.eqb_eq in E5. subst tag.
    destruct (rd_bytes64 size r) as [[dc r']|] eqn:Eb; [|discriminate]. injection H as <- <- <-.
    destruct (rd_bytes64_spec _ _ _ _ Eb) as (-> & Hok' & Hrep').
    split; [now apply Hok'|]. exists ([5] ++ raw ++ dc). split; [cbn [app]; now rewrite <- app_assoc|].
    split; [intros t0; reflexivity|].
    intros _ r2. cbn [app dec_desc]. rewrite Em. cbn [N.eqb Pos.eqb]. rewrite <- !app_assoc, Hreps, Ex, Hrep'. reflexivity. }
  destruct (tag =? 6) eqn:E6.
  { apply N.eqb_eq in E6. subst tag.
    destruct r as [|cv r1]; [discriminate|].
    destruct (size =? 0) eqn:Ez; [discriminate|].
    destruct (1 <? size) eqn:E1.
    - destruct (rd_bytes64 (size - 1) r1) as [[more r']|] eqn:Eb; [|discriminate]. injection H as <- <- <-.
      destruct (rd_bytes64_spec _ _ _ _ Eb) as (-> & Hok' & Hrep').
      rewrite bytes_ok_cons in Hokr. apply andb_true_iff in Hokr. destruct Hokr as [_ Hokr].
      split; [now apply Hok'|]. exists ([6] ++ raw ++ [cv] ++ more). split; [cbn [app]; rewrite <- !app_assoc; reflexivity|].
      split; [intros t0; reflexivity|].
      intros _ r2. cbn [app dec_desc]. rewrite Em. cbn [N.eqb Pos.eqb]. rewrite <- !app_assoc. cbn [app].
      rewrite Hreps, Ex, Ez, E1, Hrep'. reflexivity.
    - injection H as <- <- <-.
      rewrite bytes_ok_cons in Hokr. apply andb_true_iff in Hokr. destruct Hokr as [_ Hokr].
      split; [assumption|]. exists ([6] ++ raw ++ [cv] ++ []). split; [cbn [app]; rewrite <- !app_assoc; reflexivity|].
      split; [intros t0; reflexivity|].
      intros _ r2. cbn [app dec_desc]. rewrite Em. cbn [N.eqb Pos.eqb]. rewrite <- !app_assoc. cbn [app].
      rewrite Hreps, Ex, Ez, E1. reflexivity. }
  destruct (rd_bytes64 size r) as [[data r']|] eqn:Eb; [|discriminate]. injection H as <- <- <-.
  destruct (rd_bytes64_spec _ _ _ _ Eb) as (-> & Hok' & Hrep').
  split; [now apply Hok'|]. exists ([tag] ++ raw ++ data). split; [cbn [app]; now rewrite <- app_assoc|].
  split; [intros t0; reflexivity|].
  intros _ r2. cbn [app dec_desc]. rewrite Em, E3. rewrite <- !app_assoc, Hreps, Ex, E4, E5, E6, Hrep'. reflexivity.
Qed.

Lemma desc_all f : desc_ok (dec_desc f).
Proof.
  induction f as [|f IH]; [intros m bs d rsv rest H; discriminate H|]. now apply desc_step.
Qed.

(* ---------------------------------------------------------------- the ES descriptor and the box *)
Definition wr_es_fields (esid fl dep : N) (url : list N) (ocr : N) : list N :=
  be_enc 2 esid ++ be_enc 1 fl ++ (if fl / 128 =? 1 then be_enc 2 dep else []) ++
  (if (fl / 64) mod 2 =? 1 then be_enc 1 (lenN url) ++ url else []) ++
  (if (fl / 32) mod 2 =? 1 then be_enc 2 ocr else []).

Lemma local_es_fields : local rd_es_fields.
Proof. unfold rd_es_fields. loc. Qed.

Lemma rd_if_spec c n bs v r : bytes_ok bs = true -> rd_if c n bs = Ok (v, r) ->
  bs = (if c then be_enc n v else []) ++ r /\ bytes_ok r = true.
Proof.
  intros Hok E. unfold rd_if in E. destruct c; [destruct (rd_spec _ _ _ _ Hok E) as (-> & _ & Hr); now split|].
  inj_pret E. now split.
Qed.
Lemma url_spec (c : bool) bs u r : bytes_ok bs = true ->
  (if c then (pdo n <- rd 1 ;; rdB n) else pret []) bs = Ok (u, r) ->
  bs = (if c then be_enc 1 (lenN u) ++ u else []) ++ r /\ bytes_ok r = true.
Proof.
  intros Hok E. destruct c.
  - apply pbind_ok in E. destruct E as (n & r1 & E1 & E2). destruct (rd_spec _ _ _ _ Hok E1) as (-> & _ & Hr1).
    destruct (rdB_spec _ _ _ _ Hr1 E2) as (-> & Hl & _ & Hr). rewrite Hl, <- app_assoc. now split.
  - inj_pret E. now split.
Qed.

Lemma es_fields_spec r esid fl dep url ocr r1 : bytes_ok r = true ->
  rd_es_fields r = Ok ((esid, fl, dep, url, ocr), r1) ->
  r = wr_es_fields esid fl dep url ocr ++ r1 /\ bytes_ok r1 = true /\
  forall r2, rd_es_fields (wr_es_fields esid fl dep url ocr ++ r2) = Ok ((esid, fl, dep, url, ocr), r2).
Proof.
  intros Hok H. destruct (local_es_fields _ _ _ H) as (x & Hx & Hloc).
  assert (Hs : r = wr_es_fields esid fl dep url ocr ++ r1 /\ bytes_ok r1 = true).
  { unfold rd_es_fields in H. unfold wr_es_fields.
    apply pbind_ok in H. destruct H as (esid' & ra & E & H). destruct (rd_spec _ _ _ _ Hok E) as (-> & _ & Hoka). clear E.
    apply pbind_ok in H. destruct H as (fl' & rb & E & H). destruct (rd_spec _ _ _ _ Hoka E) as (-> & _ & Hokb). clear E.
    apply pbind_ok in H. destruct H as (dep' & rc & E & H). destruct (rd_if_spec _ _ _ _ _ Hokb E) as (-> & Hokc). clear E.
    apply pbind_ok in H. destruct H as (url' & rd_ & E & H). destruct (url_spec _ _ _ _ Hokc E) as (-> & Hokd). clear E.
    apply pbind_ok in H. destruct H as (ocr' & re & E & H). destruct (rd_if_spec _ _ _ _ _ Hokd E) as (-> & Hoke). clear E.
    inj_pret H. repeat rewrite <- app_assoc. now split. }
  destruct Hs as [Hr Hok1]. split; [exact Hr|]. split; [exact Hok1|].
  rewrite Hr in Hx. apply app_inv_tail in Hx. subst x. exact Hloc.
Qed.

Lemma bytes_eqb_eq0 x : forall y, bytes_eqb x y = true -> x = y.
Proof.
  induction x as [|a x IH]; intros [|b y] H; cbn [bytes_eqb] in H; try discriminate; [reflexivity|].
  apply andb_true_iff in H. destruct H as [H1 H2]. apply N.eqb_eq in H1. subst. f_equal. now apply IH.
Qed.
Lemma rsv_eqb0_eq r : forall d, rsv_eqb0 r d = true -> r = d.
Proof.
  induction r as [|c r IH]; intros [|e d] H; cbn [rsv_eqb0] in H; try discriminate; [reflexivity|].
  apply andb_true_iff in H. destruct H as [H1 H2]. apply bytes_eqb_eq0 in H1. subst. f_equal. now apply IH.
Qed.

Lemma dec_desc_soft0 F bs : dec_desc (S F) 0 bs = DSoft.
Proof. reflexivity. Qed.

Lemma esds_core_in h r l rsv r' : bytes_ok r = true -> dec_esds_in h r = Ok ((l, rsv), r') ->
  bytes_ok r' = true /\ leaf_name l = n_esds /\ exists b, body_leaf l rsv = Ok b /\ r = b ++ r' /\
    (leaf_guard l = true -> rsv = dflt_rsv l /\ forall r2, dec_esds_in h (b ++ r2) = Ok ((l, rsv), r2)).
Proof.
  intros Hok H. unfold dec_esds_in in H. apply pbind_ok in H. destruct H as (vf & r0 & Evf & H).
  destruct (rd_spec _ _ _ _ Hok Evf) as (-> & Hvf & Hok0). cbv beta zeta in H.
  set (F := S (N.to_nat (h_size h + 65536))) in *.
  destruct r0 as [|tag t]; [discriminate|].
  destruct (negb (tag =? 3)) eqn:E3; [discriminate|]. apply negb_false_iff, N.eqb_eq in E3. subst tag.
  destruct (sz_loop t 0) as [[[[nb size] raw] rA]| | |] eqn:Es; try discriminate.
  destruct (sz_loop_spec _ _ _ _ _ _ Es) as (-> & HokA & Hreps).
  rewrite bytes_ok_cons in Hok0. apply andb_true_iff in Hok0. destruct Hok0 as [_ Hokt]. specialize (HokA Hokt).
  destruct (rd_es_fields rA) as [[[[[[esid fl] dep] url] ocr] r1]| | |] eqn:Ef; try discriminate.
  destruct (es_fields_spec _ _ _ _ _ _ _ HokA Ef) as (-> & Hok1 & Hlocf).
  set (W := wr_es_fields esid fl dep url ocr) in *.
  assert (HW : forall z : list N, lenN (W ++ z) - lenN z = lenN W) by (intros z; rewrite lenN_app; lia).
  rewrite HW in H.
  destruct (dec_desc F (int64 size - Z.of_N (lenN W)) r1) as [dcd rs1 r2| | |] eqn:Ed1; try discriminate.
  destruct (desc_all F _ _ _ _ _ Ed1 Hok1) as (Hok2 & x1 & -> & Henc1 & Hloc1).
  destruct dcd as [a b c d0 e0 f0 g0 h0| | |]; try discriminate.
  assert (HW1 : forall z : list N, lenN (W ++ x1 ++ z) - lenN z = lenN W + lenN x1) by (intros z; rewrite !lenN_app; lia).
  rewrite HW1 in H.
  assert (Hvfj : vf_join (vf_version vf) (vf_flags vf) = vf) by now apply vf_join_split.
  destruct (dec_desc F (int64 size - Z.of_N (lenN W + lenN x1)) r2) as [d2 rs2 r3| | |] eqn:Ed2; try discriminate.
  - destruct (desc_all F _ _ _ _ _ Ed2 Hok2) as (Hok3 & x2 & -> & Henc2 & Hloc2).
    assert (HW2 : forall z : list N, lenN (W ++ x1 ++ x2 ++ z) - lenN z = lenN W + lenN x1 + lenN x2) by (intros z; rewrite !lenN_app; lia).
    rewrite HW2 in H.
    destruct (dec_loop (dec_desc F) F (int64 size) (lenN W + lenN x1 + lenN x2) r3) as [ds rs r4|ds rs u r4| | |] eqn:El; try discriminate.
    + destruct (negb (size =? es_size_of fl url (DDcd a b c d0 e0 f0 g0 h0) (d2 :: ds) [])) eqn:Esz; [discriminate|]. injection H as <- <- <-.
      destruct (proj1 (loop_ok _ (desc_all F) _ _ _ _ Hok3) _ _ _ El) as (Hok4 & x3 & -> & Henc3 & Hloc3).
      split; [assumption|]. split; [reflexivity|].
      exists (be_enc 4 vf ++ [3] ++ raw ++ W ++ x1 ++ x2 ++ x3). split.
      { cbn [body_leaf tl hd]. rewrite Henc1. cbn [enc_descs]. rewrite Henc2. rewrite <- (app_nil_r rs), Henc3.
        rewrite Hvfj. unfold W, wr_es_fields. repeat rewrite <- app_assoc. cbn [app]. rewrite !app_nil_r. reflexivity. }
      split; [repeat rewrite <- app_assoc; reflexivity|].
      intros G. cbn [leaf_guard] in G. unfold esds_canon in G.
      apply andb_true_iff in G. destruct G as [G Gu]. apply andb_true_iff in G. destruct G as [G Gcs].
      apply andb_true_iff in G. destruct G as [Geq Gd]. apply rsv_eqb0_eq in Geq.
      split; [exact Geq|]. cbn [forallb] in Gcs. apply andb_true_iff in Gcs. destruct Gcs as [Gd2 Gds].
      intros rr. unfold dec_esds_in, pbind. repeat rewrite <- app_assoc. rewrite rd_enc by assumption. cbv beta zeta. fold F.
      cbn [app N.eqb Pos.eqb negb]. rewrite Hreps, Hlocf. fold W. rewrite HW.
      replace (W ++ x1 ++ x2 ++ x3 ++ rr) with (W ++ x1 ++ (x2 ++ x3 ++ rr)) by reflexivity.
      rewrite (Hloc1 Gd). rewrite HW1, (Hloc2 Gd2), HW2, (Hloc3 Gds), Esz. reflexivity.
    + injection H as <- <- <-.
      destruct (proj2 (loop_ok _ (desc_all F) _ _ _ _ Hok3) _ _ _ _ El) as (Hok4 & Hu & x3 & -> & Henc3).
      split; [assumption|]. split; [reflexivity|].
      exists (be_enc 4 vf ++ [3] ++ raw ++ W ++ x1 ++ x2 ++ x3 ++ u). split.
      { cbn [body_leaf tl hd]. rewrite Henc1. cbn [enc_descs]. rewrite Henc2. rewrite <- (app_nil_r rs), Henc3.
        rewrite Hvfj. unfold W, wr_es_fields. repeat rewrite <- app_assoc. cbn [app]. reflexivity. }
      split; [repeat rewrite <- app_assoc; reflexivity|].
      intros G. exfalso. cbn [leaf_guard] in G. unfold esds_canon in G. apply andb_true_iff in G. destruct G as [_ Gu].
      apply N.eqb_eq in Gu. apply Hu. destruct u; [reflexivity|]. rewrite lenN_cons in Gu. lia.
  - destruct ((int64 size - Z.of_N (lenN W + lenN x1) <? 0)%Z) eqn:Eneg; [discriminate|].
    destruct (rdB (Z.to_N (int64 size - Z.of_N (lenN W + lenN x1))) r2) as [[u r3]| | |] eqn:Eu; try discriminate.
    injection H as <- <- <-. destruct (rdB_spec _ _ _ _ Hok2 Eu) as (-> & Hlu & _ & Hok3).
    split; [assumption|]. split; [reflexivity|].
    exists (be_enc 4 vf ++ [3] ++ raw ++ W ++ x1 ++ u). split.
    { cbn [body_leaf tl hd]. rewrite <- (app_nil_r rs1), Henc1. cbn [enc_descs].
      rewrite Hvfj. unfold W, wr_es_fields. repeat rewrite <- app_assoc. cbn [app]. reflexivity. }
    split; [repeat rewrite <- app_assoc; reflexivity|].
    intros G. cbn [leaf_guard] in G. unfold esds_canon in G.
    apply andb_true_iff in G. destruct G as [G Gu]. apply andb_true_iff in G. destruct G as [G Gcs].
    apply andb_true_iff in G. destruct G as [Geq Gd]. apply rsv_eqb0_eq in Geq.
    split; [exact Geq|]. apply N.eqb_eq in Gu.
    assert (Hu0 : u = []) by (destruct u; [reflexivity|rewrite lenN_cons in Gu; lia]). subst u.
    change (lenN (@nil N)) with 0 in Hlu. apply Z.ltb_ge in Eneg.
    assert (Hz : (int64 size - Z.of_N (lenN W + lenN x1))%Z = 0%Z) by lia.
    intros rr. unfold dec_esds_in, pbind. repeat rewrite <- app_assoc. rewrite rd_enc by assumption. cbv beta zeta. fold F.
    cbn [app N.eqb Pos.eqb negb]. rewrite Hreps, Hlocf. fold W. rewrite HW.
    rewrite (Hloc1 Gd). rewrite HW1. rewrite Hz. change (dec_desc F 0 rr) with DSoft. cbv beta iota. change ((0 <? 0)%Z) with false. cbv iota.
    change (Z.to_N 0) with 0. rewrite (rdB_app [] rr : rdB 0 rr = Ok ([], rr)). reflexivity.
Qed.

Lemma esds_name_in h r l rsv r' : dec_esds_in h r = Ok ((l, rsv), r') -> leaf_name l = n_esds.
Proof.
  intros H. unfold dec_esds_in in H. apply pbind_ok in H. destruct H as (vf & r0 & _ & H). cbv beta zeta in H.
  destruct r0 as [|tag t]; [discriminate|]. destruct (negb (tag =? 3)); [discriminate|].
  destruct (sz_loop t 0) as [[[[nb size] raw] rA]| | |]; try discriminate.
  destruct (rd_es_fields rA) as [[[[[[esid fl] dep] url] ocr] r1]| | |]; try discriminate.
  destruct (dec_desc _ _ r1) as [dcd rs1 r2| | |]; try discriminate. destruct dcd; try discriminate.
  destruct (dec_desc _ _ r2) as [d2 rs2 r3| | |]; try discriminate.
  - destruct (dec_loop _ _ _ _ r3) as [ds rs r4|ds rs u r4| | |]; try discriminate.
    + destruct (negb _); [discriminate|]. injection H as <- _ _. reflexivity.
    + injection H as <- _ _. reflexivity.
  - destruct (_ <? 0)%Z; [discriminate|]. destruct (rdB _ r2) as [[u r3]| | |]; try discriminate.
    injection H as <- _ _. reflexivity.
Qed.

Lemma esds_is_in h r l rsv r' : dec_esds_in h r = Ok ((l, rsv), r') ->
  match l with LEsds _ _ _ _ _ _ _ _ _ _ _ _ => True | _ => False end.
Proof.
  intros H. unfold dec_esds_in in H. apply pbind_ok in H. destruct H as (vf & r0 & _ & H). cbv beta zeta in H.
  destruct r0 as [|tag t]; [discriminate|]. destruct (negb (tag =? 3)); [discriminate|].
  destruct (sz_loop t 0) as [[[[nb size] raw] rA]| | |]; try discriminate.
  destruct (rd_es_fields rA) as [[[[[[esid fl] dep] url] ocr] r1]| | |]; try discriminate.
  destruct (dec_desc _ _ r1) as [dcd rs1 r2| | |]; try discriminate. destruct dcd; try discriminate.
  destruct (dec_desc _ _ r2) as [d2 rs2 r3| | |]; try discriminate.
  - destruct (dec_loop _ _ _ _ r3) as [ds rs r4|ds rs u r4| | |]; try discriminate.
    + destruct (negb _); [discriminate|]. injection H as <- _ _. exact I.
    + injection H as <- _ _. exact I.
  - destruct (_ <? 0)%Z; [discriminate|]. destruct (rdB _ r2) as [[u r3]| | |]; try discriminate.
    injection H as <- _ _. exact I.
Qed.


(* DecodeEsdsSR (since repo commit 27ea537): the run above on a reader over the payload of the box *)
Lemma esds_unwrap h r x r' : bytes_ok r = true -> dec_esds h r = Ok (x, r') ->
  exists data rest extra, r = data ++ rest /\ lenN data = payload_len h /\ bytes_ok data = true /\ bytes_ok rest = true /\
    dec_esds_in h data = Ok (x, extra) /\ r' = extra ++ rest.
Proof.
  intros Hok H. unfold dec_esds in H.
  destruct (rdB (payload_len h) r) as [[data rest]| | |] eqn:Ed; try discriminate.
  destruct (rdB_spec _ _ _ _ Hok Ed) as (-> & Hl & Hokd & Hokr).
  destruct (dec_esds_in h data) as [[x0 extra]| | |] eqn:Ei; try discriminate.
  injection H as <- <-. exists data, rest, extra. repeat split; assumption.
Qed.

Lemma esds_core h r l rsv r' : bytes_ok r = true -> dec_esds h r = Ok ((l, rsv), r') ->
  bytes_ok r' = true /\ leaf_name l = n_esds /\ exists b, body_leaf l rsv = Ok b /\ r = b ++ r' /\
    (leaf_guard l = true -> rsv = dflt_rsv l /\
       forall r2, payload_len h = lenN b -> dec_esds h (b ++ r2) = Ok ((l, rsv), r2)).
Proof.
  intros Hok H. destruct (esds_unwrap _ _ _ _ Hok H) as (data & rest & extra & -> & Hl & Hokd & Hokr & Ei & ->).
  destruct (esds_core_in _ _ _ _ _ Hokd Ei) as (Hoke & Hn & b & Hb & -> & Hg).
  split. { rewrite bytes_ok_app, Hoke, Hokr. reflexivity. }
  split; [exact Hn|]. exists b. split; [exact Hb|]. split; [now rewrite <- app_assoc|].
  intros G. destruct (Hg G) as [Hd Hrep]. split; [exact Hd|].
  intros r2 Hp. unfold dec_esds. rewrite Hp, rdB_app.
  specialize (Hrep []). rewrite app_nil_r in Hrep. rewrite Hrep. reflexivity.
Qed.

Lemma lossless_esds : leaf_lossless dec_esds.
Proof.
  intros h r l rsv r' Hok H G. destruct (esds_core _ _ _ _ _ Hok H) as (Hok' & _ & b & Hb & Hr & _).
  exists b. now repeat split.
Qed.

Lemma esds_in_of h r x r' : dec_esds h r = Ok (x, r') -> exists data extra, dec_esds_in h data = Ok (x, extra).
Proof.
  intros H. unfold dec_esds in H. destruct (rdB (payload_len h) r) as [[data rest]| | |]; try discriminate.
  destruct (dec_esds_in h data) as [[x0 extra]| | |] eqn:Ei; try discriminate.
  injection H as <- _. now exists data, extra.
Qed.
Lemma esds_name h r l rsv r' : dec_esds h r = Ok ((l, rsv), r') -> leaf_name l = n_esds.
Proof. intros H. destruct (esds_in_of _ _ _ _ H) as (d & e & Hi). exact (esds_name_in _ _ _ _ _ Hi). Qed.
Lemma esds_is h r l rsv r' : dec_esds h r = Ok ((l, rsv), r') ->
  match l with LEsds _ _ _ _ _ _ _ _ _ _ _ _ => True | _ => False end.
Proof. intros H. destruct (esds_in_of _ _ _ _ H) as (d & e & Hi). exact (esds_is_in _ _ _ _ _ Hi). Qed.

(* ---------------------------------------------------------------- Size() of the descriptors = bytes written *)
Lemma enc_desc_len : forall d tl, exists x, enc_desc d (dflt_desc d ++ tl) = (x, tl) /\ lenN x = desc_sizesize d.
Proof.
  induction d as [nb ot st buf maxbr avgbr cs u IH|nb dc|nb cv more|tag nb data] using desc_ind2; intros t0.
  - assert (Hcs : forall t1, exists y, enc_descs cs (dflt_descs cs ++ t1) = (y, t1) /\ lenN y = sizes_sum cs).
    { clear -IH. induction cs as [|c t IHt]; intros t1; [exists []; split; reflexivity|].
      inversion IH as [|? ? Hc Ht]; subst. unfold dflt_descs. cbn [flat_map enc_descs]. rewrite <- app_assoc.
      destruct (Hc (flat_map dflt_desc t ++ t1)) as (x & -> & Hx). destruct (IHt Ht t1) as (y & Hy & Hly).
      unfold dflt_descs in Hy. rewrite Hy. exists (x ++ y). split; [reflexivity|].
      unfold sizes_sum in *. cbn [map sumN]. rewrite lenN_app. lia. }
    rewrite enc_desc_dcd, dflt_desc_dcd. cbn [app tl hd]. destruct (Hcs t0) as (y & -> & Hy).
    eexists. split; [reflexivity|]. unfold desc_sizesize. cbn [desc_nb]. rewrite desc_size_dcd.
    repeat (rewrite lenN_cons || rewrite lenN_app). rewrite !lenN_be_enc, lenN_wr_size, N2Nat.id, Hy. change (lenN (@nil N)) with 0. lia.
  - cbn [dflt_desc enc_desc app tl hd desc_nb desc_size_of]. eexists. split; [reflexivity|].
    unfold desc_sizesize. cbn [desc_nb desc_size_of]. repeat (rewrite lenN_cons || rewrite lenN_app). rewrite lenN_wr_size, N2Nat.id. change (lenN (@nil N)) with 0. lia.
  - cbn [dflt_desc enc_desc app tl hd desc_nb desc_size_of]. eexists. split; [reflexivity|].
    unfold desc_sizesize. cbn [desc_nb desc_size_of]. repeat (rewrite lenN_cons || rewrite lenN_app). rewrite lenN_wr_size, N2Nat.id. change (lenN (@nil N)) with 0. lia.
  - cbn [dflt_desc enc_desc app tl hd desc_nb desc_size_of]. eexists. split; [reflexivity|].
    unfold desc_sizesize. cbn [desc_nb desc_size_of]. repeat (rewrite lenN_cons || rewrite lenN_app). rewrite lenN_wr_size, N2Nat.id. change (lenN (@nil N)) with 0. lia.
Qed.

Lemma enc_descs_len cs : forall t1, exists y, enc_descs cs (dflt_descs cs ++ t1) = (y, t1) /\ lenN y = sizes_sum cs.
Proof.
  induction cs as [|c t IHt]; intros t1; [exists []; split; reflexivity|].
  unfold dflt_descs. cbn [flat_map enc_descs]. rewrite <- app_assoc.
  destruct (enc_desc_len c (flat_map dflt_desc t ++ t1)) as (x & -> & Hx). destruct (IHt t1) as (y & Hy & Hly).
  unfold dflt_descs in Hy. rewrite Hy. exists (x ++ y). split; [reflexivity|].
  unfold sizes_sum in *. cbn [map sumN]. rewrite lenN_app. lia.
Qed.

Lemma esds_body_len v f nb esid fl dep url ocr dcd cs u canon b :
  body_leaf (LEsds v f nb esid fl dep url ocr dcd cs u canon) (esds_dflt nb fl url dcd cs u) = Ok b ->
  lenN b = 4 + (1 + sfs_of nb + 1 + es_size_of fl url dcd cs u).
Proof.
  unfold esds_dflt. cbn [body_leaf tl hd].
  destruct (enc_desc_len dcd (dflt_descs cs)) as (x & -> & Hx).
  destruct (enc_descs_len cs []) as (y & Hy & Hly). rewrite app_nil_r in Hy. rewrite Hy.
  intros H. injection H as <-. unfold es_size_of, es_opt_size.
  repeat (rewrite lenN_cons || rewrite lenN_app). rewrite !lenN_be_enc, lenN_wr_size, N2Nat.id, Hx, Hly. change (lenN (@nil N)) with 0.
  destruct (fl / 128 =? 1), ((fl / 64) mod 2 =? 1), ((fl / 32) mod 2 =? 1);
    rewrite ?lenN_app, ?lenN_be_enc; change (lenN (@nil N)) with 0; lia.
Qed.
