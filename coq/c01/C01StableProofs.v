(* C01StableProofs.v — print-then-parse per leaf kind: re-encoding a decoded leaf with the encoder's values in the
   reserved places (dflt_rsv) and decoding again gives the same leaf, whose captured bytes are now the encoder's.
   For the kinds without reserved bytes this follows from losslessness + locality (C01LocalProofs); for the
   kinds with reserved bytes (mvhd tkhd sidx mdhd hdlr tenc smhd tfra avcC colr elng, Visual/AudioSampleEntry)
   the decoder is replayed on the new bytes.  Every kind also fills exactly Size() bytes (C01SizeProofs). *)
From V.lib Require Import Base.
From V.c01 Require Import C01Codec C01Model C01LeafProofs C01Leaf2Proofs C01Leaf3Proofs C01Leaf4Proofs C01Leaf5Proofs C01Leaf6Proofs
  C01TableProofs C01TreeProofs C01SizeProofs C01LocalProofs C01EsdsProofs C01SgpdProofs.

(* the header seen at decode is the one the encoder writes (what exact_box asks of a leaf) *)
Definition hdr_fits (h : hdr) (l : leaf) : Prop :=
  h_size h = size_leaf l /\ h_len h = (if leaf_large l then 16 else 8) /\ h_size h < 18446744073709551616.

Definition stable_concl (d : hdr -> parser (leaf * rsvT)) (h : hdr) (r : list N) (l : leaf) (r' : list N) : Prop :=
  exists b', body_leaf l (dflt_rsv l) = Ok b' /\ lenN b' + lenN r' = lenN r /\
             lenN b' + (if leaf_large l then 16 else 8) = size_leaf l /\
             forall r2, d h (b' ++ r2) = Ok ((l, dflt_rsv l), r2).

Definition leaf_stable (d : hdr -> parser (leaf * rsvT)) : Prop :=
  forall h r l rsv r', bytes_ok r = true -> lenN (h_name h) = 4 -> d h r = Ok ((l, rsv), r') ->
    leaf_guard l = true -> hdr_fits h l -> (leaf_name l <> n_mdat -> h_size h <= lenN r + h_len h) ->
    stable_concl d h r l r'.

(* prefixes of stsd, dref, sample entries: the header size covers the children too, nothing is asked of it *)
Definition pre_stable (d : hdr -> parser (leaf * rsvT)) : Prop :=
  forall h r l rsv r', bytes_ok r = true -> lenN (h_name h) = 4 -> d h r = Ok ((l, rsv), r') ->
    leaf_guard l = true -> stable_concl d h r l r'.

Definition norsv (d : hdr -> parser (leaf * rsvT)) : Prop :=
  forall h r l rsv r', d h r = Ok ((l, rsv), r') -> rsv = dflt_rsv l.
Definition sized (d : hdr -> parser (leaf * rsvT)) : Prop :=
  forall h r l rsv r', bytes_ok r = true -> lenN (h_name h) = 4 -> d h r = Ok ((l, rsv), r') ->
    leaf_guard l = true -> hdr_fits h l -> leaf_size_guard l = true.
Definition psized (d : hdr -> parser (leaf * rsvT)) : Prop :=
  forall h r l rsv r', bytes_ok r = true -> lenN (h_name h) = 4 -> d h r = Ok ((l, rsv), r') ->
    leaf_size_guard l = true.

Lemma psized_sized d : psized d -> sized d.
Proof. intros H h r l rsv r' Hok Hn E _ _. exact (H _ _ _ _ _ Hok Hn E). Qed.

Lemma body_size l b : body_leaf l (dflt_rsv l) = Ok b -> leaf_size_guard l = true ->
  lenN b + (if leaf_large l then 16 else 8) = size_leaf l.
Proof.
  intros Hb G. assert (Hr : raw_leaf l (dflt_rsv l) = Ok (leaf_hdr l ++ b)) by (unfold raw_leaf; now rewrite Hb).
  pose proof (leaf_size _ _ Hr G) as Hl. pose proof (leaf_name_len l G) as Hn.
  unfold leaf_hdr, enc_hdr, enc_hdr_large in Hl. destruct (leaf_large l);
    rewrite !lenN_app, !lenN_be_enc, Hn in Hl; lia.
Qed.

Lemma stable_of_local d : leaf_lossless d -> (forall h, local (d h)) -> norsv d -> sized d -> leaf_stable d.
Proof.
  intros Hl Hloc Hn Hs h r l rsv r' Hok Hnm H G Hf _.
  pose proof (Hs _ _ _ _ _ Hok Hnm H G Hf) as Hg.
  pose proof (Hn _ _ _ _ _ H) as ->.
  destruct (Hl _ _ _ _ _ Hok H G) as (b & Hb & -> & Hokr').
  exists b. split; [exact Hb|]. split; [now rewrite lenN_app|]. split; [now apply body_size|].
  destruct (Hloc h _ _ _ H) as (x & Hx & Hall). apply app_inv_tail in Hx. subst x. exact Hall.
Qed.

Lemma pre_stable_of_local d : leaf_lossless d -> (forall h, local (d h)) -> norsv d -> psized d -> pre_stable d.
Proof.
  intros Hl Hloc Hn Hs h r l rsv r' Hok Hnm H G.
  pose proof (Hs _ _ _ _ _ Hok Hnm H) as Hg.
  pose proof (Hn _ _ _ _ _ H) as ->.
  destruct (Hl _ _ _ _ _ Hok H G) as (b & Hb & -> & Hokr').
  exists b. split; [exact Hb|]. split; [now rewrite lenN_app|]. split; [now apply body_size|].
  destruct (Hloc h _ _ _ H) as (x & Hx & Hall). apply app_inv_tail in Hx. subst x. exact Hall.
Qed.

(* ---------------------------------------------------------------- no captured bytes *)
Ltac nors := intros h r l rsv r' H; cbv beta delta [dec_ftyp dec_free dec_empty dec_b4 dec_mime dec_data dec_mfhd dec_tfhd dec_tfdt dec_trun dec_trex dec_stts
  dec_stsc dec_stsz dec_tab dec_sdtp dec_ctts dec_elst dec_saiz dec_saio dec_sbgp dec_prft dec_frma dec_vmhd dec_fullonly
  dec_mfro dec_mehd dec_pssh dec_url dec_btrt dec_pasp dec_clap dec_schm dec_cslg dec_senc dec_emsg dec_kind dec_stsd dec_dref
  dec_subs] in H;
  nrun H; unfold pret in H; injection H; intros; subst; reflexivity.

Lemma norsv_ftyp : norsv dec_ftyp. Proof. nors. Qed.
Lemma norsv_free : norsv dec_free. Proof. nors. Qed.
Lemma norsv_empty : norsv dec_empty. Proof. nors. Qed.
Lemma norsv_b4 : norsv dec_b4. Proof. nors. Qed.
Lemma norsv_mime : norsv dec_mime. Proof. nors. Qed.
Lemma norsv_data : norsv dec_data. Proof. nors. Qed.
Lemma norsv_mfhd : norsv dec_mfhd. Proof. nors. Qed.
Lemma norsv_tfhd : norsv dec_tfhd. Proof. nors. Qed.
Lemma norsv_tfdt : norsv dec_tfdt. Proof. nors. Qed.
Lemma norsv_trun : norsv dec_trun. Proof. nors. Qed.
Lemma norsv_trex : norsv dec_trex. Proof. nors. Qed.
Lemma norsv_stts : norsv dec_stts. Proof. nors. Qed.
Lemma norsv_stsc : norsv dec_stsc. Proof. nors. Qed.
Lemma norsv_stsz : norsv dec_stsz. Proof. nors. Qed.
Lemma norsv_tab w : norsv (dec_tab w). Proof. nors. Qed.
Lemma norsv_sdtp : norsv dec_sdtp. Proof. nors. Qed.
Lemma norsv_ctts : norsv dec_ctts. Proof. nors. Qed.
Lemma norsv_elst : norsv dec_elst. Proof. nors. Qed.
Lemma norsv_saiz : norsv dec_saiz. Proof. nors. Qed.
Lemma norsv_saio : norsv dec_saio. Proof. nors. Qed.
Lemma norsv_sbgp : norsv dec_sbgp. Proof. nors. Qed.
Lemma norsv_prft : norsv dec_prft. Proof. nors. Qed.
Lemma norsv_frma : norsv dec_frma. Proof. nors. Qed.
Lemma norsv_vmhd : norsv dec_vmhd. Proof. nors. Qed.
Lemma norsv_fullonly : norsv dec_fullonly. Proof. nors. Qed.
Lemma norsv_mfro : norsv dec_mfro. Proof. nors. Qed.
Lemma norsv_mehd : norsv dec_mehd. Proof. nors. Qed.
Lemma norsv_pssh : norsv dec_pssh. Proof. nors. Qed.
Lemma norsv_url : norsv dec_url. Proof. nors. Qed.
Lemma norsv_btrt : norsv dec_btrt. Proof. nors. Qed.
Lemma norsv_pasp : norsv dec_pasp. Proof. nors. Qed.
Lemma norsv_clap : norsv dec_clap. Proof. nors. Qed.
Lemma norsv_schm : norsv dec_schm. Proof. nors. Qed.
Lemma norsv_cslg : norsv dec_cslg. Proof. nors. Qed.
Lemma norsv_senc : norsv dec_senc. Proof. nors. Qed.
Lemma norsv_emsg : norsv dec_emsg. Proof. nors. Qed.
Lemma norsv_kind : norsv dec_kind. Proof. nors. Qed.
Lemma norsv_stsd : norsv dec_stsd. Proof. nors. Qed.
Lemma norsv_dref : norsv dec_dref. Proof. nors. Qed.
Lemma norsv_subs : norsv dec_subs. Proof. nors. Qed.

(* ---------------------------------------------------------------- decoded leaves satisfy the size guard of C02 *)
Ltac pows := change (256 ^ N.of_nat 4) with 4294967296 in *; change (256 ^ N.of_nat 1) with 256 in *;
             change (256 ^ N.of_nat 2) with 65536 in *.
Ltac triv_sized := intros h r l rsv r' _ _ H; cbv beta delta [dec_mfhd dec_tfhd dec_tfdt dec_trex dec_stsc dec_sdtp dec_prft
  dec_vmhd dec_mfro dec_mehd dec_url dec_btrt dec_pasp dec_clap dec_cslg dec_emsg dec_kind dec_stsd dec_dref
  dec_mvhd dec_tkhd dec_sidx dec_mdhd dec_smhd dec_subs] in H;
  nrun H; unfold pret in H; injection H; intros; subst; reflexivity.

Lemma psized_mfhd : psized dec_mfhd. Proof. triv_sized. Qed.
Lemma psized_tfhd : psized dec_tfhd. Proof. triv_sized. Qed.
Lemma psized_tfdt : psized dec_tfdt. Proof. triv_sized. Qed.
Lemma psized_trex : psized dec_trex. Proof. triv_sized. Qed.
Lemma psized_stsc : psized dec_stsc. Proof. triv_sized. Qed.
Lemma psized_sdtp : psized dec_sdtp. Proof. triv_sized. Qed.
Lemma psized_prft : psized dec_prft. Proof. triv_sized. Qed.
Lemma psized_vmhd : psized dec_vmhd. Proof. triv_sized. Qed.
Lemma psized_mfro : psized dec_mfro. Proof. triv_sized. Qed.
Lemma psized_mehd : psized dec_mehd. Proof. triv_sized. Qed.
Lemma psized_url : psized dec_url. Proof. triv_sized. Qed.
Lemma psized_btrt : psized dec_btrt. Proof. triv_sized. Qed.
Lemma psized_pasp : psized dec_pasp. Proof. triv_sized. Qed.
Lemma psized_clap : psized dec_clap. Proof. triv_sized. Qed.
Lemma psized_cslg : psized dec_cslg. Proof. triv_sized. Qed.
Lemma psized_emsg : psized dec_emsg. Proof. triv_sized. Qed.
Lemma psized_kind : psized dec_kind. Proof. triv_sized. Qed.
Lemma psized_stsd : psized dec_stsd. Proof. triv_sized. Qed.
Lemma psized_dref : psized dec_dref. Proof. triv_sized. Qed.
Lemma psized_mvhd : psized dec_mvhd. Proof. triv_sized. Qed.
Lemma psized_tkhd : psized dec_tkhd. Proof. triv_sized. Qed.
Lemma psized_sidx : psized dec_sidx. Proof. triv_sized. Qed.
Lemma psized_mdhd : psized dec_mdhd. Proof. triv_sized. Qed.
Lemma psized_smhd : psized dec_smhd. Proof. triv_sized. Qed.
Lemma psized_subs : psized dec_subs. Proof. triv_sized. Qed.

Ltac rew_bools :=
  repeat match goal with
         | Hc : ?c = true |- context [?c] => rewrite Hc
         | Hc : ?c = false |- context [?c] => rewrite Hc
         end.
Ltac eq4 := apply N.eqb_eq; assumption.
Ltac cnt_lt := apply N.ltb_lt; pows; lia.

Lemma psized_ftyp : psized dec_ftyp.
Proof. intros h r l rsv r' Hok Hnm H. unfold dec_ftyp in H. run H. inj_pret H. cbn [leaf_size_guard]. eq4. Qed.
Lemma psized_free : psized dec_free.
Proof. intros h r l rsv r' Hok Hnm H. unfold dec_free in H. run H. inj_pret H. cbn [leaf_size_guard]. eq4. Qed.
Lemma psized_empty : psized dec_empty.
Proof. intros h r l rsv r' Hok Hnm H. unfold dec_empty in H. inj_pret H. cbn [leaf_size_guard]. eq4. Qed.
Lemma psized_data : psized dec_data.
Proof. intros h r l rsv r' Hok Hnm H. unfold dec_data in H. run H. inj_pret H. reflexivity. Qed.
Lemma psized_mime : psized dec_mime.
Proof. intros h r l rsv r' Hok Hnm H. unfold dec_mime in H. run H; inj_pret H; reflexivity. Qed.
Lemma psized_wvtt : psized dec_wvtt.
Proof.
  intros h r l rsv r' Hok Hnm H. unfold dec_wvtt in H.
  destruct (rdB 6 r) as [[r6 r1]| | |]; [destruct (rd 2 r1) as [[dri r2]| | |]|..];
    try (destruct (16 <? h_size h); [discriminate H|]); injection H as <- _ _; reflexivity.
Qed.
Lemma psized_b4 : psized dec_b4.
Proof. intros h r l rsv r' Hok Hnm H. unfold dec_b4 in H. run H. inj_pret H. cbn [leaf_size_guard]. eq4. Qed.
Lemma psized_frma : psized dec_frma.
Proof. intros h r l rsv r' Hok Hnm H. unfold dec_frma in H. run H. inj_pret H. cbn [leaf_size_guard]. eq4. Qed.
Lemma psized_fullonly : psized dec_fullonly.
Proof. intros h r l rsv r' Hok Hnm H. unfold dec_fullonly in H. run H. inj_pret H. cbn [leaf_size_guard]. eq4. Qed.
Lemma psized_schm : psized dec_schm.
Proof. intros h r l rsv r' Hok Hnm H. unfold dec_schm in H. run H.
  - apply pbind_ok in H. destruct H as (s & r1 & _ & H). inj_pret H. cbn [leaf_size_guard]. eq4.
  - inj_pret H. cbn [leaf_size_guard]. eq4.
Qed.
Lemma psized_hdlr : psized dec_hdlr.
Proof. intros h r l rsv r' Hok Hnm H. unfold dec_hdlr in H. run H; inj_pret H; reflexivity. Qed.   (* no guard since repo commit 3502d85 *)
Lemma psized_audio : psized dec_audio.
Proof. intros h r l rsv r' Hok Hnm H. unfold dec_audio in H. run H. inj_pret H. cbn [leaf_size_guard]. eq4. Qed.
Lemma psized_visual : psized dec_visual.
Proof.
  intros h r l rsv r' Hok Hnm H. unfold dec_visual in H. run H. inj_pret H. cbn [leaf_size_guard].
  apply andb_true_iff. split; [eq4|]. apply N.leb_le. apply N.ltb_ge in Hc. lia.
Qed.
Lemma psized_colr : psized dec_colr.
Proof. intros h r l rsv r' Hok Hnm H. unfold dec_colr in H. run H; inj_pret H; cbn [leaf_size_guard]; eq4. Qed.
Lemma psized_tenc : psized dec_tenc.
Proof. intros h r l rsv r' Hok Hnm H. unfold dec_tenc, rdB_if in H. run H; inj_pret H; cbn [leaf_size_guard]; eq4. Qed.

Lemma psized_trun : psized dec_trun.
Proof.
  intros h r l rsv r' Hok Hnm H. unfold dec_trun in H. run H;
    (tail_many H (item_tsample (vf_flags a)); inj_pret H; cbn [leaf_size_guard]; cnt_lt).
Qed.
Lemma psized_stts : psized dec_stts.
Proof.
  intros h r l rsv r' Hok Hnm H. unfold dec_stts in H. run H. tail_many H item_pair. inj_pret H.
  cbn [leaf_size_guard]. cnt_lt.
Qed.
Lemma psized_tab w : psized (dec_tab w).
Proof.
  intros h r l rsv r' Hok Hnm H. unfold dec_tab in H. run H. tail_many H (item_rd w). inj_pret H.
  cbn [leaf_size_guard]. apply andb_true_iff. split; [eq4|cnt_lt].
Qed.
Lemma psized_ctts : psized dec_ctts.
Proof.
  intros h r l rsv r' Hok Hnm H. unfold dec_ctts in H. run H. tail_many H item_pair. inj_pret H.
  cbn [leaf_size_guard]. replace (lenN (map snd es)) with (lenN es) by (unfold lenN; now rewrite map_length). cnt_lt.
Qed.
Lemma psized_elst : psized dec_elst.
Proof.
  intros h r l rsv r' Hok Hnm H. unfold dec_elst in H. run H.
  tail_many H (item_elst (if vf_version a =? 1 then 8%nat else 4%nat)). inj_pret H. cbn [leaf_size_guard]. cnt_lt.
Qed.
Lemma psized_sbgp : psized dec_sbgp.
Proof.
  intros h r l rsv r' Hok Hnm H. unfold dec_sbgp in H. run H;
    (tail_many H item_pair; inj_pret H; cbn [leaf_size_guard]; apply andb_true_iff; split; [eq4|cnt_lt]).
Qed.
Lemma psized_saio : psized dec_saio.
Proof.
  intros h r l rsv r' Hok Hnm H. unfold dec_saio, rdB_if in H. run H;
    (tail_many H (item_rd (if vf_version a =? 0 then 4%nat else 8%nat)); inj_pret H; cbn [leaf_size_guard];
     rew_bools; cbn [negb orb]; apply andb_true_iff; split; [first [reflexivity|eq4]|cnt_lt]).
Qed.
Lemma psized_tfra : psized dec_tfra.
Proof.
  intros h r l rsv r' Hok Hnm H. unfold dec_tfra in H. run H.
  tail_many H (item_tfra (tfra_w (vf_version a)) (tfra_n ((a1 / 16) mod 4)) (tfra_n ((a1 / 4) mod 4)) (tfra_n (a1 mod 4))).
  inj_pret H. cbn [leaf_size_guard]. cnt_lt.
Qed.
Lemma psized_stsz : psized dec_stsz.
Proof.
  intros h r l rsv r' Hok Hnm H. unfold dec_stsz in H. run H.
  - tail_many H (item_rd 4). inj_pret H. cbn [leaf_size_guard]. apply N.eqb_eq in Hc0. subst. cbn [N.ltb N.compare].
    apply N.eqb_refl.
  - inj_pret H. cbn [leaf_size_guard]. apply N.eqb_neq in Hc0. replace (0 <? a0) with true by (symmetry; apply N.ltb_lt; lia).
    reflexivity.
Qed.
Lemma psized_saiz : psized dec_saiz.
Proof.
  intros h r l rsv r' Hok Hnm H. unfold dec_saiz, rdB_if in H. run H.
  all: try (tail_many H (item_rd 1)); inj_pret H; cbn [leaf_size_guard]; rew_bools; cbn [negb orb andb];
    first [ reflexivity | eq4
          | apply N.leb_le; lia
          | apply andb_true_iff; split; [eq4|first [reflexivity|apply N.leb_le; lia]] ].
Qed.

(* ---------------------------------------------------------------- replaying a decoder on re-encoded bytes *)
Lemma rdB_lit x n r : lenN x = n -> rdB n (x ++ r) = Ok (x, r).
Proof. intros <-. apply rdB_app. Qed.

Lemma many_replay {A} (p : parser A) : local p -> progress p ->
  forall f cnt bs l r, rd_many f cnt p bs = Ok (l, r) ->
  exists x, bs = x ++ r /\ forall r2, rd_many (S (length (x ++ r2))) cnt p (x ++ r2) = Ok (l, r2).
Proof.
  intros Hp Hg f cnt bs l r E. destruct (many_local p Hp _ _ _ _ _ E) as (x & -> & _ & Hx).
  pose proof (many_len p Hp Hg _ _ _ _ _ E) as Hlen. exists x. split; [reflexivity|].
  intros r2. apply Hx. rewrite !app_length in *. lia.
Qed.

Ltac rp :=
  repeat (first [ rewrite rd_enc by (first [assumption | pows; lia])
                | rewrite rdB_lit by (first [assumption | reflexivity | pows; lia]) ]; cbv beta iota).

Ltac lensolve := repeat rewrite lenN_app; repeat rewrite lenN_be_enc; repeat rewrite lenN_zeros; rewrite ?lenN_unity;
  repeat rewrite lenN_cons; change (lenN (@nil N)) with 0; lia.

(* opening of every direct proof: the size guard, then the first run *)
Ltac open_stable Hps :=
  let Hg := fresh "Hg" in
  match goal with
  | Hok : bytes_ok ?r = true, Hnm : lenN (h_name ?h) = 4, H : ?d ?h ?r = Ok _ |- _ =>
      pose proof (Hps _ _ _ _ _ Hok Hnm H) as Hg
  end.

(* ---------------------------------------------------------------- sgpd *)
Lemma many_forall_ok {A} (p : parser A) (P : A -> Prop) :
  (forall bs a r, bytes_ok bs = true -> p bs = Ok (a, r) -> bytes_ok r = true /\ P a) ->
  forall f cnt bs l r, bytes_ok bs = true -> rd_many f cnt p bs = Ok (l, r) -> Forall P l.
Proof.
  intros Hp. induction f as [|f IH]; intros cnt bs l r Hok H; cbn [rd_many] in H.
  - destruct (cnt =? 0); [|discriminate]. injection H as <- <-. constructor.
  - destruct (cnt =? 0); [injection H as <- <-; constructor|].
    destruct (p bs) as [[a r1]| | |] eqn:E1; try discriminate.
    destruct (rd_many f (cnt - 1) p r1) as [[l' r']| | |] eqn:E2; try discriminate.
    injection H as <- <-. destruct (Hp _ _ _ Hok E1) as [Hok1 Ha]. constructor; [exact Ha|exact (IH _ _ _ _ Hok1 E2)].
Qed.

Lemma sgpd_facts h r l rsv r' : bytes_ok r = true -> dec_sgpd h r = Ok ((l, rsv), r') -> leaf_size_guard l = true.
Proof.
  intros Hok H. unfold dec_sgpd in H. do 2 step H.
  apply pbind_ok in H. destruct H as (dlen & r3 & Ed & H). cbv beta zeta in H.
  assert (Hd0 : (1 <=? vf_version a) = false -> dlen = 0).
  { intros Hv. rewrite Hv in Ed. unfold rd_if, pret in Ed. now injection Ed as <- _. }
  assert (Hok3 : bytes_ok r3 = true).
  { match type of Ed with _ ?x = _ => assert (Hk : bytes_ok x = true) by assumption end.
    unfold rd_if in Ed. destruct (1 <=? vf_version a); [now destruct (rd_spec _ _ _ _ Hk Ed) as (_ & _ & ?)|inj_pret Ed; assumption]. }
  clear Ed. apply pbind_ok in H. destruct H as (dgdi & r4 & Eg & H). cbv beta zeta in H.
  assert (Hok4 : bytes_ok r4 = true).
  { unfold rd_if in Eg. destruct (2 <=? vf_version a); [now destruct (rd_spec _ _ _ _ Hok3 Eg) as (_ & _ & ?)|inj_pret Eg; assumption]. }
  clear Eg. apply pbind_ok in H. destruct H as (cnt & r5 & Ec & H). cbv beta zeta in H.
  destruct (rd_spec _ _ _ _ Hok4 Ec) as (_ & _ & Hok5). clear Ec.
  apply pbind_ok in H. destruct H as (its & r6 & E & H). inj_pret H.
  pose proof (many_forall_ok _ (fun it => lenN (wr_sge (snd (fst it)) 0) = fst (fst it) /\
      (negb (dlen =? 0) = true -> fst (fst it) = dlen) /\ ((1 <=? vf_version a) = false -> dlen <> 0))
    (fun bs it r Hb Hp => let '(conj _ (conj p2 (conj p3 (conj _ (conj p5 p6))))) := item_sgpd _ _ _ bs it r Hb Hp in conj p2 (conj p3 (conj p5 p6)))
    _ _ _ _ _ Hok5 E) as HF.
  cbn [leaf_size_guard]. repeat (apply andb_true_iff; split).
  + apply N.eqb_eq. assumption.
  + apply forallb_forall. intros it Hin. apply in_map_iff in Hin. destruct Hin as (x & <- & Hxin).
    apply N.eqb_eq. exact (proj1 (proj1 (Forall_forall _ _) HF x Hxin)).
  + destruct (dlen =? 0) eqn:Ez; [reflexivity|]. cbn [orb]. apply forallb_forall. intros it Hin.
    apply in_map_iff in Hin. destruct Hin as (x & <- & Hxin). apply N.eqb_eq.
    exact (proj1 (proj2 (proj1 (Forall_forall _ _) HF x Hxin)) eq_refl).
  + destruct (1 <=? vf_version a) eqn:Ev; [reflexivity|]. cbn [orb]. apply N.eqb_eq.
    destruct its as [|x t]; [reflexivity|]. exfalso. inversion HF as [|? ? Hx0 _]; subst.
    exact (proj2 (proj2 Hx0) eq_refl (Hd0 eq_refl)).
Qed.

(* the reserved byte of the seig entries is captured; the encoder writes 0 and the decoder applied to that reads the same
   entries (sgpd_item_zero, many_zero): no guard *)
Lemma zero_items_combine (its : list ((N * sge) * N)) :
  combine (map fst its) (map (fun _ : N * sge => 0) (map fst its)) = map (fun it => (fst it, 0)) its.
Proof. induction its as [|[a b] t IH]; [reflexivity|]. cbn [map combine fst]. now rewrite IH. Qed.

Lemma lenN_items_rb dlen (items : list (N * sge)) : forall rs rs' : list N, length rs = length items -> length rs' = length items ->
  lenN (flat_map (wr_sgpd_item dlen) (combine items rs)) = lenN (flat_map (wr_sgpd_item dlen) (combine items rs')).
Proof.
  induction items as [|it t IH]; intros rs rs' H1 H2; [reflexivity|].
  destruct rs as [|a rs]; [discriminate|]. destruct rs' as [|a' rs']; [discriminate|]. cbn [combine flat_map].
  rewrite !lenN_app. f_equal; [|apply IH; cbn in *; lia].
  unfold wr_sgpd_item. cbn [fst snd]. rewrite !lenN_app. f_equal. now rewrite (lenN_wr_sge_rb _ a), (lenN_wr_sge_rb _ a').
Qed.

Lemma flat_map_len_ge {A} (wr : A -> list N) (z : A -> A) l : Forall (fun a => wr (z a) <> []) l ->
  (length l <= length (flat_map wr (map z l)))%nat.
Proof.
  induction 1 as [|a t Ha _ IH]; [cbn; lia|]. cbn [map flat_map length]. rewrite app_length.
  destruct (wr (z a)) as [|c w]; [contradiction|]. cbn [length]. lia.
Qed.

Lemma sgpd_item_nonempty v dlen gt bs it r : bytes_ok bs = true -> rd_sgpd_item v dlen gt bs = Ok (it, r) ->
  bytes_ok r = true /\ wr_sgpd_item dlen (fst it, 0) <> [].
Proof.
  intros Hok H. destruct (item_sgpd _ _ _ _ _ _ Hok H) as (_ & Hokr & Hl & Hne & _). split; [assumption|].
  unfold wr_sgpd_item. cbn [fst snd]. intros Hw. apply app_eq_nil in Hw. destruct Hw as [_ Hw]. rewrite Hw in Hl.
  change (lenN (@nil N)) with 0 in Hl. congruence.
Qed.

Lemma stable_sgpd : leaf_stable dec_sgpd.
Proof.
  intros h r l rsv r' Hok Hnm H G Hf _.
  pose proof (sgpd_facts _ _ _ _ _ Hok H) as Hsg.
  destruct (lossless_sgpd _ _ _ _ _ Hok H G) as (b & Hb & Hr & Hok').
  unfold dec_sgpd in H. do 2 step H.
  apply pbind_ok in H. destruct H as (dlen & r3 & Ed & H). cbv beta zeta in H.
  apply pbind_ok in H. destruct H as (dgdi & r4 & Eg & H). cbv beta zeta in H.
  apply pbind_ok in H. destruct H as (cnt & r5 & Ec & H). cbv beta zeta in H.
  apply pbind_ok in H. destruct H as (its & r6 & E & H). inj_pret H.
  assert (Hd : dlen < 256 ^ N.of_nat 4 /\ bytes_ok r3 = true).
  { match type of Ed with _ ?x = _ => assert (Hk : bytes_ok x = true) by assumption end.
    unfold rd_if in Ed. destruct (1 <=? vf_version a); [destruct (rd_spec _ _ _ _ Hk Ed) as (_ & ? & ?); now split|].
    inj_pret Ed. split; [change (256 ^ N.of_nat 4) with 4294967296; lia|assumption]. }
  destruct Hd as [Hdl Hok3].
  assert (Hg : dgdi < 256 ^ N.of_nat 4 /\ bytes_ok r4 = true).
  { unfold rd_if in Eg. destruct (2 <=? vf_version a); [destruct (rd_spec _ _ _ _ Hok3 Eg) as (_ & ? & ?); now split|].
    inj_pret Eg. split; [change (256 ^ N.of_nat 4) with 4294967296; lia|assumption]. }
  destruct Hg as [Hgl Hok4].
  destruct (rd_spec _ _ _ _ Hok4 Ec) as (_ & Hcl & Hok5).
  destruct (rd_many_spec _ (wr_sgpd_item dlen) (fun bs a r Hb Hp => let '(conj p1 (conj p2 _)) := item_sgpd _ _ _ bs a r Hb Hp in conj p1 p2) _ _ _ _ _ Hok5 E) as (_ & Hl & _).
  unfold stable_concl.
  eexists. split; [cbn [body_leaf dflt_rsv chunk nth]; reflexivity|].
  split.
  { cbn [body_leaf chunk nth] in Hb. injection Hb as <-. rewrite Hr. rewrite !lenN_app. f_equal. f_equal. f_equal. f_equal. f_equal. f_equal.
    apply lenN_items_rb; now rewrite !map_length. }
  split; [apply body_size; [reflexivity|exact Hsg]|].
  intros r2. unfold dec_sgpd, pbind. rewrite zero_items_combine.
  rewrite vf_join_split by assumption. repeat rewrite <- app_assoc.
  rewrite rd_enc by assumption. cbv beta iota zeta. rewrite (rdB_lit a0 4) by assumption. cbv beta iota.
  assert (Hcnt : lenN (map fst its) = cnt) by (unfold lenN; rewrite map_length; exact Hl).
  pose proof (many_forall_ok _ (fun it : (N * sge) * N => wr_sgpd_item dlen (fst it, 0) <> [])
                (sgpd_item_nonempty (vf_version a) dlen a0) _ _ _ _ _ Hok5 E) as Hne.
  pose proof (flat_map_len_ge (wr_sgpd_item dlen) (fun it => (fst it, 0)) its Hne) as Hge.
  assert (Hd0 : (1 <=? vf_version a) = false -> dlen = 0).
  { intros Hv. rewrite Hv in Ed. unfold rd_if, pret in Ed. now injection Ed as <- _. }
  assert (Hg0 : (2 <=? vf_version a) = false -> dgdi = 0).
  { intros Hv. rewrite Hv in Eg. unfold rd_if, pret in Eg. now injection Eg as <- _. }
  unfold rd_if, wr_if.
  destruct (1 <=? vf_version a) eqn:E1; destruct (2 <=? vf_version a) eqn:E2;
    try (assert (dlen = 0) by (apply Hd0; reflexivity); subst dlen);
    try (assert (dgdi = 0) by (apply Hg0; reflexivity); subst dgdi);
    repeat rewrite <- app_assoc; cbn [app];
    unfold pret; rewrite ?rd_enc by assumption; cbv beta iota;
    rewrite Hcnt; rewrite rd_enc by assumption; cbv beta iota;
    match goal with |- context [rd_many ?f cnt (rd_sgpd_item ?v ?dl ?g) (?x ++ r2)] =>
      rewrite (many_zero (rd_sgpd_item v dl g) (wr_sgpd_item dl) (fun it => (fst it, 0)) (sgpd_item_zero v dl g) _ _ _ _ _ Hok5 E f r2)
        by (rewrite app_length; lia) end;
    rewrite !map_map; cbn [fst snd dflt_rsv]; rewrite ?map_map; reflexivity.
Qed.

Lemma pstable_mvhd : pre_stable dec_mvhd.
Proof.
  intros h r l rsv r' Hok Hnm H G. pose proof (psized_mvhd _ _ _ _ _ Hok Hnm H) as Hg.
  unfold dec_mvhd in H. run H. inj_pret H. unfold stable_concl.
  eexists. split; [cbn [body_leaf dflt_rsv chunk nth]; reflexivity|].
  split; [lensolve|]. split; [apply body_size; [reflexivity|exact Hg]|].
  intros r2. unfold dec_mvhd, pbind. rewrite vf_join_split by assumption. repeat rewrite <- app_assoc. rp. reflexivity.
Qed.

Lemma pstable_tkhd : pre_stable dec_tkhd.
Proof.
  intros h r l rsv r' Hok Hnm H G. pose proof (psized_tkhd _ _ _ _ _ Hok Hnm H) as Hg.
  unfold dec_tkhd in H. run H. inj_pret H. unfold stable_concl.
  eexists. split; [cbn [body_leaf dflt_rsv chunk nth]; reflexivity|].
  split; [lensolve|]. split; [apply body_size; [reflexivity|exact Hg]|].
  intros r2. unfold dec_tkhd, pbind. rewrite vf_join_split by assumption. repeat rewrite <- app_assoc. rp. reflexivity.
Qed.

Lemma pstable_mdhd : pre_stable dec_mdhd.
Proof.
  intros h r l rsv r' Hok Hnm H G. pose proof (psized_mdhd _ _ _ _ _ Hok Hnm H) as Hg.
  unfold dec_mdhd in H. run H. inj_pret H. unfold stable_concl.
  eexists. split; [cbn [body_leaf dflt_rsv chunk nth]; reflexivity|].
  split; [lensolve|]. split; [apply body_size; [reflexivity|exact Hg]|].
  intros r2. unfold dec_mdhd, pbind. rewrite vf_join_split by assumption. repeat rewrite <- app_assoc. rp.
  rewrite Hc. rp. reflexivity.
Qed.

Lemma pstable_smhd : pre_stable dec_smhd.
Proof.
  intros h r l rsv r' Hok Hnm H G. pose proof (psized_smhd _ _ _ _ _ Hok Hnm H) as Hg.
  unfold dec_smhd in H. run H. inj_pret H. unfold stable_concl.
  eexists. split; [cbn [body_leaf dflt_rsv chunk nth]; reflexivity|].
  split; [lensolve|]. split; [apply body_size; [reflexivity|exact Hg]|].
  intros r2. unfold dec_smhd, pbind. rewrite vf_join_split by assumption. repeat rewrite <- app_assoc. rp. reflexivity.
Qed.

Lemma pstable_audio : pre_stable dec_audio.
Proof.
  intros h r l rsv r' Hok Hnm H G. pose proof (psized_audio _ _ _ _ _ Hok Hnm H) as Hg.
  unfold dec_audio in H. run H. inj_pret H. unfold stable_concl.
  eexists. split; [cbn [body_leaf dflt_rsv chunk nth]; reflexivity|].
  split; [lensolve|]. split; [apply body_size; [reflexivity|exact Hg]|].
  intros r2. unfold dec_audio, pbind. repeat rewrite <- app_assoc. rp. reflexivity.
Qed.

Lemma pstable_visual : pre_stable dec_visual.
Proof.
  intros h r l rsv r' Hok Hnm H G. pose proof (psized_visual _ _ _ _ _ Hok Hnm H) as Hg.
  unfold dec_visual in H. run H. inj_pret H. unfold stable_concl.
  assert (Hpad : vis_pad (lenN a9) = 31 - lenN a9).
  { apply N.ltb_ge in Hc. unfold vis_pad, u8. rewrite (N.mod_small (lenN a9)) by lia.
    rewrite <- (N.mod_unique (31 + 256 - lenN a9) 256 1 (31 - lenN a9)); lia. }
  eexists. split; [cbn [body_leaf dflt_rsv chunk nth]; reflexivity|].
  split; [repeat rewrite lenN_app; repeat rewrite lenN_be_enc; repeat rewrite lenN_zeros; rewrite N2Nat.id, Hpad;
          repeat rewrite lenN_cons; change (lenN (@nil N)) with 0; lia|].
  split; [apply body_size; [reflexivity|exact Hg]|].
  intros r2. unfold dec_visual, pbind. repeat rewrite <- app_assoc. rp.
  rewrite Hc. rp.
  rewrite (rdB_lit (zeros (N.to_nat (vis_pad (lenN a9))))) by (rewrite lenN_zeros, N2Nat.id; exact Hpad). cbv beta iota.
  change ([0; 24] ++ [255; 255] ++ r2) with ([0; 24] ++ ([255; 255] ++ r2)).
  rewrite (rdB_lit [0; 24]) by reflexivity. cbv beta iota. rewrite (rdB_lit [255; 255]) by reflexivity. reflexivity.
Qed.

Lemma pstable_hdlr : pre_stable dec_hdlr.
Proof.
  intros h r l rsv r' Hok Hnm H G. pose proof (psized_hdlr _ _ _ _ _ Hok Hnm H) as Hg.
  unfold dec_hdlr in H. run H; inj_pret H; unfold stable_concl.
  - apply N.eqb_eq in Hc0.
    assert (Hne : a3 <> []) by (intros ->; cbn in Hlen1; apply N.ltb_lt in Hc; lia).
    pose proof (last_removelast a3 Hne) as Ha3. rewrite Hc0 in Ha3.
    set (nm := removelast a3) in *. clearbody nm. subst a3.
    eexists. split; [cbn [body_leaf dflt_rsv chunk nth]; reflexivity|].
    split; [lensolve|]. split; [apply body_size; [reflexivity|exact Hg]|].
    intros r2. unfold dec_hdlr, pbind. rewrite vf_join_split by assumption. repeat rewrite <- app_assoc. rp.
    rewrite Hc. change (nm ++ [0] ++ r2) with (nm ++ ([0] ++ r2)). rewrite (app_assoc nm [0] r2).
    rp. rewrite last_last, N.eqb_refl, removelast_last. reflexivity.
  - eexists. split; [cbn [body_leaf dflt_rsv chunk nth]; reflexivity|].
    split; [rewrite app_nil_r; lensolve|]. split; [apply body_size; [reflexivity|exact Hg]|].
    intros r2. unfold dec_hdlr, pbind. rewrite vf_join_split by assumption. repeat rewrite <- app_assoc. rp.
    rewrite Hc. cbn [app]. rp. rewrite Hc0. reflexivity.
  - eexists. split; [cbn [body_leaf dflt_rsv chunk nth]; reflexivity|].
    split; [lensolve|]. split; [apply body_size; [reflexivity|exact Hg]|].
    intros r2. unfold dec_hdlr, pbind. rewrite vf_join_split by assumption. repeat rewrite <- app_assoc. rp.
    rewrite Hc. reflexivity.
Qed.

Lemma pstable_sidx : pre_stable dec_sidx.
Proof.
  intros h r l rsv r' Hok Hnm H G. pose proof (psized_sidx _ _ _ _ _ Hok Hnm H) as Hg.
  unfold dec_sidx in H. run H.
  apply pbind_ok in H. destruct H as (es & r1 & E & H). inj_pret H.
  destruct (many_replay _ local_sref progress_sref _ _ _ _ _ E) as (x & Hxx & Hrep).
  many E item_sref. apply app_inv_tail in Hxx. subst x. unfold stable_concl.
  eexists. split; [cbn [body_leaf dflt_rsv chunk nth]; reflexivity|].
  split; [lensolve|]. split; [apply body_size; [reflexivity|exact Hg]|].
  intros r2. unfold dec_sidx, pbind. rewrite vf_join_split by assumption. repeat rewrite <- app_assoc. rp.
  rewrite Hl. rp. rewrite Hrep. reflexivity.
Qed.

Lemma pstable_tfra : pre_stable dec_tfra.
Proof.
  intros h r l rsv r' Hok Hnm H G. pose proof (psized_tfra _ _ _ _ _ Hok Hnm H) as Hg.
  unfold dec_tfra in H. run H.
  apply pbind_ok in H. destruct H as (es & r1 & E & H). inj_pret H.
  destruct (many_replay _ (local_tfra _ _ _ _) (progress_tfra _ _ _ _) _ _ _ _ _ E) as (x & Hxx & Hrep).
  many E (item_tfra (tfra_w (vf_version a)) (tfra_n ((a1 / 16) mod 4)) (tfra_n ((a1 / 4) mod 4)) (tfra_n (a1 mod 4))).
  apply app_inv_tail in Hxx. subst x. unfold stable_concl.
  set (lt := (a1 / 16) mod 4) in *. set (lr := (a1 / 4) mod 4) in *. set (ls := a1 mod 4) in *.
  assert (Hsb : hd 0 [0] * 64 + u8 (lt * 16 + lr * 4 + ls) = lt * 16 + lr * 4 + ls).
  { cbn [hd]. unfold u8. rewrite N.mod_small; subst lt lr ls; lia. }
  assert (H1 : ((lt * 16 + lr * 4 + ls) / 16) mod 4 = lt) by (subst lt lr ls; lia).
  assert (H2 : ((lt * 16 + lr * 4 + ls) / 4) mod 4 = lr) by (subst lt lr ls; lia).
  assert (H3 : (lt * 16 + lr * 4 + ls) mod 4 = ls) by (subst lt lr ls; lia).
  assert (H4 : (lt * 16 + lr * 4 + ls) / 64 = 0) by (subst lt lr ls; lia).
  assert (H5 : lt * 16 + lr * 4 + ls < 4294967296) by (subst lt lr ls; lia).
  eexists. split; [cbn [body_leaf dflt_rsv chunk nth]; reflexivity|].
  split; [lensolve|]. split; [apply body_size; [reflexivity|exact Hg]|].
  intros r2. unfold dec_tfra, pbind. rewrite vf_join_split by assumption. rewrite Hsb. repeat rewrite <- app_assoc. rp.
  rewrite H1, H2, H3, H4, Hl, Hc. rp. rewrite Hrep. reflexivity.
Qed.

Lemma pstable_colr : pre_stable dec_colr.
Proof.
  intros h r l rsv r' Hok Hnm H G. pose proof (psized_colr _ _ _ _ _ Hok Hnm H) as Hg.
  unfold dec_colr in H. run H; inj_pret H; unfold stable_concl.
  - eexists. split; [cbn [body_leaf dflt_rsv chunk nth hd]; rewrite Hc; reflexivity|].
    split; [lensolve|]. split; [apply body_size; [cbn [body_leaf dflt_rsv chunk nth hd]; rewrite Hc; reflexivity|exact Hg]|].
    intros r2. unfold dec_colr, pbind. repeat rewrite <- app_assoc. rp. rewrite Hc. rp.
    rewrite rd_enc by (destruct (128 <=? a3); pows; lia). cbv beta iota.
    destruct (128 <=? a3); reflexivity.
  - eexists. split; [cbn [body_leaf dflt_rsv chunk nth hd]; rewrite Hc, Hc0; reflexivity|].
    split; [lensolve|]. split; [apply body_size; [cbn [body_leaf dflt_rsv chunk nth hd]; rewrite Hc, Hc0; reflexivity|exact Hg]|].
    intros r2. unfold dec_colr, pbind. repeat rewrite <- app_assoc. rp. rewrite Hc, Hc0. rp. reflexivity.
  - eexists. split; [cbn [body_leaf dflt_rsv chunk nth hd]; rewrite Hc, Hc0; reflexivity|].
    split; [lensolve|]. split; [apply body_size; [cbn [body_leaf dflt_rsv chunk nth hd]; rewrite Hc, Hc0; reflexivity|exact Hg]|].
    intros r2. unfold dec_colr, pbind. repeat rewrite <- app_assoc. rp. rewrite Hc, Hc0, Hc1. rp. reflexivity.
Qed.

Lemma pstable_tenc : pre_stable dec_tenc.
Proof.
  intros h r l rsv r' Hok Hnm H G. pose proof (psized_tenc _ _ _ _ _ Hok Hnm H) as Hg.
  unfold dec_tenc, rdB_if in H. run H; inj_pret H; unfold stable_concl; cbn [negb] in *; try congruence.
  all: (eexists; split; [cbn [body_leaf dflt_rsv chunk nth]; rewrite ?Hc; cbn [chunk nth]; rew_conds; reflexivity|]).
  all: (split; [lensolve|]).
  all: (split; [apply body_size; [cbn [body_leaf dflt_rsv chunk nth]; rewrite ?Hc; cbn [chunk nth]; rew_conds; reflexivity|exact Hg]|]).
  all: intros r2; unfold dec_tenc, rdB_if, rd_if, pbind; rewrite vf_join_split by assumption; repeat rewrite <- app_assoc; rp;
    rewrite ?Hc; cbn [negb]; rewrite ?join_nibbles by assumption;
    repeat (progress (rp; rew_bools; unfold pret; cbv beta iota)); cbn [dflt_rsv app]; rewrite ?Hc; reflexivity.
Qed.

(* ---------------------------------------------------------------- pssh, senc: size guard *)
Lemma many_forall {A} (p : parser A) (P : A -> Prop) : (forall bs a r, p bs = Ok (a, r) -> P a) ->
  forall f cnt bs l r, rd_many f cnt p bs = Ok (l, r) -> Forall P l.
Proof.
  intros Hp. induction f as [|f IH]; intros cnt bs l r H; cbn [rd_many] in H.
  - destruct (cnt =? 0); [|discriminate]. injection H as <- <-. constructor.
  - destruct (cnt =? 0); [injection H as <- <-; constructor|].
    destruct (p bs) as [[a r1]| | |] eqn:E1; try discriminate.
    destruct (rd_many f (cnt - 1) p r1) as [[l' r']| | |] eqn:E2; try discriminate.
    injection H as <- <-. constructor; [exact (Hp _ _ _ E1)|exact (IH _ _ _ _ E2)].
Qed.

Lemma rdB_len n bs a r : rdB n bs = Ok (a, r) -> lenN a = n.
Proof.
  unfold rdB. destruct (lenN bs <? n); [discriminate|].
  destruct (take (N.to_nat n) bs) as [[x r0]|] eqn:E; [|discriminate]. intros H. injection H as <- <-.
  destruct (take_spec _ _ _ _ E) as [_ Hl]. unfold lenN. lia.
Qed.

Lemma psized_pssh : psized dec_pssh.
Proof.
  intros h r l rsv r' Hok Hnm H. unfold dec_pssh in H. run H;
  (apply pbind_ok in H; destruct H as (kids & r9 & E & H); cbv beta zeta in H;
   pose proof (many_forall _ (fun k => lenN k = 16) (rdB_len 16) _ _ _ _ _ E) as Hk;
   nrun H; unfold pret in H; injection H; intros; subst; cbn [leaf_size_guard];
   apply andb_true_iff; split; [eq4|]; apply forallb_forall; intros k Hin;
   apply N.eqb_eq; exact (proj1 (Forall_forall _ _) Hk k Hin)).
Qed.

Lemma sized_senc : sized dec_senc.
Proof.
  intros h r l rsv r' Hok Hnm H G (Hsz & Hlen & _). unfold dec_senc in H. run H. inj_pret H.
  cbn [leaf_size_guard leaf_guard size_leaf leaf_large] in *. apply N.eqb_eq.
  apply N.ltb_ge in Hc, Hc1. unfold payload_len in *.
  destruct ((a0 =? 0) || (lenN a1 =? 0)) eqn:E; cbn [negb] in *.
  - destruct (senc_keeps false a0 (h_size h - h_len h + 8)) eqn:K; cbn [orb] in G.
    + lia.
    + apply N.eqb_eq in G. lia.
  - unfold senc_keeps. cbn [orb]. lia.
Qed.

(* ---------------------------------------------------------------- mdat *)
Lemma stable_mdat : leaf_stable dec_mdat.
Proof.
  intros h r l rsv r' Hok Hnm H G (Hsz & Hlen & Hmax) _. unfold dec_mdat in H.
  destruct (rdB (payload_len h) r) as [[data r1]| | |] eqn:E.
  - injection H as <- <- <-. destruct (rdB_spec _ _ _ _ Hok E) as (-> & Hl & _ & _).
    cbn [size_leaf leaf_large] in *. unfold payload_len in Hl.
    exists data. split; [reflexivity|]. split; [now rewrite lenN_app|].
    split; [cbn [size_leaf leaf_large]; cbv zeta; destruct ((8 <? h_len h) || (4294967287 <? lenN data)); lia|].
    intros r2. unfold dec_mdat. rewrite rdB_lit by exact Hl. reflexivity.
  - exfalso. injection H as <- <- <-. cbn [size_leaf leaf_large lenN length N.of_nat] in *.
    assert (Hp : payload_len h = 0).
    { unfold payload_len. change (lenN (@nil N)) with 0 in *. destruct ((8 <? h_len h) || (4294967287 <? 0)); lia. }
    rewrite Hp in E. unfold rdB in E. cbn in E. destruct (lenN r <? 0) eqn:E0; [apply N.ltb_lt in E0; lia|discriminate].
  - exfalso. injection H as <- <- <-. cbn [size_leaf leaf_large lenN length N.of_nat] in *.
    assert (Hp : payload_len h = 0).
    { unfold payload_len. change (lenN (@nil N)) with 0 in *. destruct ((8 <? h_len h) || (4294967287 <? 0)); lia. }
    rewrite Hp in E. unfold rdB in E. cbn in E. destruct (lenN r <? 0) eqn:E0; discriminate.
  - exfalso. injection H as <- <- <-. cbn [size_leaf leaf_large lenN length N.of_nat] in *.
    assert (Hp : payload_len h = 0).
    { unfold payload_len. change (lenN (@nil N)) with 0 in *. destruct ((8 <? h_len h) || (4294967287 <? 0)); lia. }
    rewrite Hp in E. unfold rdB in E. cbn in E. destruct (lenN r <? 0) eqn:E0; discriminate.
Qed.

(* ---------------------------------------------------------------- elng *)
Lemma ztf_some_local bs : forall n s r, ztf bs n = (Some s, r) ->
  bs = (s ++ [0]) ++ r /\ forall r2, ztf ((s ++ [0]) ++ r2) n = (Some s, r2).
Proof.
  induction bs as [|c t IH]; intros n s r H; cbn [ztf] in H.
  - destruct (n =? 0); discriminate.
  - destruct (n =? 0) eqn:En; [discriminate|]. destruct (c =? 0) eqn:E0.
    + injection H as <- <-. apply N.eqb_eq in E0. subst c. split; [reflexivity|].
      intros r2. cbn [app ztf]. now rewrite En.
    + destruct (ztf t (n - 1)) as [[s'|] r0] eqn:E; [|discriminate]. injection H as <- <-.
      destruct (IH _ _ _ E) as (-> & Hx). split; [reflexivity|].
      intros r2. cbn [app ztf]. rewrite En, E0. cbn [app] in Hx. now rewrite Hx.
Qed.

Lemma local_elng_full h : local (pdo vf <- rd 4 ;; if negb (vf =? 0) then pfail else
                                 pdo s <- rd_zt (payload_len h - 4) ;; pret (LElng false 0 0 s, [s ++ [0]])).
Proof. loc. Qed.

Lemma stable_elng : leaf_stable dec_elng.
Proof.
  intros h r l rsv r' Hok Hnm H G (Hsz & Hlen & Hmax) Hroom.
  pose proof (lossless_elng _ _ _ _ _ Hok H G) as (b & Hb & Hr & _).
  unfold dec_elng in H. destruct (payload_len h <? 7) eqn:E7.
  - destruct (ztf r (payload_len h)) as [[s|] r0] eqn:E; injection H as <- <- <-.
    + destruct (ztf_some_local _ _ _ _ E) as (Hrr & Hrep).
      cbn [body_leaf dflt_rsv chunk nth app] in *. injection Hb as <-.
      exists (s ++ [0]). split; [reflexivity|]. split; [rewrite Hrr; rewrite !lenN_app; lia|].
      split; [apply body_size; reflexivity|].
      intros r2. unfold dec_elng. rewrite E7, Hrep. reflexivity.
    + cbn [size_leaf leaf_large leaf_name] in *. change (lenN (@nil N)) with 0 in *.
      assert (Hpl : payload_len h = 1) by (unfold payload_len; lia).
      assert (Hr1 : 1 <= lenN r) by (specialize (Hroom ltac:(discriminate)); lia).
      rewrite Hpl in E. destruct r as [|c t]; [cbn in Hr1; lia|].
      cbn [ztf N.eqb] in E. destruct (c =? 0); [discriminate|]. destruct t; cbn [ztf N.sub Pos.pred_N N.eqb] in E; injection E as <-.
      * exists [0]. split; [reflexivity|]. split; [reflexivity|]. split; [reflexivity|].
        intros r2. unfold dec_elng. rewrite E7, Hpl. reflexivity.
      * exists [0]. split; [reflexivity|]. split; [rewrite !lenN_cons; change (lenN (@nil N)) with 0; lia|]. split; [reflexivity|].
        intros r2. unfold dec_elng. rewrite E7, Hpl. reflexivity.
  - destruct (local_elng_full h _ _ _ H) as (x & Hx & Hrep).
    assert (Hd : rsv = dflt_rsv l).
    { nrun H. unfold pret in H. injection H; intros; subst. reflexivity. }
    subst rsv. rewrite Hr in Hx. apply app_inv_tail in Hx. subst x.
    assert (Hg : leaf_size_guard l = true).
    { nrun H. unfold pret in H. injection H; intros; subst. reflexivity. }
    exists b. split; [exact Hb|]. split; [rewrite Hr; rewrite !lenN_app; lia|]. split; [now apply body_size|].
    intros r2. unfold dec_elng. rewrite E7. apply Hrep.
Qed.

(* ---------------------------------------------------------------- avcC *)
Lemma lor_low n k : n < 2 ^ k -> forall a, N.lor n (a * 2 ^ k) = a * 2 ^ k + n.
Proof. intros H a. rewrite N.lor_comm. now apply lor_shifted_add. Qed.

Lemma many_const_replay {A} (p : parser A) (e : A -> list N) :
  local p -> (forall bs a r, bytes_ok bs = true -> p bs = Ok (a, r) -> bs = e a ++ r /\ bytes_ok r = true) ->
  forall f cnt bs l r, bytes_ok bs = true -> rd_many f cnt p bs = Ok (l, r) ->
    bs = flat_map e l ++ r /\ lenN l = cnt /\ bytes_ok r = true /\ (length l <= f)%nat /\
    forall r2, rd_many f cnt p (flat_map e l ++ r2) = Ok (l, r2).
Proof.
  intros Hp He f cnt bs l r Hok E.
  destruct (rd_many_spec p e He _ _ _ _ _ Hok E) as (Hbs & Hl & Hr).
  destruct (many_local p Hp _ _ _ _ _ E) as (x & Hx & _ & Hrep).
  pose proof (many_fuel_len p _ _ _ _ _ E) as Hf.
  rewrite Hbs in Hx. apply app_inv_tail in Hx. subst x.
  repeat split; try assumption. intros r2. now apply Hrep.
Qed.

Lemma nonempty_match {T} (bs : list N) (X Y : T) : bs <> [] -> match bs with [] => X | _ :: _ => Y end = Y.
Proof. destruct bs; [congruence|reflexivity]. Qed.
Lemma be_enc1_app_nonempty v rest : be_enc 1 v ++ rest <> [].
Proof. intros H. apply (f_equal (@length N)) in H. rewrite app_length, length_be_enc in H. discriminate. Qed.

Lemma avcc_rec_stable data l rsv extra : bytes_ok data = true -> avcc_rec data = Ok ((l, rsv), extra) ->
  exists b', body_leaf l (dflt_rsv l) = Ok b' /\ lenN b' + lenN extra = lenN data /\
             avcc_rec b' = Ok ((l, [[63]; [7]; [63]; [31]; [31]]), []).
Proof.
  intros Hok H. unfold avcc_rec in H. run H.
  apply pbind_ok in H. destruct H as (sps & r1 & E1 & H).
  match type of E1 with rd_many _ _ _ ?x = _ => match goal with Hk : bytes_ok x = true |- _ =>
    destruct (many_const_replay _ _ local_nalu item_nalu _ _ _ _ _ Hk E1) as (-> & Hl1 & Hk1 & Hf1 & Hrep1) end end.
  step H.
  apply pbind_ok in H. destruct H as (pps & r2 & E2 & H).
  match type of E2 with rd_many _ _ _ ?x = _ => match goal with Hk : bytes_ok x = true |- _ =>
    destruct (many_const_replay _ _ local_nalu item_nalu _ _ _ _ _ Hk E2) as (-> & Hl2 & Hk2 & Hf2 & Hrep2) end end.
  apply negb_false_iff, N.eqb_eq in Hc, Hc0. subst. pows.
  assert (Hs32 : lenN sps < 32) by (rewrite Hl1; apply N.mod_lt; discriminate).
  assert (Hb5 : N.lor (u8 (lenN sps)) (hd 0 [7] * 32) = 224 + lenN sps).
  { cbn [hd]. unfold u8. rewrite N.mod_small by lia. change 32 with (2 ^ 5). rewrite lor_low by (cbn; lia). cbn; lia. }
  assert (Hb4 : N.lor 3 (hd 0 [63] * 4) = 255) by reflexivity.
  assert (Hrep2' : rd_many 256 (lenN pps) rd_nalu (flat_map wr_nalu pps) = Ok (pps, [])).
  { rewrite <- (app_nil_r (flat_map wr_nalu pps)) at 1. apply Hrep2. }
  Ltac avc_pre Hb4 Hb5 Hrep1 a4 sps :=
    unfold avcc_rec, pbind; rewrite Hb4, Hb5; repeat rewrite <- app_assoc;
    rewrite rd_enc by (pows; lia); change (negb (1 =? 1)) with false; cbv beta iota;
    repeat (first [ rewrite rd_enc by (first [assumption | pows; lia]) ]; cbv beta iota);
    change (255 mod 4 =? 3) with true; cbn [negb]; cbv beta iota;
    repeat (first [ rewrite rd_enc by (first [assumption | pows; lia]) ]; cbv beta iota);
    replace ((224 + lenN sps) mod 32) with (a4 mod 32) by lia;
    rewrite Hrep1; cbv beta iota;
    repeat (first [ rewrite rd_enc by (first [assumption | pows; lia]) ]; cbv beta iota).
  destruct (avc_plain a0) eqn:Ep.
  - inj_pret H. eexists. split; [cbn [body_leaf dflt_rsv chunk nth]; rewrite Ep; cbn [orb]; reflexivity|].
    split.
    { rewrite Hb4, Hb5. repeat rewrite lenN_app. repeat rewrite lenN_be_enc. change (lenN (@nil N)) with 0. lia. }
    avc_pre Hb4 Hb5 Hrep1 a4 sps.
    rewrite app_nil_r, Hrep2'. cbv beta iota. rewrite Ep.
    unfold pret. replace ((224 + lenN sps) / 32) with 7 by lia. reflexivity.
  - destruct r2 as [|x r2].
    + injection H as <- <- <-.
      eexists. split; [cbn [body_leaf dflt_rsv chunk nth]; rewrite Ep; cbn [orb]; reflexivity|].
      split.
      { rewrite Hb4, Hb5. repeat rewrite lenN_app. repeat rewrite lenN_be_enc. change (lenN (@nil N)) with 0. lia. }
      avc_pre Hb4 Hb5 Hrep1 a4 sps.
      rewrite app_nil_r, Hrep2'. cbv beta iota. rewrite Ep.
      replace ((224 + lenN sps) / 32) with 7 by lia. reflexivity.
    + run H. inj_pret H. apply negb_false_iff, N.eqb_eq in Hc. subst.
      assert (Hc0' : N.lor (hd 0 [63] * 4) (a mod 4) = 252 + a mod 4).
      { cbn [hd]. change 4 with (2 ^ 2) at 1. rewrite lor_shifted_add by (cbn; lia). cbn; lia. }
      assert (Hc1' : N.lor (hd 0 [31] * 8) (a5 mod 8) = 248 + a5 mod 8).
      { cbn [hd]. change 8 with (2 ^ 3) at 1. rewrite lor_shifted_add by (cbn; lia). cbn; lia. }
      assert (Hc2' : N.lor (hd 0 [31] * 8) (a6 mod 8) = 248 + a6 mod 8).
      { cbn [hd]. change 8 with (2 ^ 3) at 1. rewrite lor_shifted_add by (cbn; lia). cbn; lia. }
      eexists. split; [cbn [body_leaf dflt_rsv chunk nth]; rewrite Ep; cbn [orb]; reflexivity|].
      split.
      { rewrite Hb4, Hb5. repeat rewrite lenN_app. repeat rewrite lenN_be_enc. change (lenN (@nil N)) with 0. lia. }
      avc_pre Hb4 Hb5 Hrep1 a4 sps.
      rewrite Hc0', Hc1', Hc2'. rewrite Hrep2. cbv beta iota. rewrite Ep.
      rewrite nonempty_match by apply be_enc1_app_nonempty.
      repeat (first [ rewrite rd_enc by (first [assumption | pows; lia]) ]; cbv beta iota).
      change (negb (0 =? 0)) with false. cbv beta iota. unfold pret.
      replace ((224 + lenN sps) / 32) with 7 by lia.
      replace ((252 + a mod 4) mod 4) with (a mod 4) by lia. replace ((252 + a mod 4) / 4) with 63 by lia.
      replace ((248 + a5 mod 8) mod 8) with (a5 mod 8) by lia. replace ((248 + a5 mod 8) / 8) with 31 by lia.
      replace ((248 + a6 mod 8) mod 8) with (a6 mod 8) by lia. replace ((248 + a6 mod 8) / 8) with 31 by lia.
      reflexivity.
Qed.

Lemma avcc_shape data l rsv extra : avcc_rec data = Ok ((l, rsv), extra) ->
  leaf_size_guard l = true /\ dflt_rsv l = [[63]; [7]; [63]; [31]; [31]; []].
Proof.
  intros E. unfold avcc_rec in E. nrun E.
  - unfold pret in E. injection E as <- _ _. split; reflexivity.
  - cbv beta in E. match type of E with (match ?x with _ => _ end) = _ => destruct x end;
      [injection E as <- _ _; split; reflexivity|]. nrun E. unfold pret in E. injection E as <- _ _. split; reflexivity.
Qed.

Lemma stable_avcC : leaf_stable dec_avcC.
Proof.
  intros h r l rsv r' Hok Hnm H G (Hsz & Hlen & Hmax) _. unfold dec_avcC in H. step H.
  destruct (avcc_rec a) as [[[l0 rsv0] extra]| | |] eqn:E; try discriminate. injection H as <- <- <-.
  destruct (avcc_rec_stable _ _ _ _ Hx E) as (b' & Hb' & Hlens & Hrec).
  destruct (avcc_shape _ _ _ _ E) as [Hg Hd]. pose proof (body_size _ _ Hb' Hg) as Hbs.
  assert (Hpl : lenN b' = payload_len h) by (unfold payload_len; lia).
  exists b'. split; [exact Hb'|]. split; [rewrite lenN_app; lia|]. split; [exact Hbs|].
  intros r2. unfold dec_avcC, pbind. rewrite rdB_lit by exact Hpl. rewrite Hrec, Hd. reflexivity.
Qed.

(* ---------------------------------------------------------------- hvcC *)
Lemma hvcc_rec_stable data l rsv extra : bytes_ok data = true -> hvcc_rec data = Ok ((l, rsv), extra) ->
  exists b', body_leaf l (dflt_rsv l) = Ok b' /\ lenN b' + lenN extra = lenN data /\
             hvcc_rec b' = Ok ((l, [[15]; [63]; [63]; [31]; [31]]), []).
Proof.
  intros Hok H. unfold hvcc_rec in H. run H.
  apply pbind_ok in H. destruct H as (arrs & r1 & E1 & H).
  match type of E1 with rd_many _ _ _ ?x = _ => match goal with Hk : bytes_ok x = true |- _ =>
    destruct (many_const_replay _ _ local_narr item_narr _ _ _ _ _ Hk E1) as (-> & Hl1 & Hk1 & Hf1 & Hrep1) end end.
  inj_pret H. apply negb_false_iff, N.eqb_eq in Hc, Hc0. subst. pows.
  set (A := N.lor (N.lor (u8 ((a0 / 64) mod 4 * 64)) (if (a0 / 32) mod 2 =? 1 then 32 else 0)) (a0 mod 32)).
  set (B := N.lor (N.lor (N.lor (u8 ((a10 / 64) mod 4 * 64)) (u8 ((a10 / 8) mod 8 * 8))) (u8 ((a10 / 4) mod 2 * 4))) 3).
  assert (HA : A = a0) by (apply hvcc_byte1; assumption).
  assert (HB : B = a10) by (apply hvcc_byte2; assumption).
  assert (Hm : N.lor (hd 0 [15] * 4096) (a4 mod 4096) = 61440 + a4 mod 4096).
  { cbn [hd]. change 4096 with (2 ^ 12) at 1. rewrite lor_shifted_add by (cbn; lia). cbn; lia. }
  assert (Hp : forall x, N.lor (hd 0 [63] * 4) (x mod 4) = 252 + x mod 4).
  { intros x. cbn [hd]. change 4 with (2 ^ 2) at 1. rewrite lor_shifted_add by (cbn; lia). cbn; lia. }
  assert (Hq : forall x, N.lor (hd 0 [31] * 8) (x mod 8) = 248 + x mod 8).
  { intros x. cbn [hd]. change 8 with (2 ^ 3) at 1. rewrite lor_shifted_add by (cbn; lia). cbn; lia. }
  eexists. split; [cbn [body_leaf dflt_rsv chunk nth]; reflexivity|].
  fold A B. rewrite HA, HB, Hm, !Hp, !Hq.
  split.
  { repeat rewrite lenN_app. repeat rewrite lenN_be_enc. change (lenN (@nil N)) with 0. lia. }
  unfold hvcc_rec, pbind. repeat rewrite <- app_assoc.
  rewrite rd_enc by lia. change (negb (1 =? 1)) with false. cbv beta iota.
  repeat (first [ rewrite rd_enc by (first [assumption | pows; lia]) ]; cbv beta iota).
  rewrite Hc0. change (negb (3 =? 3)) with false. cbv beta iota.
  repeat (first [ rewrite rd_enc by (first [assumption | pows; lia]) ]; cbv beta iota).
  rewrite app_nil_r. rewrite <- (app_nil_r (flat_map wr_narr arrs)) at 1. rewrite Hrep1. cbv beta iota. unfold pret.
  replace ((61440 + a4 mod 4096) mod 4096) with (a4 mod 4096) by lia. replace ((61440 + a4 mod 4096) / 4096) with 15 by lia.
  replace ((252 + a5 mod 4) mod 4) with (a5 mod 4) by lia. replace ((252 + a5 mod 4) / 4) with 63 by lia.
  replace ((252 + a6 mod 4) mod 4) with (a6 mod 4) by lia. replace ((252 + a6 mod 4) / 4) with 63 by lia.
  replace ((248 + a7 mod 8) mod 8) with (a7 mod 8) by lia. replace ((248 + a7 mod 8) / 8) with 31 by lia.
  replace ((248 + a8 mod 8) mod 8) with (a8 mod 8) by lia. replace ((248 + a8 mod 8) / 8) with 31 by lia.
  reflexivity.
Qed.

Lemma hvcc_shape data l rsv extra : hvcc_rec data = Ok ((l, rsv), extra) ->
  leaf_size_guard l = true /\ dflt_rsv l = [[15]; [63]; [63]; [31]; [31]; []].
Proof.
  intros E. unfold hvcc_rec in E. nrun E. unfold pret in E. injection E as <- _ _. split; reflexivity.
Qed.

Lemma stable_hvcC : leaf_stable dec_hvcC.
Proof.
  intros h r l rsv r' Hok Hnm H G (Hsz & Hlen & Hmax) _. unfold dec_hvcC in H. step H.
  destruct (hvcc_rec a) as [[[l0 rsv0] extra]| | |] eqn:E; try discriminate. injection H as <- <- <-.
  destruct (hvcc_rec_stable _ _ _ _ Hx E) as (b' & Hb' & Hlens & Hrec).
  destruct (hvcc_shape _ _ _ _ E) as [Hg Hd]. pose proof (body_size _ _ Hb' Hg) as Hbs.
  assert (Hpl : lenN b' = payload_len h) by (unfold payload_len; lia).
  exists b'. split; [exact Hb'|]. split; [rewrite lenN_app; lia|]. split; [exact Hbs|].
  intros r2. unfold dec_hvcC, pbind. rewrite rdB_lit by exact Hpl. rewrite Hrec, Hd. reflexivity.
Qed.

(* ---------------------------------------------------------------- esds *)
(* under the guard (size fields in the encoder's form, no UnknownData) the captured size fields ARE the encoder's,
   so the re-encoding is the input; the decoder reads the payload of the box only (repo commit 27ea537), and the header
   that fits the leaf announces exactly the re-encoded body (esds_core) *)
Lemma stable_esds : leaf_stable dec_esds.
Proof.
  intros h r l rsv r' Hok Hnm H G Hf _.
  destruct (esds_core _ _ _ _ _ Hok H) as (Hok' & Hname & b & Hb & Hr & Hg). destruct (Hg G) as [Hd Hrep].
  pose proof (esds_is _ _ _ _ _ H) as Hl.
  assert (Hsg : leaf_size_guard l = true) by (destruct l; try contradiction; reflexivity).
  subst rsv. exists b. split; [exact Hb|]. split; [rewrite Hr; rewrite lenN_app; reflexivity|].
  pose proof (body_size _ _ Hb Hsg) as Hbs. split; [exact Hbs|].
  intros r2. apply Hrep. destruct Hf as (Hsz & Hlen & _). unfold payload_len. lia.
Qed.

(* ---------------------------------------------------------------- uuid *)
Lemma norsv_uuid : norsv dec_uuid.
Proof.
  intros h r l rsv r' H. unfold dec_uuid in H. apply pbind_ok in H. destruct H as (u & r0 & _ & H).
  destruct (bytes_eqb u uuid_tfxd); [nrun H; unfold pret in H; injection H; intros; subst; reflexivity|].
  destruct (bytes_eqb u uuid_tfrf); [nrun H; unfold pret in H; injection H; intros; subst; reflexivity|].
  destruct (bytes_eqb u uuid_piff).
  - destruct (h_size h <? 16); [discriminate H|]. apply pbind_ok in H. destruct H as ([l0 rsv0] & r1 & _ & H). cbn [fst] in H.
    destruct l0; try discriminate H. unfold pret in H. injection H; intros; subst. reflexivity.
  - destruct (h_size h <? 24); [discriminate H|]. nrun H. unfold pret in H. injection H; intros; subst. reflexivity.
Qed.

Lemma sized_uuid : sized dec_uuid.
Proof.
  intros h r l rsv r' Hok Hnm H G (Hsz & Hlen & _). unfold dec_uuid in H. step H.
  destruct (bytes_eqb a uuid_tfxd); [run H; inj_pret H; reflexivity|].
  destruct (bytes_eqb a uuid_tfrf).
  { run H. tail_many H (item_pairw (uuid_w (vf_version a0))). inj_pret H. cbn [leaf_size_guard]. apply N.leb_le. lia. }
  destruct (bytes_eqb a uuid_piff).
  { destruct (h_size h <? 16) eqn:E16; [discriminate H|].
    apply pbind_ok in H. destruct H as ([l0 rsv0] & r1 & E & H). cbn [fst] in H.
    destruct l0; try discriminate H. inj_pret H.
    unfold dec_senc in E. cbn [h_size h_len payload_len] in E. unfold payload_len in E. cbn [h_size h_len] in E. run E. inj_pret E.
    cbn [leaf_size_guard leaf_guard size_leaf leaf_large] in *. apply N.eqb_eq.
    apply N.ltb_ge in Hc, Hc1, E16.
    destruct ((count =? 0) || (lenN raw =? 0)) eqn:Ez; cbn [negb] in *.
    - destruct (senc_keeps false count (h_size h - 16 - 8 + 8)) eqn:K; cbn [orb] in G.
      + lia.
      + apply N.eqb_eq in G. lia.
    - unfold senc_keeps. cbn [orb]. lia. }
  destruct (h_size h <? 24); [discriminate H|]. run H. inj_pret H. cbn [leaf_size_guard]. apply N.eqb_eq. assumption.
Qed.

Lemma stable_uuid : leaf_stable dec_uuid.
Proof. apply stable_of_local; [exact lossless_uuid|exact local_uuid|exact norsv_uuid|exact sized_uuid]. Qed.

(* ---------------------------------------------------------------- every table entry *)
Lemma pre_leaf_stable d : pre_stable d -> leaf_stable d.
Proof. intros H h r l rsv r' Hok Hnm E G _ _. exact (H _ _ _ _ _ Hok Hnm E G). Qed.

Ltac sol L Lo Nr S := apply stable_of_local; [exact L|exact Lo|exact Nr|first [exact S|apply psized_sized; exact S]].

Lemma stable_ftyp : leaf_stable dec_ftyp. Proof. sol lossless_ftyp local_ftyp norsv_ftyp psized_ftyp. Qed.
Lemma stable_free : leaf_stable dec_free. Proof. sol lossless_free local_free norsv_free psized_free. Qed.
Lemma stable_empty : leaf_stable dec_empty. Proof. sol lossless_empty local_empty norsv_empty psized_empty. Qed.
Lemma stable_b4 : leaf_stable dec_b4. Proof. sol lossless_b4 local_b4 norsv_b4 psized_b4. Qed.
Lemma stable_mfhd : leaf_stable dec_mfhd. Proof. sol lossless_mfhd local_mfhd norsv_mfhd psized_mfhd. Qed.
Lemma stable_tfhd : leaf_stable dec_tfhd. Proof. sol lossless_tfhd local_tfhd norsv_tfhd psized_tfhd. Qed.
Lemma stable_tfdt : leaf_stable dec_tfdt. Proof. sol lossless_tfdt local_tfdt norsv_tfdt psized_tfdt. Qed.
Lemma stable_trun : leaf_stable dec_trun. Proof. sol lossless_trun local_trun norsv_trun psized_trun. Qed.
Lemma stable_trex : leaf_stable dec_trex. Proof. sol lossless_trex local_trex norsv_trex psized_trex. Qed.
Lemma stable_stts : leaf_stable dec_stts. Proof. sol lossless_stts local_stts norsv_stts psized_stts. Qed.
Lemma stable_stsc : leaf_stable dec_stsc. Proof. sol lossless_stsc local_stsc norsv_stsc psized_stsc. Qed.
Lemma stable_stsz : leaf_stable dec_stsz. Proof. sol lossless_stsz local_stsz norsv_stsz psized_stsz. Qed.
Lemma stable_tab4 : leaf_stable (dec_tab 4).
Proof. sol (lossless_tab 4) (local_tab 4 ltac:(lia)) (norsv_tab 4) (psized_tab 4). Qed.
Lemma stable_tab8 : leaf_stable (dec_tab 8).
Proof. sol (lossless_tab 8) (local_tab 8 ltac:(lia)) (norsv_tab 8) (psized_tab 8). Qed.
Lemma stable_sdtp : leaf_stable dec_sdtp. Proof. sol lossless_sdtp local_sdtp norsv_sdtp psized_sdtp. Qed.
Lemma stable_ctts : leaf_stable dec_ctts. Proof. sol lossless_ctts local_ctts norsv_ctts psized_ctts. Qed.
Lemma stable_elst : leaf_stable dec_elst. Proof. sol lossless_elst local_elst_box norsv_elst psized_elst. Qed.
Lemma stable_saiz : leaf_stable dec_saiz. Proof. sol lossless_saiz local_saiz norsv_saiz psized_saiz. Qed.
Lemma stable_saio : leaf_stable dec_saio. Proof. sol lossless_saio local_saio norsv_saio psized_saio. Qed.
Lemma stable_sbgp : leaf_stable dec_sbgp. Proof. sol lossless_sbgp local_sbgp norsv_sbgp psized_sbgp. Qed.
Lemma stable_prft : leaf_stable dec_prft. Proof. sol lossless_prft local_prft norsv_prft psized_prft. Qed.
Lemma stable_frma : leaf_stable dec_frma. Proof. sol lossless_frma local_frma norsv_frma psized_frma. Qed.
Lemma stable_vmhd : leaf_stable dec_vmhd. Proof. sol lossless_vmhd local_vmhd norsv_vmhd psized_vmhd. Qed.
Lemma stable_fullonly : leaf_stable dec_fullonly. Proof. sol lossless_fullonly local_fullonly norsv_fullonly psized_fullonly. Qed.
Lemma stable_mfro : leaf_stable dec_mfro. Proof. sol lossless_mfro local_mfro norsv_mfro psized_mfro. Qed.
Lemma stable_mehd : leaf_stable dec_mehd. Proof. sol lossless_mehd local_mehd norsv_mehd psized_mehd. Qed.
Lemma stable_pssh : leaf_stable dec_pssh. Proof. sol lossless_pssh local_pssh norsv_pssh psized_pssh. Qed.
Lemma stable_url : leaf_stable dec_url. Proof. sol lossless_url local_url norsv_url psized_url. Qed.
Lemma stable_btrt : leaf_stable dec_btrt. Proof. sol lossless_btrt local_btrt norsv_btrt psized_btrt. Qed.
Lemma stable_pasp : leaf_stable dec_pasp. Proof. sol lossless_pasp local_pasp norsv_pasp psized_pasp. Qed.
Lemma stable_clap : leaf_stable dec_clap. Proof. sol lossless_clap local_clap norsv_clap psized_clap. Qed.
Lemma stable_schm : leaf_stable dec_schm. Proof. sol lossless_schm local_schm norsv_schm psized_schm. Qed.
Lemma stable_cslg : leaf_stable dec_cslg. Proof. sol lossless_cslg local_cslg norsv_cslg psized_cslg. Qed.
Lemma stable_senc : leaf_stable dec_senc. Proof. sol lossless_senc local_senc norsv_senc sized_senc. Qed.
Lemma stable_emsg : leaf_stable dec_emsg. Proof. sol lossless_emsg local_emsg norsv_emsg psized_emsg. Qed.
Lemma stable_kind : leaf_stable dec_kind. Proof. sol lossless_kind local_kind norsv_kind psized_kind. Qed.
Lemma stable_subs : leaf_stable dec_subs. Proof. sol lossless_subs local_subs norsv_subs psized_subs. Qed.

Lemma pstable_stsd : pre_stable dec_stsd.
Proof. apply pre_stable_of_local; [exact lossless_stsd|exact local_stsd|exact norsv_stsd|exact psized_stsd]. Qed.
Lemma pstable_dref : pre_stable dec_dref.
Proof. apply pre_stable_of_local; [exact lossless_dref|exact local_dref|exact norsv_dref|exact psized_dref]. Qed.

Lemma stable_data : leaf_stable dec_data. Proof. sol lossless_data local_data norsv_data psized_data. Qed.
Lemma stable_mime : leaf_stable dec_mime. Proof. sol lossless_mime local_mime norsv_mime psized_mime. Qed.
(* wvtt prefix: a box whose prefix was read (leaf_guard) is re-read from the encoder's bytes *)
Lemma pstable_wvtt : pre_stable dec_wvtt.
Proof.
  intros h r l rsv r' Hok Hnm H G. pose proof (psized_wvtt _ _ _ _ _ Hok Hnm H) as Hg. unfold dec_wvtt in H.
  destruct (rdB 6 r) as [[r6 r1]| | |] eqn:E6;
    [|destruct (16 <? h_size h); [discriminate|]; injection H as <- <- <-; discriminate G..].
  destruct (rdB_spec _ _ _ _ Hok E6) as (-> & Hl6 & _ & Hok1).
  destruct (rd 2 r1) as [[dri r2]| | |] eqn:E2;
    [|destruct (16 <? h_size h); [discriminate|]; injection H as <- <- <-; discriminate G..].
  injection H as <- <- <-. destruct (rd_spec _ _ _ _ Hok1 E2) as (-> & Hlt & Hok2). unfold stable_concl.
  eexists. split; [cbn [body_leaf dflt_rsv chunk nth]; reflexivity|].
  split; [lensolve|]. split; [apply body_size; [reflexivity|exact Hg]|].
  intros r3. unfold dec_wvtt. repeat rewrite <- app_assoc. rp. reflexivity.
Qed.

(* dac3, dec3: the whole payload is read, then a pure function of it decides (C01Leaf6Proofs) *)
Lemma whole_stable f nm : whole_ok f nm -> leaf_stable (dec_whole f).
Proof.
  intros Hf h r l rsv r' Hok Hnm H G _ _. destruct (whole_run _ _ _ _ _ _ Hok H) as (d & -> & Hl & Hd & Hr' & Ef & ->).
  destruct (Hf _ _ Hd Ef) as (_ & Hdf & Hlg & Hb). destruct (Hb G) as [Hb1 Hs].
  unfold stable_concl. rewrite Hdf, Hlg. exists d. split; [exact Hb1|]. split; [now rewrite lenN_app|]. split; [lia|].
  intros r2. unfold dec_whole, pbind. rewrite rdB_lit by exact Hl. now rewrite Ef.
Qed.
Lemma stable_dac3 : leaf_stable dec_dac3. Proof. exact (whole_stable _ _ dac3_ok). Qed.
Lemma stable_dec3 : leaf_stable dec_dec3. Proof. exact (whole_stable _ _ dec3_ok). Qed.

Lemma pstable_fullonly : pre_stable dec_fullonly.
Proof. apply pre_stable_of_local; [exact lossless_fullonly|exact local_fullonly|exact norsv_fullonly|exact psized_fullonly]. Qed.

Lemma leaf_table_stable : Forall (fun e => leaf_stable (snd e)) leaf_table.
Proof.
  unfold leaf_table. repeat apply Forall_cons; try apply Forall_nil; cbn [snd];
    first [ exact stable_ftyp | exact stable_free | exact stable_empty | exact stable_b4 | exact stable_data | exact stable_mime | exact stable_dac3 | exact stable_dec3 | exact stable_mdat | exact stable_mfhd | exact stable_tfhd
          | exact stable_tfdt | exact stable_trun | exact (pre_leaf_stable _ pstable_mvhd)
          | exact (pre_leaf_stable _ pstable_tkhd) | exact (pre_leaf_stable _ pstable_sidx) | exact stable_trex
          | exact (pre_leaf_stable _ pstable_mdhd) | exact (pre_leaf_stable _ pstable_hdlr) | exact stable_stts
          | exact stable_stsc | exact stable_stsz | exact stable_tab4 | exact stable_tab8 | exact stable_sdtp
          | exact stable_ctts | exact stable_elst | exact stable_saiz | exact stable_saio | exact stable_sbgp
          | exact stable_prft | exact (pre_leaf_stable _ pstable_tenc) | exact stable_frma | exact stable_vmhd
          | exact (pre_leaf_stable _ pstable_smhd) | exact stable_fullonly | exact stable_mfro | exact stable_mehd
          | exact (pre_leaf_stable _ pstable_tfra) | exact stable_pssh | exact stable_url | exact stable_avcC
          | exact stable_btrt | exact stable_pasp | exact (pre_leaf_stable _ pstable_colr) | exact stable_clap
          | exact stable_schm | exact stable_cslg | exact stable_senc | exact stable_emsg | exact stable_elng
          | exact stable_kind | exact stable_hvcC | exact stable_subs | exact stable_esds | exact stable_uuid | exact stable_sgpd ].
Qed.

Lemma pre_table_stable : Forall (fun e => pre_stable (fst (snd e))) pre_table.
Proof.
  unfold pre_table. repeat apply Forall_cons; try apply Forall_nil; cbn [fst snd];
    first [ exact pstable_stsd | exact pstable_dref | exact pstable_visual | exact pstable_audio | exact pstable_fullonly | exact pstable_wvtt ].
Qed.
