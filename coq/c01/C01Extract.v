(* Extraction of the C01/C02 box model for the correspondence check. ExtrOcamlBasic only. *)
From V.lib Require Import Base.
From V.c01 Require Import C01Codec C01Model C01FileModel C01GenModel C01GenFileModel.
Require Import ExtrOcamlBasic.
Separate Extraction
  decode size_box encode_w encode_sw raw_box exact_box box_name leaf_table cont_table pre_table rsv_dc why_box decode_file encode_seq dflt_rsv
  hdr_size_field lenN bytes_eqb Z.of_N
  decode_file_sr file_frag file_encode_w file_encode_sw
  gen2 gen2_ok gen2_file gen2_file_ok.
