(* C01FixProofs.v — the general fixed point: for every slice the model of DecodeBoxSR accepts with an exact tree t,
   the bytes enc the Go encoders write (raw_box false t) decode again, to the tree norm_box t (= t with every captured
   reserved chunk replaced by the encoder's value), and re-encoding that gives enc again.  No hypothesis on the
   reserved bytes of the input (C01_fixpoint_partial needed them to have the encoder's values already). *)
From V.lib Require Import Base.
From V.c01 Require Import C01Codec C01Model C01LeafProofs C01TableProofs C01TreeProofs C01WhyProofs C01SizeProofs
  C01LocalProofs C01StableProofs.

(* ---------------------------------------------------------------- norm_box keeps everything but the chunks *)
Lemma map_norm_ext (f : mbox -> N) cs : Forall (fun c => f (norm_box c) = f c) cs -> map f (map norm_box cs) = map f cs.
Proof. intros H. rewrite map_map. apply map_ext_in. intros c Hin. exact (proj1 (Forall_forall _ _) H c Hin). Qed.

Lemma size_norm t : size_box (norm_box t) = size_box t.
Proof.
  induction t as [h l r|h cs IH|h p|h l r cs IH] using mbox_rect2; cbn [norm_box size_box]; try reflexivity.
  - now rewrite (map_norm_ext size_box cs IH).
  - now rewrite (map_norm_ext size_box cs IH).
Qed.

Lemma sizes_norm cs : map size_box (map norm_box cs) = map size_box cs.
Proof. rewrite map_map. apply map_ext. intros c. apply size_norm. Qed.

Lemma name_norm t : box_name (norm_box t) = box_name t.
Proof. destruct t; reflexivity. Qed.

Lemma trak_norm t : is_trak_box (norm_box t) = is_trak_box t.
Proof. unfold is_trak_box. now rewrite name_norm. Qed.

Lemma edts_norm cs : edts_ok (map norm_box cs) = edts_ok cs.
Proof. unfold edts_ok. induction cs as [|c cs IH]; [reflexivity|]. cbn [map forallb]. now rewrite name_norm, IH. Qed.

Lemma trun_unset_norm t : trun_unset (norm_box t) = trun_unset t.
Proof. destruct t as [h l r|h cs|h p|h l r cs]; reflexivity. Qed.

Lemma existsb_map_ext {A} (f : A -> bool) (g : A -> A) l : (forall x, f (g x) = f x) -> existsb f (map g l) = existsb f l.
Proof. intros H. induction l as [|a l IH]; [reflexivity|]. cbn [map existsb]. now rewrite IH, H. Qed.

Lemma traf_unset_norm t : traf_unset (norm_box t) = traf_unset t.
Proof.
  destruct t as [h l r|h cs|h p|h l r cs]; try reflexivity. cbn [norm_box traf_unset]. f_equal.
  apply existsb_map_ext. apply trun_unset_norm.
Qed.

Lemma moof_pre_norm cs : moof_pre (map norm_box cs) = moof_pre cs.
Proof. unfold moof_pre. now rewrite (existsb_map_ext _ _ _ traf_unset_norm). Qed.

Lemma raw_norm t : raw_box false (norm_box t) = raw_box false t.
Proof.
  induction t as [h l r|h cs IH|h p|h l r cs IH] using mbox_rect2; cbn [norm_box]; try reflexivity.
  - rewrite !raw_box_cont. cbv zeta. rewrite sizes_norm, moof_pre_norm.
    assert (E : map (genc false) (map norm_box cs) = map (genc false) cs).
    { rewrite map_map. apply map_ext_in. intros c Hin. unfold genc. rewrite trak_norm. f_equal.
      exact (proj1 (Forall_forall _ _) IH c Hin). }
    now rewrite E.
  - rewrite !raw_box_pre. rewrite sizes_norm.
    assert (E : map (genc false) (map norm_box cs) = map (genc false) cs).
    { rewrite map_map. apply map_ext_in. intros c Hin. unfold genc. rewrite trak_norm. f_equal.
      exact (proj1 (Forall_forall _ _) IH c Hin). }
    now rewrite E.
Qed.

Lemma erase_norm t : erase_rsv (norm_box t) = erase_rsv t.
Proof.
  induction t as [h l r|h cs IH|h p|h l r cs IH] using mbox_rect2; cbn [norm_box erase_rsv]; try reflexivity.
  - f_equal. rewrite map_map. apply map_ext_in. intros c Hin. exact (proj1 (Forall_forall _ _) IH c Hin).
  - f_equal. rewrite map_map. apply map_ext_in. intros c Hin. exact (proj1 (Forall_forall _ _) IH c Hin).
Qed.

(* ---------------------------------------------------------------- header facts *)
Lemma dec_hdr_facts bs h r : bytes_ok bs = true -> dec_hdr bs = Ok (h, r) ->
  lenN (h_name h) = 4 /\ h_size h < 18446744073709551616.
Proof.
  intros Hok H. unfold dec_hdr in H. run H; inj_pret H; cbn [h_name h_size]; (split; [assumption|]).
  - change (256 ^ N.of_nat 8) with 18446744073709551616 in *. assumption.
  - change (256 ^ N.of_nat 4) with 4294967296 in *. lia.
Qed.

Lemma large_mdat l : leaf_large l = true -> leaf_name l = n_mdat.
Proof. destruct l; cbn [leaf_large leaf_name]; intros H; try discriminate; reflexivity. Qed.

Lemma lenN_leaf_hdr l : lenN (leaf_name l) = 4 -> lenN (leaf_hdr l) = if leaf_large l then 16 else 8.
Proof.
  intros Hn. unfold leaf_hdr, enc_hdr, enc_hdr_large. destruct (leaf_large l); rewrite !lenN_app, !lenN_be_enc, Hn; reflexivity.
Qed.

Lemma lenN_length_eq {A B} (x : list A) (y : list B) : lenN x = lenN y -> length x = length y.
Proof. unfold lenN. lia. Qed.

(* ---------------------------------------------------------------- the tree *)
Definition sbox (f : nat) : Prop :=
  forall bs t rest, bytes_ok bs = true -> decode_box f bs = Ok (t, rest) -> exact_box t = true ->
    exists enc, raw_box false t = Ok enc /\ lenN enc + lenN rest = lenN bs /\ lenN enc = size_box t /\
      forall r2, decode_box f (enc ++ r2) = Ok (norm_box t, r2).

Definition schildren (f : nat) : Prop :=
  forall target pos used bs cs rest, bytes_ok bs = true ->
    decode_children f target pos used bs = Ok (cs, rest) -> forallb exact_box cs = true ->
    exists enc, cat_encs (map (genc false) cs) = Ok enc /\ lenN enc + lenN rest = lenN bs /\
      lenN enc = sumN (map size_box cs) /\
      forall r2, decode_children f target pos used (enc ++ r2) = Ok (map norm_box cs, r2).

Definition sentries (f : nat) : Prop :=
  forall target pos bs cs rest, bytes_ok bs = true ->
    decode_entries f target pos bs = Ok (cs, rest) -> forallb exact_box cs = true ->
    exists enc, cat_encs (map (genc false) cs) = Ok enc /\ lenN enc + lenN rest = lenN bs /\
      lenN enc = sumN (map size_box cs) /\
      forall r2, decode_entries f target pos (enc ++ r2) = Ok (map norm_box cs, r2).

Lemma schildren_step f : sbox f -> schildren f -> schildren (S f).
Proof.
  intros IHb IHc target pos used bs cs rest Hok H Hex. cbn [decode_children] in H.
  destruct (target <? pos) eqn:Etp; [discriminate|].
  destruct (pos =? target) eqn:Ept.
  - injection H as <- <-. exists []. cbn [map cat_encs fold_right sumN]. repeat split; try reflexivity.
    intros r2. cbn [decode_children app map]. now rewrite Etp, Ept.
  - destruct (decode_box f bs) as [[c r]| | |] eqn:Eb; try discriminate.
    destruct (negb (pos + size_box c =? used + (lenN bs - lenN r))) eqn:Echk; [discriminate|].
    destruct (decode_children f target (pos + size_box c) (used + (lenN bs - lenN r)) r) as [[cs' r']| | |] eqn:Ec;
      try discriminate.
    injection H as <- <-. cbn [forallb] in Hex. apply andb_true_iff in Hex. destruct Hex as [Hc Hcs].
    destruct (proj1 (tree_both f) _ _ _ Hok Eb Hc) as (_ & _ & _ & Hokr).
    destruct (IHb _ _ _ Hok Eb Hc) as (e1 & He1 & Hl1 & Hs1 & Hrep1).
    destruct (IHc _ _ _ _ _ _ Hokr Ec Hcs) as (e2 & He2 & Hl2 & Hs2 & Hrep2).
    exists (e1 ++ e2). cbn [map cat_encs fold_right genc snd]. fold (cat_encs (map (genc false) cs')).
    rewrite He1, He2. cbn [rcat]. split; [reflexivity|]. split; [rewrite lenN_app; lia|].
    split; [rewrite lenN_app; cbn [sumN]; lia|].
    intros r2. cbn [decode_children]. rewrite Etp, Ept. rewrite <- app_assoc, Hrep1. rewrite size_norm.
    replace (lenN (e1 ++ e2 ++ r2) - lenN (e2 ++ r2)) with (lenN bs - lenN r) by (rewrite !lenN_app; lia).
    rewrite Echk, Hrep2. reflexivity.
Qed.

Lemma sentries_step f : sbox f -> sentries f -> sentries (S f).
Proof.
  intros IHb IHe target pos bs cs rest Hok H Hex. cbn [decode_entries] in H.
  destruct (target <=? pos) eqn:Etp.
  - injection H as <- <-. exists []. cbn [map cat_encs fold_right sumN]. repeat split; try reflexivity.
    intros r2. cbn [decode_entries app map]. now rewrite Etp.
  - destruct (decode_box f bs) as [[c r]| | |] eqn:Eb; try discriminate.
    destruct (decode_entries f target (pos + size_box c) r) as [[cs' r']| | |] eqn:Ec; try discriminate.
    injection H as <- <-. cbn [forallb] in Hex. apply andb_true_iff in Hex. destruct Hex as [Hc Hcs].
    destruct (proj1 (tree_both f) _ _ _ Hok Eb Hc) as (_ & _ & _ & Hokr).
    destruct (IHb _ _ _ Hok Eb Hc) as (e1 & He1 & Hl1 & Hs1 & Hrep1).
    destruct (IHe _ _ _ _ _ Hokr Ec Hcs) as (e2 & He2 & Hl2 & Hs2 & Hrep2).
    exists (e1 ++ e2). cbn [map cat_encs fold_right genc snd]. fold (cat_encs (map (genc false) cs')).
    rewrite He1, He2. cbn [rcat]. split; [reflexivity|]. split; [rewrite lenN_app; lia|].
    split; [rewrite lenN_app; cbn [sumN]; lia|].
    intros r2. cbn [decode_entries]. rewrite Etp. rewrite <- app_assoc, Hrep1. rewrite size_norm, Hrep2. reflexivity.
Qed.

(* ---------------------------------------------------------------- the look-ahead of DecodeMetaSR *)
(* the header a decoded box remembers, and the eight bytes it was read from *)
Definition box_hdr (t : mbox) : hdr :=
  match t with MLeaf h _ _ => h | MCont h _ => h | MUnknown h _ => h | MPre h _ _ _ => h end.
Definition hdr8 (h : hdr) : list N := (if h_len h =? 8 then be_enc 4 (h_size h) else be_enc 4 1) ++ h_name h.

Lemma box_hdr_norm t : box_hdr (norm_box t) = box_hdr t.
Proof. destruct t; reflexivity. Qed.

Lemma firstn_exact {A} (x r : list A) n : length x = n -> firstn n (x ++ r) = x.
Proof. intros <-. rewrite firstn_app, Nat.sub_diag, firstn_all. cbn [firstn]. apply app_nil_r. Qed.

Lemma decode_box_hdr f bs t r : decode_box f bs = Ok (t, r) -> exists h r0, dec_hdr bs = Ok (h, r0) /\ box_hdr t = h.
Proof.
  destruct f as [|f]; cbn [decode_box]; [discriminate|]. intros H.
  destruct (dec_hdr bs) as [[h r0]| | |]; try discriminate. exists h, r0. split; [reflexivity|].
  repeat match type of H with
         | (if ?c then _ else _) = Ok _ => destruct c
         | match ?x with _ => _ end = Ok _ => destruct x
         | Err = Ok _ => discriminate H
         | Panic = Ok _ => discriminate H
         | OutOfFuel = Ok _ => discriminate H
         end; injection H as <- _; reflexivity.
Qed.

Lemma rcat_ok (a b : res (list N)) e : rcat a b = Ok e -> exists x y, a = Ok x /\ b = Ok y /\ e = x ++ y.
Proof. destruct a as [x| | |], b as [y| | |]; cbn [rcat]; try discriminate. intros H. injection H as <-. now exists x, y. Qed.

(* the header the encoders write, as a prefix of their output *)
Definition hdr_of_raw (t : mbox) : list N :=
  match t with
  | MLeaf _ l _ => leaf_hdr l
  | MCont h cs => enc_hdr (h_name h) (8 + sumN (map size_box cs))
  | MUnknown h _ => if 8 <? h_len h then enc_hdr_large (h_name h) (h_size h) else enc_hdr (h_name h) (h_size h)
  | MPre _ l _ cs => enc_hdr (leaf_name l) (size_leaf l + sumN (map size_box cs))
  end.
Lemma raw_starts keep t enc : raw_box keep t = Ok enc -> exists tl, enc = hdr_of_raw t ++ tl.
Proof.
  destruct t as [h l r|h cs|h p|h l r cs]; cbn [hdr_of_raw].
  - cbn [raw_box]. unfold raw_leaf. destruct (body_leaf l (if keep then r else dflt_rsv l)); try discriminate.
    intros H. injection H as <-. eexists. reflexivity.
  - rewrite raw_box_cont. cbv zeta. intros H.
    assert (H' : rcat (Ok (enc_hdr (h_name h) (8 + sumN (map size_box cs))))
                   (cat_encs (if bytes_eqb (h_name h) n_moov then moov_order fst (map (genc keep) cs) else map (genc keep) cs)) = Ok enc).
    { destruct (bytes_eqb (h_name h) n_moof); [|exact H]. destruct (moof_pre cs); try discriminate. exact H. }
    destruct (rcat_ok _ _ _ H') as (x & y & Hx & _ & ->). injection Hx as <-. eexists. reflexivity.
  - cbn [raw_box]. intros H. injection H as <-. eexists. reflexivity.
  - rewrite raw_box_pre. intros H. destruct (rcat_ok _ _ _ H) as (x & y & Hx & _ & ->). injection Hx as <-. eexists. reflexivity.
Qed.

(* re-encoding an exact decoded box starts with the eight bytes the box was read from (size field or the large-size
   marker, and the name): what DecodeMetaSR looks at in its first child *)
Lemma reenc_hdr f bs t rest enc : bytes_ok bs = true -> decode_box f bs = Ok (t, rest) -> exact_box t = true ->
  raw_box false t = Ok enc -> exists hd tl1 tl2, length hd = 8%nat /\ bs = hd ++ tl1 /\ enc = hd ++ tl2.
Proof.
  intros Hok H Hex Henc. destruct (raw_starts _ _ _ Henc) as (tl & ->).
  destruct f as [|f]; cbn [decode_box] in H; [discriminate|].
  destruct (dec_hdr bs) as [[h r]| | |] eqn:Eh; try discriminate.
  destruct (dec_hdr_spec _ _ _ Hok Eh) as (Hokr & Hle & Hshape). destruct (dec_hdr_facts _ _ _ Hok Eh) as (Hnm & _).
  assert (Hl4 : length (h_name h) = 4%nat) by (unfold lenN in Hnm; lia).
  assert (Hb4 : forall v, length (be_enc 4 v) = 4%nat) by (intros v; pose proof (lenN_be_enc 4 v) as E; unfold lenN in E; lia).
  (* the full header xh the encoder writes is the one that was read *)
  assert (Hgoal : hdr_of_raw t = (if 8 <? h_len h then enc_hdr_large (h_name h) (h_size h) else enc_hdr (h_name h) (h_size h)) ->
            exists hd tl1 tl2, length hd = 8%nat /\ bs = hd ++ tl1 /\ hdr_of_raw t ++ tl = hd ++ tl2).
  { intros ->. destruct Hshape as [[Hl ->]|[Hl ->]]; rewrite Hl; cbn [N.ltb N.compare Pos.compare Pos.compare_cont].
    - exists (enc_hdr (h_name h) (h_size h)), r, tl. unfold enc_hdr. rewrite app_length, Hb4, Hl4. repeat split.
    - exists (be_enc 4 1 ++ h_name h), (be_enc 8 (h_size h) ++ r), (be_enc 8 (h_size h) ++ tl).
      unfold enc_hdr_large. rewrite app_length, Hb4, Hl4, <- !app_assoc. repeat split. }
  apply Hgoal. clear Hgoal.
  destruct ((lenN r + h_len h <? h_size h) && negb (bytes_eqb (h_name h) n_mdat)); [discriminate|].
  destruct (lookup (h_name h) leaf_table) as [d|] eqn:El.
  - destruct (d h r) as [[[l rsv] r']| | |] eqn:Ed; try discriminate. injection H as <- <-.
    destruct (lookup_in _ _ _ El) as (k & Hin & Hk).
    pose proof (proj1 (Forall_forall _ _) leaf_table_ok _ Hin) as [_ Hname]. cbn [fst snd] in *.
    specialize (Hname _ _ _ _ _ Hk Ed).
    cbn [exact_box] in Hex. apply andb_true_iff in Hex. destruct Hex as [Hh _].
    cbn [hdr_of_raw]. unfold leaf_hdr. rewrite Hname, <- Hk. destruct (leaf_large l).
    + apply andb_true_iff in Hh. destruct Hh as [H1 H2]. apply N.eqb_eq in H1, H2. now rewrite H1, H2.
    + unfold hdr_exact in Hh. apply andb_true_iff in Hh. destruct Hh as [H1 H2]. apply N.eqb_eq in H1, H2. now rewrite H1, H2.
  - destruct (pre_lookup h r) as [[d lk]|] eqn:Epre0.
    { pose proof (pre_lookup_some _ _ _ Epre0) as Epre.
      destruct (d h r) as [[[l rsv] r1]| | |] eqn:Ed; try discriminate.
      destruct (lookup_in _ _ _ Epre) as (k & Hin & Hk).
      pose proof (proj1 (Forall_forall _ _) pre_table_ok _ Hin) as [_ Hname]. cbn [fst snd] in *.
      specialize (Hname _ _ _ _ _ Hk Ed).
      assert (Hpre : forall cs, exact_box (MPre h l rsv cs) = true ->
                hdr_of_raw (MPre h l rsv cs) = (if 8 <? h_len h then enc_hdr_large (h_name h) (h_size h) else enc_hdr (h_name h) (h_size h))).
      { intros cs Hex'. cbn [exact_box] in Hex'. apply andb_true_iff in Hex'. destruct Hex' as [Hex' _].
        apply andb_true_iff in Hex'. destruct Hex' as [Hh _].
        unfold hdr_exact in Hh. apply andb_true_iff in Hh. destruct Hh as [H1 H2]. apply N.eqb_eq in H1, H2.
        cbn [hdr_of_raw]. now rewrite Hname, <- Hk, H1, <- H2. }
      destruct lk as [off|start].
      - destruct (h_size h <? off); [discriminate|].
        destruct (decode_children f (h_size h - off) 0 0 r1) as [[cs r']| | |]; try discriminate.
        destruct (pre_count_ok l (lenN cs)); [|discriminate]. injection H as <- <-. now apply Hpre.
      - destruct (decode_entries f (h_size h) start r1) as [[cs r']| | |]; try discriminate. injection H as <- <-. now apply Hpre. }
    destruct (cont_like h r).
    + destruct (decode_children f (h_size h - 8) 0 0 r) as [[cs r']| | |] eqn:Ec; try discriminate.
      destruct (bytes_eqb (h_name h) n_edts && negb (edts_ok cs)); [discriminate|]. injection H as <- <-.
      cbn [exact_box] in Hex. apply andb_true_iff in Hex. destruct Hex as [Hex _].
      apply andb_true_iff in Hex. destruct Hex as [Hex _]. apply andb_true_iff in Hex. destruct Hex as [Hlen Hcs].
      apply N.eqb_eq in Hlen.
      destruct (proj1 (proj2 (tree_both f)) _ _ _ _ _ _ Hokr Ec Hcs) as (_ & _ & _ & _ & Hsum).
      cbn [hdr_of_raw]. rewrite Hlen. cbn [N.ltb N.compare Pos.compare Pos.compare_cont]. f_equal. lia.
    + destruct (rdB (payload_len h) r) as [[p r']| | |]; try discriminate. injection H as <- <-. reflexivity.
Qed.

Lemma children_reenc_hd f target bs cs r encc r2 : bytes_ok bs = true -> decode_children f target 0 0 bs = Ok (cs, r) ->
  forallb exact_box cs = true -> cat_encs (map (genc false) cs) = Ok encc -> 0 < target ->
  firstn 8 (encc ++ r2) = firstn 8 bs.
Proof.
  intros Hok H Hex Henc Ht. destruct f as [|f]; cbn [decode_children] in H; [discriminate|].
  replace (target <? 0) with false in H by (symmetry; apply N.ltb_ge; lia).
  replace (0 =? target) with false in H by (symmetry; apply N.eqb_neq; lia).
  destruct (decode_box f bs) as [[c r1]| | |] eqn:Eb; try discriminate.
  destruct (negb (0 + size_box c =? 0 + (lenN bs - lenN r1))); [discriminate|].
  destruct (decode_children f target (0 + size_box c) (0 + (lenN bs - lenN r1)) r1) as [[cs' r3]| | |]; try discriminate.
  injection H as <- _. cbn [map cat_encs fold_right genc snd forallb] in Henc, Hex.
  apply andb_true_iff in Hex. destruct Hex as [Hc _].
  destruct (rcat_ok _ _ _ Henc) as (e1 & e2 & He1 & _ & ->).
  destruct (reenc_hdr _ _ _ _ _ Hok Eb Hc He1) as (hd & tl1 & tl2 & Hl & -> & ->).
  rewrite <- !app_assoc. now rewrite !firstn_exact.
Qed.

Lemma skipn_exact {A} (x r : list A) n : length x = n -> skipn n (x ++ r) = r.
Proof. intros <-. rewrite skipn_app, skipn_all, Nat.sub_diag. reflexivity. Qed.
Lemma f4s4_of_f8 (x y : list N) : firstn 8 x = firstn 8 y -> firstn 4 (skipn 4 x) = firstn 4 (skipn 4 y).
Proof. intros E. rewrite !(firstn_skipn_comm 4 4). cbn [Nat.add]. now rewrite E. Qed.
Lemma f4_of_f8 (x y : list N) : firstn 8 x = firstn 8 y -> firstn 4 x = firstn 4 y.
Proof.
  intros E. assert (H : forall z : list N, firstn 4 z = firstn 4 (firstn 8 z)) by (intros z; rewrite firstn_firstn; reflexivity).
  now rewrite (H x), (H y), E.
Qed.

Lemma meta_qt_ext h r1 r2 :
  (bytes_eqb (h_name h) n_meta = true -> 8 <= payload_len h -> firstn 4 (skipn 4 r1) = firstn 4 (skipn 4 r2)) ->
  meta_qt h r1 = meta_qt h r2.
Proof.
  intros H. unfold meta_qt. destruct (bytes_eqb (h_name h) n_meta); [|reflexivity].
  destruct (8 <=? payload_len h) eqn:E; [|reflexivity]. apply N.leb_le in E. now rewrite (H eq_refl E).
Qed.
Lemma pre_lookup_ext h r1 r2 : meta_qt h r1 = meta_qt h r2 -> pre_lookup h r1 = pre_lookup h r2.
Proof. unfold pre_lookup. now intros ->. Qed.
Lemma cont_like_ext h r1 r2 : meta_qt h r1 = meta_qt h r2 -> cont_like h r1 = cont_like h r2.
Proof. unfold cont_like. now intros ->. Qed.
Lemma lookup_meta_pre : lookup n_meta pre_table = Some (dec_fullonly, PStrict 12).
Proof. reflexivity. Qed.
Lemma bytes_ok_app_l (x y : list N) : bytes_ok (x ++ y) = true -> bytes_ok x = true.
Proof. unfold bytes_ok. rewrite forallb_app. intros H. apply andb_true_iff in H. tauto. Qed.

Lemma lookup_mdat_leaf : lookup n_mdat leaf_table <> None.
Proof. vm_compute. discriminate. Qed.

Lemma sbox_step f : sbox f -> schildren f -> sentries f -> sbox (S f).
Proof.
  intros IHb IHc IHe bs t rest Hok H Hex. cbn [decode_box] in H.
  destruct (dec_hdr bs) as [[h r]| | |] eqn:Eh; try discriminate.
  destruct (dec_hdr_spec _ _ _ Hok Eh) as (Hokr & Hle & Hshape).
  destruct (dec_hdr_facts _ _ _ Hok Eh) as (Hnm & Hmax).
  destruct (local_hdr _ _ _ Eh) as (xh & Hbs & Hreph).
  destruct ((lenN r + h_len h <? h_size h) && negb (bytes_eqb (h_name h) n_mdat)) eqn:Echk; [discriminate|].
  destruct (lookup (h_name h) leaf_table) as [d|] eqn:El.
  - (* leaf *)
    destruct (d h r) as [[[l rsv] r']| | |] eqn:Ed; try discriminate.
    injection H as <- <-.
    destruct (lookup_in _ _ _ El) as (k & Hin & Hk).
    pose proof (proj1 (Forall_forall _ _) leaf_table_ok _ Hin) as [Hloss Hname].
    pose proof (proj1 (Forall_forall _ _) leaf_table_stable _ Hin) as Hst. cbn [fst snd] in *.
    specialize (Hname _ _ _ _ _ Hk Ed).
    cbn [exact_box] in Hex. apply andb_true_iff in Hex. destruct Hex as [Hh Hg].
    assert (Hfit : hdr_fits h l).
    { unfold hdr_fits. destruct (leaf_large l).
      - apply andb_true_iff in Hh. destruct Hh as [H1 H2]. apply N.eqb_eq in H1, H2. now repeat split.
      - unfold hdr_exact in Hh. apply andb_true_iff in Hh. destruct Hh as [H1 H2]. apply N.eqb_eq in H1, H2. now repeat split. }
    assert (Hroom : leaf_name l <> n_mdat -> h_size h <= lenN r + h_len h).
    { intros Hne. destruct (bytes_eqb (h_name h) n_mdat) eqn:Em.
      - apply bytes_eqb_eq in Em. congruence.
      - cbn [negb] in Echk. rewrite andb_true_r in Echk. now apply N.ltb_ge in Echk. }
    destruct (Hst _ _ _ _ _ Hokr Hnm Ed Hg Hfit Hroom) as (b' & Hb' & Hlens & Hsize & Hrep).
    destruct Hfit as (Hsz & Hlen & _).
    assert (Hxh : xh = leaf_hdr l).
    { unfold leaf_hdr. rewrite Hname, <- Hk, <- Hsz. apply (app_inv_tail r). rewrite <- Hbs.
      destruct (leaf_large l); destruct Hshape as [[Hl8 Hs]|[Hl16 Hs]]; try lia; exact Hs. }
    assert (Hlh : lenN (leaf_hdr l) = h_len h) by (rewrite lenN_leaf_hdr, Hlen by congruence; reflexivity).
    exists (leaf_hdr l ++ b'). cbn [raw_box size_box]. unfold raw_leaf. rewrite Hb'.
    split; [reflexivity|]. split; [rewrite Hbs, Hxh, !lenN_app; lia|]. split; [rewrite lenN_app, Hlh; lia|].
    intros r2. cbn [decode_box norm_box]. rewrite <- app_assoc, <- Hxh, Hreph.
    replace ((lenN (b' ++ r2) + h_len h <? h_size h) && negb (bytes_eqb (h_name h) n_mdat)) with false
      by (symmetry; apply andb_false_iff; left; apply N.ltb_ge; rewrite lenN_app; lia).
    rewrite El, Hrep. reflexivity.
  - destruct (pre_lookup h r) as [[d lk]|] eqn:Epre0.
    { (* prefixed box *)
      pose proof (pre_lookup_some _ _ _ Epre0) as Epre.
      destruct (d h r) as [[[l rsv] r1]| | |] eqn:Ed; try discriminate.
      destruct (lookup_in _ _ _ Epre) as (k & Hin & Hk).
      pose proof (proj1 (Forall_forall _ _) pre_table_ok _ Hin) as [Hloss Hname].
      pose proof (proj1 (Forall_forall _ _) pre_table_stable _ Hin) as Hst. cbn [fst snd] in *.
      specialize (Hname _ _ _ _ _ Hk Ed).
      assert (Hnl : leaf_large l = false).
      { destruct (leaf_large l) eqn:E; [|reflexivity]. apply large_mdat in E. exfalso. apply lookup_mdat_leaf.
        rewrite <- E, Hname, <- Hk. exact El. }
      assert (Hgoal : forall (cs : list mbox) (r' : list N),
                exact_box (MPre h l rsv cs) = true ->
                (forallb exact_box cs = true -> bytes_ok r1 = true ->
                 exists encc : list N, cat_encs (map (genc false) cs) = Ok encc /\ lenN encc + lenN r' = lenN r1 /\
                   lenN encc = sumN (map size_box cs) /\
                   forall r2 b', (forall r3, d h (b' ++ r3) = Ok ((l, dflt_rsv l), r3)) ->
                     lenN b' + 8 = size_leaf l ->
                     decode_box (S f) ((enc_hdr (h_name h) (h_size h) ++ b' ++ encc) ++ r2) = Ok (MPre h l (dflt_rsv l) (map norm_box cs), r2)) ->
                exists enc : list N, raw_box false (MPre h l rsv cs) = Ok enc /\ lenN enc + lenN r' = lenN bs /\
                  lenN enc = size_box (MPre h l rsv cs) /\
                  forall r2, decode_box (S f) (enc ++ r2) = Ok (norm_box (MPre h l rsv cs), r2)).
      { intros cs r' Hex' Hkids. cbn [exact_box] in Hex'.
        apply andb_true_iff in Hex'. destruct Hex' as [Hex' Hcs].
        apply andb_true_iff in Hex'. destruct Hex' as [Hh Hg].
        unfold hdr_exact in Hh. apply andb_true_iff in Hh. destruct Hh as [H1 H2]. apply N.eqb_eq in H1, H2.
        destruct (Hloss _ _ _ _ _ Hokr Ed Hg) as (b & Hb & Hr & Hokr1).
        destruct (Hst _ _ _ _ _ Hokr Hnm Ed Hg) as (b' & Hb' & Hlens & Hsize & Hrep). rewrite Hnl in Hsize.
        destruct (Hkids Hcs Hokr1) as (encc & Henc & Hlc & Hsc & Hrepc).
        assert (Hxh : xh = enc_hdr (h_name h) (h_size h)).
        { apply (app_inv_tail r). rewrite <- Hbs. destruct Hshape as [[_ Hs]|[Hl16 _]]; [exact Hs|lia]. }
        exists (enc_hdr (h_name h) (h_size h) ++ b' ++ encc).
        rewrite raw_box_pre, Hb', Henc. cbn [rcat]. rewrite Hname, <- Hk, <- H2.
        split; [reflexivity|].
        split; [rewrite Hbs, Hxh, !lenN_app; lia|].
        split; [cbn [size_box]; unfold enc_hdr; rewrite !lenN_app, lenN_be_enc, Hnm; lia|].
        intros r2. cbn [norm_box]. now apply Hrepc. }
      destruct lk as [off|start].
      - destruct (h_size h <? off) eqn:Eoff; [discriminate|].
        destruct (decode_children f (h_size h - off) 0 0 r1) as [[cs r']| | |] eqn:Ec; try discriminate.
        destruct (pre_count_ok l (lenN cs)) eqn:Ecnt; [|discriminate]. injection H as <- <-.
        apply Hgoal; [assumption|]. intros Hcs Hokr1.
        destruct (IHc _ _ _ _ _ _ Hokr1 Ec Hcs) as (encc & Henc & Hlc & Hsc & Hrepc).
        exists encc. repeat split; try assumption.
        intros r2 b' Hrep Hsize.
        cbn [exact_box] in Hex. apply andb_true_iff in Hex. destruct Hex as [Hex' _].
        apply andb_true_iff in Hex'. destruct Hex' as [Hh _].
        unfold hdr_exact in Hh. apply andb_true_iff in Hh. destruct Hh as [H1 H2]. apply N.eqb_eq in H1, H2.
        assert (Hxh : xh = enc_hdr (h_name h) (h_size h)).
        { apply (app_inv_tail r). rewrite <- Hbs. destruct Hshape as [[_ Hs]|[Hl16 _]]; [exact Hs|lia]. }
        cbn [decode_box]. repeat rewrite <- app_assoc. rewrite <- Hxh, Hreph.
        replace ((lenN (b' ++ encc ++ r2) + h_len h <? h_size h) && negb (bytes_eqb (h_name h) n_mdat)) with false
          by (symmetry; apply andb_false_iff; left; apply N.ltb_ge; rewrite !lenN_app; lia).
        assert (Hlm : lenN (map norm_box cs) = lenN cs) by (unfold lenN; now rewrite map_length).
        assert (Hq : pre_lookup h (b' ++ encc ++ r2) = Some (d, PStrict off)).
        { rewrite <- Epre0. apply pre_lookup_ext, meta_qt_ext. intros Hm Hpl. apply bytes_eqb_eq in Hm.
          pose proof Epre as Epre'. rewrite Hm, lookup_meta_pre in Epre'. injection Epre' as <- <-.
          (* ISO meta: four bytes of version and flags, then the first child, in the input and in the re-encoding *)
          clear Hrep Hloss Hst Hgoal. unfold dec_fullonly in Ed. run Ed. inj_pret Ed.
          cbn [size_leaf] in Hsize. assert (Hb4 : length b' = 4%nat) by (unfold lenN in Hsize; lia).
          rewrite (skipn_exact b' _ 4 Hb4).
          match goal with |- context [skipn 4 (be_enc 4 ?v ++ _)] =>
            rewrite (skipn_exact (be_enc 4 v) _ 4) by (pose proof (lenN_be_enc 4 v) as E; unfold lenN in E; lia) end.
          apply f4_of_f8.
          match goal with Hk : bytes_ok ?y = true, Hc : decode_children f _ 0 0 ?y = Ok _ |- _ =>
            apply (children_reenc_hd _ _ _ _ _ _ r2 Hk Hc Hcs Henc) end.
          unfold payload_len in Hpl. lia. }
        rewrite El, Hq, Hrep, Eoff, Hrepc, Hlm, Ecnt. reflexivity.
      - destruct (decode_entries f (h_size h) start r1) as [[cs r']| | |] eqn:Ec; try discriminate.
        injection H as <- <-.
        apply Hgoal; [assumption|]. intros Hcs Hokr1.
        destruct (IHe _ _ _ _ _ Hokr1 Ec Hcs) as (encc & Henc & Hlc & Hsc & Hrepc).
        exists encc. repeat split; try assumption.
        intros r2 b' Hrep Hsize.
        cbn [exact_box] in Hex. apply andb_true_iff in Hex. destruct Hex as [Hex' _].
        apply andb_true_iff in Hex'. destruct Hex' as [Hh _].
        unfold hdr_exact in Hh. apply andb_true_iff in Hh. destruct Hh as [H1 H2]. apply N.eqb_eq in H1, H2.
        assert (Hxh : xh = enc_hdr (h_name h) (h_size h)).
        { apply (app_inv_tail r). rewrite <- Hbs. destruct Hshape as [[_ Hs]|[Hl16 _]]; [exact Hs|lia]. }
        cbn [decode_box]. repeat rewrite <- app_assoc. rewrite <- Hxh, Hreph.
        replace ((lenN (b' ++ encc ++ r2) + h_len h <? h_size h) && negb (bytes_eqb (h_name h) n_mdat)) with false
          by (symmetry; apply andb_false_iff; left; apply N.ltb_ge; rewrite !lenN_app; lia).
        assert (Hq : pre_lookup h (b' ++ encc ++ r2) = Some (d, PEntry start)).
        { rewrite <- Epre0. apply pre_lookup_ext, meta_qt_ext. intros Hm _. apply bytes_eqb_eq in Hm.
          rewrite Hm, lookup_meta_pre in Epre. discriminate Epre. }
        rewrite El, Hq, Hrep, Hrepc. reflexivity. }
    destruct (cont_like h r) eqn:Econt.
    + (* container *)
      destruct (decode_children f (h_size h - 8) 0 0 r) as [[cs r']| | |] eqn:Ec; try discriminate.
      destruct (bytes_eqb (h_name h) n_edts && negb (edts_ok cs)) eqn:Eedts; [discriminate|].
      injection H as <- <-.
      cbn [exact_box] in Hex.
      apply andb_true_iff in Hex. destruct Hex as [Hex Hmoof].
      apply andb_true_iff in Hex. destruct Hex as [Hex Hmoov].
      apply andb_true_iff in Hex. destruct Hex as [Hlen Hcs]. apply N.eqb_eq in Hlen.
      destruct (proj1 (proj2 (tree_both f)) _ _ _ _ _ _ Hokr Ec Hcs) as (_ & _ & _ & _ & Hsum).
      destruct (IHc _ _ _ _ _ _ Hokr Ec Hcs) as (encc & Henc & Hlc & Hsc & Hrepc).
      assert (Hxh : xh = enc_hdr (h_name h) (h_size h)).
      { apply (app_inv_tail r). rewrite <- Hbs. destruct Hshape as [[_ Hs]|[Hl16 _]]; [exact Hs|lia]. }
      assert (Hsz : 8 + sumN (map size_box cs) = h_size h) by lia.
      exists (enc_hdr (h_name h) (h_size h) ++ encc).
      split.
      { rewrite raw_box_cont. cbv zeta.
        assert (Hord : (if bytes_eqb (h_name h) n_moov then moov_order fst (map (genc false) cs) else map (genc false) cs)
                       = map (genc false) cs).
        { destruct (bytes_eqb (h_name h) n_moov); [|reflexivity]. cbn [negb orb] in Hmoov.
          unfold moov_order. rewrite moov_stable_id; [reflexivity|].
          change (@nil (bool * res (list N))) with (map (genc false) []).
          rewrite (moov_stable_map is_trak_box (genc false)); [assumption|reflexivity]. }
        rewrite Hord, Henc, Hsz. cbn [rcat].
        destruct (bytes_eqb (h_name h) n_moof); [|reflexivity].
        cbn [negb orb] in Hmoof. destruct (moof_pre cs); try discriminate. reflexivity. }
      split; [rewrite Hbs, Hxh, !lenN_app; lia|].
      split; [cbn [size_box]; unfold enc_hdr; rewrite !lenN_app, lenN_be_enc, Hnm; lia|].
      intros r2. cbn [decode_box norm_box]. rewrite <- app_assoc, <- Hxh, Hreph.
      replace ((lenN (encc ++ r2) + h_len h <? h_size h) && negb (bytes_eqb (h_name h) n_mdat)) with false
        by (symmetry; apply andb_false_iff; left; apply N.ltb_ge; rewrite !lenN_app; lia).
      assert (Hq : meta_qt h (encc ++ r2) = meta_qt h r).
      { apply meta_qt_ext. intros _ Hpl. apply f4s4_of_f8. apply (children_reenc_hd _ _ _ _ _ _ r2 Hokr Ec Hcs Henc).
        unfold payload_len in Hpl. lia. }
      rewrite El, (pre_lookup_ext _ _ _ Hq), Epre0, (cont_like_ext _ _ _ Hq), Econt, Hrepc, edts_norm, Eedts. reflexivity.
    + (* unknown *)
      destruct (rdB (payload_len h) r) as [[p r']| | |] eqn:Ep; try discriminate.
      injection H as <- <-.
      destruct (rdB_spec _ _ _ _ Hokr Ep) as (Hr & Hlp & _ & Hokr'). unfold payload_len in Hlp.
      cbn [raw_box size_box norm_box].
      assert (Hxh : xh = if 8 <? h_len h then enc_hdr_large (h_name h) (h_size h) else enc_hdr (h_name h) (h_size h)).
      { apply (app_inv_tail r). rewrite <- Hbs.
        destruct Hshape as [[Hl Hs]|[Hl Hs]]; rewrite Hl; cbn [N.ltb N.compare Pos.compare Pos.compare_cont]; exact Hs. }
      assert (Hlx : lenN xh = h_len h).
      { rewrite Hxh. destruct Hshape as [[Hl Hs]|[Hl Hs]]; rewrite Hl; cbn [N.ltb N.compare Pos.compare Pos.compare_cont];
          unfold enc_hdr, enc_hdr_large; rewrite !lenN_app, !lenN_be_enc, Hnm; reflexivity. }
      rewrite <- Hxh. exists (xh ++ p). split; [reflexivity|].
      split; [rewrite Hbs, Hr, !lenN_app; lia|]. split; [rewrite lenN_app; lia|].
      intros r2. cbn [decode_box]. rewrite <- app_assoc, Hreph.
      replace ((lenN (p ++ r2) + h_len h <? h_size h) && negb (bytes_eqb (h_name h) n_mdat)) with false
        by (symmetry; apply andb_false_iff; left; apply N.ltb_ge; rewrite !lenN_app; lia).
      assert (Hq : meta_qt h (p ++ r2) = meta_qt h r).
      { apply meta_qt_ext. intros _ Hpl. rewrite Hr. apply f4s4_of_f8. unfold payload_len in Hpl.
        assert (Hp8 : (8 <= length p)%nat) by (unfold lenN in Hlp; lia).
        rewrite !firstn_app. replace (8 - length p)%nat with 0%nat by lia. reflexivity. }
      rewrite El, (pre_lookup_ext _ _ _ Hq), Epre0, (cont_like_ext _ _ _ Hq), Econt. unfold payload_len. rewrite rdB_lit by exact Hlp. reflexivity.
Qed.

Lemma stable_all f : sbox f /\ schildren f /\ sentries f.
Proof.
  induction f as [|f (IHb & IHc & IHe)].
  - repeat split; intros until 1; cbn; discriminate.
  - repeat split; [now apply sbox_step|now apply schildren_step|now apply sentries_step].
Qed.

(* decode bs accepted with an exact tree: the Go encoders' bytes decode to norm_box t and encode to themselves *)
Lemma fixpoint bs t : bytes_ok bs = true -> decode bs = Ok (t, []) -> exact_box t = true ->
  exists enc, raw_box false t = Ok enc /\ lenN enc = lenN bs /\ lenN enc = size_box t /\
    decode enc = Ok (norm_box t, []) /\ erase_rsv (norm_box t) = erase_rsv t /\ raw_box false (norm_box t) = Ok enc.
Proof.
  intros Hok H Hex. unfold decode in H.
  destruct (proj1 (stable_all _) _ _ _ Hok H Hex) as (enc & He & Hl & Hs & Hrep).
  change (lenN (@nil N)) with 0 in Hl. exists enc. split; [exact He|]. split; [lia|]. split; [exact Hs|].
  split; [|split; [apply erase_norm|now rewrite raw_norm]].
  unfold decode. rewrite (lenN_length_eq enc bs) by lia. specialize (Hrep []). now rewrite app_nil_r in Hrep.
Qed.

(* a file in box-tree mode *)
Lemma seq_fixpoint f : forall bs ts, bytes_ok bs = true -> decode_seq f bs = Ok ts -> forallb exact_box ts = true ->
  exists enc, encode_seq false ts = Ok enc /\ lenN enc = lenN bs /\ decode_seq f enc = Ok (map norm_box ts).
Proof.
  induction f as [|f IH]; intros bs ts Hok H Hex; cbn [decode_seq] in H; [discriminate|].
  destruct bs as [|b0 bs0].
  { injection H as <-. exists []. repeat split. }
  set (bs := b0 :: bs0) in *.
  destruct (decode bs) as [[t r]| | |] eqn:Ed; try discriminate.
  destruct (decode_seq f r) as [ts'| | |] eqn:Es; try discriminate. injection H as <-.
  cbn [forallb] in Hex. apply andb_true_iff in Hex. destruct Hex as [Ht Hts].
  unfold decode in Ed. destruct (proj1 (tree_both _) _ _ _ Hok Ed Ht) as (_ & _ & _ & Hokr).
  destruct (proj1 (stable_all _) _ _ _ Hok Ed Ht) as (e1 & He1 & Hl1 & _ & Hrep1).
  destruct (IH _ _ Hokr Es Hts) as (e2 & He2 & Hl2 & Hrep2).
  exists (e1 ++ e2). cbn [encode_seq map]. rewrite He1, He2. cbn [rcat]. split; [reflexivity|].
  split; [rewrite lenN_app; lia|].
  cbn [decode_seq]. destruct (e1 ++ e2) as [|c0 t0] eqn:Ee.
  { exfalso. apply (f_equal (@lenN N)) in Ee. rewrite lenN_app in Ee. change (lenN (@nil N)) with 0 in Ee.
    unfold bs in Hl1. rewrite lenN_cons in Hl1. lia. }
  rewrite <- Ee. unfold decode. rewrite (lenN_length_eq (e1 ++ e2) bs) by (rewrite lenN_app; lia).
  rewrite Hrep1, Hrep2. reflexivity.
Qed.

Lemma encode_seq_norm ts : encode_seq false (map norm_box ts) = encode_seq false ts.
Proof. induction ts as [|t ts IH]; [reflexivity|]. cbn [map encode_seq]. now rewrite raw_norm, IH. Qed.

Lemma file_fixpoint bs ts : bytes_ok bs = true -> decode_file bs = Ok ts -> forallb exact_box ts = true ->
  exists enc, encode_seq false ts = Ok enc /\ lenN enc = lenN bs /\ decode_file enc = Ok (map norm_box ts) /\
    encode_seq false (map norm_box ts) = Ok enc.
Proof.
  intros Hok H Hex. unfold decode_file in H. destruct (seq_fixpoint _ _ _ Hok H Hex) as (enc & He & Hl & Hrep).
  exists enc. split; [exact He|]. split; [exact Hl|]. split; [|now rewrite encode_seq_norm].
  unfold decode_file. now rewrite (lenN_length_eq enc bs) by exact Hl.
Qed.

(* ---------------------------------------------------------------- Encode / EncodeSW succeed on exact decoded trees *)
Lemma dec_hdr_compact bs h r : bytes_ok bs = true -> dec_hdr bs = Ok (h, r) -> h_len h = 8 -> h_size h < 4294967296.
Proof.
  intros Hok H Hl. unfold dec_hdr in H. run H; inj_pret H; cbn [h_len h_size] in *;
    change (256 ^ N.of_nat 4) with 4294967296 in *; lia.
Qed.

Lemma caps_leaf h l r : (forall b, raw_leaf l (dflt_rsv l) = Ok b -> lenN b <= size_leaf l) -> caps_ok (MLeaf h l r) = true.
Proof.
  intros H. cbn [caps_ok]. destruct (raw_leaf l (dflt_rsv l)) as [b| | |] eqn:E; try (destruct l; reflexivity).
  specialize (H b eq_refl). destruct l; try reflexivity; now apply N.leb_le.
Qed.

Definition fbox (f : nat) : Prop :=
  forall bs t rest, bytes_ok bs = true -> decode_box f bs = Ok (t, rest) -> exact_box t = true ->
    enc_fits t = true /\ caps_ok t = true.
Definition fchildren (f : nat) : Prop :=
  forall target pos used bs cs rest, bytes_ok bs = true ->
    decode_children f target pos used bs = Ok (cs, rest) -> forallb exact_box cs = true ->
    forallb enc_fits cs = true /\ forallb caps_ok cs = true.
Definition fentries (f : nat) : Prop :=
  forall target pos bs cs rest, bytes_ok bs = true ->
    decode_entries f target pos bs = Ok (cs, rest) -> forallb exact_box cs = true ->
    forallb enc_fits cs = true /\ forallb caps_ok cs = true.

Lemma fchildren_step f : fbox f -> fchildren f -> fchildren (S f).
Proof.
  intros IHb IHc target pos used bs cs rest Hok H Hex. cbn [decode_children] in H.
  destruct (target <? pos); [discriminate|]. destruct (pos =? target); [injection H as <- <-; now split|].
  destruct (decode_box f bs) as [[c r]| | |] eqn:Eb; try discriminate.
  destruct (negb (pos + size_box c =? used + (lenN bs - lenN r))); [discriminate|].
  destruct (decode_children f target (pos + size_box c) (used + (lenN bs - lenN r)) r) as [[cs' r']| | |] eqn:Ec; try discriminate.
  injection H as <- <-. cbn [forallb] in *. apply andb_true_iff in Hex. destruct Hex as [Hc Hcs].
  destruct (proj1 (tree_both f) _ _ _ Hok Eb Hc) as (_ & _ & _ & Hokr).
  destruct (IHb _ _ _ Hok Eb Hc) as [H1 H2]. destruct (IHc _ _ _ _ _ _ Hokr Ec Hcs) as [H3 H4].
  now rewrite H1, H2, H3, H4.
Qed.

Lemma fentries_step f : fbox f -> fentries f -> fentries (S f).
Proof.
  intros IHb IHe target pos bs cs rest Hok H Hex. cbn [decode_entries] in H.
  destruct (target <=? pos); [injection H as <- <-; now split|].
  destruct (decode_box f bs) as [[c r]| | |] eqn:Eb; try discriminate.
  destruct (decode_entries f target (pos + size_box c) r) as [[cs' r']| | |] eqn:Ec; try discriminate.
  injection H as <- <-. cbn [forallb] in *. apply andb_true_iff in Hex. destruct Hex as [Hc Hcs].
  destruct (proj1 (tree_both f) _ _ _ Hok Eb Hc) as (_ & _ & _ & Hokr).
  destruct (IHb _ _ _ Hok Eb Hc) as [H1 H2]. destruct (IHe _ _ _ _ _ Hokr Ec Hcs) as [H3 H4].
  now rewrite H1, H2, H3, H4.
Qed.

Lemma fbox_step f : fbox f -> fchildren f -> fentries f -> fbox (S f).
Proof.
  intros IHb IHc IHe bs t rest Hok H Hex.
  (* the size of the whole re-encoding is already known from the fixed-point induction *)
  destruct (proj1 (stable_all (S f)) _ _ _ Hok H Hex) as (enc & Henc & _ & Hsz & _).
  cbn [decode_box] in H.
  destruct (dec_hdr bs) as [[h r]| | |] eqn:Eh; try discriminate.
  destruct (dec_hdr_spec _ _ _ Hok Eh) as (Hokr & Hle & Hshape).
  pose proof (dec_hdr_compact _ _ _ Hok Eh) as Hcompact.
  destruct ((lenN r + h_len h <? h_size h) && negb (bytes_eqb (h_name h) n_mdat)); [discriminate|].
  destruct (lookup (h_name h) leaf_table) as [d|] eqn:El.
  - destruct (d h r) as [[[l rsv] r']| | |] eqn:Ed; try discriminate. injection H as <- <-.
    cbn [exact_box] in Hex. apply andb_true_iff in Hex. destruct Hex as [Hh Hg].
    cbn [raw_box size_box] in Henc, Hsz. split.
    + cbn [enc_fits]. destruct (leaf_large l); [reflexivity|]. cbn [orb].
      unfold hdr_exact in Hh. apply andb_true_iff in Hh. destruct Hh as [H1 H2]. apply N.eqb_eq in H1, H2.
      apply N.ltb_lt. rewrite <- H2. now apply Hcompact.
    + apply caps_leaf. intros b Hb. rewrite Henc in Hb. injection Hb as <-. lia.
  - destruct (pre_lookup h r) as [[d lk]|] eqn:Epre0.
    { pose proof (pre_lookup_some _ _ _ Epre0) as Epre.
      destruct (d h r) as [[[l rsv] r1]| | |] eqn:Ed; try discriminate.
      assert (Hgoal : forall cs, exact_box (MPre h l rsv cs) = true ->
                (forallb exact_box cs = true -> forallb enc_fits cs = true /\ forallb caps_ok cs = true) ->
                enc_fits (MPre h l rsv cs) = true /\ caps_ok (MPre h l rsv cs) = true).
      { intros cs Hex' Hk. cbn [exact_box] in Hex'. apply andb_true_iff in Hex'. destruct Hex' as [Hex' Hcs].
        apply andb_true_iff in Hex'. destruct Hex' as [Hh _].
        unfold hdr_exact in Hh. apply andb_true_iff in Hh. destruct Hh as [H1 H2]. apply N.eqb_eq in H1, H2.
        destruct (Hk Hcs) as [Hf Hc]. cbn [enc_fits caps_ok]. rewrite Hf, Hc, andb_true_r. split; [|reflexivity].
        apply N.ltb_lt. rewrite <- H2. now apply Hcompact. }
      assert (Hokr1 : bytes_ok r1 = true).
      { destruct (lookup_in _ _ _ Epre) as (k & Hin & Hk).
        pose proof (proj1 (Forall_forall _ _) pre_table_stable _ Hin) as Hst. cbn [fst snd] in Hst.
        pose proof (proj1 (Forall_forall _ _) pre_table_ok _ Hin) as [Hloss _]. cbn [fst snd] in Hloss.
        destruct lk.
        - destruct (h_size h <? off); [discriminate|].
          destruct (decode_children f (h_size h - off) 0 0 r1) as [[cs r'']| | |]; try discriminate.
          destruct (pre_count_ok l (lenN cs)); [|discriminate]. injection H as <- <-.
          cbn [exact_box] in Hex. apply andb_true_iff in Hex. destruct Hex as [Hex' _].
          apply andb_true_iff in Hex'. destruct Hex' as [_ Hg]. now destruct (Hloss _ _ _ _ _ Hokr Ed Hg) as (_ & _ & _ & ?).
        - destruct (decode_entries f (h_size h) start r1) as [[cs r'']| | |]; try discriminate. injection H as <- <-.
          cbn [exact_box] in Hex. apply andb_true_iff in Hex. destruct Hex as [Hex' _].
          apply andb_true_iff in Hex'. destruct Hex' as [_ Hg]. now destruct (Hloss _ _ _ _ _ Hokr Ed Hg) as (_ & _ & _ & ?). }
      destruct lk as [off|start].
      - destruct (h_size h <? off); [discriminate|].
        destruct (decode_children f (h_size h - off) 0 0 r1) as [[cs r'']| | |] eqn:Ec; try discriminate.
        destruct (pre_count_ok l (lenN cs)); [|discriminate]. injection H as <- <-.
        apply Hgoal; [assumption|]. intros Hcs. exact (IHc _ _ _ _ _ _ Hokr1 Ec Hcs).
      - destruct (decode_entries f (h_size h) start r1) as [[cs r'']| | |] eqn:Ec; try discriminate. injection H as <- <-.
        apply Hgoal; [assumption|]. intros Hcs. exact (IHe _ _ _ _ _ Hokr1 Ec Hcs). }
    destruct (cont_like h r).
    + destruct (decode_children f (h_size h - 8) 0 0 r) as [[cs r'']| | |] eqn:Ec; try discriminate.
      destruct (bytes_eqb (h_name h) n_edts && negb (edts_ok cs)); [discriminate|]. injection H as <- <-.
      cbn [exact_box] in Hex. apply andb_true_iff in Hex. destruct Hex as [Hex _].
      apply andb_true_iff in Hex. destruct Hex as [Hex _]. apply andb_true_iff in Hex. destruct Hex as [Hlen Hcs].
      apply N.eqb_eq in Hlen.
      destruct (proj1 (proj2 (tree_both f)) _ _ _ _ _ _ Hokr Ec Hcs) as (_ & _ & _ & _ & Hsum).
      destruct (IHc _ _ _ _ _ _ Hokr Ec Hcs) as [Hf Hc]. cbn [enc_fits caps_ok]. rewrite Hf, Hc, andb_true_r.
      split; [|reflexivity]. apply N.ltb_lt. specialize (Hcompact Hlen). lia.
    + destruct (rdB (payload_len h) r) as [[p r'']| | |] eqn:Ep; try discriminate. injection H as <- <-.
      destruct (rdB_spec _ _ _ _ Hokr Ep) as (_ & Hlp & _ & _). unfold payload_len in Hlp.
      cbn [enc_fits caps_ok]. destruct Hshape as [[Hl _]|[Hl _]]; rewrite Hl; cbn [N.ltb N.compare Pos.compare Pos.compare_cont orb].
      * split; [apply N.ltb_lt; exact (Hcompact Hl)|apply N.leb_le; lia].
      * split; [reflexivity|apply N.leb_le; lia].
Qed.

Lemma fits_all f : fbox f /\ fchildren f /\ fentries f.
Proof.
  induction f as [|f (IHb & IHc & IHe)].
  - split; [|split].
    + intros bs t rest _ H. discriminate H.
    + intros target pos used bs cs rest _ H. discriminate H.
    + intros target pos bs cs rest _ H. discriminate H.
  - split; [|split]; [now apply fbox_step|now apply fchildren_step|now apply fentries_step].
Qed.

Lemma forallb_map_ext (f : mbox -> bool) cs : Forall (fun c => f (norm_box c) = f c) cs -> forallb f (map norm_box cs) = forallb f cs.
Proof. induction 1 as [|c t Hc _ IH]; [reflexivity|]. cbn [map forallb]. now rewrite Hc, IH. Qed.

Lemma enc_fits_norm t : enc_fits (norm_box t) = enc_fits t.
Proof.
  induction t as [h l r|h cs IH|h p|h l r cs IH] using mbox_rect2; cbn [norm_box enc_fits]; try reflexivity.
  - now rewrite sizes_norm, (forallb_map_ext enc_fits cs IH).
  - now rewrite sizes_norm, (forallb_map_ext enc_fits cs IH).
Qed.
Lemma caps_ok_norm t : caps_ok (norm_box t) = caps_ok t.
Proof.
  induction t as [h l r|h cs IH|h p|h l r cs IH] using mbox_rect2; cbn [norm_box caps_ok]; try reflexivity.
  - exact (forallb_map_ext caps_ok cs IH).
  - exact (forallb_map_ext caps_ok cs IH).
Qed.

(* the fixed point stated on the two encode paths of the Go API (Box.Encode and Box.EncodeSW) *)
Lemma fixpoint_api bs t : bytes_ok bs = true -> decode bs = Ok (t, []) -> exact_box t = true ->
  exists enc, encode_w t = Ok enc /\ encode_sw t = Ok enc /\ lenN enc = lenN bs /\
    decode enc = Ok (norm_box t, []) /\ encode_w (norm_box t) = Ok enc /\ encode_sw (norm_box t) = Ok enc.
Proof.
  intros Hok H Hex. destruct (fixpoint _ _ Hok H Hex) as (enc & He & Hl & Hs & Hd & _ & Hn).
  unfold decode in H. destruct (proj1 (fits_all _) _ _ _ Hok H Hex) as [Hf Hc].
  exists enc. unfold encode_w, encode_sw. rewrite He, Hf, Hc. cbn [andb].
  replace (lenN enc <=? size_box t) with true by (symmetry; apply N.leb_le; lia).
  repeat split; try assumption.
  all: rewrite Hn, enc_fits_norm, ?caps_ok_norm, ?size_norm, Hf, ?Hc; cbn [andb].
  - reflexivity.
  - replace (lenN enc <=? size_box t) with true by (symmetry; apply N.leb_le; lia). reflexivity.
Qed.

(* ---------------------------------------------------------------- everything about one box, and a file through Box.Encode *)
Lemma fixpoint_full bs t : bytes_ok bs = true -> decode bs = Ok (t, []) -> exact_box t = true ->
  exists enc, raw_box false t = Ok enc /\ encode_w t = Ok enc /\ encode_sw t = Ok enc /\
    lenN enc = lenN bs /\ lenN enc = size_box t /\
    decode enc = Ok (norm_box t, []) /\ erase_rsv (norm_box t) = erase_rsv t /\
    raw_box false (norm_box t) = Ok enc /\ encode_w (norm_box t) = Ok enc /\ encode_sw (norm_box t) = Ok enc.
Proof.
  intros Hok H Hex. destruct (fixpoint _ _ Hok H Hex) as (enc & He & Hl & Hs & Hd & Her & Hn).
  destruct (fixpoint_api _ _ Hok H Hex) as (enc' & Hw & Hsw & _ & _ & Hw' & Hsw').
  assert (enc' = enc). { unfold encode_w in Hw. rewrite He in Hw. destruct (enc_fits t && caps_ok t); [now injection Hw|discriminate]. }
  subst enc'. exists enc. repeat split; assumption.
Qed.

(* File.Encode: `for _, b := range f.Children { b.Encode(w) }` *)
Fixpoint encode_seq_w (ts : list mbox) : res (list N) :=
  match ts with [] => Ok [] | t :: r => rcat (encode_w t) (encode_seq_w r) end.

Lemma encode_seq_w_fits ts : forallb (fun t => enc_fits t && caps_ok t) ts = true -> encode_seq_w ts = encode_seq false ts.
Proof.
  induction ts as [|t r IH]; [reflexivity|]. cbn [forallb encode_seq_w encode_seq]. intros H. apply andb_true_iff in H.
  destruct H as [Ht Hr]. rewrite (IH Hr). unfold encode_w. rewrite Ht. destruct (raw_box false t); reflexivity.
Qed.

Lemma seq_fits f : forall bs ts, bytes_ok bs = true -> decode_seq f bs = Ok ts -> forallb exact_box ts = true ->
  forallb (fun t => enc_fits t && caps_ok t) ts = true.
Proof.
  induction f as [|f IH]; intros bs ts Hok H Hex; cbn [decode_seq] in H; [discriminate|].
  destruct bs as [|b0 bs0]; [injection H as <-; reflexivity|]. set (bs := b0 :: bs0) in *.
  destruct (decode bs) as [[t r]| | |] eqn:Ed; try discriminate.
  destruct (decode_seq f r) as [ts'| | |] eqn:Es; try discriminate. injection H as <-.
  cbn [forallb] in *. apply andb_true_iff in Hex. destruct Hex as [Ht Hts].
  unfold decode in Ed. destruct (proj1 (tree_both _) _ _ _ Hok Ed Ht) as (_ & _ & _ & Hokr).
  destruct (proj1 (fits_all _) _ _ _ Hok Ed Ht) as [H1 H2]. now rewrite H1, H2, (IH _ _ Hokr Es Hts).
Qed.

Lemma fits_norm_all ts : forallb (fun t => enc_fits t && caps_ok t) (map norm_box ts) = forallb (fun t => enc_fits t && caps_ok t) ts.
Proof. induction ts as [|t r IH]; [reflexivity|]. cbn [map forallb]. now rewrite enc_fits_norm, caps_ok_norm, IH. Qed.

Lemma file_fixpoint_full bs ts : bytes_ok bs = true -> decode_file bs = Ok ts -> forallb exact_box ts = true ->
  exists enc, encode_seq false ts = Ok enc /\ encode_seq_w ts = Ok enc /\ lenN enc = lenN bs /\
    decode_file enc = Ok (map norm_box ts) /\ encode_seq false (map norm_box ts) = Ok enc /\ encode_seq_w (map norm_box ts) = Ok enc.
Proof.
  intros Hok H Hex. destruct (file_fixpoint _ _ Hok H Hex) as (enc & He & Hl & Hd & Hn).
  unfold decode_file in H. pose proof (seq_fits _ _ _ Hok H Hex) as Hf.
  exists enc. rewrite (encode_seq_w_fits _ Hf), (encode_seq_w_fits (map norm_box ts)) by (now rewrite fits_norm_all).
  repeat split; assumption.
Qed.
