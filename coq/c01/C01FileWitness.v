(* C01FileWitness.v — whole files through DecodeFileSR with its File-level rules (C01FileModel): progressive files with
   the mdat before and after the moov, a fragmented file, the files the rules refuse, and the accepted file that is not
   reproduced (a cut-short mdat).  All by computation on the byte lists of C01FileExamples.v. *)
From V.lib Require Import Base.
From V.c01 Require Import C01Codec C01Model C01FileModel C01FileExamples.

Definition fseq_of (bs : list N) : list mbox := match decode_file_sr bs with FOk ts => ts | _ => [] end.
Definition file_ok (bs : list N) (names : list (list N)) (frag : bool) : Prop :=
  bytes_ok bs = true /\ decode_file_sr bs = FOk (fseq_of bs) /\ map box_name (fseq_of bs) = names /\
  file_frag (fseq_of bs) = frag /\ forallb exact_box (fseq_of bs) = true /\
  file_encode_w (fseq_of bs) = Ok bs /\ file_encode_sw (fseq_of bs) = Ok bs.

(* (d) progressive files: File.Encode writes the children as decoded, wherever the mdat stands *)
Lemma ex_prog_mdat_first_ok : file_ok fx_prog_mdat_first [n_ftyp; n_mdat; n_moov] false.
Proof. vm_compute. repeat split. Qed.
Lemma ex_prog_moov_first_ok : file_ok fx_prog_moov_first [n_ftyp; n_moov; n_free; n_mdat] false.
Proof. vm_compute. repeat split. Qed.
Lemma ex_prog_empty_mdats_ok : file_ok fx_prog_empty_mdats [n_ftyp; n_mdat; n_mdat; n_mdat; n_moov] false.
Proof. vm_compute. repeat split. Qed.
Lemma ex_frag_ok : file_ok fx_frag [n_ftyp; n_moov; n_styp; n_moof; n_mdat; n_moof; n_mdat] true.
Proof. vm_compute. repeat split. Qed.

(* refused by a File-level rule although the box loop alone accepts every box *)
Definition bseq_of (bs : list N) : list mbox := match decode_file bs with Ok ts => ts | _ => [] end.
Definition rule_refuses (bs : list N) : Prop :=
  decode_file_sr bs = FErr /\ decode_file bs = Ok (bseq_of bs) /\ forallb exact_box (bseq_of bs) = true /\ bseq_of bs <> [].
Lemma ex_two_mdats_refused : rule_refuses fx_two_mdats.
Proof. vm_compute. repeat split; discriminate. Qed.
Lemma ex_frag_mdat_first_refused : rule_refuses fx_frag_mdat_first.
Proof. vm_compute. repeat split; discriminate. Qed.
Lemma ex_nochain_refused : rule_refuses fx_nochain.
Proof. vm_compute. repeat split; discriminate. Qed.
(* refused by DecodeHeaderSR: trailing bytes shorter than a header, a size-0 header *)
Lemma ex_trailing_refused : decode_file_sr fx_trailing = FErr /\ decode_file_sr fx_size0 = FErr.
Proof. split; vm_compute; reflexivity. Qed.

(* ACCEPTED and NOT reproduced: the last mdat announces 100 bytes, 4 are there; DecodeMdatSR keeps an empty payload,
   the loop ends (the reader is in its error state), File.Encode writes an 8-byte mdat: 4 bytes of payload are lost *)
Definition fenc_of (bs : list N) : list N := match file_encode_w (fseq_of bs) with Ok e => e | _ => [] end.
Lemma file_trunc_mdat_refuted :
  decode_file_sr fx_trunc_mdat = FOk (fseq_of fx_trunc_mdat) /\ map box_name (fseq_of fx_trunc_mdat) = [n_ftyp; n_moov; n_mdat] /\
  forallb exact_box (fseq_of fx_trunc_mdat) = false /\ file_encode_w (fseq_of fx_trunc_mdat) = Ok (fenc_of fx_trunc_mdat) /\
  lenN fx_trunc_mdat = 504 /\ lenN (fenc_of fx_trunc_mdat) = 500 /\ firstn 492 (fenc_of fx_trunc_mdat) = firstn 492 fx_trunc_mdat.
Proof. vm_compute. repeat split. Qed.
