(* C01GenFileModel.v -- DEFINITIONS ONLY (extracted).  The second generation at the File level: what the model of DecodeFileSR says
   about the bytes File.Encode wrote for a file that was accepted and NOT reproduced.  Classes as in C01GenModel. *)
From V.lib Require Import Base.
From V.c01 Require Import C01Codec C01Model C01FileModel C01GenModel.

Definition gen2_file (enc : list N) : gen2_class :=
  if bytes_ok enc then
    match decode_file_sr enc with
    | FOk ts2 => match flat_map why_box ts2 with [] => G2Fix | _ :: _ => G2Why end
    | _ => G2Rej
    end
  else G2Bytes.

Definition gen2_file_ok (enc : list N) : bool := match gen2_file enc with G2Fix => true | _ => false end.
