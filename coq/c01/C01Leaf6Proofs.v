(* C01Leaf6Proofs.v — decoders of the shape `data := sr.ReadBytes(payloadLen); decodeXxxFromData(data)` (dec_whole):
   dac3 and dec3.  One lemma per kind (the encoder's body of a guarded decoded value is the data, Size() is its length + 8)
   gives losslessness, the name, and print-then-parse. *)
From V.lib Require Import Base.
From V.c01 Require Import C01Codec C01Model C01LeafProofs.

Definition whole_ok (f : list N -> option leaf) (nm : list N) : Prop :=
  forall d l, bytes_ok d = true -> f d = Some l ->
    leaf_name l = nm /\ dflt_rsv l = [] /\ leaf_large l = false /\
    (leaf_guard l = true -> body_leaf l [] = Ok d /\ size_leaf l = 8 + lenN d).

Lemma whole_run f h r l rsv r' : bytes_ok r = true -> dec_whole f h r = Ok ((l, rsv), r') ->
  exists d, r = d ++ r' /\ lenN d = payload_len h /\ bytes_ok d = true /\ bytes_ok r' = true /\ f d = Some l /\ rsv = [].
Proof.
  intros Hok H. unfold dec_whole in H. apply pbind_ok in H. destruct H as (d & r1 & E & H).
  destruct (rdB_spec _ _ _ _ Hok E) as (-> & Hl & Hd & Hr1).
  destruct (f d) as [l0|] eqn:Ef; [|discriminate]. injection H as <- <- <-. exists d. repeat split; assumption.
Qed.

Lemma whole_lossless f nm : whole_ok f nm -> leaf_lossless (dec_whole f).
Proof.
  intros Hf h r l rsv r' Hok H G. destruct (whole_run _ _ _ _ _ _ Hok H) as (d & -> & Hl & Hd & Hr' & Ef & ->).
  destruct (Hf _ _ Hd Ef) as (_ & _ & _ & Hb). destruct (Hb G) as [Hb1 _]. exists d. repeat split; assumption.
Qed.

Lemma whole_name f nm : whole_ok f nm -> forall h r l rsv r', bytes_ok r = true -> dec_whole f h r = Ok ((l, rsv), r') -> leaf_name l = nm.
Proof.
  intros Hf h r l rsv r' Hok H. destruct (whole_run _ _ _ _ _ _ Hok H) as (d & _ & _ & Hd & _ & Ef & _).
  exact (proj1 (Hf _ _ Hd Ef)).
Qed.

(* ---------------------------------------------------------------- dac3 *)
Lemma dac3_recombine w : w < 16777216 ->
  match dac3_fields w with (a, b, c, d, e, f, g) => dac3_word a b c d e f g end = w.
Proof. intros H. unfold dac3_fields, dac3_word. lia. Qed.

Lemma zeros_of_forallb (zs : list N) : forallb (N.eqb 0) zs = true -> zs = zeros (length zs).
Proof.
  induction zs as [|z t IH]; [reflexivity|]. cbn [forallb length]. intros H. apply andb_true_iff in H. destruct H as [Hz Ht].
  apply N.eqb_eq in Hz. subst z. unfold zeros. cbn [repeat]. f_equal. exact (IH Ht).
Qed.

Lemma dac3_ok : whole_ok dac3_of n_dac3.
Proof.
  intros d l Hok H. unfold dac3_of in H. destruct (lenN d <? 3) eqn:E3.
  - destruct (dac3_fields _) as [[[[[[a b] c] d0] e] f] g]. injection H as <-.
    split; [reflexivity|]. split; [reflexivity|]. split; [reflexivity|]. intros G. discriminate G.
  - destruct (rdB _ d) as [[zs rest]| | |] eqn:Ez; try discriminate.
    destruct (rdB_spec _ _ _ _ Hok Ez) as (-> & Hlz & Hokz & Hokrest).
    destruct (negb (forallb (N.eqb 0) zs)) eqn:Ezz; [discriminate|]. apply negb_false_iff in Ezz.
    destruct (rd 3 rest) as [[w extra]| | |] eqn:Ew; try discriminate.
    destruct (rd_spec _ _ _ _ Hokrest Ew) as (-> & Hw & Hokx).
    pose proof (dac3_recombine w) as Hrec.
    destruct (dac3_fields w) as [[[[[[a b] c] d0] e] f] g]. injection H as <-.
    split; [reflexivity|]. split; [reflexivity|]. split; [reflexivity|]. intros G. cbn [leaf_guard] in G. apply N.eqb_eq in G.
    assert (extra = []) by (destruct extra; [reflexivity|rewrite lenN_cons in G; lia]). subst extra.
    change (256 ^ N.of_nat 3) with 16777216 in Hw. specialize (Hrec Hw).
    cbn [body_leaf size_leaf]. rewrite Hrec. rewrite <- Hlz.
    replace (N.to_nat (lenN zs)) with (length zs) by (unfold lenN; now rewrite Nat2N.id).
    rewrite <- (zeros_of_forallb zs Ezz). split; [reflexivity|].
    rewrite !lenN_app, lenN_be_enc. change (lenN (@nil N)) with 0. lia.
Qed.

(* ---------------------------------------------------------------- dec3 *)
Lemma item_ec3 bs s z r : bytes_ok bs = true -> rd_ec3sub bs = Ok ((s, z), r) ->
  bytes_ok r = true /\ (z = true -> bs = wr_ec3sub s ++ r).
Proof.
  intros Hok H. unfold rd_ec3sub in H. run H; inj_pret H; (split; [assumption|]); intros Hz;
    change (256 ^ N.of_nat 1) with 256 in *; cbn [wr_ec3sub]; rewrite ?Hc; repeat rewrite <- app_assoc.
  - apply andb_true_iff in Hz. destruct Hz as [Z1 Z2]. apply N.eqb_eq in Z1, Z2.
    f_equal; [f_equal; lia|]. f_equal; [f_equal; lia|]. f_equal; [f_equal; lia|]. cbn [app]. f_equal. f_equal. lia.
  - apply andb_true_iff in Hz. destruct Hz as [Hz Z3]. apply andb_true_iff in Hz. destruct Hz as [Z1 Z2]. apply N.eqb_eq in Z1, Z2, Z3.
    f_equal; [f_equal; lia|]. f_equal; [f_equal; lia|]. cbn [app]. f_equal. f_equal. lia.
Qed.

Definition ec3_len (s : N * N * N * N * N * N * N * N) : N :=
  match s with (_, _, _, _, _, _, nds, _) => if 0 <? nds then 4 else 3 end.
Lemma lenN_wr_ec3sub s : lenN (wr_ec3sub s) = ec3_len s.
Proof.
  destruct s as [[[[[[[a b] c] d] e] f] nds] cl]. cbn [wr_ec3sub ec3_len]. destruct (0 <? nds);
    repeat rewrite lenN_app; repeat rewrite lenN_be_enc; reflexivity.
Qed.
Lemma lenN_wr_ec3subs l : lenN (flat_map wr_ec3sub l) = sumN (map ec3_len l).
Proof. induction l as [|s t IH]; [reflexivity|]. cbn [flat_map map sumN]. now rewrite lenN_app, lenN_wr_ec3sub, IH. Qed.

Lemma many_ec3 f : forall cnt bs l r, bytes_ok bs = true -> rd_many f cnt rd_ec3sub bs = Ok (l, r) ->
  bytes_ok r = true /\ lenN l = cnt /\ (forallb snd l = true -> bs = flat_map wr_ec3sub (map fst l) ++ r).
Proof.
  induction f as [|f IH]; intros cnt bs l r Hok H; cbn [rd_many] in H.
  - destruct (cnt =? 0) eqn:Ec; [|discriminate]. injection H as <- <-. apply N.eqb_eq in Ec. now repeat split.
  - destruct (cnt =? 0) eqn:Ec; [injection H as <- <-; apply N.eqb_eq in Ec; now repeat split|]. apply N.eqb_neq in Ec.
    destruct (rd_ec3sub bs) as [[[s z] r1]| | |] eqn:E1; try discriminate.
    destruct (rd_many f (cnt - 1) rd_ec3sub r1) as [[l' r']| | |] eqn:E2; try discriminate. injection H as <- <-.
    destruct (item_ec3 _ _ _ _ Hok E1) as [Hok1 Hi]. destruct (IH _ _ _ _ Hok1 E2) as (Hokr & Hl & Hrest).
    split; [assumption|]. split; [rewrite lenN_cons; lia|]. cbn [forallb snd map fst flat_map]. intros Hz.
    apply andb_true_iff in Hz. destruct Hz as [Z1 Z2]. rewrite (Hi Z1) at 1. rewrite (Hrest Z2) at 1. now rewrite <- app_assoc.
Qed.

Lemma dec3_ok : whole_ok dec3_of n_dec3.
Proof.
  intros d l Hok H. unfold dec3_of in H.
  match type of H with match ?p d with _ => _ end = _ => destruct (p d) as [[[dr subs] reserved]| | |] eqn:E; try discriminate end.
  injection H as <-. split; [reflexivity|]. split; [reflexivity|]. split; [reflexivity|]. intros G. cbn [leaf_guard] in G.
  apply pbind_ok in E. destruct E as (hd & r1 & E1 & E). destruct (rd_spec _ _ _ _ Hok E1) as (-> & Hhd & Hok1).
  apply pbind_ok in E. destruct E as (ss & r2 & E2 & E). unfold pret in E. injection E as <- <- <-.
  destruct (many_ec3 _ _ _ _ _ Hok1 E2) as (Hok2 & Hl & Hbs). rewrite (Hbs G).
  cbn [body_leaf size_leaf]. fold ec3_len.
  assert (Hml : lenN (map fst ss) = lenN ss) by (unfold lenN; now rewrite map_length).
  split.
  - rewrite Hml, Hl. f_equal. f_equal. f_equal. change (256 ^ N.of_nat 2) with 65536 in Hhd. lia.
  - rewrite !lenN_app, lenN_be_enc, lenN_wr_ec3subs. lia.
Qed.

Lemma lossless_dac3 : leaf_lossless dec_dac3. Proof. exact (whole_lossless _ _ dac3_ok). Qed.
Lemma lossless_dec3 : leaf_lossless dec_dec3. Proof. exact (whole_lossless _ _ dec3_ok). Qed.
