(* C06CencProofs.v — CryptSampleCenc is an involution for EVERY block function E, every key, IV and
   sub-sample map (overlapping or wrapping maps included): only xor algebra is used. *)
From V.lib Require Import Base.
From V.c07 Require Import C07Model.

(* ---------------------------------------------------------------- xorl algebra *)
Lemma xorl_cons a b x y : xorl (a :: x) (b :: y) = N.lxor a b :: xorl x y.
Proof. reflexivity. Qed.

Lemma xorl_len a b : length a = length b -> length (xorl a b) = length a.
Proof. intros H. unfold xorl. rewrite map_length, combine_length, <- H. apply Nat.min_id. Qed.

Lemma xorl_app a1 a2 b1 b2 :
  length a1 = length a2 -> xorl (a1 ++ b1) (a2 ++ b2) = xorl a1 a2 ++ xorl b1 b2.
Proof.
  revert a2. induction a1 as [|x t IH]; intros [|y u] H; try discriminate; [reflexivity|].
  cbn [app]. rewrite !xorl_cons, IH by (cbn in H; lia). reflexivity.
Qed.

Lemma xorl_firstn n : forall a b, xorl (firstn n a) (firstn n b) = firstn n (xorl a b).
Proof.
  induction n as [|n IH]; intros a b; [reflexivity|].
  destruct a as [|x t]; [reflexivity|]. destruct b as [|y u]; [cbn; destruct (firstn n t); reflexivity|].
  cbn [firstn]. rewrite !xorl_cons. cbn [firstn]. rewrite IH. reflexivity.
Qed.

Lemma xorl_skipn n : forall a b, length a = length b -> xorl (skipn n a) (skipn n b) = skipn n (xorl a b).
Proof.
  induction n as [|n IH]; intros a b H; [reflexivity|].
  destruct a as [|x t]; destruct b as [|y u]; try discriminate; [reflexivity|].
  cbn [skipn]. rewrite xorl_cons. cbn [skipn]. apply IH. cbn in H. lia.
Qed.

Lemma lxor_cancel a b k : N.lxor (N.lxor a k) (N.lxor b k) = N.lxor a b.
Proof.
  rewrite N.lxor_assoc, (N.lxor_comm b k), <- (N.lxor_assoc k k b), N.lxor_nilpotent, N.lxor_0_l. reflexivity.
Qed.

Lemma xorl_cancel : forall k a b,
  length a = length k -> length b = length k -> xorl (xorl a k) (xorl b k) = xorl a b.
Proof.
  induction k as [|z k IH]; intros [|x a] [|y b] Ha Hb; try discriminate; [reflexivity|].
  rewrite !xorl_cons, lxor_cancel, IH by (cbn in *; lia). reflexivity.
Qed.

Lemma xorl_involutive : forall k a, length a = length k -> xorl (xorl a k) k = a.
Proof.
  induction k as [|z k IH]; intros [|x a] Ha; try discriminate; [reflexivity|].
  rewrite !xorl_cons, IH by (cbn in *; lia).
  rewrite N.lxor_assoc, N.lxor_nilpotent, N.lxor_0_r. reflexivity.
Qed.

(* c xor c2 = s xor c  ->  c2 = s *)
Lemma xorl_solve : forall c c2 s,
  length c2 = length c -> length s = length c -> xorl c c2 = xorl s c -> c2 = s.
Proof.
  induction c as [|z c IH]; intros [|x c2] [|y s] H2 Hs He; try discriminate; [reflexivity|].
  rewrite !xorl_cons in He. inversion He as [[H0 H1]].
  f_equal.
  - rewrite <- (N.lxor_0_l x), <- (N.lxor_nilpotent z), N.lxor_assoc, H0.
    rewrite (N.lxor_comm y z), <- N.lxor_assoc, N.lxor_nilpotent, N.lxor_0_l. reflexivity.
  - apply IH; cbn in *; try lia. exact H1.
Qed.

Lemma skipn_add {A} (l : list A) a b : skipn (a + b) l = skipn b (skipn a l).
Proof.
  revert l. induction a as [|a IH]; intros l; [reflexivity|].
  destruct l as [|x t]; [cbn; destruct b; reflexivity|]. cbn [Nat.add skipn]. apply IH.
Qed.

(* ---------------------------------------------------------------- the stream *)
Section Inv.
  Variable E : list N -> list N -> list N.
  Variable key : list N.

  (* the keystream and the next state depend only on the state and the number of bytes *)
  Lemma xor_stream_ks : forall n st,
    exists ks st', length ks = n /\
                   forall data, length data = n -> xor_stream E key st data = (xorl data ks, st').
  Proof.
    induction n as [|n IH]; intros st.
    - exists [], st. split; [reflexivity|]. intros [|b t] H; [reflexivity|discriminate].
    - destruct (next_ks E key st) as [k st1] eqn:Ek. destruct (IH st1) as (ks & st' & Hl & H).
      exists (k :: ks), st'. split; [cbn; lia|]. intros [|b t] Hd; [discriminate|].
      cbn [xor_stream]. rewrite Ek, (H t) by (cbn in Hd; lia). reflexivity.
  Qed.

  Lemma splice_len s pos o :
    (N.to_nat pos + length o <= length s)%nat -> length (splice s pos o) = length s.
  Proof. intros H. unfold splice. rewrite !app_length, firstn_length, skipn_length. lia. Qed.

  (* in-place xor of the same keystream at the same place preserves the difference of two samples *)
  Lemma splice_diff s1 s2 P n ks :
    length s1 = length s2 -> (P + n <= length s1)%nat -> length ks = n ->
    xorl (firstn P s1 ++ xorl (firstn n (skipn P s1)) ks ++ skipn (P + n) s1)
         (firstn P s2 ++ xorl (firstn n (skipn P s2)) ks ++ skipn (P + n) s2)
    = xorl s1 s2.
  Proof.
    intros Hl Hp Hk.
    assert (Hseg1 : length (firstn n (skipn P s1)) = n) by (rewrite firstn_length, skipn_length; lia).
    assert (Hseg2 : length (firstn n (skipn P s2)) = n) by (rewrite firstn_length, skipn_length; lia).
    rewrite xorl_app by (rewrite !firstn_length; lia).
    rewrite xorl_app by (rewrite !xorl_len; lia).
    rewrite xorl_cancel by lia.
    rewrite xorl_firstn, xorl_firstn, !xorl_skipn by (rewrite ?skipn_length; lia).
    rewrite skipn_add.
    rewrite (firstn_skipn n), (firstn_skipn P). reflexivity.
  Qed.

  Lemma cenc_loop_diff : forall ssps st pos s1 s2 c1,
    length s1 = length s2 ->
    cenc_loop E key st ssps pos s1 = Ok c1 ->
    exists c2, cenc_loop E key st ssps pos s2 = Ok c2 /\ xorl c1 c2 = xorl s1 s2 /\
               length c1 = length s1 /\ length c2 = length s2.
  Proof.
    induction ssps as [|ss t IH]; intros st pos s1 s2 c1 Hl H.
    - cbn in H. inversion H; subst. exists s2. repeat split; reflexivity.
    - cbn [cenc_loop] in *.
      set (pos' := if 0 <? ss_clear ss then u32 (pos + ss_clear ss) else pos) in *.
      destruct (0 <? ss_prot ss); [|apply (IH st pos' s1 s2 c1 Hl H)].
      set (hi := u32 (pos' + ss_prot ss)) in *.
      assert (HlN : lenN s1 = lenN s2) by (unfold lenN; rewrite Hl; reflexivity).
      unfold slice in *. rewrite <- HlN.
      destruct ((hi <? pos') || (lenN s1 <? hi)) eqn:Ec; [discriminate|].
      cbn [rbind] in *.
      apply orb_false_iff in Ec. destruct Ec as [E1 E2]. apply N.ltb_ge in E1, E2.
      set (P := N.to_nat pos') in *. set (n := N.to_nat (hi - pos')) in *.
      assert (Hfit : (P + n <= length s1)%nat) by (unfold P, n, lenN in *; lia).
      assert (Hseg1 : length (firstn n (skipn P s1)) = n) by (rewrite firstn_length, skipn_length; lia).
      assert (Hseg2 : length (firstn n (skipn P s2)) = n) by (rewrite firstn_length, skipn_length; lia).
      destruct (xor_stream_ks n st) as (ks & st' & Hk & Hx).
      rewrite (Hx _ Hseg1) in H. rewrite (Hx _ Hseg2).
      unfold splice in *. fold P in H |- *.
      rewrite xorl_len in H by lia. rewrite xorl_len by lia. rewrite Hseg1 in H. rewrite Hseg2.
      set (t1 := firstn P s1 ++ xorl (firstn n (skipn P s1)) ks ++ skipn (P + n) s1) in *.
      set (t2 := firstn P s2 ++ xorl (firstn n (skipn P s2)) ks ++ skipn (P + n) s2) in *.
      assert (Ht1 : length t1 = length s1).
      { unfold t1. rewrite !app_length, firstn_length, xorl_len, skipn_length by lia. lia. }
      assert (Ht2 : length t2 = length s2).
      { unfold t2. rewrite !app_length, firstn_length, xorl_len, skipn_length by lia. lia. }
      destruct (IH st' hi t1 t2 c1 ltac:(lia) H) as (c2 & Hc2 & Hd & L1 & L2).
      exists c2. split; [exact Hc2|]. split; [|lia].
      rewrite Hd. unfold t1, t2. apply splice_diff; assumption.
  Qed.

  (* func CryptSampleCenc applied twice with the same key, IV and map restores the sample *)
  Lemma crypt_sample_cenc_involution iv ssps s c :
    crypt_sample_cenc E key iv ssps s = Ok c -> crypt_sample_cenc E key iv ssps c = Ok s.
  Proof.
    unfold crypt_sample_cenc. destruct (negb (key_ok key)); [discriminate|].
    destruct (negb (lenN iv =? 16)); [discriminate|].
    destruct ssps as [|ss t].
    - intros H. inversion H as [Hc]. clear H.
      destruct (xor_stream_ks (length s) (mkCtr iv [])) as (ks & st' & Hk & Hx).
      rewrite (Hx s eq_refl). cbn [fst]. rewrite (Hx (xorl s ks)) by (rewrite xorl_len; lia).
      cbn [fst]. rewrite xorl_involutive by lia. reflexivity.
    - intros H.
      assert (Hlen : length c = length s).
      { destruct (cenc_loop_diff _ _ _ s s c eq_refl H) as (c2 & _ & _ & L1 & _). exact L1. }
      destruct (cenc_loop_diff _ _ _ s c c (eq_sym Hlen) H) as (c2 & Hc2 & Hd & L1 & L2).
      rewrite Hc2. f_equal. apply (xorl_solve c c2 s); [lia|lia|exact Hd].
  Qed.
End Inv.
