(* C06FragProofs.v — decrypt_frag (encrypt_frag f) = f: structure, offsets and every sample byte. *)
From V.lib Require Import Base.
From V.c07 Require Import C07Model.
From V.c06 Require Import C06Model C06FragModel C06StructProofs C06SampleProofs.

Lemma pad_iv_16 iv : (lenN (pad_iv iv) =? 16) = true -> length (pad_iv iv) = 16%nat.
Proof. intros H. apply N.eqb_eq in H. unfold lenN in H. lia. Qed.

Section FragProofs.
  Variable E : list N -> list N -> list N.
  Variable D : list N -> list N -> list N.
  Variable protfunc : list N -> res (list ssp).

  (* cenc: every block function, every protection function (AVC, HEVC, audio), 8- and 16-byte IVs *)
  Lemma fragment_roundtrip_cenc key iv cb sb start mdat_hdr ids f e constiv :
    clean_moof (cf_children f) = true -> nr_trafs (cf_children f) = 1%nat ->
    encrypt_frag E D protfunc Cenc key iv cb sb start mdat_hdr ids f = Ok e ->
    decrypt_frag E D Cenc key constiv cb sb e = Ok (layout start (cf_children f) mdat_hdr, cf_samples f).
  Proof.
    intros Hc Hn H. unfold encrypt_frag in H.
    destruct (lenN (pad_iv iv) =? 16) eqn:E16; [|discriminate]. cbn [negb] in H.
    destruct (encrypt_samples_cenc E protfunc key (pad_iv iv) (cf_samples f)) as [encs| | |] eqn:Ee; try discriminate.
    cbn [rbind] in H.
    destruct (saiz_of saiz_empty encs) as [z| | |]; try discriminate. cbn [rbind] in H.
    destruct (senc_of senc_empty encs) as [s| | |]; try discriminate. cbn [rbind] in H.
    destruct (senc_entries s 0 (N.to_nat (sn_count s))) as [en| | |]; try discriminate. cbn [rbind] in H.
    apply Ok_inj' in H. subst e. unfold decrypt_frag. cbn [ef_ivs ef_subs ef_data ef_frag].
    rewrite (samples_roundtrip_cenc E D protfunc key (pad_iv iv) (cf_samples f) encs cb sb constiv (pad_iv_16 iv E16) Ee).
    cbn [rbind]. rewrite fragment_struct_roundtrip by assumption. reflexivity.
  Qed.

  (* cbcs: D inverts E on 16-byte blocks; the decrypt side uses tenc's constant IV = the padded encryption IV *)
  Lemma fragment_roundtrip_cbcs key iv cb sb start mdat_hdr ids f e :
    (forall k b, length (E k b) = 16%nat) ->
    (forall k b, length (D k b) = 16%nat) ->
    (forall k b, length b = 16%nat -> D k (E k b) = b) ->
    key_ok key = true ->
    (forall s ssps, In s (cf_samples f) -> protfunc s = Ok ssps -> fits s ssps) ->
    clean_moof (cf_children f) = true -> nr_trafs (cf_children f) = 1%nat ->
    encrypt_frag E D protfunc Cbcs key iv cb sb start mdat_hdr ids f = Ok e ->
    decrypt_frag E D Cbcs key (pad_iv iv) cb sb e = Ok (layout start (cf_children f) mdat_hdr, cf_samples f).
  Proof.
    intros HE HD HDE Hk Hfit Hc Hn H. unfold encrypt_frag in H.
    destruct (lenN (pad_iv iv) =? 16) eqn:E16; [|discriminate]. cbn [negb] in H.
    destruct (encrypt_samples_cbcs E D protfunc key (pad_iv iv) cb sb (cf_samples f)) as [encs| | |] eqn:Ee;
      try discriminate.
    cbn [rbind] in H.
    destruct (saiz_of saiz_empty encs) as [z| | |]; try discriminate. cbn [rbind] in H.
    destruct (senc_of senc_empty encs) as [s| | |]; try discriminate. cbn [rbind] in H.
    destruct (senc_entries s 0 (N.to_nat (sn_count s))) as [en| | |]; try discriminate. cbn [rbind] in H.
    apply Ok_inj' in H. subst e. unfold decrypt_frag. cbn [ef_ivs ef_subs ef_data ef_frag].
    rewrite (samples_roundtrip_cbcs E D protfunc key (pad_iv iv) cb sb HE HD HDE Hk (pad_iv_16 iv E16)
               (cf_samples f) encs Ee Hfit).
    cbn [rbind]. rewrite fragment_struct_roundtrip by assumption. reflexivity.
  Qed.
  (* the same two theorems for EncryptFragment with the repaired AddSample: they now also speak about fragments that
     mix samples with and without protection ranges (on which the pinned text panicked) *)
  Lemma fragment_roundtrip_r_cenc key iv cb sb start mdat_hdr ids f e constiv :
    clean_moof (cf_children f) = true -> nr_trafs (cf_children f) = 1%nat ->
    encrypt_frag_r E D protfunc Cenc key iv cb sb start mdat_hdr ids f = Ok e ->
    decrypt_frag E D Cenc key constiv cb sb e = Ok (layout start (cf_children f) mdat_hdr, cf_samples f).
  Proof.
    intros Hc Hn H. unfold encrypt_frag_r in H.
    destruct (lenN (pad_iv iv) =? 16) eqn:E16; [|discriminate]. cbn [negb] in H.
    destruct (encrypt_samples_cenc E protfunc key (pad_iv iv) (cf_samples f)) as [encs| | |] eqn:Ee; try discriminate.
    cbn [rbind] in H.
    destruct (saiz_of saiz_empty encs) as [z| | |]; try discriminate. cbn [rbind] in H.
    destruct (C06SencModel.senc_of_r senc_empty encs) as [s| | |]; try discriminate. cbn [rbind] in H.
    destruct (senc_entries s 0 (N.to_nat (sn_count s))) as [en| | |]; try discriminate. cbn [rbind] in H.
    apply Ok_inj' in H. subst e. unfold decrypt_frag. cbn [ef_ivs ef_subs ef_data ef_frag].
    rewrite (samples_roundtrip_cenc E D protfunc key (pad_iv iv) (cf_samples f) encs cb sb constiv (pad_iv_16 iv E16) Ee).
    cbn [rbind]. rewrite fragment_struct_roundtrip by assumption. reflexivity.
  Qed.

  Lemma fragment_roundtrip_r_cbcs key iv cb sb start mdat_hdr ids f e :
    (forall k b, length (E k b) = 16%nat) ->
    (forall k b, length (D k b) = 16%nat) ->
    (forall k b, length b = 16%nat -> D k (E k b) = b) ->
    key_ok key = true ->
    (forall s ssps, In s (cf_samples f) -> protfunc s = Ok ssps -> fits s ssps) ->
    clean_moof (cf_children f) = true -> nr_trafs (cf_children f) = 1%nat ->
    encrypt_frag_r E D protfunc Cbcs key iv cb sb start mdat_hdr ids f = Ok e ->
    decrypt_frag E D Cbcs key (pad_iv iv) cb sb e = Ok (layout start (cf_children f) mdat_hdr, cf_samples f).
  Proof.
    intros HE HD HDE Hk Hfit Hc Hn H. unfold encrypt_frag_r in H.
    destruct (lenN (pad_iv iv) =? 16) eqn:E16; [|discriminate]. cbn [negb] in H.
    destruct (encrypt_samples_cbcs E D protfunc key (pad_iv iv) cb sb (cf_samples f)) as [encs| | |] eqn:Ee;
      try discriminate.
    cbn [rbind] in H.
    destruct (saiz_of saiz_empty encs) as [z| | |]; try discriminate. cbn [rbind] in H.
    destruct (C06SencModel.senc_of_r senc_empty encs) as [s| | |]; try discriminate. cbn [rbind] in H.
    destruct (senc_entries s 0 (N.to_nat (sn_count s))) as [en| | |]; try discriminate. cbn [rbind] in H.
    apply Ok_inj' in H. subst e. unfold decrypt_frag. cbn [ef_ivs ef_subs ef_data ef_frag].
    rewrite (samples_roundtrip_cbcs E D protfunc key (pad_iv iv) cb sb HE HD HDE Hk (pad_iv_16 iv E16)
               (cf_samples f) encs Ee Hfit).
    cbn [rbind]. rewrite fragment_struct_roundtrip by assumption. reflexivity.
  Qed.
End FragProofs.

(* ---------------------------------------------------------------- third-party content *)
Section Timing.
  Variable E : list N -> list N -> list N.
  Variable D : list N -> list N -> list N.

  Lemma dec_loop_cenc_lengths key cb sb ivs subs use : forall samples i iv out,
    dec_loop E D Cenc key cb sb ivs subs use i iv samples = Ok out ->
    map (@length N) out = map (@length N) samples.
  Proof.
    induction samples as [|s t IH]; intros i iv out H.
    - cbn in H. apply Ok_inj' in H. subst. reflexivity.
    - cbn [dec_loop] in H.
      destruct (if use then _ else _) as [iv1| | |]; try discriminate. cbn [rbind] in H.
      destruct (match subs with [] => Ok [] | _ :: _ => nth_res subs i end) as [ssps| | |]; try discriminate.
      cbn [rbind] in H.
      destruct (crypt_sample_cenc E key iv1 ssps s) as [p| | |] eqn:Ec; try discriminate. cbn [rbind] in H.
      destruct (dec_loop E D Cenc key cb sb ivs subs use (S i) iv1 t) as [r| | |] eqn:Er; try discriminate.
      cbn [rbind] in H. apply Ok_inj' in H. subst out. cbn [map]. f_equal.
      + apply (C07CryptProofs.crypt_sample_cenc_length E key iv1 ssps s p Ec).
      + apply (IH _ _ _ Er).
  Qed.

  (* any decodable cenc fragment (whatever produced it): if DecryptFragment succeeds, the number of samples and
     every sample size are unchanged, and the data offset / mdat position move by exactly the bytes removed
     from the moof; sample durations, flags, composition offsets and the decode time live in trun/tfdt/tfhd,
     which the surgery keeps untouched *)
  Lemma decrypt_preserves_timing key constiv cb sb e g samples :
    decrypt_frag E D Cenc key constiv cb sb e = Ok (g, samples) ->
    map (@length N) samples = map (@length N) (ef_data e) /\
    f_moof_start g = f_moof_start (ef_frag e) /\
    moof_size (f_children g) + (f_data_offset (ef_frag e) - f_data_offset g) = moof_size (f_children (ef_frag e)) /\
    f_data_offset g <= f_data_offset (ef_frag e).
  Proof.
    unfold decrypt_frag, decrypt_samples. intros H.
    destruct (dec_loop E D Cenc key cb sb (ef_ivs e) (ef_subs e) _ 0 _ (ef_data e)) as [out| | |] eqn:Ed;
      try discriminate.
    cbn [rbind] in H.
    destruct (decrypt_frag_struct (ef_frag e)) as [g'| | |] eqn:Es; try discriminate. cbn [rbind] in H.
    apply Ok_inj' in H. injection H as -> ->.
    split; [apply (dec_loop_cenc_lengths _ _ _ _ _ _ _ _ _ _ Ed)|].
    destruct (decrypt_struct_general _ _ Es) as (H1 & H2 & H3 & _). repeat split; assumption.
  Qed.
End Timing.
