(* C06MultiProofs.v — DecryptFragment on k trafs x m truns with pssh boxes in the moof: every data offset and the
   mdat position move by exactly the number of bytes the moof shrinks; the box tree is the clear one; the samples of
   every protected traf come back.  Lemmas for C06_decrypt_preserves_offsets_multi / C06_fragment_roundtrip_multi. *)
From V.lib Require Import Base.
From V.c07 Require Import C07Model.
From V.c06 Require Import C06Model C06StructProofs C06CencProofs C06CbcsProofs C06SampleProofs C06MultiModel.

(* ---------------------------------------------------------------- integer widths *)
Lemma sub_i32_exact o removed :
  removed < 18446744073709551616 ->
  (-2147483648 <= o - Z.of_N removed)%Z -> (o < 2147483648)%Z ->
  sub_i32 o removed = (o - Z.of_N removed)%Z.
Proof.
  intros Hr Hlo Hhi. unfold sub_i32, wrap32s, u64. rewrite (N.mod_small removed) by exact Hr. lia.
Qed.

Lemma sub_u64_exact a b :
  b <= a -> a < 18446744073709551616 -> sub_u64 a b = a - b.
Proof.
  intros Hb Ha. unfold sub_u64, u64. rewrite (N.mod_small b) by lia.
  replace (a + 18446744073709551616 - b) with ((a - b) + 1 * 18446744073709551616) by lia.
  rewrite N.mod_add by discriminate. apply N.mod_small. lia.
Qed.

(* ---------------------------------------------------------------- sizes *)
Lemma clear_child_size di c : xchild_size (clear_child di c) <= xchild_size c.
Proof.
  destruct c as [t|s i|s i]; cbn [clear_child]; [|lia|lia].
  destruct (find_track di (x_track t)); [|lia].
  unfold xchild_size. cbn [to_mchild mchild_size x_children]. unfold traf_size.
  destruct (reb_general (x_children t)) as [H1 _]. pose proof (reb_size (x_children t)) as H2.
  change (fun b => negb (is_prot_kind_x (tk b))) with (fun b => negb (is_prot_kind (tk b))).
  rewrite <- H1. lia.
Qed.

Lemma xremove_psshs_eq cs :
  xremove_psshs cs = (filter (fun c => negb (x_is_pssh c)) cs, sumN (map xchild_size (filter x_is_pssh cs))).
Proof.
  unfold xremove_psshs. destruct (existsb x_is_pssh cs) eqn:E; [reflexivity|].
  assert (H : filter (fun c => negb (x_is_pssh c)) cs = cs /\ filter x_is_pssh cs = []).
  { induction cs as [|c t IH]; [split; reflexivity|]. cbn [existsb] in E. apply orb_false_iff in E. destruct E as [E1 E2].
    destruct (IH E2) as [I1 I2]. cbn [filter]. rewrite E1. cbn [negb]. rewrite I1, I2. split; reflexivity. }
  destruct H as [-> ->]. reflexivity.
Qed.

Lemma filter_pssh_size cs :
  sumN (map xchild_size (filter (fun c => negb (x_is_pssh c)) cs)) + sumN (map xchild_size (filter x_is_pssh cs))
  = sumN (map xchild_size cs).
Proof.
  induction cs as [|c t IH]; [reflexivity|]. cbn [filter]. destruct (x_is_pssh c); cbn [negb map sumN]; lia.
Qed.

(* ---------------------------------------------------------------- structure of the first loop, any input *)
Section General.
  Variable E : list N -> list N -> list N.
  Variable D : list N -> list N -> list N.

  Lemma decrypt_trafs_struct di key cs r :
    decrypt_trafs E D di key cs = Ok r ->
    map x_struct (fst r) = map x_struct (map (clear_child di) cs) /\
    sumN (map xchild_size (fst r)) + snd r = sumN (map xchild_size cs).
  Proof.
    revert r. induction cs as [|c t IH]; intros r H.
    - injection H as <-. split; reflexivity.
    - destruct c as [x|s i|s i]; cbn [decrypt_trafs] in H.
      + destruct (find_track di (x_track x)) as [ti|] eqn:Ef.
        * destruct (ti_sch ti); [| |discriminate];
            (destruct (has_senc (x_children x)); cbn [negb] in H; [|discriminate];
             destruct (decrypt_samples E D _ key (ti_constiv ti) (ti_cb ti) (ti_sb ti) (x_ivs x) (x_subs x) (x_data x))
               as [samples| | |]; cbn [rbind] in H; try discriminate;
             destruct (decrypt_trafs E D di key t) as [r'| | |]; cbn [rbind] in H; try discriminate;
             injection H as <-; destruct (IH r' eq_refl) as [I1 I2]; cbn [fst snd map];
             split;
             [ rewrite I1; cbn [clear_child x_struct]; rewrite Ef; cbn [x_struct x_track x_children x_offsets];
               destruct (reb_general (x_children x)) as [G1 _]; rewrite G1; reflexivity
             | pose proof (reb_size (x_children x)) as G2;
               unfold xchild_size at 1 3; cbn [to_mchild mchild_size x_children]; unfold traf_size;
               cbn [sumN]; lia ]).
        * destruct (decrypt_trafs E D di key t) as [r'| | |]; cbn [rbind] in H; try discriminate.
          injection H as <-. destruct (IH r' eq_refl) as [I1 I2]. cbn [fst snd map]. split.
          -- rewrite I1. cbn [clear_child]. rewrite Ef. reflexivity.
          -- cbn [sumN]. lia.
      + destruct (decrypt_trafs E D di key t) as [r'| | |]; cbn [rbind] in H; try discriminate.
        injection H as <-. destruct (IH r' eq_refl) as [I1 I2]. cbn [fst snd map]. split.
        * rewrite I1. reflexivity.
        * cbn [sumN]. lia.
      + destruct (decrypt_trafs E D di key t) as [r'| | |]; cbn [rbind] in H; try discriminate.
        injection H as <-. destruct (IH r' eq_refl) as [I1 I2]. cbn [fst snd map]. split.
        * rewrite I1. reflexivity.
        * cbn [sumN]. lia.
  Qed.

  Lemma x_struct_filter cs :
    map x_struct (filter (fun c => negb (x_is_pssh c)) cs) = filter (fun c => negb (x_is_pssh c)) (map x_struct cs).
  Proof.
    induction cs as [|c t IH]; [reflexivity|]. cbn [filter map].
    assert (Hp : x_is_pssh (x_struct c) = x_is_pssh c) by (destruct c; reflexivity).
    rewrite Hp. destruct (x_is_pssh c); cbn [negb map]; rewrite IH; reflexivity.
  Qed.

  Lemma x_struct_shift removed cs :
    map x_struct (map (shift_traf removed) cs) = map (shift_traf removed) (map x_struct cs).
  Proof. rewrite !map_map. apply map_ext. intros c. destruct c; reflexivity. Qed.

  Lemma filter_map_struct_eq (a b : list xchild) :
    map x_struct a = map x_struct b ->
    map x_struct (filter (fun c => negb (x_is_pssh c)) a) = map x_struct (filter (fun c => negb (x_is_pssh c)) b).
  Proof. intros H. rewrite !x_struct_filter, H. reflexivity. Qed.

  Lemma filter_pssh_size_struct (a b : list xchild) :
    map x_struct a = map x_struct b -> map xchild_size a = map xchild_size b.
  Proof.
    revert b. induction a as [|x t IH]; intros [|y u] H; try discriminate; [reflexivity|].
    cbn [map] in *. injection H as H1 H2. f_equal; [|apply IH; exact H2].
    destruct x, y; cbn [x_struct] in H1; try discriminate; injection H1; intros; subst; try reflexivity.
    unfold xchild_size. cbn [to_mchild mchild_size]. congruence.
  Qed.

  (* third-party content, k trafs x m truns, pssh boxes in the moof: whenever DecryptFragment succeeds there is ONE
     number `removed` = the number of bytes by which the moof shrinks (protection boxes of all protected trafs + all
     pssh boxes), the box tree afterwards is the clear tree (x_struct: the tree without the crypto side data), every
     data offset of every trun of every traf has become o - removed in int32 arithmetic, and the mdat position
     has moved by the same amount *)
  Lemma decrypt_multi_general di key f g :
    decrypt_multi E D di key f = Ok g ->
    exists removed,
      xmoof_size (xf_children g) + removed = xmoof_size (xf_children f) /\
      map x_struct (xf_children g) = map (shift_traf removed) (map x_struct (clear_children di (xf_children f))) /\
      xf_moof_start g = xf_moof_start f /\
      xf_mdat_start g = (if xf_moof_start f <? xf_mdat_start f then sub_u64 (xf_mdat_start f) removed
                         else xf_mdat_start f).
  Proof.
    unfold decrypt_multi. destruct (decrypt_trafs E D di key (xf_children f)) as [r| | |] eqn:Er; try discriminate.
    cbn [rbind]. destruct (decrypt_trafs_struct _ _ _ _ Er) as [S1 S2].
    rewrite xremove_psshs_eq. intros H. injection H as <-.
    exists (snd r + sumN (map xchild_size (filter x_is_pssh (fst r)))).
    cbn [xf_children xf_moof_start xf_mdat_start]. split; [|split; [|split; reflexivity]].
    - unfold xmoof_size. pose proof (filter_pssh_size (fst r)) as Hf.
      assert (Hs : map xchild_size (map (shift_traf (snd r + sumN (map xchild_size (filter x_is_pssh (fst r)))))
                                        (filter (fun c => negb (x_is_pssh c)) (fst r)))
                   = map xchild_size (filter (fun c => negb (x_is_pssh c)) (fst r))).
      { rewrite map_map. apply map_ext. intros c. destruct c; reflexivity. }
      rewrite Hs. lia.
    - rewrite x_struct_shift. f_equal. unfold clear_children. apply filter_map_struct_eq. exact S1.
  Qed.

  (* the same with the integer widths spelled out: in range, the int32 / uint64 subtractions are exact *)
  Lemma decrypt_multi_offsets di key f g :
    decrypt_multi E D di key f = Ok g ->
    exists removed,
      xmoof_size (xf_children g) + removed = xmoof_size (xf_children f) /\
      map x_struct (xf_children g) = map (shift_traf removed) (map x_struct (clear_children di (xf_children f))) /\
      xf_moof_start g = xf_moof_start f /\
      (forall o, xmoof_size (xf_children f) < 18446744073709551616 ->
                 (-2147483648 <= o - Z.of_N removed)%Z -> (o < 2147483648)%Z ->
                 sub_i32 o removed = (o - Z.of_N removed)%Z) /\
      (xf_moof_start f < xf_mdat_start f -> removed <= xf_mdat_start f -> xf_mdat_start f < 18446744073709551616 ->
       xf_mdat_start g + removed = xf_mdat_start f) /\
      (xf_mdat_start f <= xf_moof_start f -> xf_mdat_start g = xf_mdat_start f).
  Proof.
    intros H. destruct (decrypt_multi_general di key f g H) as (removed & H1 & H2 & H3 & H4).
    exists removed. split; [exact H1|]. split; [exact H2|]. split; [exact H3|]. split; [|split].
    - intros o Hs Hlo Hhi. apply sub_i32_exact; [lia|exact Hlo|exact Hhi].
    - intros Hlt Hle H64. rewrite H4. apply N.ltb_lt in Hlt. rewrite Hlt. rewrite sub_u64_exact by assumption. lia.
    - intros Hge. rewrite H4. apply N.ltb_ge in Hge. rewrite Hge. reflexivity.
  Qed.
End General.

(* the variant that does not count the pssh bytes shifts the offsets by too little: one traf, one trun, one pssh *)
Lemma pssh_undercount_refuted :
  let E := fun (_ b : list N) => b in
  let di := [(1, Some (mkTI Cenc [] 0 0))] in
  let f := mkXF 0 [XOther 16 1; XPssh 32 2;
                   XTraf (mkX 1 [mkT TOther 16 3; mkT TTrun 24 4; mkT TSenc 16 5] [128%Z] [] [] [])] 120 in
  let clear := [XOther 16 1; XTraf (mkX 1 [mkT TOther 16 3; mkT TTrun 24 4] [80%Z] [] [] [])] in
  xmoof_size (xf_children f) = 120 /\ xmoof_size clear = 72 /\
  decrypt_multi E E di [] f = Ok (mkXF 0 clear 72) /\
  decrypt_multi_undercount E E di [] f
  = Ok (mkXF 0 [XOther 16 1; XTraf (mkX 1 [mkT TOther 16 3; mkT TTrun 24 4] [112%Z] [] [] [])] 104).
Proof. repeat split; vm_compute; reflexivity. Qed.

(* ---------------------------------------------------------------- layout lemmas *)
Lemma set_positions_sizes b cs poss : map xchild_size (set_positions b cs poss) = map xchild_size cs.
Proof.
  revert poss. induction cs as [|c t IH]; intros poss; [reflexivity|].
  destruct c; cbn [set_positions map]; rewrite IH; reflexivity.
Qed.

Lemma set_positions_filter b cs poss :
  filter (fun c => negb (x_is_pssh c)) (set_positions b cs poss)
  = set_positions b (filter (fun c => negb (x_is_pssh c)) cs) poss.
Proof.
  revert poss. induction cs as [|c t IH]; intros poss; [reflexivity|].
  destruct c; cbn [set_positions filter x_is_pssh negb]; rewrite IH; reflexivity.
Qed.

Lemma set_positions_pssh b cs poss :
  map xchild_size (filter x_is_pssh (set_positions b cs poss)) = map xchild_size (filter x_is_pssh cs).
Proof.
  revert poss. induction cs as [|c t IH]; intros poss; [reflexivity|].
  destruct c; cbn [set_positions filter x_is_pssh map]; rewrite IH; reflexivity.
Qed.

Definition poss_ok (b : N) (poss : list (list N)) : Prop :=
  Forall (fun p => Forall (fun q => b + q < 2147483648) p) poss.

Lemma set_positions_shift b removed cs poss :
  removed <= b -> poss_ok b poss ->
  map (shift_traf removed) (set_positions b cs poss) = set_positions (b - removed) cs poss.
Proof.
  intros Hr. revert poss. induction cs as [|c t IH]; intros poss Hp; [reflexivity|].
  destruct c as [x|s i|s i]; cbn [set_positions map shift_traf]; [|rewrite (IH poss Hp); reflexivity ..].
  cbn [x_track x_children x_offsets x_ivs x_subs x_data].
  assert (Hhd : Forall (fun q => b + q < 2147483648) (hd [] poss)) by (destruct Hp; [constructor|assumption]).
  assert (Htl : poss_ok b (tl poss)) by (destruct Hp; [constructor|assumption]).
  rewrite (IH (tl poss) Htl). f_equal. f_equal. f_equal. rewrite map_map.
  induction (hd [] poss) as [|q l IHl]; [reflexivity|].
  inversion Hhd as [|? ? Hq Hl]; subst. cbn [map]. rewrite (IHl Hl). f_equal.
  rewrite sub_i32_exact; lia.
Qed.

(* ---------------------------------------------------------------- the round trip *)
Section RoundTrip.
  Variable E : list N -> list N -> list N.
  Variable D : list N -> list N -> list N.
  Variable protfunc : N -> list N -> res (list ssp).
  Variable iv_of : N -> list N.
  Variable di : list (N * option tinfo).
  Variable key : list N.

  Hypothesis HE : forall k b, length (E k b) = 16%nat.
  Hypothesis HD : forall k b, length (D k b) = 16%nat.
  Hypothesis HDE : forall k b, length b = 16%nat -> D k (E k b) = b.
  Hypothesis Hkey : key_ok key = true.

  (* per protected traf: it has a senc box, its IV has 16 bytes; cbcs: the tenc constant IV is that IV and the
     sub-sample maps fit their samples *)
  Definition traf_ok (t : xtraf) : Prop :=
    match find_track di (x_track t) with
    | None => True
    | Some ti =>
        has_senc (x_children t) = true /\ length (iv_of (x_track t)) = 16%nat /\
        (ti_sch ti = Cbcs ->
         ti_constiv ti = iv_of (x_track t) /\
         forall s ssps, In s (x_data t) -> protfunc (x_track t) s = Ok ssps -> fits s ssps)
    end.

  Definition trafs_ok (cs : list xchild) : Prop := forall t, In (XTraf t) cs -> traf_ok t.

  Lemma roundtrip_trafs cs : forall cs_e b poss,
    trafs_ok cs ->
    enc_children E D protfunc iv_of di key cs = Ok cs_e ->
    exists n,
      decrypt_trafs E D di key (set_positions b cs_e poss)
      = Ok (set_positions b (map (clear_child di) cs) poss, n) /\
      sumN (map xchild_size (map (clear_child di) cs)) + n = sumN (map xchild_size cs) /\
      map xchild_size cs_e = map xchild_size cs.
  Proof.
    induction cs as [|c t IH]; intros cs_e b poss Hok Henc.
    - injection Henc as <-. exists 0. repeat split.
    - assert (Hok' : trafs_ok t) by (intros x Hx; apply Hok; right; exact Hx).
      destruct c as [x|s i|s i]; cbn [enc_children] in Henc.
      + pose proof (Hok x (or_introl eq_refl)) as Hx. unfold traf_ok in Hx. unfold enc_traf in Henc.
        destruct (find_track di (x_track x)) as [ti|] eqn:Ef.
        * destruct Hx as (Hsenc & Hiv & Hcb).
          destruct (ti_sch ti) eqn:Es; cbn [rbind] in Henc; [| |discriminate].
          -- (* cenc *)
             destruct (encrypt_samples_cenc E (protfunc (x_track x)) key (iv_of (x_track x)) (x_data x)) as [encs| | |] eqn:Ee;
               cbn [rbind] in Henc; try discriminate.
             destruct (enc_children E D protfunc iv_of di key t) as [r| | |] eqn:Er; cbn [rbind] in Henc; try discriminate.
             injection Henc as <-. destruct (IH r b (tl poss) Hok' eq_refl) as (n & I1 & I2 & I3).
             exists (snd (remove_encryption_boxes (x_children x)) + n).
             cbn [set_positions decrypt_trafs x_track x_children x_offsets x_ivs x_subs x_data map clear_child].
             rewrite Ef, Es, Hsenc. cbn [negb].
             rewrite (samples_roundtrip_cenc E D (protfunc (x_track x)) key (iv_of (x_track x)) (x_data x) encs
                        (ti_cb ti) (ti_sb ti) (ti_constiv ti) Hiv Ee).
             cbn [rbind]. rewrite I1. cbn [rbind fst snd].
             destruct (reb_general (x_children x)) as [G1 _]. pose proof (reb_size (x_children x)) as G2.
             split; [|split].
             ++ rewrite G1. reflexivity.
             ++ unfold xchild_size at 1 3. cbn [to_mchild mchild_size x_children sumN]. unfold traf_size.
                change (fun b0 => negb (is_prot_kind_x (tk b0))) with (fun b0 => negb (is_prot_kind (tk b0))).
                rewrite <- G1. lia.
             ++ rewrite I3. reflexivity.
          -- (* cbcs *)
             destruct (Hcb eq_refl) as [Hciv Hfit].
             destruct (encrypt_samples_cbcs E D (protfunc (x_track x)) key (iv_of (x_track x)) (ti_cb ti) (ti_sb ti) (x_data x))
               as [encs| | |] eqn:Ee; cbn [rbind] in Henc; try discriminate.
             destruct (enc_children E D protfunc iv_of di key t) as [r| | |] eqn:Er; cbn [rbind] in Henc; try discriminate.
             injection Henc as <-. destruct (IH r b (tl poss) Hok' eq_refl) as (n & I1 & I2 & I3).
             exists (snd (remove_encryption_boxes (x_children x)) + n).
             cbn [set_positions decrypt_trafs x_track x_children x_offsets x_ivs x_subs x_data map clear_child].
             rewrite Ef, Es, Hsenc. cbn [negb]. rewrite Hciv.
             rewrite (samples_roundtrip_cbcs E D (protfunc (x_track x)) key (iv_of (x_track x)) (ti_cb ti) (ti_sb ti)
                        HE HD HDE Hkey Hiv (x_data x) encs Ee Hfit).
             cbn [rbind]. rewrite I1. cbn [rbind fst snd].
             destruct (reb_general (x_children x)) as [G1 _]. pose proof (reb_size (x_children x)) as G2.
             split; [|split].
             ++ rewrite G1. reflexivity.
             ++ unfold xchild_size at 1 3. cbn [to_mchild mchild_size x_children sumN]. unfold traf_size.
                change (fun b0 => negb (is_prot_kind_x (tk b0))) with (fun b0 => negb (is_prot_kind (tk b0))).
                rewrite <- G1. lia.
             ++ rewrite I3. reflexivity.
        * cbn [rbind] in Henc.
          destruct (enc_children E D protfunc iv_of di key t) as [r| | |] eqn:Er; cbn [rbind] in Henc; try discriminate.
          injection Henc as <-. destruct (IH r b (tl poss) Hok' eq_refl) as (n & I1 & I2 & I3).
          exists n. cbn [set_positions decrypt_trafs x_track map clear_child]. rewrite Ef, I1. cbn [rbind fst snd].
          split; [reflexivity|]. split; [cbn [sumN]; lia|]. rewrite I3. reflexivity.
      + destruct (enc_children E D protfunc iv_of di key t) as [r| | |] eqn:Er; cbn [rbind] in Henc; try discriminate.
        injection Henc as <-. destruct (IH r b poss Hok' eq_refl) as (n & I1 & I2 & I3).
        exists n. cbn [set_positions decrypt_trafs map clear_child]. rewrite I1. cbn [rbind fst snd].
        split; [reflexivity|]. split; [cbn [sumN]; lia|]. rewrite I3. reflexivity.
      + destruct (enc_children E D protfunc iv_of di key t) as [r| | |] eqn:Er; cbn [rbind] in Henc; try discriminate.
        injection Henc as <-. destruct (IH r b poss Hok' eq_refl) as (n & I1 & I2 & I3).
        exists n. cbn [set_positions decrypt_trafs map clear_child]. rewrite I1. cbn [rbind fst snd].
        split; [reflexivity|]. split; [cbn [sumN]; lia|]. rewrite I3. reflexivity.
  Qed.

  (* the whole fragment: the protected layout (k trafs, m truns each, protection boxes and pssh boxes anywhere, every
     trun addressing its own position of the mdat payload) decrypts to the clear layout: the clear box tree, every
     trun still addressing the same payload position, the mdat right behind the shorter moof, every sample byte of
     every protected traf restored *)
  Lemma fragment_roundtrip_multi cs cs_e start mdat_hdr poss :
    trafs_ok cs ->
    enc_children E D protfunc iv_of di key cs = Ok cs_e ->
    poss_ok (xmoof_size cs + mdat_hdr) poss ->
    start + xmoof_size cs < 18446744073709551616 ->
    decrypt_multi E D di key (xlayout start cs_e mdat_hdr poss)
    = Ok (xlayout start (clear_children di cs) mdat_hdr poss).
  Proof.
    intros Hok Henc Hp H64.
    destruct (roundtrip_trafs cs cs_e (xmoof_size cs_e + mdat_hdr) poss Hok Henc) as (n & R1 & R2 & R3).
    assert (Hsz : xmoof_size cs_e = xmoof_size cs) by (unfold xmoof_size; rewrite R3; reflexivity).
    unfold decrypt_multi, xlayout. cbn [xf_children xf_moof_start xf_mdat_start]. rewrite R1. cbn [rbind fst snd].
    rewrite xremove_psshs_eq. rewrite set_positions_filter, set_positions_pssh.
    fold (clear_children di cs).
    set (n2 := sumN (map xchild_size (filter x_is_pssh (map (clear_child di) cs)))).
    pose proof (filter_pssh_size (map (clear_child di) cs)) as Hf. fold n2 in Hf.
    assert (Hc : xmoof_size (clear_children di cs) + (n + n2) = xmoof_size cs).
    { unfold xmoof_size, clear_children. lia. }
    rewrite Hsz.
    rewrite set_positions_shift; [|lia|exact Hp].
    replace (xmoof_size cs + mdat_hdr - (n + n2)) with (xmoof_size (clear_children di cs) + mdat_hdr) by lia.
    assert (E1 : (start <? start + xmoof_size cs) = true) by (apply N.ltb_lt; unfold xmoof_size; lia).
    rewrite E1. rewrite sub_u64_exact by lia.
    f_equal. f_equal. lia.
  Qed.
End RoundTrip.

(* the clear tree has no protection box in a protected traf and no pssh; a clear tree is a fixed point *)
Lemma clear_children_clean di cs :
  forall c, In c (clear_children di cs) ->
  x_is_pssh c = false /\
  (forall t, c = XTraf t -> find_track di (x_track t) <> None ->
             forallb (fun b => negb (is_prot_kind_x (tk b))) (x_children t) = true).
Proof.
  intros c Hin. unfold clear_children in Hin. apply filter_In in Hin. destruct Hin as [Hin Hp].
  split; [destruct (x_is_pssh c); [discriminate|reflexivity]|].
  intros t -> Hf. apply in_map_iff in Hin. destruct Hin as (c0 & Hc0 & _).
  destruct c0 as [t0|s i|s i]; cbn [clear_child] in Hc0; try discriminate.
  destruct (find_track di (x_track t0)) eqn:Ef.
  - injection Hc0 as <-. cbn [x_children]. apply forallb_forall. intros b Hb. apply filter_In in Hb. apply Hb.
  - injection Hc0 as <-. congruence.
Qed.

(* ---------------------------------------------------------------- finding C06-F7: the pinned text *)
(* two trafs of ONE protected track (cenc, one 3-byte sample each, own IVs): the text of the tree restores both; the
   pinned text (samples of the FIRST traf of the track for every traf) decrypts the first traf twice - with its own senc
   and then with the second traf's senc (here the same key stream: back to the encrypted bytes) - and never touches the
   second: DecryptFragment returns nil, the box tree is the clear one, and BOTH trafs still hold their encrypted bytes *)
Definition f7_E (k b : list N) : list N := map (fun x => (x + 1) mod 256) (firstn 16 (b ++ repeat 0 16)).

Lemma first_traf_samples_refuted :
  let di := [(1, Some (mkTI Cenc [] 0 0))] in
  let key := repeat 3 16 in
  let iv_of := fun _ : N => repeat 7 16 in
  let cs := [XOther 16 1;
             XTraf (mkX 1 [mkT TOther 16 2; mkT TTrun 20 3; mkT TSenc 32 4] [] [] [] [[10; 20; 30]]);
             XTraf (mkX 1 [mkT TOther 16 5; mkT TTrun 20 6; mkT TSenc 32 7] [] [] [] [[40; 50; 60]])] in
  match enc_children f7_E f7_E (fun _ _ => Ok []) iv_of di key cs with
  | Ok cs_e =>
      let f := xlayout 0 cs_e 8 [[0]; [3]] in
      decrypt_multi f7_E f7_E di key f = Ok (xlayout 0 (clear_children di cs) 8 [[0]; [3]]) /\
      match decrypt_multi_pinned f7_E f7_E di key f with
      | Ok g =>
          map (fun c => match c with XTraf t => x_data t | _ => [] end) (xf_children g)
          = [[]; [[2; 28; 22]]; [[32; 58; 52]]] /\
          map (fun c => match c with XTraf t => x_data t | _ => [] end) cs_e = [[]; [[2; 28; 22]]; [[32; 58; 52]]] /\
          map x_struct (xf_children g) = map x_struct (xf_children (xlayout 0 (clear_children di cs) 8 [[0]; [3]]))
      | _ => False
      end
  | _ => False
  end.
Proof. vm_compute. repeat split; reflexivity. Qed.
