(* C06Theorems.v — the property theorems of C06 and nothing else.  Each is closed by `exact <lemma>` and
   followed by Print Assumptions (audited by ./check on every run).  The crypt functions are those of the C07
   model (coq/c07/C07Model.v); E and D are arbitrary functions from key and block to block. *)
From V.lib Require Import Base.
From V.c07 Require Import C07Model.
From V.c06 Require Import C06Model C06InitModel C06StructProofs C06CencProofs C06CbcsProofs C06SampleProofs C06InitProofs C06FragModel C06FragProofs.
From V.c06 Require Import C06SencModel C06SencProofs C06SencAuxProofs C06TrexModel C06TrexProofs C06EntryModel C06EntryProofs.
From V.c06 Require Import C06SencRepairProofs C06FileCbcsProofs C06TimingModel C06TimingProofs C06SinfModel C06SinfProofs.
From V.c06 Require Import C06MultiModel C06MultiProofs C06FixedModel C06FixedProofs C06TrafTimingModel C06TrafTimingProofs.

(* cenc: crypting twice with the same key, IV and sub-sample map restores the sample — for EVERY block function
   E, every map (empty = whole sample, partial last block, clear runs > 65535, even overlapping or wrapping
   maps): only xor algebra is involved *)
Theorem C06_cenc_involution :
  forall (E : list N -> list N -> list N) (key iv : list N) (ssps : list ssp) (s c : list N),
  crypt_sample_cenc E key iv ssps s = Ok c -> crypt_sample_cenc E key iv ssps c = Ok s.
Proof. exact crypt_sample_cenc_involution. Qed.
Print Assumptions C06_cenc_involution.

(* cbcs: decryption inverts encryption for every crypt:skip pattern (1:9 video, 0:0 audio, any other), every
   size class, whenever D inverts E on 16-byte blocks *)
Theorem C06_cbcs_inverse :
  forall (E D : list N -> list N -> list N) (key : list N),
  (forall k b, length (E k b) = 16%nat) ->
  (forall k b, length (D k b) = 16%nat) ->
  (forall k b, length b = 16%nat -> D k (E k b) = b) ->
  forall (iv : list N) (ssps : list ssp) (cb sb : N) (s c : list N),
  key_ok key = true -> length iv = 16%nat ->
  sumN (map (fun p => ss_clear p + ss_prot p) ssps) <= lenN s ->
  lenN s < 4294967296 ->
  crypt_sample_cbcs E D false key iv ssps cb sb s = Ok c ->
  crypt_sample_cbcs E D true key iv ssps cb sb c = Ok s.
Proof. exact crypt_sample_cbcs_inverse. Qed.
Print Assumptions C06_cbcs_inverse.

(* RemoveEncryptionBoxes (repaired text): keeps every box that is not saiz/saio/senc/uuid-senc, in order
   (vendor uuid boxes and unknown boxes included), and returns exactly the sizes of the removed ones *)
Theorem C06_remove_encryption_boxes : forall ch,
  fst (remove_encryption_boxes ch) = filter (fun b => negb (is_prot_kind (tk b))) ch /\
  snd (remove_encryption_boxes ch) = sumN (map tsize (filter (fun b => is_prot_kind (tk b)) ch)).
Proof. exact reb_general. Qed.
Print Assumptions C06_remove_encryption_boxes.

(* "every box that is not protection signalling ... present and unchanged": is_protection_box looks at the grouping
   type of sample group boxes (sbgp / sgpd are protection signalling only for seig).  Whatever the traf holds, the
   boxes that are not protection signalling come out of RemoveEncryptionBoxes in the same order, unchanged (same
   kind, size, identity), nothing is invented, and the byte count returned is exactly what the traf lost *)
Theorem C06_nonprotection_boxes_kept : forall ch,
  filter (fun b => negb (is_protection_box (tk b))) (fst (remove_encryption_boxes ch))
  = filter (fun b => negb (is_protection_box (tk b))) ch /\
  (forall b, In b ch -> is_protection_box (tk b) = false -> In b (fst (remove_encryption_boxes ch))) /\
  (forall b, In b (fst (remove_encryption_boxes ch)) -> In b ch) /\
  sumN (map tsize (fst (remove_encryption_boxes ch))) + snd (remove_encryption_boxes ch) = sumN (map tsize ch).
Proof. exact reb_keeps_nonprotection. Qed.
Print Assumptions C06_nonprotection_boxes_kept.

(* and a RemoveEncryptionBoxes that removes every sbgp / sgpd without looking at the grouping type (proposed as "the
   sample group boxes of an encrypted traf carry the seig groups") violates it: roll groups of the clear traf vanish *)
Theorem C06_drop_all_groups_refuted :
  let ch := [mkT TOther 16 1; mkT TTrun 32 2; mkT (TSbgp cc_roll) 28 3; mkT (TSgpd cc_roll) 26 4] in
  filter (fun b => negb (is_protection_box (tk b))) (fst (remove_encryption_boxes_allgroups ch))
  <> filter (fun b => negb (is_protection_box (tk b))) ch /\
  fst (remove_encryption_boxes ch) = ch.
Proof. exact drop_all_groups_refuted. Qed.
Print Assumptions C06_drop_all_groups_refuted.

(* structure round trip for every single-traf fragment with arbitrary opaque boxes in moof and traf (no guard
   on uuid boxes any more): EncryptFragment, encode + decode at any position, DecryptFragment gives the encoded +
   decoded clear fragment: same children in the same order, the clear data offset and mdat position *)
Theorem C06_fragment_struct_roundtrip : forall start cs mdat_hdr saiz_sz senc_sz ids,
  clean_moof cs = true -> nr_trafs cs = 1%nat ->
  decrypt_frag_struct (layout start (add_enc_boxes cs saiz_sz senc_sz ids) mdat_hdr)
  = Ok (layout start cs mdat_hdr).
Proof. exact fragment_struct_roundtrip. Qed.
Print Assumptions C06_fragment_struct_roundtrip.

(* IV sequence + sample round trip, cenc: decryptSamplesInPlace, fed with the IVs and sub-sample lists that the
   per-sample loop of EncryptFragment stored (as the senc decoder returns them), decrypts sample i with the IV and
   map stored for sample i and returns the clear samples — every E, every protection function, 8-byte inputs
   included (EncryptFragment pads them to 16 bytes before the loop) *)
Theorem C06_iv_sequence_cenc :
  forall (E D : list N -> list N -> list N) (protfunc : list N -> res (list ssp)) (key iv : list N)
         (samples : list (list N)) (encs : list enc_sample) (cb sb : N) (constiv : list N),
  length iv = 16%nat ->
  encrypt_samples_cenc E protfunc key iv samples = Ok encs ->
  decrypt_samples E D Cenc key constiv cb sb (decoded_ivs encs) (decoded_subs encs) (map e_data encs) = Ok samples.
Proof. exact samples_roundtrip_cenc. Qed.
Print Assumptions C06_iv_sequence_cenc.

(* cbcs: no per-sample IV is stored; the decrypt side starts every sample from tenc's constant IV, which is the
   encryption IV, and returns the clear samples *)
Theorem C06_iv_sequence_cbcs :
  forall (E D : list N -> list N -> list N) (protfunc : list N -> res (list ssp)) (key iv : list N) (cb sb : N),
  (forall k b, length (E k b) = 16%nat) ->
  (forall k b, length (D k b) = 16%nat) ->
  (forall k b, length b = 16%nat -> D k (E k b) = b) ->
  key_ok key = true -> length iv = 16%nat ->
  forall (samples : list (list N)) (encs : list enc_sample),
  encrypt_samples_cbcs E D protfunc key iv cb sb samples = Ok encs ->
  (forall s ssps, In s samples -> protfunc s = Ok ssps -> fits s ssps) ->
  decrypt_samples E D Cbcs key iv cb sb (decoded_ivs encs) (decoded_subs encs) (map e_data encs) = Ok samples.
Proof. exact samples_roundtrip_cbcs. Qed.
Print Assumptions C06_iv_sequence_cbcs.

(* third-party content: for ANY fragment on which DecryptFragment's surgery succeeds, the trun data offset (and
   the mdat position, when the mdat follows the moof) moves by exactly the number of bytes the moof shrinks, so it
   designates the same mdat bytes; the surgery touches no sample field (the model has none to touch: trun sample
   tables, tfdt and tfhd are opaque boxes that are kept) *)
Theorem C06_decrypt_preserves_offsets_single : forall f g,
  decrypt_frag_struct f = Ok g ->
  f_moof_start g = f_moof_start f /\
  moof_size (f_children g) + (f_data_offset f - f_data_offset g) = moof_size (f_children f) /\
  f_data_offset g <= f_data_offset f /\
  (f_moof_start f < f_mdat_start f ->
   f_mdat_start g + (f_data_offset f - f_data_offset g) = f_mdat_start f \/ f_mdat_start f < f_data_offset f - f_data_offset g).
Proof. exact decrypt_struct_general. Qed.
Print Assumptions C06_decrypt_preserves_offsets_single.

(* the same for ANY fragment with k trafs (multi-track: protected tracks, clear tracks and tracks the init segment does
   not know side by side) x m truns per traf and pssh boxes in the moof, third-party content included (C06MultiModel.v:
   DecryptFragment with int32 data offsets and a uint64 mdat position).  Whenever DecryptFragment succeeds there is ONE
   number `removed` such that
   - the moof has become exactly `removed` bytes shorter (sizes are Box.Size(): a box with a 16-byte header counts 16),
   - the box tree is the clear tree: in every protected traf saiz / saio / senc (both spellings) are gone and every other
     box is there in order, a traf of a clear track is untouched, the pssh boxes are gone, every other moof child is there
     in order (x_struct = the tree without senc contents and sample bytes),
   - EVERY data offset of EVERY trun of EVERY traf has become `o - removed` (int32 arithmetic; exact in range), so it
     addresses the same mdat bytes, and the mdat position moves by the same `removed` (uint64; exact in range).
   The pssh bytes are part of `removed`: C06_pssh_undercount_refuted shows that the variant which measures the shrink
   without them moves the offsets by too little *)
Theorem C06_decrypt_preserves_offsets :
  forall (E D : list N -> list N -> list N) (di : list (N * option tinfo)) (key : list N) (f g : xfrag),
  decrypt_multi E D di key f = Ok g ->
  exists removed,
    xmoof_size (xf_children g) + removed = xmoof_size (xf_children f) /\
    map x_struct (xf_children g) = map (shift_traf removed) (map x_struct (clear_children di (xf_children f))) /\
    xf_moof_start g = xf_moof_start f /\
    (forall o, xmoof_size (xf_children f) < 18446744073709551616 ->
               (-2147483648 <= o - Z.of_N removed)%Z -> (o < 2147483648)%Z ->
               sub_i32 o removed = (o - Z.of_N removed)%Z) /\
    (xf_moof_start f < xf_mdat_start f -> removed <= xf_mdat_start f -> xf_mdat_start f < 18446744073709551616 ->
     xf_mdat_start g + removed = xf_mdat_start f) /\
    (xf_mdat_start f <= xf_moof_start f -> xf_mdat_start g = xf_mdat_start f).
Proof. exact decrypt_multi_offsets. Qed.
Print Assumptions C06_decrypt_preserves_offsets.

Theorem C06_pssh_undercount_refuted :
  let E := fun (_ b : list N) => b in
  let di := [(1, Some (mkTI Cenc [] 0 0))] in
  let f := mkXF 0 [XOther 16 1; XPssh 32 2;
                   XTraf (mkX 1 [mkT TOther 16 3; mkT TTrun 24 4; mkT TSenc 16 5] [128%Z] [] [] [])] 120 in
  let clear := [XOther 16 1; XTraf (mkX 1 [mkT TOther 16 3; mkT TTrun 24 4] [80%Z] [] [] [])] in
  xmoof_size (xf_children f) = 120 /\ xmoof_size clear = 72 /\
  decrypt_multi E E di [] f = Ok (mkXF 0 clear 72) /\
  decrypt_multi_undercount E E di [] f
  = Ok (mkXF 0 [XOther 16 1; XTraf (mkX 1 [mkT TOther 16 3; mkT TTrun 24 4] [112%Z] [] [] [])] 104).
Proof. exact pssh_undercount_refuted. Qed.
Print Assumptions C06_pssh_undercount_refuted.

(* multi-track / multi-trun round trip, sample bytes included.  cs = the PROTECTED box tree (k trafs with their track
   ids, any number of truns each, saiz / saio / senc at any position of a protected traf, pssh boxes at any position of
   the moof, any other boxes) holding the CLEAR sample bytes of every traf; enc_children runs the per-sample loop of
   EncryptFragment over every protected traf (its own IV, its own protection function, cenc or cbcs per track).  Laid
   out at any position with every trun addressing its own position of the mdat payload (any interleaving), the
   fragment decrypts to the layout of the CLEAR tree with the same payload positions: every box that is not
   protection signalling in place, every trun of every traf addressing the same bytes, the mdat right behind the
   shorter moof, every sample byte of every traf restored.  Hypotheses: D inverts E on blocks (cbcs), the senc is
   there, 16-byte IVs, cbcs maps fit their samples and tenc carries the IV; int32 / uint64 ranges *)
Theorem C06_fragment_roundtrip_multi :
  forall (E D : list N -> list N -> list N) (protfunc : N -> list N -> res (list ssp)) (iv_of : N -> list N)
         (di : list (N * option tinfo)) (key : list N),
  (forall k b, length (E k b) = 16%nat) ->
  (forall k b, length (D k b) = 16%nat) ->
  (forall k b, length b = 16%nat -> D k (E k b) = b) ->
  key_ok key = true ->
  forall cs cs_e start mdat_hdr poss,
  trafs_ok protfunc iv_of di cs ->
  enc_children E D protfunc iv_of di key cs = Ok cs_e ->
  poss_ok (xmoof_size cs + mdat_hdr) poss ->
  start + xmoof_size cs < 18446744073709551616 ->
  decrypt_multi E D di key (xlayout start cs_e mdat_hdr poss)
  = Ok (xlayout start (clear_children di cs) mdat_hdr poss).
Proof. exact fragment_roundtrip_multi. Qed.
Print Assumptions C06_fragment_roundtrip_multi.

(* finding C06-F7 (fixed in /repo, fc9ee41): the pinned text fetched the samples of the FIRST traf of the track for
   every traf (C06MultiModel.decrypt_multi_pinned).  Two trafs of one cenc track: the text of the tree restores both, the
   pinned text returns nil with the clear box tree and both trafs still encrypted *)
Theorem C06_first_traf_samples_refuted :
  let di := [(1, Some (mkTI Cenc [] 0 0))] in
  let key := repeat 3 16 in
  let iv_of := fun _ : N => repeat 7 16 in
  let cs := [XOther 16 1;
             XTraf (mkX 1 [mkT TOther 16 2; mkT TTrun 20 3; mkT TSenc 32 4] [] [] [] [[10; 20; 30]]);
             XTraf (mkX 1 [mkT TOther 16 5; mkT TTrun 20 6; mkT TSenc 32 7] [] [] [] [[40; 50; 60]])] in
  match enc_children f7_E f7_E (fun _ _ => Ok []) iv_of di key cs with
  | Ok cs_e =>
      let f := xlayout 0 cs_e 8 [[0]; [3]] in
      decrypt_multi f7_E f7_E di key f = Ok (xlayout 0 (clear_children di cs) 8 [[0]; [3]]) /\
      match decrypt_multi_pinned f7_E f7_E di key f with
      | Ok g =>
          map (fun c => match c with XTraf t => x_data t | _ => [] end) (xf_children g)
          = [[]; [[2; 28; 22]]; [[32; 58; 52]]] /\
          map (fun c => match c with XTraf t => x_data t | _ => [] end) cs_e = [[]; [[2; 28; 22]]; [[32; 58; 52]]] /\
          map x_struct (xf_children g) = map x_struct (xf_children (xlayout 0 (clear_children di cs) 8 [[0]; [3]]))
      | _ => False
      end
  | _ => False
  end.
Proof. exact first_traf_samples_refuted. Qed.
Print Assumptions C06_first_traf_samples_refuted.

(* the clear tree named by the two theorems holds no pssh box and no protection box in a protected traf *)
Theorem C06_clear_tree_clean : forall di cs c,
  In c (clear_children di cs) ->
  x_is_pssh c = false /\
  (forall t, c = XTraf t -> find_track di (x_track t) <> None ->
             forallb (fun b => negb (is_prot_kind_x (tk b))) (x_children t) = true).
Proof. exact clear_children_clean. Qed.
Print Assumptions C06_clear_tree_clean.

(* init segment: DecryptInit (InitProtect init) = init for every single-track init whose moov has no pssh: the
   sample entry type is restored from frma (avc1/avc3/hvc1/hev1, any audio type), the sinf InitProtect added and the
   added pssh boxes are gone, every other child of the sample entry - a sinf the entry owned before protection
   included: RemoveEncryption (text after fix bb3f974) removes the sinf it returns, the last one - and of moov is
   kept in place, and the decrypt side receives the scheme and the tenc that InitProtect returned.  No guard on the
   entry's children any more *)
Theorem C06_init_roundtrip : forall m iv sch kid psshs ps_ok m' t,
  init_protect m iv sch kid psshs ps_ok = Ok (m', t) ->
  no_pssh m = true ->
  decrypt_init m' = Ok (m, [Some (sch, Some t)]).
Proof. exact init_roundtrip. Qed.
Print Assumptions C06_init_roundtrip.

(* the whole fragment, sample bytes included: decrypt_frag (encrypt_frag f) = f after an encode/decode cycle at any
   position: same moof/traf children in order, clear data offset and mdat position, every sample byte restored.
   cenc: every block function, every protection function (AVC, HEVC, audio = no sub-samples), 8/16-byte IVs *)
Theorem C06_fragment_roundtrip_cenc :
  forall (E D : list N -> list N -> list N) (protfunc : list N -> res (list ssp))
         key iv cb sb start mdat_hdr ids f e constiv,
  clean_moof (cf_children f) = true -> nr_trafs (cf_children f) = 1%nat ->
  encrypt_frag E D protfunc Cenc key iv cb sb start mdat_hdr ids f = Ok e ->
  decrypt_frag E D Cenc key constiv cb sb e = Ok (layout start (cf_children f) mdat_hdr, cf_samples f).
Proof. exact fragment_roundtrip_cenc. Qed.
Print Assumptions C06_fragment_roundtrip_cenc.

(* cbcs: D inverts E on 16-byte blocks, the sub-sample maps fit their samples (true for the maps of
   Get(AVC|HEVC)ProtectRanges by C07_cbcs_shape, and for audio), constant IV = padded encryption IV *)
Theorem C06_fragment_roundtrip_cbcs :
  forall (E D : list N -> list N -> list N) (protfunc : list N -> res (list ssp))
         key iv cb sb start mdat_hdr ids f e,
  (forall k b, length (E k b) = 16%nat) ->
  (forall k b, length (D k b) = 16%nat) ->
  (forall k b, length b = 16%nat -> D k (E k b) = b) ->
  key_ok key = true ->
  (forall s ssps, In s (cf_samples f) -> protfunc s = Ok ssps -> fits s ssps) ->
  clean_moof (cf_children f) = true -> nr_trafs (cf_children f) = 1%nat ->
  encrypt_frag E D protfunc Cbcs key iv cb sb start mdat_hdr ids f = Ok e ->
  decrypt_frag E D Cbcs key (pad_iv iv) cb sb e = Ok (layout start (cf_children f) mdat_hdr, cf_samples f).
Proof. exact fragment_roundtrip_cbcs. Qed.
Print Assumptions C06_fragment_roundtrip_cbcs.

(* the two fragment theorems for EncryptFragment with SencBox.AddSample in its REPAIRED text (the code as it is now):
   same statements; they are no longer vacuous on fragments mixing samples with and without protection ranges
   (ex_frag_roundtrip_mixed: the pinned model panics there, the repaired one round-trips) *)
Theorem C06_fragment_roundtrip_repaired_cenc :
  forall (E D : list N -> list N -> list N) (protfunc : list N -> res (list ssp))
         key iv cb sb start mdat_hdr ids f e constiv,
  clean_moof (cf_children f) = true -> nr_trafs (cf_children f) = 1%nat ->
  encrypt_frag_r E D protfunc Cenc key iv cb sb start mdat_hdr ids f = Ok e ->
  decrypt_frag E D Cenc key constiv cb sb e = Ok (layout start (cf_children f) mdat_hdr, cf_samples f).
Proof. exact fragment_roundtrip_r_cenc. Qed.
Print Assumptions C06_fragment_roundtrip_repaired_cenc.

Theorem C06_fragment_roundtrip_repaired_cbcs :
  forall (E D : list N -> list N -> list N) (protfunc : list N -> res (list ssp))
         key iv cb sb start mdat_hdr ids f e,
  (forall k b, length (E k b) = 16%nat) ->
  (forall k b, length (D k b) = 16%nat) ->
  (forall k b, length b = 16%nat -> D k (E k b) = b) ->
  key_ok key = true ->
  (forall s ssps, In s (cf_samples f) -> protfunc s = Ok ssps -> fits s ssps) ->
  clean_moof (cf_children f) = true -> nr_trafs (cf_children f) = 1%nat ->
  encrypt_frag_r E D protfunc Cbcs key iv cb sb start mdat_hdr ids f = Ok e ->
  decrypt_frag E D Cbcs key (pad_iv iv) cb sb e = Ok (layout start (cf_children f) mdat_hdr, cf_samples f).
Proof. exact fragment_roundtrip_r_cbcs. Qed.
Print Assumptions C06_fragment_roundtrip_repaired_cbcs.

(* third-party cenc content: a successful DecryptFragment keeps the sample count and every sample size, and
   shifts the offsets by exactly the removed bytes (cbcs sizes: explored on the repository's cbcs files) *)
Theorem C06_decrypt_preserves_timing :
  forall (E D : list N -> list N -> list N) key constiv cb sb e g samples,
  decrypt_frag E D Cenc key constiv cb sb e = Ok (g, samples) ->
  map (@length N) samples = map (@length N) (ef_data e) /\
  f_moof_start g = f_moof_start (ef_frag e) /\
  moof_size (f_children g) + (f_data_offset (ef_frag e) - f_data_offset g) = moof_size (f_children (ef_frag e)) /\
  f_data_offset g <= f_data_offset (ef_frag e).
Proof. exact decrypt_preserves_timing. Qed.
Print Assumptions C06_decrypt_preserves_timing.

(* ---------------------------------------------------------------- the senc box, byte for byte *)
(* parse (encode senc) = senc: the box SencBox.Encode writes (header, version/flags, sample_count, per-sample IV of
   0 / 8 / 16 bytes, sub-sample tables) is read back by DecodeSenc + ParseReadBox as the same SencBox state, for
   every IV size and every sub-sample layout (constant-IV cbcs boxes without per-sample IVs, audio boxes without
   tables, empty boxes included), when ParseReadBox is given the written IV size, or 0 (= infer) for a box without
   sub-sample tables *)
Theorem C06_senc_codec : forall s p box,
  senc_wf s = true -> p_ok p s = true ->
  senc_encode s = Ok box -> lenN box < 4294967296 ->
  senc_parse p box = Ok s.
Proof. exact senc_codec. Qed.
Print Assumptions C06_senc_codec.

(* saiz describes exactly the senc entries: for a fragment whose samples all carry an IV of ivsz bytes and
   uniformly have / do not have a sub-sample map, the sizes the SaizBox of EncryptFragment describes are the byte
   lengths of the entries the SencBox writes, sample by sample (entries below 256 bytes: C07-F1 beyond) *)
Theorem C06_aux_consistent : forall ivsz sub encs z,
  (ivsz = 0 \/ ivsz = 8 \/ ivsz = 16) -> uniform ivsz sub encs = true ->
  forallb (fun e => lenN e <? 256) (entries_of ivsz sub encs) = true ->
  saiz_of saiz_empty encs = Ok z ->
  if sub || (0 <? ivsz) then
    saiz_sizes z = map (fun e => lenN e) (entries_of ivsz sub encs) /\ sz_count z = lenN encs
  else
    saiz_sizes z = [] /\ sz_count z = 0 /\ concat (entries_of ivsz sub encs) = [].
Proof. exact aux_consistent. Qed.
Print Assumptions C06_aux_consistent.

(* saio: in the encoded moof (any boxes before the traf, any boxes before senc in the traf, box sizes as at
   encryption time) the stored offset addresses the first byte of the first senc entry, and it is the value
   TrafBox.ParseReadSenc insists on (senc box position + 16, relative to the moof start) *)
Theorem C06_saio_points_at_entries : forall moof_hdr traf_hdr (before pre : list (list N)) post senc_hdr16 entries tail,
  length moof_hdr = 8%nat -> length traf_hdr = 8%nat -> length senc_hdr16 = 16%nat ->
  forallb (fun x : bool * N => negb (fst x)) post = true ->
  let off := saio_offset (map (fun b => lenN b) before)
                         (map (fun b => (false, lenN b)) pre ++ (true, lenN (senc_hdr16 ++ entries)) :: post) in
  let moof := moof_hdr ++ concat before ++ traf_hdr ++ concat pre ++ (senc_hdr16 ++ entries) ++ tail in
  skipn (N.to_nat off) moof = entries ++ tail /\
  off = lenN (moof_hdr ++ concat before ++ traf_hdr ++ concat pre) + 16.
Proof. exact saio_points_at_entries. Qed.
Print Assumptions C06_saio_points_at_entries.

(* transport, cenc: the senc box written for the samples EncryptFragment's loop encrypted (16-byte IVs, all samples
   with a sub-sample map = video, or none = audio) is parsed with tenc's per-sample IV size 16 into exactly the IV
   list and sub-sample lists (decoded_ivs / decoded_subs) that C06_iv_sequence_cenc and C06_fragment_roundtrip_cenc
   feed to decryptSamplesInPlace: the "as the senc decoder returns them" of those theorems is now proved *)
Theorem C06_senc_transport_cenc :
  forall (E : list N -> list N -> list N) (protfunc : list N -> res (list ssp)) sub key iv samples encs s box,
  length iv = 16%nat -> prot_uniform protfunc sub samples -> prot_in_range protfunc samples ->
  lenN samples < 4294967296 ->
  encrypt_samples_cenc E protfunc key iv samples = Ok encs ->
  senc_of senc_empty encs = Ok s -> senc_encode s = Ok box -> lenN box < 4294967296 ->
  exists s', senc_parse 16 box = Ok s' /\ sn_ivs s' = decoded_ivs encs /\ sn_ss s' = decoded_subs encs /\
             sn_count s' = lenN samples.
Proof. exact senc_transport_cenc. Qed.
Print Assumptions C06_senc_transport_cenc.

(* transport, cbcs: no per-sample IV is written; tenc's per-sample IV size is 0 *)
Theorem C06_senc_transport_cbcs :
  forall (E D : list N -> list N -> list N) (protfunc : list N -> res (list ssp)) sub key iv cb sb samples encs s box,
  prot_uniform protfunc sub samples -> prot_in_range protfunc samples ->
  lenN samples < 4294967296 ->
  encrypt_samples_cbcs E D protfunc key iv cb sb samples = Ok encs ->
  senc_of senc_empty encs = Ok s -> senc_encode s = Ok box -> lenN box < 4294967296 ->
  exists s', senc_parse 0 box = Ok s' /\ sn_ivs s' = decoded_ivs encs /\ sn_ss s' = decoded_subs encs /\
             sn_count s' = lenN samples.
Proof. exact senc_transport_cbcs. Qed.
Print Assumptions C06_senc_transport_cbcs.

(* why `uniform` / prot_uniform was there: with the PINNED SencBox.AddSample (C07Model.senc_add) a fragment mixing
   samples with and without a sub-sample map left one table for two samples in the SencBox and Encode indexed out of
   range (known finding C06-F4, reproduced on the real code then; repaired in /repo by ecf1460 + 0b086ee) *)
Theorem C06_mixed_subsamples_refuted :
  let encs := [mkEnc (repeat 1 16) [] []; mkEnc (repeat 2 16) [mkSsp 5 16] []] in
  exists s, senc_of senc_empty encs = Ok s /\ sn_count s = 2 /\ length (sn_ss s) = 1%nat /\ senc_encode s = Panic.
Proof. exact mixed_subsamples_refuted. Qed.
Print Assumptions C06_mixed_subsamples_refuted.

(* the repaired AddSample (C06SencModel.senc_add_r, the text the correspondence now runs against) builds the same
   SencBox as the pinned one on every uniform fragment, so the theorems above keep describing the code *)
Theorem C06_senc_repaired_agrees : forall ivsz sub encs,
  ivsz < 256 -> uniform ivsz sub encs = true -> lenN encs < 4294967296 ->
  senc_of_r senc_empty encs = senc_of senc_empty encs.
Proof. exact senc_of_r_uniform. Qed.
Print Assumptions C06_senc_repaired_agrees.

(* and for ANY fragment - samples with and without sub-sample maps in any order (a video sample without protection
   range next to normal ones) - the SencBox of the repaired loop, written by Encode and parsed with the IV size it
   was written with, is exactly the IV list and the per-sample sub-sample lists that C06_iv_sequence_cenc / _cbcs
   (which never needed uniformity) feed to decryptSamplesInPlace: mixed fragments round-trip *)
Theorem C06_senc_transport_mixed : forall ivsz encs s box,
  (ivsz = 0 \/ ivsz = 8 \/ ivsz = 16) -> ivs_sized ivsz encs = true ->
  forallb subs_ok (map e_ssps encs) = true -> lenN encs < 4294967296 ->
  senc_of_r senc_empty encs = Ok s -> senc_encode s = Ok box -> lenN box < 4294967296 ->
  exists s', senc_parse ivsz box = Ok s' /\ sn_ivs s' = decoded_ivs encs /\ sn_ss s' = decoded_subs encs /\
             sn_count s' = lenN encs.
Proof. exact senc_transport_mixed. Qed.
Print Assumptions C06_senc_transport_mixed.

(* what about a CLEAR input whose traf already carries a seig sample group?  seig is protection signalling that
   EncryptFragment neither writes nor updates, and TrafBox.ParseReadSenc lets its per-sample IV size override the
   tenc's.  If it agrees with the tenc InitProtect writes (or there is none) the decrypt side reads the senc as above;
   if it contradicts it, the senc EncryptFragment wrote cannot be read (16-byte IVs do not fill the data as 8-byte IVs:
   an error since the ParseReadBox fix, a silent misread before; reproduced on the real code, see reports/C06.md):
   such an input is outside the property's "clear track" *)
Theorem C06_seig_override_refuted :
  let encs := [mkEnc (repeat 1 16) [] []; mkEnc (repeat 2 16) [] []] in
  exists s box,
    senc_of_r senc_empty encs = Ok s /\ senc_encode s = Ok box /\
    traf_senc_seig 16 None 100 124 (Some 40) box = Ok s /\ sn_ivs s = decoded_ivs encs /\
    traf_senc_seig 16 (Some 8) 100 124 (Some 40) box = Err.
Proof. exact seig_override_refuted. Qed.
Print Assumptions C06_seig_override_refuted.

(* ---------------------------------------------------------------- sample location (trex) and whole files *)
(* the trex is a parameter of BOTH sides: EncryptFragment finds the samples with ipd.Trex, DecryptFragment with the
   track's trex of the decrypted init.  When they agree, the whole mdat payload is restored (sizes per sample in
   trun, from tfhd.default_sample_size or only from trex.default_sample_size; bytes behind the last sample are
   untouched) *)
Theorem C06_fragment_roundtrip_trex_cenc :
  forall (E D : list N -> list N -> list N) (protfunc : list N -> res (list ssp))
         key iv constiv cb sb start mdat_hdr ids trex_e trex_d f e pl,
  trex_d = trex_e ->
  clean_moof (pf_children f) = true -> nr_trafs (pf_children f) = 1%nat ->
  encrypt_frag_trex E D protfunc Cenc key iv cb sb start mdat_hdr ids trex_e f = Ok (e, pl) ->
  decrypt_frag_trex E D Cenc key constiv cb sb trex_d (pf_sizing f) e pl
  = Ok (layout start (pf_children f) mdat_hdr, pf_payload f).
Proof. exact trex_roundtrip_cenc. Qed.
Print Assumptions C06_fragment_roundtrip_trex_cenc.

(* any scheme (cbcs): the same from the fragment round trip and "encryption keeps every sample length" *)
Theorem C06_fragment_roundtrip_trex_generic :
  forall (E D : list N -> list N -> list N) (protfunc : list N -> res (list ssp))
         sch key iv constiv cb sb start mdat_hdr ids trex_e trex_d f e pl,
  sample_sizes trex_d (pf_sizing f) = sample_sizes trex_e (pf_sizing f) ->
  (forall samples e0, encrypt_frag E D protfunc sch key iv cb sb start mdat_hdr ids (mkC (pf_children f) samples) = Ok e0 ->
     decrypt_frag E D sch key constiv cb sb e0 = Ok (layout start (pf_children f) mdat_hdr, samples) /\
     map (@length N) (ef_data e0) = map (@length N) samples) ->
  encrypt_frag_trex E D protfunc sch key iv cb sb start mdat_hdr ids trex_e f = Ok (e, pl) ->
  decrypt_frag_trex E D sch key constiv cb sb trex_d (pf_sizing f) e pl
  = Ok (layout start (pf_children f) mdat_hdr, pf_payload f).
Proof. exact trex_roundtrip_generic. Qed.
Print Assumptions C06_fragment_roundtrip_trex_generic.

(* and the statement is false when they differ: EncryptFragment with a nil trex on a fragment whose sizes come
   only from trex.default_sample_size encrypts nothing (payload unchanged, senc/saiz/saio written all the same),
   DecryptFragment with the real trex then runs the cipher over clear payload *)
Theorem C06_trex_mismatch_refuted :
  let E := fun (_ _ : list N) => repeat 1 16 in
  let f := mkP [MOther 16 1; MTraf [mkT TOther 16 2; mkT TTrun 20 3]] (mkSizing 2 None None) [10; 20; 30; 40; 50; 60; 70; 80] in
  exists e pl out,
    encrypt_frag_trex E E (fun _ => Ok []) Cenc (repeat 3 16) (repeat 0 16) 0 0 100 8 50 None f = Ok (e, pl) /\
    pl = pf_payload f /\
    decrypt_frag_trex E E Cenc (repeat 3 16) [] 0 0 (Some 4) (pf_sizing f) e pl = Ok out /\
    snd out <> pf_payload f.
Proof. exact trex_mismatch_refuted. Qed.
Print Assumptions C06_trex_mismatch_refuted.

(* whole files, any number of fragments (induction over the fragment list): mp4ff-encrypt encrypts every fragment
   with the same IV and writes them one after the other; fragment i of the encrypted file starts where the clear
   one would plus the bytes added to the moofs of fragments 0..i-1 (enc_positions); mp4ff-decrypt decrypts every
   fragment in place (moof start unchanged, data offset and mdat position back to the clear values relative to
   it), and re-encoding from any position gives exactly the layout of the clear file, with every sample restored.
   cenc; the sidx of a segment is known finding C06-F3 and not part of the model *)
Theorem C06_file_roundtrip_cenc :
  forall (E D : list N -> list N -> list N) (protfunc : list N -> res (list ssp)) key iv constiv cb sb
         (fs : list (cfrag * N)) start_e ids es,
  Forall (fun p : cfrag * N => clean_moof (cf_children (fst p)) = true /\ nr_trafs (cf_children (fst p)) = 1%nat) fs ->
  encrypt_file E D protfunc Cenc key iv cb sb start_e ids fs = Ok es ->
  exists gs, decrypt_file E D Cenc key constiv cb sb es = Ok gs /\
    (forall start_c, reencode start_c gs = layout_file start_c fs) /\
    map (fun g => snd (fst g)) gs = map (fun p => cf_samples (fst p)) fs /\
    map (fun g => f_moof_start (fst (fst g))) gs = enc_positions start_e fs es.
Proof. exact file_roundtrip_cenc. Qed.
Print Assumptions C06_file_roundtrip_cenc.

(* ---------------------------------------------------------------- cbcs: lengths, trex, whole files *)
(* cryptSampleCbcs (either direction, every crypt:skip pattern, every sub-sample map that lies inside the sample)
   returns a sample of the same length: proved from the model (splices of equal length, CBC over whole blocks) *)
Theorem C06_cbcs_keeps_length :
  forall (E D : list N -> list N -> list N),
  (forall k b, length (E k b) = 16%nat) -> (forall k b, length (D k b) = 16%nat) ->
  forall dec key iv ssps cb sb s c,
  key_ok key = true -> length iv = 16%nat -> fits s ssps ->
  crypt_sample_cbcs E D dec key iv ssps cb sb s = Ok c -> length c = length s.
Proof. exact crypt_sample_cbcs_length. Qed.
Print Assumptions C06_cbcs_keeps_length.

(* the trex-parameterised round trip for cbcs WITHOUT the "encryption keeps every sample length" hypothesis of
   C06_fragment_roundtrip_trex_generic: the whole mdat payload (below 4 GiB) is restored when both sides resolve the
   sample sizes with the same trex *)
Theorem C06_fragment_roundtrip_trex_cbcs :
  forall (E D : list N -> list N -> list N),
  (forall k b, length (E k b) = 16%nat) -> (forall k b, length (D k b) = 16%nat) ->
  forall (protfunc : list N -> res (list ssp)),
  (forall k b, length b = 16%nat -> D k (E k b) = b) ->
  forall key iv cb sb start mdat_hdr ids trex_e trex_d f e pl,
  key_ok key = true -> prot_inside protfunc -> lenN (pf_payload f) < 4294967296 ->
  trex_d = trex_e ->
  clean_moof (pf_children f) = true -> nr_trafs (pf_children f) = 1%nat ->
  encrypt_frag_trex E D protfunc Cbcs key iv cb sb start mdat_hdr ids trex_e f = Ok (e, pl) ->
  decrypt_frag_trex E D Cbcs key (pad_iv iv) cb sb trex_d (pf_sizing f) e pl
  = Ok (layout start (pf_children f) mdat_hdr, pf_payload f).
Proof. exact trex_roundtrip_cbcs. Qed.
Print Assumptions C06_fragment_roundtrip_trex_cbcs.

(* whole files, cbcs, any number of fragments: as C06_file_roundtrip_cenc (the constant IV of tenc is the padded
   encryption IV; samples below 4 GiB) *)
Theorem C06_file_roundtrip_cbcs :
  forall (E D : list N -> list N -> list N),
  (forall k b, length (E k b) = 16%nat) -> (forall k b, length (D k b) = 16%nat) ->
  forall (protfunc : list N -> res (list ssp)),
  (forall k b, length b = 16%nat -> D k (E k b) = b) ->
  forall key iv cb sb, key_ok key = true -> prot_inside protfunc ->
  forall (fs : list (cfrag * N)) start_e ids es,
  Forall (fun p : cfrag * N => clean_moof (cf_children (fst p)) = true /\ nr_trafs (cf_children (fst p)) = 1%nat /\
                               forallb (fun s => lenN s <? 4294967296) (cf_samples (fst p)) = true) fs ->
  encrypt_file E D protfunc Cbcs key iv cb sb start_e ids fs = Ok es ->
  exists gs, decrypt_file E D Cbcs key (pad_iv iv) cb sb es = Ok gs /\
    (forall start_c, reencode start_c gs = layout_file start_c fs) /\
    map (fun g => snd (fst g)) gs = map (fun p => cf_samples (fst p)) fs /\
    map (fun g => f_moof_start (fst (fst g))) gs = enc_positions start_e fs es.
Proof. exact file_roundtrip_cbcs. Qed.
Print Assumptions C06_file_roundtrip_cbcs.

(* ---------------------------------------------------------------- durations, flags, composition offsets, decode times *)
(* EncryptFragment and DecryptFragment both call Fragment.GetFullSamples(their trex), which writes the tfhd / trex
   defaults INTO trun.Samples (AddSampleDefaultValues) of the fragment that is then encoded.  For every trun as a
   decoder delivers it (any combination of per-sample duration / size / flags / cto, first-sample-flags, data
   offset), every tfhd, every trex on the encrypt side (a wrong one or nil included) and on the decrypt side: the
   encoded trun is read back as the clear trun (only the data offset is new), after the encrypt round (tr1) and
   again after the decrypt round (tr2); so sample count, sizes, durations, flags, composition offsets and decode
   times reported by Fragment.GetFullSamples with any trex_d are those of the clear fragment *)
Theorem C06_timing_roundtrip : forall tfhd trex_e tr off1 off2,
  as_decoded tr = true ->
  off1 < 4294967296 -> off2 < 4294967296 -> (tr_doff tr = true -> off1 <> 0 /\ off2 <> 0) ->
  exists tr1 tr2,
    trun_after_encrypt tfhd trex_e tr off1 = Ok tr1 /\
    (forall trex_d, trun_after_encrypt tfhd trex_d tr1 off2 = Ok tr2) /\
    tr_samples tr1 = tr_samples tr /\ tr_samples tr2 = tr_samples tr /\
    forall trex_d base,
      fragment_meta tfhd trex_d tr1 base = fragment_meta tfhd trex_d tr base /\
      fragment_meta tfhd trex_d tr2 base = fragment_meta tfhd trex_d tr base.
Proof. exact timing_roundtrip. Qed.
Print Assumptions C06_timing_roundtrip.

(* and the sizes with which C06_fragment_roundtrip_trex_cenc / _cbcs split the mdat payload are the size column of
   that metadata: the `sizing` of those theorems is sizing_of tfhd trun *)
Theorem C06_sizes_agree : forall tfhd trex tr base,
  sample_sizes (option_map tx_size trex) (sizing_of tfhd tr) = sizes_of_meta (fragment_meta tfhd trex tr base).
Proof. exact sizes_agree. Qed.
Print Assumptions C06_sizes_agree.

(* the same for a traf with ANY number of truns (C06TrafTimingModel.traf_meta: Fragment.GetFullSamples walks the truns
   and advances the base time by what AddSampleDefaultValues returns): every trun goes through the encrypt side
   (defaults of ANY trex, Encode, decode) and the decrypt side (defaults of ANY trex, Encode, decode) with any data
   offsets; count, sizes, durations, flags, composition offsets and DECODE TIMES of the whole traf - the decode time of
   a later trun depends on the durations of all earlier ones - are those of the clear traf *)
Theorem C06_timing_roundtrip_multi : forall tfhd trex_e (l : list (trun_t * (N * N))),
  (forall tr o1 o2, In (tr, (o1, o2)) l ->
     as_decoded tr = true /\ o1 < 4294967296 /\ o2 < 4294967296 /\ (tr_doff tr = true -> o1 <> 0 /\ o2 <> 0)) ->
  exists l12 : list (trun_t * trun_t),
    Forall2 (fun x p => trun_after_encrypt tfhd trex_e (fst x) (fst (snd x)) = Ok (fst p) /\
                        (forall trex_d, trun_after_encrypt tfhd trex_d (fst p) (snd (snd x)) = Ok (snd p)) /\
                        tr_samples (fst p) = tr_samples (fst x) /\ tr_samples (snd p) = tr_samples (fst x)) l l12 /\
    forall trex_d base,
      traf_meta tfhd trex_d (map fst l12) base = traf_meta tfhd trex_d (map fst l) base /\
      traf_meta tfhd trex_d (map snd l12) base = traf_meta tfhd trex_d (map fst l) base.
Proof. exact timing_roundtrip_multi. Qed.
Print Assumptions C06_timing_roundtrip_multi.

(* ---------------------------------------------------------------- several sample entries, several tracks *)
(* a moov in which EVERY sample entry of EVERY track has been protected the way InitProtect protects its single
   entry (type -> encv / enca, sinf(frma = original type, schm, schi(tenc)) appended after the entry's own
   children, whatever those are: avcC/hvcC/esds, btrt, pasp, unknown boxes), with pssh boxes appended to the moov:
   DecryptInit restores every entry (original 4cc from frma, sinf gone, every other child in place and in order),
   every track, every other moov child, removes the pssh boxes and returns one (scheme, tenc) per entry.
   No guard on the entries' children: an entry may own sinf boxes of its own (they stay) *)
Theorem C06_init_restore_all : forall m iv sch kid ps_ok psshs m' ts,
  no_pssh m = true ->
  protect_traks m iv sch kid ps_ok = Ok (m', ts) ->
  decrypt_init (m' ++ map MVPssh psshs) = Ok (m, infos_of sch ts).
Proof. exact init_restore_all. Qed.
Print Assumptions C06_init_restore_all.

(* ---------------------------------------------------------------- the sample entry and its sinf as bytes *)
(* the sinf box InitProtect writes (frma = original sample entry type, schm = scheme + version 1.0, schi{tenc}) is read
   back by DecodeSinf / DecodeFrma / DecodeSchm / DecodeSchi / DecodeTenc with exactly these values: every tenc that
   fits its field widths (version 0 / 1, crypt:skip pattern, per-sample IV size, 16-byte KID, constant IV) *)
Theorem C06_sinf_codec : forall fmt sch t,
  fmt < 4294967296 -> sch < 4294967296 -> tenc_wf t = true ->
  sinf_decode (sinf_encode fmt sch t) = Ok (mkSD (Some fmt) (Some sch) (Some (Some t))).
Proof. exact sinf_codec. Qed.
Print Assumptions C06_sinf_codec.

(* "restores the original sample entry type", in bytes: the entry InitProtect + Encode write (size, encv / enca, the
   fixed fields, the entry's own child boxes whatever they are - avcC / hvcC / esds, btrt, pasp, unknown boxes, sinf
   boxes of its own -, then the new sinf) is turned by decode + RemoveEncryption + Encode into exactly the bytes of the
   clear entry (size and 4cc included), and the sinf handed to DecryptFragment is the one InitProtect built *)
Theorem C06_entry_bytes_roundtrip_opaque : forall enc_ty ty fixed children sch t,
  ty < 4294967296 -> sch < 4294967296 -> tenc_wf t = true ->
  forallb wf_box children = true ->
  8 + lenN fixed + lenN (concat children) + 400 < 4294967296 ->
  unprotect_entry_bytes (length fixed) (protect_entry_bytes enc_ty ty fixed children sch t)
  = Ok (entry_bytes ty fixed children, mkSD (Some ty) (Some sch) (Some (Some t))).
Proof. exact entry_bytes_roundtrip. Qed.
Print Assumptions C06_entry_bytes_roundtrip_opaque.

(* the fixed fields of the sample entry as TYPED fields (C06FixedModel.v: DecodeVisualSampleEntrySR / EncodeSW,
   DecodeAudioSampleEntrySR / EncodeSW): data_reference_index, width, height, horizresolution, vertresolution,
   frame_count, compressor name / data_reference_index, channelcount, samplesize, samplerate are read back exactly as
   written, for every value within the field widths *)
Theorem C06_entry_fixed_fields :
  (forall v, vfixed_wf v = true -> vfixed_decode (vfixed_encode v) = Ok v /\ length (vfixed_encode v) = 78%nat) /\
  (forall a, afixed_wf a = true -> afixed_decode (afixed_encode a) = a /\ length (afixed_encode a) = 28%nat).
Proof. exact fixed_fields_codec. Qed.
Print Assumptions C06_entry_fixed_fields.

(* third-party entries: for ANY 78 / 28 input bytes what the library writes back (reserved / pre_defined bytes zeroed,
   depth 0x0018, fractional sample rate dropped: this happens on any decode + encode, protected or not) carries the same
   typed fields, has the right length and is a fixed point of decode + encode *)
Theorem C06_entry_fixed_stable : forall k fx fx',
  bytes_ok fx = true -> fixed_reencode k fx = Ok fx' ->
  fixed_reencode k fx' = Ok fx' /\ length fx' = fixed_len k /\
  match k with
  | SVisual => vfixed_decode fx' = vfixed_decode fx
  | SAudio => afixed_decode fx' = afixed_decode fx
  | SOtherKind => True
  end.
Proof. exact fixed_reencode_stable. Qed.
Print Assumptions C06_entry_fixed_stable.

(* decode (typed fixed fields, children with 8- or 16-byte headers) + RemoveEncryption + Encode of a protected entry
   whose sinf stands at ANY position among the children - children BEFORE and AFTER it; InitProtect appends: after =
   [] -, for ANY fixed bytes fx: the entry comes back under its original 4cc with the re-encoded fixed fields fx' and
   the children before and after the sinf in place; the sinf handed to DecryptFragment is the one written.  `after`
   holds no further sinf (RemoveEncryption reads and removes the LAST one) *)
Theorem C06_entry_typed_roundtrip : forall k ty fx fx' before after sch t,
  k <> SOtherKind ->
  ty < 4294967296 -> sch < 4294967296 -> tenc_wf t = true ->
  length fx = fixed_len k -> fixed_reencode k fx = Ok fx' ->
  forallb wf_box16 before = true -> forallb wf_box16 after = true -> no_sinf_box after = true ->
  8 + lenN fx + lenN (concat before) + lenN (concat after) + 400 < 4294967296 ->
  unprotect_entry_typed k (protect_entry_bytes_at (enc_type k) ty fx before after sch t)
  = Ok (entry_bytes ty fx' (before ++ after), mkSD (Some ty) (Some sch) (Some (Some t))).
Proof. exact entry_typed_roundtrip. Qed.
Print Assumptions C06_entry_typed_roundtrip.

(* "restores the original sample entry type", byte for byte: for an entry as the library writes it (fixed fields fx a
   fixed point of decode + encode, e.g. vfixed_encode v / afixed_encode a: C06_entry_fixed_fields, C06_entry_fixed_stable)
   EVERY BYTE of the entry except the size field, the 4cc and the sinf child is identical before and after:
     protected = size_p ++ encv/enca ++ fx ++ children before ++ sinf ++ children after
     clear     = size_c ++ ty        ++ fx ++ children before ++         children after *)
Theorem C06_entry_bytes_roundtrip : forall k ty fx before after sch t,
  k <> SOtherKind ->
  ty < 4294967296 -> sch < 4294967296 -> tenc_wf t = true ->
  length fx = fixed_len k -> fixed_reencode k fx = Ok fx ->
  forallb wf_box16 before = true -> forallb wf_box16 after = true -> no_sinf_box after = true ->
  8 + lenN fx + lenN (concat before) + lenN (concat after) + 400 < 4294967296 ->
  exists clear size_p size_c,
    unprotect_entry_typed k (protect_entry_bytes_at (enc_type k) ty fx before after sch t)
    = Ok (clear, mkSD (Some ty) (Some sch) (Some (Some t))) /\
    protect_entry_bytes_at (enc_type k) ty fx before after sch t
    = size_p ++ be_bytes4 (enc_type k) ++ fx ++ concat before ++ sinf_encode ty sch t ++ concat after /\
    clear = size_c ++ be_bytes4 ty ++ fx ++ concat before ++ concat after /\
    length size_p = 4%nat /\ length size_c = 4%nat.
Proof. exact entry_bytes_identical. Qed.
Print Assumptions C06_entry_bytes_roundtrip.

(* ---------------------------------------------------------------- examples *)
(* the defect of the pinned tree (fixed by the `fix:` commit): traf{tfhd, tfxd-uuid} lost its uuid box and no
   byte was counted *)
Example C06_uuid_dropped_pinned :
  remove_encryption_boxes_pinned [mkT TOther 16 1; mkT TUuidOther 44 2] = ([mkT TOther 16 1], 0) /\
  remove_encryption_boxes [mkT TOther 16 1; mkT TUuidOther 44 2] = ([mkT TOther 16 1; mkT TUuidOther 44 2], 0).
Proof. split; reflexivity. Qed.

(* a clear moof with extra boxes satisfying the hypotheses of the round trip *)
Example ex_clean :
  let cs := [MOther 16 1; MOther 14 9; MTraf [mkT TOther 16 2; mkT TOther 20 3; mkT TTrun 60 4; mkT TUuidOther 44 5; mkT TOther 13 6;
                                             mkT (TSbgp cc_roll) 28 8; mkT (TSgpd cc_roll) 26 10]; MOther 11 7] in
  clean_moof cs = true /\ nr_trafs cs = 1%nat.
Proof. split; reflexivity. Qed.

(* block functions satisfying the hypotheses of C06_cbcs_inverse: xor with a key-derived pad *)
Definition ex_pad (k : list N) : list N := firstn 16 (k ++ repeat 90 16).
Definition ex_E (k b : list N) : list N := xorl (firstn 16 (b ++ repeat 0 16)) (ex_pad k).

Example ex_E_inverse :
  (forall k b, length (ex_E k b) = 16%nat) /\ (forall k b, length b = 16%nat -> ex_E k (ex_E k b) = b).
Proof.
  assert (Hp : forall k, length (ex_pad k) = 16%nat).
  { intros k. unfold ex_pad. rewrite firstn_length, app_length, repeat_length. lia. }
  assert (Hf : forall b, length (firstn 16 (b ++ repeat 0 16)) = 16%nat).
  { intros b. rewrite firstn_length, app_length, repeat_length. lia. }
  assert (Hl : forall k b, length (ex_E k b) = 16%nat).
  { intros k b. unfold ex_E. rewrite xorl_len; [apply Hf|rewrite Hf, Hp; reflexivity]. }
  split; [exact Hl|]. intros k b Hb. unfold ex_E at 1.
  assert (H1 : firstn 16 (ex_E k b ++ repeat 0 16) = ex_E k b).
  { rewrite firstn_app, (Hl k b), Nat.sub_diag, firstn_all2 by (rewrite Hl; lia). cbn. apply app_nil_r. }
  rewrite H1. unfold ex_E. rewrite xorl_involutive by (rewrite Hf, Hp; reflexivity).
  rewrite firstn_app, Hb, Nat.sub_diag, firstn_all2 by lia. cbn. apply app_nil_r.
Qed.

(* an init satisfying the hypotheses of C06_init_roundtrip; ex_init_own_sinf: an entry that already owns a sinf
   keeps it (the pinned RemoveEncryption removed the FIRST sinf child: fixed in /repo, commit bb3f974) *)
Example ex_init :
  let m := [MVOther 1; MVTrak [mkSE SVisual cc_avc1 [SEOther 2; SEOther 3]]; MVOther 4] in
  no_pssh m = true /\
  match init_protect m (repeat 7 8) cc_cbcs 1 [1000] true with
  | Ok (m', t) => decrypt_init m' = Ok (m, [Some (cc_cbcs, Some t)]) /\ t_constiv t = repeat 7 8 ++ repeat 0 8
  | _ => False
  end.
Proof. vm_compute. repeat split; reflexivity. Qed.

Example ex_init_own_sinf :
  let own := SESinf (mkSinf 1 (Some cc_cenc) None) in
  let m := [MVTrak [mkSE SAudio 77 [own; SEOther 2]]] in
  match init_protect m (repeat 7 16) cc_cenc 1 [] true with
  | Ok (m', t) => decrypt_init m' = Ok (m, [Some (cc_cenc, Some t)]) /\
                  (* the pinned RemoveEncryption removed the entry's own sinf and kept the added one *)
                  match m' with
                  | [MVTrak [se']] => exists s, remove_encryption_pinned se' = Ok (mkSE SAudio 77 [SEOther 2; SESinf s], s)
                  | _ => False
                  end
  | _ => False
  end.
Proof. vm_compute. split; [reflexivity|]. eexists. reflexivity. Qed.

(* the hypotheses of the fragment round trips are satisfiable: an AVC cenc fragment with a tfxd-like uuid box *)
Example ex_frag_roundtrip :
  let f := mkC [MOther 16 1; MTraf [mkT TOther 16 2; mkT TOther 20 3; mkT TTrun 60 4; mkT TUuidOther 44 5]]
               [C07Spec.frames [101 :: repeat 7 139; [6; 1]]; C07Spec.frames [65 :: repeat 9 120]] in
  clean_moof (cf_children f) = true /\ nr_trafs (cf_children f) = 1%nat /\
  match encrypt_frag ex_E ex_E (protect_ranges avc_is_video (fun _ => Err) Cenc) Cenc (repeat 3 16) (repeat 255 8)
                     0 0 500 8 100 f with
  | Ok e => decrypt_frag ex_E ex_E Cenc (repeat 3 16) [] 0 0 e = Ok (layout 500 (cf_children f) 8, cf_samples f)
            /\ ef_data e <> cf_samples f
  | _ => False
  end.
Proof. vm_compute. repeat split; try reflexivity. discriminate. Qed.

(* the hypotheses of the senc theorems are satisfiable: a cenc video box (16-byte IVs, sub-sample tables), a cbcs
   box without per-sample IVs, and the 8-byte-IV box read with perSampleIVSize 0 (inferred) *)
Example ex_senc_codec :
  let s1 := mkSenc 16 true 2 [repeat 7 16; repeat 9 16] [[mkSsp 100 32; mkSsp 7 0]; [mkSsp 65535 4294967295]] in
  let s2 := mkSenc 0 true 1 [] [[mkSsp 9 160]] in
  let s3 := mkSenc 8 false 3 [repeat 1 8; repeat 2 8; repeat 3 8] [] in
  senc_wf s1 = true /\ p_ok 16 s1 = true /\ senc_wf s2 = true /\ p_ok 0 s2 = true /\ senc_wf s3 = true /\ p_ok 0 s3 = true /\
  match senc_encode s1, senc_encode s2, senc_encode s3 with
  | Ok b1, Ok b2, Ok b3 => senc_parse 16 b1 = Ok s1 /\ senc_parse 0 b2 = Ok s2 /\ senc_parse 0 b3 = Ok s3 /\ lenN b1 = 70
  | _, _, _ => False
  end.
Proof. vm_compute. repeat split; reflexivity. Qed.

Example ex_aux_consistent :
  let encs := [mkEnc (repeat 7 16) [mkSsp 100 32; mkSsp 7 0] []; mkEnc (repeat 8 16) [mkSsp 5 16] []] in
  uniform 16 true encs = true /\
  forallb (fun e => lenN e <? 256) (entries_of 16 true encs) = true /\
  match saiz_of saiz_empty encs with Ok z => saiz_sizes z = [30; 24] | _ => False end.
Proof. vm_compute. repeat split; reflexivity. Qed.

(* a two-fragment file satisfying the hypotheses of C06_file_roundtrip_cenc; the second fragment of the encrypted
   file starts 17 (saiz) + 20 (saio) + 48 (senc) = 85 bytes later than in the clear file *)
Example ex_file_roundtrip :
  let f1 := (mkC [MOther 16 1; MTraf [mkT TOther 16 2; mkT TTrun 40 3]] [repeat 5 20; repeat 6 3], 8) in
  let f2 := (mkC [MTraf [mkT TOther 16 4; mkT TTrun 28 5; mkT TUuidOther 44 6]] [repeat 7 17], 8) in
  Forall (fun p : cfrag * N => clean_moof (cf_children (fst p)) = true /\ nr_trafs (cf_children (fst p)) = 1%nat) [f1; f2] /\
  match encrypt_file ex_E ex_E (fun _ => Ok []) Cenc (repeat 3 16) (repeat 255 8) 0 0 1000 50 [f1; f2] with
  | Ok es => enc_positions 1000 [f1; f2] es = [1000; 1204] /\ map f_moof_start (layout_file 1000 [f1; f2]) = [1000; 1119]
  | _ => False
  end.
Proof. split; [repeat constructor|]. vm_compute. split; reflexivity. Qed.

(* two tracks, the first with two sample entries (avc1 with two children, avc3), the second an audio track with an
   unknown child: all protected, two pssh boxes, everything back *)
Example ex_init_restore_all :
  let m := [MVOther 1; MVTrak [mkSE SVisual cc_avc1 [SEOther 2; SEOther 3]; mkSE SVisual cc_avc3 [SEOther 4]];
            MVTrak [mkSE SAudio 1836069985 [SEOther 5; SEOther 6]]; MVOther 7] in
  no_pssh m = true /\
  match protect_traks m (repeat 7 16) cc_cbcs 1 true with
  | Ok (m', ts) => decrypt_init (m' ++ map MVPssh [1000; 1001]) = Ok (m, infos_of cc_cbcs ts) /\ length (infos_of cc_cbcs ts) = 3%nat
  | _ => False
  end.
Proof. vm_compute. repeat split; reflexivity. Qed.

(* the hypotheses of the cbcs file theorem are satisfiable: audio (no sub-sample map), two fragments, pattern 0:0 *)
Example ex_file_roundtrip_cbcs :
  let f1 := (mkC [MOther 16 1; MTraf [mkT TOther 16 2; mkT TTrun 40 3; mkT (TSbgp cc_roll) 28 7; mkT (TSgpd cc_roll) 26 8]] [repeat 5 40; repeat 6 3], 8) in
  let f2 := (mkC [MTraf [mkT TOther 16 4; mkT TTrun 28 5; mkT TUuidOther 44 6]] [repeat 7 17], 8) in
  prot_inside (fun _ => Ok []) /\
  Forall (fun p : cfrag * N => clean_moof (cf_children (fst p)) = true /\ nr_trafs (cf_children (fst p)) = 1%nat /\
                               forallb (fun s => lenN s <? 4294967296) (cf_samples (fst p)) = true) [f1; f2] /\
  match encrypt_file ex_E ex_E (fun _ => Ok []) Cbcs (repeat 3 16) (repeat 9 8) 0 0 1000 50 [f1; f2] with
  | Ok es => map (fun e => ef_data (fst e)) es <> [[repeat 5 40; repeat 6 3]; [repeat 7 17]]
  | _ => False
  end.
Proof.
  split; [intros s ssps H; injection H as <-; cbn; lia|]. split; [repeat constructor|]. vm_compute. discriminate.
Qed.

(* the hypotheses of C06_timing_roundtrip are satisfiable: durations only in trex, sizes in tfhd, flags through
   first-sample-flags + trex, per-sample composition offsets; the encrypt side using a nil trex changes nothing *)
Example ex_timing :
  let tr := mkTrun false false false true true true 121 33554432
                   [mkTS 33554432 0 0 0; mkTS 0 0 0 500; mkTS 0 0 0 4294966296] in
  let tfhd := mkTfhd None (Some 17) None in
  let trex := Some (mkTrex 1024 1 16842752) in
  as_decoded tr = true /\
  trun_after_encrypt tfhd None tr 206 = Ok (set_data_offset tr 206) /\
  fragment_meta tfhd trex tr 90000 =
    [(mkTS 33554432 1024 17 0, 90000); (mkTS 16842752 1024 17 500, 91024); (mkTS 16842752 1024 17 4294966296, 92048)] /\
  fragment_meta tfhd None tr 90000 <> fragment_meta tfhd trex tr 90000.
Proof. vm_compute. repeat split; try reflexivity. discriminate. Qed.

(* the hypotheses of the byte-level entry theorem are satisfiable: an audio entry with an esds-like child and a sinf
   of its own, protected with the cbcs tenc InitProtect builds *)
Example ex_entry_bytes :
  let own := mkbox cc_sinf (frma_encode 2054847098) in
  let children := [mkbox 1702061171 [1; 2; 3]; own] in
  let t := mkTenc 1 0 0 1 0 (2 ^ 127 + 5) (repeat 7 8 ++ repeat 0 8) in
  tenc_wf t = true /\ forallb wf_box children = true /\
  lenN (protect_entry_bytes cc_enca 1836069985 (repeat 0 28) children cc_cbcs t) = 8 + 28 + 11 + 20 + 97 /\
  unprotect_entry_bytes 28 (protect_entry_bytes cc_enca 1836069985 (repeat 0 28) children cc_cbcs t)
  = Ok (entry_bytes 1836069985 (repeat 0 28) children, mkSD (Some 1836069985) (Some cc_cbcs) (Some (Some t))).
Proof. vm_compute. repeat split; reflexivity. Qed.

(* the fragment of C06-F4 with the repaired AddSample: an empty table for the first sample, Encode succeeds, the box
   (16 + 18 + 24 bytes) is read back as written *)
Example ex_mixed_repaired :
  let encs := [mkEnc (repeat 1 16) [] []; mkEnc (repeat 2 16) [mkSsp 5 16] []] in
  ivs_sized 16 encs = true /\ forallb subs_ok (map e_ssps encs) = true /\
  exists s box, senc_of_r senc_empty encs = Ok s /\ sn_ss s = [[]; [mkSsp 5 16]] /\ senc_encode s = Ok box /\
                senc_parse 16 box = Ok s /\ lenN box = 16 + (16 + 2) + (16 + 2 + 6).
Proof. split; [reflexivity|]. split; [reflexivity|]. exact mixed_subsamples_repaired. Qed.

(* a fragment mixing a sample without protection range (a single empty NAL unit) with a normal one: the pinned
   EncryptFragment model panics, the repaired one succeeds and the round trip restores both samples *)
Example ex_frag_roundtrip_mixed :
  let f := mkC [MTraf [mkT TOther 16 2; mkT TOther 20 3; mkT TTrun 60 4]]
               [[0; 0; 0; 0]; C07Spec.frames [101 :: repeat 7 139]] in
  let pf := protect_ranges avc_is_video (fun _ => Err) Cenc in
  encrypt_frag ex_E ex_E pf Cenc (repeat 3 16) (repeat 255 8) 0 0 500 8 100 f = Panic /\
  match encrypt_frag_r ex_E ex_E pf Cenc (repeat 3 16) (repeat 255 8) 0 0 500 8 100 f with
  | Ok e => decrypt_frag ex_E ex_E Cenc (repeat 3 16) [] 0 0 e = Ok (layout 500 (cf_children f) 8, cf_samples f)
            /\ ef_subs e = [[]; [mkSsp 96 48]]
  | _ => False
  end.
Proof. vm_compute. repeat split; reflexivity. Qed.

(* the hypotheses of C06_fragment_roundtrip_multi are satisfiable: three trafs (AVC cenc with two truns, audio cbcs,
   a clear track whose senc-like box is left alone), two pssh boxes, unknown boxes with 16-byte headers in traf and
   moof, a 16-byte mdat header, the truns' data interleaved in the payload *)
Example ex_multi :
  let di := [(1, Some (mkTI Cenc [] 0 0)); (2, Some (mkTI Cbcs (repeat 5 16) 0 0)); (3, None)] in
  let protfunc := fun tr : N => if tr =? 1 then protect_ranges avc_is_video (fun _ => Err) Cenc else audio_protect_ranges in
  let iv_of := fun tr : N => if tr =? 1 then repeat 255 16 else repeat 5 16 in
  let cs := [XOther 16 1; XPssh 32 2;
             XTraf (mkX 1 [mkT TOther 16 3; mkT TOther 20 4; mkT TSaio 20 5; mkT TTrun 40 6; mkT TSenc 80 7;
                           mkT TOther (xbox_size true 21) 8; mkT TTrun 32 9; mkT TSaiz 19 10] [] [] []
                         [C07Spec.frames [101 :: repeat 7 139; [6; 1]]; C07Spec.frames [65 :: repeat 9 120]]);
             XOther (xbox_size true 33) 11;
             XTraf (mkX 2 [mkT TOther 16 12; mkT TSenc 16 13; mkT TTrun 28 14; mkT TSaiz 17 15; mkT TSaio 20 16] [] [] []
                         [repeat 7 40; repeat 8 3]);
             XTraf (mkX 3 [mkT TOther 16 17; mkT TTrun 24 18; mkT TSenc 16 19] [] [] [] [repeat 1 9]);
             XPssh 40 20] in
  let poss := [[9; 0]; [200]; [150]] in
  trafs_ok protfunc iv_of di cs /\ poss_ok (xmoof_size cs + 16) poss /\
  match enc_children ex_E ex_E protfunc iv_of di (repeat 3 16) cs with
  | Ok cs_e =>
      decrypt_multi ex_E ex_E di (repeat 3 16) (xlayout 1000 cs_e 16 poss)
      = Ok (xlayout 1000 (clear_children di cs) 16 poss) /\
      map x_struct cs_e = map x_struct cs /\ cs_e <> cs /\
      xmoof_size (clear_children di cs) + 244 = xmoof_size cs
  | _ => False
  end.
Proof.
  split; [|split].
  - intros t Hin. cbn [In] in Hin.
    repeat (destruct Hin as [Hin|Hin]; [try discriminate; injection Hin as <-|]); try contradiction.
    + unfold traf_ok. cbn. split; [reflexivity|]. split; [reflexivity|]. discriminate.
    + unfold traf_ok. cbn. split; [reflexivity|]. split; [reflexivity|]. intros _. split; [reflexivity|].
      intros s ssps Hs Hp. injection Hp as <-. unfold fits. cbn [map sumN].
      destruct Hs as [<-|[<-|[]]]; cbn; lia.
    + exact I.
  - repeat constructor.
  - vm_compute. repeat split; try reflexivity. discriminate.
Qed.

(* the hypotheses of C06_entry_bytes_roundtrip / C06_entry_typed_roundtrip are satisfiable: a visual entry with typed
   fields, an avcC-like child and an unknown child with a 16-byte header BEFORE the sinf, a btrt-like child AFTER it;
   a third-party entry with arbitrary reserved bytes is normalised once and keeps its typed fields *)
Example ex_entry_typed :
  let v := mkVF 1 1920 1080 4718592 4718592 1 [109; 112; 52; 102; 102] in
  let fx := vfixed_encode v in
  let large := [0; 0; 0; 1; 76; 82; 71; 69; 0; 0; 0; 0; 0; 0; 0; 19; 7; 7; 7] in
  let before := [mkbox 1635148611 [1; 100; 0; 31]; large] in
  let after := [mkbox 1651798644 (repeat 0 12)] in
  let t := mkTenc 1 1 9 1 0 77 (repeat 5 16) in
  let dirty := repeat 255 6 ++ skipn 6 (firstn 74 fx) ++ [0; 32; 1; 2] in
  vfixed_wf v = true /\ tenc_wf t = true /\ fixed_reencode SVisual fx = Ok fx /\ length fx = 78%nat /\
  forallb wf_box16 before = true /\ forallb wf_box16 after = true /\ no_sinf_box after = true /\
  wf_box large = false /\
  unprotect_entry_typed SVisual (protect_entry_bytes_at cc_encv cc_avc1 fx before after cc_cbcs t)
  = Ok (entry_bytes cc_avc1 fx (before ++ after), mkSD (Some cc_avc1) (Some cc_cbcs) (Some (Some t))) /\
  dirty <> fx /\ fixed_reencode SVisual dirty = Ok fx /\
  unprotect_entry_typed SVisual (protect_entry_bytes_at cc_encv cc_avc1 dirty before after cc_cbcs t)
  = Ok (entry_bytes cc_avc1 fx (before ++ after), mkSD (Some cc_avc1) (Some cc_cbcs) (Some (Some t))).
Proof. vm_compute. repeat split; try reflexivity; discriminate. Qed.

(* the hypotheses of C06_timing_roundtrip_multi are satisfiable: two truns with different signalling; the decode times
   of the second trun continue after the (trex-resolved) durations of the first *)
Example ex_timing_multi :
  let tr1 := mkTrun false false false true true true 121 33554432 [mkTS 33554432 0 0 0; mkTS 0 0 0 500] in
  let tr2 := mkTrun true true true false false true 155 0 [mkTS 16842752 1000 9 0] in
  let tfhd := mkTfhd None (Some 17) None in
  let trex := Some (mkTrex 1024 1 16842752) in
  as_decoded tr1 = true /\ as_decoded tr2 = true /\
  traf_meta tfhd trex [tr1; tr2] 90000 =
    [(mkTS 33554432 1024 17 0, 90000); (mkTS 16842752 1024 17 500, 91024); (mkTS 16842752 1000 9 0, 92048)] /\
  traf_meta tfhd None [tr1; tr2] 90000 <> traf_meta tfhd trex [tr1; tr2] 90000.
Proof. vm_compute. repeat split; try reflexivity. discriminate. Qed.
