(* C06SencProofs.v — the senc box written by SencBox.Encode is read back by DecodeSenc + ParseReadBox as the same
   SencBox state, for every per-sample IV size (0 / 8 / 16) and every sub-sample layout. *)
From V.lib Require Import Base.
From V.c07 Require Import C07Model C07RangeProofs.
From V.c06 Require Import C06SencModel.

(* ---------------------------------------------------------------- well-formed SencBox states *)
Definition ssp_ok (p : ssp) : bool := (ss_clear p <? 65536) && (ss_prot p <? 4294967296).
Definition subs_ok (ss : list ssp) : bool := (lenN ss <? 65536) && forallb ssp_ok ss.

(* what AddSample builds: IV size 0 / 8 / 16 with one IV of that size per sample (none when 0), one sub-sample
   list per sample when the flag is set (none otherwise), uint16 / uint32 fields in range *)
Definition senc_wf (s : senc) : bool :=
  ((sn_ivsize s =? 0) || (sn_ivsize s =? 8) || (sn_ivsize s =? 16)) &&
  (if sn_ivsize s =? 0 then match sn_ivs s with [] => true | _ => false end
   else (lenN (sn_ivs s) =? sn_count s) && forallb (fun iv => lenN iv =? sn_ivsize s) (sn_ivs s)) &&
  (if sn_subs s then (lenN (sn_ss s) =? sn_count s) && forallb subs_ok (sn_ss s)
   else match sn_ss s with [] => true | _ => false end) &&
  (sn_count s <? 4294967296) &&
  (negb (sn_count s =? 0) || (sn_ivsize s =? 0)).

(* the perSampleIVSize handed to ParseReadBox (tenc.DefaultPerSampleIVSize): the size the box was written with, or
   0 = "infer" when the box has no sub-sample tables or no per-sample IVs *)
Definition p_ok (p : N) (s : senc) : bool :=
  (p =? sn_ivsize s) || ((p =? 0) && negb (sn_subs s)).

(* ---------------------------------------------------------------- the entries as a list *)
Definition sub_bytes (ss : list ssp) : list N :=
  be_bytes2 (u16 (lenN ss)) ++ flat_map (fun p => be_bytes2 (ss_clear p) ++ be_bytes4 (ss_prot p)) ss.

Fixpoint zip_entries (hasiv subs : bool) (n : nat) (ivs : list (list N)) (ss : list (list ssp)) : list (list N) :=
  match n with
  | O => []
  | S m => ((if hasiv then hd [] ivs else []) ++ (if subs then sub_bytes (hd [] ss) else []))
           :: zip_entries hasiv subs m (tl ivs) (tl ss)
  end.

Lemma skipn_cons_nth {A} : forall i (l : list A) x t,
  skipn i l = x :: t -> nth_error l i = Some x /\ skipn (S i) l = t.
Proof.
  induction i as [|i IH]; intros l x t H.
  - destruct l; cbn in H; [discriminate|]. injection H as -> ->. split; reflexivity.
  - destruct l as [|y l]; cbn [skipn] in H; [discriminate|]. cbn [nth_error]. apply IH in H. exact H.
Qed.

Lemma entries_spec s : forall n i ivs ss,
  (0 <? sn_ivsize s = true -> skipn i (sn_ivs s) = ivs /\ length ivs = n) ->
  (sn_subs s = true -> skipn i (sn_ss s) = ss /\ length ss = n) ->
  senc_entries s i n = Ok (zip_entries (0 <? sn_ivsize s) (sn_subs s) n ivs ss).
Proof.
  induction n as [|m IH]; intros i ivs ss Hiv Hss; [reflexivity|].
  cbn [senc_entries zip_entries]. unfold senc_entry, nth_res.
  destruct (0 <? sn_ivsize s) eqn:Ei; destruct (sn_subs s) eqn:Es.
  - destruct (Hiv eq_refl) as [H1 L1]. destruct (Hss eq_refl) as [H2 L2].
    destruct ivs as [|iv ivs]; [discriminate|]. destruct ss as [|x ss]; [discriminate|].
    apply skipn_cons_nth in H1. destruct H1 as [N1 S1]. apply skipn_cons_nth in H2. destruct H2 as [N2 S2].
    rewrite N1, N2. cbn [rbind hd tl].
    rewrite (IH (S i) ivs ss); [reflexivity| |]; intros _; split; try assumption; cbn in L1, L2; lia.
  - destruct (Hiv eq_refl) as [H1 L1].
    destruct ivs as [|iv ivs]; [discriminate|].
    apply skipn_cons_nth in H1. destruct H1 as [N1 S1].
    rewrite N1. cbn [rbind hd tl].
    rewrite (IH (S i) ivs (tl ss)); [reflexivity| |]; [intros _; split; [assumption|cbn in L1; lia]|intros H; discriminate].
  - destruct (Hss eq_refl) as [H2 L2].
    destruct ss as [|x ss]; [discriminate|].
    apply skipn_cons_nth in H2. destruct H2 as [N2 S2].
    rewrite N2. cbn [rbind hd tl].
    rewrite (IH (S i) (tl ivs) ss); [reflexivity| |]; [intros H; discriminate|intros _; split; [assumption|cbn in L2; lia]].
  - cbn [rbind]. rewrite (IH (S i) (tl ivs) (tl ss)); [reflexivity| |]; intros H; discriminate.
Qed.

Lemma flat_map_len6' ss :
  lenN (flat_map (fun p => be_bytes2 (ss_clear p) ++ be_bytes4 (ss_prot p)) ss) = 6 * lenN ss.
Proof.
  induction ss as [|p t IH]; [reflexivity|].
  cbn [flat_map]. rewrite !lenN_app, IH, lenN_cons.
  change (lenN (be_bytes2 (ss_clear p))) with 2. change (lenN (be_bytes4 (ss_prot p))) with 4. lia.
Qed.

Lemma sub_bytes_len ss : lenN (sub_bytes ss) = 2 + 6 * lenN ss.
Proof.
  unfold sub_bytes. rewrite lenN_app, flat_map_len6'. change (lenN (be_bytes2 (u16 (lenN ss)))) with 2. lia.
Qed.

(* calcSize adds up exactly the lengths of the entries, when all IVs have the declared size *)
Lemma calc_loop_spec s : forall n i ivs ss,
  (0 <? sn_ivsize s = true -> length ivs = n /\ forallb (fun iv => lenN iv =? sn_ivsize s) ivs = true) ->
  (sn_subs s = true -> skipn i (sn_ss s) = ss /\ length ss = n) ->
  senc_calc_loop s i n = Ok (sumN (map (fun e => lenN e) (zip_entries (0 <? sn_ivsize s) (sn_subs s) n ivs ss))).
Proof.
  induction n as [|m IH]; intros i ivs ss Hiv Hss; [reflexivity|].
  cbn [senc_calc_loop zip_entries map sumN]. unfold nth_res.
  destruct (0 <? sn_ivsize s) eqn:Ei; destruct (sn_subs s) eqn:Es.
  - destruct (Hiv eq_refl) as [L1 F1]. destruct (Hss eq_refl) as [H2 L2].
    destruct ivs as [|iv ivs]; [discriminate|]. destruct ss as [|x ss]; [discriminate|].
    apply skipn_cons_nth in H2. destruct H2 as [N2 S2]. rewrite N2. cbn [rbind hd tl].
    cbn [forallb] in F1. apply andb_true_iff in F1. destruct F1 as [F0 F1].
    rewrite (IH (S i) ivs ss); [|intros _; split; [cbn in L1; lia|exact F1]|intros _; split; [assumption|cbn in L2; lia]].
    cbn [rbind]. rewrite lenN_app, sub_bytes_len. f_equal. apply N.eqb_eq in F0. lia.
  - destruct (Hiv eq_refl) as [L1 F1].
    destruct ivs as [|iv ivs]; [discriminate|]. cbn [rbind hd tl].
    cbn [forallb] in F1. apply andb_true_iff in F1. destruct F1 as [F0 F1].
    rewrite (IH (S i) ivs (tl ss)); [|intros _; split; [cbn in L1; lia|exact F1]|intros H; discriminate].
    cbn [rbind]. rewrite app_nil_r. f_equal. apply N.eqb_eq in F0. lia.
  - destruct (Hss eq_refl) as [H2 L2].
    destruct ss as [|x ss]; [discriminate|].
    apply skipn_cons_nth in H2. destruct H2 as [N2 S2]. rewrite N2. cbn [rbind hd tl].
    rewrite (IH (S i) (tl ivs) ss); [|intros H; discriminate|intros _; split; [assumption|cbn in L2; lia]].
    cbn [rbind]. cbn [app]. rewrite sub_bytes_len. f_equal. apply N.ltb_ge in Ei. lia.
  - cbn [rbind]. rewrite (IH (S i) (tl ivs) (tl ss)); [|intros H; discriminate|intros H; discriminate].
    cbn [rbind app]. f_equal. apply N.ltb_ge in Ei. change (lenN (@nil N)) with 0. lia.
Qed.

Lemma lenN_concat (l : list (list N)) : lenN (concat l) = sumN (map (fun e => lenN e) l).
Proof. induction l as [|x t IH]; [reflexivity|]. cbn [concat map sumN]. rewrite lenN_app, IH. reflexivity. Qed.

(* with sub-sample tables every entry has at least the 2 bytes of its count *)
Lemma zip_entries_min hasiv : forall n ivs ss, 2 * N.of_nat n <= lenN (concat (zip_entries hasiv true n ivs ss)).
Proof.
  induction n as [|m IH]; intros ivs ss; [cbn; lia|].
  cbn [zip_entries concat]. rewrite !lenN_app, sub_bytes_len. specialize (IH (tl ivs) (tl ss)). lia.
Qed.

(* ---------------------------------------------------------------- reading back *)
Lemma be2_be x : x < 65536 -> be (be_bytes2 x) = x.
Proof. intros H. unfold be_bytes2, be, u8. cbn [fold_left]. lia. Qed.

Lemma firstn_app_exact {A} (l1 l2 : list A) n : length l1 = n -> firstn n (l1 ++ l2) = l1.
Proof. intros <-. rewrite firstn_app, Nat.sub_diag, firstn_all. cbn. apply app_nil_r. Qed.

Lemma skipn_app_exact {A} (l1 l2 : list A) n : length l1 = n -> skipn n (l1 ++ l2) = l2.
Proof. intros <-. rewrite skipn_app, Nat.sub_diag, skipn_all. reflexivity. Qed.

Lemma read_ssps_spec : forall ss rest,
  forallb ssp_ok ss = true ->
  read_ssps (length ss) (flat_map (fun p => be_bytes2 (ss_clear p) ++ be_bytes4 (ss_prot p)) ss ++ rest) = (ss, rest).
Proof.
  induction ss as [|p t IH]; intros rest H; [reflexivity|].
  cbn [forallb] in H. apply andb_true_iff in H. destruct H as [Hp Ht].
  unfold ssp_ok in Hp. apply andb_true_iff in Hp. destruct Hp as [Hc Hq].
  apply N.ltb_lt in Hc. apply N.ltb_lt in Hq.
  cbn [length read_ssps flat_map]. rewrite <- !app_assoc.
  assert (E1 : firstn 2 (be_bytes2 (ss_clear p) ++ be_bytes4 (ss_prot p) ++ flat_map (fun p => be_bytes2 (ss_clear p) ++ be_bytes4 (ss_prot p)) t ++ rest) = be_bytes2 (ss_clear p)) by reflexivity.
  assert (E2 : firstn 4 (skipn 2 (be_bytes2 (ss_clear p) ++ be_bytes4 (ss_prot p) ++ flat_map (fun p => be_bytes2 (ss_clear p) ++ be_bytes4 (ss_prot p)) t ++ rest)) = be_bytes4 (ss_prot p)) by reflexivity.
  assert (E3 : skipn 6 (be_bytes2 (ss_clear p) ++ be_bytes4 (ss_prot p) ++ flat_map (fun p => be_bytes2 (ss_clear p) ++ be_bytes4 (ss_prot p)) t ++ rest) = flat_map (fun p => be_bytes2 (ss_clear p) ++ be_bytes4 (ss_prot p)) t ++ rest) by reflexivity.
  rewrite E1, E2, E3, IH by exact Ht. rewrite be2_be, be_bytes4_be by assumption. destruct p. reflexivity.
Qed.

Lemma lenN_of_length {A} (l : list A) n : length l = n -> lenN l = N.of_nat n.
Proof. intros <-. reflexivity. Qed.

(* parseAndFillSamples on the entries written with the same IV size gives back the IVs and the tables *)
Lemma parse_fill_spec ivsz : forall n ivs ss,
  (0 <? ivsz = true -> length ivs = n /\ forallb (fun iv => lenN iv =? ivsz) ivs = true) ->
  (0 <? ivsz = false -> ivs = []) ->
  length ss = n -> forallb subs_ok ss = true ->
  parse_fill n ivsz (concat (zip_entries (0 <? ivsz) true n ivs ss)) = Some (ivs, ss, []).
Proof.
  induction n as [|m IH]; intros ivs ss Hiv Hno Lss Fss.
  - destruct ss; [|discriminate]. cbn [parse_fill zip_entries concat].
    destruct (0 <? ivsz) eqn:Ei.
    + destruct (Hiv eq_refl) as [L _]. destruct ivs; [reflexivity|discriminate].
    + rewrite (Hno eq_refl). reflexivity.
  - destruct ss as [|x ss]; [discriminate|]. cbn [forallb] in Fss. apply andb_true_iff in Fss. destruct Fss as [Fx Fss].
    unfold subs_ok in Fx. apply andb_true_iff in Fx. destruct Fx as [Fl Fp]. apply N.ltb_lt in Fl.
    cbn [zip_entries concat hd tl parse_fill].
    set (rest := concat (zip_entries (0 <? ivsz) true m (tl ivs) ss)).
    assert (Hd : forall iv, lenN iv = ivsz ->
      (let d1 := skipn (N.to_nat ivsz) ((iv ++ sub_bytes x) ++ rest) in
       firstn (N.to_nat ivsz) ((iv ++ sub_bytes x) ++ rest) = iv /\ d1 = sub_bytes x ++ rest)).
    { intros iv L. cbn zeta. rewrite <- app_assoc. unfold lenN in L. split.
      - apply firstn_app_exact. lia.
      - apply skipn_app_exact. lia. }
    assert (Hs : lenN (sub_bytes x ++ rest) <? 2 = false).
    { apply N.ltb_ge. rewrite lenN_app, sub_bytes_len. lia. }
    assert (Hc : be (firstn 2 (sub_bytes x ++ rest)) = lenN x).
    { unfold sub_bytes. rewrite <- app_assoc.
      change (firstn 2 (be_bytes2 (u16 (lenN x)) ++ _)) with (be_bytes2 (u16 (lenN x))).
      unfold u16. rewrite N.mod_small by exact Fl. apply be2_be. exact Fl. }
    assert (Hk : skipn 2 (sub_bytes x ++ rest) = flat_map (fun p => be_bytes2 (ss_clear p) ++ be_bytes4 (ss_prot p)) x ++ rest).
    { unfold sub_bytes. rewrite <- app_assoc. reflexivity. }
    destruct (0 <? ivsz) eqn:Ei.
    + destruct (Hiv eq_refl) as [L F]. destruct ivs as [|iv ivs]; [discriminate|].
      cbn [forallb] in F. apply andb_true_iff in F. destruct F as [F0 F]. apply N.eqb_eq in F0.
      cbn [hd tl] in *. destruct (Hd iv F0) as [D1 D2].
      assert (Hlt : lenN ((iv ++ sub_bytes x) ++ rest) <? ivsz = false).
      { apply N.ltb_ge. rewrite !lenN_app. lia. }
      rewrite Hlt. cbn [andb]. rewrite D1, D2, Hs, Hc, Hk.
      assert (Hroom : lenN (flat_map (fun p => be_bytes2 (ss_clear p) ++ be_bytes4 (ss_prot p)) x ++ rest) <? lenN x * 6 = false).
      { apply N.ltb_ge. rewrite lenN_app, flat_map_len6'. lia. }
      rewrite Hroom. unfold lenN at 1. rewrite Nat2N.id, read_ssps_spec by exact Fp.
      unfold rest. rewrite IH; [reflexivity| | |cbn in Lss; lia|exact Fss].
      * intros _. split; [cbn in L; lia|exact F].
      * intros H; discriminate.
    + assert (Hiv0 : ivs = []) by (apply Hno; reflexivity). subst ivs. cbn [hd tl andb app] in *.
      assert (Ez : ivsz = 0) by (apply N.ltb_ge in Ei; lia). subst ivsz. change (N.to_nat 0) with O.
      change (skipn 0 (sub_bytes x ++ rest)) with (sub_bytes x ++ rest).
      rewrite Hs, Hc, Hk.
      assert (Hroom : lenN (flat_map (fun p => be_bytes2 (ss_clear p) ++ be_bytes4 (ss_prot p)) x ++ rest) <? lenN x * 6 = false).
      { apply N.ltb_ge. rewrite lenN_app, flat_map_len6'. lia. }
      rewrite Hroom. unfold lenN at 1. rewrite Nat2N.id, read_ssps_spec by exact Fp.
      unfold rest. change (0 <? 0) with false. cbn [tl].
      rewrite (IH [] ss); [reflexivity| | |cbn in Lss; lia|exact Fss].
      * intros H; discriminate.
      * reflexivity.
Qed.

(* the plain IV table (no sub-sample tables) *)
Lemma read_ivs_spec sz : forall n ivs,
  length ivs = n -> forallb (fun iv => lenN iv =? N.of_nat sz) ivs = true ->
  read_ivs n sz (concat (zip_entries true false n ivs [])) = ivs.
Proof.
  induction n as [|m IH]; intros ivs L F.
  - destruct ivs; [reflexivity|discriminate].
  - destruct ivs as [|iv ivs]; [discriminate|]. cbn [forallb] in F. apply andb_true_iff in F. destruct F as [F0 F].
    apply N.eqb_eq in F0. unfold lenN in F0.
    cbn [zip_entries concat hd tl read_ivs]. rewrite app_nil_r.
    rewrite firstn_app_exact, skipn_app_exact by lia.
    change (@tl (list ssp) []) with (@nil (list ssp)). rewrite IH; [reflexivity|cbn in L; lia|exact F].
Qed.

(* ---------------------------------------------------------------- DecodeSenc on a box laid out by Encode *)
Lemma be_bytes4_len' x : lenN (be_bytes4 x) = 4.
Proof. reflexivity. Qed.

Lemma decode_layout (subs : bool) size count raw :
  size < 4294967296 -> count < 4294967296 -> 16 + lenN raw = size ->
  senc_decode (be_bytes4 size ++ cc_senc_bytes ++ [0; 0; 0; (if subs then 2 else 0)] ++ be_bytes4 count ++ raw)
  = if subs && (lenN raw <? 2 * count) then Err
    else Ok (mkRaw (if subs then 2 else 0) count raw (negb ((count =? 0) || (lenN raw =? 0)))).
Proof.
  intros Hs Hc Hl. unfold senc_decode.
  set (box := be_bytes4 size ++ cc_senc_bytes ++ [0; 0; 0; (if subs then 2 else 0)] ++ be_bytes4 count ++ raw).
  replace (firstn 4 box) with (be_bytes4 size) by reflexivity.
  replace (firstn 4 (skipn 4 box)) with cc_senc_bytes by reflexivity.
  replace (firstn 4 (skipn 8 box)) with [0; 0; 0; (if subs then 2 else 0)] by reflexivity.
  replace (firstn 4 (skipn 12 box)) with (be_bytes4 count) by reflexivity.
  replace (skipn 16 box) with raw by reflexivity.
  rewrite !be_bytes4_be by assumption.
  change (bytes_eqb cc_senc_bytes cc_senc_bytes) with true. cbn [negb].
  assert (Hb : lenN box = size).
  { unfold box. rewrite !lenN_app, !be_bytes4_len'. change (lenN cc_senc_bytes) with 4.
    change (lenN [0; 0; 0; (if subs then 2 else 0)]) with 4. lia. }
  rewrite Hb, N.eqb_refl. cbn [negb].
  assert (H16 : size <? 16 = false) by (apply N.ltb_ge; lia). rewrite H16.
  destruct subs; reflexivity.
Qed.

Lemma ivs_only_len sz : forall n ivs ss,
  length ivs = n -> forallb (fun iv => lenN iv =? sz) ivs = true ->
  lenN (concat (zip_entries true false n ivs ss)) = sz * N.of_nat n.
Proof.
  induction n as [|m IH]; intros ivs ss L F; [cbn; lia|].
  destruct ivs as [|iv ivs]; [discriminate|]. cbn [forallb] in F. apply andb_true_iff in F. destruct F as [F0 F].
  apply N.eqb_eq in F0. cbn [zip_entries concat hd tl]. rewrite !lenN_app.
  rewrite (IH ivs (tl ss)) by (cbn in L; try lia; exact F). change (lenN (@nil N)) with 0. lia.
Qed.

Lemma zip_entries_ss_irrel hasiv : forall n ivs ss ss',
  zip_entries hasiv false n ivs ss = zip_entries hasiv false n ivs ss'.
Proof. induction n as [|m IH]; intros; [reflexivity|]. cbn [zip_entries]. f_equal. apply IH. Qed.

(* ---------------------------------------------------------------- the codec theorem *)
Lemma senc_eta s : s = mkSenc (sn_ivsize s) (sn_subs s) (sn_count s) (sn_ivs s) (sn_ss s).
Proof. destruct s; reflexivity. Qed.

Lemma senc_ext a iv sb c ivs ss :
  sn_ivsize a = iv -> sn_subs a = sb -> sn_count a = c -> sn_ivs a = ivs -> sn_ss a = ss ->
  Ok (mkSenc iv sb c ivs ss) = Ok a.
Proof. intros; subst; destruct a; reflexivity. Qed.

Lemma Ok_inj' {A} (x y : A) : Ok x = Ok y -> x = y.
Proof. intros H. injection H. auto. Qed.

Lemma senc_codec s p box :
  senc_wf s = true -> p_ok p s = true ->
  senc_encode s = Ok box -> lenN box < 4294967296 ->
  senc_parse p box = Ok s.
Proof.
  intros Hwf Hp Henc Hlen.
  unfold senc_wf in Hwf. repeat (apply andb_true_iff in Hwf; destruct Hwf as [Hwf ?]).
  rename Hwf into Hsz, H into Hzero, H0 into Hcnt, H1 into Hss, H2 into Hivs.
  apply N.ltb_lt in Hcnt.
  unfold senc_encode, senc_calc_size in Henc.
  destruct ((sn_ivsize s =? 0) && negb (sn_subs s)) eqn:Etriv.
  - (* no per-sample data at all *)
    apply andb_true_iff in Etriv. destruct Etriv as [Ez Ens]. apply N.eqb_eq in Ez.
    apply negb_true_iff in Ens. cbn [rbind concat] in Henc.
    rewrite Ez, N.eqb_refl in Hivs. rewrite Ens in Hss.
    destruct (sn_ivs s) eqn:Eivs; [|discriminate]. destruct (sn_ss s) eqn:Ess; [|discriminate].
    match type of Henc with (if ?c then _ else _) = _ => change c with false in Henc end.
    apply Ok_inj' in Henc. subst box. unfold senc_parse.
    rewrite decode_layout by (try lia; reflexivity). rewrite Ens. cbn [andb rbind r_pending r_flags r_count].
    change (lenN (@nil N) =? 0) with true. rewrite orb_true_r. cbn [negb].
    change (N.land 0 2 =? 0) with true; change (N.land 2 2 =? 0) with false; cbn [negb]; apply senc_ext; congruence.
  - (* per-sample entries *)
    set (n := N.to_nat (sn_count s)) in *.
    assert (Hn : N.of_nat n = sn_count s) by (unfold n; lia).
    assert (HivsP : 0 <? sn_ivsize s = true ->
                    length (sn_ivs s) = n /\ forallb (fun iv => lenN iv =? sn_ivsize s) (sn_ivs s) = true).
    { intros Hpos. destruct (sn_ivsize s =? 0) eqn:E0; [apply N.eqb_eq in E0; apply N.ltb_lt in Hpos; lia|].
      apply andb_true_iff in Hivs. destruct Hivs as [L F]. apply N.eqb_eq in L. unfold lenN in L. split; [lia|exact F]. }
    assert (HssP : sn_subs s = true -> length (sn_ss s) = n /\ forallb subs_ok (sn_ss s) = true).
    { intros Hsub. rewrite Hsub in Hss. apply andb_true_iff in Hss. destruct Hss as [L F].
      apply N.eqb_eq in L. unfold lenN in L. split; [lia|exact F]. }
    rewrite (calc_loop_spec s n 0%nat (sn_ivs s) (sn_ss s)) in Henc;
      [|exact HivsP|intros Hsub; split; [reflexivity|apply HssP; exact Hsub]].
    rewrite (entries_spec s n 0%nat (sn_ivs s) (sn_ss s)) in Henc;
      [|intros Hpos; split; [reflexivity|apply HivsP; exact Hpos]|intros Hsub; split; [reflexivity|apply HssP; exact Hsub]].
    cbn [rbind] in Henc.
    set (entries := zip_entries (0 <? sn_ivsize s) (sn_subs s) n (sn_ivs s) (sn_ss s)) in *.
    rewrite <- lenN_concat in Henc.
    assert (Hroom : 16 + lenN (concat entries) <? 8 + lenN ([0; 0; 0; (if sn_subs s then 2 else 0)] ++ be_bytes4 (sn_count s) ++ concat entries) = false).
    { apply N.ltb_ge. rewrite !lenN_app, be_bytes4_len'. change (lenN [0; 0; 0; (if sn_subs s then 2 else 0)]) with 4. lia. }
    rewrite Hroom in Henc. apply Ok_inj' in Henc. subst box.
    assert (Hsize : 16 + lenN (concat entries) < 4294967296).
    { rewrite !lenN_app, !be_bytes4_len' in Hlen. change (lenN cc_senc_bytes) with 4 in Hlen.
      change (lenN [0; 0; 0; (if sn_subs s then 2 else 0)]) with 4 in Hlen. lia. }
    unfold senc_parse. rewrite decode_layout by (try lia; reflexivity).
    destruct (sn_subs s) eqn:Esub.
    + (* sub-sample tables present *)
      destruct (HssP eq_refl) as [Lss Fss].
      assert (Hmin : 2 * sn_count s <= lenN (concat entries)).
      { rewrite <- Hn. unfold entries. apply zip_entries_min. }
      assert (Hchk : lenN (concat entries) <? 2 * sn_count s = false) by (apply N.ltb_ge; exact Hmin).
      rewrite Hchk. cbn [andb rbind r_pending r_flags r_count r_raw].
      unfold p_ok in Hp. rewrite Esub in Hp. cbn [negb] in Hp. rewrite andb_false_r, orb_false_r in Hp.
      apply N.eqb_eq in Hp. subst p.
      destruct (sn_count s =? 0) eqn:Ec0.
      * (* no samples *)
        apply N.eqb_eq in Ec0. cbn [orb negb].
        cbn [negb orb] in Hzero. apply N.eqb_eq in Hzero.
        rewrite Hzero, N.eqb_refl in Hivs. destruct (sn_ivs s) eqn:Eivs; [|discriminate].
        assert (n = 0%nat) by lia. destruct (sn_ss s) eqn:Ess; [|cbn in Lss; lia].
        change (N.land 0 2 =? 0) with true; change (N.land 2 2 =? 0) with false; cbn [negb]; apply senc_ext; congruence.
      * apply N.eqb_neq in Ec0.
        assert (Hne : lenN (concat entries) =? 0 = false) by (apply N.eqb_neq; lia).
        rewrite Hne. cbn [orb negb]. unfold parse_read_box. cbn [r_pending negb r_flags r_count r_raw].
        change (N.land 2 2 =? 0) with false.
        assert (Hpf : parse_and_fill (sn_count s) (sn_ivsize s) (concat entries) = Some (sn_ivs s, sn_ss s)).
        { unfold parse_and_fill. fold n. unfold entries.
          rewrite parse_fill_spec; [reflexivity|exact HivsP| |exact Lss|exact Fss].
          intros Hz. apply N.ltb_ge in Hz. assert (E0 : sn_ivsize s =? 0 = true) by (apply N.eqb_eq; lia).
          rewrite E0 in Hivs. destruct (sn_ivs s); [reflexivity|discriminate]. }
        destruct (sn_ivsize s =? 0) eqn:E0.
        -- apply N.eqb_eq in E0. cbn [negb]. rewrite E0 in Hpf. rewrite Hpf.
           change (N.land 0 2 =? 0) with true; change (N.land 2 2 =? 0) with false; cbn [negb]; apply senc_ext; congruence.
        -- cbn [negb]. rewrite Hpf. change (N.land 0 2 =? 0) with true; change (N.land 2 2 =? 0) with false; cbn [negb]; apply senc_ext; congruence.
    + (* IVs only *)
      cbn [andb rbind r_pending r_flags r_count r_raw].
      cbn [negb] in Etriv. rewrite andb_true_r in Etriv.
      assert (Hpos : 0 <? sn_ivsize s = true) by (apply N.ltb_lt; apply N.eqb_neq in Etriv; lia).
      destruct (HivsP Hpos) as [Livs Fivs].
      destruct (sn_ss s) eqn:Ess; [|discriminate].
      assert (Hraw : lenN (concat entries) = sn_ivsize s * sn_count s).
      { unfold entries. rewrite Hpos, <- Hn. apply ivs_only_len; assumption. }
      rewrite Etriv in Hzero. rewrite orb_false_r in Hzero. apply negb_true_iff in Hzero.
      rewrite Hzero. cbn [orb].
      apply N.eqb_neq in Hzero. apply N.eqb_neq in Etriv.
      assert (Hne : lenN (concat entries) =? 0 = false) by (apply N.eqb_neq; nia).
      rewrite Hne. cbn [negb]. unfold parse_read_box. cbn [r_pending negb r_flags r_count r_raw].
      change (N.land 0 2 =? 0) with true. cbv iota.
      assert (Hu : u32 (lenN (concat entries)) = sn_ivsize s * sn_count s).
      { unfold u32. rewrite N.mod_small by lia. exact Hraw. }
      rewrite Hu.
      assert (H816 : sn_ivsize s = 8 \/ sn_ivsize s = 16).
      { apply orb_true_iff in Hsz. destruct Hsz as [Hsz|Hsz]; [apply orb_true_iff in Hsz; destruct Hsz as [Hsz|Hsz]|];
          apply N.eqb_eq in Hsz; [congruence|left; exact Hsz|right; exact Hsz]. }
      assert (Hp' : (if p =? 0 then (if sn_count s =? 0 then Panic else Ok (u8 (sn_ivsize s * sn_count s / sn_count s))) else Ok p)
                    = Ok (sn_ivsize s)).
      { unfold p_ok in Hp. destruct (p =? 0) eqn:Ep0.
        - destruct (sn_count s =? 0) eqn:Ec; [apply N.eqb_eq in Ec; congruence|].
          rewrite N.div_mul by exact Hzero. unfold u8. rewrite N.mod_small by (destruct H816 as [-> | ->]; lia). reflexivity.
        - cbn [andb] in Hp. rewrite orb_false_r in Hp. apply N.eqb_eq in Hp. subst p. reflexivity. }
      rewrite Hp'. cbn [rbind]. rewrite N.eqb_refl. cbn [negb].
      assert (Ez : sn_ivsize s =? 0 = false) by (apply N.eqb_neq; exact Etriv). rewrite Ez.
      assert (E816 : (sn_ivsize s =? 8) || (sn_ivsize s =? 16) = true).
      { destruct H816 as [-> | ->]; reflexivity. }
      rewrite E816. fold n. unfold entries. rewrite Hpos.
      rewrite read_ivs_spec; [|exact Livs|rewrite N2Nat.id; exact Fivs].
      change (N.land 0 2 =? 0) with true; change (N.land 2 2 =? 0) with false; cbn [negb]; apply senc_ext; congruence.
Qed.
