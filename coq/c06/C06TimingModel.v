(* C06TimingModel.v — sample duration / size / flags / composition offset / decode time on both sides of the
   round trip: TrunBox.AddSampleDefaultValues(tfhd, trex) (the defaults are written INTO trun.Samples, which is what
   EncryptFragment's f.GetFullSamples(ipd.Trex) does to the fragment it then hands to Fragment.Encode),
   TrunBox.EncodeSW / DecodeTrunSR from the sample_count field on (only the fields whose flag is set are written; a
   first_sample_flags value is copied into Samples[0].Flags by the decoder), TrunBox.GetFullSamples (decode times).
   Definitions only.  Not modelled: the trun box header / version, OptimizeTrun (not used by the crypto path). *)
From V.lib Require Import Base.
From V.c07 Require Import C07Model.

(* mp4.Sample; cto is the uint32 image of the int32 *)
Record tsample := mkTS { ts_flags : N; ts_dur : N; ts_size : N; ts_cto : N }.

(* the trun flags that matter (0x100 duration, 0x200 size, 0x400 flags, 0x800 cto, 0x004 first-sample-flags,
   0x001 data-offset) and the fields *)
Record trun_t := mkTrun { tr_dur : bool; tr_size : bool; tr_flags : bool; tr_cto : bool; tr_first : bool; tr_doff : bool;
                          tr_data_offset : N; tr_first_flags : N; tr_samples : list tsample }.
(* tfhd: default_sample_duration / size / flags when present *)
Record tfhd_t := mkTfhd { th_dur : option N; th_size : option N; th_flags : option N }.
(* trex defaults; a nil *TrexBox is None *)
Record trex_t := mkTrex { tx_dur : N; tx_size : N; tx_flags : N }.

Definition default_of (h : option N) (trex : option trex_t) (p : trex_t -> N) : N :=
  match h with
  | Some d => d
  | None => match trex with Some t => p t | None => 0 end
  end.

(* the loop of AddSampleDefaultValues *)
Fixpoint add_defaults_loop (tr : trun_t) (dd ds df : N) (i : nat) (l : list tsample) : list tsample :=
  match l with
  | [] => []
  | s :: t =>
      mkTS (if tr_flags tr then ts_flags s
            else if negb (Nat.eqb i 0) || negb (tr_first tr) then df else ts_flags s)
           (if tr_dur tr then ts_dur s else dd)
           (if tr_size tr then ts_size s else ds)
           (ts_cto s)
      :: add_defaults_loop tr dd ds df (S i) t
  end.

Definition set_samples (tr : trun_t) (l : list tsample) : trun_t :=
  mkTrun (tr_dur tr) (tr_size tr) (tr_flags tr) (tr_cto tr) (tr_first tr) (tr_doff tr) (tr_data_offset tr)
         (tr_first_flags tr) l.

(* func (t *TrunBox) AddSampleDefaultValues(tfhd, trex): the trun afterwards *)
Definition add_sample_defaults (tfhd : tfhd_t) (trex : option trex_t) (tr : trun_t) : trun_t :=
  set_samples tr (add_defaults_loop tr (default_of (th_dur tfhd) trex tx_dur) (default_of (th_size tfhd) trex tx_size)
                                    (default_of (th_flags tfhd) trex tx_flags) 0 (tr_samples tr)).

(* TrunBox.GetFullSamples: sample fields and decode time (uint64 arithmetic) *)
Fixpoint full_meta (base acc : N) (l : list tsample) : list (tsample * N) :=
  match l with
  | [] => []
  | s :: t => (s, (base + acc) mod 18446744073709551616) :: full_meta base ((acc + ts_dur s) mod 18446744073709551616) t
  end.

(* what Fragment.GetFullSamples(trex) reports for a single-trun traf: count, size, duration, flags, cto, decode time *)
Definition fragment_meta (tfhd : tfhd_t) (trex : option trex_t) (tr : trun_t) (base_time : N) : list (tsample * N) :=
  full_meta base_time 0 (tr_samples (add_sample_defaults tfhd trex tr)).

(* ---------------------------------------------------------------- bytes *)
Definition opt4 (b : bool) (x : N) : list N := if b then be_bytes4 (u32 x) else [].

(* the per-sample loop of EncodeSW *)
Definition encode_tsample (tr : trun_t) (s : tsample) : list N :=
  opt4 (tr_dur tr) (ts_dur s) ++ opt4 (tr_size tr) (ts_size s) ++ opt4 (tr_flags tr) (ts_flags s) ++ opt4 (tr_cto tr) (ts_cto s).

(* EncodeSW from sample_count on (Err: "trun data offset not set") *)
Definition trun_encode_body (tr : trun_t) : res (list N) :=
  if tr_doff tr && (tr_data_offset tr =? 0) then Err
  else Ok (be_bytes4 (u32 (lenN (tr_samples tr))) ++ opt4 (tr_doff tr) (tr_data_offset tr) ++
           opt4 (tr_first tr) (tr_first_flags tr) ++ flat_map (encode_tsample tr) (tr_samples tr)).

Definition field_count (tr : trun_t) : N :=
  (if tr_dur tr then 1 else 0) + (if tr_size tr then 1 else 0) + (if tr_flags tr then 1 else 0) + (if tr_cto tr then 1 else 0).

(* reading an optional 4-byte field *)
Definition rd4 (b : bool) (data : list N) : N * list N :=
  if b then (be (firstn 4 data), skipn 4 data) else (0, data).

(* the per-sample loop of DecodeTrunSR; hd = the flags record (samples ignored), ff = first_sample_flags *)
Fixpoint decode_tsamples (hd : trun_t) (ff : N) (n : nat) (i : nat) (data : list N) : list tsample :=
  match n with
  | O => []
  | S m =>
      let '(dur, d1) := rd4 (tr_dur hd) data in
      let '(size, d2) := rd4 (tr_size hd) d1 in
      let '(fl, d3) := rd4 (tr_flags hd) d2 in
      let flags := if tr_flags hd then fl else if tr_first hd && Nat.eqb i 0 then ff else 0 in
      let '(cto, d4) := rd4 (tr_cto hd) d3 in
      mkTS flags dur size cto :: decode_tsamples hd ff m (S i) d4
  end.

(* DecodeTrunSR from sample_count on; hd gives the box flags; Err: size mismatch (expectedSize) *)
Definition trun_decode_body (hd : trun_t) (data : list N) : res trun_t :=
  if lenN data <? 4 then Err
  else
    let count := be (firstn 4 data) in
    let expected := 4 + (if tr_doff hd then 4 else 0) + (if tr_first hd then 4 else 0) + count * (4 * field_count hd) in
    if negb (lenN data =? expected) then Err
    else if (1024 <? count) && (field_count hd =? 0) then Err
    else
      let '(doff, d1) := rd4 (tr_doff hd) (skipn 4 data) in
      let '(ff, d2) := rd4 (tr_first hd) d1 in
      Ok (mkTrun (tr_dur hd) (tr_size hd) (tr_flags hd) (tr_cto hd) (tr_first hd) (tr_doff hd) doff ff
                 (decode_tsamples hd ff (N.to_nat count) 0 d2)).

(* a trun as the decoder delivers it: absent fields are zero, Samples[0].Flags carries first_sample_flags when there
   are no per-sample flags, every field fits 32 bits *)
Fixpoint as_decoded_loop (tr : trun_t) (i : nat) (l : list tsample) : bool :=
  match l with
  | [] => true
  | s :: t =>
      (ts_dur s <? 4294967296) && (ts_size s <? 4294967296) && (ts_flags s <? 4294967296) && (ts_cto s <? 4294967296) &&
      (tr_dur tr || (ts_dur s =? 0)) && (tr_size tr || (ts_size s =? 0)) && (tr_cto tr || (ts_cto s =? 0)) &&
      (tr_flags tr || (ts_flags s =? (if tr_first tr && Nat.eqb i 0 then tr_first_flags tr else 0))) &&
      as_decoded_loop tr (S i) t
  end.

Definition as_decoded (tr : trun_t) : bool :=
  (lenN (tr_samples tr) <? 4294967296) && (tr_data_offset tr <? 4294967296) && (tr_first_flags tr <? 4294967296) &&
  (tr_doff tr || (tr_data_offset tr =? 0)) && (tr_first tr || (tr_first_flags tr =? 0)) &&
  negb ((1024 <? lenN (tr_samples tr)) && (field_count tr =? 0)) &&
  as_decoded_loop tr 0 (tr_samples tr).

(* Fragment.Encode: SetTrunDataOffsets writes the data offset *)
Definition set_data_offset (tr : trun_t) (off : N) : trun_t :=
  mkTrun (tr_dur tr) (tr_size tr) (tr_flags tr) (tr_cto tr) (tr_first tr) (tr_doff tr) off (tr_first_flags tr) (tr_samples tr).

(* the trun the decrypt side reads: the encrypt side has run AddSampleDefaultValues with ITS trex on the trun, then
   Encode (data offset set) and the file was decoded again *)
Definition trun_after_encrypt (tfhd : tfhd_t) (trex_e : option trex_t) (tr : trun_t) (off : N) : res trun_t :=
  do b <- trun_encode_body (set_data_offset (add_sample_defaults tfhd trex_e tr) off);
  trun_decode_body tr b.

(* the sample sizes of C06TrexModel, from the records of this file *)
Definition sizes_of_meta (m : list (tsample * N)) : list N := map (fun p => ts_size (fst p)) m.
