(* C06FileCbcsProofs.v — cbcs keeps every sample length (proved from the model, through the C07 reference
   characterisation of cryptSampleCbcs), hence the trex-parameterised round trip and the whole-file round trip for
   cbcs without the extra "encryption keeps sample lengths" hypothesis of trex_roundtrip_generic. *)
From V.lib Require Import Base.
From V.c07 Require Import C07Model C07Spec C07CbcsProofs.
From V.c06 Require Import C06Model C06StructProofs C06SampleProofs C06FragModel C06FragProofs C06TrexModel C06TrexProofs.

Section CbcsLen.
  Variable E : list N -> list N -> list N.
  Variable D : list N -> list N -> list N.
  Hypothesis HE : forall k b, length (E k b) = 16%nat.
  Hypothesis HD : forall k b, length (D k b) = 16%nat.

  (* the reference walk over a sub-sample map keeps the length, whatever the map (firstn / skipn truncate) *)
  Lemma ref_cbcs_walk_length dec key iv nc ns : length iv = 16%nat -> nc mod 16 = 0 ->
    forall ranges rest, length (ref_cbcs_walk E D dec key iv ranges rest nc ns) = length rest.
  Proof.
    intros Hiv Hnc. induction ranges as [|r t IH]; intros rest; [reflexivity|].
    cbn [ref_cbcs_walk]. rewrite !app_length, IH.
    assert (Hmid : length (if 0 <? ss_prot r
                           then ref_cbcs_range E D dec key iv (firstn (N.to_nat (ss_prot r)) (skipn (N.to_nat (ss_clear r)) rest)) nc ns
                           else firstn (N.to_nat (ss_prot r)) (skipn (N.to_nat (ss_clear r)) rest))
                   = length (firstn (N.to_nat (ss_prot r)) (skipn (N.to_nat (ss_clear r)) rest))).
    { destruct (0 <? ss_prot r); [|reflexivity]. apply (ref_cbcs_range_length E D key HE HD); assumption. }
    rewrite Hmid. rewrite <- !app_length. rewrite firstn_skipn, firstn_skipn. reflexivity.
  Qed.

  Lemma ref_cbcs_length dec key iv ssps cb sb s : length iv = 16%nat ->
    length (ref_cbcs E D dec key iv ssps cb sb s) = length s.
  Proof.
    intros Hiv. assert (Hnc : (cb * 16) mod 16 = 0) by (apply N.mod_mul; discriminate).
    unfold ref_cbcs. destruct ssps.
    - apply (ref_cbcs_range_length E D key HE HD); assumption.
    - apply ref_cbcs_walk_length; assumption.
  Qed.

  (* cryptSampleCbcs (either direction) returns a sample of the same length *)
  Lemma crypt_sample_cbcs_length dec key iv ssps cb sb s c :
    key_ok key = true -> length iv = 16%nat -> fits s ssps ->
    crypt_sample_cbcs E D dec key iv ssps cb sb s = Ok c -> length c = length s.
  Proof.
    intros Hk Hiv [Hf1 Hf2] H.
    rewrite (crypt_sample_cbcs_ref E D key HE HD dec iv ssps cb sb s Hk Hiv Hf1 Hf2) in H.
    apply Ok_inj' in H. subst c. apply ref_cbcs_length. exact Hiv.
  Qed.

  Variable protfunc : list N -> res (list ssp).

  Lemma encrypt_samples_cbcs_lengths key iv cb sb : key_ok key = true -> length iv = 16%nat ->
    forall samples encs,
    (forall s ssps, In s samples -> protfunc s = Ok ssps -> fits s ssps) ->
    encrypt_samples_cbcs E D protfunc key iv cb sb samples = Ok encs ->
    map (@length N) (map e_data encs) = map (@length N) samples.
  Proof.
    intros Hk Hiv. induction samples as [|s t IH]; intros encs Hfit H.
    - cbn in H. apply Ok_inj' in H. subst. reflexivity.
    - cbn [encrypt_samples_cbcs] in H.
      destruct (protfunc s) as [ssps| | |] eqn:Ep; try discriminate. cbn [rbind] in H.
      destruct (crypt_sample_cbcs E D false key iv ssps cb sb s) as [c| | |] eqn:Ec; try discriminate.
      cbn [rbind] in H.
      destruct (encrypt_samples_cbcs E D protfunc key iv cb sb t) as [r| | |] eqn:Er; try discriminate.
      cbn [rbind] in H. apply Ok_inj' in H. subst encs. cbn [map e_data]. f_equal.
      + apply (crypt_sample_cbcs_length false key iv ssps cb sb s c Hk Hiv); [|exact Ec].
        apply Hfit; [left; reflexivity|exact Ep].
      + apply IH; [|reflexivity]. intros s' ss' Hin. apply Hfit. right. exact Hin.
  Qed.

  (* EncryptFragment (cbcs) keeps every sample length *)
  Lemma encrypt_frag_cbcs_lengths key iv cb sb start mdat_hdr ids f e :
    key_ok key = true ->
    (forall s ssps, In s (cf_samples f) -> protfunc s = Ok ssps -> fits s ssps) ->
    encrypt_frag E D protfunc Cbcs key iv cb sb start mdat_hdr ids f = Ok e ->
    map (@length N) (ef_data e) = map (@length N) (cf_samples f).
  Proof.
    intros Hk Hfit H. unfold encrypt_frag in H.
    destruct (lenN (pad_iv iv) =? 16) eqn:E16; [|discriminate]. cbn [negb] in H.
    destruct (encrypt_samples_cbcs E D protfunc key (pad_iv iv) cb sb (cf_samples f)) as [encs| | |] eqn:Ee;
      try discriminate.
    cbn [rbind] in H.
    destruct (saiz_of saiz_empty encs) as [z| | |]; try discriminate. cbn [rbind] in H.
    destruct (senc_of senc_empty encs) as [s| | |]; try discriminate. cbn [rbind] in H.
    destruct (senc_entries s 0 (N.to_nat (sn_count s))) as [en| | |]; try discriminate. cbn [rbind] in H.
    apply Ok_inj' in H. subst e. cbn [ef_data].
    apply (encrypt_samples_cbcs_lengths key (pad_iv iv) cb sb Hk (pad_iv_16 iv E16) _ _ Hfit Ee).
  Qed.

  Hypothesis HDE : forall k b, length b = 16%nat -> D k (E k b) = b.

  (* the maps of the protection function lie inside the sample they were computed for (true for
     Get(AVC|HEVC)ProtectRanges by C07_cbcs_shape and for audio = no map) *)
  Definition prot_inside : Prop :=
    forall s ssps, protfunc s = Ok ssps -> sumN (map (fun p => ss_clear p + ss_prot p) ssps) <= lenN s.

  Lemma in_concat_le (s : list N) : forall samples, In s samples -> lenN s <= lenN (concat samples).
  Proof.
    induction samples as [|x t IH]; intros Hin; [destruct Hin|].
    cbn [concat]. rewrite lenN_app. destruct Hin as [-> | Hin]; [lia|]. specialize (IH Hin). lia.
  Qed.

  (* trex-parameterised round trip, cbcs: no length hypothesis any more (mdat payload below 4 GiB) *)
  Lemma trex_roundtrip_cbcs key iv cb sb start mdat_hdr ids trex_e trex_d f e pl :
    key_ok key = true -> prot_inside -> lenN (pf_payload f) < 4294967296 ->
    trex_d = trex_e ->
    clean_moof (pf_children f) = true -> nr_trafs (pf_children f) = 1%nat ->
    encrypt_frag_trex E D protfunc Cbcs key iv cb sb start mdat_hdr ids trex_e f = Ok (e, pl) ->
    decrypt_frag_trex E D Cbcs key (pad_iv iv) cb sb trex_d (pf_sizing f) e pl
    = Ok (layout start (pf_children f) mdat_hdr, pf_payload f).
  Proof.
    intros Hk Hpf Hpl -> Hc Hn H. unfold encrypt_frag_trex in H.
    destruct (split_samples (sample_sizes trex_e (pf_sizing f)) (pf_payload f)) as [[samples rest]| | |] eqn:Es; try discriminate.
    cbn [rbind fst snd] in H.
    destruct (encrypt_frag E D protfunc Cbcs key iv cb sb start mdat_hdr ids (mkC (pf_children f) samples)) as [e0| | |] eqn:Ee; try discriminate.
    cbn [rbind] in H. apply Ok_inj_t in H. injection H as <- <-.
    destruct (split_spec _ _ _ _ Es) as [Hcat Hm].
    assert (Hfit : forall s ssps, In s (cf_samples (mkC (pf_children f) samples)) -> protfunc s = Ok ssps -> fits s ssps).
    { cbn [cf_samples]. intros s ssps Hin Hp. split; [apply Hpf; exact Hp|].
      pose proof (in_concat_le s samples Hin) as Hle. rewrite <- Hcat, lenN_app in Hpl. lia. }
    pose proof (fragment_roundtrip_cbcs E D protfunc key iv cb sb start mdat_hdr ids (mkC (pf_children f) samples) e0
                  HE HD HDE Hk Hfit Hc Hn Ee) as Hd.
    pose proof (encrypt_frag_cbcs_lengths key iv cb sb start mdat_hdr ids (mkC (pf_children f) samples) e0 Hk Hfit Ee) as Hl.
    cbn [cf_children cf_samples] in Hd, Hl.
    unfold decrypt_frag_trex. rewrite <- Hm, <- (lens_eq _ _ Hl), split_concat. cbn [rbind fst snd].
    rewrite efrag_eta, Hd. cbn [rbind fst snd]. rewrite Hcat. reflexivity.
  Qed.

  (* whole files, cbcs: induction over the fragment list, as for cenc *)
  Lemma file_roundtrip_cbcs key iv cb sb : key_ok key = true -> prot_inside ->
    forall fs start_e ids es,
    Forall (fun p : cfrag * N => clean_moof (cf_children (fst p)) = true /\ nr_trafs (cf_children (fst p)) = 1%nat /\
                                 forallb (fun s => lenN s <? 4294967296) (cf_samples (fst p)) = true) fs ->
    encrypt_file E D protfunc Cbcs key iv cb sb start_e ids fs = Ok es ->
    exists gs, decrypt_file E D Cbcs key (pad_iv iv) cb sb es = Ok gs /\
      (forall start_c, reencode start_c gs = layout_file start_c fs) /\
      map (fun g => snd (fst g)) gs = map (fun p => cf_samples (fst p)) fs /\
      map (fun g => f_moof_start (fst (fst g))) gs = enc_positions start_e fs es.
  Proof.
    intros Hk Hpf. induction fs as [|[f h] t IH]; intros start_e ids es Hall H.
    - cbn [encrypt_file] in H. apply Ok_inj_t in H. subst es. exists []. repeat split; reflexivity.
    - cbn [encrypt_file] in H. inversion Hall as [|x l [Hc [Hn Hlen]] Ht]. subst x l. cbn [fst] in Hc, Hn, Hlen.
      destruct (encrypt_frag E D protfunc Cbcs key iv cb sb start_e h ids f) as [e| | |] eqn:Ee; try discriminate.
      cbn [rbind] in H.
      destruct (encrypt_file E D protfunc Cbcs key iv cb sb
                  (start_e + moof_size (f_children (ef_frag e)) + h + sumN (map (fun s => lenN s) (ef_data e))) (ids + 3) t)
        as [r| | |] eqn:Er; try discriminate.
      cbn [rbind] in H. apply Ok_inj_t in H. subst es.
      assert (Hfit : forall s ssps, In s (cf_samples f) -> protfunc s = Ok ssps -> fits s ssps).
      { intros s ssps Hin Hp. split; [apply Hpf; exact Hp|].
        rewrite forallb_forall in Hlen. apply N.ltb_lt. apply Hlen. exact Hin. }
      pose proof (fragment_roundtrip_cbcs E D protfunc key iv cb sb start_e h ids f e HE HD HDE Hk Hfit Hc Hn Ee) as Hd.
      pose proof (encrypt_frag_cbcs_lengths key iv cb sb start_e h ids f e Hk Hfit Ee) as Hl.
      assert (Hm : moof_size (cf_children f) + (moof_size (f_children (ef_frag e)) - moof_size (cf_children f))
                   = moof_size (f_children (ef_frag e))).
      { unfold decrypt_frag in Hd.
        destruct (decrypt_samples E D Cbcs key (pad_iv iv) cb sb (ef_ivs e) (ef_subs e) (ef_data e)) as [sm| | |]; try discriminate.
        cbn [rbind] in Hd.
        destruct (decrypt_frag_struct (ef_frag e)) as [g| | |] eqn:Es; try discriminate. cbn [rbind] in Hd.
        apply Ok_inj_t in Hd. injection Hd as Hg _.
        destruct (decrypt_struct_general _ _ Es) as (_ & H2 & H3 & _). subst g.
        cbn [layout f_children f_data_offset] in H2, H3. lia. }
      destruct (IH _ _ _ Ht Er) as [gs [Hg [Hre [Hs Hp]]]].
      exists ((layout start_e (cf_children f) h, cf_samples f, h) :: gs).
      cbn [decrypt_file]. rewrite Hd. cbn [rbind fst snd]. rewrite Hg. cbn [rbind].
      split; [reflexivity|]. split; [|split].
      + intros start_c. cbn [reencode layout_file layout f_children]. rewrite Hre. reflexivity.
      + cbn [map fst snd]. rewrite Hs. reflexivity.
      + cbn [map fst snd enc_positions layout f_moof_start]. rewrite Hp. f_equal. f_equal.
        rewrite (sum_lens_eq _ _ Hl). lia.
  Qed.
End CbcsLen.
