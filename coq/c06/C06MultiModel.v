(* C06MultiModel.v — DecryptFragment on fragments with SEVERAL trafs (multi-track) and SEVERAL truns per traf, pssh
   boxes in the moof, clear and protected tracks side by side (mp4/crypto.go DecryptFragment, text of the tree):

     for _, traf := range moof.Trafs { ti := di.findTrackInfo(traf.Tfhd.TrackID)
        if ti.Sinf != nil { scheme check; senc present?; samples := frag.getFullSamplesOfTraf(traf, ti.Trex);
                            decryptSamplesInPlace(...); nrBytesRemoved += traf.RemoveEncryptionBoxes() } }
     _, psshBytesRemoved := moof.RemovePsshs(); nrBytesRemoved += psshBytesRemoved
     for every traf, every trun: trun.DataOffset -= int32(nrBytesRemoved)          (int32 arithmetic)
     if frag.Mdat.StartPos > frag.Moof.StartPos { frag.Mdat.StartPos -= nrBytesRemoved }   (uint64 arithmetic)

   Every protected traf is decrypted with ITS OWN senc over ITS OWN samples, all its truns concatenated (text after fix
   fc9ee41, finding C06-F7: the pinned text fetched the samples of the FIRST traf of the track, so a moof with several
   trafs of one track - ISO 14496-12 allows zero or more per track - was not decrypted).  Several trafs of one track, trafs
   of tracks the init segment does not know (treated as clear) and tracks without a trex are all inside the model: x_data
   is the sample data of the traf as the decoder resolves it.  Box sizes are Box.Size():
   a box read with a 16-byte (large-size) header counts 16 header bytes (xbox_size).  Definitions only. *)
From V.lib Require Import Base.
From V.c07 Require Import C07Model.
From V.c06 Require Import C06Model.

(* int32(x) / the int32 subtraction / the uint64 subtraction of Go *)
Definition wrap32s (z : Z) : Z := ((z + 2147483648) mod 4294967296 - 2147483648)%Z.
Definition sub_i32 (o : Z) (removed : N) : Z := wrap32s (o - wrap32s (Z.of_N (u64 removed)))%Z.
Definition sub_u64 (a b : N) : N := (a + 18446744073709551616 - u64 b) mod 18446744073709551616.

(* Size() of a box that keeps its header form (UnknownBox and every box re-encoded with the header it was read with) *)
Definition xbox_size (large : bool) (payload : N) : N := (if large then 16 else 8) + payload.

(* a traf: track id (tfhd), children, the data offsets of its truns (traf.Truns, in order), what the decoder hands
   over from its senc (per-sample IVs / sub-sample lists over ALL samples of the traf) and the sample data of all
   its truns in order *)
Record xtraf := mkX { x_track : N; x_children : list tbox; x_offsets : list Z;
                      x_ivs : list (list N); x_subs : list (list ssp); x_data : list (list N) }.

Inductive xchild :=
| XTraf (t : xtraf)
| XPssh (size id : N)
| XOther (size id : N).

Definition to_mchild (c : xchild) : mchild :=
  match c with XTraf t => MTraf (x_children t) | XPssh s i => MPssh s i | XOther s i => MOther s i end.
Definition xchild_size (c : xchild) : N := mchild_size (to_mchild c).
Definition xmoof_size (cs : list xchild) : N := 8 + sumN (map xchild_size cs).

Record xfrag := mkXF { xf_moof_start : N; xf_children : list xchild; xf_mdat_start : N }.

(* DecryptTrackInfo of a protected track: scheme and tenc fields; None = Sinf nil (clear track / unknown track) *)
Record tinfo := mkTI { ti_sch : scheme; ti_constiv : list N; ti_cb : N; ti_sb : N }.

(* func (d DecryptInfo) findTrackInfo(trackID): first entry with that id, the zero value otherwise *)
Fixpoint find_track (di : list (N * option tinfo)) (track : N) : option tinfo :=
  match di with
  | [] => None
  | (id, ti) :: t => if id =? track then ti else find_track t track
  end.

(* TrafBox.ContainsSencBox: a senc box or a PIFF uuid senc box among the children *)
Definition has_senc (ch : list tbox) : bool :=
  existsb (fun b => match tk b with TSenc | TUuidSenc => true | _ => false end) ch.

Definition x_is_pssh (c : xchild) : bool := match c with XPssh _ _ => true | _ => false end.

(* func (m *MoofBox) RemovePsshs() *)
Definition xremove_psshs (cs : list xchild) : list xchild * N :=
  if existsb x_is_pssh cs then
    (filter (fun c => negb (x_is_pssh c)) cs, sumN (map xchild_size (filter x_is_pssh cs)))
  else (cs, 0).

Definition shift_traf (removed : N) (c : xchild) : xchild :=
  match c with
  | XTraf t => XTraf (mkX (x_track t) (x_children t) (map (fun o => sub_i32 o removed) (x_offsets t))
                          (x_ivs t) (x_subs t) (x_data t))
  | _ => c
  end.

Section Multi.
  Variable E : list N -> list N -> list N.
  Variable D : list N -> list N -> list N.

  (* the first loop: trafs in order; a refused traf ends the call with an error (the trafs before it have then
     already been changed in place: not observable through the result) *)
  Fixpoint decrypt_trafs (di : list (N * option tinfo)) (key : list N) (cs : list xchild) : res (list xchild * N) :=
    match cs with
    | [] => Ok ([], 0)
    | XTraf t :: rest =>
        match find_track di (x_track t) with
        | None => do r <- decrypt_trafs di key rest; Ok (XTraf t :: fst r, snd r)
        | Some ti =>
            match ti_sch ti with
            | SchemeOther => Err
            | _ =>
                if negb (has_senc (x_children t)) then Err else
                do samples <- decrypt_samples E D (ti_sch ti) key (ti_constiv ti) (ti_cb ti) (ti_sb ti)
                                              (x_ivs t) (x_subs t) (x_data t);
                do r <- decrypt_trafs di key rest;
                Ok (XTraf (mkX (x_track t) (fst (remove_encryption_boxes (x_children t))) (x_offsets t) [] [] samples)
                      :: fst r,
                    snd (remove_encryption_boxes (x_children t)) + snd r)
            end
        end
    | c :: rest => do r <- decrypt_trafs di key rest; Ok (c :: fst r, snd r)
    end.

  (* func DecryptFragment(frag, di, key) *)
  Definition decrypt_multi (di : list (N * option tinfo)) (key : list N) (f : xfrag) : res xfrag :=
    do r <- decrypt_trafs di key (xf_children f);
    let '(cs2, n2) := xremove_psshs (fst r) in
    let removed := snd r + n2 in
    Ok (mkXF (xf_moof_start f) (map (shift_traf removed) cs2)
             (if xf_moof_start f <? xf_mdat_start f then sub_u64 (xf_mdat_start f) removed else xf_mdat_start f)).
End Multi.

(* a code change that was caught on the real code this session, kept to state that it breaks the property
   (C06_pssh_undercount_refuted): the shift is measured as "moof size before - moof size after the trafs were stripped",
   taken AFTER RemovePsshs had already shortened the moof on the `before` side, i.e. the pssh bytes are not counted *)
Definition decrypt_multi_undercount (E D : list N -> list N -> list N) (di : list (N * option tinfo)) (key : list N)
           (f : xfrag) : res xfrag :=
  do r <- decrypt_trafs E D di key (xf_children f);
  let '(cs2, _) := xremove_psshs (fst r) in
  let removed := snd r in
  Ok (mkXF (xf_moof_start f) (map (shift_traf removed) cs2)
           (if xf_moof_start f <? xf_mdat_start f then sub_u64 (xf_mdat_start f) removed else xf_mdat_start f)).

(* the PINNED text of the first loop (before fix fc9ee41, finding C06-F7): `samples, err := frag.GetFullSamples(ti.Trex)`
   returns the samples of the FIRST traf of the moof whose track id is that of the trex - not those of the traf at
   hand - and decryptSamplesInPlace works in place on them.  The moof children are the state; traf i is decrypted
   with ITS senc over the samples of traf j = the first traf of the same track.  Kept to state that it breaks the
   property on a moof with two trafs of one track (C06_first_traf_samples_refuted); tracks are assumed to have a trex *)
Fixpoint first_traf_of (track : N) (cs : list xchild) (j : nat) : option (nat * xtraf) :=
  match cs with
  | [] => None
  | XTraf t :: rest => if x_track t =? track then Some (j, t) else first_traf_of track rest (S j)
  | _ :: rest => first_traf_of track rest (S j)
  end.

Fixpoint update_child (cs : list xchild) (j : nat) (f : xtraf -> xtraf) : list xchild :=
  match cs, j with
  | [], _ => []
  | XTraf t :: rest, O => XTraf (f t) :: rest
  | c :: rest, O => c :: rest
  | c :: rest, S k => c :: update_child rest k f
  end.

Section Pinned.
  Variable E : list N -> list N -> list N.
  Variable D : list N -> list N -> list N.

  Fixpoint decrypt_trafs_pinned (fuel i : nat) (di : list (N * option tinfo)) (key : list N) (cs : list xchild)
           (removed : N) : res (list xchild * N) :=
    match fuel with
    | O => Ok (cs, removed)
    | S fuel' =>
        match nth_error cs i with
        | None => Ok (cs, removed)
        | Some (XTraf t) =>
            match find_track di (x_track t) with
            | None => decrypt_trafs_pinned fuel' (S i) di key cs removed
            | Some ti =>
                match ti_sch ti with
                | SchemeOther => Err
                | _ =>
                    if negb (has_senc (x_children t)) then Err else
                    match first_traf_of (x_track t) cs 0 with
                    | None => Err
                    | Some (j, tj) =>
                        do samples <- decrypt_samples E D (ti_sch ti) key (ti_constiv ti) (ti_cb ti) (ti_sb ti)
                                                      (x_ivs t) (x_subs t) (x_data tj);
                        let cs1 := update_child cs j (fun u => mkX (x_track u) (x_children u) (x_offsets u) (x_ivs u)
                                                                   (x_subs u) samples) in
                        let cs2 := update_child cs1 i (fun u => mkX (x_track u) (fst (remove_encryption_boxes (x_children u)))
                                                                    (x_offsets u) [] [] (x_data u)) in
                        decrypt_trafs_pinned fuel' (S i) di key cs2 (removed + snd (remove_encryption_boxes (x_children t)))
                    end
                end
            end
        | Some _ => decrypt_trafs_pinned fuel' (S i) di key cs removed
        end
    end.

  Definition decrypt_multi_pinned (di : list (N * option tinfo)) (key : list N) (f : xfrag) : res xfrag :=
    do r <- decrypt_trafs_pinned (length (xf_children f)) 0 di key (xf_children f) 0;
    let '(cs2, n2) := xremove_psshs (fst r) in
    let removed := snd r + n2 in
    Ok (mkXF (xf_moof_start f) (map (shift_traf removed) cs2)
             (if xf_moof_start f <? xf_mdat_start f then sub_u64 (xf_mdat_start f) removed else xf_mdat_start f)).
End Pinned.

(* ---------------------------------------------------------------- the specification side *)
(* what the property asks of the box tree: in a protected traf the saiz / saio / senc boxes go, everything else
   stays in order; a traf of a clear track is untouched; pssh boxes of the moof go; every other moof child stays *)
Definition is_prot_kind_x (k : tkind) : bool :=
  match k with TSaiz | TSaio | TSenc | TUuidSenc => true | _ => false end.

Definition clear_child (di : list (N * option tinfo)) (c : xchild) : xchild :=
  match c with
  | XTraf t =>
      match find_track di (x_track t) with
      | None => c
      | Some _ => XTraf (mkX (x_track t) (filter (fun b => negb (is_prot_kind_x (tk b))) (x_children t))
                             (x_offsets t) [] [] (x_data t))     (* the senc is gone with its IVs / sub-sample lists *)
      end
  | _ => c
  end.
Definition clear_children (di : list (N * option tinfo)) (cs : list xchild) : list xchild :=
  filter (fun c => negb (x_is_pssh c)) (map (clear_child di) cs).

(* the structure of a child without the crypto side data *)
Definition x_struct (c : xchild) : xchild :=
  match c with
  | XTraf t => XTraf (mkX (x_track t) (x_children t) (x_offsets t) [] [] [])
  | _ => c
  end.

(* layout: every trun (traf i, trun j) addresses position pos(i,j) of the mdat payload; offsets are relative to the
   moof start, the mdat follows the moof.  poss = per traf (in moof order) the payload positions of its truns *)
Fixpoint set_positions (base : N) (cs : list xchild) (poss : list (list N)) : list xchild :=
  match cs with
  | [] => []
  | XTraf t :: rest =>
      XTraf (mkX (x_track t) (x_children t) (map (fun q => Z.of_N (base + q)) (hd [] poss))
                 (x_ivs t) (x_subs t) (x_data t)) :: set_positions base rest (tl poss)
  | c :: rest => c :: set_positions base rest poss
  end.

Definition xlayout (start : N) (cs : list xchild) (mdat_hdr : N) (poss : list (list N)) : xfrag :=
  mkXF start (set_positions (xmoof_size cs + mdat_hdr) cs poss) (start + xmoof_size cs).

(* ---------------------------------------------------------------- the packager side (third-party style) *)
(* every protected traf's samples (all its truns, in order) go through the per-sample loop of EncryptFragment with the
   track's own IV and protection function; what the decoder later hands to DecryptFragment is kept: per-sample IVs,
   sub-sample lists, encrypted bytes.  The box structure (protection boxes at ANY position, pssh boxes in the moof) is
   that of the input: the input is the protected box tree with the clear sample bytes *)
Section Pack.
  Variable E : list N -> list N -> list N.
  Variable D : list N -> list N -> list N.
  Variable protfunc : N -> list N -> res (list ssp).   (* per track: AVC, HEVC or audio *)
  Variable iv_of : N -> list N.                        (* per track: the 16-byte IV the loop starts with *)

  Definition enc_traf (di : list (N * option tinfo)) (key : list N) (t : xtraf) : res xtraf :=
    match find_track di (x_track t) with
    | None => Ok t
    | Some ti =>
        do encs <- (match ti_sch ti with
                    | Cenc => encrypt_samples_cenc E (protfunc (x_track t)) key (iv_of (x_track t)) (x_data t)
                    | Cbcs => encrypt_samples_cbcs E D (protfunc (x_track t)) key (iv_of (x_track t)) (ti_cb ti) (ti_sb ti) (x_data t)
                    | SchemeOther => Err
                    end);
        Ok (mkX (x_track t) (x_children t) (x_offsets t) (decoded_ivs encs) (decoded_subs encs) (map e_data encs))
    end.

  Fixpoint enc_children (di : list (N * option tinfo)) (key : list N) (cs : list xchild) : res (list xchild) :=
    match cs with
    | [] => Ok []
    | XTraf t :: rest =>
        do t' <- enc_traf di key t; do r <- enc_children di key rest; Ok (XTraf t' :: r)
    | c :: rest => do r <- enc_children di key rest; Ok (c :: r)
    end.
End Pack.
