(* C06Model.v — executable Gallina model of the decryption side of mp4/crypto.go (pinned tree + the
   `fix:` commit on TrafBox.RemoveEncryptionBoxes): decryptSamplesInPlace, DecryptFragment's box surgery
   (TrafBox.RemoveEncryptionBoxes, MoofBox.RemovePsshs, data-offset / mdat position shift), and the structural
   effect of EncryptFragment + Fragment.Encode (SetTrunDataOffsets).  The sample crypt functions are those of
   the C07 model (coq/c07/C07Model.v).  Definitions only.
   Boxes other than the ones named are opaque: (kind, size, identity). *)
From V.lib Require Import Base.
From V.c07 Require Import C07Model.

(* Go's copy(dst, src) on byte slices *)
Definition copy_into (dst src : list N) : list N :=
  firstn (length dst) src ++ skipn (length src) dst.

Section Dec.
  Variable E : list N -> list N -> list N.
  Variable D : list N -> list N -> list N.

  (* the loop of decryptSamplesInPlace.  ivs / subs are senc.IVs / senc.SubSamples as decoded; use_ivs is
     `len(senc.IVs) == len(samples)`; iv is the 16-byte buffer carried from sample to sample *)
  Fixpoint dec_loop (sch : scheme) (key : list N) (cb sb : N) (ivs : list (list N)) (subs : list (list ssp))
           (use_ivs : bool) (i : nat) (iv : list N) (samples : list (list N)) : res (list (list N)) :=
    match samples with
    | [] => Ok []
    | s :: t =>
        do iv1 <- (if use_ivs then
                     do ivi <- nth_res ivs i;
                     Ok (copy_into (if lenN ivi <? 16 then repeat 0 16 else iv) ivi)
                   else Ok iv);
        do ssps <- (match subs with [] => Ok [] | _ => nth_res subs i end);
        do p <- (match sch with
                 | Cenc => crypt_sample_cenc E key iv1 ssps s
                 | Cbcs => crypt_sample_cbcs E D true key iv1 ssps cb sb s
                 | SchemeOther => Ok s
                 end);
        do r <- dec_loop sch key cb sb ivs subs use_ivs (S i) iv1 t;
        Ok (p :: r)
    end.

  (* func decryptSamplesInPlace(schemeType, samples, key, tenc, senc); constiv = tenc.DefaultConstantIV
     ([] when nil) *)
  Definition decrypt_samples (sch : scheme) (key constiv : list N) (cb sb : N) (ivs : list (list N))
             (subs : list (list ssp)) (samples : list (list N)) : res (list (list N)) :=
    dec_loop sch key cb sb ivs subs (Nat.eqb (length ivs) (length samples)) 0
             (copy_into (repeat 0 16) constiv) samples.
End Dec.

(* what the decoder hands to decryptSamplesInPlace after EncryptFragment + encode + decode: per-sample IVs when
   the IV size is non-zero, per-sample sub-sample lists when the sub-sample flag is set *)
Definition decoded_ivs (encs : list enc_sample) : list (list N) :=
  if existsb (fun e => negb (lenN (e_iv e) =? 0)) encs then map e_iv encs else [].
Definition decoded_subs (encs : list enc_sample) : list (list ssp) :=
  if existsb (fun e => match e_ssps e with [] => false | _ => true end) encs then map e_ssps encs else [].

(* ---------------------------------------------------------------- box surgery *)
(* sbgp / sgpd carry their grouping type (a four-character code as its 32-bit value): sample groups are protection
   signalling only when the grouping type is seig *)
Inductive tkind := TSaiz | TSaio | TSenc | TUuidSenc | TUuidOther | TTrun | TOther
                 | TSbgp (grouping_type : N) | TSgpd (grouping_type : N).
Record tbox := mkT { tk : tkind; tsize : N; tid : N }.

Definition cc_seig : N := 1936025959.   (* "seig" *)

(* which traf children are protection signalling (the property text: "every box that is not protection signalling
   ... present and unchanged"): the auxiliary-information boxes, the senc box in both spellings, and the sample
   group boxes of grouping type seig (CencSampleEncryptionInformationGroupEntry) - not roll, rap, sync, alst, ... *)
Definition is_protection_box (k : tkind) : bool :=
  match k with
  | TSaiz | TSaio | TSenc | TUuidSenc => true
  | TSbgp gt | TSgpd gt => gt =? cc_seig
  | TUuidOther | TTrun | TOther => false
  end.

(* func (t *TrafBox) RemoveEncryptionBoxes() uint64 — text after the fix: a uuid box that is not a PIFF senc
   box is kept *)
Fixpoint remove_encryption_boxes (ch : list tbox) : list tbox * N :=
  match ch with
  | [] => ([], 0)
  | b :: t =>
      let '(rest, n) := remove_encryption_boxes t in
      match tk b with
      | TSaiz | TSaio | TSenc | TUuidSenc => (rest, tsize b + n)
      | TUuidOther | TTrun | TOther | TSbgp _ | TSgpd _ => (b :: rest, n)    (* `default:` keeps sbgp / sgpd *)
      end
  end.

(* a variant that was proposed as a repair ("the sample group boxes of an encrypted traf carry the seig groups"):
   `case *SbgpBox, *SgpdBox:` removes and counts every sample group box WITHOUT looking at the grouping type.  Not
   the text of the code; kept to state that it breaks the property (C06_drop_all_groups_refuted) *)
Fixpoint remove_encryption_boxes_allgroups (ch : list tbox) : list tbox * N :=
  match ch with
  | [] => ([], 0)
  | b :: t =>
      let '(rest, n) := remove_encryption_boxes_allgroups t in
      match tk b with
      | TSaiz | TSaio | TSenc | TUuidSenc | TSbgp _ | TSgpd _ => (rest, tsize b + n)
      | TUuidOther | TTrun | TOther => (b :: rest, n)
      end
  end.

(* the text before the fix (pinned tree): the *UUIDBox case neither keeps nor counts a non-senc uuid box *)
Fixpoint remove_encryption_boxes_pinned (ch : list tbox) : list tbox * N :=
  match ch with
  | [] => ([], 0)
  | b :: t =>
      let '(rest, n) := remove_encryption_boxes_pinned t in
      match tk b with
      | TSaiz | TSaio | TSenc | TUuidSenc => (rest, tsize b + n)
      | TUuidOther => (rest, n)
      | TTrun | TOther | TSbgp _ | TSgpd _ => (b :: rest, n)
      end
  end.

Inductive mchild :=
| MTraf (ch : list tbox)
| MPssh (size id : N)
| MOther (size id : N).

Definition traf_size (ch : list tbox) : N := 8 + sumN (map tsize ch).
Definition mchild_size (c : mchild) : N :=
  match c with MTraf ch => traf_size ch | MPssh s _ => s | MOther s _ => s end.
Definition moof_size (cs : list mchild) : N := 8 + sumN (map mchild_size cs).

Definition is_pssh (c : mchild) : bool := match c with MPssh _ _ => true | _ => false end.

(* func (m *MoofBox) RemovePsshs() (psshs, totalSize) *)
Definition remove_psshs (cs : list mchild) : list mchild * N :=
  if existsb is_pssh cs then
    (filter (fun c => negb (is_pssh c)) cs, sumN (map mchild_size (filter is_pssh cs)))
  else (cs, 0).

(* a fragment as far as DecryptFragment's surgery is concerned; the trun data offset is relative to the moof
   start, positions are absolute *)
Record frag := mkFrag { f_moof_start : N; f_children : list mchild; f_data_offset : N; f_mdat_start : N }.

(* the loop `for _, traf := range moof.Trafs { ... nrBytesRemoved += traf.RemoveEncryptionBoxes() }` *)
Fixpoint strip_trafs (cs : list mchild) : list mchild * N :=
  match cs with
  | [] => ([], 0)
  | MTraf ch :: t =>
      let '(ch', n) := remove_encryption_boxes ch in
      let '(rest, m) := strip_trafs t in
      (MTraf ch' :: rest, n + m)
  | c :: t => let '(rest, m) := strip_trafs t in (c :: rest, m)
  end.

(* the structural part of DecryptFragment; `trun.DataOffset -= int32(nrBytesRemoved)` on int32: Err stands for
   a negative result (excluded in the theorems) *)
Definition decrypt_frag_struct (f : frag) : res frag :=
  let '(cs1, n1) := strip_trafs (f_children f) in
  let '(cs2, n2) := remove_psshs cs1 in
  let removed := n1 + n2 in
  if f_data_offset f <? removed then Err
  else Ok (mkFrag (f_moof_start f) cs2 (f_data_offset f - removed)
                  (if f_moof_start f <? f_mdat_start f then f_mdat_start f - removed else f_mdat_start f)).

(* EncryptFragment appends saiz, saio, senc to the (single) traf *)
Fixpoint add_enc_boxes (cs : list mchild) (saiz_sz senc_sz : N) (ids : N) : list mchild :=
  match cs with
  | [] => []
  | MTraf ch :: t => MTraf (ch ++ [mkT TSaiz saiz_sz ids; mkT TSaio 20 (ids + 1); mkT TSenc senc_sz (ids + 2)]) :: t
  | c :: t => c :: add_enc_boxes t saiz_sz senc_sz ids
  end.

(* Fragment.Encode (SetTrunDataOffsets) followed by decoding at position start: the data offset is the moof size
   plus the mdat header, the mdat follows the moof *)
Definition layout (start : N) (cs : list mchild) (mdat_hdr : N) : frag :=
  mkFrag start cs (moof_size cs + mdat_hdr) (start + moof_size cs).
