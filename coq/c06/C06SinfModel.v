(* C06SinfModel.v — bytes of the protection signalling InitProtect puts into a sample entry, and of the entry itself:
   FrmaBox / SchmBox / TencBox / SchiBox / SinfBox .Encode (compact headers), their decoders (DecodeFrma, DecodeSchm,
   DecodeTenc, container children of schi / sinf: DecodeContainerChildren), and the sample entry as bytes: header
   (size, type), the fixed fields of the Visual / Audio sample entry (opaque, 78 / 28 bytes), child boxes.
   protect_entry_bytes is what InitProtect + Encode write for an entry; unprotect_entry_bytes is decode +
   RemoveEncryption (text after fix bb3f974: the LAST sinf is read and removed) + Encode.  Definitions only.
   Not modelled: 16-byte box headers and size 0 ("to end of file"), the scheme URI of schm beyond its terminator,
   child boxes are re-encoded to the bytes they were decoded from (property C01). *)
From V.lib Require Import Base.
From V.c07 Require Import C07Model C07Spec.
From V.c06 Require Import C06InitModel.

Definition cc_frma : N := 1718775137.  Definition cc_schm : N := 1935894637.
Definition cc_schi : N := 1935894633.  Definition cc_tenc : N := 1952804451.
Definition cc_sinf : N := 1936289382.

(* EncodeHeader (compact) + payload *)
Definition mkbox (ty : N) (payload : list N) : list N := be_bytes4 (u32 (8 + lenN payload)) ++ be_bytes4 ty ++ payload.

Definition box_type (b : list N) : N := be (firstn 4 (skipn 4 b)).
Definition box_payload (b : list N) : list N := skipn 8 b.

(* ---------------------------------------------------------------- encode *)
Definition frma_encode (fmt : N) : list N := mkbox cc_frma (be_bytes4 fmt).
(* SchmBox{SchemeType, SchemeVersion: 65536}: version 0, flags 0 *)
Definition schm_encode (sch : N) : list N := mkbox cc_schm ([0; 0; 0; 0] ++ be_bytes4 sch ++ be_bytes4 65536).

(* TencBox.EncodeSW (Flags = 0) *)
Definition tenc_encode (t : tenc_t) : list N :=
  mkbox cc_tenc
    ([u8 (t_version t); 0; 0; 0] ++ [0] ++
     [if t_version t =? 0 then 0 else N.lor (u8 (t_cb t * 16)) (t_sb t)] ++
     [t_isprot t; t_ivsize t] ++ be_bytes 16 (t_kid t) ++
     (if (t_isprot t =? 1) && (t_ivsize t =? 0) then u8 (lenN (t_constiv t)) :: t_constiv t else [])).

Definition schi_encode (t : tenc_t) : list N := mkbox cc_schi (tenc_encode t).

(* the sinf InitProtect builds: frma, schm, schi{tenc} *)
Definition sinf_encode (fmt sch : N) (t : tenc_t) : list N :=
  mkbox cc_sinf (frma_encode fmt ++ schm_encode sch ++ schi_encode t).

(* ---------------------------------------------------------------- decode *)
(* DecodeContainerChildren: boxes one after the other; Err: a child header or size that does not fit *)
Fixpoint walk_boxes (fuel : nat) (data : list N) : res (list (list N)) :=
  match data with
  | [] => Ok []
  | _ =>
      match fuel with
      | O => OutOfFuel
      | S f =>
          if lenN data <? 8 then Err
          else
            let sz := be (firstn 4 data) in
            if sz <? 8 then Err                       (* 0 / 1 (to end / largesize) not modelled, 2..7 invalid *)
            else if lenN data <? sz then Err
            else do r <- walk_boxes f (skipn (N.to_nat sz) data);
                 Ok (firstn (N.to_nat sz) data :: r)
      end
  end.

Definition children_of (payload : list N) : res (list (list N)) := walk_boxes (S (length payload)) payload.

(* DecodeFrmaSR *)
Definition frma_decode (b : list N) : res N :=
  if negb (lenN (box_payload b) =? 4) then Err else Ok (be (box_payload b)).

(* DecodeSchmSR: scheme type (the URI, when flag 1 is set, must be zero-terminated) *)
Definition schm_decode (b : list N) : res N :=
  let p := box_payload b in
  if lenN p <? 12 then Err
  else
    let flags := be (firstn 4 p) mod 16777216 in
    if negb (N.land flags 1 =? 0) && negb (existsb (fun x => x =? 0) (skipn 12 p)) then Err
    else Ok (be (firstn 4 (skipn 4 p))).

(* DecodeTencSR: reads past the payload are errors, bytes left over are ignored *)
Definition tenc_decode (b : list N) : res tenc_t :=
  let p := box_payload b in
  if lenN p <? 24 then Err
  else
    let version := be (firstn 4 p) / 16777216 in
    let info := nth 5 p 0 in
    let isprot := nth 6 p 0 in
    let ivsize := nth 7 p 0 in
    let kid := be (firstn 16 (skipn 8 p)) in
    let cb := if version =? 0 then 0 else info / 16 in
    let sb := if version =? 0 then 0 else info mod 16 in
    if (isprot =? 1) && (ivsize =? 0) then
      if lenN p <? 25 then Err
      else
        let n := nth 24 p 0 in
        if lenN p <? 25 + n then Err
        else Ok (mkTenc version cb sb isprot ivsize kid (firstn (N.to_nat n) (skipn 25 p)))
    else Ok (mkTenc version cb sb isprot ivsize kid []).

(* SchiBox: the last tenc child; every child is decoded (an undecodable tenc is an error wherever it stands) *)
Fixpoint schi_children (l : list (list N)) (acc : option tenc_t) : res (option tenc_t) :=
  match l with
  | [] => Ok acc
  | c :: t =>
      if box_type c =? cc_tenc then do x <- tenc_decode c; schi_children t (Some x)
      else schi_children t acc
  end.

Definition schi_decode (b : list N) : res (option tenc_t) :=
  do cs <- children_of (box_payload b); schi_children cs None.

(* SinfBox as decoded: Frma / Schm / Schi.Tenc (nil = None); schi present but without tenc = Some None *)
Record sinf_d := mkSD { sd_frma : option N; sd_schm : option N; sd_schi : option (option tenc_t) }.

Fixpoint sinf_children (l : list (list N)) (acc : sinf_d) : res sinf_d :=
  match l with
  | [] => Ok acc
  | c :: t =>
      let ty := box_type c in
      if ty =? cc_frma then do x <- frma_decode c; sinf_children t (mkSD (Some x) (sd_schm acc) (sd_schi acc))
      else if ty =? cc_schm then do x <- schm_decode c; sinf_children t (mkSD (sd_frma acc) (Some x) (sd_schi acc))
      else if ty =? cc_schi then do x <- schi_decode c; sinf_children t (mkSD (sd_frma acc) (sd_schm acc) (Some x))
      else sinf_children t acc
  end.

Definition sinf_decode (b : list N) : res sinf_d :=
  do cs <- children_of (box_payload b); sinf_children cs (mkSD None None None).

(* ---------------------------------------------------------------- the sample entry as bytes *)
(* size, type, fixed fields (78 bytes for a visual entry, 28 for an audio entry: opaque), child boxes *)
Definition entry_bytes (ty : N) (fixed : list N) (children : list (list N)) : list N :=
  mkbox ty (fixed ++ concat children).

(* InitProtect on the entry + Encode: type encv / enca, the sinf appended after the entry's own children *)
Definition protect_entry_bytes (enc_ty ty : N) (fixed : list N) (children : list (list N)) (sch : N) (t : tenc_t) : list N :=
  entry_bytes enc_ty fixed (children ++ [sinf_encode ty sch t]).

(* the last child of type sinf *)
Fixpoint last_sinf_box (l : list (list N)) (acc : option (list N)) : option (list N) :=
  match l with
  | [] => acc
  | c :: t => last_sinf_box t (if box_type c =? cc_sinf then Some c else acc)
  end.

Fixpoint remove_last_sinf_box (l : list (list N)) : list (list N) :=
  match l with
  | [] => []
  | c :: t => if (box_type c =? cc_sinf) && negb (existsb (fun x => box_type x =? cc_sinf) t) then t
              else c :: remove_last_sinf_box t
  end.

(* decode the entry (fixed part of nfixed bytes), RemoveEncryption, Encode: the new entry bytes and the sinf read.
   Panic: sinf.Frma is nil (RemoveEncryption dereferences it) *)
Definition unprotect_entry_bytes (nfixed : nat) (b : list N) : res (list N * sinf_d) :=
  let p := box_payload b in
  if lenN p <? N.of_nat nfixed then Err
  else
    do cs <- children_of (skipn nfixed p);
    match last_sinf_box cs None with
    | None => Err                                   (* "does not have sinf box" *)
    | Some sb =>
        do s <- sinf_decode sb;
        match sd_frma s with
        | None => Panic
        | Some fmt => Ok (entry_bytes fmt (firstn nfixed p) (remove_last_sinf_box cs), s)
        end
    end.

(* well-formed child box: compact header whose size field is the length of the box *)
Definition wf_box (b : list N) : bool := (8 <=? lenN b) && (be (firstn 4 b) =? lenN b) && (lenN b <? 4294967296).

(* tenc as InitProtect builds it (and any tenc that fits the field widths) *)
Definition tenc_wf (t : tenc_t) : bool :=
  (t_version t <? 256) && (t_cb t <? 16) && (t_sb t <? 16) && (t_isprot t <? 256) && (t_ivsize t <? 256) &&
  (t_kid t <? 340282366920938463463374607431768211456) && (lenN (t_constiv t) <? 256) && bytes_ok (t_constiv t) &&
  implb (t_version t =? 0) ((t_cb t =? 0) && (t_sb t =? 0)) &&
  (((t_isprot t =? 1) && (t_ivsize t =? 0)) || (lenN (t_constiv t) =? 0)).
