(* C06TimingProofs.v — the defaults EncryptFragment / DecryptFragment write into trun.Samples (AddSampleDefaultValues
   with THEIR trex) leave no trace in the encoded trun: after encode + decode the trun is the clear one (data offset
   apart), so sample count, sizes, durations, flags, composition offsets and decode times seen by any later reader
   are those of the clear fragment. *)
From V.lib Require Import Base.
From V.c07 Require Import C07Model C07RangeProofs.
From V.c06 Require Import C06Model C06FragModel C06TrexModel C06TimingModel.

Lemma u32_id x : x < 4294967296 -> u32 x = x.
Proof. intros H. unfold u32. apply N.mod_small. exact H. Qed.

Lemma rd4_opt4 b x rest : x < 4294967296 -> rd4 b (opt4 b x ++ rest) = ((if b then x else 0), rest).
Proof.
  intros H. unfold rd4, opt4. destruct b; [|reflexivity].
  rewrite (u32_id x H). unfold be_bytes4. cbn [app firstn skipn].
  change [u8 (x / 16777216); u8 (x / 65536); u8 (x / 256); u8 x] with (be_bytes4 x).
  rewrite be_bytes4_be by exact H. reflexivity.
Qed.

Lemma rd4_absent x rest : rd4 false (opt4 false x ++ rest) = (0, rest).
Proof. reflexivity. Qed.

Section Loop.
  Variable tr : trun_t.
  Variables dd ds df : N.

  (* one sample: what the encoder writes for the sample WITH defaults filled in is read back as the sample the
     decoder had delivered *)
  Lemma decode_encoded_samples : forall l i,
    as_decoded_loop tr i l = true ->
    decode_tsamples tr (tr_first_flags tr) (length l) i
      (flat_map (encode_tsample tr) (add_defaults_loop tr dd ds df i l)) = l.
  Proof.
    induction l as [|s t IH]; intros i H; [reflexivity|].
    cbn [as_decoded_loop] in H. repeat (apply andb_true_iff in H; destruct H as [H ?]).
    rename H into Hdur. rename H0 into Ht. rename H1 into Hfl. rename H2 into Hc0. rename H3 into Hs0.
    rename H4 into Hd0. rename H5 into Hcto. rename H6 into Hflb. rename H7 into Hsz.
    apply N.ltb_lt in Hdur, Hsz, Hflb, Hcto.
    cbn [length add_defaults_loop flat_map decode_tsamples]. unfold encode_tsample at 1.
    cbn [ts_flags ts_dur ts_size ts_cto]. rewrite <- !app_assoc.
    (* duration *)
    assert (E1 : forall rest', rd4 (tr_dur tr) (opt4 (tr_dur tr) (if tr_dur tr then ts_dur s else dd) ++ rest') = (ts_dur s, rest')).
    { intros rest'. destruct (tr_dur tr) eqn:Eb.
      - rewrite rd4_opt4 by exact Hdur. reflexivity.
      - cbn [orb] in Hd0. apply N.eqb_eq in Hd0. rewrite Hd0. reflexivity. }
    rewrite E1.
    assert (E2 : forall rest', rd4 (tr_size tr) (opt4 (tr_size tr) (if tr_size tr then ts_size s else ds) ++ rest') = (ts_size s, rest')).
    { intros rest'. destruct (tr_size tr) eqn:Eb.
      - rewrite rd4_opt4 by exact Hsz. reflexivity.
      - cbn [orb] in Hs0. apply N.eqb_eq in Hs0. rewrite Hs0. reflexivity. }
    rewrite E2.
    set (fl' := if tr_flags tr then ts_flags s else if negb (Nat.eqb i 0) || negb (tr_first tr) then df else ts_flags s).
    assert (E3 : forall rest', rd4 (tr_flags tr) (opt4 (tr_flags tr) fl' ++ rest')
                               = ((if tr_flags tr then ts_flags s else 0), rest')).
    { intros rest'. unfold fl'. destruct (tr_flags tr) eqn:Eb.
      - rewrite rd4_opt4 by exact Hflb. reflexivity.
      - reflexivity. }
    rewrite E3.
    assert (E4 : forall rest', rd4 (tr_cto tr) (opt4 (tr_cto tr) (ts_cto s) ++ rest') = (ts_cto s, rest')).
    { intros rest'. destruct (tr_cto tr) eqn:Eb.
      - rewrite rd4_opt4 by exact Hcto. reflexivity.
      - cbn [orb] in Hc0. apply N.eqb_eq in Hc0. rewrite Hc0. reflexivity. }
    rewrite E4. rewrite (IH (S i) Ht). f_equal.
    destruct s as [f d z c]. cbn [ts_flags ts_dur ts_size ts_cto] in *. f_equal.
    destruct (tr_flags tr); [reflexivity|]. cbn [orb] in Hfl. apply N.eqb_eq in Hfl. symmetry. exact Hfl.
  Qed.

  Lemma encoded_samples_length : forall l i,
    lenN (flat_map (encode_tsample tr) (add_defaults_loop tr dd ds df i l)) = lenN l * (4 * field_count tr).
  Proof.
    induction l as [|s t IH]; intros i; [reflexivity|].
    cbn [add_defaults_loop flat_map]. rewrite lenN_app, IH, lenN_cons. unfold encode_tsample, opt4, field_count.
    rewrite !lenN_app. destruct (tr_dur tr), (tr_size tr), (tr_flags tr), (tr_cto tr);
      rewrite ?be_bytes4_len; cbn [lenN length N.of_nat]; lia.
  Qed.
End Loop.

Lemma add_defaults_length tr dd ds df : forall l i, length (add_defaults_loop tr dd ds df i l) = length l.
Proof. induction l as [|s t IH]; intros i; [reflexivity|]. cbn [add_defaults_loop length]. rewrite IH. reflexivity. Qed.

(* the trun after the encrypt side's mutation, Encode and decoding is the clear trun with the new data offset *)
Lemma timing_no_trace tfhd trex_e tr off :
  as_decoded tr = true -> off < 4294967296 -> (tr_doff tr = true -> off <> 0) ->
  trun_after_encrypt tfhd trex_e tr off = Ok (set_data_offset tr (if tr_doff tr then off else 0)).
Proof.
  intros Hd Hoff Hnz. unfold as_decoded in Hd. repeat (apply andb_true_iff in Hd; destruct Hd as [Hd ?]).
  rename Hd into Hcnt. rename H into Hloop. rename H0 into Hbig. rename H1 into Hff0. rename H2 into Hdo0.
  rename H3 into Hff. rename H4 into Hdoff.
  apply N.ltb_lt in Hcnt, Hff. apply negb_true_iff in Hbig.
  unfold trun_after_encrypt, trun_encode_body, add_sample_defaults, set_data_offset, set_samples.
  cbn [tr_doff tr_data_offset tr_samples tr_first tr_first_flags tr_dur tr_size tr_flags tr_cto].
  set (dd := default_of (th_dur tfhd) trex_e tx_dur). set (ds := default_of (th_size tfhd) trex_e tx_size).
  set (df := default_of (th_flags tfhd) trex_e tx_flags).
  set (l' := add_defaults_loop tr dd ds df 0 (tr_samples tr)).
  assert (Hz : tr_doff tr && (off =? 0) = false).
  { destruct (tr_doff tr) eqn:Eb; [|reflexivity]. cbn [andb]. apply N.eqb_neq. apply Hnz. reflexivity. }
  rewrite Hz. cbn [rbind].
  assert (Hl' : lenN l' = lenN (tr_samples tr)) by (unfold l', lenN; rewrite add_defaults_length; reflexivity).
  rewrite Hl'.
  set (body := flat_map (encode_tsample
                 {| tr_dur := tr_dur tr; tr_size := tr_size tr; tr_flags := tr_flags tr; tr_cto := tr_cto tr;
                    tr_first := tr_first tr; tr_doff := tr_doff tr; tr_data_offset := off;
                    tr_first_flags := tr_first_flags tr; tr_samples := l' |}) l').
  assert (Hbody : body = flat_map (encode_tsample tr) l').
  { unfold body. apply flat_map_ext. intros s. reflexivity. }
  rewrite Hbody. clear body Hbody.
  unfold trun_decode_body.
  set (cb := be_bytes4 (u32 (lenN (tr_samples tr)))).
  assert (Hcb : cb = be_bytes4 (lenN (tr_samples tr))) by (unfold cb; rewrite u32_id by exact Hcnt; reflexivity).
  set (data := cb ++ opt4 (tr_doff tr) off ++ opt4 (tr_first tr) (tr_first_flags tr) ++ flat_map (encode_tsample tr) l').
  assert (Hlen : lenN data = 4 + (if tr_doff tr then 4 else 0) + (if tr_first tr then 4 else 0)
                             + lenN (tr_samples tr) * (4 * field_count tr)).
  { unfold data. rewrite !lenN_app. unfold l'. rewrite encoded_samples_length. unfold cb, opt4.
    rewrite be_bytes4_len. destruct (tr_doff tr), (tr_first tr); rewrite ?be_bytes4_len; cbn [lenN length N.of_nat]; lia. }
  assert (H4 : lenN data <? 4 = false) by (apply N.ltb_ge; rewrite Hlen; lia).
  rewrite H4.
  assert (Hfirst : firstn 4 data = be_bytes4 (lenN (tr_samples tr)) /\
                   skipn 4 data = opt4 (tr_doff tr) off ++ opt4 (tr_first tr) (tr_first_flags tr) ++ flat_map (encode_tsample tr) l').
  { unfold data. rewrite Hcb. unfold be_bytes4. cbn [app firstn skipn]. split; reflexivity. }
  destruct Hfirst as [Hf4 Hs4]. rewrite Hf4, Hs4. rewrite be_bytes4_be by exact Hcnt.
  rewrite Hlen, N.eqb_refl. cbn [negb]. rewrite Hbig.
  rewrite rd4_opt4 by exact Hoff. rewrite rd4_opt4 by exact Hff.
  assert (Hffv : (if tr_first tr then tr_first_flags tr else 0) = tr_first_flags tr).
  { destruct (tr_first tr); [reflexivity|]. cbn [orb] in Hff0. apply N.eqb_eq in Hff0. symmetry. exact Hff0. }
  rewrite Hffv. unfold lenN. rewrite Nat2N.id. unfold l'.
  rewrite (decode_encoded_samples tr dd ds df (tr_samples tr) 0%nat Hloop). reflexivity.
Qed.

Lemma full_meta_ext base : forall l acc, full_meta base acc l = full_meta base acc l.
Proof. reflexivity. Qed.

Lemma add_defaults_loop_ext tr tr' dd ds df :
  tr_flags tr = tr_flags tr' -> tr_first tr = tr_first tr' -> tr_dur tr = tr_dur tr' -> tr_size tr = tr_size tr' ->
  forall l i, add_defaults_loop tr dd ds df i l = add_defaults_loop tr' dd ds df i l.
Proof.
  intros H1 H2 H3 H4. induction l as [|s t IH]; intros i; [reflexivity|].
  cbn [add_defaults_loop]. rewrite H1, H2, H3, H4, IH. reflexivity.
Qed.

(* fragment_meta does not look at the data offset *)
Lemma fragment_meta_offset tfhd trex tr off base :
  fragment_meta tfhd trex (set_data_offset tr off) base = fragment_meta tfhd trex tr base.
Proof.
  unfold fragment_meta, add_sample_defaults, set_samples. cbn [tr_samples]. f_equal.
  unfold set_data_offset at 2. cbn [tr_samples]. apply add_defaults_loop_ext; reflexivity.
Qed.

Lemma as_decoded_loop_ext tr tr' :
  tr_dur tr = tr_dur tr' -> tr_size tr = tr_size tr' -> tr_flags tr = tr_flags tr' -> tr_cto tr = tr_cto tr' ->
  tr_first tr = tr_first tr' -> tr_first_flags tr = tr_first_flags tr' ->
  forall l i, as_decoded_loop tr i l = as_decoded_loop tr' i l.
Proof.
  intros H1 H2 H3 H4 H5 H6. induction l as [|s t IH]; intros i; [reflexivity|].
  cbn [as_decoded_loop]. rewrite H1, H2, H3, H4, H5, H6, IH. reflexivity.
Qed.

(* as_decoded is kept by the round (the new trun is again what a decoder delivers) *)
Lemma as_decoded_set_offset tr x :
  as_decoded tr = true -> x < 4294967296 -> (tr_doff tr = false -> x = 0) -> as_decoded (set_data_offset tr x) = true.
Proof.
  intros H Hx H0. unfold as_decoded in *.
  apply andb_true_iff in H. destruct H as [H G]. apply andb_true_iff in H. destruct H as [H Ff].
  apply andb_true_iff in H. destruct H as [H Ee]. apply andb_true_iff in H. destruct H as [H Dd].
  apply andb_true_iff in H. destruct H as [H C]. apply andb_true_iff in H. destruct H as [A B].
  rewrite (as_decoded_loop_ext (set_data_offset tr x) tr) by reflexivity.
  unfold set_data_offset at 1 2 3 4 5 6 7. cbn [tr_samples tr_data_offset tr_first_flags tr_doff tr_first].
  assert (Hfc : field_count (set_data_offset tr x) = field_count tr) by reflexivity. rewrite Hfc.
  cbn [set_data_offset tr_samples]. rewrite A, C, Ee, Ff, G.
  assert (Hx' : x <? 4294967296 = true) by (apply N.ltb_lt; exact Hx). rewrite Hx'.
  assert (Hd : tr_doff tr || (x =? 0) = true).
  { destruct (tr_doff tr); [reflexivity|]. rewrite (H0 eq_refl). reflexivity. }
  rewrite Hd. reflexivity.
Qed.

(* the property clause: after encrypt (any trex on the encrypt side, even nil) + encode + decode, and again after
   decrypt + encode + decode, a reader with trex_d sees the sample count, sizes, durations, flags, composition
   offsets and decode times of the clear fragment *)
Lemma timing_roundtrip tfhd trex_e tr off1 off2 :
  as_decoded tr = true ->
  off1 < 4294967296 -> off2 < 4294967296 -> (tr_doff tr = true -> off1 <> 0 /\ off2 <> 0) ->
  exists tr1 tr2,
    trun_after_encrypt tfhd trex_e tr off1 = Ok tr1 /\
    (forall trex_d, trun_after_encrypt tfhd trex_d tr1 off2 = Ok tr2) /\
    tr_samples tr1 = tr_samples tr /\ tr_samples tr2 = tr_samples tr /\
    forall trex_d base,
      fragment_meta tfhd trex_d tr1 base = fragment_meta tfhd trex_d tr base /\
      fragment_meta tfhd trex_d tr2 base = fragment_meta tfhd trex_d tr base.
Proof.
  intros Hd H1 H2 Hnz.
  set (x1 := if tr_doff tr then off1 else 0). set (x2 := if tr_doff tr then off2 else 0).
  exists (set_data_offset tr x1), (set_data_offset tr x2).
  assert (Hx1 : x1 < 4294967296) by (unfold x1; destruct (tr_doff tr); lia).
  assert (Hd1 : as_decoded (set_data_offset tr x1) = true).
  { apply as_decoded_set_offset; [exact Hd|exact Hx1|]. intros E. unfold x1. rewrite E. reflexivity. }
  split; [apply timing_no_trace; [exact Hd|exact H1|intros E; apply (Hnz E)]|].
  split.
  - intros trex_d. rewrite (timing_no_trace tfhd trex_d (set_data_offset tr x1) off2 Hd1 H2).
    + unfold set_data_offset. cbn [tr_doff tr_dur tr_size tr_flags tr_cto tr_first tr_first_flags tr_samples]. reflexivity.
    + cbn [set_data_offset tr_doff]. intros E. apply (Hnz E).
  - split; [reflexivity|]. split; [reflexivity|]. intros trex_d base.
    rewrite !fragment_meta_offset. split; reflexivity.
Qed.

(* ---------------------------------------------------------------- link with the sizes model of C06TrexModel *)
Definition sizing_of (tfhd : tfhd_t) (tr : trun_t) : sizing :=
  mkSizing (lenN (tr_samples tr)) (if tr_size tr then Some (map ts_size (tr_samples tr)) else None) (th_size tfhd).

Lemma full_meta_sizes base : forall l acc, map (fun p => ts_size (fst p)) (full_meta base acc l) = map ts_size l.
Proof. induction l as [|s t IH]; intros acc; [reflexivity|]. cbn [full_meta map fst]. rewrite IH. reflexivity. Qed.

Lemma add_defaults_sizes tr dd ds df : forall l i,
  map ts_size (add_defaults_loop tr dd ds df i l) = if tr_size tr then map ts_size l else repeat ds (length l).
Proof.
  induction l as [|s t IH]; intros i; [destruct (tr_size tr); reflexivity|].
  cbn [add_defaults_loop map ts_size length repeat]. rewrite IH. destruct (tr_size tr); reflexivity.
Qed.

(* the sizes C06_fragment_roundtrip_trex_* split the payload with are the sizes of fragment_meta *)
Lemma sizes_agree tfhd trex tr base :
  sample_sizes (option_map tx_size trex) (sizing_of tfhd tr) = sizes_of_meta (fragment_meta tfhd trex tr base).
Proof.
  unfold sizes_of_meta, fragment_meta. rewrite full_meta_sizes.
  unfold add_sample_defaults, set_samples. cbn [tr_samples]. rewrite add_defaults_sizes.
  unfold sample_sizes, sizing_of. cbn [sg_trun sg_count sg_tfhd]. destruct (tr_size tr); [reflexivity|].
  unfold default_size, default_of. cbn [sg_tfhd]. unfold lenN. rewrite Nat2N.id.
  destruct (th_size tfhd); [reflexivity|]. destruct trex; reflexivity.
Qed.
