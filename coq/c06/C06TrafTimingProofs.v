(* C06TrafTimingProofs.v — C06_timing_roundtrip for a traf with any number of truns. *)
From V.lib Require Import Base.
From V.c06 Require Import C06TimingModel C06TimingProofs C06TrafTimingModel.

Lemma full_meta_fst base : forall l acc, map fst (full_meta base acc l) = l.
Proof. induction l as [|s t IH]; intros acc; [reflexivity|]. cbn [full_meta map fst]. rewrite IH. reflexivity. Qed.

Lemma meta_eq_total tfhd trex tr tr' :
  fragment_meta tfhd trex tr' 0 = fragment_meta tfhd trex tr 0 -> total_dur tfhd trex tr' = total_dur tfhd trex tr.
Proof.
  unfold fragment_meta, total_dur. intros H. apply (f_equal (map fst)) in H. rewrite !full_meta_fst in H.
  rewrite H. reflexivity.
Qed.

(* truns that report the same metadata one by one report the same metadata as a traf *)
Lemma traf_meta_ext tfhd trex : forall truns truns' base,
  Forall2 (fun tr tr' => forall b, fragment_meta tfhd trex tr' b = fragment_meta tfhd trex tr b) truns truns' ->
  traf_meta tfhd trex truns' base = traf_meta tfhd trex truns base.
Proof.
  intros truns truns' base H. revert base. induction H as [|tr tr' l l' Hh _ IH]; intros base; [reflexivity|].
  cbn [traf_meta]. rewrite (Hh base), (meta_eq_total tfhd trex tr tr' (Hh 0)), IH. reflexivity.
Qed.

(* every trun of the traf goes through encrypt-side defaults + Encode + decode, then decrypt-side defaults + Encode +
   decode (any trex on either side, any data offsets): count, sizes, durations, flags, composition offsets and decode
   times of the whole traf are those of the clear traf *)
Lemma timing_roundtrip_multi tfhd trex_e : forall (l : list (trun_t * (N * N))),
  (forall tr o1 o2, In (tr, (o1, o2)) l ->
     as_decoded tr = true /\ o1 < 4294967296 /\ o2 < 4294967296 /\ (tr_doff tr = true -> o1 <> 0 /\ o2 <> 0)) ->
  exists l12 : list (trun_t * trun_t),
    Forall2 (fun x p => trun_after_encrypt tfhd trex_e (fst x) (fst (snd x)) = Ok (fst p) /\
                        (forall trex_d, trun_after_encrypt tfhd trex_d (fst p) (snd (snd x)) = Ok (snd p)) /\
                        tr_samples (fst p) = tr_samples (fst x) /\ tr_samples (snd p) = tr_samples (fst x)) l l12 /\
    forall trex_d base,
      traf_meta tfhd trex_d (map fst l12) base = traf_meta tfhd trex_d (map fst l) base /\
      traf_meta tfhd trex_d (map snd l12) base = traf_meta tfhd trex_d (map fst l) base.
Proof.
  induction l as [|[tr [o1 o2]] t IH]; intros H.
  - exists []. split; [constructor|]. intros; split; reflexivity.
  - destruct (H tr o1 o2 (or_introl eq_refl)) as (Hd & H1 & H2 & H3).
    destruct (timing_roundtrip tfhd trex_e tr o1 o2 Hd H1 H2 H3) as (tr1 & tr2 & R1 & R2 & S1 & S2 & M).
    destruct (IH (fun tr' a b Hin => H tr' a b (or_intror Hin))) as (l12 & F & MM).
    exists ((tr1, tr2) :: l12). split.
    + constructor; [|exact F]. cbn [fst snd]. auto.
    + intros trex_d base. cbn [map fst snd traf_meta].
      destruct (M trex_d base) as [Ma Mb]. destruct (M trex_d 0) as [Ma0 Mb0].
      rewrite Ma, Mb, (meta_eq_total tfhd trex_d tr tr1 Ma0), (meta_eq_total tfhd trex_d tr tr2 Mb0).
      destruct (MM trex_d ((base + total_dur tfhd trex_d tr) mod 18446744073709551616)) as [Mc Md].
      rewrite Mc, Md. split; reflexivity.
Qed.
