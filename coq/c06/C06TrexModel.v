(* C06TrexModel.v — how EncryptFragment and DecryptFragment find the samples: Fragment.GetFullSamples(trex) ->
   TrunBox.AddSampleDefaultValues(tfhd, trex) -> TrunBox.GetFullSamples.  A sample's size is the per-sample value of
   the trun when sample_size_present, else tfhd.default_sample_size when present, else trex.default_sample_size,
   and 0 when no trex is given (nil).  The trex is an explicit parameter of both sides.  The samples are slices of
   mdat.Data, so encryption / decryption in place rewrites the payload.  Also: whole files (lists of fragments).
   Definitions only. *)
From V.lib Require Import Base.
From V.c07 Require Import C07Model.
From V.c06 Require Import C06Model C06FragModel.

(* sample count of the trun, its per-sample sizes when sample_size_present, tfhd.default_sample_size when present *)
Record sizing := mkSizing { sg_count : N; sg_trun : option (list N); sg_tfhd : option N }.

(* trex : option N — None = a nil *TrexBox, Some d = trex.DefaultSampleSize *)
Definition default_size (trex : option N) (g : sizing) : N :=
  match sg_tfhd g with
  | Some d => d
  | None => match trex with Some d => d | None => 0 end
  end.

(* TrunBox.AddSampleDefaultValues, sizes *)
Definition sample_sizes (trex : option N) (g : sizing) : list N :=
  match sg_trun g with
  | Some l => l
  | None => repeat (default_size trex g) (N.to_nat (sg_count g))
  end.

(* TrunBox.GetFullSamples: Data: mdat.Data[offset : offset+size], offset += size (Panic = slice out of range) *)
Fixpoint split_samples (sizes : list N) (data : list N) : res (list (list N) * list N) :=
  match sizes with
  | [] => Ok ([], data)
  | z :: t =>
      if lenN data <? z then Panic
      else do r <- split_samples t (skipn (N.to_nat z) data);
           Ok (firstn (N.to_nat z) data :: fst r, snd r)
  end.

(* a clear fragment with its mdat payload *)
Record pfrag := mkP { pf_children : list mchild; pf_sizing : sizing; pf_payload : list N }.

Section Trex.
  Variable E : list N -> list N -> list N.
  Variable D : list N -> list N -> list N.
  Variable protfunc : list N -> res (list ssp).

  (* EncryptFragment(f, key, iv, ipd) with ipd.Trex = trex: the samples found with THIS trex are encrypted in place *)
  Definition encrypt_frag_trex (sch : scheme) (key iv : list N) (cb sb : N) (start mdat_hdr ids : N)
             (trex : option N) (f : pfrag) : res (efrag * list N) :=
    do sp <- split_samples (sample_sizes trex (pf_sizing f)) (pf_payload f);
    do e <- encrypt_frag E D protfunc sch key iv cb sb start mdat_hdr ids (mkC (pf_children f) (fst sp));
    Ok (e, concat (ef_data e) ++ snd sp).

  (* DecryptFragment(frag, di, key) with the track's trex = trex (tfhd and trun are untouched by encryption):
     the samples found with THIS trex are decrypted in place *)
  Definition decrypt_frag_trex (sch : scheme) (key constiv : list N) (cb sb : N)
             (trex : option N) (g : sizing) (e : efrag) (payload : list N) : res (frag * list N) :=
    do sp <- split_samples (sample_sizes trex g) payload;
    do r <- decrypt_frag E D sch key constiv cb sb (mkEF (ef_frag e) (ef_ivs e) (ef_subs e) (fst sp));
    Ok (fst r, concat (snd r) ++ snd sp).

  (* ---------------------------------------------------------------- whole files *)
  (* mp4ff-encrypt: `for each fragment { EncryptFragment(f, key, iv, ipd) }` with the SAME iv for every fragment
     (EncryptFragment advances a private copy), then File.Encode: every fragment is written after the previous
     one, and decoded again at that position *)
  Fixpoint encrypt_file (sch : scheme) (key iv : list N) (cb sb : N) (start ids : N) (fs : list (cfrag * N))
    : res (list (efrag * N)) :=
    match fs with
    | [] => Ok []
    | (f, mdat_hdr) :: t =>
        do e <- encrypt_frag E D protfunc sch key iv cb sb start mdat_hdr ids f;
        let next := start + moof_size (f_children (ef_frag e)) + mdat_hdr + sumN (map (fun s => lenN s) (ef_data e)) in
        do r <- encrypt_file sch key iv cb sb next (ids + 3) t;
        Ok ((e, mdat_hdr) :: r)
    end.

  (* mp4ff-decrypt: DecryptSegment = DecryptFragment on every fragment *)
  Fixpoint decrypt_file (sch : scheme) (key constiv : list N) (cb sb : N) (es : list (efrag * N))
    : res (list (frag * list (list N) * N)) :=
    match es with
    | [] => Ok []
    | (e, mdat_hdr) :: t =>
        do g <- decrypt_frag E D sch key constiv cb sb e;
        do r <- decrypt_file sch key constiv cb sb t;
        Ok ((fst g, snd g, mdat_hdr) :: r)
    end.
End Trex.

(* File.Encode + decoding of a list of fragments from position start: SetTrunDataOffsets gives every trun the
   offset moof size + mdat header, every fragment follows the previous one *)
Fixpoint reencode (start : N) (gs : list (frag * list (list N) * N)) : list frag :=
  match gs with
  | [] => []
  | (g, samples, mdat_hdr) :: t =>
      layout start (f_children g) mdat_hdr
      :: reencode (start + moof_size (f_children g) + mdat_hdr + sumN (map (fun s => lenN s) samples)) t
  end.

(* the clear file, laid out from position start *)
Fixpoint layout_file (start : N) (fs : list (cfrag * N)) : list frag :=
  match fs with
  | [] => []
  | (f, mdat_hdr) :: t =>
      layout start (cf_children f) mdat_hdr
      :: layout_file (start + moof_size (cf_children f) + mdat_hdr + sumN (map (fun s => lenN s) (cf_samples f))) t
  end.

(* positions at which the fragments of the ENCRYPTED file start: every earlier fragment has grown by the bytes
   EncryptFragment added to its moof *)
Fixpoint enc_positions (start : N) (fs : list (cfrag * N)) (es : list (efrag * N)) : list N :=
  match fs, es with
  | (f, mdat_hdr) :: t, (e, _) :: u =>
      start :: enc_positions (start + moof_size (cf_children f) + mdat_hdr + sumN (map (fun s => lenN s) (cf_samples f))
                              + (moof_size (f_children (ef_frag e)) - moof_size (cf_children f))) t u
  | _, _ => []
  end.
