(* C06SinfProofs.v — the bytes InitProtect writes into a sample entry are read back as the sinf it built, and
   decode + RemoveEncryption + encode of the protected entry gives back the bytes of the clear entry. *)
From V.lib Require Import Base.
From V.c07 Require Import C07Model C07Spec C07RangeProofs C07CryptProofs.
From V.c06 Require Import C06InitModel C06SinfModel.

Lemma u32_small' x : x < 4294967296 -> u32 x = x.
Proof. intros H. unfold u32. apply N.mod_small. exact H. Qed.

(* ---------------------------------------------------------------- mkbox *)
Lemma mkbox_len ty p : lenN (mkbox ty p) = 8 + lenN p.
Proof. unfold mkbox. rewrite !lenN_app, !be_bytes4_len. lia. Qed.

Lemma mkbox_payload ty p : box_payload (mkbox ty p) = p.
Proof. unfold box_payload, mkbox, be_bytes4. reflexivity. Qed.

Lemma mkbox_type ty p : ty < 4294967296 -> box_type (mkbox ty p) = ty.
Proof.
  intros H. unfold box_type, mkbox. unfold be_bytes4 at 1. cbn [app skipn]. unfold be_bytes4. cbn [app firstn].
  change [u8 (ty / 16777216); u8 (ty / 65536); u8 (ty / 256); u8 ty] with (be_bytes4 ty). apply be_bytes4_be. exact H.
Qed.

Lemma mkbox_size ty p rest : 8 + lenN p < 4294967296 -> be (firstn 4 (mkbox ty p ++ rest)) = 8 + lenN p.
Proof.
  intros H. unfold mkbox. rewrite (u32_small' _ H). unfold be_bytes4 at 1. cbn [app firstn].
  change [u8 ((8 + lenN p) / 16777216); u8 ((8 + lenN p) / 65536); u8 ((8 + lenN p) / 256); u8 (8 + lenN p)]
    with (be_bytes4 (8 + lenN p)). apply be_bytes4_be. exact H.
Qed.

Lemma mkbox_wf ty p : 8 + lenN p < 4294967296 -> wf_box (mkbox ty p) = true.
Proof.
  intros H. unfold wf_box. rewrite mkbox_len.
  pose proof (mkbox_size ty p [] H) as Hs. rewrite app_nil_r in Hs. rewrite Hs, N.eqb_refl.
  assert (H1 : 8 <=? 8 + lenN p = true) by (apply N.leb_le; lia).
  assert (H2 : 8 + lenN p <? 4294967296 = true) by (apply N.ltb_lt; exact H). rewrite H1, H2. reflexivity.
Qed.

(* ---------------------------------------------------------------- walking well-formed boxes *)
Lemma wf_box_parts b : wf_box b = true -> 8 <= lenN b /\ be (firstn 4 b) = lenN b /\ lenN b < 4294967296.
Proof.
  unfold wf_box. intros H. apply andb_true_iff in H. destruct H as [H H3]. apply andb_true_iff in H. destruct H as [H1 H2].
  apply N.leb_le in H1. apply N.eqb_eq in H2. apply N.ltb_lt in H3. auto.
Qed.

Lemma firstn4_app (b rest : list N) : 8 <= lenN b -> firstn 4 (b ++ rest) = firstn 4 b.
Proof. intros H. rewrite firstn_app. replace (4 - length b)%nat with 0%nat by (unfold lenN in H; lia). cbn [firstn]. apply app_nil_r. Qed.

Lemma walk_concat : forall bs fuel rest_ok,
  forallb wf_box bs = true -> (length bs <= fuel)%nat -> rest_ok = tt ->
  walk_boxes fuel (concat bs) = Ok bs.
Proof.
  induction bs as [|b t IH]; intros fuel u H Hf _.
  - destruct fuel; reflexivity.
  - cbn [forallb] in H. apply andb_true_iff in H. destruct H as [Hb Ht].
    destruct (wf_box_parts b Hb) as (H8 & Hsz & H32).
    destruct fuel as [|f]; [cbn in Hf; lia|]. cbn [concat].
    destruct (b ++ concat t) as [|x xs] eqn:Ed.
    { exfalso. apply (f_equal (@length N)) in Ed. rewrite app_length in Ed. unfold lenN in H8. cbn in Ed. lia. }
    rewrite <- Ed. cbn [walk_boxes].
    assert (El : lenN (b ++ concat t) <? 8 = false) by (apply N.ltb_ge; rewrite lenN_app; lia).
    replace (match b ++ concat t with [] => Ok [] | _ :: _ => _ end)
      with (if lenN (b ++ concat t) <? 8 then @Err (list (list N))
            else let sz := be (firstn 4 (b ++ concat t)) in
                 if sz <? 8 then Err else if lenN (b ++ concat t) <? sz then Err
                 else do r <- walk_boxes f (skipn (N.to_nat sz) (b ++ concat t)); Ok (firstn (N.to_nat sz) (b ++ concat t) :: r))
      by (rewrite Ed; reflexivity).
    rewrite El. cbn zeta. rewrite (firstn4_app b (concat t) H8), Hsz.
    assert (E1 : lenN b <? 8 = false) by (apply N.ltb_ge; lia). rewrite E1.
    assert (E2 : lenN (b ++ concat t) <? lenN b = false) by (apply N.ltb_ge; rewrite lenN_app; lia). rewrite E2.
    unfold lenN at 1 2. rewrite Nat2N.id.
    rewrite skipn_app, Nat.sub_diag, skipn_all. cbn [skipn app].
    rewrite firstn_app, Nat.sub_diag, firstn_all. cbn [firstn]. rewrite app_nil_r.
    rewrite (IH f tt Ht ltac:(cbn in Hf; lia) eq_refl). reflexivity.
Qed.

Lemma children_of_concat bs : forallb wf_box bs = true -> children_of (concat bs) = Ok bs.
Proof.
  intros H. unfold children_of. apply (walk_concat bs _ tt H); [|reflexivity].
  assert (Hl : forall l : list (list N), forallb wf_box l = true -> (length l <= length (concat l))%nat).
  { induction l as [|b t IHl]; intros Hw; [cbn; lia|]. cbn [forallb] in Hw. apply andb_true_iff in Hw. destruct Hw as [Hb Ht].
    destruct (wf_box_parts b Hb) as (H8 & _). cbn [concat length]. rewrite app_length. specialize (IHl Ht).
    unfold lenN in H8. lia. }
  specialize (Hl bs H). lia.
Qed.

(* ---------------------------------------------------------------- leaves *)
Lemma frma_codec fmt : fmt < 4294967296 -> frma_decode (frma_encode fmt) = Ok fmt.
Proof.
  intros H. unfold frma_decode, frma_encode. rewrite mkbox_payload, be_bytes4_len, N.eqb_refl. cbn [negb].
  rewrite be_bytes4_be by exact H. reflexivity.
Qed.

Lemma schm_codec sch : sch < 4294967296 -> schm_decode (schm_encode sch) = Ok sch.
Proof.
  intros H. unfold schm_decode, schm_encode. rewrite mkbox_payload.
  rewrite !lenN_app, !be_bytes4_len. cbn [lenN length N.of_nat].
  change (4 + (4 + 4) <? 12) with false. cbn iota. cbn [app firstn skipn].
  change (be [0; 0; 0; 0] mod 16777216) with 0. cbn [N.land N.eqb negb andb].
  unfold be_bytes4 at 1. cbn [app firstn skipn]. unfold be_bytes4. cbn [app firstn].
  change [u8 (sch / 16777216); u8 (sch / 65536); u8 (sch / 256); u8 sch] with (be_bytes4 sch).
  rewrite be_bytes4_be by exact H. reflexivity.
Qed.

Lemma firstn_app_len {A} (a b : list A) n : n = length a -> firstn n (a ++ b) = a.
Proof. intros ->. rewrite firstn_app, Nat.sub_diag, firstn_all. cbn [firstn]. apply app_nil_r. Qed.

Lemma tenc_codec t : tenc_wf t = true -> tenc_decode (tenc_encode t) = Ok t.
Proof.
  unfold tenc_wf. intros H.
  apply andb_true_iff in H. destruct H as [H Hc0]. apply andb_true_iff in H. destruct H as [H Hv0].
  apply andb_true_iff in H. destruct H as [H Hcok]. apply andb_true_iff in H. destruct H as [H Hcl].
  apply andb_true_iff in H. destruct H as [H Hk]. apply andb_true_iff in H. destruct H as [H Hiv].
  apply andb_true_iff in H. destruct H as [H Hip]. apply andb_true_iff in H. destruct H as [H Hsb].
  apply andb_true_iff in H. destruct H as [Hv Hcb].
  apply N.ltb_lt in Hv, Hcb, Hsb, Hip, Hiv, Hk, Hcl.
  destruct t as [v cb sb ip ivs kid civ]. cbn [t_version t_cb t_sb t_isprot t_ivsize t_kid t_constiv] in *.
  unfold tenc_decode, tenc_encode. rewrite mkbox_payload.
  cbn [t_version t_cb t_sb t_isprot t_ivsize t_kid t_constiv].
  set (info := if v =? 0 then 0 else N.lor (u8 (cb * 16)) sb).
  set (tail := if (ip =? 1) && (ivs =? 0) then u8 (lenN civ) :: civ else []).
  assert (Hu8v : u8 v = v) by (unfold u8; apply N.mod_small; exact Hv). rewrite Hu8v.
  cbn [app].
  assert (Hkl : length (be_bytes 16 kid) = 16%nat) by apply be_bytes_length.
  set (X := be_bytes 16 kid ++ tail).
  set (p := v :: 0 :: 0 :: 0 :: 0 :: info :: ip :: ivs :: X).
  assert (Hlen : lenN p = 24 + lenN tail).
  { unfold p, X. rewrite !lenN_cons, lenN_app. unfold lenN at 1. rewrite Hkl. lia. }
  rewrite Hlen. assert (E24 : 24 + lenN tail <? 24 = false) by (apply N.ltb_ge; lia). rewrite E24.
  assert (P1 : firstn 4 p = [v; 0; 0; 0]) by reflexivity.
  assert (P2 : nth 5 p 0 = info) by reflexivity.
  assert (P3 : nth 6 p 0 = ip) by reflexivity.
  assert (P4 : nth 7 p 0 = ivs) by reflexivity.
  assert (P5 : skipn 8 p = X) by reflexivity.
  assert (P6 : nth 24 p 0 = nth 16 X 0) by reflexivity.
  assert (P7 : skipn 25 p = skipn 17 X) by reflexivity.
  rewrite P1, P2, P3, P4, P5, P6, P7. clearbody p. clear P1 P2 P3 P4 P5 P6 P7.
  assert (Hver : be [v; 0; 0; 0] / 16777216 = v).
  { unfold be. cbn [fold_left]. replace (((0 * 256 + v) * 256 + 0) * 256 + 0) with (v * 65536) by lia.
    replace ((v * 65536) * 256 + 0) with (v * 16777216) by lia. apply N.div_mul. discriminate. }
  rewrite Hver.
  assert (Hkid : be (firstn 16 X) = kid).
  { unfold X. rewrite firstn_app_len by (symmetry; exact Hkl). rewrite be_be_bytes. change (256 ^ N.of_nat 16) with M128.
    apply N.mod_small. exact Hk. }
  rewrite Hkid.
  assert (Hcbsb : (if v =? 0 then 0 else info / 16) = cb /\ (if v =? 0 then 0 else info mod 16) = sb).
  { unfold info. destruct (v =? 0) eqn:Ev.
    - cbn [implb] in Hv0. apply andb_true_iff in Hv0. destruct Hv0 as [A B]. apply N.eqb_eq in A, B. subst cb sb. split; reflexivity.
    - assert (Hu : u8 (cb * 16) = cb * 2 ^ 4) by (unfold u8; rewrite N.mod_small; [reflexivity|lia]).
      rewrite Hu, (lor_shifted_add cb sb 4) by (change (2 ^ 4) with 16; exact Hsb). change (2 ^ 4) with 16.
      split; [|rewrite N.add_comm, N.mod_add by discriminate; apply N.mod_small; exact Hsb].
      rewrite N.add_comm, N.div_add by discriminate. rewrite N.div_small by exact Hsb. reflexivity. }
  destruct Hcbsb as [Ecb Esb]. rewrite Ecb, Esb.
  unfold X, tail. destruct ((ip =? 1) && (ivs =? 0)) eqn:Ec.
  - assert (Hu8c : u8 (lenN civ) = lenN civ) by (unfold u8; apply N.mod_small; exact Hcl).
    rewrite lenN_cons. assert (E25 : 24 + (1 + lenN civ) <? 25 = false) by (apply N.ltb_ge; lia). rewrite E25.
    assert (Hn24 : nth 16 (be_bytes 16 kid ++ u8 (lenN civ) :: civ) 0 = lenN civ).
    { rewrite app_nth2 by lia. rewrite Hkl. cbn [Nat.sub nth]. exact Hu8c. }
    rewrite Hn24. assert (E26 : 24 + (1 + lenN civ) <? 25 + lenN civ = false) by (apply N.ltb_ge; lia). rewrite E26.
    assert (Hs : skipn 17 (be_bytes 16 kid ++ u8 (lenN civ) :: civ) = civ).
    { rewrite skipn_app, Hkl. rewrite skipn_all2 by lia. cbn [Nat.sub app skipn]. reflexivity. }
    rewrite Hs. unfold lenN. rewrite Nat2N.id, firstn_all. reflexivity.
  - cbn [orb] in Hc0. apply N.eqb_eq in Hc0. assert (civ = []) by (destruct civ; [reflexivity|unfold lenN in Hc0; cbn in Hc0; lia]).
    subst civ. reflexivity.
Qed.

(* sizes of the boxes InitProtect writes are far below 2^32 *)
Lemma tenc_encode_len t : tenc_wf t = true -> lenN (tenc_encode t) <= 8 + 24 + 1 + 255.
Proof.
  unfold tenc_wf. intros H. repeat (apply andb_true_iff in H; destruct H as [H ?]).
  unfold tenc_encode. rewrite mkbox_len, !lenN_app. cbn [lenN length N.of_nat].
  assert (Hk : lenN (be_bytes 16 (t_kid t)) = 16) by (unfold lenN; rewrite be_bytes_length; reflexivity).
  rewrite Hk. match goal with H : (lenN (t_constiv t) <? 256) = true |- _ => apply N.ltb_lt in H end.
  destruct ((t_isprot t =? 1) && (t_ivsize t =? 0)); [rewrite lenN_cons|change (lenN (@nil N)) with 0]; lia.
Qed.

Lemma schi_codec t : tenc_wf t = true -> schi_decode (schi_encode t) = Ok (Some t).
Proof.
  intros H. unfold schi_decode, schi_encode. rewrite mkbox_payload.
  pose proof (tenc_encode_len t H) as Hl.
  assert (Hw : forallb wf_box [tenc_encode t] = true).
  { cbn [forallb]. rewrite andb_true_r. unfold tenc_encode. apply mkbox_wf. unfold tenc_encode in Hl. rewrite mkbox_len in Hl. lia. }
  pose proof (children_of_concat [tenc_encode t] Hw) as Hc. cbn [concat] in Hc. rewrite app_nil_r in Hc. rewrite Hc.
  cbn [rbind schi_children]. unfold tenc_encode at 1. rewrite mkbox_type by reflexivity. rewrite N.eqb_refl.
  rewrite tenc_codec by exact H. reflexivity.
Qed.

(* parse (encode sinf) = sinf: the sinf InitProtect builds (frma = original sample entry type, schm, schi{tenc}) is read
   back by the decoder with exactly these values *)
Lemma sinf_codec fmt sch t :
  fmt < 4294967296 -> sch < 4294967296 -> tenc_wf t = true ->
  sinf_decode (sinf_encode fmt sch t) = Ok (mkSD (Some fmt) (Some sch) (Some (Some t))).
Proof.
  intros Hf Hs Ht. unfold sinf_decode, sinf_encode. rewrite mkbox_payload.
  pose proof (tenc_encode_len t Ht) as Hl.
  assert (Hw : forallb wf_box [frma_encode fmt; schm_encode sch; schi_encode t] = true).
  { cbn [forallb]. rewrite andb_true_r. apply andb_true_iff. split; [|apply andb_true_iff; split].
    - unfold frma_encode. apply mkbox_wf. rewrite be_bytes4_len. lia.
    - unfold schm_encode. apply mkbox_wf. rewrite !lenN_app, !be_bytes4_len. cbn [lenN length N.of_nat]. lia.
    - unfold schi_encode. apply mkbox_wf. lia. }
  pose proof (children_of_concat _ Hw) as Hc. cbn [concat] in Hc. rewrite app_nil_r in Hc. rewrite Hc.
  cbn [rbind sinf_children].
  unfold frma_encode at 1. rewrite mkbox_type by reflexivity. change (cc_frma =? cc_frma) with true. cbn iota.
  rewrite frma_codec by exact Hf. cbn [rbind sd_schm sd_schi sd_frma].
  unfold schm_encode at 1. rewrite mkbox_type by reflexivity.
  change (cc_schm =? cc_frma) with false. change (cc_schm =? cc_schm) with true. cbn iota.
  rewrite schm_codec by exact Hs. cbn [rbind sd_schm sd_schi sd_frma].
  unfold schi_encode at 1. rewrite mkbox_type by reflexivity.
  change (cc_schi =? cc_frma) with false. change (cc_schi =? cc_schm) with false. change (cc_schi =? cc_schi) with true. cbn iota.
  rewrite schi_codec by exact Ht. reflexivity.
Qed.

Lemma sinf_encode_len fmt sch t : tenc_wf t = true -> lenN (sinf_encode fmt sch t) <= 400.
Proof.
  intros Ht. pose proof (tenc_encode_len t Ht) as Hl.
  unfold sinf_encode, frma_encode, schm_encode, schi_encode. rewrite !mkbox_len, !lenN_app, !mkbox_len, !lenN_app, !be_bytes4_len.
  cbn [lenN length N.of_nat]. lia.
Qed.

(* ---------------------------------------------------------------- the sample entry *)
Definition no_sinf_box (l : list (list N)) : bool := forallb (fun c => negb (box_type c =? cc_sinf)) l.

Lemma last_sinf_box_app l s acc : box_type s = cc_sinf -> last_sinf_box (l ++ [s]) acc = Some s.
Proof.
  intros Hs. revert acc. induction l as [|c t IH]; intros acc.
  - cbn [app last_sinf_box]. rewrite Hs, N.eqb_refl. reflexivity.
  - cbn [app last_sinf_box]. apply IH.
Qed.

Lemma remove_last_sinf_box_app l s : box_type s = cc_sinf -> remove_last_sinf_box (l ++ [s]) = l.
Proof.
  intros Hs. induction l as [|c t IH].
  - cbn [app remove_last_sinf_box existsb]. rewrite Hs, N.eqb_refl. reflexivity.
  - cbn [app remove_last_sinf_box]. rewrite existsb_app. cbn [existsb]. rewrite Hs, N.eqb_refl. cbn [orb].
    rewrite orb_true_r. cbn [negb]. rewrite andb_false_r. f_equal. exact IH.
Qed.

(* decode + RemoveEncryption + encode of the entry InitProtect wrote = the bytes of the clear entry, whatever the
   entry's fixed fields and children (their own sinf boxes included), and the sinf read is the one written: the
   original sample entry type is restored in the BYTES *)
Lemma entry_bytes_roundtrip enc_ty ty fixed children sch t :
  ty < 4294967296 -> sch < 4294967296 -> tenc_wf t = true ->
  forallb wf_box children = true ->
  8 + lenN fixed + lenN (concat children) + 400 < 4294967296 ->
  unprotect_entry_bytes (length fixed) (protect_entry_bytes enc_ty ty fixed children sch t)
  = Ok (entry_bytes ty fixed children, mkSD (Some ty) (Some sch) (Some (Some t))).
Proof.
  intros Hty Hsch Ht Hw Hsz. unfold unprotect_entry_bytes, protect_entry_bytes.
  assert (Hp : box_payload (entry_bytes enc_ty fixed (children ++ [sinf_encode ty sch t]))
               = fixed ++ concat (children ++ [sinf_encode ty sch t])) by (unfold entry_bytes; apply mkbox_payload).
  rewrite Hp.
  assert (E : lenN (fixed ++ concat (children ++ [sinf_encode ty sch t])) <? N.of_nat (length fixed) = false).
  { apply N.ltb_ge. rewrite lenN_app. unfold lenN. lia. }
  rewrite E. rewrite skipn_app, Nat.sub_diag, skipn_all. cbn [skipn app].
  pose proof (sinf_encode_len ty sch t Ht) as Hsl.
  assert (Hws : wf_box (sinf_encode ty sch t) = true).
  { unfold sinf_encode. apply mkbox_wf. unfold sinf_encode in Hsl. rewrite mkbox_len in Hsl. lia. }
  assert (Hw' : forallb wf_box (children ++ [sinf_encode ty sch t]) = true).
  { rewrite forallb_app, Hw. cbn [forallb]. rewrite Hws. reflexivity. }
  rewrite (children_of_concat _ Hw'). cbn [rbind].
  assert (Hst : box_type (sinf_encode ty sch t) = cc_sinf) by (unfold sinf_encode; apply mkbox_type; reflexivity).
  rewrite (last_sinf_box_app children _ None Hst).
  rewrite (sinf_codec ty sch t Hty Hsch Ht). cbn [rbind sd_frma].
  rewrite (remove_last_sinf_box_app children _ Hst).
  rewrite firstn_app_len by reflexivity. reflexivity.
Qed.
