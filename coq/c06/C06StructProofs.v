(* C06StructProofs.v — DecryptFragment's box surgery undoes EncryptFragment's, offsets included. *)
From V.lib Require Import Base.
From V.c06 Require Import C06Model.

Definition is_prot_kind (k : tkind) : bool :=
  match k with TSaiz | TSaio | TSenc | TUuidSenc => true | _ => false end.

(* a clear traf: no protection boxes; uuid boxes that are not senc (tfxd, tfrf, ...) are allowed *)
Definition clean_traf (ch : list tbox) : bool := forallb (fun b => negb (is_prot_kind (tk b))) ch.

Lemma reb_clean ch : clean_traf ch = true -> remove_encryption_boxes ch = (ch, 0).
Proof.
  induction ch as [|b t IH]; intros H; [reflexivity|].
  cbn [clean_traf forallb] in H. apply andb_true_iff in H. destruct H as [Hb Ht].
  cbn [remove_encryption_boxes]. fold (clean_traf t) in Ht. rewrite (IH Ht).
  destruct (tk b); try discriminate; reflexivity.
Qed.

Lemma reb_app a b :
  remove_encryption_boxes (a ++ b) =
  (fst (remove_encryption_boxes a) ++ fst (remove_encryption_boxes b),
   snd (remove_encryption_boxes a) + snd (remove_encryption_boxes b)).
Proof.
  induction a as [|x t IH]; [cbn; destruct (remove_encryption_boxes b); reflexivity|].
  cbn [app remove_encryption_boxes]. rewrite IH.
  destruct (remove_encryption_boxes t) as [rt nt]. destruct (remove_encryption_boxes b) as [rb nb].
  cbn [fst snd]. destruct (tk x); cbn [fst snd app]; f_equal; try reflexivity; lia.
Qed.

(* exactly the three boxes EncryptFragment appended are removed, and their sizes counted *)
Lemma reb_encrypted ch saiz_sz senc_sz ids :
  clean_traf ch = true ->
  remove_encryption_boxes (ch ++ [mkT TSaiz saiz_sz ids; mkT TSaio 20 (ids + 1); mkT TSenc senc_sz (ids + 2)])
  = (ch, saiz_sz + 20 + senc_sz).
Proof.
  intros H. rewrite reb_app, (reb_clean ch H). cbn [remove_encryption_boxes tk tsize fst snd app].
  rewrite app_nil_r. f_equal. lia.
Qed.

(* moof children of a clear single-traf fragment: one traf, clean; no pssh *)
Fixpoint clean_moof (cs : list mchild) : bool :=
  match cs with
  | [] => true
  | MTraf ch :: t => clean_traf ch && clean_moof t
  | MPssh _ _ :: _ => false
  | MOther _ _ :: t => clean_moof t
  end.

Fixpoint nr_trafs (cs : list mchild) : nat :=
  match cs with [] => 0 | MTraf _ :: t => S (nr_trafs t) | _ :: t => nr_trafs t end.

Lemma strip_clean cs : clean_moof cs = true -> strip_trafs cs = (cs, 0).
Proof.
  induction cs as [|c t IH]; intros H; [reflexivity|].
  destruct c as [ch|s i|s i]; cbn [clean_moof] in H; [|discriminate|].
  - apply andb_true_iff in H. destruct H as [H1 H2]. cbn [strip_trafs].
    rewrite (reb_clean ch H1), (IH H2). reflexivity.
  - cbn [strip_trafs]. rewrite (IH H). reflexivity.
Qed.

Lemma strip_encrypted cs saiz_sz senc_sz ids :
  clean_moof cs = true -> nr_trafs cs = 1%nat ->
  strip_trafs (add_enc_boxes cs saiz_sz senc_sz ids) = (cs, saiz_sz + 20 + senc_sz).
Proof.
  induction cs as [|c t IH]; intros H Hn; [discriminate|].
  destruct c as [ch|s i|s i]; cbn [clean_moof] in H; [|discriminate|].
  - apply andb_true_iff in H. destruct H as [H1 H2].
    cbn [add_enc_boxes strip_trafs]. rewrite (reb_encrypted ch _ _ _ H1), (strip_clean t H2). f_equal. lia.
  - cbn [nr_trafs] in Hn. cbn [add_enc_boxes strip_trafs]. rewrite (IH H Hn). reflexivity.
Qed.

Lemma no_pssh_clean cs : clean_moof cs = true -> existsb is_pssh cs = false.
Proof.
  induction cs as [|c t IH]; intros H; [reflexivity|].
  destruct c as [ch|s i|s i]; cbn [clean_moof] in H; [|discriminate|]; cbn [existsb is_pssh orb].
  - apply andb_true_iff in H. apply IH. apply H.
  - apply IH. exact H.
Qed.

Lemma moof_size_encrypted cs saiz_sz senc_sz ids :
  nr_trafs cs = 1%nat ->
  moof_size (add_enc_boxes cs saiz_sz senc_sz ids) = moof_size cs + (saiz_sz + 20 + senc_sz).
Proof.
  unfold moof_size. induction cs as [|c t IH]; intros Hn; [discriminate|].
  destruct c as [ch|s i|s i]; cbn [add_enc_boxes map sumN mchild_size nr_trafs] in *.
  - unfold traf_size. rewrite map_app, sumN_app. cbn [map sumN tsize]. lia.
  - specialize (IH Hn). lia.
  - specialize (IH Hn). lia.
Qed.

(* structural round trip: encrypt, encode+decode at `start`, decrypt == encode+decode of the clear fragment:
   same children in the same order (uuid/unknown boxes included), data offset and mdat position those of the
   clear layout, i.e. still pointing at the sample bytes *)
Lemma fragment_struct_roundtrip start cs mdat_hdr saiz_sz senc_sz ids :
  clean_moof cs = true -> nr_trafs cs = 1%nat ->
  decrypt_frag_struct (layout start (add_enc_boxes cs saiz_sz senc_sz ids) mdat_hdr)
  = Ok (layout start cs mdat_hdr).
Proof.
  intros Hc Hn. unfold decrypt_frag_struct, layout. cbn [f_children f_data_offset f_mdat_start f_moof_start].
  rewrite (strip_encrypted cs _ _ _ Hc Hn).
  unfold remove_psshs. rewrite (no_pssh_clean cs Hc).
  rewrite (moof_size_encrypted cs _ _ _ Hn).
  set (r := saiz_sz + 20 + senc_sz). set (m := moof_size cs).
  assert (Hm : 8 <= m) by (unfold m, moof_size; lia).
  assert (E1 : (m + r + mdat_hdr <? r + 0) = false) by (apply N.ltb_ge; lia).
  assert (E2 : (start <? start + (m + r)) = true) by (apply N.ltb_lt; lia).
  rewrite E1, E2. f_equal. f_equal; lia.
Qed.

(* the defect of the pinned text: a traf {tfhd, tfxd-uuid} loses its uuid box, no byte is counted *)
Lemma uuid_dropped_pinned :
  remove_encryption_boxes_pinned [mkT TOther 16 1; mkT TUuidOther 44 2] = ([mkT TOther 16 1], 0).
Proof. reflexivity. Qed.

(* the repaired text keeps every non-protection box, in order, and counts exactly the removed sizes *)
Lemma reb_general ch :
  fst (remove_encryption_boxes ch) = filter (fun b => negb (is_prot_kind (tk b))) ch /\
  snd (remove_encryption_boxes ch) = sumN (map tsize (filter (fun b => is_prot_kind (tk b)) ch)).
Proof.
  induction ch as [|b t [IH1 IH2]]; [split; reflexivity|].
  cbn [remove_encryption_boxes filter]. destruct (remove_encryption_boxes t) as [r n]. cbn [fst snd] in *.
  destruct (tk b); cbn [is_prot_kind negb fst snd map sumN]; rewrite ?IH1, ?IH2; split; reflexivity.
Qed.

(* ---------------------------------------------------------------- any decodable encrypted fragment *)
Lemma reb_size ch :
  sumN (map tsize (fst (remove_encryption_boxes ch))) + snd (remove_encryption_boxes ch) = sumN (map tsize ch).
Proof.
  induction ch as [|b t IH]; [reflexivity|].
  cbn [remove_encryption_boxes]. destruct (remove_encryption_boxes t) as [r n]. cbn [fst snd] in *.
  destruct (tk b); cbn [fst snd map sumN]; lia.
Qed.

Lemma strip_size cs :
  sumN (map mchild_size (fst (strip_trafs cs))) + snd (strip_trafs cs) = sumN (map mchild_size cs).
Proof.
  induction cs as [|c t IH]; [reflexivity|].
  destruct c as [ch|s i|s i]; cbn [strip_trafs].
  - pose proof (reb_size ch) as Hr. destruct (remove_encryption_boxes ch) as [ch' n].
    destruct (strip_trafs t) as [r m]. cbn [fst snd map sumN mchild_size] in *. unfold traf_size. lia.
  - destruct (strip_trafs t) as [r m]. cbn [fst snd map sumN mchild_size] in *. lia.
  - destruct (strip_trafs t) as [r m]. cbn [fst snd map sumN mchild_size] in *. lia.
Qed.

Lemma filter_split_size (f : mchild -> bool) cs :
  sumN (map mchild_size (filter (fun c => negb (f c)) cs)) + sumN (map mchild_size (filter f cs))
  = sumN (map mchild_size cs).
Proof.
  induction cs as [|c t IH]; [reflexivity|]. cbn [filter]. destruct (f c); cbn [negb map sumN]; lia.
Qed.

Lemma psshs_size cs :
  sumN (map mchild_size (fst (remove_psshs cs))) + snd (remove_psshs cs) = sumN (map mchild_size cs).
Proof.
  unfold remove_psshs. destruct (existsb is_pssh cs); cbn [fst snd]; [apply filter_split_size|lia].
Qed.

(* for ANY fragment (third-party content included): when DecryptFragment's surgery succeeds, the trun data offset
   and the mdat position move by exactly the number of bytes the moof shrinks, so the offset still designates the
   same mdat bytes; nothing else of the fragment is touched by the surgery *)
Lemma decrypt_struct_general f g :
  decrypt_frag_struct f = Ok g ->
  f_moof_start g = f_moof_start f /\
  moof_size (f_children g) + (f_data_offset f - f_data_offset g) = moof_size (f_children f) /\
  f_data_offset g <= f_data_offset f /\
  (f_moof_start f < f_mdat_start f ->
   f_mdat_start g + (f_data_offset f - f_data_offset g) = f_mdat_start f \/ f_mdat_start f < f_data_offset f - f_data_offset g).
Proof.
  unfold decrypt_frag_struct.
  pose proof (strip_size (f_children f)) as H1.
  destruct (strip_trafs (f_children f)) as [cs1 n1]. cbn [fst snd] in H1.
  pose proof (psshs_size cs1) as H2.
  destruct (remove_psshs cs1) as [cs2 n2]. cbn [fst snd] in H2.
  destruct (f_data_offset f <? n1 + n2) eqn:E; [discriminate|]. apply N.ltb_ge in E.
  intros H. injection H as <-. cbn [f_moof_start f_children f_data_offset f_mdat_start].
  unfold moof_size. split; [reflexivity|]. split; [lia|]. split; [lia|].
  intros Hlt. apply N.ltb_lt in Hlt. rewrite Hlt. lia.
Qed.

(* ---------------------------------------------------------------- protection signalling vs everything else *)
(* is_protection_box looks at the grouping type of sbgp / sgpd.  What RemoveEncryptionBoxes removes is protection
   signalling (removed kinds are a subset), so every box that is NOT protection signalling - sample groups roll / rap
   / sync / alst / ..., subs, tfxd / tfrf, unknown boxes - is kept, in order, unchanged *)
Lemma prot_kind_is_protection k : is_prot_kind k = true -> is_protection_box k = true.
Proof. destruct k; try discriminate; reflexivity. Qed.

Lemma filter_filter_sub {A} (f g : A -> bool) l :
  (forall x, f x = true -> g x = true) -> filter f (filter g l) = filter f l.
Proof.
  intros H. induction l as [|x t IH]; [reflexivity|]. cbn [filter].
  destruct (g x) eqn:Eg; cbn [filter]; [rewrite IH; reflexivity|].
  destruct (f x) eqn:Ef; [rewrite (H x Ef) in Eg; discriminate|exact IH].
Qed.

Lemma reb_keeps_nonprotection ch :
  filter (fun b => negb (is_protection_box (tk b))) (fst (remove_encryption_boxes ch))
  = filter (fun b => negb (is_protection_box (tk b))) ch /\
  (forall b, In b ch -> is_protection_box (tk b) = false -> In b (fst (remove_encryption_boxes ch))) /\
  (forall b, In b (fst (remove_encryption_boxes ch)) -> In b ch) /\
  sumN (map tsize (fst (remove_encryption_boxes ch))) + snd (remove_encryption_boxes ch) = sumN (map tsize ch).
Proof.
  destruct (reb_general ch) as [H1 _]. rewrite H1. split; [|split; [|split]].
  - apply filter_filter_sub. intros b Hb. destruct (is_prot_kind (tk b)) eqn:E; [|reflexivity].
    rewrite (prot_kind_is_protection _ E) in Hb. discriminate.
  - intros b Hin Hb. apply filter_In. split; [exact Hin|].
    destruct (is_prot_kind (tk b)) eqn:E; [|reflexivity]. rewrite (prot_kind_is_protection _ E) in Hb. discriminate.
  - intros b Hin. apply filter_In in Hin. apply Hin.
  - rewrite <- H1. apply reb_size.
Qed.

(* the variant that removes every sbgp / sgpd whatever the grouping type drops a box that is not protection
   signalling: traf {tfhd, trun, sbgp(roll), sgpd(roll)} *)
Definition cc_roll : N := 1919904876.
Lemma drop_all_groups_refuted :
  let ch := [mkT TOther 16 1; mkT TTrun 32 2; mkT (TSbgp cc_roll) 28 3; mkT (TSgpd cc_roll) 26 4] in
  filter (fun b => negb (is_protection_box (tk b))) (fst (remove_encryption_boxes_allgroups ch))
  <> filter (fun b => negb (is_protection_box (tk b))) ch /\
  fst (remove_encryption_boxes ch) = ch.
Proof. split; [vm_compute; discriminate|reflexivity]. Qed.
