(* C06SampleProofs.v — decryptSamplesInPlace uses, for every sample, the IV and sub-sample map EncryptFragment
   stored for it (C06_iv_sequence), hence restores every sample. *)
From V.lib Require Import Base.
From V.c07 Require Import C07Model C07IvProofs.
From V.c06 Require Import C06Model C06CencProofs C06CbcsProofs.

Lemma copy_into_same dst src : length src = length dst -> copy_into dst src = src.
Proof.
  intros H. unfold copy_into. rewrite <- H, firstn_all, H, skipn_all. apply app_nil_r.
Qed.

Lemma nth_res_some {A} (l : list A) i x : nth_error l i = Some x -> nth_res l i = Ok x.
Proof. intros H. unfold nth_res. rewrite H. reflexivity. Qed.

Lemma Ok_inj' {A} (x y : A) : Ok x = Ok y -> x = y.
Proof. intros H. injection H. auto. Qed.

Section Samples.
  Variable E : list N -> list N -> list N.
  Variable D : list N -> list N -> list N.
  Variable protfunc : list N -> res (list ssp).
  Variable key : list N.

  (* what the cenc encrypt loop guarantees per sample *)
  Definition enc_rel (s : list N) (e : enc_sample) : Prop :=
    crypt_sample_cenc E key (e_iv e) (e_ssps e) s = Ok (e_data e) /\ length (e_iv e) = 16%nat.

  Lemma encrypt_samples_cenc_rel : forall samples iv encs,
    length iv = 16%nat ->
    encrypt_samples_cenc E protfunc key iv samples = Ok encs -> Forall2 enc_rel samples encs.
  Proof.
    induction samples as [|s t IH]; intros iv encs Hl H.
    - cbn in H. apply Ok_inj' in H. subst. constructor.
    - cbn [encrypt_samples_cenc] in H.
      destruct (protfunc s) as [ssps| | |]; try discriminate. cbn [rbind] in H.
      destruct (crypt_sample_cenc E key iv ssps s) as [c| | |] eqn:Ec; try discriminate. cbn [rbind] in H.
      destruct (encrypt_samples_cenc E protfunc key (increment_iv iv ssps (lenN s)) t) as [r| | |] eqn:Er;
        try discriminate.
      cbn [rbind] in H. apply Ok_inj' in H. subst encs. constructor.
      + split; [exact Ec|exact Hl].
      + apply (IH _ _ ltac:(unfold increment_iv; rewrite increment_iv_inplace_length; exact Hl) Er).
  Qed.

  (* the sub-sample list the decoder hands over for sample number i+j is the one stored for it *)
  Definition subs_ok (subs : list (list ssp)) (i : nat) (l : list enc_sample) : Prop :=
    forall j e, nth_error l j = Some e ->
      match subs with [] => e_ssps e = [] | _ => nth_error subs (i + j) = Some (e_ssps e) end.

  Lemma dec_loop_cenc cb sb ivs subs : forall samples l,
    Forall2 enc_rel samples l ->
    forall i ivbuf, length ivbuf = 16%nat ->
    (forall j e, nth_error l j = Some e -> nth_error ivs (i + j) = Some (e_iv e)) ->
    subs_ok subs i l ->
    dec_loop E D Cenc key cb sb ivs subs true i ivbuf (map e_data l) = Ok samples.
  Proof.
    induction 1 as [|s e samples l [Hc Hl] _ IH]; intros i ivbuf Hb Hiv Hsub; [reflexivity|].
    cbn [map dec_loop].
    pose proof (Hiv 0%nat e eq_refl) as H0. rewrite Nat.add_0_r in H0.
    rewrite (nth_res_some _ _ _ H0). cbn [rbind].
    assert (H16 : (lenN (e_iv e) <? 16) = false) by (apply N.ltb_ge; unfold lenN; rewrite Hl; reflexivity).
    rewrite H16, copy_into_same by lia.
    assert (Hss : match subs with [] => Ok [] | _ => nth_res subs i end = Ok (e_ssps e)).
    { pose proof (Hsub 0%nat e eq_refl) as H1. destruct subs as [|x y]; [rewrite H1; reflexivity|].
      rewrite Nat.add_0_r in H1. apply nth_res_some. exact H1. }
    rewrite Hss. cbn [rbind].
    rewrite (crypt_sample_cenc_involution E key _ _ _ _ Hc). cbn [rbind].
    rewrite (IH (S i) (e_iv e) Hl).
    - reflexivity.
    - intros j e' Hj. replace (S i + j)%nat with (i + S j)%nat by lia. apply Hiv. exact Hj.
    - intros j e' Hj. specialize (Hsub (S j) e' Hj). destruct subs; [exact Hsub|].
      replace (S i + j)%nat with (i + S j)%nat by lia. exact Hsub.
  Qed.

  Lemma decoded_subs_ok l : subs_ok (decoded_subs l) 0 l.
  Proof.
    unfold subs_ok, decoded_subs. intros j e Hj.
    destruct (existsb (fun e => match e_ssps e with [] => false | _ => true end) l) eqn:Ex.
    - destruct l as [|a t]; [destruct j; discriminate|]. cbn [map].
      change (a :: t) with (a :: t) in Hj. cbn [Nat.add].
      rewrite <- (map_cons e_ssps a t). apply map_nth_error. exact Hj.
    - assert (Hall : forall x, In x l -> e_ssps x = []).
      { intros x Hx. destruct (e_ssps x) eqn:Es; [reflexivity|].
        assert (existsb (fun e => match e_ssps e with [] => false | _ => true end) l = true).
        { apply existsb_exists. exists x. split; [exact Hx|rewrite Es; reflexivity]. }
        congruence. }
      apply Hall. apply nth_error_In with j. exact Hj.
  Qed.

  (* cenc: the decrypted samples are the clear ones; in particular sample i is decrypted with the IV stored for
     sample i (the 16-byte IV buffer is overwritten by senc.IVs[i] before every sample) *)
  Lemma samples_roundtrip_cenc iv samples encs cb sb constiv :
    length iv = 16%nat ->
    encrypt_samples_cenc E protfunc key iv samples = Ok encs ->
    decrypt_samples E D Cenc key constiv cb sb (decoded_ivs encs) (decoded_subs encs) (map e_data encs)
    = Ok samples.
  Proof.
    intros Hl Henc. pose proof (encrypt_samples_cenc_rel samples iv encs Hl Henc) as HR.
    unfold decrypt_samples.
    destruct encs as [|e0 t].
    - inversion HR; subst. reflexivity.
    - assert (Hivs : decoded_ivs (e0 :: t) = map e_iv (e0 :: t)).
      { unfold decoded_ivs. inversion HR as [|? ? ? ? [_ H16] _]; subst.
        cbn [existsb]. unfold lenN. rewrite H16. reflexivity. }
      rewrite Hivs, !map_length, Nat.eqb_refl.
      apply dec_loop_cenc; try exact HR.
      + unfold copy_into. rewrite app_length, firstn_length, skipn_length, repeat_length. lia.
      + intros j e Hj. cbn [Nat.add]. apply map_nth_error. exact Hj.
      + apply decoded_subs_ok.
  Qed.
End Samples.

Section SamplesCbcs.
  Variable E : list N -> list N -> list N.
  Variable D : list N -> list N -> list N.
  Variable protfunc : list N -> res (list ssp).
  Variable key iv : list N.
  Variable cb sb : N.
  Hypothesis HE : forall k b, length (E k b) = 16%nat.
  Hypothesis HD : forall k b, length (D k b) = 16%nat.
  Hypothesis HDE : forall k b, length b = 16%nat -> D k (E k b) = b.
  Hypothesis Hkey : key_ok key = true.
  Hypothesis Hiv : length iv = 16%nat.

  Definition fits (s : list N) (ssps : list ssp) : Prop :=
    sumN (map (fun p => ss_clear p + ss_prot p) ssps) <= lenN s /\ lenN s < 4294967296.

  Definition enc_rel_cbcs (s : list N) (e : enc_sample) : Prop :=
    crypt_sample_cbcs E D false key iv (e_ssps e) cb sb s = Ok (e_data e) /\ e_iv e = [] /\ fits s (e_ssps e).

  Lemma encrypt_samples_cbcs_rel : forall samples encs,
    encrypt_samples_cbcs E D protfunc key iv cb sb samples = Ok encs ->
    (forall s ssps, In s samples -> protfunc s = Ok ssps -> fits s ssps) ->
    Forall2 enc_rel_cbcs samples encs.
  Proof.
    induction samples as [|s t IH]; intros encs H Hfit.
    - cbn in H. apply Ok_inj' in H. subst. constructor.
    - cbn [encrypt_samples_cbcs] in H.
      destruct (protfunc s) as [ssps| | |] eqn:Ep; try discriminate. cbn [rbind] in H.
      destruct (crypt_sample_cbcs E D false key iv ssps cb sb s) as [c| | |] eqn:Ec; try discriminate.
      cbn [rbind] in H.
      destruct (encrypt_samples_cbcs E D protfunc key iv cb sb t) as [r| | |] eqn:Er; try discriminate.
      cbn [rbind] in H. apply Ok_inj' in H. subst encs. constructor.
      + split; [exact Ec|]. split; [reflexivity|]. apply Hfit; [left; reflexivity|exact Ep].
      + apply IH; [reflexivity|]. intros s' ss' Hin. apply Hfit. right. exact Hin.
  Qed.

  Lemma dec_loop_cbcs ivs subs : forall samples l,
    Forall2 enc_rel_cbcs samples l ->
    forall i, subs_ok subs i l ->
    dec_loop E D Cbcs key cb sb ivs subs false i iv (map e_data l) = Ok samples.
  Proof.
    induction 1 as [|s e samples l (Hc & _ & Hf1 & Hf2) _ IH]; intros i Hsub; [reflexivity|].
    cbn [map dec_loop rbind].
    assert (Hss : match subs with [] => Ok [] | _ => nth_res subs i end = Ok (e_ssps e)).
    { pose proof (Hsub 0%nat e eq_refl) as H1. destruct subs as [|x y]; [rewrite H1; reflexivity|].
      rewrite Nat.add_0_r in H1. apply nth_res_some. exact H1. }
    rewrite Hss. cbn [rbind].
    rewrite (crypt_sample_cbcs_inverse E D key HE HD HDE iv (e_ssps e) cb sb s (e_data e) Hkey Hiv Hf1 Hf2 Hc).
    cbn [rbind]. rewrite (IH (S i)); [reflexivity|].
    intros j e' Hj. specialize (Hsub (S j) e' Hj). destruct subs; [exact Hsub|].
    replace (S i + j)%nat with (i + S j)%nat by lia. exact Hsub.
  Qed.

  (* cbcs: no per-sample IVs are stored; the decrypt side uses tenc's constant IV (= the padded encryption IV) *)
  Lemma samples_roundtrip_cbcs samples encs :
    encrypt_samples_cbcs E D protfunc key iv cb sb samples = Ok encs ->
    (forall s ssps, In s samples -> protfunc s = Ok ssps -> fits s ssps) ->
    decrypt_samples E D Cbcs key iv cb sb (decoded_ivs encs) (decoded_subs encs) (map e_data encs) = Ok samples.
  Proof.
    intros Henc Hfit. pose proof (encrypt_samples_cbcs_rel samples encs Henc Hfit) as HR.
    unfold decrypt_samples.
    assert (Hivs : decoded_ivs encs = []).
    { unfold decoded_ivs.
      assert (Hex : existsb (fun e => negb (lenN (e_iv e) =? 0)) encs = false).
      { clear Henc Hfit. induction HR as [|s e ss l (_ & Hz & _) _ IH]; [reflexivity|].
        cbn [existsb]. rewrite Hz. cbn. exact IH. }
      rewrite Hex. reflexivity. }
    rewrite Hivs, copy_into_same by (rewrite repeat_length; exact Hiv).
    destruct encs as [|e0 t].
    - inversion HR; subst. reflexivity.
    - cbn [length map Nat.eqb]. change (e_data e0 :: map e_data t) with (map e_data (e0 :: t)).
      apply dec_loop_cbcs; [exact HR|apply decoded_subs_ok].
  Qed.
End SamplesCbcs.
