(* C06InitModel.v — InitProtect / DecryptInit (mp4/crypto.go), VisualSampleEntryBox/AudioSampleEntryBox
   .RemoveEncryption, MoovBox.RemovePsshs on an abstract init segment: moov children (trak with its stsd
   entries, pssh, other), sample entry = (kind, type, children), sinf = (frma, schm, tenc).  Boxes that are not
   named are opaque identities.  Definitions only. *)
From V.lib Require Import Base.
From V.c07 Require Import C07Model.

(* four-character codes as their 32-bit values *)
Definition cc_encv : N := 1701733238.  Definition cc_enca : N := 1701733217.
Definition cc_avc1 : N := 1635148593.  Definition cc_avc3 : N := 1635148595.
Definition cc_hvc1 : N := 1752589105.  Definition cc_hev1 : N := 1751479857.
Definition cc_cenc : N := 1667591779.  Definition cc_cbcs : N := 1667392371.

Record tenc_t := mkTenc { t_version : N; t_cb : N; t_sb : N; t_isprot : N; t_ivsize : N; t_kid : N;
                          t_constiv : list N }.
Record sinf_t := mkSinf { si_frma : N; si_schm : option N; si_tenc : option tenc_t }.
Inductive sechild := SEOther (id : N) | SESinf (s : sinf_t).
Inductive sekind := SVisual | SAudio | SOtherKind.
Record sentry := mkSE { se_kind : sekind; se_type : N; se_children : list sechild }.
Inductive mvchild := MVTrak (stsd : list sentry) | MVPssh (id : N) | MVOther (id : N).

Definition traks_of (m : list mvchild) : list (list sentry) :=
  flat_map (fun c => match c with MVTrak s => [s] | _ => [] end) m.

Definition supported_visual (t : N) : bool :=
  (t =? cc_avc1) || (t =? cc_avc3) || (t =? cc_hvc1) || (t =? cc_hev1).

(* the sample-entry part of InitProtect; ps_ok = the parameter sets of avcC/hvcC parse (getAVCProtFunc) *)
Definition protect_entry (se : sentry) (iv : list N) (sch kid : N) (ps_ok : bool) : res (sentry * tenc_t) :=
  do u <- (match se_kind se with
           | SVisual => if supported_visual (se_type se) && ps_ok then Ok tt else Err
           | SAudio => Ok tt
           | SOtherKind => Err
           end);
  do t <- (if sch =? cc_cenc then Ok (mkTenc 0 0 0 1 16 kid [])
           else if sch =? cc_cbcs then
             match se_kind se with
             | SVisual => Ok (mkTenc 1 1 9 1 0 kid iv)
             | _ => Ok (mkTenc 1 0 0 1 0 kid iv)
             end
           else Err);
  Ok (mkSE (se_kind se) (match se_kind se with SVisual => cc_encv | _ => cc_enca end)
           (se_children se ++ [SESinf (mkSinf (se_type se) (Some sch) (Some t))]), t).

Fixpoint replace_trak (m : list mvchild) (s : list sentry) : list mvchild :=
  match m with
  | [] => []
  | MVTrak _ :: t => MVTrak s :: t
  | c :: t => c :: replace_trak t s
  end.

(* func InitProtect(init, key, iv, scheme, kid, psshBoxes) *)
Definition init_protect (m : list mvchild) (iv : list N) (sch kid : N) (psshs : list N) (ps_ok : bool)
  : res (list mvchild * tenc_t) :=
  match traks_of m with
  | [[se]] =>
      do r <- protect_entry se (pad_iv iv) sch kid ps_ok;
      Ok (replace_trak m [fst r] ++ map MVPssh psshs, snd r)
  | _ => Err
  end.

Definition is_sinf (c : sechild) : bool := match c with SESinf _ => true | _ => false end.

Fixpoint remove_first_sinf (l : list sechild) : list sechild :=
  match l with
  | [] => []
  | c :: t => if is_sinf c then t else c :: remove_first_sinf t
  end.

(* text after the fix commit: the sinf that is removed is the one that is returned, b.Sinf = the LAST sinf child *)
Fixpoint remove_last_sinf (l : list sechild) : list sechild :=
  match l with
  | [] => []
  | c :: t => if is_sinf c && negb (existsb is_sinf t) then t else c :: remove_last_sinf t
  end.

(* b.Sinf is the LAST sinf child added *)
Fixpoint last_sinf (l : list sechild) (acc : option sinf_t) : option sinf_t :=
  match l with
  | [] => acc
  | SESinf s :: t => last_sinf t (Some s)
  | _ :: t => last_sinf t acc
  end.

(* (Visual|Audio)SampleEntryBox.RemoveEncryption, as used by DecryptInit on an entry named encv / enca (text
   after the fix: the returned sinf is the one removed) *)
Definition remove_encryption (se : sentry) : res (sentry * sinf_t) :=
  match last_sinf (se_children se) None with
  | None => Err
  | Some s => Ok (mkSE (se_kind se) (si_frma s) (remove_last_sinf (se_children se)), s)
  end.

(* the pinned text: the FIRST sinf child is removed, frma / schm / tenc are read from the LAST *)
Definition remove_encryption_pinned (se : sentry) : res (sentry * sinf_t) :=
  match last_sinf (se_children se) None with
  | None => Err
  | Some s => Ok (mkSE (se_kind se) (si_frma s) (remove_first_sinf (se_children se)), s)
  end.

Definition track_info := option (N * option tenc_t).   (* None: track in the clear *)

(* the stsd loop of DecryptInit for one trak: new entries, track infos, last scheme type seen (0 = "") *)
Fixpoint decrypt_entries (l : list sentry) : res (list sentry * list track_info * N) :=
  match l with
  | [] => Ok ([], [], 0)
  | se :: t =>
      if (se_type se =? cc_encv) || (se_type se =? cc_enca) then
        do r <- remove_encryption se;
        match si_schm (snd r) with
        | None => Panic                      (* sinf.Schm.SchemeType on a nil schm *)
        | Some sc =>
            do q <- decrypt_entries t;
            let '(es, tis, last) := q in
            Ok (fst r :: es, Some (sc, si_tenc (snd r)) :: tis, if last =? 0 then sc else last)
        end
      else
        do q <- decrypt_entries t;
        let '(es, tis, last) := q in Ok (se :: es, tis, last)
  end.

Fixpoint decrypt_traks (m : list mvchild) : res (list mvchild * list track_info) :=
  match m with
  | [] => Ok ([], [])
  | MVTrak s :: t =>
      do r <- decrypt_entries s;
      let '(es, tis, last) := r in
      if negb (last =? 0) && negb (last =? cc_cenc) && negb (last =? cc_cbcs) then Err
      else
        do q <- decrypt_traks t;
        Ok (MVTrak es :: fst q, (if last =? 0 then tis ++ [None] else tis) ++ snd q)
  | c :: t => do q <- decrypt_traks t; Ok (c :: fst q, snd q)
  end.

Definition is_mvpssh (c : mvchild) : bool := match c with MVPssh _ => true | _ => false end.

(* func DecryptInit(init): the moov after RemoveEncryption + RemovePsshs, and the track infos *)
Definition decrypt_init (m : list mvchild) : res (list mvchild * list track_info) :=
  do r <- decrypt_traks m;
  Ok (filter (fun c => negb (is_mvpssh c)) (fst r), snd r).
