(* C06EntryProofs.v — DecryptInit restores every sample entry of every track. *)
From V.lib Require Import Base.
From V.c07 Require Import C07Model.
From V.c06 Require Import C06InitModel C06InitProofs C06EntryModel.

Lemma Ok_inj_e {A} (x y : A) : Ok x = Ok y -> x = y.
Proof. intros H. injection H. auto. Qed.

Definition sch_ok (sch : N) : bool := (sch =? cc_cenc) || (sch =? cc_cbcs).

(* one entry: protect_entry then RemoveEncryption gives the entry back, with its 4cc from frma and all children
   (whatever they are) in place, and the sinf that was added *)
Lemma protect_entry_shape se iv sch kid ps_ok se' t :
  protect_entry se iv sch kid ps_ok = Ok (se', t) ->
  ((se_type se' =? cc_encv) || (se_type se' =? cc_enca)) = true /\
  se' = mkSE (se_kind se) (se_type se') (se_children se ++ [SESinf (mkSinf (se_type se) (Some sch) (Some t))]) /\
  sch_ok sch = true.
Proof.
  unfold protect_entry. intros H.
  destruct (match se_kind se with
            | SVisual => if supported_visual (se_type se) && ps_ok then Ok tt else Err
            | SAudio => Ok tt | SOtherKind => Err end) as [u| | |] eqn:Eu; try discriminate.
  cbn [rbind] in H.
  destruct (if sch =? cc_cenc then Ok (mkTenc 0 0 0 1 16 kid [])
            else if sch =? cc_cbcs then match se_kind se with
                                        | SVisual => Ok (mkTenc 1 1 9 1 0 kid iv)
                                        | _ => Ok (mkTenc 1 0 0 1 0 kid iv) end
            else Err) as [t0| | |] eqn:Et; try discriminate.
  cbn [rbind] in H. apply Ok_inj_e in H. injection H as <- <-.
  assert (Hs : sch_ok sch = true).
  { unfold sch_ok. destruct (sch =? cc_cenc); [reflexivity|]. destruct (sch =? cc_cbcs); [reflexivity|discriminate]. }
  cbn [se_type se_kind]. split; [|split; [reflexivity|exact Hs]].
  destruct (se_kind se); try discriminate; reflexivity.
Qed.

Lemma remove_encryption_protect se iv sch kid ps_ok se' t :
  protect_entry se iv sch kid ps_ok = Ok (se', t) ->
  remove_encryption se' = Ok (se, mkSinf (se_type se) (Some sch) (Some t)).
Proof.
  intros H. destruct (protect_entry_shape _ _ _ _ _ _ _ H) as [_ [-> _]].
  unfold remove_encryption. cbn [se_children se_kind]. rewrite last_sinf_app, remove_last_sinf_app.
  cbn [si_frma]. destruct se; reflexivity.
Qed.

(* one stsd: every entry restored, one track info per entry, scheme = sch *)
Lemma decrypt_entries_protect iv sch kid ps_ok : forall l l' ts,
  protect_entries l iv sch kid ps_ok = Ok (l', ts) ->
  decrypt_entries l' = Ok (l, map (fun t => Some (sch, Some t)) ts, match l with [] => 0 | _ => sch end).
Proof.
  induction l as [|se t IH]; intros l' ts H.
  - cbn [protect_entries] in H. apply Ok_inj_e in H. injection H as <- <-. reflexivity.
  - cbn [protect_entries] in H.
    destruct (protect_entry se iv sch kid ps_ok) as [[se' t1]| | |] eqn:Ep; try discriminate. cbn [rbind fst snd] in H.
    destruct (protect_entries t iv sch kid ps_ok) as [[t' ts']| | |] eqn:Eq; try discriminate. cbn [rbind fst snd] in H.
    apply Ok_inj_e in H. injection H as <- <-.
    destruct (protect_entry_shape _ _ _ _ _ _ _ Ep) as [Hty [_ Hs]].
    cbn [decrypt_entries]. rewrite Hty, (remove_encryption_protect _ _ _ _ _ _ _ Ep). cbn [rbind snd fst si_schm si_tenc].
    rewrite (IH t' ts' eq_refl). cbn [rbind map]. f_equal. f_equal.
    destruct t; [rewrite N.eqb_refl; reflexivity|].
    assert (Hz : sch =? 0 = false).
    { unfold sch_ok in Hs. apply orb_true_iff in Hs. destruct Hs as [Hs|Hs]; apply N.eqb_eq in Hs; subst sch; reflexivity. }
    rewrite Hz. reflexivity.
Qed.

Definition entries_no_sinf (m : list mvchild) : bool :=
  forallb (fun c => match c with MVTrak s => forallb (fun se => no_sinf (se_children se)) s | _ => true end) m.

(* every trak *)
Lemma decrypt_traks_protect iv sch kid ps_ok : forall m m' ts,
  protect_traks m iv sch kid ps_ok = Ok (m', ts) ->
  decrypt_traks m' = Ok (m, infos_of sch ts).
Proof.
  induction m as [|c t IH]; intros m' ts H.
  - cbn [protect_traks] in H. apply Ok_inj_e in H. injection H as <- <-. reflexivity.
  - destruct c as [s|i|i].
    + cbn [protect_traks] in H.
      destruct (protect_entries s iv sch kid ps_ok) as [[s' ts1]| | |] eqn:Ep; try discriminate. cbn [rbind fst snd] in H.
      destruct (protect_traks t iv sch kid ps_ok) as [[t' ts2]| | |] eqn:Eq; try discriminate. cbn [rbind fst snd] in H.
      apply Ok_inj_e in H. injection H as <- <-.
      cbn [decrypt_traks]. rewrite (decrypt_entries_protect iv sch kid ps_ok s s' ts1 Ep). cbn [rbind].
      rewrite (IH t' ts2 eq_refl). cbn [rbind fst snd infos_of flat_map].
      destruct s as [|se s0].
      * cbn [protect_entries] in Ep. apply Ok_inj_e in Ep. injection Ep as <- <-. reflexivity.
      * assert (Hs : sch_ok sch = true).
        { cbn [protect_entries] in Ep.
          destruct (protect_entry se iv sch kid ps_ok) as [[se' t1]| | |] eqn:Ee; try discriminate.
          destruct (protect_entry_shape _ _ _ _ _ _ _ Ee) as [_ [_ Hs]]. exact Hs. }
        assert (Hne : ts1 <> []).
        { cbn [protect_entries] in Ep.
          destruct (protect_entry se iv sch kid ps_ok) as [[se' t1]| | |]; try discriminate. cbn [rbind] in Ep.
          destruct (protect_entries s0 iv sch kid ps_ok) as [[a b]| | |]; try discriminate. cbn [rbind fst snd] in Ep.
          apply Ok_inj_e in Ep. injection Ep as _ <-. discriminate. }
        unfold sch_ok in Hs.
        assert (Hz : sch =? 0 = false).
        { apply orb_true_iff in Hs. destruct Hs as [Hs'|Hs']; apply N.eqb_eq in Hs'; subst sch; reflexivity. }
        rewrite Hz. cbn [negb andb].
        assert (Hg : negb (sch =? cc_cenc) && negb (sch =? cc_cbcs) = false).
        { apply orb_true_iff in Hs. destruct Hs as [Hs'|Hs']; rewrite Hs'; cbn [negb andb]; [reflexivity|apply andb_false_r]. }
        rewrite Hg. destruct ts1 as [|t1 ts1]; [congruence|]. reflexivity.
    + cbn [protect_traks] in H.
      destruct (protect_traks t iv sch kid ps_ok) as [[t' ts2]| | |] eqn:Eq; try discriminate. cbn [rbind fst snd] in H.
      apply Ok_inj_e in H. injection H as <- <-. cbn [decrypt_traks]. rewrite (IH t' ts2 eq_refl). reflexivity.
    + cbn [protect_traks] in H.
      destruct (protect_traks t iv sch kid ps_ok) as [[t' ts2]| | |] eqn:Eq; try discriminate. cbn [rbind fst snd] in H.
      apply Ok_inj_e in H. injection H as <- <-. cbn [decrypt_traks]. rewrite (IH t' ts2 eq_refl). reflexivity.
Qed.

Lemma filter_psshs m ps :
  no_pssh m = true -> filter (fun c => negb (is_mvpssh c)) (m ++ map MVPssh ps) = m.
Proof.
  intros Hn. rewrite filter_app.
  assert (H1 : filter (fun c => negb (is_mvpssh c)) m = m).
  { unfold no_pssh in Hn. induction m as [|c t IH]; [reflexivity|]. cbn [forallb] in Hn.
    apply andb_true_iff in Hn. destruct Hn as [Hc Ht]. cbn [filter]. rewrite Hc, IH by exact Ht. reflexivity. }
  assert (H2 : filter (fun c => negb (is_mvpssh c)) (map MVPssh ps) = []).
  { induction ps as [|p t IH]; [reflexivity|]. cbn [map filter is_mvpssh negb]. exact IH. }
  rewrite H1, H2. apply app_nil_r.
Qed.

Lemma decrypt_traks_app_psshs : forall m ps r,
  decrypt_traks m = Ok r -> decrypt_traks (m ++ map MVPssh ps) = Ok (fst r ++ map MVPssh ps, snd r).
Proof.
  induction m as [|c t IH]; intros ps r H.
  - cbn [decrypt_traks] in H. apply Ok_inj_e in H. subst r. cbn [app fst snd].
    induction ps as [|p u IHp]; [reflexivity|]. cbn [map decrypt_traks]. rewrite IHp. reflexivity.
  - destruct c as [s|i|i]; cbn [app decrypt_traks] in *.
    + destruct (decrypt_entries s) as [[[es tis] last]| | |]; try discriminate. cbn [rbind] in *.
      destruct (negb (last =? 0) && negb (last =? cc_cenc) && negb (last =? cc_cbcs)); [discriminate|].
      destruct (decrypt_traks t) as [q| | |] eqn:Eq; try discriminate. cbn [rbind] in H.
      apply Ok_inj_e in H. subst r. rewrite (IH ps q eq_refl). cbn [rbind fst snd]. reflexivity.
    + destruct (decrypt_traks t) as [q| | |] eqn:Eq; try discriminate. cbn [rbind] in H.
      apply Ok_inj_e in H. subst r. rewrite (IH ps q eq_refl). reflexivity.
    + destruct (decrypt_traks t) as [q| | |] eqn:Eq; try discriminate. cbn [rbind] in H.
      apply Ok_inj_e in H. subst r. rewrite (IH ps q eq_refl). reflexivity.
Qed.

(* DecryptInit on a moov in which every entry of every track was protected, pssh boxes appended: everything back *)
Lemma init_restore_all m iv sch kid ps_ok psshs m' ts :
  no_pssh m = true ->
  protect_traks m iv sch kid ps_ok = Ok (m', ts) ->
  decrypt_init (m' ++ map MVPssh psshs) = Ok (m, infos_of sch ts).
Proof.
  intros Hp H. unfold decrypt_init.
  rewrite (decrypt_traks_app_psshs m' psshs _ (decrypt_traks_protect iv sch kid ps_ok m m' ts H)).
  cbn [rbind fst snd]. rewrite filter_psshs by exact Hp. reflexivity.
Qed.
