(* C06EntryModel.v — the sample-entry swap of InitProtect applied to EVERY entry of EVERY track of a moov (what
   an init segment with several tracks / several stsd entries looks like once each has been protected the way
   InitProtect protects its single entry), for the multi-entry / multi-track round trip through DecryptInit
   (C06InitModel.decrypt_init models the loops over moov.Traks and stsd.Children).  Definitions only. *)
From V.lib Require Import Base.
From V.c07 Require Import C07Model.
From V.c06 Require Import C06InitModel.

Fixpoint protect_entries (l : list sentry) (iv : list N) (sch kid : N) (ps_ok : bool)
  : res (list sentry * list tenc_t) :=
  match l with
  | [] => Ok ([], [])
  | se :: t =>
      do r <- protect_entry se iv sch kid ps_ok;
      do q <- protect_entries t iv sch kid ps_ok;
      Ok (fst r :: fst q, snd r :: snd q)
  end.

(* every trak protected (same key id and scheme, as one packager run would do); pssh / other boxes kept *)
Fixpoint protect_traks (m : list mvchild) (iv : list N) (sch kid : N) (ps_ok : bool)
  : res (list mvchild * list (list tenc_t)) :=
  match m with
  | [] => Ok ([], [])
  | MVTrak s :: t =>
      do r <- protect_entries s iv sch kid ps_ok;
      do q <- protect_traks t iv sch kid ps_ok;
      Ok (MVTrak (fst r) :: fst q, snd r :: snd q)
  | c :: t => do q <- protect_traks t iv sch kid ps_ok; Ok (c :: fst q, snd q)
  end.

(* the track infos DecryptInit returns for such a moov: one per entry; a trak without entries counts as clear *)
Definition infos_of (sch : N) (ts : list (list tenc_t)) : list track_info :=
  flat_map (fun l => match l with [] => [None] | _ => map (fun t => Some (sch, Some t)) l end) ts.
