(* C06SencRepairProofs.v — SencBox.AddSample after the fix commits ecf1460 / 0b086ee (C06SencModel.senc_add_r):
   what the per-sample loop of EncryptFragment leaves in the SencBox for ANY mix of samples with and without a
   sub-sample map (one table per sample, empty for the samples without), that it agrees with the pinned text on the
   uniform fragments of the earlier theorems, and the transport through the senc bytes for mixed fragments. *)
From V.lib Require Import Base.
From V.c07 Require Import C07Model.
From V.c06 Require Import C06Model C06SencModel C06SencProofs C06SencAuxProofs.

Definition has_map (e : enc_sample) : bool := nonempty (e_ssps e).

(* the SencBox at the end of the loop, repaired text *)
Definition senc_after_r (ivsz : N) (encs : list enc_sample) : senc :=
  mkSenc (match encs with [] => 0 | _ => ivsz end) (existsb has_map encs) (lenN encs)
         (if ivsz =? 0 then [] else map e_iv encs) (if existsb has_map encs then map e_ssps encs else []).

Definition ivs_sized (ivsz : N) (encs : list enc_sample) : bool := forallb (fun e => lenN (e_iv e) =? ivsz) encs.

Lemma no_map_repeat : forall l, existsb has_map l = false -> map e_ssps l = repeat [] (length l).
Proof.
  induction l as [|e t IH]; intros H; [reflexivity|].
  cbn [existsb] in H. apply orb_false_iff in H. destruct H as [He Ht].
  cbn [map length repeat]. rewrite (IH Ht). f_equal. unfold has_map in He. destruct (e_ssps e); [reflexivity|discriminate].
Qed.

Lemma senc_add_iv_r_step ivsz done e :
  ivsz < 256 -> lenN (e_iv e) = ivsz ->
  senc_add_iv_r (senc_after_r ivsz done) (e_iv e)
  = Ok (mkSenc (match done ++ [e] with [] => 0 | _ => ivsz end) (existsb has_map done) (lenN done)
               (if ivsz =? 0 then [] else map e_iv (done ++ [e])) (if existsb has_map done then map e_ssps done else [])).
Proof.
  intros Hlt Hiv. unfold senc_add_iv_r, senc_after_r. cbn [sn_ivsize sn_subs sn_count sn_ivs sn_ss]. rewrite Hiv.
  assert (Hu8 : u8 ivsz = ivsz) by (unfold u8; apply N.mod_small; exact Hlt).
  destruct (ivsz =? 0) eqn:Ez; cbn [negb].
  - apply N.eqb_eq in Ez. change (lenN (@nil (list N)) =? 0) with true. cbn [negb]. rewrite andb_false_r.
    rewrite Ez. destruct done; reflexivity.
  - rewrite map_app. cbn [map]. destruct done as [|d t].
    + cbn [lenN length N.of_nat N.eqb app map]. rewrite Hu8. reflexivity.
    + assert (E0 : lenN (d :: t) =? 0 = false) by (apply N.eqb_neq; rewrite lenN_cons; lia).
      rewrite E0, N.eqb_refl. cbn [negb app]. reflexivity.
Qed.

Lemma senc_add_r_step ivsz done e :
  ivsz < 256 -> lenN (e_iv e) = ivsz -> lenN done < 4294967296 ->
  senc_add_r (senc_after_r ivsz done) (e_iv e) (e_ssps e) = Ok (senc_after_r ivsz (done ++ [e])).
Proof.
  intros Hlt Hiv Hcnt. unfold senc_add_r. rewrite (senc_add_iv_r_step ivsz done e Hlt Hiv). cbn [rbind]. f_equal.
  unfold senc_add_ss_r, senc_after_r. cbn [sn_ivsize sn_subs sn_count sn_ivs sn_ss].
  rewrite existsb_app. cbn [existsb]. rewrite orb_false_r. unfold has_map at 3 5. unfold nonempty.
  assert (Hcount : lenN (done ++ [e]) = lenN done + 1) by (rewrite lenN_app; reflexivity).
  rewrite Hcount.
  destruct (existsb has_map done) eqn:Ed.
  - (* tables already in use: one more entry, no padding *)
    rewrite orb_true_r. cbn [orb sn_ivsize sn_subs sn_count sn_ivs sn_ss]. f_equal. rewrite map_length. unfold lenN.
    rewrite Nat2N.id, Nat.sub_diag. cbn [repeat app]. rewrite map_app. reflexivity.
  - destruct (e_ssps e) as [|p ps] eqn:Es; cbn [orb sn_ivsize sn_subs sn_count sn_ivs sn_ss].
    + unfold has_map, nonempty. rewrite Es. reflexivity.
    + unfold has_map, nonempty. rewrite Es. f_equal. cbn [length Nat.sub app]. unfold lenN. rewrite Nat2N.id, Nat.sub_0_r.
      rewrite map_app. cbn [map app]. rewrite Es, (no_map_repeat done Ed). reflexivity.
Qed.

Lemma senc_of_r_acc ivsz : ivsz < 256 -> forall rest done,
  ivs_sized ivsz rest = true -> lenN (done ++ rest) < 4294967296 ->
  senc_of_r (senc_after_r ivsz done) rest = Ok (senc_after_r ivsz (done ++ rest)).
Proof.
  intros Hlt. induction rest as [|e t IH]; intros done Hs Hc.
  - rewrite app_nil_r. reflexivity.
  - cbn [ivs_sized forallb] in Hs. apply andb_true_iff in Hs. destruct Hs as [He Ht]. apply N.eqb_eq in He.
    cbn [senc_of_r]. rewrite (senc_add_r_step ivsz done e Hlt He) by (rewrite lenN_app in Hc; lia).
    cbn [rbind]. replace (done ++ e :: t) with ((done ++ [e]) ++ t) by (rewrite <- app_assoc; reflexivity).
    apply IH; [exact Ht|]. rewrite <- app_assoc. exact Hc.
Qed.

(* the SencBox EncryptFragment's loop builds with the repaired AddSample: one table per sample as soon as one sample
   has a map, whatever the position of the samples without *)
Lemma senc_of_r_spec ivsz encs :
  ivsz < 256 -> ivs_sized ivsz encs = true -> lenN encs < 4294967296 ->
  senc_of_r senc_empty encs = Ok (senc_after_r ivsz encs).
Proof.
  intros Hlt Hs Hc.
  assert (H0 : senc_after_r ivsz [] = senc_empty) by (unfold senc_after_r, senc_empty; cbn [existsb map lenN length N.of_nat]; destruct (ivsz =? 0); reflexivity).
  rewrite <- H0. apply (senc_of_r_acc ivsz Hlt encs [] Hs Hc).
Qed.

Lemma uniform_sized ivsz sub encs : uniform ivsz sub encs = true -> ivs_sized ivsz encs = true.
Proof.
  induction encs as [|e t IH]; intros H; [reflexivity|].
  cbn [uniform forallb] in H. apply andb_true_iff in H. destruct H as [He Ht]. apply andb_true_iff in He.
  cbn [ivs_sized forallb]. rewrite (proj1 He). apply IH. exact Ht.
Qed.

Lemma uniform_has_map ivsz sub encs : uniform ivsz sub encs = true -> existsb has_map encs = sub && nonempty encs.
Proof.
  induction encs as [|e t IH]; intros H; [rewrite andb_false_r; reflexivity|].
  cbn [uniform forallb] in H. apply andb_true_iff in H. destruct H as [He Ht]. apply andb_true_iff in He.
  destruct He as [_ Hsub]. apply eqb_prop in Hsub. cbn [existsb nonempty]. unfold has_map at 1. rewrite Hsub, (IH Ht).
  destruct sub, t; reflexivity.
Qed.

(* on the fragments of the earlier theorems (every sample with a map, or none) the repaired AddSample builds the
   SencBox the pinned text built: C06_senc_transport_cenc/_cbcs and C06_aux_consistent keep describing the code *)
Lemma senc_of_r_uniform ivsz sub encs :
  ivsz < 256 -> uniform ivsz sub encs = true -> lenN encs < 4294967296 ->
  senc_of_r senc_empty encs = senc_of senc_empty encs.
Proof.
  intros Hlt Hu Hc. rewrite (senc_of_r_spec ivsz encs Hlt (uniform_sized _ _ _ Hu) Hc), (senc_of_spec ivsz sub encs Hlt Hu).
  unfold senc_after_r, senc_after. rewrite (uniform_has_map _ _ _ Hu). f_equal.
  destruct sub, encs; reflexivity.
Qed.

(* ---------------------------------------------------------------- transport for mixed fragments *)
Lemma sized_forall ivsz encs : ivs_sized ivsz encs = true -> forallb (fun iv => lenN iv =? ivsz) (map e_iv encs) = true.
Proof.
  induction encs as [|e t IH]; intros H; [reflexivity|]. cbn [ivs_sized forallb] in H. apply andb_true_iff in H.
  cbn [map forallb]. rewrite (proj1 H). apply IH. apply H.
Qed.

Lemma senc_after_r_wf ivsz encs :
  (ivsz = 0 \/ ivsz = 8 \/ ivsz = 16) -> ivs_sized ivsz encs = true ->
  forallb subs_ok (map e_ssps encs) = true -> lenN encs < 4294967296 ->
  senc_wf (senc_after_r ivsz encs) = true.
Proof.
  intros Hsz Hs Hok Hc. pose proof (sized_forall _ _ Hs) as U1.
  unfold senc_wf, senc_after_r. cbn [sn_ivsize sn_subs sn_count sn_ivs sn_ss].
  destruct encs as [|e t].
  - cbn [existsb map lenN length]. destruct (ivsz =? 0); reflexivity.
  - assert (Hcb : lenN (e :: t) <? 4294967296 = true) by (apply N.ltb_lt; exact Hc).
    assert (Hm1 : lenN (map e_iv (e :: t)) =? lenN (e :: t) = true) by (unfold lenN; rewrite map_length; apply N.eqb_refl).
    assert (Hm2 : lenN (map e_ssps (e :: t)) =? lenN (e :: t) = true) by (unfold lenN; rewrite map_length; apply N.eqb_refl).
    assert (Hne : lenN (e :: t) =? 0 = false) by (apply N.eqb_neq; rewrite lenN_cons; lia).
    rewrite Hcb, Hne. cbn [negb orb]. rewrite ?andb_true_r.
    destruct Hsz as [-> | [-> | ->]]; cbn [N.eqb Pos.eqb orb andb]; rewrite ?Hm1, ?U1; cbn [andb];
      destruct (existsb has_map (e :: t)); rewrite ?Hm2, ?Hok; reflexivity.
Qed.

Lemma decoded_ivs_sized ivsz encs :
  ivs_sized ivsz encs = true -> (if ivsz =? 0 then [] else map e_iv encs) = decoded_ivs encs.
Proof.
  intros Hs. unfold decoded_ivs. destruct (ivsz =? 0) eqn:Ez.
  - apply N.eqb_eq in Ez. subst ivsz.
    assert (H : existsb (fun e => negb (lenN (e_iv e) =? 0)) encs = false).
    { induction encs as [|e t IH]; [reflexivity|]. cbn [ivs_sized forallb] in Hs. apply andb_true_iff in Hs.
      cbn [existsb]. rewrite (proj1 Hs). cbn [negb orb]. apply IH. apply Hs. }
    rewrite H. reflexivity.
  - destruct encs as [|e t]; [reflexivity|].
    cbn [ivs_sized forallb] in Hs. apply andb_true_iff in Hs. destruct Hs as [He _]. apply N.eqb_eq in He.
    cbn [existsb]. rewrite He, Ez. reflexivity.
Qed.

Lemma decoded_subs_has encs : (if existsb has_map encs then map e_ssps encs else []) = decoded_subs encs.
Proof. reflexivity. Qed.

(* EncryptFragment's SencBox for ANY fragment (samples with and without sub-sample maps in any order), written by
   Encode and read back by the decrypt side with the IV size it was written with, is the IV list and the per-sample
   sub-sample lists (empty for the samples without a map) that decryptSamplesInPlace is given in the round-trip
   theorems (C06_iv_sequence_cenc / _cbcs hold for every protection function, mixed ones included) *)
Lemma senc_transport_mixed ivsz encs s box :
  (ivsz = 0 \/ ivsz = 8 \/ ivsz = 16) -> ivs_sized ivsz encs = true ->
  forallb subs_ok (map e_ssps encs) = true -> lenN encs < 4294967296 ->
  senc_of_r senc_empty encs = Ok s -> senc_encode s = Ok box -> lenN box < 4294967296 ->
  exists s', senc_parse ivsz box = Ok s' /\ sn_ivs s' = decoded_ivs encs /\ sn_ss s' = decoded_subs encs /\
             sn_count s' = lenN encs.
Proof.
  intros Hsz Hs Hok Hc Hsenc Henc Hlen.
  assert (Hlt : ivsz < 256) by (destruct Hsz as [-> | [-> | ->]]; lia).
  rewrite (senc_of_r_spec ivsz encs Hlt Hs Hc) in Hsenc. apply Ok_inj' in Hsenc. subst s.
  destruct encs as [|e t].
  - vm_compute in Henc. apply Ok_inj' in Henc. subst box.
    exists (mkSenc 0 false 0 [] []). destruct Hsz as [-> | [-> | ->]]; repeat split; reflexivity.
  - exists (senc_after_r ivsz (e :: t)). split.
    + apply senc_codec; try assumption; [apply senc_after_r_wf; assumption|].
      unfold p_ok, senc_after_r. cbn [sn_ivsize]. rewrite N.eqb_refl. reflexivity.
    + unfold senc_after_r. cbn [sn_ivs sn_ss sn_count]. split; [apply decoded_ivs_sized; exact Hs|]. split; reflexivity.
Qed.

(* the fragment of known finding C06-F4 (a sample without any protection range next to one with a range): the
   repaired AddSample stores an empty table for the first sample, Encode succeeds and the box is read back *)
Lemma mixed_subsamples_repaired :
  let encs := [mkEnc (repeat 1 16) [] []; mkEnc (repeat 2 16) [mkSsp 5 16] []] in
  exists s box, senc_of_r senc_empty encs = Ok s /\ sn_ss s = [[]; [mkSsp 5 16]] /\ senc_encode s = Ok box /\
                senc_parse 16 box = Ok s /\ lenN box = 16 + (16 + 2) + (16 + 2 + 6).
Proof. do 2 eexists. split; [vm_compute; reflexivity|]. split; [reflexivity|]. split; [vm_compute; reflexivity|]. split; vm_compute; reflexivity. Qed.

(* ---------------------------------------------------------------- a seig group already present in the clear traf *)
(* a seig sample group is protection signalling that EncryptFragment neither writes nor updates; ParseReadSenc lets
   its per-sample IV size override the tenc's.  When it agrees with the tenc nothing changes; when it does not, the
   senc EncryptFragment wrote cannot be read: 16-byte IVs do not fill the data as 8-byte IVs (an error since the
   ParseReadBox fix; before it they were silently read as two 8-byte IVs) *)
Lemma seig_agrees p moof_start senc_start saio box :
  traf_senc_seig p (Some p) moof_start senc_start saio box = traf_senc p moof_start senc_start saio box /\
  traf_senc_seig p None moof_start senc_start saio box = traf_senc p moof_start senc_start saio box.
Proof. split; reflexivity. Qed.

Lemma seig_override_refuted :
  let encs := [mkEnc (repeat 1 16) [] []; mkEnc (repeat 2 16) [] []] in
  exists s box,
    senc_of_r senc_empty encs = Ok s /\ senc_encode s = Ok box /\
    traf_senc_seig 16 None 100 124 (Some 40) box = Ok s /\ sn_ivs s = decoded_ivs encs /\
    traf_senc_seig 16 (Some 8) 100 124 (Some 40) box = Err.
Proof.
  do 2 eexists. split; [vm_compute; reflexivity|]. split; [vm_compute; reflexivity|].
  split; [vm_compute; reflexivity|]. split; vm_compute; reflexivity.
Qed.
