(* C06TrafTimingModel.v — what Fragment.GetFullSamples reports for a traf with SEVERAL truns: the truns one after the
   other, `baseTime += totalDur` after each (totalDur = what TrunBox.AddSampleDefaultValues returns: the sum of the
   sample durations after the defaults were filled in, uint64).  Definitions only. *)
From V.lib Require Import Base.
From V.c06 Require Import C06TimingModel.

Definition total_dur (tfhd : tfhd_t) (trex : option trex_t) (tr : trun_t) : N :=
  fold_left (fun a s => (a + ts_dur s) mod 18446744073709551616) (tr_samples (add_sample_defaults tfhd trex tr)) 0.

Fixpoint traf_meta (tfhd : tfhd_t) (trex : option trex_t) (truns : list trun_t) (base : N) : list (tsample * N) :=
  match truns with
  | [] => []
  | tr :: t =>
      fragment_meta tfhd trex tr base ++
      traf_meta tfhd trex t ((base + total_dur tfhd trex tr) mod 18446744073709551616)
  end.
