(* C06TrexProofs.v — round trip with the trex as a parameter of both sides; whole files by induction over the
   fragment list. *)
From V.lib Require Import Base.
From V.c07 Require Import C07Model.
From V.c06 Require Import C06Model C06StructProofs C06FragModel C06FragProofs C06TrexModel.

Lemma Ok_inj_t {A} (x y : A) : Ok x = Ok y -> x = y.
Proof. intros H. injection H. auto. Qed.

Lemma split_spec : forall sizes data samples rest,
  split_samples sizes data = Ok (samples, rest) ->
  concat samples ++ rest = data /\ map (fun s => lenN s) samples = sizes.
Proof.
  induction sizes as [|z t IH]; intros data samples rest H.
  - cbn [split_samples] in H. apply Ok_inj_t in H. injection H as <- <-. split; reflexivity.
  - cbn [split_samples] in H. destruct (lenN data <? z) eqn:El; [discriminate|].
    destruct (split_samples t (skipn (N.to_nat z) data)) as [[ss r]| | |] eqn:Es; try discriminate.
    cbn [rbind fst snd] in H. apply Ok_inj_t in H. injection H as <- <-.
    destruct (IH _ _ _ Es) as [Hc Hm]. cbn [concat map]. rewrite <- app_assoc, Hc, firstn_skipn, Hm.
    split; [reflexivity|]. f_equal. apply N.ltb_ge in El. unfold lenN in *. rewrite firstn_length. lia.
Qed.

Lemma split_concat : forall dl rest, split_samples (map (fun s => lenN s) dl) (concat dl ++ rest) = Ok (dl, rest).
Proof.
  induction dl as [|d t IH]; intros rest; [reflexivity|].
  cbn [map concat split_samples]. rewrite <- app_assoc.
  assert (El : lenN (d ++ concat t ++ rest) <? lenN d = false) by (apply N.ltb_ge; rewrite lenN_app; lia).
  rewrite El. cbn [rbind]. unfold lenN. rewrite Nat2N.id.
  replace (skipn (length d) (d ++ concat t ++ rest)) with (concat t ++ rest)
    by (rewrite skipn_app, Nat.sub_diag, skipn_all; reflexivity).
  replace (firstn (length d) (d ++ concat t ++ rest)) with d
    by (rewrite firstn_app, Nat.sub_diag, firstn_all; cbn [firstn]; rewrite app_nil_r; reflexivity).
  fold (@lenN N). rewrite IH. reflexivity.
Qed.

Lemma lens_eq (a b : list (list N)) :
  map (@length N) a = map (@length N) b -> map (fun s => lenN s) a = map (fun s => lenN s) b.
Proof.
  revert b. induction a as [|x a IH]; intros [|y b] H; try discriminate; [reflexivity|].
  cbn [map] in *. injection H as H1 H2. unfold lenN at 1 2. rewrite H1. f_equal. apply IH. exact H2.
Qed.

Lemma efrag_eta e : mkEF (ef_frag e) (ef_ivs e) (ef_subs e) (ef_data e) = e.
Proof. destruct e; reflexivity. Qed.

(* generic: whatever the scheme, if the fragment round trip holds and encryption keeps the sample lengths, the
   payload is restored when both sides resolve the sample sizes alike *)
Lemma trex_roundtrip_generic E D protfunc sch key iv constiv cb sb start mdat_hdr ids trex_e trex_d f e pl :
  sample_sizes trex_d (pf_sizing f) = sample_sizes trex_e (pf_sizing f) ->
  (forall samples e0, encrypt_frag E D protfunc sch key iv cb sb start mdat_hdr ids (mkC (pf_children f) samples) = Ok e0 ->
     decrypt_frag E D sch key constiv cb sb e0 = Ok (layout start (pf_children f) mdat_hdr, samples) /\
     map (@length N) (ef_data e0) = map (@length N) samples) ->
  encrypt_frag_trex E D protfunc sch key iv cb sb start mdat_hdr ids trex_e f = Ok (e, pl) ->
  decrypt_frag_trex E D sch key constiv cb sb trex_d (pf_sizing f) e pl = Ok (layout start (pf_children f) mdat_hdr, pf_payload f).
Proof.
  intros Hsz Hrt H. unfold encrypt_frag_trex in H.
  destruct (split_samples (sample_sizes trex_e (pf_sizing f)) (pf_payload f)) as [[samples rest]| | |] eqn:Es; try discriminate.
  cbn [rbind fst snd] in H.
  destruct (encrypt_frag E D protfunc sch key iv cb sb start mdat_hdr ids (mkC (pf_children f) samples)) as [e0| | |] eqn:Ee; try discriminate.
  cbn [rbind] in H. apply Ok_inj_t in H. injection H as <- <-.
  destruct (Hrt samples e0 Ee) as [Hd Hl]. destruct (split_spec _ _ _ _ Es) as [Hc Hm].
  unfold decrypt_frag_trex. rewrite Hsz, <- Hm, <- (lens_eq _ _ Hl), split_concat. cbn [rbind fst snd].
  rewrite efrag_eta, Hd. cbn [rbind fst snd]. rewrite Hc. reflexivity.
Qed.

Lemma trex_roundtrip_cenc E D protfunc key iv constiv cb sb start mdat_hdr ids trex_e trex_d f e pl :
  trex_d = trex_e ->
  clean_moof (pf_children f) = true -> nr_trafs (pf_children f) = 1%nat ->
  encrypt_frag_trex E D protfunc Cenc key iv cb sb start mdat_hdr ids trex_e f = Ok (e, pl) ->
  decrypt_frag_trex E D Cenc key constiv cb sb trex_d (pf_sizing f) e pl = Ok (layout start (pf_children f) mdat_hdr, pf_payload f).
Proof.
  intros -> Hc Hn H. apply (trex_roundtrip_generic E D protfunc Cenc key iv constiv cb sb start mdat_hdr ids trex_e trex_e f e pl); [reflexivity| |exact H].
  intros samples e0 Ee.
  pose proof (fragment_roundtrip_cenc E D protfunc key iv cb sb start mdat_hdr ids (mkC (pf_children f) samples) e0 constiv Hc Hn Ee) as Hd.
  split; [exact Hd|]. destruct (decrypt_preserves_timing E D key constiv cb sb e0 _ _ Hd) as [Hl _]. symmetry. exact Hl.
Qed.

(* the guard trex_d = trex_e is needed: encrypting with a nil trex (sizes 0: nothing is encrypted, although senc /
   saiz / saio are written) and decrypting with the real one runs the cipher over clear payload *)
Lemma trex_mismatch_refuted :
  let E := fun (_ _ : list N) => repeat 1 16 in
  let f := mkP [MOther 16 1; MTraf [mkT TOther 16 2; mkT TTrun 20 3]] (mkSizing 2 None None) [10; 20; 30; 40; 50; 60; 70; 80] in
  exists e pl out,
    encrypt_frag_trex E E (fun _ => Ok []) Cenc (repeat 3 16) (repeat 0 16) 0 0 100 8 50 None f = Ok (e, pl) /\
    pl = pf_payload f /\
    decrypt_frag_trex E E Cenc (repeat 3 16) [] 0 0 (Some 4) (pf_sizing f) e pl = Ok out /\
    snd out <> pf_payload f.
Proof. do 3 eexists. split; [vm_compute; reflexivity|]. split; [reflexivity|]. split; [vm_compute; reflexivity|]. discriminate. Qed.

(* ---------------------------------------------------------------- whole files *)
Lemma sum_lens_eq (a b : list (list N)) :
  map (@length N) a = map (@length N) b -> sumN (map (fun s => lenN s) a) = sumN (map (fun s => lenN s) b).
Proof. intros H. rewrite (lens_eq _ _ H). reflexivity. Qed.

Lemma file_roundtrip_cenc E D protfunc key iv constiv cb sb : forall fs start_e ids es,
  Forall (fun p : cfrag * N => clean_moof (cf_children (fst p)) = true /\ nr_trafs (cf_children (fst p)) = 1%nat) fs ->
  encrypt_file E D protfunc Cenc key iv cb sb start_e ids fs = Ok es ->
  exists gs, decrypt_file E D Cenc key constiv cb sb es = Ok gs /\
    (forall start_c, reencode start_c gs = layout_file start_c fs) /\
    map (fun g => snd (fst g)) gs = map (fun p => cf_samples (fst p)) fs /\
    map (fun g => f_moof_start (fst (fst g))) gs = enc_positions start_e fs es.
Proof.
  induction fs as [|[f h] t IH]; intros start_e ids es Hall H.
  - cbn [encrypt_file] in H. apply Ok_inj_t in H. subst es. exists []. repeat split; reflexivity.
  - cbn [encrypt_file] in H. inversion Hall as [|x l [Hc Hn] Ht]. subst x l. cbn [fst] in Hc, Hn.
    destruct (encrypt_frag E D protfunc Cenc key iv cb sb start_e h ids f) as [e| | |] eqn:Ee; try discriminate.
    cbn [rbind] in H.
    destruct (encrypt_file E D protfunc Cenc key iv cb sb
                (start_e + moof_size (f_children (ef_frag e)) + h + sumN (map (fun s => lenN s) (ef_data e))) (ids + 3) t)
      as [r| | |] eqn:Er; try discriminate.
    cbn [rbind] in H. apply Ok_inj_t in H. subst es.
    pose proof (fragment_roundtrip_cenc E D protfunc key iv cb sb start_e h ids f e constiv Hc Hn Ee) as Hd.
    destruct (decrypt_preserves_timing E D key constiv cb sb e _ _ Hd) as [Hl [_ [Hm _]]].
    destruct (IH _ _ _ Ht Er) as [gs [Hg [Hre [Hs Hp]]]].
    exists ((layout start_e (cf_children f) h, cf_samples f, h) :: gs).
    cbn [decrypt_file]. rewrite Hd. cbn [rbind fst snd]. rewrite Hg. cbn [rbind].
    split; [reflexivity|]. split; [|split].
    + intros start_c. cbn [reencode layout_file layout f_children]. rewrite Hre. reflexivity.
    + cbn [map fst snd]. rewrite Hs. reflexivity.
    + cbn [map fst snd enc_positions layout f_moof_start]. rewrite Hp. f_equal. f_equal.
      cbn [layout f_children] in Hm. rewrite (sum_lens_eq _ _ Hl). lia.
Qed.
