(* C06FixedModel.v — the fixed fields of the Visual / Audio sample entry as TYPED fields, the way
   DecodeVisualSampleEntrySR / VisualSampleEntryBox.EncodeSW and DecodeAudioSampleEntrySR / AudioSampleEntryBox.EncodeSW
   read and write them (mp4/visualsampleentry.go, mp4/audiosamplentry.go), and the whole path decode entry ->
   RemoveEncryption -> Encode on bytes with the sinf at ANY position among the children.

   The decoders keep: data_reference_index, width, height, horizresolution, vertresolution, frame_count and the
   compressor name (its length byte + that many bytes) / data_reference_index, channelcount, samplesize and the
   integer part of samplerate.  Everything else of the 78 / 28 bytes is NOT kept: reserved and pre_defined bytes are
   skipped and written as zero, depth is written as 0x0018, the trailing pre_defined as 0xffff, the bytes behind the
   compressor name as zero, the fractional 16 bits of samplerate as zero.  So "the fixed fields come back verbatim" is
   a statement about the typed fields (and about canonical entries byte for byte).  Definitions only. *)
From V.lib Require Import Base.
From V.c07 Require Import C07Model C07Spec.
From V.c06 Require Import C06InitModel C06SinfModel.

Definition cut {A} (n : nat) (l : list A) : list A * list A := (firstn n l, skipn n l).

Record vfixed := mkVF { vf_dri : N; vf_width : N; vf_height : N; vf_hres : N; vf_vres : N; vf_frames : N;
                        vf_cname : list N }.
Record afixed := mkAF { af_dri : N; af_channels : N; af_samplesize : N; af_rate : N }.

(* VisualSampleEntryBox.EncodeSW, the 78 bytes between the header and the children *)
Definition vfixed_encode (v : vfixed) : list N :=
  repeat 0 6 ++ be_bytes 2 (vf_dri v) ++ repeat 0 16 ++ be_bytes 2 (vf_width v) ++ be_bytes 2 (vf_height v) ++
  be_bytes 4 (vf_hres v) ++ be_bytes 4 (vf_vres v) ++ repeat 0 4 ++ be_bytes 2 (vf_frames v) ++
  [u8 (lenN (vf_cname v))] ++ vf_cname v ++ repeat 0 (31 - length (vf_cname v)) ++ [0; 24; 255; 255].

(* DecodeVisualSampleEntrySR on the 78 bytes: Err = "too long compressor name length" *)
Definition vfixed_decode (b : list N) : res vfixed :=
  let '(_, b) := cut 6 b in
  let '(dri, b) := cut 2 b in
  let '(_, b) := cut 16 b in
  let '(w, b) := cut 2 b in
  let '(h, b) := cut 2 b in
  let '(hres, b) := cut 4 b in
  let '(vres, b) := cut 4 b in
  let '(_, b) := cut 4 b in
  let '(fc, b) := cut 2 b in
  let '(n, b) := cut 1 b in
  if 31 <? be n then Err
  else Ok (mkVF (be dri) (be w) (be h) (be hres) (be vres) (be fc) (firstn (N.to_nat (be n)) b)).

(* AudioSampleEntryBox.EncodeSW: 28 bytes; samplerate is written as rate << 16 *)
Definition afixed_encode (a : afixed) : list N :=
  repeat 0 6 ++ be_bytes 2 (af_dri a) ++ repeat 0 8 ++ be_bytes 2 (af_channels a) ++ be_bytes 2 (af_samplesize a) ++
  repeat 0 4 ++ be_bytes 2 (af_rate a) ++ [0; 0].

(* DecodeAudioSampleEntrySR: makeUint16FromFixed32 keeps the upper 16 bits *)
Definition afixed_decode (b : list N) : afixed :=
  let '(_, b) := cut 6 b in
  let '(dri, b) := cut 2 b in
  let '(_, b) := cut 8 b in
  let '(cc, b) := cut 2 b in
  let '(ss, b) := cut 2 b in
  let '(_, b) := cut 4 b in
  let '(rate, _) := cut 2 b in
  mkAF (be dri) (be cc) (be ss) (be rate).

(* field widths *)
Definition vfixed_wf (v : vfixed) : bool :=
  (vf_dri v <? 65536) && (vf_width v <? 65536) && (vf_height v <? 65536) && (vf_hres v <? 4294967296) &&
  (vf_vres v <? 4294967296) && (vf_frames v <? 65536) && (lenN (vf_cname v) <=? 31) && bytes_ok (vf_cname v).
Definition afixed_wf (a : afixed) : bool :=
  (af_dri a <? 65536) && (af_channels a <? 65536) && (af_samplesize a <? 65536) && (af_rate a <? 65536).

(* decode + encode of the fixed part: what the library writes back for ANY 78 / 28 input bytes *)
Definition fixed_reencode (k : sekind) (fixed : list N) : res (list N) :=
  match k with
  | SVisual => do v <- vfixed_decode fixed; Ok (vfixed_encode v)
  | SAudio => Ok (afixed_encode (afixed_decode fixed))
  | SOtherKind => Err
  end.
Definition fixed_len (k : sekind) : nat := match k with SVisual => 78 | SAudio => 28 | SOtherKind => 0 end.

(* the protected entry with the sinf at ANY position among the children (InitProtect appends it: after = []) *)
Definition protect_entry_bytes_at (enc_ty ty : N) (fixed : list N) (before after : list (list N)) (sch : N) (t : tenc_t)
  : list N :=
  entry_bytes enc_ty fixed (before ++ sinf_encode ty sch t :: after).

(* the children of the sample entry (DecodeBoxSR one after the other), 16-byte headers included: a size field of 1
   announces a 64-bit size behind the type; the box then counts 16 header bytes (UnknownBox keeps the header form and
   writes it back; box types the library knows are re-encoded with an 8-byte header and are outside this model when
   they come with a 16-byte one) *)
Fixpoint walk_boxes16 (fuel : nat) (data : list N) : res (list (list N)) :=
  match fuel with
  | O => if lenN data =? 0 then Ok [] else OutOfFuel
  | S f =>
      if lenN data =? 0 then Ok []
      else if lenN data <? 8 then Err
      else
        let sz32 := be (firstn 4 data) in
        if sz32 =? 1 then
          if lenN data <? 16 then Err
          else
            let sz := be (firstn 8 (skipn 8 data)) in
            if sz <? 16 then Err                      (* "box header size 16 exceeds box size" *)
            else if lenN data <? sz then Err
            else do r <- walk_boxes16 f (skipn (N.to_nat sz) data); Ok (firstn (N.to_nat sz) data :: r)
        else if sz32 <? 8 then Err                    (* 0 = "to end of file": refused; 2..7 invalid *)
        else if lenN data <? sz32 then Err
        else do r <- walk_boxes16 f (skipn (N.to_nat sz32) data); Ok (firstn (N.to_nat sz32) data :: r)
  end.
Definition children16 (payload : list N) : res (list (list N)) := walk_boxes16 (S (length payload)) payload.

(* a well-formed box with a 16-byte header *)
Definition wf_large (b : list N) : bool :=
  (16 <=? lenN b) && (be (firstn 4 b) =? 1) && (be (firstn 8 (skipn 8 b)) =? lenN b).
Definition wf_box16 (b : list N) : bool := wf_box b || wf_large b.

Definition enc_type (k : sekind) : N := match k with SVisual => cc_encv | _ => cc_enca end.

(* decode the entry with its typed fixed fields, RemoveEncryption ("is not encrypted" unless the entry is called
   encv / enca; the LAST sinf is read and removed), Encode *)
Definition unprotect_entry_typed (k : sekind) (b : list N) : res (list N * sinf_d) :=
  let p := box_payload b in
  if lenN p <? N.of_nat (fixed_len k) then Err
  else
    do fx <- fixed_reencode k (firstn (fixed_len k) p);
    do cs <- children16 (skipn (fixed_len k) p);
    if negb (box_type b =? enc_type k) then Err else
    match last_sinf_box cs None with
    | None => Err
    | Some sb =>
        do s <- sinf_decode sb;
        match sd_frma s with
        | None => Panic
        | Some fmt => Ok (entry_bytes fmt fx (remove_last_sinf_box cs), s)
        end
    end.
