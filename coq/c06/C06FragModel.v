(* C06FragModel.v — EncryptFragment and DecryptFragment on whole fragments: box structure + sample bytes.
   encrypt_frag yields the fragment as DecryptFragment sees it, i.e. after Fragment.Encode and decoding at
   position `start` (senc handed over by the decoder as per-sample IVs / sub-sample lists).  Definitions only. *)
From V.lib Require Import Base.
From V.c07 Require Import C07Model.
From V.c06 Require Import C06Model C06SencModel.

Record cfrag := mkC { cf_children : list mchild; cf_samples : list (list N) }.
Record efrag := mkEF { ef_frag : frag; ef_ivs : list (list N); ef_subs : list (list ssp);
                       ef_data : list (list N) }.

(* SaizBox.Size / SencBox.calcSize *)
Definition saiz_box_size (z : saiz) : N := 17 + (if sz_default z =? 0 then sz_count z else 0).

Section Frag.
  Variable E : list N -> list N -> list N.
  Variable D : list N -> list N -> list N.
  Variable protfunc : list N -> res (list ssp).   (* ipd.ProtFunc: AVC, HEVC or audio *)

  (* func EncryptFragment(f, key, iv, ipd), then Encode + decode at `start`; ids = identities of the new boxes *)
  Definition encrypt_frag (sch : scheme) (key iv : list N) (cb sb : N) (start mdat_hdr ids : N) (f : cfrag)
    : res efrag :=
    let iv := pad_iv iv in
    if negb (lenN iv =? 16) then Err else
    do encs <- (match sch with
                | Cenc => encrypt_samples_cenc E protfunc key iv (cf_samples f)
                | Cbcs => encrypt_samples_cbcs E D protfunc key iv cb sb (cf_samples f)
                | SchemeOther => Err
                end);
    do z <- saiz_of saiz_empty encs;
    do s <- senc_of senc_empty encs;
    do entries <- senc_entries s 0 (N.to_nat (sn_count s));
    let senc_sz := 16 + sumN (map (fun e => lenN e) entries) in
    Ok (mkEF (layout start (add_enc_boxes (cf_children f) (saiz_box_size z) senc_sz ids) mdat_hdr)
             (decoded_ivs encs) (decoded_subs encs) (map e_data encs)).

  (* the same with SencBox.AddSample in its repaired text (C06SencModel.senc_add_r: one sub-sample table per sample
     once one sample has a map): succeeds also on fragments mixing samples with and without protection ranges *)
  Definition encrypt_frag_r (sch : scheme) (key iv : list N) (cb sb : N) (start mdat_hdr ids : N) (f : cfrag)
    : res efrag :=
    let iv := pad_iv iv in
    if negb (lenN iv =? 16) then Err else
    do encs <- (match sch with
                | Cenc => encrypt_samples_cenc E protfunc key iv (cf_samples f)
                | Cbcs => encrypt_samples_cbcs E D protfunc key iv cb sb (cf_samples f)
                | SchemeOther => Err
                end);
    do z <- saiz_of saiz_empty encs;
    do s <- senc_of_r senc_empty encs;
    do entries <- senc_entries s 0 (N.to_nat (sn_count s));
    let senc_sz := 16 + sumN (map (fun e => lenN e) entries) in
    Ok (mkEF (layout start (add_enc_boxes (cf_children f) (saiz_box_size z) senc_sz ids) mdat_hdr)
             (decoded_ivs encs) (decoded_subs encs) (map e_data encs)).

  (* func DecryptFragment(frag, di, key): decrypt the samples in place, then the box surgery *)
  Definition decrypt_frag (sch : scheme) (key constiv : list N) (cb sb : N) (e : efrag)
    : res (frag * list (list N)) :=
    do samples <- decrypt_samples E D sch key constiv cb sb (ef_ivs e) (ef_subs e) (ef_data e);
    do g <- decrypt_frag_struct (ef_frag e);
    Ok (g, samples).
End Frag.
