(* C06FixedProofs.v — the typed fixed fields of the sample entry come back verbatim; the entry with the sinf at any
   position among its children is turned into the clear entry: every byte but the size field, the 4cc and the sinf
   child is identical.  Lemmas for C06_entry_fixed_fields / C06_entry_bytes_roundtrip. *)
From V.lib Require Import Base.
From V.c07 Require Import C07Model C07Spec C07CryptProofs.
From V.c06 Require Import C06InitModel C06SinfModel C06SinfProofs C06FixedModel.

Lemma cut_app {A} (a b : list A) n : length a = n -> cut n (a ++ b) = (a, b).
Proof.
  intros <-. unfold cut. rewrite firstn_app, Nat.sub_diag, firstn_all, skipn_app, Nat.sub_diag, skipn_all.
  cbn [firstn skipn app]. rewrite app_nil_r. reflexivity.
Qed.

Lemma be_field k x : x < 256 ^ N.of_nat k -> be (be_bytes k x) = x.
Proof. intros H. rewrite be_be_bytes. apply N.mod_small. exact H. Qed.

Lemma be_single x : be [x] = x.
Proof. unfold be. cbn [fold_left]. lia. Qed.

(* ---------------------------------------------------------------- typed fields: decode (encode v) = v *)
Lemma vfixed_encode_len v : lenN (vf_cname v) <= 31 -> length (vfixed_encode v) = 78%nat.
Proof.
  intros H. unfold vfixed_encode. rewrite !app_length, !repeat_length, !be_bytes_length. cbn [length].
  unfold lenN in H. lia.
Qed.

Lemma vfixed_codec v : vfixed_wf v = true -> vfixed_decode (vfixed_encode v) = Ok v.
Proof.
  unfold vfixed_wf. intros H. repeat (apply andb_true_iff in H; destruct H as [H ?]).
  repeat match goal with H : (_ <? _) = true |- _ => apply N.ltb_lt in H end.
  match goal with H : (_ <=? _) = true |- _ => apply N.leb_le in H end.
  unfold vfixed_decode, vfixed_encode.
  rewrite (cut_app (repeat 0 6)) by apply repeat_length.
  rewrite (cut_app (be_bytes 2 _)) by apply be_bytes_length.
  rewrite (cut_app (repeat 0 16)) by apply repeat_length.
  rewrite (cut_app (be_bytes 2 _)) by apply be_bytes_length.
  rewrite (cut_app (be_bytes 2 _)) by apply be_bytes_length.
  rewrite (cut_app (be_bytes 4 _)) by apply be_bytes_length.
  rewrite (cut_app (be_bytes 4 _)) by apply be_bytes_length.
  rewrite (cut_app (repeat 0 4)) by apply repeat_length.
  rewrite (cut_app (be_bytes 2 _)) by apply be_bytes_length.
  rewrite (cut_app [u8 (lenN (vf_cname v))]) by reflexivity.
  rewrite be_single.
  assert (Hu : u8 (lenN (vf_cname v)) = lenN (vf_cname v)) by (unfold u8; apply N.mod_small; lia).
  rewrite Hu. assert (E : (31 <? lenN (vf_cname v)) = false) by (apply N.ltb_ge; lia). rewrite E.
  rewrite !be_field by (cbn; lia).
  unfold lenN. rewrite Nat2N.id. rewrite firstn_app, Nat.sub_diag, firstn_all. cbn [firstn]. rewrite app_nil_r.
  destruct v; reflexivity.
Qed.

Lemma afixed_codec a : afixed_wf a = true -> afixed_decode (afixed_encode a) = a.
Proof.
  unfold afixed_wf. intros H. repeat (apply andb_true_iff in H; destruct H as [H ?]).
  repeat match goal with H : (_ <? _) = true |- _ => apply N.ltb_lt in H end.
  unfold afixed_decode, afixed_encode.
  rewrite (cut_app (repeat 0 6)) by apply repeat_length.
  rewrite (cut_app (be_bytes 2 _)) by apply be_bytes_length.
  rewrite (cut_app (repeat 0 8)) by apply repeat_length.
  rewrite (cut_app (be_bytes 2 _)) by apply be_bytes_length.
  rewrite (cut_app (be_bytes 2 _)) by apply be_bytes_length.
  rewrite (cut_app (repeat 0 4)) by apply repeat_length.
  rewrite (cut_app (be_bytes 2 _)) by apply be_bytes_length.
  rewrite !be_field by (cbn; lia). destruct a; reflexivity.
Qed.

Lemma fixed_fields_codec :
  (forall v, vfixed_wf v = true -> vfixed_decode (vfixed_encode v) = Ok v /\ length (vfixed_encode v) = 78%nat) /\
  (forall a, afixed_wf a = true -> afixed_decode (afixed_encode a) = a /\ length (afixed_encode a) = 28%nat).
Proof.
  split.
  - intros v H. split; [apply vfixed_codec; exact H|]. apply vfixed_encode_len.
    unfold vfixed_wf in H. repeat (apply andb_true_iff in H; destruct H as [H ?]).
    match goal with H : (_ <=? _) = true |- _ => apply N.leb_le in H; exact H end.
  - intros a H. split; [apply afixed_codec; exact H|].
    unfold afixed_encode. rewrite !app_length, !repeat_length, !be_bytes_length. reflexivity.
Qed.

(* what a decoder returns is within the field widths: the canonical re-encoding is a fixed point *)
Lemma be_bound l : bytes_ok l = true -> be l < 256 ^ N.of_nat (length l).
Proof.
  intros H. rewrite <- (be_bytes_be l H) at 1. rewrite be_be_bytes. apply N.mod_upper_bound.
  apply N.pow_nonzero. discriminate.
Qed.

Lemma bytes_ok_firstn n l : bytes_ok l = true -> bytes_ok (firstn n l) = true.
Proof.
  revert n. induction l as [|x t IH]; intros [|n] H; try reflexivity.
  cbn [firstn]. rewrite bytes_ok_cons in *. apply andb_true_iff in H. destruct H as [H1 H2].
  rewrite H1. cbn [andb]. apply IH. exact H2.
Qed.

Lemma bytes_ok_skipn n l : bytes_ok l = true -> bytes_ok (skipn n l) = true.
Proof.
  revert n. induction l as [|x t IH]; intros [|n] H; try reflexivity; [exact H|].
  cbn [skipn]. rewrite bytes_ok_cons in H. apply andb_true_iff in H. apply IH. apply H.
Qed.

Lemma be_cut_bound n l : bytes_ok l = true -> be (firstn n l) < 256 ^ N.of_nat n.
Proof.
  intros H. pose proof (be_bound (firstn n l) (bytes_ok_firstn n l H)) as Hb.
  eapply N.lt_le_trans; [exact Hb|]. apply N.pow_le_mono_r; [discriminate|].
  rewrite firstn_length. lia.
Qed.

Lemma vfixed_decode_wf b v : bytes_ok b = true -> vfixed_decode b = Ok v -> vfixed_wf v = true.
Proof.
  intros Hb. unfold vfixed_decode, cut.
  set (b1 := skipn 6 b). set (b2 := skipn 2 b1). set (b3 := skipn 16 b2). set (b4 := skipn 2 b3).
  set (b5 := skipn 2 b4). set (b6 := skipn 4 b5). set (b7 := skipn 4 b6). set (b8 := skipn 4 b7).
  set (b9 := skipn 2 b8). set (b10 := skipn 1 b9).
  assert (H1 : bytes_ok b1 = true) by (apply bytes_ok_skipn; exact Hb).
  assert (H2 : bytes_ok b2 = true) by (apply bytes_ok_skipn; exact H1).
  assert (H3 : bytes_ok b3 = true) by (apply bytes_ok_skipn; exact H2).
  assert (H4 : bytes_ok b4 = true) by (apply bytes_ok_skipn; exact H3).
  assert (H5 : bytes_ok b5 = true) by (apply bytes_ok_skipn; exact H4).
  assert (H6 : bytes_ok b6 = true) by (apply bytes_ok_skipn; exact H5).
  assert (H7 : bytes_ok b7 = true) by (apply bytes_ok_skipn; exact H6).
  assert (H8 : bytes_ok b8 = true) by (apply bytes_ok_skipn; exact H7).
  assert (H9 : bytes_ok b9 = true) by (apply bytes_ok_skipn; exact H8).
  assert (H10 : bytes_ok b10 = true) by (apply bytes_ok_skipn; exact H9).
  destruct (31 <? be (firstn 1 b9)) eqn:E; [discriminate|]. apply N.ltb_ge in E.
  intros H. injection H as <-. unfold vfixed_wf.
  cbn [vf_dri vf_width vf_height vf_hres vf_vres vf_frames vf_cname].
  pose proof (be_cut_bound 2 b1 H1). pose proof (be_cut_bound 2 b3 H3). pose proof (be_cut_bound 2 b4 H4).
  pose proof (be_cut_bound 4 b5 H5). pose proof (be_cut_bound 4 b6 H6). pose proof (be_cut_bound 2 b8 H8).
  assert (Hl : lenN (firstn (N.to_nat (be (firstn 1 b9))) b10) <= 31).
  { unfold lenN. rewrite firstn_length. lia. }
  rewrite (bytes_ok_firstn _ b10 H10).
  repeat (apply andb_true_iff; split); try (apply N.ltb_lt; cbn in *; lia); try reflexivity.
  apply N.leb_le. exact Hl.
Qed.

Lemma afixed_decode_wf b : bytes_ok b = true -> afixed_wf (afixed_decode b) = true.
Proof.
  intros Hb. unfold afixed_decode, cut.
  set (b1 := skipn 6 b). set (b2 := skipn 2 b1). set (b3 := skipn 8 b2). set (b4 := skipn 2 b3).
  set (b5 := skipn 2 b4). set (b6 := skipn 4 b5).
  assert (H1 : bytes_ok b1 = true) by (apply bytes_ok_skipn; exact Hb).
  assert (H2 : bytes_ok b2 = true) by (apply bytes_ok_skipn; exact H1).
  assert (H3 : bytes_ok b3 = true) by (apply bytes_ok_skipn; exact H2).
  assert (H4 : bytes_ok b4 = true) by (apply bytes_ok_skipn; exact H3).
  assert (H5 : bytes_ok b5 = true) by (apply bytes_ok_skipn; exact H4).
  assert (H6 : bytes_ok b6 = true) by (apply bytes_ok_skipn; exact H5).
  unfold afixed_wf. cbn [af_dri af_channels af_samplesize af_rate].
  pose proof (be_cut_bound 2 b1 H1). pose proof (be_cut_bound 2 b3 H3). pose proof (be_cut_bound 2 b4 H4).
  pose proof (be_cut_bound 2 b6 H6).
  repeat (apply andb_true_iff; split); apply N.ltb_lt; cbn in *; lia.
Qed.

(* for ANY input bytes: what the library writes back decodes to the same typed fields, and writing it again changes
   nothing (the normalisation of reserved / pre_defined bytes happens once, with or without protection) *)
Lemma fixed_reencode_stable k fx fx' :
  bytes_ok fx = true -> fixed_reencode k fx = Ok fx' ->
  fixed_reencode k fx' = Ok fx' /\ length fx' = fixed_len k /\
  match k with
  | SVisual => vfixed_decode fx' = vfixed_decode fx
  | SAudio => afixed_decode fx' = afixed_decode fx
  | SOtherKind => True
  end.
Proof.
  intros Hb. destruct k; cbn [fixed_reencode fixed_len].
  - destruct (vfixed_decode fx) as [v| | |] eqn:Ev; cbn [rbind]; try discriminate.
    intros H. injection H as <-. pose proof (vfixed_decode_wf fx v Hb Ev) as Hw.
    rewrite (vfixed_codec v Hw). cbn [rbind]. split; [reflexivity|]. split; [|reflexivity].
    apply vfixed_encode_len. unfold vfixed_wf in Hw. repeat (apply andb_true_iff in Hw; destruct Hw as [Hw ?]).
    match goal with H : (_ <=? _) = true |- _ => apply N.leb_le in H; exact H end.
  - intros H. injection H as <-. pose proof (afixed_decode_wf fx Hb) as Hw.
    rewrite (afixed_codec _ Hw). split; [reflexivity|]. split; [|reflexivity].
    unfold afixed_encode. rewrite !app_length, !repeat_length, !be_bytes_length. reflexivity.
  - discriminate.
Qed.

(* ---------------------------------------------------------------- children, 16-byte headers included *)
Lemma wf_large_parts b : wf_large b = true -> 16 <= lenN b /\ be (firstn 4 b) = 1 /\ be (firstn 8 (skipn 8 b)) = lenN b.
Proof.
  unfold wf_large. intros H. apply andb_true_iff in H. destruct H as [H H3]. apply andb_true_iff in H. destruct H as [H1 H2].
  apply N.leb_le in H1. apply N.eqb_eq in H2. apply N.eqb_eq in H3. auto.
Qed.

Lemma firstn_skipn_app_inside {A} (b rest : list A) i n :
  (i + n <= length b)%nat -> firstn n (skipn i (b ++ rest)) = firstn n (skipn i b).
Proof.
  intros H. rewrite skipn_app. replace (i - length b)%nat with 0%nat by lia. cbn [skipn].
  rewrite firstn_app. rewrite skipn_length. replace (n - (length b - i))%nat with 0%nat by lia.
  cbn [firstn]. apply app_nil_r.
Qed.

Lemma walk16_step b rest f :
  wf_box16 b = true ->
  walk_boxes16 (S f) (b ++ rest) = (do r <- walk_boxes16 f rest; Ok (b :: r)).
Proof.
  intros H. unfold wf_box16 in H. apply orb_true_iff in H.
  assert (Hcut : skipn (length b) (b ++ rest) = rest /\ firstn (length b) (b ++ rest) = b).
  { split.
    - rewrite skipn_app, Nat.sub_diag, skipn_all. reflexivity.
    - rewrite firstn_app, Nat.sub_diag, firstn_all. cbn [firstn]. apply app_nil_r. }
  destruct Hcut as [Hs Hf].
  destruct H as [H|H].
  - destruct (wf_box_parts b H) as (H8 & Hsz & H32).
    cbn [walk_boxes16]. rewrite lenN_app.
    assert (E0 : lenN b + lenN rest =? 0 = false) by (apply N.eqb_neq; lia). rewrite E0.
    assert (E1 : lenN b + lenN rest <? 8 = false) by (apply N.ltb_ge; lia). rewrite E1.
    cbn zeta. rewrite (firstn4_app b rest H8), Hsz.
    assert (E2 : lenN b =? 1 = false) by (apply N.eqb_neq; lia). rewrite E2.
    assert (E3 : lenN b <? 8 = false) by (apply N.ltb_ge; lia). rewrite E3.
    assert (E4 : lenN b + lenN rest <? lenN b = false) by (apply N.ltb_ge; lia). rewrite E4.
    unfold lenN at 1 2. rewrite Nat2N.id, Hs, Hf. reflexivity.
  - destruct (wf_large_parts b H) as (H16 & H1 & Hsz).
    cbn [walk_boxes16]. rewrite lenN_app.
    assert (E0 : lenN b + lenN rest =? 0 = false) by (apply N.eqb_neq; lia). rewrite E0.
    assert (E1 : lenN b + lenN rest <? 8 = false) by (apply N.ltb_ge; lia). rewrite E1.
    cbn zeta. rewrite (firstn4_app b rest ltac:(lia)), H1. cbn [N.eqb Pos.eqb].
    assert (E2 : lenN b + lenN rest <? 16 = false) by (apply N.ltb_ge; lia). rewrite E2.
    rewrite (firstn_skipn_app_inside b rest 8 8) by (unfold lenN in H16; lia). rewrite Hsz.
    assert (E3 : lenN b <? 16 = false) by (apply N.ltb_ge; lia). rewrite E3.
    assert (E4 : lenN b + lenN rest <? lenN b = false) by (apply N.ltb_ge; lia). rewrite E4.
    unfold lenN at 1 2. rewrite Nat2N.id, Hs, Hf. reflexivity.
Qed.

Lemma wf_box16_len b : wf_box16 b = true -> 8 <= lenN b.
Proof.
  unfold wf_box16. intros H. apply orb_true_iff in H. destruct H as [H|H].
  - destruct (wf_box_parts b H) as (H8 & _). exact H8.
  - destruct (wf_large_parts b H) as (H16 & _). lia.
Qed.

Lemma walk16_concat : forall bs fuel,
  forallb wf_box16 bs = true -> (length bs <= fuel)%nat -> walk_boxes16 fuel (concat bs) = Ok bs.
Proof.
  induction bs as [|b t IH]; intros fuel H Hf.
  - destruct fuel; reflexivity.
  - cbn [forallb] in H. apply andb_true_iff in H. destruct H as [Hb Ht].
    destruct fuel as [|f]; [cbn in Hf; lia|]. cbn [concat].
    rewrite (walk16_step b (concat t) f Hb). rewrite (IH f Ht ltac:(cbn in Hf; lia)). reflexivity.
Qed.

Lemma children16_concat bs : forallb wf_box16 bs = true -> children16 (concat bs) = Ok bs.
Proof.
  intros H. unfold children16. apply walk16_concat; [exact H|].
  assert (Hl : forall l : list (list N), forallb wf_box16 l = true -> (length l <= length (concat l))%nat).
  { induction l as [|b t IHl]; intros Hw; [cbn; lia|]. cbn [forallb] in Hw. apply andb_true_iff in Hw. destruct Hw as [Hb Ht].
    pose proof (wf_box16_len b Hb) as H8. cbn [concat length]. rewrite app_length. specialize (IHl Ht).
    unfold lenN in H8. lia. }
  specialize (Hl bs H). lia.
Qed.

(* ---------------------------------------------------------------- the sinf anywhere among the children *)
Lemma last_sinf_box_mid before s after acc :
  box_type s = cc_sinf -> no_sinf_box after = true -> last_sinf_box (before ++ s :: after) acc = Some s.
Proof.
  intros Hs Ha. revert acc. induction before as [|c t IH]; intros acc.
  - cbn [app last_sinf_box]. rewrite Hs, N.eqb_refl.
    generalize (Some s). induction after as [|a u IHu]; intros o; [reflexivity|].
    cbn [no_sinf_box forallb] in Ha. apply andb_true_iff in Ha. destruct Ha as [Ha1 Ha2].
    cbn [last_sinf_box]. destruct (box_type a =? cc_sinf); [discriminate|]. apply IHu. exact Ha2.
  - cbn [app last_sinf_box]. apply IH.
Qed.

Lemma no_sinf_existsb after : no_sinf_box after = true -> existsb (fun x => box_type x =? cc_sinf) after = false.
Proof.
  induction after as [|a u IH]; intros H; [reflexivity|].
  cbn [no_sinf_box forallb] in H. apply andb_true_iff in H. destruct H as [H1 H2].
  cbn [existsb]. destruct (box_type a =? cc_sinf); [discriminate|]. apply IH. exact H2.
Qed.

Lemma remove_last_sinf_box_mid before s after :
  box_type s = cc_sinf -> no_sinf_box after = true -> remove_last_sinf_box (before ++ s :: after) = before ++ after.
Proof.
  intros Hs Ha. induction before as [|c t IH].
  - cbn [app remove_last_sinf_box]. rewrite Hs, N.eqb_refl, (no_sinf_existsb after Ha). reflexivity.
  - cbn [app remove_last_sinf_box]. rewrite existsb_app. cbn [existsb]. rewrite Hs, N.eqb_refl. cbn [orb].
    rewrite orb_true_r. cbn [negb]. rewrite andb_false_r. f_equal. exact IH.
Qed.

(* decode (typed fixed fields) + RemoveEncryption + Encode of an entry protected with the sinf at ANY position: the
   clear entry with the re-encoded fixed fields, the children before and after the sinf in place *)
Lemma entry_typed_roundtrip k ty fx fx' before after sch t :
  k <> SOtherKind ->
  ty < 4294967296 -> sch < 4294967296 -> tenc_wf t = true ->
  length fx = fixed_len k -> fixed_reencode k fx = Ok fx' ->
  forallb wf_box16 before = true -> forallb wf_box16 after = true -> no_sinf_box after = true ->
  8 + lenN fx + lenN (concat before) + lenN (concat after) + 400 < 4294967296 ->
  unprotect_entry_typed k (protect_entry_bytes_at (enc_type k) ty fx before after sch t)
  = Ok (entry_bytes ty fx' (before ++ after), mkSD (Some ty) (Some sch) (Some (Some t))).
Proof.
  intros Hk Hty Hsch Ht Hlen Hre Hwb Hwa Hns Hsz. unfold unprotect_entry_typed, protect_entry_bytes_at.
  set (s := sinf_encode ty sch t).
  assert (Hbt : box_type (entry_bytes (enc_type k) fx (before ++ s :: after)) = enc_type k).
  { unfold entry_bytes. apply mkbox_type. destruct k; reflexivity. }
  rewrite Hbt, N.eqb_refl. cbn [negb].
  assert (Hp : box_payload (entry_bytes (enc_type k) fx (before ++ s :: after)) = fx ++ concat (before ++ s :: after))
    by (unfold entry_bytes; apply mkbox_payload).
  rewrite Hp.
  assert (E : lenN (fx ++ concat (before ++ s :: after)) <? N.of_nat (fixed_len k) = false).
  { apply N.ltb_ge. rewrite lenN_app. unfold lenN. lia. }
  rewrite E. rewrite <- Hlen. rewrite firstn_app_len by reflexivity. rewrite Hre. cbn [rbind].
  rewrite skipn_app, Nat.sub_diag, skipn_all. cbn [skipn app].
  pose proof (sinf_encode_len ty sch t Ht) as Hsl. fold s in Hsl.
  assert (Hws : wf_box s = true).
  { unfold s, sinf_encode. apply mkbox_wf. unfold s, sinf_encode in Hsl. rewrite mkbox_len in Hsl. lia. }
  assert (Hw' : forallb wf_box16 (before ++ s :: after) = true).
  { rewrite forallb_app, Hwb. cbn [forallb]. unfold wf_box16 at 1. rewrite Hws, Hwa. reflexivity. }
  rewrite (children16_concat _ Hw'). cbn [rbind].
  assert (Hst : box_type s = cc_sinf) by (unfold s, sinf_encode; apply mkbox_type; reflexivity).
  rewrite (last_sinf_box_mid before s after None Hst Hns).
  unfold s at 1. rewrite (sinf_codec ty sch t Hty Hsch Ht). cbn [rbind sd_frma].
  rewrite (remove_last_sinf_box_mid before s after Hst Hns). reflexivity.
Qed.

(* the byte layout of an entry: size field, 4cc, fixed fields, the children one after the other *)
Lemma entry_bytes_layout ty fixed children :
  entry_bytes ty fixed children
  = be_bytes4 (u32 (8 + lenN (fixed ++ concat children))) ++ be_bytes4 ty ++ fixed ++ concat children.
Proof. reflexivity. Qed.

(* "every byte of the entry except the size field, the 4cc and the sinf child is identical" *)
Lemma entry_bytes_identical k ty fx before after sch t :
  k <> SOtherKind ->
  ty < 4294967296 -> sch < 4294967296 -> tenc_wf t = true ->
  length fx = fixed_len k -> fixed_reencode k fx = Ok fx ->
  forallb wf_box16 before = true -> forallb wf_box16 after = true -> no_sinf_box after = true ->
  8 + lenN fx + lenN (concat before) + lenN (concat after) + 400 < 4294967296 ->
  exists clear size_p size_c,
    unprotect_entry_typed k (protect_entry_bytes_at (enc_type k) ty fx before after sch t)
    = Ok (clear, mkSD (Some ty) (Some sch) (Some (Some t))) /\
    protect_entry_bytes_at (enc_type k) ty fx before after sch t
    = size_p ++ be_bytes4 (enc_type k) ++ fx ++ concat before ++ sinf_encode ty sch t ++ concat after /\
    clear = size_c ++ be_bytes4 ty ++ fx ++ concat before ++ concat after /\
    length size_p = 4%nat /\ length size_c = 4%nat.
Proof.
  intros Hk Hty Hsch Ht Hlen Hre Hwb Hwa Hns Hsz.
  exists (entry_bytes ty fx (before ++ after)).
  exists (be_bytes4 (u32 (8 + lenN (fx ++ concat (before ++ sinf_encode ty sch t :: after))))).
  exists (be_bytes4 (u32 (8 + lenN (fx ++ concat (before ++ after))))).
  split; [apply (entry_typed_roundtrip k ty fx fx before after sch t); assumption|].
  split; [|split; [|split; reflexivity]].
  - unfold protect_entry_bytes_at. rewrite entry_bytes_layout. rewrite concat_app. cbn [concat]. reflexivity.
  - rewrite entry_bytes_layout. rewrite concat_app. reflexivity.
Qed.
