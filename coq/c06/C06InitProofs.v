(* C06InitProofs.v — DecryptInit undoes InitProtect. *)
From V.lib Require Import Base.
From V.c07 Require Import C07Model.
From V.c06 Require Import C06InitModel.

Definition no_sinf (l : list sechild) : bool := forallb (fun c => negb (is_sinf c)) l.
Definition no_pssh (m : list mvchild) : bool := forallb (fun c => negb (is_mvpssh c)) m.

Lemma last_sinf_app l s acc : last_sinf (l ++ [SESinf s]) acc = Some s.
Proof. revert acc. induction l as [|c t IH]; intros acc; [reflexivity|]. destruct c; cbn; apply IH. Qed.

Lemma remove_first_sinf_app l s : no_sinf l = true -> remove_first_sinf (l ++ [SESinf s]) = l.
Proof.
  induction l as [|c t IH]; intros H; [reflexivity|].
  cbn [no_sinf forallb] in H. apply andb_true_iff in H. destruct H as [Hc Ht].
  cbn [app remove_first_sinf]. destruct (is_sinf c); [discriminate|]. f_equal. apply IH. exact Ht.
Qed.

Lemma remove_last_sinf_app l s : remove_last_sinf (l ++ [SESinf s]) = l.
Proof.
  induction l as [|c t IH]; [reflexivity|].
  cbn [app remove_last_sinf]. rewrite existsb_app. cbn [existsb is_sinf orb]. rewrite orb_true_r.
  cbn [negb]. rewrite andb_false_r. f_equal. exact IH.
Qed.

Lemma decrypt_traks_notrak l :
  traks_of l = [] -> decrypt_traks l = Ok (l, []).
Proof.
  induction l as [|c t IH]; intros H; [reflexivity|].
  destruct c as [s|i|i]; cbn [traks_of flat_map app] in H; [discriminate| |];
    cbn [decrypt_traks]; rewrite (IH H); reflexivity.
Qed.

Lemma traks_of_app a b : traks_of (a ++ b) = traks_of a ++ traks_of b.
Proof. unfold traks_of. apply flat_map_app. Qed.

Lemma traks_of_psshs ps : traks_of (map MVPssh ps) = [].
Proof. induction ps; [reflexivity|exact IHps]. Qed.

Lemma replace_same m se : traks_of m = [[se]] -> replace_trak m [se] = m.
Proof.
  induction m as [|c t IH]; intros H; [discriminate|].
  destruct c as [s|i|i]; cbn [traks_of flat_map app] in H.
  - injection H as -> _. reflexivity.
  - cbn [replace_trak]. f_equal. apply IH. exact H.
  - cbn [replace_trak]. f_equal. apply IH. exact H.
Qed.

Lemma decrypt_traks_one m se se' se_r ti last ps :
  traks_of m = [[se]] ->
  decrypt_entries [se'] = Ok ([se_r], [ti], last) ->
  negb (last =? 0) && negb (last =? cc_cenc) && negb (last =? cc_cbcs) = false -> (last =? 0) = false ->
  decrypt_traks (replace_trak m [se'] ++ map MVPssh ps) = Ok (replace_trak m [se_r] ++ map MVPssh ps, [ti]).
Proof.
  intros Ht He Hl H0. induction m as [|c t IH]; [discriminate|].
  destruct c as [s|i|i]; cbn [traks_of flat_map app] in Ht.
  - injection Ht as -> Htt. cbn [replace_trak app decrypt_traks]. rewrite He. cbn [rbind]. rewrite Hl, H0.
    rewrite decrypt_traks_notrak by (rewrite traks_of_app, traks_of_psshs, app_nil_r; exact Htt).
    cbn [rbind fst snd]. rewrite app_nil_r. reflexivity.
  - cbn [replace_trak app decrypt_traks]. rewrite (IH Ht). reflexivity.
  - cbn [replace_trak app decrypt_traks]. rewrite (IH Ht). reflexivity.
Qed.

Lemma filter_protected m x ps :
  no_pssh m = true -> filter (fun c => negb (is_mvpssh c)) (replace_trak m x ++ map MVPssh ps) = replace_trak m x.
Proof.
  intros H. rewrite filter_app.
  assert (Hp : filter (fun c => negb (is_mvpssh c)) (map MVPssh ps) = []) by (induction ps; [reflexivity|exact IHps]).
  rewrite Hp, app_nil_r. clear Hp. revert H. induction m as [|c t IH]; intros H; [reflexivity|].
  cbn [no_pssh forallb] in H. apply andb_true_iff in H. destruct H as [Hc Ht].
  destruct c as [s|i|i]; cbn [replace_trak filter is_mvpssh negb]; try discriminate.
  - f_equal. clear IH. induction t as [|d u IHu]; [reflexivity|].
    cbn [forallb] in Ht. apply andb_true_iff in Ht. destruct Ht as [Hd Hu].
    cbn [filter]. rewrite Hd. f_equal. apply IHu. exact Hu.
  - f_equal. apply IH. exact Ht.
Qed.

(* DecryptInit (InitProtect init) = init: the sample entry type is restored from frma, the sinf and the pssh
   boxes are gone, every other child of the sample entry and of moov is kept in place; the decrypt side gets
   the scheme and the tenc that InitProtect returned *)
Lemma init_roundtrip m iv sch kid psshs ps_ok m' t :
  init_protect m iv sch kid psshs ps_ok = Ok (m', t) ->
  no_pssh m = true ->
  decrypt_init m' = Ok (m, [Some (sch, Some t)]).
Proof.
  unfold init_protect. intros H Hnp.
  destruct (traks_of m) as [|[|se [|? ?]] [|? ?]] eqn:Et; try discriminate.
  unfold protect_entry in H.
  destruct (match se_kind se with
            | SVisual => if supported_visual (se_type se) && ps_ok then Ok tt else Err
            | SAudio => Ok tt | SOtherKind => Err end) as [[]| | |] eqn:Ek; try discriminate.
  cbn [rbind] in H.
  set (tres := if sch =? cc_cenc then Ok (mkTenc 0 0 0 1 16 kid [])
               else if sch =? cc_cbcs then
                 match se_kind se with SVisual => Ok (mkTenc 1 1 9 1 0 kid (pad_iv iv)) | _ => Ok (mkTenc 1 0 0 1 0 kid (pad_iv iv)) end
               else Err) in *.
  destruct tres as [t0| | |] eqn:Etr; try discriminate. cbn [rbind fst snd] in H.
  injection H as <- <-.
  assert (Hsch : sch = cc_cenc \/ sch = cc_cbcs).
  { unfold tres in Etr. destruct (sch =? cc_cenc) eqn:E1; [left; apply N.eqb_eq; exact E1|].
    destruct (sch =? cc_cbcs) eqn:E2; [right; apply N.eqb_eq; exact E2|discriminate]. }
  set (se' := mkSE (se_kind se) (match se_kind se with SVisual => cc_encv | _ => cc_enca end)
                   (se_children se ++ [SESinf (mkSinf (se_type se) (Some sch) (Some t0))])).
  assert (He : decrypt_entries [se'] = Ok ([se], [Some (sch, Some t0)], sch)).
  { cbn [decrypt_entries].
    assert (Hty : (se_type se' =? cc_encv) || (se_type se' =? cc_enca) = true)
      by (unfold se'; cbn [se_type]; destruct (se_kind se); reflexivity).
    rewrite Hty. unfold remove_encryption, se'. cbn [se_children se_kind].
    rewrite last_sinf_app, remove_last_sinf_app. cbn [rbind snd fst si_schm si_frma si_tenc].
    destruct se as [k ty ch]. reflexivity. }
  unfold decrypt_init.
  rewrite (decrypt_traks_one m se se' se (Some (sch, Some t0)) sch psshs Et He).
  - cbn [rbind fst snd]. rewrite filter_protected by exact Hnp. rewrite replace_same by exact Et. reflexivity.
  - destruct Hsch as [-> | ->]; reflexivity.
  - destruct Hsch as [-> | ->]; reflexivity.
Qed.
