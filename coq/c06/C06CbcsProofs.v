(* C06CbcsProofs.v — cbcs decryption inverts cbcs encryption (1:9 pattern, unpatterned audio case, any pattern,
   every size class), for every pair of block functions with D k (E k b) = b on 16-byte blocks. *)
From V.lib Require Import Base.
From V.c07 Require Import C07Model C07Spec C07RangeProofs C07CbcsProofs.
From V.c06 Require Import C06CencProofs.

Lemma mult16' n : n mod 16 = 0 -> exists m, N.to_nat n = (16 * m)%nat.
Proof. intros H. exists (N.to_nat (n / 16)). pose proof (N.div_mod n 16). lia. Qed.

Lemma lenN_eq {A} (a b : list A) : length a = length b -> lenN a = lenN b.
Proof. intros H. unfold lenN. rewrite H. reflexivity. Qed.

Section CbcsInv.
  Variable E : list N -> list N -> list N.
  Variable D : list N -> list N -> list N.
  Variable key : list N.
  Hypothesis HE : forall k b, length (E k b) = 16%nat.
  Hypothesis HD : forall k b, length (D k b) = 16%nat.
  Hypothesis HDE : forall k b, length b = 16%nat -> D k (E k b) = b.

  Lemma cbc_enc_S f prev x t :
    cbc_enc E (S f) key prev (x :: t) =
    (let c := E key (xorl (firstn 16 (x :: t)) prev) in
     let '(o, p) := cbc_enc E f key c (skipn 16 (x :: t)) in (c ++ o, p)).
  Proof. reflexivity. Qed.

  Lemma cbc_dec_S f prev data :
    data <> [] ->
    cbc_dec D (S f) key prev data =
    (let c := firstn 16 data in
     let p := xorl (D key c) prev in
     let '(o, pv) := cbc_dec D f key c (skipn 16 data) in (p ++ o, pv)).
  Proof. destruct data; [congruence|reflexivity]. Qed.

  Lemma cbc_roundtrip : forall fuel m prev data,
    length prev = 16%nat -> length data = (16 * m)%nat -> (m < fuel)%nat ->
    cbc_dec D fuel key prev (fst (cbc_enc E fuel key prev data)) = (data, snd (cbc_enc E fuel key prev data)).
  Proof.
    induction fuel as [|f IH]; intros m prev data Hp Hd Hm; [lia|].
    destruct data as [|x t]; [reflexivity|].
    destruct m as [|m]; [cbn in Hd; lia|].
    rewrite cbc_enc_S. cbv zeta.
    set (blk := firstn 16 (x :: t)). set (rest := skipn 16 (x :: t)).
    assert (Hblk : length blk = 16%nat) by (unfold blk; rewrite firstn_length; lia).
    assert (Hrest : length rest = (16 * m)%nat) by (unfold rest; rewrite skipn_length; lia).
    set (c := E key (xorl blk prev)).
    assert (Hc : length c = 16%nat) by apply HE.
    specialize (IH m c rest Hc Hrest ltac:(lia)).
    destruct (cbc_enc E f key c rest) as [o p]. cbn [fst snd] in *.
    rewrite cbc_dec_S by (destruct c; [discriminate|discriminate]). cbv zeta.
    assert (Hf : firstn 16 (c ++ o) = c).
    { rewrite <- Hc at 1. rewrite firstn_app, firstn_all, Nat.sub_diag. cbn. apply app_nil_r. }
    assert (Hs : skipn 16 (c ++ o) = o).
    { rewrite <- Hc at 1. rewrite skipn_app, skipn_all, Nat.sub_diag. reflexivity. }
    rewrite Hf, Hs, IH. unfold c at 1.
    rewrite HDE by (rewrite xorl_len; lia). rewrite xorl_involutive by lia.
    unfold blk, rest. rewrite firstn_skipn. reflexivity.
  Qed.

  Lemma cbc_inv prev seg m :
    length prev = 16%nat -> length seg = (16 * m)%nat ->
    cbc E D true key prev (fst (cbc E D false key prev seg)) = (seg, snd (cbc E D false key prev seg)).
  Proof.
    intros Hp Hs.
    destruct (cbc_length E D key HE HD false prev seg m Hp Hs) as [Lo _].
    unfold cbc in *. rewrite Lo. apply (cbc_roundtrip (S (length seg)) m); [exact Hp|exact Hs|lia].
  Qed.

  Lemma firstn_app_exact {A} (a b : list A) n : n = length a -> firstn n (a ++ b) = a.
  Proof. intros ->. rewrite firstn_app, firstn_all, Nat.sub_diag. cbn. apply app_nil_r. Qed.

  Lemma skipn_app_exact {A} (a b : list A) n : n = length a -> skipn n (a ++ b) = b.
  Proof. intros ->. rewrite skipn_app, skipn_all, Nat.sub_diag. reflexivity. Qed.

  Lemma ref_pattern_inv nc ns : nc mod 16 = 0 ->
    forall fuel prev rest, length prev = 16%nat ->
    ref_pattern E D fuel true key prev (ref_pattern E D fuel false key prev rest nc ns) nc ns = rest.
  Proof.
    intros Hnc. induction fuel as [|f IH]; intros prev rest Hp; [reflexivity|].
    cbn [ref_pattern]. destruct (nc <=? lenN rest) eqn:Ec.
    2:{ cbn [ref_pattern]. rewrite Ec. reflexivity. }
    apply N.leb_le in Ec.
    destruct (mult16' nc Hnc) as (m & Hm).
    set (seg := firstn (N.to_nat nc) rest). set (rest2 := skipn (N.to_nat nc) rest).
    assert (Hsegl : length seg = (16 * m)%nat) by (unfold seg; rewrite firstn_length; unfold lenN in *; lia).
    pose proof (cbc_inv prev seg m Hp Hsegl) as Hinv.
    destruct (cbc_length E D key HE HD false prev seg m Hp Hsegl) as [Lo Lp].
    destruct (cbc E D false key prev seg) as [o prev'] eqn:Ecbc. cbn [fst snd] in *.
    assert (Hon : length o = N.to_nat nc) by lia.
    assert (Hr2 : length rest2 = (length rest - N.to_nat nc)%nat) by (unfold rest2; apply skipn_length).
    destruct (lenN rest - nc <? ns) eqn:Es.
    - (* last group *)
      assert (HL : lenN (o ++ rest2) = lenN rest) by (unfold lenN in *; rewrite app_length; lia).
      cbn [ref_pattern]. rewrite HL, (proj2 (N.leb_le _ _) Ec).
      rewrite (firstn_app_exact o rest2) by lia. rewrite Hinv, Es.
      rewrite (skipn_app_exact o rest2) by lia. unfold seg, rest2. apply firstn_skipn.
    - apply N.ltb_ge in Es.
      set (mid := firstn (N.to_nat ns) rest2). set (rest3 := skipn (N.to_nat ns) rest2).
      assert (Hmid : length mid = N.to_nat ns) by (unfold mid; rewrite firstn_length; unfold lenN in *; lia).
      set (W := ref_pattern E D f false key prev' rest3 nc ns).
      assert (HW : length W = length rest3) by (apply (ref_pattern_length E D key HE HD); assumption).
      assert (HL : lenN (o ++ mid ++ W) = lenN rest).
      { unfold lenN in *. rewrite !app_length, HW. unfold rest3. rewrite skipn_length. lia. }
      cbn [ref_pattern]. rewrite HL, (proj2 (N.leb_le _ _) Ec).
      rewrite (firstn_app_exact o (mid ++ W)) by lia. rewrite Hinv.
      assert (Es' : (lenN rest - nc <? ns) = false) by (apply N.ltb_ge; exact Es). rewrite Es'.
      rewrite (skipn_app_exact o (mid ++ W)) by lia.
      rewrite (firstn_app_exact mid W) by lia. rewrite (skipn_app_exact mid W) by lia.
      unfold W. rewrite IH by exact Lp.
      unfold mid, rest3. rewrite firstn_skipn. unfold seg, rest2. apply firstn_skipn.
  Qed.

  Lemma ref_cbcs_range_inv iv data nc ns :
    length iv = 16%nat -> nc mod 16 = 0 ->
    ref_cbcs_range E D true key iv (ref_cbcs_range E D false key iv data nc ns) nc ns = data.
  Proof.
    intros Hiv Hnc.
    pose proof (ref_cbcs_range_length E D key HE HD false iv data nc ns Hiv Hnc) as HL.
    unfold ref_cbcs_range in *. destruct (ns =? 0).
    - assert (HLN : lenN (fst (cbc E D false key iv (firstn (N.to_nat (lenN data / 16 * 16)) data)) ++
                          skipn (N.to_nat (lenN data / 16 * 16)) data) = lenN data)
        by (apply lenN_eq; exact HL).
      rewrite HLN. set (n16 := N.to_nat (lenN data / 16 * 16)) in *.
      destruct (mult16' (lenN data / 16 * 16) ltac:(apply N.mod_mul; discriminate)) as (m & Hm).
      assert (Hsegl : length (firstn n16 data) = (16 * m)%nat)
        by (rewrite firstn_length; unfold n16, lenN in *; lia).
      pose proof (cbc_inv iv (firstn n16 data) m Hiv Hsegl) as Hinv.
      destruct (cbc_length E D key HE HD false iv (firstn n16 data) m Hiv Hsegl) as [Lo _].
      assert (Hn : n16 = length (fst (cbc E D false key iv (firstn n16 data)))).
      { rewrite Lo, firstn_length. unfold n16, lenN in *. lia. }
      rewrite (firstn_app_exact _ _ n16 Hn), (skipn_app_exact _ _ n16 Hn), Hinv. cbn [fst].
      apply firstn_skipn.
    - rewrite HL. apply ref_pattern_inv; assumption.
  Qed.

  Lemma ref_cbcs_walk_length dec iv nc ns : length iv = 16%nat -> nc mod 16 = 0 ->
    forall ssps rest, length (ref_cbcs_walk E D dec key iv ssps rest nc ns) = length rest.
  Proof.
    intros Hiv Hnc. induction ssps as [|ss t IH]; intros rest; [reflexivity|].
    cbn [ref_cbcs_walk]. rewrite !app_length, IH.
    assert (Hx : length (if 0 <? ss_prot ss
                         then ref_cbcs_range E D dec key iv
                                (firstn (N.to_nat (ss_prot ss)) (skipn (N.to_nat (ss_clear ss)) rest)) nc ns
                         else firstn (N.to_nat (ss_prot ss)) (skipn (N.to_nat (ss_clear ss)) rest))
                 = length (firstn (N.to_nat (ss_prot ss)) (skipn (N.to_nat (ss_clear ss)) rest))).
    { destruct (0 <? ss_prot ss); [apply (ref_cbcs_range_length E D key HE HD); assumption|reflexivity]. }
    rewrite Hx. rewrite <- !app_length, !firstn_skipn. reflexivity.
  Qed.

  Lemma ref_cbcs_walk_inv iv nc ns : length iv = 16%nat -> nc mod 16 = 0 ->
    forall ssps rest,
    sumN (map (fun p => ss_clear p + ss_prot p) ssps) <= lenN rest ->
    ref_cbcs_walk E D true key iv ssps (ref_cbcs_walk E D false key iv ssps rest nc ns) nc ns = rest.
  Proof.
    intros Hiv Hnc. induction ssps as [|ss t IH]; intros rest Hsum; [reflexivity|].
    cbn [map sumN] in Hsum. cbn [ref_cbcs_walk].
    set (c := N.to_nat (ss_clear ss)). set (p := N.to_nat (ss_prot ss)).
    set (r1 := firstn c rest). set (mid := firstn p (skipn c rest)). set (post := skipn p (skipn c rest)).
    assert (Hr1 : length r1 = c) by (unfold r1; rewrite firstn_length; unfold c, lenN in *; lia).
    assert (Hmid : length mid = p)
      by (unfold mid; rewrite firstn_length, skipn_length; unfold c, p, lenN in *; lia).
    set (X := if 0 <? ss_prot ss then ref_cbcs_range E D false key iv mid nc ns else mid).
    assert (HX : length X = p).
    { unfold X. destruct (0 <? ss_prot ss); [rewrite (ref_cbcs_range_length E D key HE HD) by assumption|]; exact Hmid. }
    set (W := ref_cbcs_walk E D false key iv t post nc ns).
    rewrite (firstn_app_exact r1 (X ++ W)) by lia.
    rewrite (skipn_app_exact r1 (X ++ W)) by lia.
    rewrite (firstn_app_exact X W) by lia. rewrite (skipn_app_exact X W) by lia.
    unfold W. rewrite IH.
    2:{ unfold post. unfold lenN in *. rewrite !skipn_length. unfold c, p. lia. }
    assert (HXi : (if 0 <? ss_prot ss then ref_cbcs_range E D true key iv X nc ns else X) = mid).
    { unfold X. destruct (0 <? ss_prot ss); [apply ref_cbcs_range_inv; assumption|reflexivity]. }
    rewrite HXi. unfold r1, mid, post. rewrite firstn_skipn. apply firstn_skipn.
  Qed.

  (* DecryptSampleCbcs inverts EncryptSampleCbcs *)
  Lemma crypt_sample_cbcs_inverse iv ssps cb sb s c :
    key_ok key = true -> length iv = 16%nat ->
    sumN (map (fun p => ss_clear p + ss_prot p) ssps) <= lenN s ->
    lenN s < 4294967296 ->
    crypt_sample_cbcs E D false key iv ssps cb sb s = Ok c ->
    crypt_sample_cbcs E D true key iv ssps cb sb c = Ok s.
  Proof.
    intros Hk Hiv Hsum Hlen H.
    rewrite (crypt_sample_cbcs_ref E D key HE HD false iv ssps cb sb s Hk Hiv Hsum Hlen) in H.
    inversion H as [Hc]. clear H.
    assert (Hnc : (cb * 16) mod 16 = 0) by (apply N.mod_mul; discriminate).
    assert (HL : length (ref_cbcs E D false key iv ssps cb sb s) = length s).
    { unfold ref_cbcs. destruct ssps;
        [apply (ref_cbcs_range_length E D key HE HD)|apply ref_cbcs_walk_length]; assumption. }
    assert (HLN : lenN (ref_cbcs E D false key iv ssps cb sb s) = lenN s) by (apply lenN_eq; exact HL).
    rewrite (crypt_sample_cbcs_ref E D key HE HD true iv ssps cb sb) by (rewrite ?HLN; assumption).
    f_equal. unfold ref_cbcs. destruct ssps as [|ss t].
    - apply ref_cbcs_range_inv; assumption.
    - apply ref_cbcs_walk_inv; assumption.
  Qed.
End CbcsInv.
