(* C06SencModel.v — byte-level model of the senc box as EncryptFragment's SencBox is written (SencBox.Encode:
   calcSize, EncodeHeaderSW with a compact header, EncodeSWNoHdr) and as the decrypt side re-reads it
   (DecodeSenc / DecodeSencSR, then TrafBox.ParseReadSenc -> SencBox.ParseReadBox / parseAndFillSamples with
   the perSampleIVSize of tenc), plus SaizBox / SaioBox as written by EncryptFragment.  The SencBox state is the
   record `senc` of the C07 model (perSampleIVSize, sub-sample flag, SampleCount, IVs, SubSamples); the
   per-sample entries are C07's senc_entry.  Definitions only.
   Not modelled: 16-byte (largesize) box headers, version / flag bits other than UseSubSampleEncryption on the
   encode side (EncryptFragment never sets them; the decode side reads them). *)
From V.lib Require Import Base.
From V.c07 Require Import C07Model.

Definition cc_senc_bytes : list N := [115; 101; 110; 99].   (* "senc" *)

Fixpoint bytes_eqb (a b : list N) : bool :=
  match a, b with
  | [], [] => true
  | x :: a', y :: b' => (x =? y) && bytes_eqb a' b'
  | _, _ => false
  end.

(* ---------------------------------------------------------------- encode *)
(* the loop of calcSize: s.SubSamples[i] panics when the list is shorter than SampleCount *)
Fixpoint senc_calc_loop (s : senc) (i : nat) (n : nat) : res N :=
  match n with
  | O => Ok 0
  | S m =>
      do e <- (if sn_subs s then do ss <- nth_res (sn_ss s) i; Ok (2 + 6 * lenN ss) else Ok 0);
      do r <- senc_calc_loop s (S i) m;
      Ok (sn_ivsize s + e + r)
  end.

(* func (s *SencBox) calcSize() uint64 *)
Definition senc_calc_size (s : senc) : res N :=
  if (sn_ivsize s =? 0) && negb (sn_subs s) then Ok 16
  else do l <- senc_calc_loop s 0 (N.to_nat (sn_count s)); Ok (16 + l).

(* func (s *SencBox) Encode(w): a FixedSliceWriter of Size() bytes, header (size, "senc"), version+flags,
   sample_count, the per-sample entries of EncodeSWNoHdr.  Err = ErrSliceWrite (more bytes than calcSize) *)
Definition senc_encode (s : senc) : res (list N) :=
  do size <- senc_calc_size s;
  do entries <- (if (sn_ivsize s =? 0) && negb (sn_subs s) then Ok []
                 else senc_entries s 0 (N.to_nat (sn_count s)));
  let body := [0; 0; 0; (if sn_subs s then 2 else 0)] ++ be_bytes4 (sn_count s) ++ concat entries in
  if size <? 8 + lenN body then Err
  else Ok (be_bytes4 size ++ cc_senc_bytes ++ body).

(* ---------------------------------------------------------------- decode, phase 1 *)
(* SencBox after DecodeSenc: Flags, SampleCount, rawData, readButNotParsed *)
Record senc_raw := mkRaw { r_flags : N; r_count : N; r_raw : list N; r_pending : bool }.

(* func DecodeSenc(hdr, startPos, r) / DecodeSencSR: `box` is the complete box as it stands in the file; the
   reader hands over exactly hdr.Size bytes (a shorter stream is a read error) *)
Definition senc_decode (box : list N) : res senc_raw :=
  let size := be (firstn 4 box) in
  if negb (bytes_eqb (firstn 4 (skipn 4 box)) cc_senc_bytes) then Err   (* not dispatched to DecodeSenc *)
  else if negb (lenN box =? size) then Err
  else if size <? 16 then Err
  else
    let vf := be (firstn 4 (skipn 8 box)) in
    let version := vf / 16777216 in
    let flags := vf mod 16777216 in
    if 0 <? version then Err
    else
      let count := be (firstn 4 (skipn 12 box)) in
      let raw := skipn 16 box in
      if negb (N.land flags 2 =? 0) && (lenN raw <? 2 * count) then Err
      else Ok (mkRaw flags count raw (negb ((count =? 0) || (lenN raw =? 0)))).

(* ---------------------------------------------------------------- decode, phase 2 *)
(* `for i := 0; i < SampleCount; i++ { IVs = append(IVs, sr.ReadBytes(sz)) }` (the caller has checked the room) *)
Fixpoint read_ivs (n : nat) (sz : nat) (data : list N) : list (list N) :=
  match n with
  | O => []
  | S m => firstn sz data :: read_ivs m sz (skipn sz data)
  end.

(* `for j := 0; j < subsampleCount; j++ { clear = ReadUint16(); prot = ReadUint32() }` *)
Fixpoint read_ssps (n : nat) (data : list N) : list ssp * list N :=
  match n with
  | O => ([], data)
  | S m =>
      let p := mkSsp (be (firstn 2 data)) (be (firstn 4 (skipn 2 data))) in
      let '(r, rest) := read_ssps m (skipn 6 data) in
      (p :: r, rest)
  end.

(* the loop of parseAndFillSamples; None = `ok = false; break` *)
Fixpoint parse_fill (n : nat) (ivsz : N) (data : list N) : option (list (list N) * list (list ssp) * list N) :=
  match n with
  | O => Some ([], [], data)
  | S m =>
      if (0 <? ivsz) && (lenN data <? ivsz) then None
      else
        let iv := firstn (N.to_nat ivsz) data in
        let d1 := skipn (N.to_nat ivsz) data in
        if lenN d1 <? 2 then None
        else
          let cnt := be (firstn 2 d1) in
          let d2 := skipn 2 d1 in
          if lenN d2 <? cnt * 6 then None
          else
            let '(ss, d3) := read_ssps (N.to_nat cnt) d2 in
            match parse_fill m ivsz d3 with
            | None => None
            | Some (ivs, sss, rest) => Some ((if 0 <? ivsz then iv :: ivs else ivs), ss :: sss, rest)
            end
  end.

(* func (s *SencBox) parseAndFillSamples(sr, perSampleIVSize) (ok bool): also fails on left-over bytes *)
Definition parse_and_fill (count : N) (ivsz : N) (raw : list N) : option (list (list N) * list (list ssp)) :=
  match parse_fill (N.to_nat count) ivsz raw with
  | Some (ivs, sss, []) => Some (ivs, sss)
  | _ => None
  end.

(* func (s *SencBox) ParseReadBox(perSampleIVSize byte, saiz *SaizBox) error *)
Definition parse_read_box (p : N) (r : senc_raw) : res senc :=
  if negb (r_pending r) then Err                                  (* "senc box already parsed" *)
  else
    let left := u32 (lenN (r_raw r)) in
    let count := r_count r in
    if N.land (r_flags r) 2 =? 0 then
      do p' <- (if p =? 0 then (if count =? 0 then Panic else Ok (u8 (left / count))) else Ok p);
      if negb (left =? p' * count) then Err        (* text after the fix: the IVs must fill the data exactly *)
      else if p' =? 0 then Ok (mkSenc 0 false count [] [])
      else if (p' =? 8) || (p' =? 16) then
        Ok (mkSenc p' false count (read_ivs (N.to_nat count) (N.to_nat p') (r_raw r)) [])
      else Err
    else if negb (p =? 0) then
      match parse_and_fill count p (r_raw r) with
      | Some (ivs, sss) => Ok (mkSenc p true count ivs sss)
      | None => Err
      end
    else
      match parse_and_fill count 0 (r_raw r) with
      | Some (ivs, sss) => Ok (mkSenc 0 true count ivs sss)
      | None =>
          match parse_and_fill count 8 (r_raw r) with
          | Some (ivs, sss) => Ok (mkSenc 8 true count ivs sss)
          | None =>
              match parse_and_fill count 16 (r_raw r) with
              | Some (ivs, sss) => Ok (mkSenc 16 true count ivs sss)
              | None => Err
              end
          end
      end.

(* what DecryptFragment works with: ContainsSencBox says parsed when SampleCount == 0 or no payload, otherwise
   ParseReadSenc(tenc.DefaultPerSampleIVSize) runs ParseReadBox *)
Definition senc_parse (p : N) (box : list N) : res senc :=
  do r <- senc_decode box;
  if r_pending r then parse_read_box p r
  else Ok (mkSenc 0 (negb (N.land (r_flags r) 2 =? 0)) (r_count r) [] []).

(* ---------------------------------------------------------------- saiz / saio as written *)
(* SaizBox.EncodeSW with Flags = 0: header, version+flags, default_sample_info_size, sample_count, then one
   size byte per sample when the default is 0 (SampleInfo[i] panics when short) *)
Fixpoint saiz_info_loop (info : list N) (i : nat) (n : nat) : res (list N) :=
  match n with
  | O => Ok []
  | S m => do b <- nth_res info i; do r <- saiz_info_loop info (S i) m; Ok (b :: r)
  end.

Definition saiz_size (z : saiz) : N := 17 + (if sz_default z =? 0 then sz_count z else 0).

Definition saiz_encode (z : saiz) : res (list N) :=
  do info <- (if sz_default z =? 0 then saiz_info_loop (sz_info z) 0 (N.to_nat (sz_count z)) else Ok []);
  Ok (be_bytes4 (saiz_size z) ++ [115; 97; 105; 122] ++ [0; 0; 0; 0] ++ [sz_default z] ++ be_bytes4 (sz_count z) ++ info).

(* the auxiliary-information sizes a saiz box describes, sample by sample *)
Definition saiz_sizes (z : saiz) : list N :=
  if sz_default z =? 0 then sz_info z else repeat (sz_default z) (N.to_nat (sz_count z)).

(* SaioBox.EncodeSW, version 0, Flags = 0, one offset written as int32 *)
Definition saio_encode (off : N) : list N :=
  be_bytes4 20 ++ [115; 97; 105; 111] ++ [0; 0; 0; 0] ++ be_bytes4 1 ++ be_bytes4 (u32 off).

(* ---------------------------------------------------------------- the traf as the decrypt side reads it *)
(* TrafBox.ParseReadSenc: the saio offset (relative to the moof start) must designate the first byte after the
   16 bytes of senc header / version / flags / sample_count, then ParseReadBox *)
Definition parse_read_senc (p : N) (moof_start senc_start : N) (saio_off : option N) (r : senc_raw) : res senc :=
  match saio_off with
  | Some off => if negb (off + moof_start =? senc_start + 16) then Err else parse_read_box p r
  | None => parse_read_box p r
  end.

(* DecryptFragment's way to the senc contents: hasSenc/isParsed, ParseReadSenc when not parsed *)
Definition traf_senc (p : N) (moof_start senc_start : N) (saio_off : option N) (box : list N) : res senc :=
  do r <- senc_decode box;
  if r_pending r then parse_read_senc p moof_start senc_start saio_off r
  else Ok (mkSenc 0 (negb (N.land (r_flags r) 2 =? 0)) (r_count r) [] []).

(* the seig branch of TrafBox.ParseReadSenc: `perSampleIVSize := defaultIVSize` (tenc), and when the traf's sbgp and
   sgpd are seig sample groups (one sbgp entry pointing at the first fragment-local sgpd entry)
   `perSampleIVSize = seigEntry.PerSampleIVSize`.  seig = that value when the traf carries such a group *)
Definition effective_iv_size (tenc_p : N) (seig : option N) : N :=
  match seig with Some q => q | None => tenc_p end.

Definition traf_senc_seig (tenc_p : N) (seig : option N) (moof_start senc_start : N) (saio_off : option N) (box : list N)
  : res senc := traf_senc (effective_iv_size tenc_p seig) moof_start senc_start saio_off box.

(* ---------------------------------------------------------------- SencBox.AddSample, repaired text *)
(* func (s *SencBox) AddSample(sample SencSample) error after the fix commits ecf1460 and 0b086ee in /repo: a sample
   without IV after samples with per-sample IVs is refused, and once sub-sample encryption is in use SubSamples
   holds one entry per sample (nil entries for the samples before / after that have no sub-samples).  C07Model's
   senc_add is the pinned text; the two agree on the fragments EncryptFragment builds when every sample has a
   sub-sample map or none has (C06SencAuxProofs.senc_of_r_uniform) *)
Definition senc_add_iv_r (s : senc) (iv : list N) : res senc :=
  if negb (lenN iv =? 0) then
    if sn_count s =? 0 then
      Ok (mkSenc (u8 (lenN iv)) (sn_subs s) (sn_count s) (sn_ivs s ++ [iv]) (sn_ss s))
    else if negb (lenN iv =? sn_ivsize s) then Err
    else Ok (mkSenc (sn_ivsize s) (sn_subs s) (sn_count s) (sn_ivs s ++ [iv]) (sn_ss s))
  else if negb (sn_count s =? 0) && negb (lenN (sn_ivs s) =? 0) then Err
  else Ok s.

Definition senc_add_ss_r (s1 : senc) (ssps : list ssp) : senc :=
  let has := match ssps with [] => false | _ => true end in
  let s2 := if has || sn_subs s1 then
              mkSenc (sn_ivsize s1) (sn_subs s1 || has) (sn_count s1) (sn_ivs s1)
                     (sn_ss s1 ++ repeat [] (N.to_nat (sn_count s1) - length (sn_ss s1)) ++ [ssps])
            else s1 in
  mkSenc (sn_ivsize s2) (sn_subs s2) (sn_count s2 + 1) (sn_ivs s2) (sn_ss s2).

Definition senc_add_r (s : senc) (iv : list N) (ssps : list ssp) : res senc :=
  do s1 <- senc_add_iv_r s iv; Ok (senc_add_ss_r s1 ssps).

Fixpoint senc_of_r (s : senc) (l : list enc_sample) : res senc :=
  match l with
  | [] => Ok s
  | e :: t => do s' <- senc_add_r s (e_iv e) (e_ssps e); senc_of_r s' t
  end.
