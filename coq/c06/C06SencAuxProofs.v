(* C06SencAuxProofs.v — what EncryptFragment's per-sample loop leaves in the SencBox / SaizBox, that it is a
   well-formed SencBox state (so the codec theorem applies), that the saiz sizes describe the senc entries one by
   one, that the saio offset addresses the first entry in the encoded moof, and that the decoder hands
   decryptSamplesInPlace exactly the IV / sub-sample lists the fragment theorems assume. *)
From V.lib Require Import Base.
From V.c07 Require Import C07Model C07AuxProofs.
From V.c06 Require Import C06Model C06SencModel C06SencProofs.

Definition nonempty {A} (l : list A) : bool := match l with [] => false | _ => true end.

(* all samples of the fragment carry an IV of ivsz bytes (16 for cenc, 0 for cbcs) and either all have a sub-sample
   map (video: sub = true) or none has (audio: sub = false) *)
Definition uniform (ivsz : N) (sub : bool) (encs : list enc_sample) : bool :=
  forallb (fun e => (lenN (e_iv e) =? ivsz) && Bool.eqb (nonempty (e_ssps e)) sub) encs.

Lemma mkSenc_eq a b c d e a' b' c' d' e' :
  a = a' -> b = b' -> c = c' -> d = d' -> e = e' -> Ok (mkSenc a b c d e) = Ok (mkSenc a' b' c' d' e').
Proof. intros; subst; reflexivity. Qed.

Ltac fld t :=
  first [ reflexivity
        | rewrite lenN_cons; lia
        | destruct t; cbn [nonempty andb orb]; rewrite ?orb_false_r, ?orb_true_r, ?andb_true_r; reflexivity
        | rewrite ?app_nil_r, <- ?app_assoc; reflexivity ].

Lemma senc_of_acc ivsz sub : forall encs s,
  ivsz < 256 -> uniform ivsz sub encs = true ->
  (0 < ivsz -> sn_count s = 0 \/ sn_ivsize s = ivsz) ->
  senc_of s encs =
  Ok (mkSenc (match encs with [] => sn_ivsize s | _ => if ivsz =? 0 then sn_ivsize s else ivsz end)
             (sn_subs s || (sub && nonempty encs))
             (sn_count s + lenN encs)
             (sn_ivs s ++ (if ivsz =? 0 then [] else map e_iv encs))
             (sn_ss s ++ (if sub then map e_ssps encs else []))).
Proof.
  induction encs as [|e t IH]; intros s Hlt Hu Hs.
  - cbn [senc_of nonempty map]. rewrite andb_false_r, orb_false_r, N.add_0_r.
    destruct (ivsz =? 0), sub; rewrite !app_nil_r; destruct s; reflexivity.
  - cbn [uniform forallb] in Hu. apply andb_true_iff in Hu. destruct Hu as [He Ht].
    apply andb_true_iff in He. destruct He as [Hiv Hsub]. apply N.eqb_eq in Hiv. apply eqb_prop in Hsub.
    cbn [senc_of]. unfold senc_add. rewrite Hiv.
    destruct (ivsz =? 0) eqn:Ez.
    + (* no IV stored *)
      cbn [negb rbind].
      destruct (e_ssps e) as [|p ps] eqn:Ess; cbn [nonempty] in Hsub; subst sub.
      * rewrite IH; [|exact Hlt|exact Ht|cbn [sn_count sn_ivsize]; intros Hp; apply N.eqb_eq in Ez; lia].
        cbn [sn_ivsize sn_subs sn_count sn_ivs sn_ss andb map]. apply mkSenc_eq; fld t.
      * rewrite IH; [|exact Hlt|exact Ht|cbn [sn_count sn_ivsize]; intros Hp; apply N.eqb_eq in Ez; lia].
        cbn [sn_ivsize sn_subs sn_count sn_ivs sn_ss andb nonempty map]. rewrite ?Ess. apply mkSenc_eq; fld t.
    + cbn [negb]. apply N.eqb_neq in Ez. assert (Hpos : 0 < ivsz) by lia.
      assert (Hu8 : u8 ivsz = ivsz) by (unfold u8; apply N.mod_small; exact Hlt).
      assert (Hstep : (if sn_count s =? 0 then Ok (mkSenc (u8 ivsz) (sn_subs s) (sn_count s) (sn_ivs s ++ [e_iv e]) (sn_ss s))
                       else if negb (ivsz =? sn_ivsize s) then Err
                       else Ok (mkSenc (sn_ivsize s) (sn_subs s) (sn_count s) (sn_ivs s ++ [e_iv e]) (sn_ss s)))
                      = Ok (mkSenc ivsz (sn_subs s) (sn_count s) (sn_ivs s ++ [e_iv e]) (sn_ss s))).
      { destruct (sn_count s =? 0) eqn:Ec; [rewrite Hu8; reflexivity|].
        destruct (Hs Hpos) as [H0|H1]; [apply N.eqb_neq in Ec; congruence|].
        rewrite H1, N.eqb_refl. reflexivity. }
      rewrite Hstep. cbn [rbind sn_ivsize sn_subs sn_count sn_ivs sn_ss].
      assert (Ez' : ivsz =? 0 = false) by (apply N.eqb_neq; exact Ez).
      destruct (e_ssps e) as [|p ps] eqn:Ess; cbn [nonempty] in Hsub; subst sub.
      * rewrite IH; [|exact Hlt|exact Ht|cbn [sn_count sn_ivsize]; intros _; right; reflexivity].
        cbn [sn_ivsize sn_subs sn_count sn_ivs sn_ss andb map]. rewrite ?Ez'. apply mkSenc_eq; fld t.
      * rewrite IH; [|exact Hlt|exact Ht|cbn [sn_count sn_ivsize]; intros _; right; reflexivity].
        cbn [sn_ivsize sn_subs sn_count sn_ivs sn_ss andb nonempty map]. rewrite ?Ez', ?Ess. apply mkSenc_eq; fld t.
Qed.

(* the SencBox at the end of the loop *)
Definition senc_after (ivsz : N) (sub : bool) (encs : list enc_sample) : senc :=
  mkSenc (match encs with [] => 0 | _ => ivsz end) (sub && nonempty encs) (lenN encs)
         (if ivsz =? 0 then [] else map e_iv encs) (if sub then map e_ssps encs else []).

Lemma senc_of_spec ivsz sub encs :
  ivsz < 256 -> uniform ivsz sub encs = true -> senc_of senc_empty encs = Ok (senc_after ivsz sub encs).
Proof.
  intros Hlt Hu. rewrite (senc_of_acc ivsz sub) by (try assumption; intros _; left; reflexivity).
  unfold senc_after. cbn [senc_empty sn_ivsize sn_subs sn_count sn_ivs sn_ss orb app]. f_equal.
  destruct encs; [reflexivity|]. destruct (ivsz =? 0) eqn:Ez; [apply N.eqb_eq in Ez; subst; reflexivity|reflexivity].
Qed.

Lemma uniform_forall ivsz sub encs :
  uniform ivsz sub encs = true ->
  forallb (fun iv => lenN iv =? ivsz) (map e_iv encs) = true /\
  (sub = true -> forallb nonempty (map e_ssps encs) = true) /\
  (sub = false -> forallb (fun l => negb (nonempty l)) (map e_ssps encs) = true).
Proof.
  induction encs as [|e t IH]; intros H; [repeat split; reflexivity|].
  cbn [uniform forallb] in H. apply andb_true_iff in H. destruct H as [He Ht].
  apply andb_true_iff in He. destruct He as [Hiv Hsub]. apply eqb_prop in Hsub.
  destruct (IH Ht) as [I1 [I2 I3]]. cbn [map forallb]. rewrite Hiv, I1. split; [reflexivity|].
  split; intros Hs; rewrite Hsub, Hs; cbn [negb andb]; [apply I2|apply I3]; exact Hs.
Qed.

(* ... is a well-formed SencBox state *)
Lemma senc_after_wf ivsz sub encs :
  (ivsz = 0 \/ ivsz = 8 \/ ivsz = 16) -> uniform ivsz sub encs = true ->
  forallb subs_ok (map e_ssps encs) = true -> lenN encs < 4294967296 ->
  senc_wf (senc_after ivsz sub encs) = true.
Proof.
  intros Hsz Hu Hok Hc. destruct (uniform_forall _ _ _ Hu) as [U1 _].
  unfold senc_wf, senc_after. cbn [sn_ivsize sn_subs sn_count sn_ivs sn_ss].
  destruct encs as [|e t].
  - cbn [nonempty map lenN length]. rewrite andb_false_r. destruct (ivsz =? 0), sub; reflexivity.
  - cbn [nonempty]. rewrite ?andb_true_r.
    assert (Hcb : lenN (e :: t) <? 4294967296 = true) by (apply N.ltb_lt; exact Hc).
    assert (Hm1 : lenN (map e_iv (e :: t)) =? lenN (e :: t) = true) by (unfold lenN; rewrite map_length; apply N.eqb_refl).
    assert (Hm2 : lenN (map e_ssps (e :: t)) =? lenN (e :: t) = true) by (unfold lenN; rewrite map_length; apply N.eqb_refl).
    rewrite Hcb, ?andb_true_r.
    destruct Hsz as [-> | [-> | ->]]; cbn [N.eqb Pos.eqb orb andb]; rewrite ?Hm1, ?U1; cbn [andb];
      destruct sub; rewrite ?Hm2, ?Hok; reflexivity.
Qed.

(* what the decoder hands to decryptSamplesInPlace (C06Model.decoded_ivs / decoded_subs) is the content of that
   SencBox *)
Lemma decoded_ivs_after ivsz sub encs :
  uniform ivsz sub encs = true -> sn_ivs (senc_after ivsz sub encs) = decoded_ivs encs.
Proof.
  intros Hu. unfold senc_after, decoded_ivs. cbn [sn_ivs].
  destruct (ivsz =? 0) eqn:Ez.
  - apply N.eqb_eq in Ez. subst ivsz.
    assert (H : existsb (fun e => negb (lenN (e_iv e) =? 0)) encs = false).
    { induction encs as [|e t IH]; [reflexivity|]. cbn [uniform forallb] in Hu. apply andb_true_iff in Hu.
      destruct Hu as [He Ht]. apply andb_true_iff in He. destruct He as [Hiv _].
      cbn [existsb]. rewrite Hiv. cbn [negb orb]. apply IH. exact Ht. }
    rewrite H. reflexivity.
  - destruct encs as [|e t]; [reflexivity|].
    cbn [uniform forallb] in Hu. apply andb_true_iff in Hu. destruct Hu as [He _].
    apply andb_true_iff in He. destruct He as [Hiv _]. apply N.eqb_eq in Hiv.
    cbn [existsb]. rewrite Hiv, Ez. reflexivity.
Qed.

Lemma decoded_subs_after ivsz sub encs :
  uniform ivsz sub encs = true -> sn_ss (senc_after ivsz sub encs) = decoded_subs encs.
Proof.
  intros Hu. unfold senc_after, decoded_subs. cbn [sn_ss].
  destruct sub.
  - destruct encs as [|e t]; [reflexivity|].
    cbn [uniform forallb] in Hu. apply andb_true_iff in Hu. destruct Hu as [He _].
    apply andb_true_iff in He. destruct He as [_ Hs]. apply eqb_prop in Hs.
    cbn [existsb]. destruct (e_ssps e); [discriminate|]. reflexivity.
  - assert (H : existsb (fun e => match e_ssps e with [] => false | _ => true end) encs = false).
    { induction encs as [|e t IH]; [reflexivity|]. cbn [uniform forallb] in Hu. apply andb_true_iff in Hu.
      destruct Hu as [He Ht]. apply andb_true_iff in He. destruct He as [_ Hs]. apply eqb_prop in Hs.
      cbn [existsb]. destruct (e_ssps e); [|discriminate]. cbn [orb]. apply IH. exact Ht. }
    rewrite H. reflexivity.
Qed.

(* ---------------------------------------------------------------- saiz *)
Lemma mkSaiz_eq a b c a' b' c' : a = a' -> b = b' -> c = c' -> Ok (mkSaiz a b c) = Ok (mkSaiz a' b' c').
Proof. intros; subst; reflexivity. Qed.

Lemma saiz_of_sub ivsz : forall encs z,
  uniform ivsz true encs = true ->
  saiz_of z encs = Ok (mkSaiz (sz_info z ++ map (fun e => u8 (ivsz + 2 + lenN (e_ssps e) * 6)) encs)
                              (sz_default z) (sz_count z + lenN encs)).
Proof.
  induction encs as [|e t IH]; intros z Hu.
  - cbn [saiz_of map]. rewrite app_nil_r, N.add_0_r. destruct z; reflexivity.
  - cbn [uniform forallb] in Hu. apply andb_true_iff in Hu. destruct Hu as [He Ht].
    apply andb_true_iff in He. destruct He as [Hiv Hs]. apply N.eqb_eq in Hiv. apply eqb_prop in Hs.
    cbn [saiz_of]. destruct (e_ssps e) as [|p ps] eqn:Ess; [discriminate|].
    rewrite saiz_add_cons. cbn [rbind]. rewrite IH by exact Ht.
    cbn [sz_info sz_default sz_count map]. rewrite Ess, Hiv. apply mkSaiz_eq; [rewrite <- app_assoc; reflexivity|reflexivity|rewrite (lenN_cons e t); lia].
Qed.

Lemma saiz_of_nosub ivsz : forall encs z,
  0 < ivsz -> ivsz < 256 -> uniform ivsz false encs = true ->
  sz_default z = 0 \/ sz_default z = ivsz ->
  saiz_of z encs = Ok (mkSaiz (sz_info z) (match encs with [] => sz_default z | _ => ivsz end) (sz_count z + lenN encs)).
Proof.
  induction encs as [|e t IH]; intros z Hp Hlt Hu Hd.
  - cbn [saiz_of]. rewrite N.add_0_r. destruct z; reflexivity.
  - cbn [uniform forallb] in Hu. apply andb_true_iff in Hu. destruct Hu as [He Ht].
    apply andb_true_iff in He. destruct He as [Hiv Hs]. apply N.eqb_eq in Hiv. apply eqb_prop in Hs.
    cbn [saiz_of]. unfold saiz_add. destruct (e_ssps e) as [|p ps] eqn:Ess; [|discriminate].
    rewrite Hiv. assert (Hpb : 0 <? ivsz = true) by (apply N.ltb_lt; exact Hp). rewrite Hpb.
    assert (Hu8 : u8 ivsz = ivsz) by (unfold u8; apply N.mod_small; exact Hlt). rewrite Hu8.
    destruct (sz_default z =? 0) eqn:Ed.
    + cbn [rbind]. rewrite IH; [|exact Hp|exact Hlt|exact Ht|cbn [sz_default]; right; reflexivity].
      cbn [sz_info sz_default sz_count]. apply mkSaiz_eq; [reflexivity|destruct t; reflexivity|rewrite (lenN_cons e t); lia].
    + destruct Hd as [Hd|Hd]; [apply N.eqb_neq in Ed; congruence|]. rewrite Hd, N.eqb_refl. cbn [rbind].
      rewrite IH; [|exact Hp|exact Hlt|exact Ht|cbn [sz_default]; right; reflexivity].
      cbn [sz_info sz_default sz_count]. apply mkSaiz_eq; [reflexivity|destruct t; reflexivity|rewrite (lenN_cons e t); lia].
Qed.

Lemma saiz_of_none : forall encs z, uniform 0 false encs = true -> saiz_of z encs = Ok z.
Proof.
  induction encs as [|e t IH]; intros z Hu; [reflexivity|].
  cbn [uniform forallb] in Hu. apply andb_true_iff in Hu. destruct Hu as [He Ht].
  apply andb_true_iff in He. destruct He as [Hiv Hs]. apply N.eqb_eq in Hiv. apply eqb_prop in Hs.
  cbn [saiz_of]. unfold saiz_add. destruct (e_ssps e); [|discriminate]. rewrite Hiv. cbn [N.ltb N.compare rbind].
  apply IH. exact Ht.
Qed.

(* the entries the senc box carries, one per sample *)
Definition entries_of (ivsz : N) (sub : bool) (encs : list enc_sample) : list (list N) :=
  map (fun e => (if 0 <? ivsz then e_iv e else []) ++ (if sub then sub_bytes (e_ssps e) else [])) encs.

Lemma zip_entries_map hasiv sub : forall encs,
  zip_entries hasiv sub (length encs) (map e_iv encs) (map e_ssps encs)
  = map (fun e => (if hasiv then e_iv e else []) ++ (if sub then sub_bytes (e_ssps e) else [])) encs.
Proof. induction encs as [|e t IH]; [reflexivity|]. cbn [length zip_entries map hd tl]. rewrite IH. reflexivity. Qed.

Lemma uniform_iv_len ivsz sub encs e : uniform ivsz sub encs = true -> In e encs -> lenN (e_iv e) = ivsz.
Proof.
  induction encs as [|x t IH]; intros Hu He; [destruct He|].
  cbn [uniform forallb] in Hu. apply andb_true_iff in Hu. destruct Hu as [Hx Ht].
  destruct He as [-> |He]; [apply andb_true_iff in Hx; destruct Hx as [Hx _]; apply N.eqb_eq; exact Hx|apply IH; assumption].
Qed.

(* saiz describes the senc entries: same number of samples, and each recorded size is the byte length of the
   corresponding entry, as long as that length fits the 8-bit field (C07-F1 is the recorded finding beyond) *)
Lemma aux_consistent ivsz sub encs z :
  (ivsz = 0 \/ ivsz = 8 \/ ivsz = 16) -> uniform ivsz sub encs = true ->
  forallb (fun e => lenN e <? 256) (entries_of ivsz sub encs) = true ->
  saiz_of saiz_empty encs = Ok z ->
  if sub || (0 <? ivsz) then
    saiz_sizes z = map (fun e => lenN e) (entries_of ivsz sub encs) /\ sz_count z = lenN encs
  else
    saiz_sizes z = [] /\ sz_count z = 0 /\ concat (entries_of ivsz sub encs) = [].
Proof.
  intros Hsz Hu Hsmall Hz. assert (Hlt : ivsz < 256) by (destruct Hsz as [-> | [-> | ->]]; lia).
  destruct sub.
  - cbn [orb]. rewrite (saiz_of_sub ivsz) in Hz by exact Hu. apply Ok_inj' in Hz. subst z.
    unfold saiz_sizes. cbn [saiz_empty sz_info sz_default sz_count app N.eqb]. split; [|lia].
    unfold entries_of. rewrite map_map.
    unfold entries_of in Hsmall. rewrite forallb_forall in Hsmall.
    apply map_ext_in. intros e He.
    specialize (Hsmall ((if 0 <? ivsz then e_iv e else []) ++ sub_bytes (e_ssps e))).
    rewrite lenN_app, sub_bytes_len. rewrite lenN_app, sub_bytes_len in Hsmall.
    assert (Hiv : lenN (if 0 <? ivsz then e_iv e else []) = ivsz).
    { destruct (0 <? ivsz) eqn:Ep; [apply (uniform_iv_len _ _ _ _ Hu He)|apply N.ltb_ge in Ep; change (lenN (@nil N)) with 0; lia]. }
    rewrite Hiv in *. unfold u8. rewrite N.mod_small.
    + lia.
    + assert (Hin : In ((if 0 <? ivsz then e_iv e else []) ++ sub_bytes (e_ssps e))
                       (map (fun e0 => (if 0 <? ivsz then e_iv e0 else []) ++ sub_bytes (e_ssps e0)) encs)).
      { apply in_map_iff. exists e. split; [reflexivity|exact He]. }
      apply Hsmall in Hin. apply N.ltb_lt in Hin. lia.
  - cbn [orb]. destruct (0 <? ivsz) eqn:Ep.
    + apply N.ltb_lt in Ep.
      rewrite (saiz_of_nosub ivsz) in Hz; [|exact Ep|exact Hlt|exact Hu|left; reflexivity].
      apply Ok_inj' in Hz. subst z. unfold saiz_sizes. cbn [saiz_empty sz_info sz_default sz_count].
      split; [|lia]. destruct encs as [|e t]; [reflexivity|].
      assert (Ez : ivsz =? 0 = false) by (apply N.eqb_neq; lia). rewrite Ez.
      replace (N.to_nat (0 + lenN (e :: t))) with (length (e :: t)) by (unfold lenN; lia).
      destruct (uniform_forall _ _ _ Hu) as [U1 _]. clear Hsmall Hu.
      unfold entries_of. assert (Epb : 0 <? ivsz = true) by (apply N.ltb_lt; exact Ep). rewrite Epb.
      generalize dependent (e :: t). intros l U1. induction l as [|x l IH]; [reflexivity|].
      cbn [map forallb] in U1. apply andb_true_iff in U1. destruct U1 as [Hx Hl]. apply N.eqb_eq in Hx.
      cbn [length repeat map]. rewrite app_nil_r, Hx. f_equal. apply IH. exact Hl.
    + apply N.ltb_ge in Ep. assert (ivsz = 0) by lia. subst ivsz.
      rewrite saiz_of_none in Hz by exact Hu. apply Ok_inj' in Hz. subst z.
      split; [reflexivity|]. split; [reflexivity|].
      unfold entries_of. change (0 <? 0) with false. clear. induction encs as [|e t IH]; [reflexivity|].
      cbn [map concat app]. exact IH.
Qed.

(* ---------------------------------------------------------------- saio *)
Lemma skipn_add {A} : forall n m (l : list A), skipn (n + m) l = skipn m (skipn n l).
Proof.
  induction n as [|n IH]; intros m l; [reflexivity|]. destruct l as [|x l]; [cbn; rewrite skipn_nil; reflexivity|].
  cbn [Nat.add skipn]. apply IH.
Qed.

(* the encoded moof, byte for byte: moof header, the boxes before the traf, traf header, the traf's boxes before
   senc (saiz and saio among them), the senc box, whatever follows.  The offset EncryptFragment stores in saio
   (C07 saio_offset over the box sizes) addresses the first per-sample entry, and ParseReadSenc's comparison with
   the senc box position holds *)
Lemma saio_points_at_entries moof_hdr traf_hdr (before pre : list (list N)) post senc_hdr16 entries tail :
  length moof_hdr = 8%nat -> length traf_hdr = 8%nat -> length senc_hdr16 = 16%nat ->
  forallb (fun x : bool * N => negb (fst x)) post = true ->
  let off := saio_offset (map (fun b => lenN b) before)
                         (map (fun b => (false, lenN b)) pre ++ (true, lenN (senc_hdr16 ++ entries)) :: post) in
  let moof := moof_hdr ++ concat before ++ traf_hdr ++ concat pre ++ (senc_hdr16 ++ entries) ++ tail in
  skipn (N.to_nat off) moof = entries ++ tail /\
  off = lenN (moof_hdr ++ concat before ++ traf_hdr ++ concat pre) + 16.
Proof.
  intros Lm Lt Ls Hpost off moof.
  assert (Hoff : off = 8 + sumN (map (fun b => lenN b) before) + 8 + sumN (map snd (map (fun b => (false, lenN b)) pre)) + 16).
  { unfold off. apply saio_offset_spec; [|exact Hpost]. clear. induction pre; [reflexivity|]. cbn [map forallb fst negb andb]. assumption. }
  rewrite map_map in Hoff. cbn [snd] in Hoff. rewrite <- !lenN_concat in Hoff.
  assert (Hlen : off = lenN (moof_hdr ++ concat before ++ traf_hdr ++ concat pre) + 16).
  { rewrite !lenN_app. unfold lenN at 1 3. rewrite Lm, Lt. rewrite Hoff. lia. }
  split; [|exact Hlen].
  unfold moof. replace (moof_hdr ++ concat before ++ traf_hdr ++ concat pre ++ (senc_hdr16 ++ entries) ++ tail)
    with ((moof_hdr ++ concat before ++ traf_hdr ++ concat pre) ++ senc_hdr16 ++ entries ++ tail)
    by (rewrite <- !app_assoc; reflexivity).
  rewrite Hlen. unfold lenN. rewrite N2Nat.inj_add, Nat2N.id.
  rewrite skipn_add, skipn_app_exact by reflexivity. change (N.to_nat 16) with 16%nat.
  apply skipn_app_exact. exact Ls.
Qed.

(* ---------------------------------------------------------------- the loops of EncryptFragment are uniform *)
From V.c07 Require Import C07IvProofs.

Section Loops.
  Variable E : list N -> list N -> list N.
  Variable D : list N -> list N -> list N.
  Variable protfunc : list N -> res (list ssp).

  (* sub = true: ProtFunc gives every sample of the fragment a non-empty map (video); false: none (audio) *)
  Definition prot_uniform (sub : bool) (samples : list (list N)) : Prop :=
    forall s ssps, In s samples -> protfunc s = Ok ssps -> nonempty ssps = sub.
  Definition prot_in_range (samples : list (list N)) : Prop :=
    forall s ssps, In s samples -> protfunc s = Ok ssps -> subs_ok ssps = true.

  Lemma cenc_loop_uniform sub : forall samples key iv encs,
    length iv = 16%nat -> prot_uniform sub samples ->
    encrypt_samples_cenc E protfunc key iv samples = Ok encs ->
    uniform 16 sub encs = true /\ length encs = length samples.
  Proof.
    induction samples as [|s t IH]; intros key iv encs Hl Hu H.
    - cbn [encrypt_samples_cenc] in H. apply Ok_inj' in H. subst encs. split; reflexivity.
    - cbn [encrypt_samples_cenc] in H.
      destruct (protfunc s) as [ssps| | |] eqn:Ep; try discriminate. cbn [rbind] in H.
      destruct (crypt_sample_cenc E key iv ssps s) as [c| | |]; try discriminate. cbn [rbind] in H.
      destruct (encrypt_samples_cenc E protfunc key (increment_iv iv ssps (lenN s)) t) as [r| | |] eqn:Er; try discriminate.
      cbn [rbind] in H. apply Ok_inj' in H. subst encs.
      destruct (IH key (increment_iv iv ssps (lenN s)) r) as [U L].
      + unfold increment_iv. rewrite increment_iv_inplace_length. exact Hl.
      + intros x y Hx. apply Hu. right. exact Hx.
      + exact Er.
      + split; [|cbn [length]; rewrite L; reflexivity].
        cbn [uniform forallb e_iv e_ssps]. fold (uniform 16 sub r). rewrite U, andb_true_r.
        unfold lenN. rewrite Hl. cbn [N.of_nat Pos.of_succ_nat Pos.succ N.eqb Pos.eqb andb].
        rewrite (Hu s ssps (or_introl eq_refl) Ep). destruct sub; reflexivity.
  Qed.

  Lemma cbcs_loop_uniform sub : forall samples key iv cb sb encs,
    prot_uniform sub samples ->
    encrypt_samples_cbcs E D protfunc key iv cb sb samples = Ok encs ->
    uniform 0 sub encs = true /\ length encs = length samples.
  Proof.
    induction samples as [|s t IH]; intros key iv cb sb encs Hu H.
    - cbn [encrypt_samples_cbcs] in H. apply Ok_inj' in H. subst encs. split; reflexivity.
    - cbn [encrypt_samples_cbcs] in H.
      destruct (protfunc s) as [ssps| | |] eqn:Ep; try discriminate. cbn [rbind] in H.
      destruct (crypt_sample_cbcs E D false key iv ssps cb sb s) as [c| | |]; try discriminate. cbn [rbind] in H.
      destruct (encrypt_samples_cbcs E D protfunc key iv cb sb t) as [r| | |] eqn:Er; try discriminate.
      cbn [rbind] in H. apply Ok_inj' in H. subst encs.
      destruct (IH key iv cb sb r) as [U L]; [intros x y Hx; apply Hu; right; exact Hx|exact Er|].
      split; [|cbn [length]; rewrite L; reflexivity].
      cbn [uniform forallb e_iv e_ssps]. fold (uniform 0 sub r). rewrite U, andb_true_r.
      change (lenN (@nil N) =? 0) with true. cbn [andb].
      rewrite (Hu s ssps (or_introl eq_refl) Ep). destruct sub; reflexivity.
  Qed.

  Lemma cenc_loop_ssps : forall samples key iv encs,
    prot_in_range samples -> encrypt_samples_cenc E protfunc key iv samples = Ok encs ->
    forallb subs_ok (map e_ssps encs) = true.
  Proof.
    induction samples as [|s t IH]; intros key iv encs Hr H.
    - cbn [encrypt_samples_cenc] in H. apply Ok_inj' in H. subst encs. reflexivity.
    - cbn [encrypt_samples_cenc] in H.
      destruct (protfunc s) as [ssps| | |] eqn:Ep; try discriminate. cbn [rbind] in H.
      destruct (crypt_sample_cenc E key iv ssps s) as [c| | |]; try discriminate. cbn [rbind] in H.
      destruct (encrypt_samples_cenc E protfunc key (increment_iv iv ssps (lenN s)) t) as [r| | |] eqn:Er; try discriminate.
      cbn [rbind] in H. apply Ok_inj' in H. subst encs. cbn [map forallb e_ssps].
      rewrite (Hr s ssps (or_introl eq_refl) Ep). cbn [andb].
      apply (IH key (increment_iv iv ssps (lenN s)) r); [intros x y Hx; apply Hr; right; exact Hx|exact Er].
  Qed.

  Lemma cbcs_loop_ssps : forall samples key iv cb sb encs,
    prot_in_range samples -> encrypt_samples_cbcs E D protfunc key iv cb sb samples = Ok encs ->
    forallb subs_ok (map e_ssps encs) = true.
  Proof.
    induction samples as [|s t IH]; intros key iv cb sb encs Hr H.
    - cbn [encrypt_samples_cbcs] in H. apply Ok_inj' in H. subst encs. reflexivity.
    - cbn [encrypt_samples_cbcs] in H.
      destruct (protfunc s) as [ssps| | |] eqn:Ep; try discriminate. cbn [rbind] in H.
      destruct (crypt_sample_cbcs E D false key iv ssps cb sb s) as [c| | |]; try discriminate. cbn [rbind] in H.
      destruct (encrypt_samples_cbcs E D protfunc key iv cb sb t) as [r| | |] eqn:Er; try discriminate.
      cbn [rbind] in H. apply Ok_inj' in H. subst encs. cbn [map forallb e_ssps].
      rewrite (Hr s ssps (or_introl eq_refl) Ep). cbn [andb].
      apply (IH key iv cb sb r); [intros x y Hx; apply Hr; right; exact Hx|exact Er].
  Qed.
End Loops.

(* ---------------------------------------------------------------- transport: encrypt loop -> senc bytes -> decrypt loop *)
(* For the samples of one fragment (uniformly with or without sub-sample maps, IV size ivsz), the senc box that
   EncryptFragment + Encode write is parsed by the decrypt side (perSampleIVSize p from tenc: the written size, or
   0 = infer when there are no sub-sample tables) into exactly the IV list and sub-sample lists that
   decryptSamplesInPlace is given in the fragment round-trip theorems *)
Lemma senc_transport ivsz sub encs s box p :
  (ivsz = 0 \/ ivsz = 8 \/ ivsz = 16) -> uniform ivsz sub encs = true ->
  forallb subs_ok (map e_ssps encs) = true -> lenN encs < 4294967296 ->
  senc_of senc_empty encs = Ok s -> senc_encode s = Ok box -> lenN box < 4294967296 ->
  p_ok p s = true ->
  exists s', senc_parse p box = Ok s' /\ sn_ivs s' = decoded_ivs encs /\ sn_ss s' = decoded_subs encs /\
             sn_count s' = lenN encs.
Proof.
  intros Hsz Hu Hok Hc Hs Henc Hlen Hp.
  assert (Hlt : ivsz < 256) by (destruct Hsz as [-> | [-> | ->]]; lia).
  rewrite (senc_of_spec ivsz sub) in Hs by assumption. apply Ok_inj' in Hs. subst s.
  exists (senc_after ivsz sub encs). split.
  - apply senc_codec; try assumption. apply senc_after_wf; assumption.
  - split; [apply decoded_ivs_after; exact Hu|]. split; [apply decoded_subs_after; exact Hu|reflexivity].
Qed.

Lemma senc_transport_cenc E protfunc sub key iv samples encs s box :
  length iv = 16%nat -> prot_uniform protfunc sub samples -> prot_in_range protfunc samples ->
  lenN samples < 4294967296 ->
  encrypt_samples_cenc E protfunc key iv samples = Ok encs ->
  senc_of senc_empty encs = Ok s -> senc_encode s = Ok box -> lenN box < 4294967296 ->
  exists s', senc_parse 16 box = Ok s' /\ sn_ivs s' = decoded_ivs encs /\ sn_ss s' = decoded_subs encs /\
             sn_count s' = lenN samples.
Proof.
  intros Hl Hu Hr Hc He Hs Henc Hlen.
  destruct (cenc_loop_uniform E protfunc sub samples key iv encs Hl Hu He) as [U L].
  pose proof (cenc_loop_ssps E protfunc samples key iv encs Hr He) as Hok.
  assert (Hcn : lenN encs = lenN samples) by (unfold lenN; rewrite L; reflexivity).
  destruct encs as [|e t].
  - cbn [senc_of] in Hs. apply Ok_inj' in Hs. subst s. vm_compute in Henc. apply Ok_inj' in Henc. subst box.
    exists (mkSenc 0 false 0 [] []). rewrite <- Hcn. repeat split; reflexivity.
  - rewrite <- Hcn in *.
    destruct (senc_transport 16 sub (e :: t) s box 16) as [s' H]; try assumption.
    + right; right; reflexivity.
    + rewrite (senc_of_spec 16 sub) in Hs by (try assumption; lia). apply Ok_inj' in Hs. subst s. reflexivity.
    + exists s'. exact H.
Qed.

Lemma senc_transport_cbcs E D protfunc sub key iv cb sb samples encs s box :
  prot_uniform protfunc sub samples -> prot_in_range protfunc samples ->
  lenN samples < 4294967296 ->
  encrypt_samples_cbcs E D protfunc key iv cb sb samples = Ok encs ->
  senc_of senc_empty encs = Ok s -> senc_encode s = Ok box -> lenN box < 4294967296 ->
  exists s', senc_parse 0 box = Ok s' /\ sn_ivs s' = decoded_ivs encs /\ sn_ss s' = decoded_subs encs /\
             sn_count s' = lenN samples.
Proof.
  intros Hu Hr Hc He Hs Henc Hlen.
  destruct (cbcs_loop_uniform E D protfunc sub samples key iv cb sb encs Hu He) as [U L].
  pose proof (cbcs_loop_ssps E D protfunc samples key iv cb sb encs Hr He) as Hok.
  assert (Hcn : lenN encs = lenN samples) by (unfold lenN; rewrite L; reflexivity).
  rewrite <- Hcn in *.
  destruct (senc_transport 0 sub encs s box 0) as [s' H]; try assumption.
  - left; reflexivity.
  - rewrite (senc_of_spec 0 sub) in Hs by (try assumption; lia). apply Ok_inj' in Hs. subst s.
    destruct encs; reflexivity.
  - exists s'. exact H.
Qed.

(* a fragment mixing samples with and without a sub-sample map (a video sample without any NAL unit next to a
   normal one) is outside `uniform`: AddSample stores one table for two samples, and Encode indexes out of range *)
Lemma mixed_subsamples_refuted :
  let encs := [mkEnc (repeat 1 16) [] []; mkEnc (repeat 2 16) [mkSsp 5 16] []] in
  exists s, senc_of senc_empty encs = Ok s /\ sn_count s = 2 /\ length (sn_ss s) = 1%nat /\ senc_encode s = Panic.
Proof. eexists. split; [vm_compute; reflexivity|]. repeat split. Qed.
