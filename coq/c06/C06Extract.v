(* Extraction of the C06 models for the correspondence check (the cipher is the Gallina AES of C07Aes.v).
   ExtrOcamlBasic only. *)
From V.lib Require Import Base.
From V.c07 Require Import C07Model C07Spec C07Aes.
From V.c06 Require Import C06Model C06InitModel C06SencModel C06TrexModel C06TimingModel C06SinfModel C06MultiModel C06FixedModel C06TrafTimingModel.
Require Import ExtrOcamlBasic.
Separate Extraction
  ssp scheme tkind tbox mchild frag
  tenc_t sinf_t sechild sekind sentry mvchild init_protect decrypt_init
  decrypt_samples remove_encryption_boxes decrypt_frag_struct moof_size
  crypt_sample_cenc crypt_sample_cbcs
  aes128_encrypt aes128_decrypt
  senc saiz enc_sample senc_of saiz_of senc_empty saiz_empty increment_iv pad_iv saio_offset
  sizing sample_sizes split_samples senc_calc_size senc_encode saiz_encode saio_encode senc_parse traf_senc traf_senc_seig senc_of_r
  tsample trun_t tfhd_t trex_t add_sample_defaults fragment_meta trun_encode_body trun_decode_body set_data_offset
  protect_entry protect_entry_bytes unprotect_entry_bytes sinf_decode sinf_d children_of box_type box_payload be be_bytes
  xtraf xchild xfrag tinfo decrypt_multi xmoof_size xbox_size
  traf_meta total_dur
  vfixed afixed vfixed_decode vfixed_encode afixed_decode afixed_encode unprotect_entry_typed
  Z.of_N.  (* Z.of_N only so that BinNums.coq_Z exists for ocaml/vx.ml *)
