(* C17HistModel.v — a typed SEI message VALUE and the HISTORIES it can have been through.
   In the model a typed message is the record of its EXPORTED fields (sei.TimeCodeSEI,
   sei.PicTimingAvcSEI, sei.MasteringDisplayColourVolumeSEI, sei.ContentLightLevelInformationSEI
   have no other state in the Go text), so Size()/Payload() are functions of that record and of
   nothing else.  The Go values the correspondence drives are obtained through histories
     build (struct literal) | decode (DecodeXxx, DecodeSEIMessage, avc/hevc.ParseSEINalu)
       -> steps: edit exported fields | copy the struct | call the serialiser and drop the result |
                 serialise and decode again
       -> Size() / Payload() / WriteSEIMessages / decode
   and the harness compares the observables of the FINAL Go value with `typed_observe` of the final
   field record: a Go message that carried hidden state through such a history (a cached payload,
   say) disagrees with the model there.
   Definitions only. *)
From V.lib Require Import Base.
From V.c13 Require Import C13Model.
From V.c17 Require Import C17Spec C17Model C17TypedModel.

Inductive typed :=
| TTimeCode (cs : list clock)
| TPicTiming (m : pic_timing)
| TMdcv (m : mdcv)
| TCll (m : cll).

(* Type() / Size() / Payload() *)
Definition typed_type (t : typed) : N :=
  match t with TTimeCode _ => 136 | TPicTiming _ => 1 | TMdcv _ => 137 | TCll _ => 144 end.
Definition typed_size (t : typed) : N :=
  match t with
  | TTimeCode cs => tc_size cs
  | TPicTiming m => pt_size m
  | TMdcv _ => mdcv_size
  | TCll _ => cll_size
  end.
Definition typed_payload (t : typed) : list N :=
  match t with
  | TTimeCode cs => tc_payload cs
  | TPicTiming m => pt_payload m
  | TMdcv m => mdcv_payload m
  | TCll m => cll_payload m
  end.
(* what WriteSEIMessages sees of the value *)
Definition typed_msg (t : typed) : msg := mkMsg (typed_type t) (typed_size t) (typed_payload t).

(* the typed decoder of the same message type, given the external parameters the value itself
   carries (AVC picture timing: the HRD length fields and the time-offset length of the SPS) *)
Definition typed_decode_like (like : typed) (pl : list N) : res typed :=
  match like with
  | TTimeCode _ => do cs <- tc_decode pl; Ok (TTimeCode cs)
  | TPicTiming m => do m' <- pt_decode (p_hrd m) (p_tolen m) pl; Ok (TPicTiming m')
  | TMdcv _ => do m <- mdcv_decode pl; Ok (TMdcv m)
  | TCll _ => do m <- cll_decode pl; Ok (TCll m)
  end.

Definition typed_canonical (t : typed) : bool :=
  match t with
  | TTimeCode cs => tc_canonical cs
  | TPicTiming m => pt_canonical m
  | TMdcv m => mdcv_canonical m
  | TCll m => cll_canonical m
  end.

(* ---------------------------------------------------------------- histories *)
Inductive origin :=
| OBuild (t : typed)                       (* a struct literal *)
| ODecode (like : typed) (pl : list N).    (* a decoder run on a payload *)

Inductive step :=
| SEdit (f : typed -> typed)   (* any change of exported fields (one field, several, a slice element ...) *)
| SCopy                        (* c := *m; go on with &c: the same exported field values *)
| SObserve                     (* Size() / Payload() / String() / WriteSEIMessages called, result dropped *)
| SRedecode.                   (* go on with decode (m.Payload()) *)

Definition run_origin (o : origin) : res typed :=
  match o with
  | OBuild t => Ok t
  | ODecode like pl => typed_decode_like like pl
  end.

Fixpoint run_steps (ss : list step) (t : typed) : res typed :=
  match ss with
  | [] => Ok t
  | SEdit f :: r => run_steps r (f t)
  | SCopy :: r => run_steps r t
  | SObserve :: r => run_steps r t
  | SRedecode :: r => do t' <- typed_decode_like t (typed_payload t); run_steps r t'
  end.

Definition run_history (o : origin) (ss : list step) : res typed :=
  do t <- run_origin o; run_steps ss t.

(* what is observed of the final value: Size(), Payload(), the bytes WriteSEIMessages emits for it,
   and the decoder run on Payload() *)
Definition typed_observe (t : typed) : N * list N * list N * res typed :=
  (typed_size t, typed_payload t, write_sei_messages [typed_msg t], typed_decode_like t (typed_payload t)).
