(* C17SizeProofs.v — Size() = len(Payload()) for EVERY value of the typed messages, canonical or not
   (fields wider than their code, junk in absent fields, any number of clocks, any pict_struct, clock
   count and per-clock time-offset lengths that do not match): the writers put as many bits as
   Size() counts whatever the field VALUES are.  The only hypothesis is on the WIDTHS handed to
   bits.FixedSliceWriter.Write (<= 56, the domain of the C13 writer lemma). *)
From V.lib Require Import Base.
From V.c13 Require Import C13Spec C13Model C13Bits.
From V.c17 Require Import C17TypedModel C17SizeModel C17BitProofs C17TypedProofs C17FswProofs.

Lemma clocks_ops_ok_w cs : tc_widths_ok cs = true -> forallb fsw_op_ok (flat_map clock_ops cs) = true.
Proof.
  unfold tc_widths_ok. induction cs as [|c t IH]; intros H; [reflexivity|].
  cbn [forallb] in H. apply andb_true_iff in H. destruct H as [Hc Ht].
  cbn [flat_map]. rewrite forallb_app, (IH Ht), andb_true_r. apply clock_ops_ok. apply N.leb_le, Hc.
Qed.

Lemma tc_size_any cs :
  tc_widths_ok cs = true -> tc_payload cs = tc_payload_spec cs /\ lenN (tc_payload cs) = tc_size cs.
Proof.
  intros Hw.
  assert (E : tc_payload cs = tc_payload_spec cs).
  { apply fsw_is_spec. unfold tc_ops. cbn [forallb fsw_op_ok andb].
    rewrite forallb_app, (clocks_ops_ok_w cs Hw). reflexivity. }
  split; [exact E|]. rewrite E.
  set (coded := bits_of 2 (lenN cs) ++ ops_bits (flat_map clock_ops cs)).
  assert (Hops : ops_bits (tc_ops cs) = coded ++ [true]).
  { unfold tc_ops, coded. rewrite ops_bits_cons, ops_bits_app. cbn [op_bits].
    change (N.to_nat 2) with 2%nat. rewrite <- app_assoc. reflexivity. }
  assert (Hlen : lenN coded = 2 + sumN (map clock_nrbits cs)).
  { unfold coded. rewrite lenN_app, clocks_ops_length. unfold lenN at 1. rewrite bits_of_length. lia. }
  pose proof (div8_bounds (2 + sumN (map clock_nrbits cs))) as [B1 B2].
  destruct (spec_bytes_bits (tc_size cs) coded [true] (tc_ops cs) Hops) as [HL _].
  { unfold tc_size. unfold lenN in Hlen. lia. }
  { unfold tc_size. cbn [length]. rewrite nat_div8. unfold lenN in Hlen.
    apply Nat.mul_le_mono_l. apply Nat.div_le_mono; lia. }
  exact HL.
Qed.

Lemma clocks_avc_ops_ok_w cs :
  forallb (fun c => a_tolen c <=? 56) cs = true -> forallb fsw_op_ok (flat_map clock_avc_ops cs) = true.
Proof.
  induction cs as [|c t IH]; intros H; [reflexivity|].
  cbn [forallb] in H. apply andb_true_iff in H. destruct H as [Hc Ht].
  cbn [flat_map]. rewrite forallb_app, (IH Ht), andb_true_r. apply clock_avc_ops_ok. apply N.leb_le, Hc.
Qed.

Lemma pt_size_any m :
  pt_widths_ok m = true -> pt_payload m = pt_payload_spec m /\ lenN (pt_payload m) = pt_size m.
Proof.
  destruct m as [hrd tolen pict cs]. unfold pt_widths_ok. cbn [p_hrd p_clocks].
  intros H. apply andb_true_iff in H. destruct H as [Hh Hcs].
  set (M := mkPT hrd tolen pict cs).
  assert (E : pt_payload M = pt_payload_spec M).
  { apply fsw_is_spec. unfold pt_ops, M. cbn [p_hrd p_pict p_clocks].
    rewrite forallb_app. cbn [forallb fsw_op_ok andb].
    rewrite (clocks_avc_ops_ok_w cs Hcs), andb_true_r.
    destruct hrd as [h|]; [|reflexivity].
    apply andb_true_iff in Hh. destruct Hh as [H1 H2]. apply N.leb_le in H1, H2.
    cbn [forallb fsw_op_ok]. rewrite andb_true_r. apply andb_true_iff. split; apply N.leb_le; lia. }
  split; [exact E|]. rewrite E.
  set (hbits := match hrd with
                | Some h => bits_of (N.to_nat (h_cpb_len1 h + 1)) (h_cpb_delay h) ++
                            bits_of (N.to_nat (h_dpb_len1 h + 1)) (h_dpb_delay h)
                | None => [] end).
  set (coded := hbits ++ bits_of 4 pict ++ ops_bits (flat_map clock_avc_ops cs)).
  assert (Hops : ops_bits (pt_ops M) = coded ++ []).
  { unfold pt_ops, coded, hbits, M. cbn [p_hrd p_pict p_clocks]. rewrite app_nil_r.
    rewrite ops_bits_app, ops_bits_cons. cbn [op_bits]. change (N.to_nat 4) with 4%nat.
    f_equal. destruct hrd; [|reflexivity]. cbn [ops_bits flat_map op_bits app]. rewrite app_nil_r. reflexivity. }
  assert (Hlen : lenN coded =
                 match hrd with Some h => (h_cpb_len1 h + 1) + (h_dpb_len1 h + 1) | None => 0 end
                 + 4 + sumN (map clock_avc_nrbits cs)).
  { unfold coded, hbits. rewrite !lenN_app, clocks_avc_ops_length.
    replace (lenN (bits_of 4 pict)) with 4 by (unfold lenN; rewrite bits_of_length; reflexivity).
    destruct hrd; [|rewrite lenN_nil; lia].
    rewrite lenN_app. unfold lenN. rewrite !bits_of_length. lia. }
  pose proof (div8_bounds (match hrd with Some h => (h_cpb_len1 h + 1) + (h_dpb_len1 h + 1) | None => 0 end
                           + 4 + sumN (map clock_avc_nrbits cs))) as [B1 B2].
  destruct (spec_bytes_bits (pt_size M) coded [] (pt_ops M) Hops) as [HL _].
  { unfold pt_size, M. cbn [p_hrd p_clocks]. unfold lenN in Hlen. lia. }
  { unfold pt_size, M. cbn [p_hrd p_clocks length]. rewrite nat_div8. unfold lenN in Hlen.
    apply Nat.mul_le_mono_l. apply Nat.div_le_mono; lia. }
  exact HL.
Qed.

Lemma size_any_value :
  (forall cs, tc_widths_ok cs = true -> tc_payload cs = tc_payload_spec cs /\ lenN (tc_payload cs) = tc_size cs) /\
  (forall m, pt_widths_ok m = true -> pt_payload m = pt_payload_spec m /\ lenN (pt_payload m) = pt_size m) /\
  (forall m, lenN (mdcv_payload m) = mdcv_size) /\
  (forall m, lenN (cll_payload m) = cll_size).
Proof.
  split; [exact tc_size_any|]. split; [exact pt_size_any|]. split; intros m; reflexivity.
Qed.
