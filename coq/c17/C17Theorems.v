(* C17Theorems.v — the property theorems of C17 and nothing else.  Each is closed by
   `exact <lemma>` and followed by Print Assumptions (audited by ./check on every run). *)
From V.lib Require Import Base.
From V.c13 Require Import C13Spec C13Model.
From V.c17 Require Import C17Spec C17Model C17RbspProofs C17WriterProofs C17EbspProofs.
From V.c17 Require Import C17TypedModel C17BitProofs C17TypedProofs C17FswProofs C17ComposeProofs.
From V.c17 Require Import C17HistModel C17HistProofs C17CanonProofs C17TieModel C17TieProofs.
From V.c17 Require Import C17NaluModel C17NaluProofs C17SizeModel C17SizeProofs.

(* the 0xFF-run code of payload type (Go uint accumulator) and payload size (uint32
   accumulator) decodes to the value and leaves the rest of the input untouched: every value
   that fits the accumulator, incl. >= 255 and multiples of 255 *)
Theorem C17_sei_value_rt : forall v r,
  (v < 2 ^ 64 -> ff_dec u64 (ff_enc v ++ r) 0 = Some (v, r)) /\
  (v < 2 ^ 32 -> ff_dec u32 (ff_enc v ++ r) 0 = Some (v, r)).
Proof. exact sei_value_rt. Qed.
Print Assumptions C17_sei_value_rt.

(* WriteSEIValue (C13 model of the EBSP writer) writes exactly the bytes of that code *)
Theorem C17_write_sei_value_is_ff_enc : forall s v,
  write_sei_value s v = fold_left write_byte (ff_enc v) s.
Proof. exact write_sei_value_enc. Qed.
Print Assumptions C17_write_sei_value_is_ff_enc.

(* the writer model performs Write(b, 8) for the bytes of ser msgs, then the trailing bits *)
Theorem C17_writer_is_ser : forall msgs,
  write_sei_messages msgs = wout (write_trailing (fold_left write_byte (ser msgs) winit)).
Proof. exact write_sei_messages_ser. Qed.
Print Assumptions C17_writer_is_ser.

(* rbsp level: for every NON-EMPTY message list with any types (< 2^64), any sizes (< 2^32,
   equal to the payload length) and any payload bytes, the extractor on the plain
   serialisation followed by the trailing-bits byte returns the (type, payload) list, with
   no error and no trailing-bits-missing verdict *)
Theorem C17_list_roundtrip_rbsp : forall msgs,
  msgs <> [] -> msgs_ok msgs = true ->
  extract_rbsp_all (rbsp_of msgs) = XOk (observed msgs).
Proof. exact rbsp_roundtrip. Qed.
Print Assumptions C17_list_roundtrip_rbsp.

(* the bytes the writer model emits (through the C13 EBSP writer model) are the emulation-
   prevented plain serialisation followed by the trailing-bits byte *)
Theorem C17_writer_is_escape : forall msgs,
  msgs_ok msgs = true -> write_sei_messages msgs = escape (rbsp_of msgs).
Proof. exact writer_is_escape_ok. Qed.
Print Assumptions C17_writer_is_escape.

(* THE list round trip, on the real (emulation-prevented) byte stream, through the C13 models of
   bits.EBSPWriter and bits.EBSPReader: for every NON-EMPTY message list, any types, any sizes,
   any payload bytes (needing emulation prevention, ending in zero bytes, equal to 80, ...):
   ExtractSEIData (WriteSEIMessages msgs) = the (type, payload) list, no trailing-bits error *)
Theorem C17_list_roundtrip : forall msgs,
  msgs <> [] -> msgs_ok msgs = true ->
  extract_sei_data (write_sei_messages msgs) = XOk (observed msgs).
Proof. exact list_roundtrip_ebsp. Qed.
Print Assumptions C17_list_roundtrip.

Example C17_list_roundtrip_rbsp_hyp :
  let msgs := [mkMsg 5 3 [0; 0; 1]; mkMsg 300 0 []; mkMsg 255 2 [128; 0]] in
  msgs <> [] /\ msgs_ok msgs = true /\
  extract_sei_data (write_sei_messages msgs) = XOk (observed msgs).
Proof. split; [discriminate|]. split; vm_compute; reflexivity. Qed.

(* the empty list is outside the statement: only 80 is written and the extractor rejects it *)
Theorem C17_empty_list_rejected :
  write_sei_messages [] = [128] /\ extract_sei_data [128] = XErr.
Proof. exact empty_list_rejected. Qed.
Print Assumptions C17_empty_list_rejected.

(* ---------------------------------------------------------------- typed messages *)
(* canonical = every field fits its coded width and every field the flags make absent is zero.
   *_payload_spec is the FixedSliceWriter output read as a bit list (coded bits, final 1 bit for the
   time code, zero padding, cut at the capacity Size()); the executable *_payload runs the same ops
   through the C13 FixedSliceWriter model and is compared with it on every correspondence case. *)

(* SEI 136 time code: 0..3 clocks, every flag combination, time-offset lengths 0..31; includes the
   case where the coded bit length is a multiple of 8 and the final 1 bit overflows the buffer *)
Theorem C17_timecode : forall cs,
  tc_canonical cs = true ->
  tc_decode (tc_payload_spec cs) = Ok cs /\ lenN (tc_payload_spec cs) = tc_size cs.
Proof. exact timecode_roundtrip. Qed.
Print Assumptions C17_timecode.

(* ... and the executable payload (ops through the C13 model of bits.FixedSliceWriter, FlushBits,
   cut at the capacity Size()) is that bit-list form, so the round trip holds for it *)
Theorem C17_timecode_exec : forall cs,
  tc_canonical cs = true ->
  tc_payload cs = tc_payload_spec cs /\
  tc_decode (tc_payload cs) = Ok cs /\ lenN (tc_payload cs) = tc_size cs.
Proof. exact timecode_exec. Qed.
Print Assumptions C17_timecode_exec.

Example C17_timecode_hyp :
  let cs := [mkClock true true 3 false true false 300 true 59 true 58 false 0 5 17;
             mkClock true false 0 true false false 25 false 1 false 2 false 3 0 0;
             clock_zero] in
  tc_canonical cs = true /\ tc_payload cs = tc_payload_spec cs /\ tc_size cs = 11.
Proof. repeat split; vm_compute; reflexivity. Qed.

(* a time code whose coded length is a multiple of 8 (2 + 1 + 18 + 1 + 5 + 5 = 32 bits): the final
   1 bit does not fit the buffer and is dropped; Size() = 4 = the payload length *)
Example C17_timecode_aligned :
  let cs := [mkClock true false 0 false false false 0 false 0 false 0 false 0 5 1] in
  tc_canonical cs = true /\ tc_payload cs = [96; 0; 0; 161] /\ tc_size cs = 4 /\
  tc_decode (tc_payload cs) = Ok cs.
Proof. repeat split; vm_compute; reflexivity. Qed.

(* AVC SEI 1 picture timing, with and without HRD delays, external time-offset length 0..31,
   1..3 clocks as pict_struct dictates, every flag combination *)
Theorem C17_pic_timing_avc : forall m,
  pt_canonical m = true ->
  pt_decode (p_hrd m) (p_tolen m) (pt_payload_spec m) = Ok m /\ lenN (pt_payload_spec m) = pt_size m.
Proof. exact pic_timing_roundtrip. Qed.
Print Assumptions C17_pic_timing_avc.

Theorem C17_pic_timing_avc_exec : forall m,
  pt_canonical m = true ->
  pt_payload m = pt_payload_spec m /\
  pt_decode (p_hrd m) (p_tolen m) (pt_payload m) = Ok m /\ lenN (pt_payload m) = pt_size m.
Proof. exact pic_timing_exec. Qed.
Print Assumptions C17_pic_timing_avc_exec.

Example C17_pic_timing_avc_hyp :
  let m := mkPT (Some (mkHrd 1000 2000 23 15 20)) 5 3
                [mkClockAvc true 1 false 4 true false true 200 false 5 false 6 false 7 5 (-3)%Z;
                 clock_avc_zero 5] in
  pt_canonical m = true /\ pt_payload m = pt_payload_spec m.
Proof. split; vm_compute; reflexivity. Qed.

Theorem C17_mdcv : forall m,
  mdcv_canonical m = true ->
  mdcv_decode (mdcv_payload m) = Ok m /\ lenN (mdcv_payload m) = mdcv_size.
Proof. exact mdcv_roundtrip. Qed.
Print Assumptions C17_mdcv.

Theorem C17_cll : forall m,
  cll_canonical m = true ->
  cll_decode (cll_payload m) = Ok m /\ lenN (cll_payload m) = cll_size.
Proof. exact cll_roundtrip. Qed.
Print Assumptions C17_cll.

Example C17_mdcv_cll_hyp :
  mdcv_canonical (mkMdcv 65535 1 0 0 1 48026 0 0 4294967295 1) = true /\ cll_canonical (mkCll 1000 65535) = true.
Proof. split; reflexivity. Qed.

(* pass-through messages: whenever the decoder returns a message (it can also return an error), Payload() is the input and Size() its length *)
Theorem C17_passthrough :
  (forall pl m, decode_registered pl = Ok m -> pass_payload m = pl /\ pass_size m = lenN pl) /\
  (forall pl m, decode_unregistered pl = Ok m -> pass_payload m = pl /\ pass_size m = lenN pl) /\
  (forall par pl m, decode_pic_timing_hevc par pl = Ok m -> pass_payload m = pl /\ pass_size m = lenN pl).
Proof. exact passthrough_all. Qed.
Print Assumptions C17_passthrough.

Example C17_passthrough_hyp :
  exists m, decode_registered [181; 0; 49; 71; 65; 57; 52; 3; 193; 255; 252; 148; 44; 255] = Ok m /\
            ps_kind m = KCea608 [148; 44] [].
Proof. eexists. split; vm_compute; reflexivity. Qed.

(* ---------------------------------------------------------------- typed messages inside a NAL unit *)
(* a canonical typed message, as WriteSEIMessages sees it (Type(), Size(), Payload()), satisfies the
   hypotheses of C17_list_roundtrip: Size() = |Payload()| < 2^32 and the payload is a byte string *)
Theorem C17_typed_msgs_ok :
  (forall cs, tc_canonical cs = true -> msg_ok (mkMsg 136 (tc_size cs) (tc_payload cs)) = true) /\
  (forall m, pt_canonical m = true -> msg_ok (mkMsg 1 (pt_size m) (pt_payload m)) = true) /\
  (forall m, msg_ok (mkMsg 137 mdcv_size (mdcv_payload m)) = true) /\
  (forall m, msg_ok (mkMsg 144 cll_size (cll_payload m)) = true).
Proof. exact typed_msgs_ok. Qed.
Print Assumptions C17_typed_msgs_ok.

(* end to end for the time code: between any other messages, written, extracted, decoded *)
Theorem C17_timecode_in_nalu : forall cs pre post,
  tc_canonical cs = true -> msgs_ok pre = true -> msgs_ok post = true ->
  extract_sei_data (write_sei_messages (pre ++ mkMsg 136 (tc_size cs) (tc_payload cs) :: post))
  = XOk (observed pre ++ (136, tc_payload cs) :: observed post)
  /\ tc_decode (tc_payload cs) = Ok cs.
Proof. exact timecode_in_nalu. Qed.
Print Assumptions C17_timecode_in_nalu.

(* ---------------------------------------------------------------- any message value, however it was obtained *)
(* A typed message value is the record of its exported fields (C17HistModel.typed); the Go values are
   reached through HISTORIES: a struct literal or a decoder (DecodeXxx, DecodeSEIMessage,
   avc/hevc.ParseSEINalu), then any number of steps: SEdit f (ANY change of the exported fields),
   SCopy (struct copy), SObserve (Size()/Payload()/String()/WriteSEIMessages called, result dropped),
   SRedecode (serialise, decode, go on with the result).
   Size()/Payload()/the written NAL unit depend on the final exported field record only: equal field
   records, whatever histories produced them, give equal observables.  Definitional in the model;
   this is the statement the correspondence (H lines: observables of the final Go value of a generated
   history vs typed_observe of its final exported fields) ties to the code. *)
Theorem C17_payload_depends_on_fields : forall o1 ss1 o2 ss2 t1 t2,
  run_history o1 ss1 = Ok t1 -> run_history o2 ss2 = Ok t2 -> t1 = t2 ->
  typed_payload t1 = typed_payload t2 /\ typed_size t1 = typed_size t2 /\ typed_observe t1 = typed_observe t2.
Proof. exact payload_depends_on_fields. Qed.
Print Assumptions C17_payload_depends_on_fields.

(* hence the typed round trip for ANY message value: the final value of any history, if canonical,
   decodes from its own payload to itself, Size() is the payload length, and WriteSEIMessages +
   ExtractSEIData return its (type, payload) *)
Theorem C17_history_roundtrip : forall o ss t,
  run_history o ss = Ok t -> typed_canonical t = true ->
  typed_decode_like t (typed_payload t) = Ok t /\
  lenN (typed_payload t) = typed_size t /\
  extract_sei_data (write_sei_messages [typed_msg t]) = XOk [(typed_type t, typed_payload t)].
Proof. exact history_roundtrip. Qed.
Print Assumptions C17_history_roundtrip.

(* when every edit keeps the value canonical, every intermediate value is canonical, the re-decode
   steps are no-ops, and the history ends (without error) in the edits applied to the start value *)
Theorem C17_canonical_history : forall ss t,
  Forall step_keeps_canonical ss -> typed_canonical t = true ->
  run_steps ss t = Ok (apply_edits ss t) /\ typed_canonical (apply_edits ss t) = true.
Proof. exact canonical_history_steps. Qed.
Print Assumptions C17_canonical_history.

(* any canonical typed message between any other messages of an SEI NAL unit (generalises
   C17_timecode_in_nalu to the four typed messages) *)
Theorem C17_typed_in_nalu : forall t pre post,
  typed_canonical t = true -> msgs_ok pre = true -> msgs_ok post = true ->
  extract_sei_data (write_sei_messages (pre ++ typed_msg t :: post))
  = XOk (observed pre ++ (typed_type t, typed_payload t) :: observed post).
Proof. exact typed_in_nalu. Qed.
Print Assumptions C17_typed_in_nalu.

(* whatever a typed decoder returns is canonical (external parameters: 5-bit length fields) *)
Theorem C17_decoded_is_canonical : forall like pl t,
  like_ok like = true -> bytes_ok pl = true ->
  typed_decode_like like pl = Ok t -> typed_canonical t = true.
Proof. exact decode_canonical. Qed.
Print Assumptions C17_decoded_is_canonical.

(* the multi-step history start to end: decode ANY payload the decoder accepts, then any steps
   (canonical-preserving edits, struct copies, serialiser calls, re-decodes): no error on the way,
   the final value is the edits applied to the decoded value, and it round-trips *)
Theorem C17_decoded_history_roundtrip : forall like pl t0 ss,
  like_ok like = true -> bytes_ok pl = true -> typed_decode_like like pl = Ok t0 ->
  Forall step_keeps_canonical ss ->
  let t := apply_edits ss t0 in
  run_history (ODecode like pl) ss = Ok t /\ typed_canonical t = true /\
  typed_decode_like t (typed_payload t) = Ok t /\ lenN (typed_payload t) = typed_size t /\
  extract_sei_data (write_sei_messages [typed_msg t]) = XOk [(typed_type t, typed_payload t)].
Proof. exact decoded_history_roundtrip. Qed.
Print Assumptions C17_decoded_history_roundtrip.

(* a history of the kind the seeded change breaks: decode a picture timing message, copy it, change
   NFrames and pict_struct of the copy, re-decode: the final value is canonical and its payload is the
   serialisation of the EDITED fields (28 00 4d 00), not the decoded bytes (08 80 05 00) *)
Example C17_history_hyp :
  let like := TPicTiming (mkPT None 0 0 []) in
  let f t := match t with
             | TPicTiming (mkPT h tl _ [c]) =>
                 TPicTiming (mkPT h tl 2 [mkClockAvc true (a_cttype c) false 0 false false false 77 false 0 false 0 false 0 0 0%Z])
             | _ => t
             end in
  exists t, run_history (ODecode like [8; 128; 5; 0]) [SCopy; SObserve; SEdit f; SRedecode] = Ok t /\
            typed_canonical t = true /\ typed_payload t = [40; 0; 77; 0].
Proof. eexists. split; [vm_compute; reflexivity|]. split; vm_compute; reflexivity. Qed.

(* the hypotheses of C17_decoded_history_roundtrip are satisfiable: a content light level message
   decoded from 01 02 03 04, copied, its two fields swapped, serialised, decoded again *)
Example C17_decoded_history_hyp :
  let f t := match t with TCll m => TCll (mkCll (cl_avg m) (cl_max m)) | _ => t end in
  like_ok (TCll (mkCll 0 0)) = true /\ bytes_ok [1; 2; 3; 4] = true /\
  typed_decode_like (TCll (mkCll 0 0)) [1; 2; 3; 4] = Ok (TCll (mkCll 258 772)) /\
  Forall step_keeps_canonical [SCopy; SEdit f; SObserve; SRedecode] /\
  typed_payload (apply_edits [SCopy; SEdit f; SObserve; SRedecode] (TCll (mkCll 258 772))) = [3; 4; 1; 2].
Proof.
  cbv zeta. split; [reflexivity|]. split; [reflexivity|]. split; [vm_compute; reflexivity|].
  split; [|vm_compute; reflexivity].
  apply Forall_cons; [exact I|]. apply Forall_cons; [|apply Forall_cons; [exact I|apply Forall_cons; [exact I|apply Forall_nil]]].
  intros t H. destruct t as [cs|m|m|m]; try exact H.
  cbn [typed_canonical] in *. unfold cll_canonical in *. cbn [cl_max cl_avg]. rewrite andb_comm. exact H.
Qed.

(* ---------------------------------------------------------------- bits.Reader: bit list vs the Go machine *)
(* The typed decoders above read a bit list and stop at the first failed read.  tc_decode_go /
   pt_decode_go (C17TieModel) are the same Go functions transcribed over the C13 model of the
   bits.Reader MACHINE (value/n/pos accumulator over the byte slice, 64-bit shifts, accumulated
   error: after a failed read every Read returns 0, the decoder runs on to its end, AccError() is
   looked at last; the Go conversions byte()/uint16()/uint32() written out).  On every byte string
   (and all 5-bit external length parameters) both compute the same result: value, or error. *)
Theorem C17_decoders_tie :
  (forall payload, bytes_ok payload = true -> tc_decode_go payload = tc_decode payload) /\
  (forall ext tolen payload, ext_ok ext tolen = true -> bytes_ok payload = true ->
     pt_decode_go ext tolen payload = pt_decode ext tolen payload).
Proof. exact decoders_tie. Qed.
Print Assumptions C17_decoders_tie.

(* hence the typed round trips hold for the machine-level decoders *)
Theorem C17_roundtrip_machine :
  (forall cs, tc_canonical cs = true -> tc_decode_go (tc_payload cs) = Ok cs) /\
  (forall m, pt_canonical m = true -> pt_decode_go (p_hrd m) (p_tolen m) (pt_payload m) = Ok m).
Proof. exact roundtrip_machine. Qed.
Print Assumptions C17_roundtrip_machine.

Example C17_decoders_tie_hyp :
  ext_ok (Some (mkHrd 0 0 23 15 20)) 5 = true /\ bytes_ok [8; 128; 5; 0] = true /\
  tc_decode_go [96; 0; 0; 161] = tc_decode [96; 0; 0; 161] /\
  pt_decode_go None 0 [8; 128] = Err /\ pt_decode None 0 [8; 128] = Err.
Proof. repeat split; vm_compute; reflexivity. Qed.

(* ---------------------------------------------------------------- the written NAL unit through avc/hevc.ParseSEINalu *)
(* C17NaluModel: sei.DecodeSEIMessage (dispatch on codec and type), avc.ParseSEINalu (header & 0x1f = 6,
   picture timing decoded with the lengths of the SPS' VclHrdParameters, else NalHrdParameters, cut to a
   byte) and hevc.ParseSEINalu (two header bytes, type 39 | 40, fillHEVCPicTimingParams).
   For EVERY non-empty written list (any types, sizes, payload bytes) and every valid header the wrappers
   run their decoders on exactly the written (type, payload) pairs, in order, and report no
   trailing-bits error: the outcome is that of the per-message decoders (first error ends the call). *)
Theorem C17_nalu_written :
  (forall par h msgs, N.land h 31 = 6 -> msgs <> [] -> msgs_ok msgs = true ->
     parse_sei_nalu_avc par (h :: write_sei_messages msgs) = pres_of (decode_all (decode_avc par) (observed msgs))) /\
  (forall par h1 h2 msgs, (N.land (h1 / 2) 63 = 39 \/ N.land (h1 / 2) 63 = 40) -> msgs <> [] -> msgs_ok msgs = true ->
     parse_sei_nalu_hevc par (h1 :: h2 :: write_sei_messages msgs) = pres_of (decode_all (decode_hevc par) (observed msgs))).
Proof. exact nalu_written. Qed.
Print Assumptions C17_nalu_written.

(* THE round trip through the wrappers, mixed lists: canonical typed messages of the path (AVC: picture
   timing carrying the external lengths of the SPS, with or without HRD; HEVC: time code, mastering
   display colour volume, content light level), pass-through messages (any value a pass-through decoder
   returned: registered / CEA-608 / unregistered user data, HEVC picture timing under a VUI) and general
   data of any other type, in any order: written with a valid header and parsed, the SAME message values
   come back (typed messages equal field by field, pass-through and general messages with their payload) *)
Theorem C17_nalu_roundtrip :
  (forall par h ms, N.land h 31 = 6 -> ms <> [] -> Forall (sm_wf_avc par) ms ->
     parse_sei_nalu_avc par (h :: write_sei_messages (map sm_msg ms)) = POk ms) /\
  (forall par h1 h2 ms, (N.land (h1 / 2) 63 = 39 \/ N.land (h1 / 2) 63 = 40) -> ms <> [] -> Forall (sm_wf_hevc par) ms ->
     parse_sei_nalu_hevc par (h1 :: h2 :: write_sei_messages (map sm_msg ms)) = POk ms).
Proof. exact nalu_roundtrip. Qed.
Print Assumptions C17_nalu_roundtrip.

(* hypotheses satisfiable: AVC, SPS with Vcl HRD lengths (279 = 256 + 23 is cut to the byte 23), a picture
   timing message with HRD delays, CEA-608 user data and general data of type 300 *)
Example C17_nalu_roundtrip_avc_hyp :
  let par := APVui (Some (279, 15, 5)) (Some (1, 1, 1)) in
  let pt := mkPT (Some (mkHrd 1000 2000 0 23 15)) 5 3
                 [mkClockAvc true 1 false 4 true false true 200 false 5 false 6 false 7 5 (-3)%Z; clock_avc_zero 5] in
  let cea := mkPass (KCea608 [148; 44] []) [181; 0; 49; 71; 65; 57; 52; 3; 193; 255; 252; 148; 44; 255] in
  let ms := [MTyped (TPicTiming pt); MPass cea; MRaw 300 [0; 0; 3]] in
  N.land 102 31 = 6 /\ Forall (sm_wf_avc par) ms /\
  parse_sei_nalu_avc par (102 :: write_sei_messages (map sm_msg ms)) = POk ms.
Proof.
  cbv zeta. split; [reflexivity|]. split; [|vm_compute; reflexivity].
  repeat apply Forall_cons; try apply Forall_nil.
  - cbn [sm_wf_avc]. repeat split; vm_compute; reflexivity.
  - cbn [sm_wf_avc]. split; [vm_compute; reflexivity|].
    exists [181; 0; 49; 71; 65; 57; 52; 3; 193; 255; 252; 148; 44; 255]. left. vm_compute. reflexivity.
  - cbn [sm_wf_avc]. split; [vm_compute; reflexivity|]. repeat split; discriminate.
Qed.

(* HEVC, suffix SEI header (80 = 40 * 2), VUI with HRD: a time code, a picture timing pass-through
   message, content light level, unregistered user data *)
Example C17_nalu_roundtrip_hevc_hyp :
  let par := HPVui true (Some (mkHevcHrd true false false false 7 7 0 0)) in
  let pth := mkPass KPicTimingHevc [16; 1; 2; 128] in
  let un := mkPass (KUnregistered [1; 2; 3; 4; 5; 6; 7; 8; 9; 10; 11; 12; 13; 14; 15; 16])
                   [1; 2; 3; 4; 5; 6; 7; 8; 9; 10; 11; 12; 13; 14; 15; 16; 0; 0] in
  let ms := [MTyped (TTimeCode [mkClock true false 0 false false false 0 false 0 false 0 false 0 5 1]);
             MPass pth; MTyped (TCll (mkCll 1000 65535)); MPass un] in
  Forall (sm_wf_hevc par) ms /\
  parse_sei_nalu_hevc par (80 :: 1 :: write_sei_messages (map sm_msg ms)) = POk ms.
Proof.
  cbv zeta. split; [|vm_compute; reflexivity].
  repeat apply Forall_cons; try apply Forall_nil.
  - vm_compute. reflexivity.
  - cbn [sm_wf_hevc]. split; [vm_compute; reflexivity|].
    exists [16; 1; 2; 128]. right. right. eexists. eexists. split; [reflexivity|]. vm_compute. reflexivity.
  - vm_compute. reflexivity.
  - cbn [sm_wf_hevc]. split; [vm_compute; reflexivity|].
    exists [1; 2; 3; 4; 5; 6; 7; 8; 9; 10; 11; 12; 13; 14; 15; 16; 0; 0]. right. left. vm_compute. reflexivity.
Qed.

(* a typed message of the OTHER codec is not lost either: avc.ParseSEINalu returns a written time code
   as general data with its payload (by C17_nalu_written: type 136 has no decoder on the AVC path) *)
Example C17_nalu_written_hyp :
  let cs := [mkClock true false 0 false false false 0 false 0 false 0 false 0 5 1] in
  parse_sei_nalu_avc APNone (6 :: write_sei_messages [mkMsg 136 (tc_size cs) (tc_payload cs)]) = POk [MRaw 136 [96; 0; 0; 161]].
Proof. vm_compute. reflexivity. Qed.

(* ---------------------------------------------------------------- Size() = len(Payload()) for EVERY value *)
(* "Size() equals the serialised length" without the canonical hypothesis: ANY time code value (any
   number of clocks, any field values incl. ones wider than their code, junk in fields the flags make
   absent), ANY AVC picture timing value (any pict_struct, any clock count, per-clock time-offset
   lengths differing from the message's, delays wider than their lengths), every mdcv / cll value.
   The only hypothesis bounds the WIDTHS handed to FixedSliceWriter.Write by 56 (time-offset lengths,
   HRD lengths; the Go fields are bytes, the coded ones 5 bits): the domain of the C13 writer lemma. *)
Theorem C17_size_any_value :
  (forall cs, tc_widths_ok cs = true -> tc_payload cs = tc_payload_spec cs /\ lenN (tc_payload cs) = tc_size cs) /\
  (forall m, pt_widths_ok m = true -> pt_payload m = pt_payload_spec m /\ lenN (pt_payload m) = pt_size m) /\
  (forall m, lenN (mdcv_payload m) = mdcv_size) /\
  (forall m, lenN (cll_payload m) = cll_size).
Proof. exact size_any_value. Qed.
Print Assumptions C17_size_any_value.

(* non-canonical values inside the hypotheses: five clocks, NFrames 70000, seconds without their flag,
   a 40-bit time offset; a picture timing with pict_struct 13, no clocks and a delay wider than its length *)
Example C17_size_any_value_hyp :
  let cs := [mkClock true true 77 false true false 70000 false 200 true 3 false 9 40 (2 ^ 45);
             clock_zero; clock_zero; mkClock false true 1 true true true 1 true 1 true 1 true 1 1 1; clock_zero] in
  let m := mkPT (Some (mkHrd (2 ^ 60) 5 0 55 0)) 3 13 [] in
  tc_widths_ok cs = true /\ tc_canonical cs = false /\ lenN (tc_payload cs) = tc_size cs /\
  pt_widths_ok m = true /\ pt_canonical m = false /\ lenN (pt_payload m) = pt_size m.
Proof. repeat split; vm_compute; reflexivity. Qed.
