(* C17Theorems.v — the property theorems of C17 and nothing else.  Each is closed by
   `exact <lemma>` and followed by Print Assumptions (audited by ./check on every run). *)
From V.lib Require Import Base.
From V.c13 Require Import C13Spec C13Model.
From V.c17 Require Import C17Spec C17Model C17RbspProofs C17WriterProofs C17EbspProofs.

(* the 0xFF-run code of payload type (Go uint accumulator) and payload size (uint32
   accumulator) decodes to the value and leaves the rest of the input untouched: every value
   that fits the accumulator, incl. >= 255 and multiples of 255 *)
Theorem C17_sei_value_rt : forall v r,
  (v < 2 ^ 64 -> ff_dec u64 (ff_enc v ++ r) 0 = Some (v, r)) /\
  (v < 2 ^ 32 -> ff_dec u32 (ff_enc v ++ r) 0 = Some (v, r)).
Proof. exact sei_value_rt. Qed.
Print Assumptions C17_sei_value_rt.

(* WriteSEIValue (C13 model of the EBSP writer) writes exactly the bytes of that code *)
Theorem C17_write_sei_value_is_ff_enc : forall s v,
  write_sei_value s v = fold_left write_byte (ff_enc v) s.
Proof. exact write_sei_value_enc. Qed.
Print Assumptions C17_write_sei_value_is_ff_enc.

(* the writer model performs Write(b, 8) for the bytes of ser msgs, then the trailing bits *)
Theorem C17_writer_is_ser : forall msgs,
  write_sei_messages msgs = wout (write_trailing (fold_left write_byte (ser msgs) winit)).
Proof. exact write_sei_messages_ser. Qed.
Print Assumptions C17_writer_is_ser.

(* rbsp level: for every NON-EMPTY message list with any types (< 2^64), any sizes (< 2^32,
   equal to the payload length) and any payload bytes, the extractor on the plain
   serialisation followed by the trailing-bits byte returns the (type, payload) list, with
   no error and no trailing-bits-missing verdict *)
Theorem C17_list_roundtrip_rbsp : forall msgs,
  msgs <> [] -> msgs_ok msgs = true ->
  extract_rbsp_all (rbsp_of msgs) = XOk (observed msgs).
Proof. exact rbsp_roundtrip. Qed.
Print Assumptions C17_list_roundtrip_rbsp.

(* the bytes the writer model emits (through the C13 EBSP writer model) are the emulation-
   prevented plain serialisation followed by the trailing-bits byte *)
Theorem C17_writer_is_escape : forall msgs,
  msgs_ok msgs = true -> write_sei_messages msgs = escape (rbsp_of msgs).
Proof. exact writer_is_escape_ok. Qed.
Print Assumptions C17_writer_is_escape.

(* THE list round trip, on the real (emulation-prevented) byte stream, through the C13 models of
   bits.EBSPWriter and bits.EBSPReader: for every NON-EMPTY message list, any types, any sizes,
   any payload bytes (needing emulation prevention, ending in zero bytes, equal to 80, ...):
   ExtractSEIData (WriteSEIMessages msgs) = the (type, payload) list, no trailing-bits error *)
Theorem C17_list_roundtrip : forall msgs,
  msgs <> [] -> msgs_ok msgs = true ->
  extract_sei_data (write_sei_messages msgs) = XOk (observed msgs).
Proof. exact list_roundtrip_ebsp. Qed.
Print Assumptions C17_list_roundtrip.

Example C17_list_roundtrip_rbsp_hyp :
  let msgs := [mkMsg 5 3 [0; 0; 1]; mkMsg 300 0 []; mkMsg 255 2 [128; 0]] in
  msgs <> [] /\ msgs_ok msgs = true /\
  extract_sei_data (write_sei_messages msgs) = XOk (observed msgs).
Proof. split; [discriminate|]. split; vm_compute; reflexivity. Qed.

(* the empty list is outside the statement: only 80 is written and the extractor rejects it *)
Theorem C17_empty_list_rejected :
  write_sei_messages [] = [128] /\ extract_sei_data [128] = XErr.
Proof. exact empty_list_rejected. Qed.
Print Assumptions C17_empty_list_rejected.
