(* C17Model.v — executable Gallina model of sei.WriteSEIMessages and sei.ExtractSEIData
   (sei/sei.go, pinned tree) ON TOP OF the C13 models of bits.EBSPWriter / bits.EBSPReader,
   i.e. at the level of the real (emulation-prevented) byte stream.  Definitions only. *)
From V.lib Require Import Base.
From V.c13 Require Import C13Model.
From V.c17 Require Import C17Spec.

(* ------------------------------------------------------------------ writer *)
(*  for _, msg := range msgs {
        bw.WriteSEIValue(msg.Type()); bw.WriteSEIValue(msg.Size())
        for _, b := range msg.Payload() { bw.Write(uint(b), 8) } }
    bw.WriteRbspTrailingBits()                                       *)
Definition write_byte (s : wstate) (b : N) : wstate := write s b 8.

Definition write_msg (s : wstate) (m : msg) : wstate :=
  let s1 := write_sei_value s (mtype m) in
  let s2 := write_sei_value s1 (msize m) in
  fold_left write_byte (mpayload m) s2.

Definition write_sei_messages (msgs : list msg) : list N :=
  wout (write_trailing (fold_left write_msg msgs winit)).

(* ------------------------------------------------------------------ extractor *)
(*  payloadType := uint(0)
    for { nextByte := ar.Read(8); payloadType += uint(nextByte); if nextByte != 0xff { break } }
   After an error Read returns 0, so the loop stops; every iteration without error consumes
   a byte: fuel = number of bytes + 1 is never exhausted. *)
Fixpoint read_ff (fuel : nat) (wrap : N -> N) (s : rstate) (acc : N) : option (N * rstate) :=
  match fuel with
  | O => None
  | S f =>
      let '(b, s1) := read s 8 in
      let acc' := wrap (acc + b) in
      if b =? 255 then read_ff f wrap s1 acc' else Some (acc', s1)
  end.

(*  payload := ar.ReadBytes(int(payloadSize))
   Go allocates payloadSize bytes and calls Read(8) payloadSize times; once the input is
   exhausted every further Read returns 0 with the error kept.  A size larger than the whole
   input therefore always ends with the error set: the model takes that shortcut instead of
   looping (the state after an error is not observable: ExtractSEIData returns nil, err). *)
Definition read_payload (s : rstate) (sz : N) : list N * rstate :=
  if rerr s then ([], s)
  else if lenN (rdata s) <? sz
       then ([], mkR (rn s) (rv s) (rpos s) (rzc s) true (rdata s))
       else read_bytes (N.to_nat sz) s.

Fixpoint extract_loop (fuel : nat) (s : rstate) : xres :=
  match fuel with
  | O => XFuel
  | S f =>
      match read_ff (S (length (rdata s))) u64 s 0 with
      | None => XFuel
      | Some (ty, s1) =>
          match read_ff (S (length (rdata s))) u32 s1 0 with
          | None => XFuel
          | Some (sz, s2) =>
              let '(pl, s3) := read_payload s2 sz in
              if rerr s3 then XErr              (* if ar.AccError() != nil { return nil, err } *)
              else
                match more_rbsp_data s3 with
                | (None, _) => XMissing [(ty, pl)]   (* AccError() == io.EOF *)
                | (Some false, _) => XOk [(ty, pl)]  (* !more: break *)
                | (Some true, s4) => xcons (ty, pl) (extract_loop f s4)
                end
          end
      end
  end.

(* every iteration consumes at least two bytes *)
Definition extract_sei_data (data : list N) : xres :=
  extract_loop (S (length data)) (rinit data).
