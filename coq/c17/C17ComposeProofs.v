(* C17ComposeProofs.v — a canonical typed message, seen as what WriteSEIMessages asks of it
   (Type(), Size(), Payload()), satisfies the hypotheses of the list round trip: its Size() is
   the payload length, fits the extractor's uint32, and the payload is a byte string. *)
From V.lib Require Import Base.
From V.c13 Require Import C13Model C13Bits.
From V.c17 Require Import C17Spec C17Model C17EbspProofs C17TypedModel C17BitProofs C17TypedProofs C17FswProofs.

Lemma pack8_bytes_ok n : forall l, bytes_ok (pack8 n l) = true.
Proof.
  induction n as [|n IH]; intros l; [reflexivity|].
  cbn [pack8]. rewrite bytes_ok_cons, IH, andb_true_r. unfold byte_ok. apply N.ltb_lt.
  pose proof (val_of_lt (firstn 8 l)) as H.
  assert (L : (length (firstn 8 l) <= 8)%nat) by (rewrite firstn_length; lia).
  assert (2 ^ N.of_nat (length (firstn 8 l)) <= 2 ^ 8) by (apply N.pow_le_mono_r; lia).
  change (2 ^ 8) with 256 in *. lia.
Qed.

Lemma bytes_ok_firstn n l : bytes_ok l = true -> bytes_ok (firstn n l) = true.
Proof.
  revert n. induction l as [|b t IH]; intros n H; [destruct n; reflexivity|].
  destruct n; [reflexivity|]. cbn [firstn]. rewrite bytes_ok_cons in *.
  apply andb_true_iff in H. destruct H as [Hb Ht]. rewrite Hb, (IH n Ht). reflexivity.
Qed.

Lemma spec_bytes_ok cap ops : bytes_ok (spec_bytes cap ops) = true.
Proof. unfold spec_bytes, pack. apply bytes_ok_firstn, pack8_bytes_ok. Qed.

Lemma hms_nrbits_le full sf mf hf : hms_nrbits full sf mf hf <= 20.
Proof. unfold hms_nrbits. destruct full, sf, mf, hf; lia. Qed.

Lemma clock_nrbits_le c : clock_canonical c = true -> clock_nrbits c <= 75.
Proof.
  unfold clock_canonical, clock_nrbits. destruct (c_flag c); [|lia]. intros H.
  apply andb_true_iff in H. destruct H as [H _]. apply andb_true_iff in H. destruct H as [_ H].
  apply N.ltb_lt in H.
  pose proof (hms_nrbits_le (c_full c) (c_secflag c) (c_minflag c) (c_hrflag c)). lia.
Qed.

Lemma sum_clock_nrbits_le cs :
  forallb clock_canonical cs = true -> sumN (map clock_nrbits cs) <= 75 * lenN cs.
Proof.
  induction cs as [|c t IH]; intros H; [cbn; lia|].
  cbn [forallb] in H. apply andb_true_iff in H. destruct H as [Hc Ht].
  cbn [map sumN]. rewrite lenN_cons. pose proof (clock_nrbits_le c Hc). specialize (IH Ht). lia.
Qed.

Lemma timecode_msg_ok cs :
  tc_canonical cs = true -> msg_ok (mkMsg 136 (tc_size cs) (tc_payload cs)) = true.
Proof.
  intros H. destruct (timecode_exec cs H) as [E [_ HL]].
  unfold msg_ok. cbn [mtype msize mpayload]. rewrite HL, N.eqb_refl, E. unfold tc_payload_spec. rewrite spec_bytes_ok.
  rewrite !andb_true_r. apply andb_true_iff. split; [reflexivity|]. apply N.ltb_lt.
  unfold tc_canonical in H. apply andb_true_iff in H. destruct H as [Hn Hc]. apply N.ltb_lt in Hn.
  pose proof (sum_clock_nrbits_le cs Hc). unfold tc_size.
  apply N.div_lt_upper_bound; lia.
Qed.

Lemma clock_avc_nrbits_le tolen c :
  tolen < 32 -> clock_avc_canonical tolen c = true -> clock_avc_nrbits c <= 71.
Proof.
  unfold clock_avc_canonical, clock_avc_nrbits. intros Ht H.
  apply andb_true_iff in H. destruct H as [H _]. apply N.eqb_eq in H.
  destruct (a_flag c); [|lia].
  pose proof (hms_nrbits_le (a_full c) (a_secflag c) (a_minflag c) (a_hrflag c)). lia.
Qed.

Lemma sum_clock_avc_nrbits_le tolen cs :
  tolen < 32 -> forallb (clock_avc_canonical tolen) cs = true ->
  sumN (map clock_avc_nrbits cs) <= 71 * lenN cs.
Proof.
  intros Ht. induction cs as [|c t IH]; intros H; [cbn; lia|].
  cbn [forallb] in H. apply andb_true_iff in H. destruct H as [Hc Hcs].
  cbn [map sumN]. rewrite lenN_cons. pose proof (clock_avc_nrbits_le tolen c Ht Hc). specialize (IH Hcs). lia.
Qed.

Lemma pic_timing_msg_ok m :
  pt_canonical m = true -> msg_ok (mkMsg 1 (pt_size m) (pt_payload m)) = true.
Proof.
  intros H. destruct (pic_timing_exec m H) as [E [_ HL]].
  unfold msg_ok. cbn [mtype msize mpayload]. rewrite HL, N.eqb_refl, E. unfold pt_payload_spec. rewrite spec_bytes_ok.
  rewrite !andb_true_r. apply andb_true_iff. split; [reflexivity|]. apply N.ltb_lt.
  unfold pt_canonical in H.
  apply andb_true_iff in H. destruct H as [H Hcs].
  apply andb_true_iff in H. destruct H as [H Hk].
  apply andb_true_iff in H. destruct H as [Hh Htol]. apply N.ltb_lt in Htol.
  pose proof (sum_clock_avc_nrbits_le _ _ Htol Hcs) as HS.
  assert (HK : lenN (p_clocks m) <= 3).
  { unfold num_clock_ts in Hk. unfold lenN.
    destruct (p_pict m <=? 2); [apply Nat.eqb_eq in Hk; lia|].
    destruct (p_pict m <=? 4); [apply Nat.eqb_eq in Hk; lia|].
    destruct (p_pict m <=? 8); [apply Nat.eqb_eq in Hk; lia|discriminate]. }
  unfold pt_size. apply N.div_lt_upper_bound; [lia|].
  destruct (p_hrd m) as [h|]; [|lia].
  unfold hrd_canonical in Hh.
  repeat (apply andb_true_iff in Hh; destruct Hh as [Hh ?]).
  repeat match goal with H : (_ <? _) = true |- _ => apply N.ltb_lt in H end. lia.
Qed.

Lemma mod256_ok x : byte_ok (x mod 256) = true.
Proof. unfold byte_ok. apply N.ltb_lt. apply N.mod_lt. discriminate. Qed.

Lemma mdcv_msg_ok m : msg_ok (mkMsg 137 mdcv_size (mdcv_payload m)) = true.
Proof.
  unfold msg_ok, mdcv_payload, be16, be32. cbn [mtype msize mpayload app bytes_ok forallb].
  rewrite !mod256_ok. reflexivity.
Qed.

Lemma cll_msg_ok m : msg_ok (mkMsg 144 cll_size (cll_payload m)) = true.
Proof.
  unfold msg_ok, cll_payload, be16. cbn [mtype msize mpayload app bytes_ok forallb].
  rewrite !mod256_ok. reflexivity.
Qed.

Lemma typed_msgs_ok :
  (forall cs, tc_canonical cs = true -> msg_ok (mkMsg 136 (tc_size cs) (tc_payload cs)) = true) /\
  (forall m, pt_canonical m = true -> msg_ok (mkMsg 1 (pt_size m) (pt_payload m)) = true) /\
  (forall m, msg_ok (mkMsg 137 mdcv_size (mdcv_payload m)) = true) /\
  (forall m, msg_ok (mkMsg 144 cll_size (cll_payload m)) = true).
Proof.
  split; [exact timecode_msg_ok|]. split; [exact pic_timing_msg_ok|].
  split; [exact mdcv_msg_ok|exact cll_msg_ok].
Qed.

(* a canonical time code between arbitrary other messages of an SEI NAL unit: written, extracted
   and decoded, it comes back unchanged *)
Lemma timecode_in_nalu cs pre post :
  tc_canonical cs = true -> msgs_ok pre = true -> msgs_ok post = true ->
  extract_sei_data (write_sei_messages (pre ++ mkMsg 136 (tc_size cs) (tc_payload cs) :: post))
  = XOk (observed pre ++ (136, tc_payload cs) :: observed post)
  /\ tc_decode (tc_payload cs) = Ok cs.
Proof.
  intros H Hpre Hpost. split; [|apply (timecode_exec cs H)].
  rewrite list_roundtrip_ebsp.
  - unfold observed. rewrite map_app. reflexivity.
  - intros E. apply app_eq_nil in E. destruct E as [_ E]. discriminate.
  - unfold msgs_ok. rewrite forallb_app. cbn [forallb].
    fold (msgs_ok pre). fold (msgs_ok post). rewrite Hpre, Hpost, (timecode_msg_ok cs H). reflexivity.
Qed.
