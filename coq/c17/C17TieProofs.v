(* C17TieProofs.v — the bit-list reading of bits.Reader used by the typed SEI decoders of
   C17TypedModel (first failed read = Err) is tied, by proof, to the Go-level reader machine of
   C13Model (read_plain: value/n/pos accumulator over the byte slice, ACCUMULATED error: later reads
   return 0 and the decoder runs on): the machine-level transcriptions of C17TieModel compute, on
   every byte string, exactly what the bit-list decoders compute.
     Agree m b : from related states the machine computation m and the bit-list computation b return
                 the same value and stay related, or b fails and m ends with the error flag set;
     Keeps m   : once the error flag is set, m leaves it set.
   Both are closed under sequencing; the primitives come from C13PlainProofs.read_plain_prefix and
   the EOF lemma below. *)
From V.lib Require Import Base.
From V.c13 Require Import C13Spec C13Model C13Bits C13ReaderProofs C13PlainProofs.
From V.c17 Require Import C17Spec C17TypedModel C17TieModel C17CanonProofs C17FswProofs C17ComposeProofs.

(* ---------- the machine runs out of data exactly when the bit list is too short ---------- *)
Lemma fill_plain_fail fuel : forall s n,
  RInv s -> n <= 56 -> N.of_nat (length (pbits s)) < n -> n <= rn s + 8 * N.of_nat fuel ->
  rerr (fill false fuel s n) = true.
Proof.
  induction fuel as [|f IH]; intros s n HI Hn Hlen Hfuel.
  - exfalso. unfold pbits in Hlen. rewrite app_length, bits_of_length in Hlen. lia.
  - cbn [fill].
    assert (Hrn : rn s < n).
    { unfold pbits in Hlen. rewrite app_length, bits_of_length in Hlen. lia. }
    destruct (N.ltb_spec (rn s) n) as [_|Hge]; [|lia].
    destruct HI as [He [Hv Hd]]. unfold byte_at. cbn [andb].
    destruct (nth_error (rdata s) (N.to_nat (rpos s))) as [b|] eqn:Eb; [|reflexivity].
    pose proof (nth_error_skipn _ _ _ Eb) as Hsk.
    pose proof (nth_error_Forall _ _ _ _ Hd Eb) as Hb256.
    set (s2 := mkR (rn s + 8) (N.lor (u64 (N.shiftl (rv s) 8)) b) (rpos s + 1)
                   (if b =? 0 then rzc s + 1 else 0) false (rdata s)).
    assert (Hb2 : pbits s2 = pbits s).
    { unfold pbits, s2. cbn [rn rv rpos rdata]. rewrite Hsk.
      replace (N.to_nat (rpos s + 1)) with (S (N.to_nat (rpos s))) by lia.
      replace (N.to_nat (rn s + 8)) with (N.to_nat (rn s) + 8)%nat by lia.
      rewrite acc_shift_bits by (try exact Hb256; lia).
      unfold bytes_to_bits. cbn [flat_map]. rewrite <- app_assoc. reflexivity. }
    apply IH; [|exact Hn|rewrite Hb2; exact Hlen|unfold s2; cbn [rn]; lia].
    unfold RInv, s2. cbn [rerr rv rn rdata]. repeat split; [|exact Hd].
    apply acc_shift_lt; [lia|exact Hv|exact Hb256].
Qed.

Lemma read_plain_fail s n :
  RGood s -> n <= 56 -> N.of_nat (length (pbits s)) < n ->
  fst (read_plain s n) = 0 /\ rerr (snd (read_plain s n)) = true.
Proof.
  intros [HI Hn8] Hn Hlen. unfold read_plain, read_gen. destruct HI as [He [Hv Hd]]. rewrite He.
  assert (Hf : rerr (fill false (S (N.to_nat (n / 8) + 1)) s n) = true).
  { apply fill_plain_fail; [exact (conj He (conj Hv Hd))|exact Hn|exact Hlen|].
    pose proof (N.div_mod n 8 ltac:(lia)). pose proof (N.mod_lt n 8 ltac:(lia)). lia. }
  rewrite Hf. split; [reflexivity|exact Hf].
Qed.

Lemma read_plain_err s n : rerr s = true -> read_plain s n = (0, s).
Proof. intros H. unfold read_plain, read_gen. rewrite H. reflexivity. Qed.

(* ---------- the relation and the two properties of a computation ---------- *)
Definition Sim (s : rstate) (l : list bool) : Prop := RGood s /\ pbits s = l.

Lemma Sim_noerr s l : Sim s l -> rerr s = false.
Proof. intros [[[H _] _] _]. exact H. Qed.

Lemma Sim_init data : bytes_ok data = true -> Sim (rinit data) (bytes_to_bits data).
Proof.
  intros Hb. split.
  - split; [|cbn [rinit rn]; lia]. unfold RInv, rinit. cbn [rerr rv rn rdata].
    split; [reflexivity|]. split; [reflexivity|].
    unfold bytes_ok in Hb. rewrite forallb_forall in Hb. apply Forall_forall. intros x Hx.
    specialize (Hb x Hx). unfold byte_ok in Hb. unfold lt256. lia.
  - reflexivity.
Qed.

Definition Agree {A} (m : gm A) (b : list bool -> res (A * list bool)) : Prop :=
  forall s l, Sim s l ->
    match b l with
    | Ok (a, l') => fst (m s) = a /\ Sim (snd (m s)) l'
    | Err => rerr (snd (m s)) = true
    | _ => False
    end.

Definition Keeps {A} (m : gm A) : Prop := forall s, rerr s = true -> rerr (snd (m s)) = true.

Lemma Agree_ret {A} (a : A) : Agree (gret a) (fun l => Ok (a, l)).
Proof. intros s l H. split; [reflexivity|exact H]. Qed.

Lemma Keeps_ret {A} (a : A) : Keeps (gret a).
Proof. intros s H. exact H. Qed.

Lemma Keeps_bind {A B} (m : gm A) (k : A -> gm B) :
  Keeps m -> (forall a, Keeps (k a)) -> Keeps (gbind m k).
Proof.
  intros Hm Hk s H. unfold gbind. specialize (Hm s H). destruct (m s) as [a s1]. apply Hk. exact Hm.
Qed.

(* sequencing; P is what is known of a value the bit-list computation returned (a width just read) *)
Lemma Agree_bind {A B} (P : A -> Prop) (m : gm A) (k : A -> gm B) b kb :
  Agree m b -> (forall l a l', b l = Ok (a, l') -> P a) ->
  (forall a, P a -> Agree (k a) (fun l' => kb (a, l'))) -> (forall a, Keeps (k a)) ->
  Agree (gbind m k) (fun l => rbind (b l) kb).
Proof.
  intros Hm HP Hk Hkeep s l HS. specialize (Hm s l HS). unfold gbind.
  destruct (b l) as [[a l']| | |] eqn:E; cbn [rbind]; try contradiction.
  - destruct (m s) as [a0 s1]. cbn [fst snd] in Hm. destruct Hm as [-> HS1].
    exact (Hk a (HP _ _ _ E) s1 l' HS1).
  - destruct (m s) as [a0 s1]. cbn [snd] in Hm. apply Hkeep. exact Hm.
Qed.

Definition always {A} (a : A) : Prop := True.

(* ---------- primitives ---------- *)
Lemma Keeps_rd conv n : Keeps (g_rd conv n).
Proof. intros s H. unfold g_rd. rewrite read_plain_err by exact H. exact H. Qed.
Lemma Keeps_flag : Keeps g_flag.
Proof. intros s H. unfold g_flag. rewrite read_plain_err by exact H. exact H. Qed.
Lemma Keeps_signed n : Keeps (g_signed n).
Proof. intros s H. unfold g_signed, read_signed_plain. rewrite read_plain_err by exact H. exact H. Qed.

Lemma read_agree n s l :
  n <= 56 -> Sim s l ->
  match rd (N.to_nat n) l with
  | Ok (v, l') => read_plain s n = (v, snd (read_plain s n)) /\ Sim (snd (read_plain s n)) l' /\ v < 2 ^ n
  | Err => fst (read_plain s n) = 0 /\ rerr (snd (read_plain s n)) = true
  | _ => False
  end.
Proof.
  intros Hn [HG Hb]. destruct (rd (N.to_nat n) l) as [[v l']| | |] eqn:E.
  - pose proof (rd_lt _ _ _ _ E) as Hv. rewrite N2Nat.id in Hv.
    unfold rd in E. destruct (Nat.ltb_spec (length l) (N.to_nat n)) as [L|L]; [discriminate|].
    injection E as <- <-.
    destruct (read_plain_prefix s n (firstn (N.to_nat n) l) (skipn (N.to_nat n) l) HG Hn
                ltac:(rewrite Hb; symmetry; apply firstn_skipn)
                ltac:(rewrite firstn_length; lia)) as [s' [Hr [Hb' [HG' _]]]].
    rewrite Hr. cbn [snd]. split; [reflexivity|]. split; [split; assumption|exact Hv].
  - unfold rd in E. destruct (Nat.ltb_spec (length l) (N.to_nat n)) as [L|L]; [|discriminate].
    apply read_plain_fail; [exact HG|exact Hn|rewrite Hb; lia].
  - unfold rd in E. destruct (length l <? N.to_nat n)%nat; discriminate.
  - unfold rd in E. destruct (length l <? N.to_nat n)%nat; discriminate.
Qed.

(* conv(br.Read(n)) for a conversion that keeps n-bit values *)
Lemma Agree_rd conv n k :
  n <= 56 -> N.to_nat n = k -> (forall v, v < 2 ^ n -> conv v = v) -> Agree (g_rd conv n) (rd k).
Proof.
  intros Hn <- Hc s l HS. pose proof (read_agree n s l Hn HS) as H. unfold g_rd.
  destruct (rd (N.to_nat n) l) as [[v l']| | |]; try contradiction.
  - destruct H as [Hr [HS' Hv]]. rewrite Hr. cbn [fst snd]. split; [apply Hc, Hv|exact HS'].
  - destruct H as [_ He]. destruct (read_plain s n) as [v s1]. exact He.
Qed.

Lemma rd_flag_as_rd l : rd_flag l = do (v, l') <- rd 1 l; Ok (v =? 1, l').
Proof.
  destruct l as [|b t]; [reflexivity|]. unfold rd_flag, rd. cbn [length Nat.ltb Nat.leb firstn skipn rbind val_of].
  destruct b; reflexivity.
Qed.

Lemma Agree_flag : Agree g_flag rd_flag.
Proof.
  intros s l HS. rewrite rd_flag_as_rd. pose proof (read_agree 1 s l ltac:(lia) HS) as H.
  change (N.to_nat 1) with 1%nat in H. unfold g_flag.
  destruct (rd 1 l) as [[v l']| | |]; cbn [rbind]; try contradiction.
  - destruct H as [Hr [HS' _]]. rewrite Hr. cbn [fst snd]. rewrite (Sim_noerr _ _ HS'). split; [reflexivity|exact HS'].
  - destruct H as [_ He]. destruct (read_plain s 1) as [v s1]. exact He.
Qed.

Lemma Agree_signed n k : 1 <= n <= 56 -> N.to_nat n = k -> Agree (g_signed n) (rd_signed k).
Proof.
  intros Hn <- s l HS. pose proof (read_agree n s l ltac:(lia) HS) as H.
  unfold g_signed, read_signed_plain, rd_signed.
  destruct (rd (N.to_nat n) l) as [[v l']| | |]; cbn [rbind]; try contradiction.
  - destruct H as [Hr [HS' _]]. rewrite Hr. cbn [fst snd]. split; [|exact HS'].
    replace (N.of_nat (N.to_nat n - 1)) with (n - 1) by lia. rewrite N_nat_Z. reflexivity.
  - destruct H as [_ He]. destruct (read_plain s n) as [v s1]. exact He.
Qed.

(* ---------- conversions that keep the values read ---------- *)
Lemma u8_small n v : n <= 8 -> v < 2 ^ n -> u8 v = v.
Proof.
  intros Hn Hv. unfold u8. apply N.mod_small. eapply N.lt_le_trans; [exact Hv|].
  change 256 with (2 ^ 8). apply N.pow_le_mono_r; [discriminate|exact Hn].
Qed.
Lemma cu16_small n v : n <= 16 -> v < 2 ^ n -> cu16 v = v.
Proof.
  intros Hn Hv. unfold cu16. apply N.mod_small. eapply N.lt_le_trans; [exact Hv|].
  change 65536 with (2 ^ 16). apply N.pow_le_mono_r; [discriminate|exact Hn].
Qed.
Lemma cu32_small n v : n <= 32 -> v < 2 ^ n -> cu32 v = v.
Proof.
  intros Hn Hv. unfold cu32. apply N.mod_small. eapply N.lt_le_trans; [exact Hv|].
  change 4294967296 with (2 ^ 32). apply N.pow_le_mono_r; [discriminate|exact Hn].
Qed.

Ltac keeps_with T :=
  repeat first
    [ apply Keeps_ret | apply Keeps_rd | apply Keeps_flag | apply Keeps_signed | T
    | apply Keeps_bind; [|intros ?]
    | match goal with
      | |- Keeps (if ?c then _ else _) => destruct c
      | |- Keeps (let '(_, _) := ?p in _) => destruct p
      | |- Keeps (match ?p with pair _ _ => _ end) => destruct p
      end ].
Ltac keeps0 := keeps_with fail.

Ltac rd8 w := apply Agree_rd; [lia|reflexivity|intros ? ?; apply (u8_small w); [lia|assumption]].

(* one statement: the machine side and the bit-list side read the same thing *)

(* ---------- hh:mm:ss ---------- *)
Lemma Keeps_hms full : Keeps (g_hms full).
Proof. unfold g_hms. destruct full; keeps0. Qed.

Ltac keeps := keeps_with ltac:(apply Keeps_hms).
Ltac step_with T := eapply (Agree_bind always); [T|intros; exact I|intros ? _; cbn beta iota|intros ?; keeps].
Tactic Notation "step" tactic3(T) "as" simple_intropattern(x) :=
  eapply (Agree_bind always); [T|intros; exact I|intros x _; cbn beta iota|intros ?; keeps].

Lemma Agree_hms full : Agree (g_hms full) (rd_hms full).
Proof.
  unfold g_hms, rd_hms. destruct full.
  - step_with ltac:(rd8 6). step_with ltac:(rd8 6). step_with ltac:(rd8 5). apply Agree_ret.
  - step_with ltac:(apply Agree_flag). destruct a; [|apply Agree_ret].
    step_with ltac:(rd8 6). step_with ltac:(apply Agree_flag). destruct a0; [|apply Agree_ret].
    step_with ltac:(rd8 6). step_with ltac:(apply Agree_flag). destruct a1; [|apply Agree_ret].
    step_with ltac:(rd8 5). apply Agree_ret.
Qed.

(* ---------- SEI 136 ---------- *)
Lemma Keeps_clock : Keeps g_clock.
Proof.
  unfold g_clock. apply Keeps_bind; [apply Keeps_flag|]. intros f. destruct f; [|apply Keeps_ret].
  do 6 (apply Keeps_bind; [first [apply Keeps_flag|apply Keeps_rd]|intros ?]).
  apply Keeps_bind; [apply Keeps_hms|]. intros [[[[[sf s] mf] m] hf] h]. keeps.
Qed.

Lemma Agree_clock : Agree g_clock rd_clock.
Proof.
  unfold g_clock, rd_clock.
  step (apply Agree_flag) as [|]; [|apply Agree_ret].
  step_with ltac:(apply Agree_flag).
  step_with ltac:(rd8 5).
  step_with ltac:(apply Agree_flag).
  step_with ltac:(apply Agree_flag).
  step_with ltac:(apply Agree_flag).
  step_with ltac:(apply Agree_rd; [lia|reflexivity|intros ? ?; apply (cu16_small 9); [lia|assumption]]).
  step (apply Agree_hms) as [[[[[sf s] mf] m] hf] h].
  (* the time-offset length just read is below 32: the next read is at most 31 bits wide *)
  eapply (Agree_bind (fun tl => tl < 32)).
  - rd8 5.
  - intros l tl l' E. exact (rd_lt_const 5 32 _ _ _ eq_refl E).
  - intros tl Htl. cbn beta iota. destruct (0 <? tl); [|apply Agree_ret].
    step_with ltac:(apply Agree_rd; [lia|reflexivity|intros ? ?; apply (cu32_small tl); [lia|assumption]]).
    apply Agree_ret.
  - intros tl. keeps.
Qed.

Lemma Keeps_clocks k : Keeps (g_clocks k).
Proof.
  induction k as [|k IH]; cbn [g_clocks]; [apply Keeps_ret|].
  apply Keeps_bind; [apply Keeps_clock|]. intros c. apply Keeps_bind; [exact IH|]. intros cs. apply Keeps_ret.
Qed.

Lemma Agree_clocks k : Agree (g_clocks k) (rd_clocks k).
Proof.
  induction k as [|k IH]; cbn [g_clocks rd_clocks]; [apply Agree_ret|].
  eapply (Agree_bind always); [apply Agree_clock|intros; exact I| |].
  - intros c _. cbn beta iota.
    eapply (Agree_bind always); [exact IH|intros; exact I| |].
    + intros cs _. cbn beta iota. apply Agree_ret.
    + intros cs. apply Keeps_ret.
  - intros c. apply Keeps_bind; [apply Keeps_clocks|]. intros cs. apply Keeps_ret.
Qed.

(* what a decoder makes of a finished computation: the value if the error flag is clear *)
Lemma finish_agree {A} (m : gm A) b s l :
  Agree m b -> Sim s l ->
  (let '(a, s') := m s in if rerr s' then Err else Ok a) = (do (a, _) <- b l; Ok a).
Proof.
  intros HA HS. specialize (HA s l HS).
  destruct (b l) as [[a l']| | |]; cbn [rbind]; try contradiction.
  - destruct (m s) as [a0 s1]. cbn [fst snd] in HA. destruct HA as [-> HS1].
    rewrite (Sim_noerr _ _ HS1). reflexivity.
  - destruct (m s) as [a0 s1]. cbn [snd] in HA. rewrite HA. reflexivity.
Qed.

Lemma Agree_tc :
  Agree (gbind (g_rd cuint 2) (fun k => g_clocks (N.to_nat k)))
        (fun l => do (k, l1) <- rd 2 l; rd_clocks (N.to_nat k) l1).
Proof.
  eapply (Agree_bind always).
  - apply Agree_rd; [lia|reflexivity|reflexivity].
  - intros; exact I.
  - intros k _. cbn beta iota. apply Agree_clocks.
  - intros k. apply Keeps_clocks.
Qed.

Lemma tc_decode_tie payload : bytes_ok payload = true -> tc_decode_go payload = tc_decode payload.
Proof.
  intros Hb. unfold tc_decode_go, tc_decode.
  rewrite (finish_agree _ _ _ _ Agree_tc (Sim_init payload Hb)).
  destruct (rd 2 (bytes_to_bits payload)) as [[k l1]| | |]; cbn [rbind]; try reflexivity.
Qed.

(* ---------- AVC SEI 1 ---------- *)
Lemma Keeps_clock_avc tolen : Keeps (g_clock_avc tolen).
Proof.
  unfold g_clock_avc. apply Keeps_bind; [apply Keeps_flag|]. intros f. destruct f; [|apply Keeps_ret].
  do 7 (apply Keeps_bind; [first [apply Keeps_flag|apply Keeps_rd]|intros ?]).
  apply Keeps_bind; [apply Keeps_hms|]. intros [[[[[sf s] mf] m] hf] h]. keeps.
Qed.

Lemma Agree_clock_avc tolen : tolen < 32 -> Agree (g_clock_avc tolen) (rd_clock_avc tolen).
Proof.
  intros Ht. unfold g_clock_avc, rd_clock_avc.
  step (apply Agree_flag) as [|]; [|apply Agree_ret].
  step_with ltac:(rd8 2).
  step_with ltac:(apply Agree_flag).
  step_with ltac:(rd8 5).
  step_with ltac:(apply Agree_flag).
  step_with ltac:(apply Agree_flag).
  step_with ltac:(apply Agree_flag).
  step_with ltac:(rd8 8).
  step (apply Agree_hms) as [[[[[sf s] mf] m] hf] h].
  destruct (0 <? tolen) eqn:Z; [|apply Agree_ret].
  apply N.ltb_lt in Z.
  step_with ltac:(apply Agree_signed; [lia|reflexivity]). apply Agree_ret.
Qed.

Lemma Keeps_clocks_avc tolen k : Keeps (g_clocks_avc k tolen).
Proof.
  induction k as [|k IH]; cbn [g_clocks_avc]; [apply Keeps_ret|].
  apply Keeps_bind; [apply Keeps_clock_avc|]. intros c. apply Keeps_bind; [exact IH|]. intros cs. apply Keeps_ret.
Qed.

Lemma Agree_clocks_avc tolen k : tolen < 32 -> Agree (g_clocks_avc k tolen) (rd_clocks_avc k tolen).
Proof.
  intros Ht. induction k as [|k IH]; cbn [g_clocks_avc rd_clocks_avc]; [apply Agree_ret|].
  eapply (Agree_bind always); [apply Agree_clock_avc; exact Ht|intros; exact I| |].
  - intros c _. cbn beta iota.
    eapply (Agree_bind always); [exact IH|intros; exact I| |].
    + intros cs _. cbn beta iota. apply Agree_ret.
    + intros cs. apply Keeps_ret.
  - intros c. apply Keeps_bind; [apply Keeps_clocks_avc|]. intros cs. apply Keeps_ret.
Qed.

(* the head of the picture timing message: optional HRD delays, pict_struct *)
Definition hrd_bits (ext : option hrd_delay) (l : list bool) : res (option hrd_delay * list bool) :=
  match ext with
  | Some h =>
      do (cpb, la) <- rd (N.to_nat (h_cpb_len1 h + 1)) l;
      do (dpb, lb) <- rd (N.to_nat (h_dpb_len1 h + 1)) la;
      Ok (Some (mkHrd cpb dpb (h_init_len1 h) (h_cpb_len1 h) (h_dpb_len1 h)), lb)
  | None => Ok (None, l)
  end.

Definition pt_head_bits (ext : option hrd_delay) (l : list bool) : res ((option hrd_delay * N) * list bool) :=
  do (hrd, l1) <- hrd_bits ext l; do (pict, l2) <- rd 4 l1; Ok ((hrd, pict), l2).

Lemma Keeps_hrd ext : Keeps (g_hrd ext).
Proof. unfold g_hrd. destruct ext; keeps. Qed.

Lemma Agree_hrd ext tolen : ext_ok ext tolen = true -> Agree (g_hrd ext) (hrd_bits ext).
Proof.
  intros Hx. unfold ext_ok in Hx. apply andb_true_iff in Hx. destruct Hx as [Hx _].
  unfold g_hrd, hrd_bits. destruct ext as [h|]; [|apply Agree_ret].
  apply andb_true_iff in Hx. destruct Hx as [H1 H2]. apply N.ltb_lt in H1, H2.
  step_with ltac:(apply Agree_rd; [lia|reflexivity|reflexivity]).
  step_with ltac:(apply Agree_rd; [lia|reflexivity|reflexivity]).
  apply Agree_ret.
Qed.

Lemma Agree_pt_head ext tolen :
  ext_ok ext tolen = true ->
  Agree (gbind (g_hrd ext) (fun hrd => gbind (g_rd u8 4) (fun pict => gret (hrd, pict)))) (pt_head_bits ext).
Proof.
  intros Hx. unfold pt_head_bits.
  eapply (Agree_bind always); [apply (Agree_hrd ext tolen Hx)|intros; exact I| |intros ?; keeps].
  intros hrd _. cbn beta iota. step_with ltac:(rd8 4). apply Agree_ret.
Qed.

Lemma pt_decode_head ext tolen payload :
  pt_decode ext tolen payload =
  match pt_head_bits ext (bytes_to_bits payload) with
  | Ok ((hrd, pict), l2) =>
      match num_clock_ts pict with
      | None => Err
      | Some k => do (cs, _) <- rd_clocks_avc k tolen l2; Ok (mkPT hrd tolen pict cs)
      end
  | Err => Err
  | Panic => Panic
  | OutOfFuel => OutOfFuel
  end.
Proof.
  unfold pt_decode, pt_head_bits, hrd_bits. cbv zeta. destruct ext as [h|].
  - destruct (rd (N.to_nat (h_cpb_len1 h + 1)) (bytes_to_bits payload)) as [[cpb la]| | |]; cbn [rbind]; try reflexivity.
    destruct (rd (N.to_nat (h_dpb_len1 h + 1)) la) as [[dpb lb]| | |]; cbn [rbind]; try reflexivity.
    destruct (rd 4 lb) as [[pict l2]| | |]; reflexivity.
  - cbn [rbind]. destruct (rd 4 (bytes_to_bits payload)) as [[pict l2]| | |]; reflexivity.
Qed.

Lemma pt_decode_tie ext tolen payload :
  ext_ok ext tolen = true -> bytes_ok payload = true ->
  pt_decode_go ext tolen payload = pt_decode ext tolen payload.
Proof.
  intros Hx Hb. rewrite pt_decode_head. unfold pt_decode_go.
  assert (Ht : tolen < 32).
  { unfold ext_ok in Hx. apply andb_true_iff in Hx. destruct Hx as [_ Ht]. apply N.ltb_lt. exact Ht. }
  pose proof (Agree_pt_head ext tolen Hx _ _ (Sim_init payload Hb)) as HA.
  destruct (pt_head_bits ext (bytes_to_bits payload)) as [[[hrd pict] l2]| | |]; try contradiction.
  - destruct (gbind (g_hrd ext) _ (rinit payload)) as [[hrd0 pict0] s2]. cbn [fst snd] in HA.
    destruct HA as [[= -> ->] HS2].
    destruct (num_clock_ts pict) as [k|]; [|reflexivity].
    pose proof (Agree_clocks_avc tolen k Ht s2 l2 HS2) as HC.
    destruct (rd_clocks_avc k tolen l2) as [[cs l3]| | |]; cbn [rbind]; try contradiction.
    + destruct (g_clocks_avc k tolen s2) as [cs0 s3]. cbn [fst snd] in HC. destruct HC as [-> HS3].
      rewrite (Sim_noerr _ _ HS3). reflexivity.
    + destruct (g_clocks_avc k tolen s2) as [cs0 s3]. cbn [snd] in HC. rewrite HC. reflexivity.
  - destruct (gbind (g_hrd ext) _ (rinit payload)) as [[hrd0 pict0] s2]. cbn [snd] in HA.
    destruct (num_clock_ts pict0) as [k|]; [|reflexivity].
    pose proof (Keeps_clocks_avc tolen k s2 HA) as HK.
    destruct (g_clocks_avc k tolen s2) as [cs s3]. cbn [snd] in HK. rewrite HK. reflexivity.
Qed.

(* ---------- the typed round trips at machine level ---------- *)
Lemma msg_ok_bytes m : msg_ok m = true -> bytes_ok (mpayload m) = true.
Proof. unfold msg_ok. intros H. apply andb_true_iff in H. destruct H as [_ H]. exact H. Qed.

Lemma pt_canonical_ext m : pt_canonical m = true -> ext_ok (p_hrd m) (p_tolen m) = true.
Proof.
  unfold pt_canonical, ext_ok. intros H.
  apply andb_true_iff in H. destruct H as [H _]. apply andb_true_iff in H. destruct H as [H _].
  apply andb_true_iff in H. destruct H as [Hh Ht]. rewrite Ht, andb_true_r.
  destruct (p_hrd m) as [h|]; [|reflexivity]. unfold hrd_canonical in Hh.
  apply andb_true_iff in Hh. destruct Hh as [Hh _]. apply andb_true_iff in Hh. destruct Hh as [Hh _]. exact Hh.
Qed.

Lemma timecode_roundtrip_machine cs :
  tc_canonical cs = true -> tc_decode_go (tc_payload cs) = Ok cs.
Proof.
  intros H. rewrite tc_decode_tie.
  - apply (timecode_exec cs H).
  - exact (msg_ok_bytes _ (timecode_msg_ok cs H)).
Qed.

Lemma pic_timing_roundtrip_machine m :
  pt_canonical m = true -> pt_decode_go (p_hrd m) (p_tolen m) (pt_payload m) = Ok m.
Proof.
  intros H. rewrite pt_decode_tie.
  - apply (pic_timing_exec m H).
  - exact (pt_canonical_ext m H).
  - exact (msg_ok_bytes _ (pic_timing_msg_ok m H)).
Qed.

Lemma decoders_tie :
  (forall payload, bytes_ok payload = true -> tc_decode_go payload = tc_decode payload) /\
  (forall ext tolen payload, ext_ok ext tolen = true -> bytes_ok payload = true ->
     pt_decode_go ext tolen payload = pt_decode ext tolen payload).
Proof. split; [exact tc_decode_tie|exact pt_decode_tie]. Qed.

Lemma roundtrip_machine :
  (forall cs, tc_canonical cs = true -> tc_decode_go (tc_payload cs) = Ok cs) /\
  (forall m, pt_canonical m = true -> pt_decode_go (p_hrd m) (p_tolen m) (pt_payload m) = Ok m).
Proof. split; [exact timecode_roundtrip_machine|exact pic_timing_roundtrip_machine]. Qed.
