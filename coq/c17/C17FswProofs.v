(* C17FswProofs.v — the executable payload (ops run through the C13 model of
   bits.FixedSliceWriter, then FlushBits, cut at the capacity) equals the bit-list form the
   typed theorems are stated on: fsw_bytes = spec_bytes. *)
From V.lib Require Import Base.
From V.c13 Require Import C13Spec C13Model C13Bits C13WriterProofs.
From V.c17 Require Import C17TypedModel C17BitProofs C17TypedProofs.

Definition fsw_op_ok (o : wop) : bool :=
  match o with
  | WBits _ w => w <=? 56
  | WFlag _ => true
  | _ => false
  end.

Definition PStream (s : wstate) (cur : list bool) : Prop :=
  exists raw, WInv false s raw /\ bytes_to_bits raw ++ pending s = cur.

Lemma pstream_step s cur o :
  fsw_op_ok o = true -> PStream s cur -> PStream (wstep_plain s o) (cur ++ C17TypedModel.op_bits o).
Proof.
  intros Hok [raw [HI Hc]].
  destruct o as [v w|b|v|k|v| | |]; try discriminate; cbn [wstep_plain C17TypedModel.op_bits].
  - apply N.leb_le in Hok.
    destruct (write_gen_spec false s raw v w HI Hok) as [raw' [HI' [Hs _]]].
    exists raw'. split; [exact HI'|]. unfold write_plain. rewrite Hs, <- Hc, <- app_assoc. reflexivity.
  - destruct (write_gen_spec false s raw (if b then 1 else 0) 1 HI ltac:(lia)) as [raw' [HI' [Hs _]]].
    exists raw'. split; [exact HI'|]. unfold write_plain. rewrite Hs, <- Hc, <- app_assoc.
    destruct b; reflexivity.
Qed.

Lemma pstream_fold ops : forall s cur,
  forallb fsw_op_ok ops = true -> PStream s cur ->
  PStream (fold_left wstep_plain ops s) (cur ++ ops_bits ops).
Proof.
  induction ops as [|o t IH]; intros s cur Hok H.
  - cbn [fold_left ops_bits flat_map]. rewrite app_nil_r. exact H.
  - cbn [forallb] in Hok. apply andb_true_iff in Hok. destruct Hok as [Ho Ht].
    cbn [fold_left]. rewrite ops_bits_cons, app_assoc. apply IH; [exact Ht|].
    apply pstream_step; assumption.
Qed.

Lemma pack8_bytes raw : forall rest,
  Forall (fun b => b < 256) raw -> pack8 (length raw) (bytes_to_bits raw ++ rest) = raw.
Proof.
  induction raw as [|b t IH]; intros rest H; [reflexivity|].
  inversion H as [|? ? Hb Ht]; subst.
  cbn [length pack8]. unfold bytes_to_bits. cbn [flat_map]. rewrite <- app_assoc.
  rewrite firstn_app_len, skipn_app_len by apply bits_of_length.
  rewrite val_of_bits_of. rewrite N.mod_small by exact Hb. f_equal. apply IH. exact Ht.
Qed.

Lemma pack_bytes raw : Forall (fun b => b < 256) raw -> pack (bytes_to_bits raw) = raw.
Proof.
  intros H. unfold pack. rewrite bytes_to_bits_length.
  rewrite Nat.mul_comm, Nat.div_mul by lia.
  rewrite <- (app_nil_r (bytes_to_bits raw)). apply pack8_bytes. exact H.
Qed.

Lemma bits_of_zero n : bits_of n 0 = repeat false n.
Proof. induction n as [|n IH]; [reflexivity|]. cbn [bits_of repeat]. rewrite N.bits_0, IH. reflexivity. Qed.

Lemma flush_byte_bits k v :
  (1 <= k <= 7)%nat ->
  bits_of 8 (N.land (N.shiftl v (8 - N.of_nat k)) 255) = bits_of k v ++ repeat false (8 - k).
Proof.
  intros Hk. replace 8%nat with (k + (8 - k))%nat at 1 by lia.
  rewrite <- bits_of_zero. apply bits_of_app_ext.
  - intros i Hi. rewrite N.land_spec, N.bits_0, N.shiftl_spec_low by lia. reflexivity.
  - intros i Hi. rewrite N.land_spec. change 255 with (N.ones 8).
    rewrite N.ones_spec_low by lia. rewrite andb_true_r.
    rewrite N.shiftl_spec_high by lia. f_equal. lia.
Qed.

Lemma pstream_flush s cur :
  PStream s cur -> wout (flush_plain s) = pack (pad8 cur).
Proof.
  intros [raw [[Hn [Hlt Hrev]] Hc]]. cbv iota in Hrev. unfold flush_plain, pad8. subst cur.
  rewrite app_length, bytes_to_bits_length. unfold pending. rewrite bits_of_length.
  replace ((8 * length raw + N.to_nat (wn s)) mod 8)%nat with (N.to_nat (wn s)).
  2:{ rewrite Nat.add_comm, Nat.mul_comm, Nat.mod_add by lia. rewrite Nat.mod_small; lia. }
  destruct (N.eqb_spec (wn s) 0) as [E|E].
  - rewrite E. cbn [N.to_nat bits_of Nat.sub Nat.modulo repeat]. change ((8 - 0) mod 8)%nat with 0%nat.
    cbn [repeat]. rewrite !app_nil_r. unfold wout. rewrite Hrev, rev_involutive.
    symmetry. apply pack_bytes. exact Hlt.
  - unfold wout. cbn [wrev]. rewrite Hrev. cbn [rev]. rewrite rev_involutive.
    rewrite Nat.mod_small by lia.
    set (k := N.to_nat (wn s)).
    replace (8 - wn s) with (8 - N.of_nat k) by (unfold k; lia).
    rewrite <- app_assoc, <- flush_byte_bits by (unfold k; lia).
    change (bits_of 8 ?b) with (bytes_to_bits [b]) at 1.
    rewrite <- bytes_to_bits_app. symmetry. apply pack_bytes.
    apply Forall_app. split; [exact Hlt|]. constructor; [|constructor].
    change 255 with (N.ones 8). rewrite N.land_ones. apply N.mod_lt. discriminate.
Qed.

Lemma fsw_is_spec cap ops :
  forallb fsw_op_ok ops = true -> fsw_bytes cap ops = spec_bytes cap ops.
Proof.
  intros Hok. unfold fsw_bytes, spec_bytes, run_writer_plain.
  rewrite fold_left_app. cbn [fold_left wstep_plain]. f_equal.
  apply pstream_flush.
  pose proof (pstream_fold ops winit [] Hok) as H. cbn [app] in H. apply H.
  exists []. split; [apply WInv_init|reflexivity].
Qed.

(* ---------- the op lists of the typed messages are within the writer's domain ---------- *)
Lemma hms_ops_ok full sf s mf m hf h : forallb fsw_op_ok (hms_ops full sf s mf m hf h) = true.
Proof. unfold hms_ops. destruct full, sf, mf, hf; reflexivity. Qed.

Lemma clock_ops_ok c : c_tolen c <= 56 -> forallb fsw_op_ok (clock_ops c) = true.
Proof.
  intros H. unfold clock_ops. destruct (c_flag c); [|reflexivity].
  cbn [forallb fsw_op_ok andb]. rewrite !forallb_app, hms_ops_ok.
  cbn [forallb fsw_op_ok andb app]. destruct (0 <? c_tolen c); cbn [forallb fsw_op_ok];
    rewrite ?andb_true_r; apply N.leb_le; exact H || lia.
Qed.

Lemma clocks_ops_ok cs :
  forallb clock_canonical cs = true -> forallb fsw_op_ok (flat_map clock_ops cs) = true.
Proof.
  induction cs as [|c t IH]; intros H; [reflexivity|].
  cbn [forallb] in H. apply andb_true_iff in H. destruct H as [Hc Ht].
  cbn [flat_map]. rewrite forallb_app, (IH Ht), andb_true_r. apply clock_ops_ok.
  unfold clock_canonical in Hc. destruct (c_flag c).
  - apply andb_true_iff in Hc. destruct Hc as [Hc _]. apply andb_true_iff in Hc. destruct Hc as [_ Hc].
    apply N.ltb_lt in Hc. lia.
  - repeat (apply andb_true_iff in Hc; destruct Hc as [Hc ?]).
    match goal with H : (c_tolen c =? 0) = true |- _ => apply N.eqb_eq in H; lia end.
Qed.

Lemma tc_ops_ok cs : tc_canonical cs = true -> forallb fsw_op_ok (tc_ops cs) = true.
Proof.
  unfold tc_canonical, tc_ops. intros H. apply andb_true_iff in H. destruct H as [_ H].
  cbn [forallb fsw_op_ok andb]. rewrite forallb_app, (clocks_ops_ok cs H). reflexivity.
Qed.

Lemma timecode_payload_is_spec cs : tc_canonical cs = true -> tc_payload cs = tc_payload_spec cs.
Proof. intros H. apply fsw_is_spec, tc_ops_ok, H. Qed.

Lemma clock_avc_ops_ok c : a_tolen c <= 56 -> forallb fsw_op_ok (clock_avc_ops c) = true.
Proof.
  intros H. unfold clock_avc_ops. destruct (a_flag c); [|reflexivity].
  cbn [forallb fsw_op_ok andb]. rewrite !forallb_app, hms_ops_ok.
  cbn [forallb fsw_op_ok andb app]. destruct (0 <? a_tolen c); cbn [forallb fsw_op_ok];
    rewrite ?andb_true_r; try reflexivity; apply N.leb_le; exact H.
Qed.

Lemma clocks_avc_ops_ok tolen cs :
  tolen < 32 -> forallb (clock_avc_canonical tolen) cs = true ->
  forallb fsw_op_ok (flat_map clock_avc_ops cs) = true.
Proof.
  intros Htol. induction cs as [|c t IH]; intros Hcs; [reflexivity|].
  cbn [forallb] in Hcs. apply andb_true_iff in Hcs. destruct Hcs as [Hc Ht].
  cbn [flat_map]. rewrite forallb_app, (IH Ht), andb_true_r. apply clock_avc_ops_ok.
  unfold clock_avc_canonical in Hc. apply andb_true_iff in Hc. destruct Hc as [Hc _].
  apply N.eqb_eq in Hc. lia.
Qed.

Lemma pt_ops_ok m : pt_canonical m = true -> forallb fsw_op_ok (pt_ops m) = true.
Proof.
  unfold pt_canonical, pt_ops. intros H.
  apply andb_true_iff in H. destruct H as [H Hcs].
  apply andb_true_iff in H. destruct H as [H _].
  apply andb_true_iff in H. destruct H as [Hh Htol]. apply N.ltb_lt in Htol.
  rewrite forallb_app. cbn [forallb fsw_op_ok andb].
  rewrite (clocks_avc_ops_ok _ _ Htol Hcs), andb_true_r.
  destruct (p_hrd m) as [h|]; [|reflexivity]. unfold hrd_canonical in Hh.
  repeat (apply andb_true_iff in Hh; destruct Hh as [Hh ?]).
  repeat match goal with H : (_ <? _) = true |- _ => apply N.ltb_lt in H end.
  cbn [forallb fsw_op_ok]. rewrite andb_true_r. apply andb_true_iff. split; apply N.leb_le; lia.
Qed.

Lemma pic_timing_payload_is_spec m : pt_canonical m = true -> pt_payload m = pt_payload_spec m.
Proof. intros H. apply fsw_is_spec, pt_ops_ok, H. Qed.

Lemma timecode_exec cs :
  tc_canonical cs = true ->
  tc_payload cs = tc_payload_spec cs /\
  tc_decode (tc_payload cs) = Ok cs /\ lenN (tc_payload cs) = tc_size cs.
Proof.
  intros H. pose proof (timecode_payload_is_spec cs H) as E. rewrite E.
  split; [reflexivity|]. apply timecode_roundtrip. exact H.
Qed.

Lemma pic_timing_exec m :
  pt_canonical m = true ->
  pt_payload m = pt_payload_spec m /\
  pt_decode (p_hrd m) (p_tolen m) (pt_payload m) = Ok m /\ lenN (pt_payload m) = pt_size m.
Proof.
  intros H. pose proof (pic_timing_payload_is_spec m H) as E. rewrite E.
  split; [reflexivity|]. apply pic_timing_roundtrip. exact H.
Qed.
