(* C17NaluProofs.v — the written NAL unit read back through avc.ParseSEINalu / hevc.ParseSEINalu
   (C17NaluModel): the wrappers run their decoders on exactly the written (type, payload) pairs, and
   every message in the domain (canonical typed message of that path, decoded pass-through message,
   general data) comes back as itself. *)
From V.lib Require Import Base.
From V.c13 Require Import C13Spec C13Model.
From V.c17 Require Import C17Spec C17Model C17EbspProofs C17TypedModel C17TypedProofs C17FswProofs
  C17ComposeProofs C17HistModel C17HistProofs C17NaluModel.

(* ---------------------------------------------------------------- the wrappers on a written list *)
Lemma parse_rest_written dec msgs :
  msgs <> [] -> msgs_ok msgs = true ->
  parse_rest dec (write_sei_messages msgs) = pres_of (decode_all dec (observed msgs)).
Proof.
  intros H1 H2. unfold parse_rest. rewrite (list_roundtrip_ebsp msgs H1 H2).
  destruct (decode_all dec (observed msgs)); reflexivity.
Qed.

Lemma nalu_written :
  (forall par h msgs, N.land h 31 = 6 -> msgs <> [] -> msgs_ok msgs = true ->
     parse_sei_nalu_avc par (h :: write_sei_messages msgs) = pres_of (decode_all (decode_avc par) (observed msgs))) /\
  (forall par h1 h2 msgs, (N.land (h1 / 2) 63 = 39 \/ N.land (h1 / 2) 63 = 40) -> msgs <> [] -> msgs_ok msgs = true ->
     parse_sei_nalu_hevc par (h1 :: h2 :: write_sei_messages msgs) = pres_of (decode_all (decode_hevc par) (observed msgs))).
Proof.
  split.
  - intros par h msgs Hh H1 H2. cbn [parse_sei_nalu_avc]. rewrite Hh. cbn [N.eqb Pos.eqb].
    apply parse_rest_written; assumption.
  - intros par h1 h2 msgs Hh H1 H2. cbn [parse_sei_nalu_hevc].
    replace ((N.land (h1 / 2) 63 =? 39) || (N.land (h1 / 2) 63 =? 40)) with true.
    + apply parse_rest_written; assumption.
    + destruct Hh as [-> | ->]; reflexivity.
Qed.

(* ---------------------------------------------------------------- self-decoding messages *)
Definition sm_self (dec : N -> list N -> res sei_message) (m : sei_message) : Prop :=
  dec (sm_type m) (sm_payload m) = Ok m.

Lemma observed_sm ms : observed (map sm_msg ms) = map (fun m => (sm_type m, sm_payload m)) ms.
Proof. unfold observed. rewrite map_map. reflexivity. Qed.

Lemma decode_all_self dec ms :
  Forall (sm_self dec) ms -> decode_all dec (observed (map sm_msg ms)) = Ok ms.
Proof.
  rewrite observed_sm. induction 1 as [|m ms Hm _ IH]; [reflexivity|].
  cbn [map decode_all]. unfold sm_self in Hm. rewrite Hm. cbn [rbind]. rewrite IH. reflexivity.
Qed.

Lemma pt_decode_like h e tl pl : hrd_like h e = true -> pt_decode e tl pl = pt_decode h tl pl.
Proof.
  destruct h as [[a b i c d]|], e as [[a' b' i' c' d']|]; cbn [hrd_like]; try discriminate; [|reflexivity].
  cbn [h_init_len1 h_cpb_len1 h_dpb_len1]. intros H.
  apply andb_true_iff in H. destruct H as [H H3]. apply andb_true_iff in H. destruct H as [H1 H2].
  apply N.eqb_eq in H1, H2, H3. subst. reflexivity.
Qed.

Lemma registered_type pl p : decode_registered pl = Ok p -> pass_type p = 4 /\ ps_payload p = pl.
Proof.
  unfold decode_registered. destruct (length pl <? 8)%nat; [discriminate|].
  destruct (_ && _).
  - destruct (parse_cea608 (skipn 8 pl)) as [[f1 f2]| | |]; cbn [rbind]; try discriminate.
    intros E. inversion E. split; reflexivity.
  - intros E. inversion E. split; reflexivity.
Qed.

Lemma unregistered_type pl p : decode_unregistered pl = Ok p -> pass_type p = 5 /\ ps_payload p = pl.
Proof.
  unfold decode_unregistered. destruct (length pl <? 16)%nat; [discriminate|].
  intros E. inversion E. split; reflexivity.
Qed.

Lemma pic_timing_hevc_type par pl p : decode_pic_timing_hevc par pl = Ok p -> pass_type p = 1 /\ ps_payload p = pl.
Proof.
  unfold decode_pic_timing_hevc. destruct (hevc_final par pl) as [s| | |]; cbn [rbind]; try discriminate.
  destruct (rerr s); [discriminate|]. intros E. inversion E. split; reflexivity.
Qed.

Lemma eqb_ne a b : a <> b -> (a =? b) = false.
Proof. intros H. apply N.eqb_neq, H. Qed.

Lemma decode_avc_pt par pl :
  decode_avc par 1 pl = decode_pt_msg (fst (avc_ext par)) (snd (avc_ext par)) pl.
Proof. destruct par as [|vcl nal]; [reflexivity|]. cbn [decode_avc avc_ext N.eqb Pos.eqb]. destruct (avc_hrd vcl nal) as [[[c d] t]|]; reflexivity. Qed.

Lemma decode_avc_other par ty pl : ty <> 1 -> decode_avc par ty pl = decode_sei_message AVC ty pl.
Proof. intros H. destruct par as [|vcl nal]; [reflexivity|]. cbn [decode_avc]. rewrite (eqb_ne _ _ H). reflexivity. Qed.

Lemma wf_avc_self par m : sm_wf_avc par m -> sm_self (decode_avc par) m /\ msg_ok (sm_msg m) = true.
Proof.
  destruct m as [t|p|ty pl]; cbn [sm_wf_avc].
  - destruct t as [cs|pt|md|cl]; try contradiction. intros (Hc & Ht & Hh).
    split; [|apply (typed_msg_ok (TPicTiming pt)); exact Hc].
    unfold sm_self. cbn [sm_type sm_payload typed_type typed_payload]. rewrite decode_avc_pt.
    unfold decode_pt_msg. rewrite (pt_decode_like _ _ _ _ Hh), <- Ht.
    destruct (pic_timing_exec pt Hc) as (_ & D & _). rewrite D. reflexivity.
  - intros (Hok & pl & Hd). unfold pass_ok in Hok. apply andb_true_iff in Hok. destruct Hok as [Hl Hb].
    assert (Ht : (pass_type p = 4 \/ pass_type p = 5) /\ sm_self (decode_avc par) (MPass p)).
    { unfold sm_self. cbn [sm_type sm_payload]. unfold pass_payload.
      destruct Hd as [Hd|Hd].
      - destruct (registered_type _ _ Hd) as [T P]. split; [left; exact T|]. rewrite T, P.
        rewrite decode_avc_other by discriminate. cbn [decode_sei_message N.eqb Pos.eqb]. rewrite Hd. reflexivity.
      - destruct (unregistered_type _ _ Hd) as [T P]. split; [right; exact T|]. rewrite T, P.
        rewrite decode_avc_other by discriminate. cbn [decode_sei_message N.eqb Pos.eqb]. rewrite Hd. reflexivity. }
    destruct Ht as [Ht Hs]. split; [exact Hs|].
    unfold msg_ok, sm_msg. cbn [mtype msize mpayload sm_type sm_size sm_payload]. unfold pass_size, pass_payload.
    rewrite Hl, Hb, N.eqb_refl. destruct Ht as [-> | ->]; reflexivity.
  - intros (Hok & N1 & N4 & N5). split.
    + unfold sm_self. cbn [sm_type sm_payload]. rewrite decode_avc_other by exact N1.
      cbn [decode_sei_message]. rewrite (eqb_ne _ _ N1), (eqb_ne _ _ N4), (eqb_ne _ _ N5). reflexivity.
    + unfold raw_ok in Hok. apply andb_true_iff in Hok. destruct Hok as [Hok Hb].
      apply andb_true_iff in Hok. destruct Hok as [Ht Hl].
      unfold msg_ok, sm_msg. cbn [mtype msize mpayload sm_type sm_size sm_payload].
      rewrite Ht, Hl, Hb, N.eqb_refl. reflexivity.
Qed.

Lemma decode_hevc_other par ty pl : (ty <> 1 \/ par = HPNone) -> decode_hevc par ty pl = decode_sei_message HEVC ty pl.
Proof.
  intros [H | ->]; [|reflexivity]. destruct par as [|ffi hrd]; [reflexivity|].
  cbn [decode_hevc]. rewrite (eqb_ne _ _ H). reflexivity.
Qed.

Lemma wf_hevc_self par m : sm_wf_hevc par m -> sm_self (decode_hevc par) m /\ msg_ok (sm_msg m) = true.
Proof.
  destruct m as [t|p|ty pl]; cbn [sm_wf_hevc].
  - intros H. assert (Hc : typed_canonical t = true) by (destruct t; [exact H|contradiction|exact H|exact H]).
    split; [|apply (typed_msg_ok t); exact Hc].
    destruct (typed_roundtrip t Hc) as [D _].
    unfold sm_self. cbn [sm_type sm_payload].
    destruct t as [cs|pt|md|cl]; try contradiction;
      cbn [typed_type typed_payload typed_decode_like] in *;
      (rewrite decode_hevc_other by (left; discriminate));
      cbn [decode_sei_message N.eqb Pos.eqb lift_typed].
    + destruct (tc_decode (tc_payload cs)); cbn [rbind] in *; try discriminate. inversion D. reflexivity.
    + destruct (mdcv_decode (mdcv_payload md)); cbn [rbind] in *; try discriminate. inversion D. reflexivity.
    + destruct (cll_decode (cll_payload cl)); cbn [rbind] in *; try discriminate. inversion D. reflexivity.
  - intros (Hok & pl & Hd). unfold pass_ok in Hok. apply andb_true_iff in Hok. destruct Hok as [Hl Hb].
    assert (Ht : (pass_type p = 4 \/ pass_type p = 5 \/ pass_type p = 1) /\ sm_self (decode_hevc par) (MPass p)).
    { unfold sm_self. cbn [sm_type sm_payload]. unfold pass_payload.
      destruct Hd as [Hd|[Hd|(ffi & hrd & -> & Hd)]].
      - destruct (registered_type _ _ Hd) as [T P]. split; [left; exact T|]. rewrite T, P.
        rewrite decode_hevc_other by (left; discriminate). cbn [decode_sei_message N.eqb Pos.eqb]. rewrite Hd. reflexivity.
      - destruct (unregistered_type _ _ Hd) as [T P]. split; [right; left; exact T|]. rewrite T, P.
        rewrite decode_hevc_other by (left; discriminate). cbn [decode_sei_message N.eqb Pos.eqb]. rewrite Hd. reflexivity.
      - destruct (pic_timing_hevc_type _ _ _ Hd) as [T P]. split; [right; right; exact T|]. rewrite T, P.
        cbn [decode_hevc N.eqb Pos.eqb]. rewrite Hd. reflexivity. }
    destruct Ht as [Ht Hs]. split; [exact Hs|].
    unfold msg_ok, sm_msg. cbn [mtype msize mpayload sm_type sm_size sm_payload]. unfold pass_size, pass_payload.
    rewrite Hl, Hb, N.eqb_refl. destruct Ht as [-> | [-> | ->]]; reflexivity.
  - intros (Hok & N1 & N4 & N5 & N136 & N137 & N144). split.
    + unfold sm_self. cbn [sm_type sm_payload]. rewrite decode_hevc_other by exact N1.
      cbn [decode_sei_message]. rewrite (eqb_ne _ _ N4), (eqb_ne _ _ N5), (eqb_ne _ _ N136), (eqb_ne _ _ N137), (eqb_ne _ _ N144).
      reflexivity.
    + unfold raw_ok in Hok. apply andb_true_iff in Hok. destruct Hok as [Hok Hb].
      apply andb_true_iff in Hok. destruct Hok as [Ht Hl].
      unfold msg_ok, sm_msg. cbn [mtype msize mpayload sm_type sm_size sm_payload].
      rewrite Ht, Hl, Hb, N.eqb_refl. reflexivity.
Qed.

Lemma wf_all {dec} {wf : sei_message -> Prop} (ms : list sei_message) :
  (forall m, wf m -> sm_self dec m /\ msg_ok (sm_msg m) = true) ->
  Forall wf ms -> Forall (sm_self dec) ms /\ msgs_ok (map sm_msg ms) = true.
Proof.
  intros Hw. induction 1 as [|m ms Hm _ [IH1 IH2]]; [split; [constructor|reflexivity]|].
  destruct (Hw m Hm) as [S O]. split; [constructor; assumption|].
  unfold msgs_ok in *. cbn [map forallb]. rewrite O, IH2. reflexivity.
Qed.

(* ---------------------------------------------------------------- the round trip through the wrappers *)
Lemma nalu_roundtrip :
  (forall par h ms, N.land h 31 = 6 -> ms <> [] -> Forall (sm_wf_avc par) ms ->
     parse_sei_nalu_avc par (h :: write_sei_messages (map sm_msg ms)) = POk ms) /\
  (forall par h1 h2 ms, (N.land (h1 / 2) 63 = 39 \/ N.land (h1 / 2) 63 = 40) -> ms <> [] -> Forall (sm_wf_hevc par) ms ->
     parse_sei_nalu_hevc par (h1 :: h2 :: write_sei_messages (map sm_msg ms)) = POk ms).
Proof.
  destruct nalu_written as [A H]. split.
  - intros par h ms Hh Hne Hwf.
    destruct (wf_all ms (wf_avc_self par) Hwf) as [Hs Hok].
    rewrite (A par h _ Hh); [|destruct ms; [contradiction|discriminate]|exact Hok].
    rewrite (decode_all_self _ _ Hs). reflexivity.
  - intros par h1 h2 ms Hh Hne Hwf.
    destruct (wf_all ms (wf_hevc_self par) Hwf) as [Hs Hok].
    rewrite (H par h1 h2 _ Hh); [|destruct ms; [contradiction|discriminate]|exact Hok].
    rewrite (decode_all_self _ _ Hs). reflexivity.
Qed.
