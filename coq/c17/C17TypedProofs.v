(* C17TypedProofs.v — decode (payload m) = m and |payload m| = size m for the typed messages
   (on the bit-list form `spec_bytes` of the FixedSliceWriter output). *)
From V.lib Require Import Base.
From V.c13 Require Import C13Model C13Bits.
From V.c17 Require Import C17TypedModel C17BitProofs.

Ltac split_hyps :=
  repeat match goal with
  | H : _ && _ = true |- _ => apply andb_true_iff in H; destruct H
  | H : negb _ = true |- _ => apply negb_true_iff in H
  | H : (_ =? _) = true |- _ => apply N.eqb_eq in H
  | H : (_ <? _) = true |- _ => apply N.ltb_lt in H
  | H : (_ =? _)%Z = true |- _ => apply Z.eqb_eq in H
  end.

(* one decoding step: the next coded item is at the head of the bit list *)
Ltac rd_step :=
  first
  [ rewrite rd_flag_cons
  | rewrite (rd_bits 2 _ 4) by (try reflexivity; assumption)
  | rewrite (rd_bits 4 _ 16) by (try reflexivity; assumption)
  | rewrite (rd_bits 5 _ 32) by (try reflexivity; assumption)
  | rewrite (rd_bits 6 _ 64) by (try reflexivity; assumption)
  | rewrite (rd_bits 8 _ 256) by (try reflexivity; assumption)
  | rewrite (rd_bits 9 _ 512) by (try reflexivity; assumption) ];
  cbn [rbind].

Ltac norm_bits :=
  cbn [ops_bits flat_map op_bits];
  repeat first [ rewrite <- app_assoc | rewrite app_nil_r | progress cbn [app] ].

(* ------------------------------------------------------------------ hh:mm:ss *)
Lemma rd_hms_ops full sf s mf m hf h rest :
  hms_canonical full sf s mf m hf h = true ->
  rd_hms full (ops_bits (hms_ops full sf s mf m hf h) ++ rest) = Ok ((sf, s, mf, m, hf, h), rest).
Proof.
  intros H. unfold hms_canonical in H. unfold hms_ops, rd_hms.
  destruct full.
  - split_hyps. subst. norm_bits.
    change (N.to_nat 6) with 6%nat. change (N.to_nat 5) with 5%nat.
    repeat rd_step. reflexivity.
  - destruct sf; [|split_hyps; subst; norm_bits; repeat rd_step; reflexivity].
    destruct mf; [|split_hyps; subst; norm_bits; change (N.to_nat 6) with 6%nat;
                    repeat rd_step; reflexivity].
    destruct hf; split_hyps; subst; norm_bits;
      change (N.to_nat 6) with 6%nat; change (N.to_nat 5) with 5%nat; repeat rd_step; reflexivity.
Qed.

Lemma hms_ops_length full sf s mf m hf h :
  lenN (ops_bits (hms_ops full sf s mf m hf h)) = hms_nrbits full sf mf hf.
Proof.
  unfold hms_ops, hms_nrbits, lenN.
  destruct full; [reflexivity|]. destruct sf; [|reflexivity]. destruct mf; [|reflexivity].
  destruct hf; reflexivity.
Qed.

(* ------------------------------------------------------------------ SEI 136 *)
Lemma rd_clock_ops c rest :
  clock_canonical c = true -> rd_clock (ops_bits (clock_ops c) ++ rest) = Ok (c, rest).
Proof.
  destruct c as [fl un ct full disc dr nf sf s mf m hf h tl tv].
  unfold clock_canonical, clock_ops, rd_clock. cbn [c_flag c_units c_counting c_full c_disc c_dropped
    c_nframes c_secflag c_seconds c_minflag c_minutes c_hrflag c_hours c_tolen c_toval].
  intros H. destruct fl.
  - apply andb_true_iff in H. destruct H as [H Htv].
    apply andb_true_iff in H. destruct H as [H Htl].
    apply andb_true_iff in H. destruct H as [H Hhms].
    split_hyps.
    rewrite ops_bits_cons, !ops_bits_app. cbn [op_bits]. cbn [app].
    rewrite rd_flag_cons. cbn [rbind].
    norm_bits. change (N.to_nat 5) with 5%nat. change (N.to_nat 9) with 9%nat.
    repeat rd_step.
    rewrite (rd_hms_ops _ _ _ _ _ _ _ _ Hhms). cbn [rbind].
    rd_step.
    destruct (N.ltb_spec 0 tl) as [L|L].
    + cbn [flat_map op_bits app]. rewrite app_nil_r.
      rewrite rd_bits_N by assumption. reflexivity.
    + assert (tl = 0) by lia. subst tl. cbn [flat_map app].
      assert (tv = 0) by (cbn in Htv; lia). subst tv. reflexivity.
  - split_hyps. subst. reflexivity.
Qed.

Lemma lenN_ops_cons o t : lenN (ops_bits (o :: t)) = lenN (op_bits o) + lenN (ops_bits t).
Proof. rewrite ops_bits_cons. apply lenN_app. Qed.
Lemma lenN_ops_app a b : lenN (ops_bits (a ++ b)) = lenN (ops_bits a) + lenN (ops_bits b).
Proof. rewrite ops_bits_app. apply lenN_app. Qed.
Lemma lenN_ops_nil : lenN (ops_bits []) = 0.
Proof. reflexivity. Qed.
Lemma lenN_op_flag b : lenN (op_bits (WFlag b)) = 1.
Proof. reflexivity. Qed.
Lemma lenN_op_bits v w : lenN (op_bits (WBits v w)) = w.
Proof. cbn [op_bits]. unfold lenN. rewrite bits_of_length. lia. Qed.

Ltac len_ops :=
  repeat first [ rewrite lenN_ops_cons | rewrite lenN_ops_app | rewrite lenN_ops_nil
               | rewrite lenN_op_flag | rewrite lenN_op_bits | rewrite hms_ops_length ].

Lemma clock_ops_length c : lenN (ops_bits (clock_ops c)) = clock_nrbits c.
Proof.
  destruct c as [fl un ct full disc dr nf sf s mf m hf h tl tv].
  unfold clock_ops, clock_nrbits. cbn [c_flag c_units c_counting c_full c_disc c_dropped
    c_nframes c_secflag c_seconds c_minflag c_minutes c_hrflag c_hours c_tolen c_toval].
  destruct fl; [|reflexivity].
  destruct (N.ltb_spec 0 tl) as [L|L]; len_ops; lia.
Qed.

Lemma rd_clocks_ops : forall cs rest,
  forallb clock_canonical cs = true ->
  rd_clocks (length cs) (ops_bits (flat_map clock_ops cs) ++ rest) = Ok (cs, rest).
Proof.
  induction cs as [|c t IH]; intros rest H; [reflexivity|].
  cbn [forallb] in H. apply andb_true_iff in H. destruct H as [Hc Ht].
  cbn [length rd_clocks flat_map]. rewrite ops_bits_app, <- app_assoc.
  rewrite (rd_clock_ops c _ Hc). cbn [rbind]. rewrite (IH _ Ht). reflexivity.
Qed.

Lemma clocks_ops_length cs :
  lenN (ops_bits (flat_map clock_ops cs)) = sumN (map clock_nrbits cs).
Proof.
  induction cs as [|c t IH]; [reflexivity|].
  cbn [flat_map map sumN]. rewrite ops_bits_app, lenN_app, IH, clock_ops_length. reflexivity.
Qed.

Lemma div8_bounds n : n <= 8 * ((n + 7) / 8) /\ 8 * ((n + 7) / 8) <= n + 7.
Proof.
  pose proof (N.div_mod (n + 7) 8 ltac:(lia)). pose proof (N.mod_lt (n + 7) 8 ltac:(lia)). lia.
Qed.

Lemma nat_div8 n : (8 * N.to_nat (n / 8) = 8 * (N.to_nat n / 8))%nat.
Proof.
  f_equal. rewrite <- (N2Nat.id n) at 1. change 8 with (N.of_nat 8).
  rewrite <- Nat2N.inj_div, Nat2N.id. reflexivity.
Qed.

Lemma timecode_roundtrip cs :
  tc_canonical cs = true ->
  tc_decode (tc_payload_spec cs) = Ok cs /\ lenN (tc_payload_spec cs) = tc_size cs.
Proof.
  unfold tc_canonical. intros H. apply andb_true_iff in H. destruct H as [Hn Hc].
  apply N.ltb_lt in Hn.
  set (coded := bits_of 2 (lenN cs) ++ ops_bits (flat_map clock_ops cs)).
  assert (Hops : ops_bits (tc_ops cs) = coded ++ [true]).
  { unfold tc_ops, coded. rewrite ops_bits_cons, ops_bits_app. cbn [op_bits].
    change (N.to_nat 2) with 2%nat. rewrite <- app_assoc. reflexivity. }
  assert (Hlen : lenN coded = 2 + sumN (map clock_nrbits cs)).
  { unfold coded. rewrite lenN_app, clocks_ops_length. unfold lenN at 1. rewrite bits_of_length. lia. }
  pose proof (div8_bounds (2 + sumN (map clock_nrbits cs))) as [B1 B2].
  destruct (spec_bytes_bits (tc_size cs) coded [true] (tc_ops cs) Hops) as [HL [tail HT]].
  { unfold tc_size. unfold lenN in Hlen. lia. }
  { unfold tc_size. cbn [length]. rewrite nat_div8. unfold lenN in Hlen.
    apply Nat.mul_le_mono_l. apply Nat.div_le_mono; lia. }
  split; [|exact HL].
  unfold tc_decode, tc_payload_spec. rewrite HT. unfold coded. rewrite <- app_assoc.
  rewrite (rd_bits 2 _ 4) by (try reflexivity; exact Hn). cbn [rbind].
  unfold lenN. rewrite Nat2N.id. rewrite (rd_clocks_ops cs _ Hc). reflexivity.
Qed.

(* ------------------------------------------------------------------ AVC SEI 1 *)
Lemma rd_clock_avc_ops tolen c rest :
  tolen < 32 -> clock_avc_canonical tolen c = true ->
  rd_clock_avc tolen (ops_bits (clock_avc_ops c) ++ rest) = Ok (c, rest).
Proof.
  destruct c as [fl ctt nu ct full disc dr nf sf s mf m hf h tl tv].
  unfold clock_avc_canonical, clock_avc_ops, rd_clock_avc. cbn [a_flag a_cttype a_nuit a_counting a_full
    a_disc a_dropped a_nframes a_secflag a_seconds a_minflag a_minutes a_hrflag a_hours a_tolen a_toval].
  intros Htol H. apply andb_true_iff in H. destruct H as [Htl H]. apply N.eqb_eq in Htl. subst tl.
  destruct fl.
  - apply andb_true_iff in H. destruct H as [H Htv].
    apply andb_true_iff in H. destruct H as [H Hhms].
    split_hyps.
    rewrite ops_bits_cons, !ops_bits_app. cbn [op_bits]. cbn [app].
    rewrite rd_flag_cons. cbn [rbind].
    norm_bits. change (N.to_nat 2) with 2%nat. change (N.to_nat 5) with 5%nat. change (N.to_nat 8) with 8%nat.
    repeat rd_step.
    rewrite (rd_hms_ops _ _ _ _ _ _ _ _ Hhms). cbn [rbind].
    destruct (N.ltb_spec 0 tolen) as [L|L].
    + cbn [ops_bits flat_map op_bits app]. rewrite app_nil_r.
      apply andb_true_iff in Htv. destruct Htv as [Hlo Hhi].
      apply Z.leb_le in Hlo. apply Z.ltb_lt in Hhi.
      rewrite rd_signed_bits; [reflexivity|lia|rewrite N_nat_Z; lia].
    + apply Z.eqb_eq in Htv. subst tv. reflexivity.
  - split_hyps. subst. reflexivity.
Qed.

Lemma clock_avc_ops_length c : lenN (ops_bits (clock_avc_ops c)) = clock_avc_nrbits c.
Proof.
  destruct c as [fl ctt nu ct full disc dr nf sf s mf m hf h tl tv].
  unfold clock_avc_ops, clock_avc_nrbits. cbn [a_flag a_cttype a_nuit a_counting a_full
    a_disc a_dropped a_nframes a_secflag a_seconds a_minflag a_minutes a_hrflag a_hours a_tolen a_toval].
  destruct fl; [|reflexivity].
  destruct (N.ltb_spec 0 tl) as [L|L]; len_ops; lia.
Qed.

Lemma rd_clocks_avc_ops tolen : forall cs rest,
  tolen < 32 -> forallb (clock_avc_canonical tolen) cs = true ->
  rd_clocks_avc (length cs) tolen (ops_bits (flat_map clock_avc_ops cs) ++ rest) = Ok (cs, rest).
Proof.
  induction cs as [|c t IH]; intros rest Htol H; [reflexivity|].
  cbn [forallb] in H. apply andb_true_iff in H. destruct H as [Hc Ht].
  cbn [length rd_clocks_avc flat_map]. rewrite ops_bits_app, <- app_assoc.
  rewrite (rd_clock_avc_ops tolen c _ Htol Hc). cbn [rbind]. rewrite (IH _ Htol Ht). reflexivity.
Qed.

Lemma clocks_avc_ops_length cs :
  lenN (ops_bits (flat_map clock_avc_ops cs)) = sumN (map clock_avc_nrbits cs).
Proof.
  induction cs as [|c t IH]; [reflexivity|].
  cbn [flat_map map sumN]. rewrite ops_bits_app, lenN_app, IH, clock_avc_ops_length. reflexivity.
Qed.

Lemma pic_timing_roundtrip m :
  pt_canonical m = true ->
  pt_decode (p_hrd m) (p_tolen m) (pt_payload_spec m) = Ok m /\ lenN (pt_payload_spec m) = pt_size m.
Proof.
  destruct m as [hrd tolen pict cs]. unfold pt_canonical. cbn [p_hrd p_tolen p_pict p_clocks].
  intros H. apply andb_true_iff in H. destruct H as [H Hcs].
  apply andb_true_iff in H. destruct H as [H Hk].
  apply andb_true_iff in H. destruct H as [Hh Htol]. apply N.ltb_lt in Htol.
  destruct (num_clock_ts pict) as [k|] eqn:Ek; [|discriminate]. apply Nat.eqb_eq in Hk.
  assert (Hp : pict < 16).
  { unfold num_clock_ts in Ek.
    destruct (N.leb_spec pict 2); [lia|]. destruct (N.leb_spec pict 4); [lia|].
    destruct (N.leb_spec pict 8); [lia|discriminate]. }
  set (M := mkPT hrd tolen pict cs).
  set (hbits := match hrd with
                | Some h => bits_of (N.to_nat (h_cpb_len1 h + 1)) (h_cpb_delay h) ++
                            bits_of (N.to_nat (h_dpb_len1 h + 1)) (h_dpb_delay h)
                | None => [] end).
  set (coded := hbits ++ bits_of 4 pict ++ ops_bits (flat_map clock_avc_ops cs)).
  assert (Hops : ops_bits (pt_ops M) = coded ++ []).
  { unfold pt_ops, coded, hbits, M. cbn [p_hrd p_pict p_clocks]. rewrite app_nil_r.
    rewrite ops_bits_app, ops_bits_cons. cbn [op_bits]. change (N.to_nat 4) with 4%nat.
    f_equal. destruct hrd; [|reflexivity]. cbn [ops_bits flat_map op_bits app]. rewrite app_nil_r. reflexivity. }
  assert (Hlen : lenN coded =
                 match hrd with Some h => (h_cpb_len1 h + 1) + (h_dpb_len1 h + 1) | None => 0 end
                 + 4 + sumN (map clock_avc_nrbits cs)).
  { unfold coded, hbits. rewrite !lenN_app, clocks_avc_ops_length.
    replace (lenN (bits_of 4 pict)) with 4 by (unfold lenN; rewrite bits_of_length; reflexivity).
    destruct hrd; [|rewrite lenN_nil; lia].
    rewrite lenN_app. unfold lenN. rewrite !bits_of_length. lia. }
  pose proof (div8_bounds (match hrd with Some h => (h_cpb_len1 h + 1) + (h_dpb_len1 h + 1) | None => 0 end
                           + 4 + sumN (map clock_avc_nrbits cs))) as [B1 B2].
  destruct (spec_bytes_bits (pt_size M) coded [] (pt_ops M) Hops) as [HL [tail HT]].
  { unfold pt_size, M. cbn [p_hrd p_clocks]. unfold lenN in Hlen. lia. }
  { unfold pt_size, M. cbn [p_hrd p_clocks length]. rewrite nat_div8. unfold lenN in Hlen.
    apply Nat.mul_le_mono_l. apply Nat.div_le_mono; lia. }
  split; [|exact HL].
  unfold pt_decode, pt_payload_spec. rewrite HT. unfold coded, hbits. rewrite <- !app_assoc.
  destruct hrd as [h|].
  - unfold hrd_canonical in Hh. split_hyps.
    rewrite <- !app_assoc.
    rewrite rd_bits_N by assumption. cbn [rbind].
    rewrite rd_bits_N by assumption. cbn [rbind].
    rewrite (rd_bits 4 _ 16) by (try reflexivity; exact Hp). cbn [rbind].
    rewrite Ek. rewrite <- Hk. rewrite (rd_clocks_avc_ops tolen cs _ Htol Hcs). cbn [rbind].
    destruct h; reflexivity.
  - cbn [rbind app].
    rewrite (rd_bits 4 _ 16) by (try reflexivity; exact Hp). cbn [rbind].
    rewrite Ek. rewrite <- Hk. rewrite (rd_clocks_avc_ops tolen cs _ Htol Hcs). reflexivity.
Qed.

(* ------------------------------------------------------------------ SEI 137 / 144 *)
Lemma be16_val v : v < 65536 -> (0 * 256 + (v / 256) mod 256) * 256 + v mod 256 = v.
Proof. intros H. lia. Qed.
Lemma be32_val v : v < 4294967296 ->
  (((0 * 256 + (v / 16777216) mod 256) * 256 + (v / 65536) mod 256) * 256 + (v / 256) mod 256) * 256
  + v mod 256 = v.
Proof. intros H. lia. Qed.

Lemma mdcv_roundtrip m :
  mdcv_canonical m = true ->
  mdcv_decode (mdcv_payload m) = Ok m /\ lenN (mdcv_payload m) = mdcv_size.
Proof.
  destruct m as [x0 y0 x1 y1 x2 y2 wx wy mx mn]. unfold mdcv_canonical.
  cbn [md_x0 md_y0 md_x1 md_y1 md_x2 md_y2 md_wx md_wy md_max md_min]. intros H. split_hyps.
  split; [|reflexivity].
  unfold mdcv_decode, mdcv_payload, be16, be32.
  cbn [md_x0 md_y0 md_x1 md_y1 md_x2 md_y2 md_wx md_wy md_max md_min app].
  change (negb (lenN _ =? mdcv_size)) with false. cbv iota.
  unfold rd_be. cbn [firstn skipn be_val].
  rewrite !be16_val, !be32_val by assumption. reflexivity.
Qed.

Lemma cll_roundtrip m :
  cll_canonical m = true ->
  cll_decode (cll_payload m) = Ok m /\ lenN (cll_payload m) = cll_size.
Proof.
  destruct m as [a b]. unfold cll_canonical. cbn [cl_max cl_avg]. intros H. split_hyps.
  split; [|reflexivity].
  unfold cll_decode, cll_payload, be16. cbn [cl_max cl_avg app].
  change (negb (lenN _ =? cll_size)) with false. cbv iota.
  unfold rd_be. cbn [firstn skipn be_val].
  rewrite !be16_val by assumption. reflexivity.
Qed.

(* ------------------------------------------------------------------ pass-through *)
Lemma passthrough_registered pl m :
  decode_registered pl = Ok m -> pass_payload m = pl /\ pass_size m = lenN pl.
Proof.
  unfold decode_registered. destruct (length pl <? 8)%nat; [discriminate|].
  destruct (_ && _).
  - destruct (parse_cea608 (skipn 8 pl)) as [[f1 f2]| | |]; cbn [rbind]; try discriminate.
    intros E. inversion E. split; reflexivity.
  - intros E. inversion E. split; reflexivity.
Qed.

Lemma passthrough_unregistered pl m :
  decode_unregistered pl = Ok m -> pass_payload m = pl /\ pass_size m = lenN pl.
Proof.
  unfold decode_unregistered. destruct (length pl <? 16)%nat; [discriminate|].
  intros E. inversion E. split; reflexivity.
Qed.

Lemma passthrough_pic_timing_hevc par pl m :
  decode_pic_timing_hevc par pl = Ok m -> pass_payload m = pl /\ pass_size m = lenN pl.
Proof.
  unfold decode_pic_timing_hevc. destruct (hevc_final par pl) as [s| | |]; cbn [rbind]; try discriminate.
  destruct (rerr s); [discriminate|]. intros E. inversion E. split; reflexivity.
Qed.

Lemma passthrough_all :
  (forall pl m, decode_registered pl = Ok m -> pass_payload m = pl /\ pass_size m = lenN pl) /\
  (forall pl m, decode_unregistered pl = Ok m -> pass_payload m = pl /\ pass_size m = lenN pl) /\
  (forall par pl m, decode_pic_timing_hevc par pl = Ok m -> pass_payload m = pl /\ pass_size m = lenN pl).
Proof.
  split; [exact passthrough_registered|]. split; [exact passthrough_unregistered|exact passthrough_pic_timing_hevc].
Qed.
