(* C17WriterProofs.v — the model's writer (C13 EBSPWriter model) emits, byte by byte, the
   plain serialisation of C17Spec. *)
From V.lib Require Import Base.
From V.c13 Require Import C13Spec C13Model.
From V.c17 Require Import C17Spec C17Model C17RbspProofs.

(* WriteSEIValue(v) = Write(b, 8) for every byte b of the 0xFF-run code of v *)
Lemma write_sei_value_fuel_enc : forall fuel s v,
  (N.to_nat (v / 255) < fuel)%nat ->
  write_sei_value_fuel fuel s v = fold_left write_byte (ff_enc v) s.
Proof.
  induction fuel as [|f IH]; intros s v Hf; [lia|].
  cbn [write_sei_value_fuel].
  destruct (N.leb_spec 255 v) as [H|H].
  - rewrite ff_enc_ge by exact H. cbn [fold_left]. unfold write_byte at 2.
    apply IH.
    assert (E : v / 255 = N.succ ((v - 255) / 255)).
    { replace v with ((v - 255) + 1 * 255) at 1 by lia. rewrite N.div_add by lia. lia. }
    lia.
  - rewrite ff_enc_lt by exact H. reflexivity.
Qed.

Lemma write_sei_value_enc s v :
  write_sei_value s v = fold_left write_byte (ff_enc v) s.
Proof. unfold write_sei_value. apply write_sei_value_fuel_enc. lia. Qed.

Lemma write_msg_ser s m : write_msg s m = fold_left write_byte (ser_msg m) s.
Proof.
  unfold write_msg, ser_msg. rewrite !fold_left_app, !write_sei_value_enc. reflexivity.
Qed.

Lemma write_msgs_ser : forall msgs s,
  fold_left write_msg msgs s = fold_left write_byte (ser msgs) s.
Proof.
  induction msgs as [|m ms IH]; intros s; [reflexivity|].
  cbn [fold_left]. rewrite ser_cons, fold_left_app, IH, write_msg_ser. reflexivity.
Qed.

Lemma write_sei_messages_ser msgs :
  write_sei_messages msgs = wout (write_trailing (fold_left write_byte (ser msgs) winit)).
Proof. unfold write_sei_messages. rewrite write_msgs_ser. reflexivity. Qed.

Lemma empty_list_rejected :
  write_sei_messages [] = [128] /\ extract_sei_data [128] = XErr.
Proof. split; vm_compute; reflexivity. Qed.
