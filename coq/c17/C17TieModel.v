(* C17TieModel.v — the typed SEI decoders that read through bits.Reader, transcribed at the level of
   the Go reader MACHINE of C13Model (read_plain: the value/n/pos accumulator over the byte slice,
   accumulated error): sei.DecodeTimeCodeSEI / DecodeClockTS and sei.DecodePicTimingAvcSEIHRD /
   DecodeClockTSAvc.  Unlike the bit-list decoders of C17TypedModel (first failed read = Err) these
   do what the Go text does: after a failed read every later Read returns 0 / false, the decoder
   runs on to its end with those values, and the accumulated error is looked at once, at the end.
   The Go conversions (byte(..), uint16(..), uint32(..), uint8(..)) are written out.
   C17TieProofs proves that both forms compute the same result on every byte string.
   Definitions only. *)
From V.lib Require Import Base.
From V.c13 Require Import C13Model.
From V.c17 Require Import C17TypedModel.

(* a computation on the reader: statements in sequence, the reader state threaded through *)
Definition gm (A : Type) := rstate -> A * rstate.
Definition gret {A} (a : A) : gm A := fun s => (a, s).
Definition gbind {A B} (m : gm A) (k : A -> gm B) : gm B := fun s => let '(a, s1) := m s in k a s1.

(* conv(br.Read(n)) *)
Definition g_rd (conv : N -> N) (n : N) : gm N := fun s => let '(v, s1) := read_plain s n in (conv v, s1).
(* br.ReadFlag(): bit := r.Read(1); if r.err != nil { return false }; return bit == 1 *)
Definition g_flag : gm bool := fun s => let '(v, s1) := read_plain s 1 in (if rerr s1 then false else v =? 1, s1).
(* br.ReadSigned(n) *)
Definition g_signed (n : N) : gm Z := fun s => read_signed_plain s n.

Definition u8 (v : N) : N := v mod 256.
Definition cu16 (v : N) : N := v mod 65536.
Definition cu32 (v : N) : N := v mod 4294967296.
Definition cuint (v : N) : N := v.    (* uint(uint) / int(uint) of a value below 2^63 *)

(* the hh:mm:ss part (identical text in DecodeClockTS and DecodeClockTSAvc) *)
Definition g_hms (full : bool) : gm (bool * N * bool * N * bool * N) :=
  if full then
    gbind (g_rd u8 6) (fun s =>
    gbind (g_rd u8 6) (fun m =>
    gbind (g_rd u8 5) (fun h =>
    gret (false, s, false, m, false, h))))
  else
    gbind g_flag (fun sf =>
    if sf then
      gbind (g_rd u8 6) (fun s =>
      gbind g_flag (fun mf =>
      if mf then
        gbind (g_rd u8 6) (fun m =>
        gbind g_flag (fun hf =>
        if hf then
          gbind (g_rd u8 5) (fun h => gret (true, s, true, m, true, h))
        else gret (true, s, true, m, false, 0)))
      else gret (true, s, false, 0, false, 0)))
    else gret (false, 0, false, 0, false, 0)).

(* func DecodeClockTS(br *bits.Reader) ClockTS *)
Definition g_clock : gm clock :=
  gbind g_flag (fun f =>
  if f then
    gbind g_flag (fun u =>
    gbind (g_rd u8 5) (fun ct =>
    gbind g_flag (fun full =>
    gbind g_flag (fun disc =>
    gbind g_flag (fun dr =>
    gbind (g_rd cu16 9) (fun nf =>
    gbind (g_hms full) (fun hms =>
    let '(sf, s, mf, m, hf, h) := hms in
    gbind (g_rd u8 5) (fun tl =>
    if 0 <? tl then
      gbind (g_rd cu32 tl) (fun tv =>
      gret (mkClock true u ct full disc dr nf sf s mf m hf h tl tv))
    else gret (mkClock true u ct full disc dr nf sf s mf m hf h tl 0)))))))))
  else gret clock_zero).

Fixpoint g_clocks (k : nat) : gm (list clock) :=
  match k with
  | O => gret []
  | S k' => gbind g_clock (fun c => gbind (g_clocks k') (fun cs => gret (c :: cs)))
  end.

(* func DecodeTimeCodeSEI(sd *SEIData) (SEIMessage, error) *)
Definition tc_decode_go (payload : list N) : res (list clock) :=
  let '(cs, s) := gbind (g_rd cuint 2) (fun k => g_clocks (N.to_nat k)) (rinit payload) in
  if rerr s then Err else Ok cs.

(* func DecodeClockTSAvc(br *bits.Reader, timeOffsetLen byte) ClockTSAvc *)
Definition g_clock_avc (tolen : N) : gm clock_avc :=
  gbind g_flag (fun f =>
  if f then
    gbind (g_rd u8 2) (fun ctt =>
    gbind g_flag (fun nu =>
    gbind (g_rd u8 5) (fun ct =>
    gbind g_flag (fun full =>
    gbind g_flag (fun disc =>
    gbind g_flag (fun dr =>
    gbind (g_rd u8 8) (fun nf =>
    gbind (g_hms full) (fun hms =>
    let '(sf, s, mf, m, hf, h) := hms in
    if 0 <? tolen then
      gbind (g_signed tolen) (fun tv =>
      gret (mkClockAvc true ctt nu ct full disc dr nf sf s mf m hf h tolen tv))
    else gret (mkClockAvc true ctt nu ct full disc dr nf sf s mf m hf h tolen 0%Z)))))))))
  else gret (clock_avc_zero tolen)).

Fixpoint g_clocks_avc (k : nat) (tolen : N) : gm (list clock_avc) :=
  match k with
  | O => gret []
  | S k' => gbind (g_clock_avc tolen) (fun c => gbind (g_clocks_avc k' tolen) (fun cs => gret (c :: cs)))
  end.

(* the optional HRD delays at the head of the AVC picture timing message *)
Definition g_hrd (ext : option hrd_delay) : gm (option hrd_delay) :=
  match ext with
  | Some h =>
      gbind (g_rd cuint (h_cpb_len1 h + 1)) (fun cpb =>
      gbind (g_rd cuint (h_dpb_len1 h + 1)) (fun dpb =>
      gret (Some (mkHrd cpb dpb (h_init_len1 h) (h_cpb_len1 h) (h_dpb_len1 h)))))
  | None => gret None
  end.

(* func DecodePicTimingAvcSEIHRD(sd, cbpDbpDelay, timeOffsetLen): an unknown pict_struct returns its
   error at once; otherwise the clocks are read and br.AccError() decides *)
Definition pt_decode_go (ext : option hrd_delay) (tolen : N) (payload : list N) : res pic_timing :=
  let '(hp, s2) := gbind (g_hrd ext) (fun hrd => gbind (g_rd u8 4) (fun pict => gret (hrd, pict))) (rinit payload) in
  let '(hrd, pict) := hp in
  match num_clock_ts pict with
  | None => Err
  | Some k =>
      let '(cs, s3) := g_clocks_avc k tolen s2 in
      if rerr s3 then Err else Ok (mkPT hrd tolen pict cs)
  end.
