(* C17BitProofs.v — bit-list facts used by the typed-message proofs: reading what was written,
   packing to bytes and cutting at the FixedSliceWriter capacity. *)
From V.lib Require Import Base.
From V.c13 Require Import C13Model C13Bits.
From V.c17 Require Import C17TypedModel.

(* ---------- reads ---------- *)
Lemma firstn_app_len {A} (a b : list A) n : length a = n -> firstn n (a ++ b) = a.
Proof.
  intros <-. rewrite firstn_app, Nat.sub_diag, firstn_O, app_nil_r. apply firstn_all.
Qed.
Lemma skipn_app_len {A} (a b : list A) n : length a = n -> skipn n (a ++ b) = b.
Proof.
  intros <-. rewrite skipn_app, Nat.sub_diag, skipn_O, skipn_all. reflexivity.
Qed.

Lemma rd_bits n v B rest :
  2 ^ N.of_nat n = B -> v < B -> rd n (bits_of n v ++ rest) = Ok (v, rest).
Proof.
  intros HB Hv. subst B. unfold rd.
  rewrite app_length, bits_of_length.
  destruct (Nat.ltb_spec (n + length rest) n) as [L|L]; [lia|].
  rewrite firstn_app_len, skipn_app_len by apply bits_of_length.
  rewrite val_of_bits_of, N.mod_small by exact Hv. reflexivity.
Qed.

Lemma rd_bits_N w v rest :
  v < 2 ^ w -> rd (N.to_nat w) (bits_of (N.to_nat w) v ++ rest) = Ok (v, rest).
Proof. intros H. apply rd_bits with (B := 2 ^ w); [rewrite N2Nat.id; reflexivity|exact H]. Qed.

Lemma rd_flag_cons b rest : rd_flag (b :: rest) = Ok (b, rest).
Proof. reflexivity. Qed.

(* ---------- ops as bits ---------- *)
Lemma ops_bits_cons o t : ops_bits (o :: t) = op_bits o ++ ops_bits t.
Proof. reflexivity. Qed.
Lemma ops_bits_app a b : ops_bits (a ++ b) = ops_bits a ++ ops_bits b.
Proof. unfold ops_bits. apply flat_map_app. Qed.
Lemma ops_bits_nil : ops_bits [] = [].
Proof. reflexivity. Qed.

(* ---------- packing ---------- *)
Lemma firstn_add {A} a b (l : list A) : firstn (a + b) l = firstn a l ++ firstn b (skipn a l).
Proof.
  revert l. induction a as [|a IH]; intros l; [reflexivity|].
  destruct l as [|x t]; [cbn [Nat.add firstn skipn]; rewrite firstn_nil; reflexivity|].
  cbn [Nat.add firstn skipn app]. rewrite IH. reflexivity.
Qed.

Lemma pack8_bits c : forall l,
  (8 * c <= length l)%nat ->
  bytes_to_bits (pack8 c l) = firstn (8 * c) l /\ length (pack8 c l) = c.
Proof.
  induction c as [|c IH]; intros l H.
  - split; reflexivity.
  - cbn [pack8]. destruct (IH (skipn 8 l)) as [IH1 IH2]; [rewrite skipn_length; lia|].
    split.
    + unfold bytes_to_bits in *. cbn [flat_map]. rewrite IH1.
      replace (8 * S c)%nat with (8 + 8 * c)%nat by lia. rewrite firstn_add. f_equal.
      assert (L : length (firstn 8 l) = 8%nat) by (rewrite firstn_length; lia).
      rewrite <- L at 1. apply bits_of_val_of.
    + cbn [length]. rewrite IH2. reflexivity.
Qed.

Lemma firstn_pack8 c : forall n l, (c <= n)%nat -> firstn c (pack8 n l) = pack8 c l.
Proof.
  induction c as [|c IH]; intros n l H; [reflexivity|].
  destruct n as [|n]; [lia|]. cbn [pack8 firstn]. rewrite IH by lia. reflexivity.
Qed.

Lemma firstn_pack c l :
  (8 * c <= length l)%nat ->
  bytes_to_bits (firstn c (pack l)) = firstn (8 * c) l /\ length (firstn c (pack l)) = c.
Proof.
  intros H. unfold pack. rewrite firstn_pack8.
  - apply pack8_bits. exact H.
  - apply Nat.div_le_lower_bound; lia.
Qed.

Lemma pad8_length l : length (pad8 l) = (8 * ((length l + 7) / 8))%nat.
Proof.
  unfold pad8. rewrite app_length, repeat_length.
  pose proof (Nat.div_mod (length l) 8 ltac:(lia)) as D.
  pose proof (Nat.mod_upper_bound (length l) 8 ltac:(lia)) as M.
  remember (length l / 8)%nat as q. remember (length l mod 8)%nat as r.
  rewrite D.
  destruct (Nat.eq_dec r 0) as [->|Hr].
  - replace ((8 - 0) mod 8)%nat with 0%nat by reflexivity.
    replace (8 * q + 0 + 7)%nat with (7 + q * 8)%nat by lia.
    rewrite Nat.div_add by lia. cbn. lia.
  - rewrite (Nat.mod_small (8 - r) 8) by lia.
    replace (8 * q + r + 7)%nat with ((r - 1) + (q + 1) * 8)%nat by lia.
    rewrite Nat.div_add by lia. rewrite (Nat.div_small (r - 1) 8) by lia. lia.
Qed.

(* the bytes returned by the FixedSliceWriter, read back as bits: the coded bits, then filler *)
Lemma spec_bytes_bits cap coded extra ops :
  ops_bits ops = coded ++ extra ->
  (length coded <= 8 * N.to_nat cap)%nat ->
  (8 * N.to_nat cap <= 8 * ((length coded + length extra + 7) / 8))%nat ->
  lenN (spec_bytes cap ops) = cap /\
  exists tail, bytes_to_bits (spec_bytes cap ops) = coded ++ tail.
Proof.
  intros Hops Hlo Hhi. unfold spec_bytes.
  assert (HL : (8 * N.to_nat cap <= length (pad8 (ops_bits ops)))%nat).
  { rewrite pad8_length, Hops, app_length. exact Hhi. }
  destruct (firstn_pack (N.to_nat cap) (pad8 (ops_bits ops)) HL) as [Hb Hl].
  split; [unfold lenN; rewrite Hl; lia|].
  rewrite Hb. unfold pad8. rewrite Hops, <- app_assoc.
  rewrite firstn_app. rewrite (firstn_all2 (n := (8 * N.to_nat cap)%nat) coded) by exact Hlo.
  eexists. reflexivity.
Qed.

(* ---------- reading a field wider than its value: the low bits ---------- *)
Lemma rd_bits_mod n v rest :
  rd n (bits_of n v ++ rest) = Ok (v mod 2 ^ N.of_nat n, rest).
Proof.
  rewrite <- (bits_of_mod n v).
  apply rd_bits with (B := 2 ^ N.of_nat n); [reflexivity|].
  apply N.mod_lt. apply N.pow_nonzero. lia.
Qed.

(* ReadSigned(n) of the n low bits of uint(z) gives z back, for z in the two's complement range.
   The arithmetic is split into small lemmas on abstract quantities: an earlier single proof ran
   `lia` with the 64-bit constant of z_to_u64 in context (through `set` bodies); its witnesses
   are VM casts, which coqchk re-checks with the plain reduction machine: 6 min 52 s / 43 GB for
   this one lemma.  Now 1 s / 0.12 GB. *)
Lemma pow2_half n : (1 <= n)%nat -> (2 ^ Z.of_nat n = 2 * 2 ^ (Z.of_nat n - 1))%Z.
Proof. intros H. rewrite <- Z.pow_succ_r by lia. f_equal. lia. Qed.

Lemma of_N_pow2_pred n : (1 <= n)%nat -> Z.of_N (2 ^ N.of_nat (n - 1)) = (2 ^ (Z.of_nat n - 1))%Z.
Proof. intros H. rewrite N2Z.inj_pow, nat_N_Z. f_equal. lia. Qed.

(* the n low bits of uint(z) (two's complement in 64 bits) are z mod 2^n *)
Lemma u64_low_bits n z :
  (n <= 64)%nat -> Z.of_N (z_to_u64 z mod 2 ^ N.of_nat n) = (z mod 2 ^ Z.of_nat n)%Z.
Proof.
  intros Hn. unfold z_to_u64. rewrite N2Z.inj_mod, N2Z.inj_pow, nat_N_Z.
  rewrite Z2N.id by (apply Z.mod_pos_bound; apply Z.pow_pos_nonneg; lia).
  change (Z.of_N 2) with 2%Z.
  symmetry. apply Znumtheory.Zmod_div_mod.
  - apply Z.pow_pos_nonneg; lia.
  - apply Z.pow_pos_nonneg; lia.
  - exists (2 ^ (64 - Z.of_nat n))%Z.
    rewrite <- Z.pow_add_r by lia. f_equal. lia.
Qed.

(* sign extension on abstract quantities: no power, no 64-bit constant in sight *)
Lemma signed_core (v h : N) (z P : Z) :
  (0 < P)%Z -> Z.of_N v = (z mod (2 * P))%Z -> Z.of_N h = P -> (- P <= z < P)%Z ->
  (if (v / h) mod 2 =? 1 then (Z.of_N v - 2 * P)%Z else Z.of_N v) = z.
Proof.
  intros HP Hv Hh Hz.
  destruct (Z_lt_le_dec z 0) as [Hneg|Hpos].
  - assert (E : (z mod (2 * P) = z + 2 * P)%Z).
    { rewrite <- (Z_mod_plus_full z 1 (2 * P)). rewrite Z.mul_1_l. apply Z.mod_small. lia. }
    rewrite E in Hv. clear E.
    assert (D : v / h = 1).
    { symmetry. apply (N.div_unique v _ 1 (v - h)); lia. }
    rewrite D. change (1 mod 2 =? 1) with true. cbv iota. lia.
  - assert (E : (z mod (2 * P) = z)%Z) by (apply Z.mod_small; lia).
    rewrite E in Hv. clear E.
    assert (D : v / h = 0) by (apply N.div_small; lia).
    rewrite D. change (0 mod 2 =? 1) with false. cbv iota. lia.
Qed.

Lemma rd_signed_bits n z rest :
  (1 <= n <= 64)%nat ->
  (- 2 ^ (Z.of_nat n - 1) <= z < 2 ^ (Z.of_nat n - 1))%Z ->
  rd_signed n (bits_of n (z_to_u64 z) ++ rest) = Ok (z, rest).
Proof.
  intros Hn Hz. unfold rd_signed. rewrite rd_bits_mod. cbn [rbind].
  rewrite N.testbit_eqb.
  pose proof (u64_low_bits n z (proj2 Hn)) as Hv.
  pose proof (of_N_pow2_pred n (proj1 Hn)) as Hh.
  rewrite (pow2_half n (proj1 Hn)) in *.
  assert (HP : (0 < 2 ^ (Z.of_nat n - 1))%Z) by (apply Z.pow_pos_nonneg; lia).
  f_equal. f_equal.
  exact (signed_core _ _ _ _ HP Hv Hh Hz).
Qed.
