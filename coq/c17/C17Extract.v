(* Extraction of the C17 models for the correspondence check. ExtrOcamlBasic only. *)
From V.lib Require Import Base.
From V.c13 Require Import C13Spec C13Model.
From V.c17 Require Import C17Spec C17Model C17TypedModel C17HistModel C17TieModel C17NaluModel C17SizeModel.
Require Import ExtrOcamlBasic.
Separate Extraction
  Z nat msg xres write_sei_messages extract_sei_data
  escape unescape rbsp_of extract_rbsp_all
  tc_size tc_payload tc_payload_spec tc_decode tc_canonical
  pt_size pt_payload pt_payload_spec pt_decode pt_canonical
  mdcv_size mdcv_payload mdcv_decode cll_size cll_payload cll_decode
  typed typed_type typed_canonical typed_observe tc_decode_go pt_decode_go
  tc_widths_ok pt_widths_ok
  sei_message pres sm_type sm_size sm_payload parse_sei_nalu_avc parse_sei_nalu_hevc
  pass_payload pass_size decode_registered decode_unregistered decode_pic_timing_hevc.
