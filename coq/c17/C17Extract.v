(* Extraction of the C17 models for the correspondence check. ExtrOcamlBasic only. *)
From V.lib Require Import Base.
From V.c13 Require Import C13Spec C13Model.
From V.c17 Require Import C17Spec C17Model.
Require Import ExtrOcamlBasic.
Separate Extraction
  Z nat msg xres write_sei_messages extract_sei_data
  escape unescape rbsp_of extract_rbsp_all.
