(* C17SizeModel.v — the hypothesis of C17_size_any_value as executable booleans: the widths handed to
   bits.FixedSliceWriter.Write by the typed serialisers stay within 56 bits (time-offset lengths, HRD
   lengths + 1).  Evaluated by the model driver on every typed correspondence case.  Definitions only. *)
From V.lib Require Import Base.
From V.c17 Require Import C17TypedModel.

Definition tc_widths_ok (cs : list clock) : bool := forallb (fun c => c_tolen c <=? 56) cs.
Definition pt_widths_ok (m : pic_timing) : bool :=
  (match p_hrd m with Some h => (h_cpb_len1 h <=? 55) && (h_dpb_len1 h <=? 55) | None => true end) &&
  forallb (fun c => a_tolen c <=? 56) (p_clocks m).
