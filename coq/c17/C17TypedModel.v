(* C17TypedModel.v — executable models of the typed SEI messages that have a serialiser:
     sei/sei136.go  TimeCodeSEI        Size() / Payload() / DecodeTimeCodeSEI
     sei/sei1_avc.go PicTimingAvcSEI   Size() / Payload() / DecodePicTimingAvcSEIHRD
     sei/sei137.go  MasteringDisplayColourVolumeSEI
     sei/sei144.go  ContentLightLevelInformationSEI
   and of the pass-through decoders (sei4.go, sei5.go, sei1_hevc.go).
   Writers: the Go text is transcribed into a list of C13 writer ops (WBits / WFlag) that is run
   (a) through the C13 model of bits.FixedSliceWriter (run_writer_plain + FlushBits) and cut at the
   buffer capacity Size() — `fsw_bytes`, the executable used by the correspondence — and
   (b) read as a plain bit list — `spec_bytes`, the form the theorems are stated on.
   Readers (bits.Reader): Read(n) on the bit list of the payload; the first failed read makes the
   decoder return its error at the end (outcome class Err).
   Definitions only. *)
From V.lib Require Import Base.
From V.c13 Require Import C13Model C13Bits.

(* ------------------------------------------------------------------ bit helpers *)
Definition op_bits (o : wop) : list bool :=
  match o with
  | WBits v w => bits_of (N.to_nat w) v
  | WFlag b => [b]
  | _ => []
  end.
Definition ops_bits (ops : list wop) : list bool := flat_map op_bits ops.

(* zero bits up to the next byte boundary (FlushBits) *)
Definition pad8 (l : list bool) : list bool :=
  l ++ repeat false ((8 - length l mod 8) mod 8)%nat.

Fixpoint pack8 (n : nat) (l : list bool) : list N :=
  match n with
  | O => []
  | S n' => val_of (firstn 8 l) :: pack8 n' (skipn 8 l)
  end.
Definition pack (l : list bool) : list N := pack8 (length l / 8) l.

(* bits.NewFixedSliceWriter(cap); ops; FlushBits(); Bytes() — a write beyond the capacity sets
   the accumulated error and is dropped, as is everything after it *)
Definition fsw_bytes (cap : N) (ops : list wop) : list N :=
  firstn (N.to_nat cap) (wout (run_writer_plain (ops ++ [WFlush]))).
Definition spec_bytes (cap : N) (ops : list wop) : list N :=
  firstn (N.to_nat cap) (pack (pad8 (ops_bits ops))).

(* bits.Reader.Read(n) / ReadFlag on the remaining bits *)
Definition rd (n : nat) (l : list bool) : res (N * list bool) :=
  if (length l <? n)%nat then Err else Ok (val_of (firstn n l), skipn n l).
Definition rd_flag (l : list bool) : res (bool * list bool) :=
  match l with
  | [] => Err
  | b :: t => Ok (b, t)
  end.
(* ReadSigned(n): two's complement, n >= 1 *)
Definition rd_signed (n : nat) (l : list bool) : res (Z * list bool) :=
  do (v, l1) <- rd n l;
  Ok (if N.testbit v (N.of_nat (n - 1)) then (Z.of_N v - 2 ^ Z.of_nat n)%Z else Z.of_N v, l1).

Definition b2n (b : bool) : N := if b then 1 else 0.

(* ================================================================== SEI 136: time code *)
Record clock := mkClock {
  c_flag : bool;        (* ClockTimeStampFlag *)
  c_units : bool;       (* UnitsFieldBasedFlag *)
  c_counting : N;       (* CountingType, 5 bits *)
  c_full : bool;        (* FullTimeStampFlag *)
  c_disc : bool;        (* DiscontinuityFlag *)
  c_dropped : bool;     (* CntDroppedFlag *)
  c_nframes : N;        (* NFrames, 9 bits *)
  c_secflag : bool; c_seconds : N;   (* 6 bits *)
  c_minflag : bool; c_minutes : N;   (* 6 bits *)
  c_hrflag : bool;  c_hours : N;     (* 5 bits *)
  c_tolen : N;          (* TimeOffsetLength, 5 bits *)
  c_toval : N           (* TimeOffsetValue, uint32 *)
}.

Definition clock_zero : clock :=
  mkClock false false 0 false false false 0 false 0 false 0 false 0 0 0.

(* the hh:mm:ss part, shared by SEI 136 and AVC SEI 1 *)
Definition hms_ops (full secflag : bool) (seconds : N) (minflag : bool) (minutes : N)
                   (hrflag : bool) (hours : N) : list wop :=
  if full then [WBits seconds 6; WBits minutes 6; WBits hours 5]
  else WFlag secflag ::
       (if secflag then
          WBits seconds 6 :: WFlag minflag ::
          (if minflag then
             WBits minutes 6 :: WFlag hrflag :: (if hrflag then [WBits hours 5] else [])
           else [])
        else []).

Definition hms_nrbits (full secflag minflag hrflag : bool) : N :=
  if full then 17
  else 1 + (if secflag then 7 + (if minflag then 7 + (if hrflag then 5 else 0) else 0) else 0).

(* reads; returns (secflag, seconds, minflag, minutes, hrflag, hours) *)
Definition rd_hms (full : bool) (l : list bool)
  : res ((bool * N * bool * N * bool * N) * list bool) :=
  if full then
    do (s, l1) <- rd 6 l;
    do (m, l2) <- rd 6 l1;
    do (h, l3) <- rd 5 l2;
    Ok ((false, s, false, m, false, h), l3)
  else
    do (sf, l1) <- rd_flag l;
    if sf then
      do (s, l2) <- rd 6 l1;
      do (mf, l3) <- rd_flag l2;
      if mf then
        do (m, l4) <- rd 6 l3;
        do (hf, l5) <- rd_flag l4;
        if hf then
          do (h, l6) <- rd 5 l5;
          Ok ((true, s, true, m, true, h), l6)
        else Ok ((true, s, true, m, false, 0), l5)
      else Ok ((true, s, false, 0, false, 0), l3)
    else Ok ((false, 0, false, 0, false, 0), l1).

(* TimeCodeSEI.Payload(), per clock *)
Definition clock_ops (c : clock) : list wop :=
  WFlag (c_flag c) ::
  (if c_flag c then
     [WFlag (c_units c); WBits (c_counting c) 5; WFlag (c_full c); WFlag (c_disc c);
      WFlag (c_dropped c); WBits (c_nframes c) 9]
     ++ hms_ops (c_full c) (c_secflag c) (c_seconds c) (c_minflag c) (c_minutes c)
                (c_hrflag c) (c_hours c)
     ++ WBits (c_tolen c) 5 ::
        (if 0 <? c_tolen c then [WBits (c_toval c) (c_tolen c)] else [])
   else []).

(* TimeCodeSEI.Size(), per clock *)
Definition clock_nrbits (c : clock) : N :=
  1 + (if c_flag c then
         18 + hms_nrbits (c_full c) (c_secflag c) (c_minflag c) (c_hrflag c) + 5 + c_tolen c
       else 0).

(* DecodeClockTS *)
Definition rd_clock (l : list bool) : res (clock * list bool) :=
  do (f, l1) <- rd_flag l;
  if f then
    do (u, l2) <- rd_flag l1;
    do (ct, l3) <- rd 5 l2;
    do (full, l4) <- rd_flag l3;
    do (disc, l5) <- rd_flag l4;
    do (dr, l6) <- rd_flag l5;
    do (nf, l7) <- rd 9 l6;
    do (hms, l8) <- rd_hms full l7;
    let '(sf, s, mf, m, hf, h) := hms in
    do (tl, l9) <- rd 5 l8;
    if 0 <? tl then
      do (tv, l10) <- rd (N.to_nat tl) l9;
      Ok (mkClock true u ct full disc dr nf sf s mf m hf h tl tv, l10)
    else Ok (mkClock true u ct full disc dr nf sf s mf m hf h tl 0, l9)
  else Ok (clock_zero, l1).

Fixpoint rd_clocks (k : nat) (l : list bool) : res (list clock * list bool) :=
  match k with
  | O => Ok ([], l)
  | S k' =>
      do (c, l1) <- rd_clock l;
      do (cs, l2) <- rd_clocks k' l1;
      Ok (c :: cs, l2)
  end.

Definition tc_ops (clocks : list clock) : list wop :=
  WBits (lenN clocks) 2 :: flat_map clock_ops clocks ++ [WFlag true].
Definition tc_size (clocks : list clock) : N :=
  (2 + sumN (map clock_nrbits clocks) + 7) / 8.
Definition tc_payload (clocks : list clock) : list N := fsw_bytes (tc_size clocks) (tc_ops clocks).
Definition tc_payload_spec (clocks : list clock) : list N := spec_bytes (tc_size clocks) (tc_ops clocks).

(* DecodeTimeCodeSEI *)
Definition tc_decode (payload : list N) : res (list clock) :=
  do (k, l1) <- rd 2 (bytes_to_bits payload);
  do (cs, _) <- rd_clocks (N.to_nat k) l1;
  Ok cs.

(* canonical: every field fits its coded width, every field the flags make absent is zero *)
Definition hms_canonical (full secflag : bool) (seconds : N) (minflag : bool) (minutes : N)
                         (hrflag : bool) (hours : N) : bool :=
  if full then negb secflag && negb minflag && negb hrflag &&
               (seconds <? 64) && (minutes <? 64) && (hours <? 32)
  else if secflag then
         (seconds <? 64) &&
         (if minflag then
            (minutes <? 64) && (if hrflag then hours <? 32 else hours =? 0)
          else (minutes =? 0) && negb hrflag && (hours =? 0))
       else (seconds =? 0) && negb minflag && (minutes =? 0) && negb hrflag && (hours =? 0).

Definition clock_canonical (c : clock) : bool :=
  if c_flag c then
    (c_counting c <? 32) && (c_nframes c <? 512) &&
    hms_canonical (c_full c) (c_secflag c) (c_seconds c) (c_minflag c) (c_minutes c)
                  (c_hrflag c) (c_hours c) &&
    (c_tolen c <? 32) && (c_toval c <? 2 ^ c_tolen c)
  else
    negb (c_units c) && (c_counting c =? 0) && negb (c_full c) && negb (c_disc c) &&
    negb (c_dropped c) && (c_nframes c =? 0) &&
    negb (c_secflag c) && (c_seconds c =? 0) && negb (c_minflag c) && (c_minutes c =? 0) &&
    negb (c_hrflag c) && (c_hours c =? 0) && (c_tolen c =? 0) && (c_toval c =? 0).

Definition tc_canonical (clocks : list clock) : bool :=
  (lenN clocks <? 4) && forallb clock_canonical clocks.

(* ================================================================== AVC SEI 1: picture timing *)
Record clock_avc := mkClockAvc {
  a_flag : bool;        (* ClockTimeStampFlag *)
  a_cttype : N;         (* CtType, 2 bits *)
  a_nuit : bool;        (* NuitFieldBasedFlag *)
  a_counting : N;       (* 5 bits *)
  a_full : bool;
  a_disc : bool;
  a_dropped : bool;
  a_nframes : N;        (* 8 bits *)
  a_secflag : bool; a_seconds : N;
  a_minflag : bool; a_minutes : N;
  a_hrflag : bool;  a_hours : N;
  a_tolen : N;          (* TimeOffsetLength (copied from the external value by the decoder) *)
  a_toval : Z           (* TimeOffsetValue, Go int, two's complement in a_tolen bits *)
}.

Record hrd_delay := mkHrd {
  h_cpb_delay : N;      (* CpbRemovalDelay, uint *)
  h_dpb_delay : N;      (* DpbOutputDelay, uint *)
  h_init_len1 : N;      (* InitialCpbRemovalDelayLengthMinus1 (carried, not coded) *)
  h_cpb_len1 : N;       (* CpbRemovalDelayLengthMinus1, 5 bits *)
  h_dpb_len1 : N        (* DpbOutputDelayLengthMinus1, 5 bits *)
}.

Record pic_timing := mkPT {
  p_hrd : option hrd_delay;   (* CbpDbpDelay *)
  p_tolen : N;                (* TimeOffsetLength *)
  p_pict : N;                 (* PictStruct, 4 bits *)
  p_clocks : list clock_avc
}.

(* uint(c.TimeOffsetValue): two's complement in 64 bits *)
Definition z_to_u64 (z : Z) : N := Z.to_N (z mod 2 ^ 64)%Z.

(* ClockTSAvc.WriteToSliceWriter *)
Definition clock_avc_ops (c : clock_avc) : list wop :=
  WFlag (a_flag c) ::
  (if a_flag c then
     [WBits (a_cttype c) 2; WFlag (a_nuit c); WBits (a_counting c) 5; WFlag (a_full c);
      WFlag (a_disc c); WFlag (a_dropped c); WBits (a_nframes c) 8]
     ++ hms_ops (a_full c) (a_secflag c) (a_seconds c) (a_minflag c) (a_minutes c)
                (a_hrflag c) (a_hours c)
     ++ (if 0 <? a_tolen c then [WBits (z_to_u64 (a_toval c)) (a_tolen c)] else [])
   else []).

(* ClockTSAvc.NrBits *)
Definition clock_avc_nrbits (c : clock_avc) : N :=
  1 + (if a_flag c then
         19 + hms_nrbits (a_full c) (a_secflag c) (a_minflag c) (a_hrflag c) + a_tolen c
       else 0).

Definition clock_avc_zero (tolen : N) : clock_avc :=
  mkClockAvc false 0 false 0 false false false 0 false 0 false 0 false 0 tolen 0%Z.

(* DecodeClockTSAvc(br, timeOffsetLen) *)
Definition rd_clock_avc (tolen : N) (l : list bool) : res (clock_avc * list bool) :=
  do (f, l1) <- rd_flag l;
  if f then
    do (ctt, l2) <- rd 2 l1;
    do (nu, l3) <- rd_flag l2;
    do (ct, l4) <- rd 5 l3;
    do (full, l5) <- rd_flag l4;
    do (disc, l6) <- rd_flag l5;
    do (dr, l7) <- rd_flag l6;
    do (nf, l8) <- rd 8 l7;
    do (hms, l9) <- rd_hms full l8;
    let '(sf, s, mf, m, hf, h) := hms in
    if 0 <? tolen then
      do (tv, l10) <- rd_signed (N.to_nat tolen) l9;
      Ok (mkClockAvc true ctt nu ct full disc dr nf sf s mf m hf h tolen tv, l10)
    else Ok (mkClockAvc true ctt nu ct full disc dr nf sf s mf m hf h tolen 0%Z, l9)
  else Ok (clock_avc_zero tolen, l1).

Fixpoint rd_clocks_avc (k : nat) (tolen : N) (l : list bool) : res (list clock_avc * list bool) :=
  match k with
  | O => Ok ([], l)
  | S k' =>
      do (c, l1) <- rd_clock_avc tolen l;
      do (cs, l2) <- rd_clocks_avc k' tolen l1;
      Ok (c :: cs, l2)
  end.

Definition pt_ops (m : pic_timing) : list wop :=
  (match p_hrd m with
   | Some h => [WBits (h_cpb_delay h) (h_cpb_len1 h + 1); WBits (h_dpb_delay h) (h_dpb_len1 h + 1)]
   | None => []
   end)
  ++ WBits (p_pict m) 4 :: flat_map clock_avc_ops (p_clocks m).

Definition pt_size (m : pic_timing) : N :=
  ((match p_hrd m with Some h => (h_cpb_len1 h + 1) + (h_dpb_len1 h + 1) | None => 0 end)
   + 4 + sumN (map clock_avc_nrbits (p_clocks m)) + 7) / 8.

Definition pt_payload (m : pic_timing) : list N := fsw_bytes (pt_size m) (pt_ops m).
Definition pt_payload_spec (m : pic_timing) : list N := spec_bytes (pt_size m) (pt_ops m).

Definition num_clock_ts (pict : N) : option nat :=
  if pict <=? 2 then Some 1%nat
  else if pict <=? 4 then Some 2%nat
  else if pict <=? 8 then Some 3%nat
  else None.

(* DecodePicTimingAvcSEIHRD(sd, cbpDbpDelay, timeOffsetLen): the external parameters are the
   length fields of cbpDbpDelay (its delay fields are overwritten) and timeOffsetLen *)
Definition pt_decode (ext : option hrd_delay) (tolen : N) (payload : list N) : res pic_timing :=
  let l := bytes_to_bits payload in
  do (hrd, l1) <-
     (match ext with
      | Some h =>
          do (cpb, la) <- rd (N.to_nat (h_cpb_len1 h + 1)) l;
          do (dpb, lb) <- rd (N.to_nat (h_dpb_len1 h + 1)) la;
          Ok (Some (mkHrd cpb dpb (h_init_len1 h) (h_cpb_len1 h) (h_dpb_len1 h)), lb)
      | None => Ok (None, l)
      end);
  do (pict, l2) <- rd 4 l1;
  match num_clock_ts pict with
  | None => Err                       (* unknown pict_struct value *)
  | Some k =>
      do (cs, _) <- rd_clocks_avc k tolen l2;
      Ok (mkPT hrd tolen pict cs)
  end.

Definition clock_avc_canonical (tolen : N) (c : clock_avc) : bool :=
  (a_tolen c =? tolen) &&
  (if a_flag c then
     (a_cttype c <? 4) && (a_counting c <? 32) && (a_nframes c <? 256) &&
     hms_canonical (a_full c) (a_secflag c) (a_seconds c) (a_minflag c) (a_minutes c)
                   (a_hrflag c) (a_hours c) &&
     (if 0 <? tolen
      then ((- 2 ^ (Z.of_N tolen - 1) <=? a_toval c) && (a_toval c <? 2 ^ (Z.of_N tolen - 1)))%Z
      else (a_toval c =? 0)%Z)
   else
     (a_cttype c =? 0) && negb (a_nuit c) && (a_counting c =? 0) && negb (a_full c) &&
     negb (a_disc c) && negb (a_dropped c) && (a_nframes c =? 0) &&
     negb (a_secflag c) && (a_seconds c =? 0) && negb (a_minflag c) && (a_minutes c =? 0) &&
     negb (a_hrflag c) && (a_hours c =? 0) && (a_toval c =? 0)%Z).

Definition hrd_canonical (h : hrd_delay) : bool :=
  (h_cpb_len1 h <? 32) && (h_dpb_len1 h <? 32) &&
  (h_cpb_delay h <? 2 ^ (h_cpb_len1 h + 1)) && (h_dpb_delay h <? 2 ^ (h_dpb_len1 h + 1)).

Definition pt_canonical (m : pic_timing) : bool :=
  (match p_hrd m with Some h => hrd_canonical h | None => true end) &&
  (p_tolen m <? 32) &&
  (match num_clock_ts (p_pict m) with
   | Some k => Nat.eqb (length (p_clocks m)) k
   | None => false
   end) &&
  forallb (clock_avc_canonical (p_tolen m)) (p_clocks m).

(* ================================================================== SEI 137 / 144: fixed layouts *)
Definition be16 (v : N) : list N := [(v / 256) mod 256; v mod 256].
Definition be32 (v : N) : list N :=
  [(v / 16777216) mod 256; (v / 65536) mod 256; (v / 256) mod 256; v mod 256].

Fixpoint be_val (l : list N) (acc : N) : N :=
  match l with
  | [] => acc
  | b :: t => be_val t (acc * 256 + b)
  end.
Definition rd_be (k : nat) (l : list N) : N * list N := (be_val (firstn k l) 0, skipn k l).

Record mdcv := mkMdcv {
  md_x0 : N; md_y0 : N; md_x1 : N; md_y1 : N; md_x2 : N; md_y2 : N;   (* DisplayPrimariesX/Y[i] *)
  md_wx : N; md_wy : N;                                               (* WhitePointX/Y *)
  md_max : N; md_min : N                                              (* luminances, uint32 *)
}.
Definition mdcv_size : N := 24.
Definition mdcv_payload (m : mdcv) : list N :=
  be16 (md_x0 m) ++ be16 (md_y0 m) ++ be16 (md_x1 m) ++ be16 (md_y1 m) ++
  be16 (md_x2 m) ++ be16 (md_y2 m) ++ be16 (md_wx m) ++ be16 (md_wy m) ++
  be32 (md_max m) ++ be32 (md_min m).
Definition mdcv_decode (p : list N) : res mdcv :=
  if negb (lenN p =? mdcv_size) then Err
  else
    let '(x0, p) := rd_be 2 p in let '(y0, p) := rd_be 2 p in
    let '(x1, p) := rd_be 2 p in let '(y1, p) := rd_be 2 p in
    let '(x2, p) := rd_be 2 p in let '(y2, p) := rd_be 2 p in
    let '(wx, p) := rd_be 2 p in let '(wy, p) := rd_be 2 p in
    let '(mx, p) := rd_be 4 p in let '(mn, p) := rd_be 4 p in
    Ok (mkMdcv x0 y0 x1 y1 x2 y2 wx wy mx mn).
Definition mdcv_canonical (m : mdcv) : bool :=
  (md_x0 m <? 65536) && (md_y0 m <? 65536) && (md_x1 m <? 65536) && (md_y1 m <? 65536) &&
  (md_x2 m <? 65536) && (md_y2 m <? 65536) && (md_wx m <? 65536) && (md_wy m <? 65536) &&
  (md_max m <? 4294967296) && (md_min m <? 4294967296).

Record cll := mkCll { cl_max : N; cl_avg : N }.
Definition cll_size : N := 4.
Definition cll_payload (m : cll) : list N := be16 (cl_max m) ++ be16 (cl_avg m).
Definition cll_decode (p : list N) : res cll :=
  if negb (lenN p =? cll_size) then Err
  else
    let '(a, p) := rd_be 2 p in let '(b, p) := rd_be 2 p in
    Ok (mkCll a b).
Definition cll_canonical (m : cll) : bool := (cl_max m <? 65536) && (cl_avg m <? 65536).

(* ================================================================== pass-through messages *)
(* what a pass-through decoder keeps: the kind of message built and the raw payload;
   Payload() returns the stored payload and Size() its length *)
Inductive pt_kind := KRegistered | KCea608 (f1 f2 : list N) | KUnregistered (uuid : list N) | KPicTimingHevc.
Record passthrough := mkPass { ps_kind : pt_kind; ps_payload : list N }.
Definition pass_payload (m : passthrough) : list N := ps_payload m.
Definition pass_size (m : passthrough) : N := lenN (ps_payload m).

Definition nthb (l : list N) (i : nat) : N := nth i l 0.

(* ParseCEA608(payload) (repaired text, /repo 9efafe9: an empty payload is an error) *)
Fixpoint cea608_loop (k : nat) (pl : list N) (pos : nat) (f1 f2 : list N) : res (list N * list N) :=
  match k with
  | O => Ok (f1, f2)
  | S k' =>
      if (length pl <? pos + 3)%nat then Err
      else
        let b := nthb pl pos in
        let d1 := nthb pl (pos + 1) in
        let d2 := nthb pl (pos + 2) in
        let valid := negb (N.land b 4 =? 0) in
        let ty := N.land b 3 in
        (* (ccData1&0x7f)+(ccData2&0x7f) != 0 in byte arithmetic *)
        let nonempty := negb ((N.land d1 127 + N.land d2 127) mod 256 =? 0) in
        if valid && nonempty then
          if ty =? 0 then cea608_loop k' pl (pos + 3) (f1 ++ [d1; d2]) f2
          else if ty =? 1 then cea608_loop k' pl (pos + 3) f1 (f2 ++ [d1; d2])
          else cea608_loop k' pl (pos + 3) f1 f2
        else cea608_loop k' pl (pos + 3) f1 f2
  end.
Definition parse_cea608 (pl : list N) : res (list N * list N) :=
  match pl with
  | [] => Err
  | b :: _ => cea608_loop (N.to_nat (N.land b 31)) pl 2 [] []
  end.

(* DecodeUserDataRegisteredSEI (repaired text: payloads shorter than the 8-byte header are an error) *)
Definition decode_registered (pl : list N) : res passthrough :=
  if (length pl <? 8)%nat then Err
  else
    let is608 := (nthb pl 0 =? 181) && (be_val (firstn 2 (skipn 1 pl)) 0 =? 49) &&
                 (be_val (firstn 4 (skipn 3 pl)) 0 =? 1195456820) && (nthb pl 7 =? 3) in
    if is608 then
      do (f1, f2) <- parse_cea608 (skipn 8 pl);
      Ok (mkPass (KCea608 f1 f2) pl)
    else Ok (mkPass KRegistered pl).

(* DecodeUserDataUnregisteredSEI (repaired text: payloads shorter than the UUID are an error) *)
Definition decode_unregistered (pl : list N) : res passthrough :=
  if (length pl <? 16)%nat then Err
  else Ok (mkPass (KUnregistered (firstn 16 pl)) pl).

(* DecodePicTimingHevcSEI(sd, exPar) (repaired text, /repo 2b4b54d): outcome class only (the decoded
   fields are not part of the property; the payload is kept).  It reads the rbsp payload through an
   EBSPReader.  The sub-picture loop runs i = 0..NumDecodingUnitsMinus1 and stops at the first read
   error; every iteration without error consumes at least one bit, hence the fuel. *)
Record hevc_par := mkHevcPar {
  hp_ffi : bool; hp_cpb : bool; hp_subpic : bool; hp_subpic_in_pt : bool;
  hp_au_len1 : N; hp_dpb_len1 : N; hp_du_len1 : N; hp_inc_len1 : N
}.

Fixpoint du_loop (fuel : nat) (s : rstate) (i num : N) (common : bool) (incw : N) : res rstate :=
  match fuel with
  | O => OutOfFuel
  | S f =>
      if num <? i then Ok s
      else
        let s1 := snd (read_ue s) in
        let s2 := if negb common && (i <? num) then snd (read s1 incw) else s1 in
        if rerr s2 then Ok s2 else du_loop f s2 (i + 1) num common incw
  end.

Definition hevc_final (par : hevc_par) (pl : list N) : res rstate :=
  let s0 := rinit pl in
  let s1 := if hp_ffi par
            then snd (read (snd (read (snd (read s0 4)) 2)) 1) else s0 in
  if hp_cpb par then
    let s2 := snd (read (snd (read s1 (hp_au_len1 par + 1))) (hp_dpb_len1 par + 1)) in
    if hp_subpic par then
      let s3 := snd (read s2 (hp_du_len1 par + 1)) in
      if hp_subpic_in_pt par then
        let '(nu, s4) := read_ue s3 in
        let num := u32 nu in
        let '(common, s5) := read_flag s4 in
        let s6 := if common then snd (read s5 (hp_inc_len1 par + 1)) else s5 in
        du_loop (S (8 * length pl + 8)) s6 0 num common (hp_inc_len1 par + 1)
      else Ok s3
    else Ok s2
  else Ok s1.

Definition decode_pic_timing_hevc (par : hevc_par) (pl : list N) : res passthrough :=
  do s <- hevc_final par pl;
  if rerr s then Err else Ok (mkPass KPicTimingHevc pl).
