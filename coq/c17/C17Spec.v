(* C17Spec.v — rbsp-level (i.e. on the byte list BEFORE emulation prevention / AFTER its
   removal) description of an SEI NAL unit payload: the 0xFF-run value code, the
   serialisation of a message list, and the extractor working on plain byte lists.
   Definitions only. *)
From V.lib Require Import Base.

(* what WriteSEIMessages asks of a message: Type(), Size(), Payload() *)
Record msg := mkMsg { mtype : N; msize : N; mpayload : list N }.

(* what ExtractSEIData returns *)
Inductive xres :=
| XOk (l : list (N * list N))        (* (seiData, nil) *)
| XMissing (l : list (N * list N))   (* (seiData, ErrRbspTrailingBitsMissing) *)
| XErr                               (* (nil, err) *)
| XFuel.                             (* model fuel exhausted (excluded by every theorem) *)

Definition xcons (x : N * list N) (r : xres) : xres :=
  match r with
  | XOk l => XOk (x :: l)
  | XMissing l => XMissing (x :: l)
  | XErr => XErr
  | XFuel => XFuel
  end.

(* ---------- the 0xFF-run code (H.264 7.3.2.3.1: ff_byte* last_payload_*_byte) ---------- *)
Definition ff_enc (v : N) : list N := repeat 255 (N.to_nat (v / 255)) ++ [v mod 255].

(* the decoding loop `for { b := Read(8); acc += b; if b != 0xff { break } }` on a byte list;
   wrap = the width of the Go accumulator (uint for the type, uint32 for the size);
   None = the input ended inside the run *)
Fixpoint ff_dec (wrap : N -> N) (l : list N) (acc : N) : option (N * list N) :=
  match l with
  | [] => None
  | b :: t =>
      let acc' := wrap (acc + b) in
      if b =? 255 then ff_dec wrap t acc' else Some (acc', t)
  end.

(* ---------- serialisation ---------- *)
Definition ser_msg (m : msg) : list N := ff_enc (mtype m) ++ ff_enc (msize m) ++ mpayload m.
Definition ser (msgs : list msg) : list N := flat_map ser_msg msgs.
(* the rbsp of the NAL unit: messages, then rbsp_trailing_bits (byte aligned here: 0x80) *)
Definition rbsp_of (msgs : list msg) : list N := ser msgs ++ [128].

(* ---------- more_rbsp_data() at a byte boundary ---------- *)
(* None: no byte left (the trailing bits are missing).  Otherwise: the next bit is 0, or
   some 1 bit follows the next bit. *)
Definition nonzero (x : N) : bool := negb (x =? 0).
Definition more_rbsp (l : list N) : option bool :=
  match l with
  | [] => None
  | b :: t => if b <? 128 then Some true
              else Some (nonzero (b mod 128) || existsb nonzero t)
  end.

(* ---------- the extractor on the rbsp ---------- *)
Fixpoint extract_rbsp (fuel : nat) (l : list N) : xres :=
  match fuel with
  | O => XFuel
  | S f =>
      match ff_dec u64 l 0 with
      | None => XErr
      | Some (ty, l1) =>
          match ff_dec u32 l1 0 with
          | None => XErr
          | Some (sz, l2) =>
              if lenN l2 <? sz then XErr
              else
                let pl := firstn (N.to_nat sz) l2 in
                let l3 := skipn (N.to_nat sz) l2 in
                match more_rbsp l3 with
                | None => XMissing [(ty, pl)]
                | Some false => XOk [(ty, pl)]
                | Some true => xcons (ty, pl) (extract_rbsp f l3)
                end
          end
      end
  end.

Definition extract_rbsp_all (l : list N) : xres := extract_rbsp (S (length l)) l.

(* ---------- hypotheses of the round trip, as booleans ---------- *)
(* the Go types: Type() is uint (64 bit); the extractor accumulates the size in a uint32;
   Size() must be the length of Payload() (true by construction for SEIData and for the
   pass-through messages; a theorem for the typed serialisers); payload bytes are bytes *)
Definition msg_ok (m : msg) : bool :=
  (mtype m <? 2 ^ 64) && (msize m <? 2 ^ 32) && (msize m =? lenN (mpayload m)) && bytes_ok (mpayload m).
Definition msgs_ok (msgs : list msg) : bool := forallb msg_ok msgs.

Definition observed (msgs : list msg) : list (N * list N) :=
  map (fun m => (mtype m, mpayload m)) msgs.
