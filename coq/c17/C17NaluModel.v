(* C17NaluModel.v — the entry points through which a written SEI NAL unit is read back:
     sei.DecodeSEIMessage (sei/sei.go: dispatch on codec and payload type),
     avc.ParseSEINalu (avc/sei.go) and hevc.ParseSEINalu + fillHEVCPicTimingParams (hevc/sei.go).
   Same order of checks as the Go text: NAL unit header, ExtractSEIData on the rest (an error other than
   "trailing bits missing" ends the call), then one decoder per extracted (type, payload), the first
   decoder error ends the call, "trailing bits missing" is returned WITH the decoded messages.
   Definitions only. *)
From V.lib Require Import Base.
From V.c13 Require Import C13Model.
From V.c17 Require Import C17Spec C17Model C17TypedModel C17HistModel.

(* what a decoder returns: one of the four typed messages, a pass-through message (payload kept), or
   the *SEIData of DecodeGeneralSEI *)
Inductive sei_message :=
| MTyped (t : typed)
| MPass (p : passthrough)
| MRaw (ty : N) (pl : list N).

Definition pass_type (p : passthrough) : N :=
  match ps_kind p with
  | KRegistered | KCea608 _ _ => 4
  | KUnregistered _ => 5
  | KPicTimingHevc => 1
  end.

(* Type() / Size() / Payload() of the returned message *)
Definition sm_type (m : sei_message) : N :=
  match m with MTyped t => typed_type t | MPass p => pass_type p | MRaw ty _ => ty end.
Definition sm_size (m : sei_message) : N :=
  match m with MTyped t => typed_size t | MPass p => pass_size p | MRaw _ pl => lenN pl end.
Definition sm_payload (m : sei_message) : list N :=
  match m with MTyped t => typed_payload t | MPass p => pass_payload p | MRaw _ pl => pl end.
Definition sm_msg (m : sei_message) : msg := mkMsg (sm_type m) (sm_size m) (sm_payload m).

Definition lift_typed (r : res typed) : res sei_message := do t <- r; Ok (MTyped t).
Definition lift_pass (r : res passthrough) : res sei_message := do p <- r; Ok (MPass p).

(* DecodePicTimingAvcSEIHRD(sd, cbpDbpDelay, timeOffsetLen) as a message *)
Definition decode_pt_msg (ext : option hrd_delay) (tolen : N) (pl : list N) : res sei_message :=
  do m <- pt_decode ext tolen pl; Ok (MTyped (TPicTiming m)).

(* ---------------------------------------------------------------- sei.DecodeSEIMessage *)
Inductive codec := AVC | HEVC.

Definition decode_sei_message (c : codec) (ty : N) (pl : list N) : res sei_message :=
  match c with
  | AVC =>
      if ty =? 1 then decode_pt_msg None 0 pl            (* DecodePicTimingAvcSEI = ...HRD(sd, nil, 0) *)
      else if ty =? 4 then lift_pass (decode_registered pl)
      else if ty =? 5 then lift_pass (decode_unregistered pl)
      else Ok (MRaw ty pl)
  | HEVC =>
      if ty =? 4 then lift_pass (decode_registered pl)
      else if ty =? 5 then lift_pass (decode_unregistered pl)
      else if ty =? 136 then lift_typed (do cs <- tc_decode pl; Ok (TTimeCode cs))
      else if ty =? 137 then lift_typed (do m <- mdcv_decode pl; Ok (TMdcv m))
      else if ty =? 144 then lift_typed (do m <- cll_decode pl; Ok (TCll m))
      else Ok (MRaw ty pl)
  end.

(* ---------------------------------------------------------------- avc.ParseSEINalu *)
(* what the call reads of the SPS: nil SPS or nil VUI | VUI with VclHrdParameters and
   NalHrdParameters (each nil or the uint fields CpbRemovalDelayLengthMinus1,
   DpbOutputDelayLengthMinus1, TimeOffsetLength) *)
Inductive avc_par :=
| APNone
| APVui (vcl nal : option (N * N * N)).

(* hrdParams := sps.VUI.VclHrdParameters; if hrdParams == nil { hrdParams = sps.VUI.NalHrdParameters } *)
Definition avc_hrd (vcl nal : option (N * N * N)) : option (N * N * N) :=
  match vcl with Some h => Some h | None => nal end.

(* byte(x) of a uint *)
Definition to_byte (x : N) : N := x mod 256.

Definition decode_avc (par : avc_par) (ty : N) (pl : list N) : res sei_message :=
  match par with
  | APVui vcl nal =>
      if ty =? 1 then
        match avc_hrd vcl nal with
        | Some (cpb, dpb, tol) =>
            (* &sei.CbpDbpDelay{CpbRemovalDelayLengthMinus1: byte(..), DpbOutputDelayLengthMinus1: byte(..)} *)
            decode_pt_msg (Some (mkHrd 0 0 0 (to_byte cpb) (to_byte dpb))) (to_byte tol) pl
        | None => decode_pt_msg None 0 pl
        end
      else decode_sei_message AVC ty pl
  | APNone => decode_sei_message AVC ty pl
  end.

(* outcome of ParseSEINalu *)
Inductive pres :=
| POk (l : list sei_message)        (* (msgs, nil) *)
| PMissing (l : list sei_message)   (* (msgs, sei.ErrRbspTrailingBitsMissing) *)
| PNotSEI                           (* (nil, ErrNotSEINalu) *)
| PErr                              (* (nil, other error) *)
| PPanic
| PFuel.

(* the loop over the extracted data: the first decoder error ends it *)
Fixpoint decode_all (dec : N -> list N -> res sei_message) (l : list (N * list N)) : res (list sei_message) :=
  match l with
  | [] => Ok []
  | (ty, pl) :: r =>
      do m <- dec ty pl;
      do ms <- decode_all dec r;
      Ok (m :: ms)
  end.

Definition parse_rest (dec : N -> list N -> res sei_message) (sei_bytes : list N) : pres :=
  match extract_sei_data sei_bytes with
  | XErr => PErr
  | XFuel => PFuel
  | XOk l =>
      match decode_all dec l with
      | Ok ms => POk ms | Err => PErr | Panic => PPanic | OutOfFuel => PFuel
      end
  | XMissing l =>
      match decode_all dec l with
      | Ok ms => PMissing ms | Err => PErr | Panic => PPanic | OutOfFuel => PFuel
      end
  end.

(* len(nalu) < 1 || GetNaluType(nalu[0]) != NALU_SEI (naluHeader & 0x1f, 6) *)
Definition parse_sei_nalu_avc (par : avc_par) (nalu : list N) : pres :=
  match nalu with
  | [] => PNotSEI
  | h :: rest => if N.land h 31 =? 6 then parse_rest (decode_avc par) rest else PNotSEI
  end.

(* ---------------------------------------------------------------- hevc.ParseSEINalu *)
(* hevc.HrdParameters as fillHEVCPicTimingParams reads it (uint8 length fields) *)
Record hevc_hrd := mkHevcHrd {
  hh_nal : bool; hh_vcl : bool; hh_subpic : bool; hh_subpic_in_pt : bool;
  hh_au_len1 : N; hh_dpb_len1 : N; hh_du_len1 : N; hh_inc_len1 : N
}.
(* nil SPS or nil VUI | VUI: FrameFieldInfoPresentFlag and HrdParameters (or nil) *)
Inductive hevc_sps :=
| HPNone
| HPVui (ffi : bool) (hrd : option hevc_hrd).

Definition fill_hevc_par (ffi : bool) (hrd : option hevc_hrd) : hevc_par :=
  match hrd with
  | None => mkHevcPar ffi false false false 0 0 0 0
  | Some h => mkHevcPar ffi (hh_nal h || hh_vcl h) (hh_subpic h) (hh_subpic_in_pt h)
                        (hh_au_len1 h) (hh_dpb_len1 h) (hh_du_len1 h) (hh_inc_len1 h)
  end.

Definition decode_hevc (par : hevc_sps) (ty : N) (pl : list N) : res sei_message :=
  match par with
  | HPVui ffi hrd =>
      if ty =? 1 then lift_pass (decode_pic_timing_hevc (fill_hevc_par ffi hrd) pl)
      else decode_sei_message HEVC ty pl
  | HPNone => decode_sei_message HEVC ty pl
  end.

(* len(nalu) < 2; GetNaluType(nalu[0]) = (b >> 1) & 0x3f in {NALU_SEI_PREFIX 39, NALU_SEI_SUFFIX 40} *)
Definition parse_sei_nalu_hevc (par : hevc_sps) (nalu : list N) : pres :=
  match nalu with
  | h :: _ :: rest =>
      let t := N.land (h / 2) 63 in
      if (t =? 39) || (t =? 40) then parse_rest (decode_hevc par) rest else PNotSEI
  | _ => PNotSEI
  end.

(* ---------------------------------------------------------------- which messages a path returns as themselves *)
(* the external parameters avc.ParseSEINalu hands to DecodePicTimingAvcSEIHRD *)
Definition avc_ext (par : avc_par) : option hrd_delay * N :=
  match par with
  | APVui vcl nal =>
      match avc_hrd vcl nal with
      | Some (cpb, dpb, tol) => (Some (mkHrd 0 0 0 (to_byte cpb) (to_byte dpb)), to_byte tol)
      | None => (None, 0)
      end
  | APNone => (None, 0)
  end.

(* the message's CbpDbpDelay has the length fields of the external one (nil iff nil) *)
Definition hrd_like (h e : option hrd_delay) : bool :=
  match h, e with
  | None, None => true
  | Some h, Some e => (h_init_len1 h =? h_init_len1 e) && (h_cpb_len1 h =? h_cpb_len1 e) && (h_dpb_len1 h =? h_dpb_len1 e)
  | _, _ => false
  end.

Definition raw_ok (ty : N) (pl : list N) : bool := (ty <? 2 ^ 64) && (lenN pl <? 2 ^ 32) && bytes_ok pl.
Definition pass_ok (p : passthrough) : bool := (lenN (ps_payload p) <? 2 ^ 32) && bytes_ok (ps_payload p).

(* a message value avc.ParseSEINalu (with these SPS parameters) can return, in the theorems' domain:
   a canonical AVC picture timing message carrying the external lengths; a pass-through message some
   pass-through decoder returned; general data of a type that has no decoder on this path *)
Definition sm_wf_avc (par : avc_par) (m : sei_message) : Prop :=
  match m with
  | MTyped (TPicTiming pt) =>
      pt_canonical pt = true /\ p_tolen pt = snd (avc_ext par) /\ hrd_like (p_hrd pt) (fst (avc_ext par)) = true
  | MTyped _ => False
  | MPass p => pass_ok p = true /\ exists pl, decode_registered pl = Ok p \/ decode_unregistered pl = Ok p
  | MRaw ty pl => raw_ok ty pl = true /\ ty <> 1 /\ ty <> 4 /\ ty <> 5
  end.

Definition sm_wf_hevc (par : hevc_sps) (m : sei_message) : Prop :=
  match m with
  | MTyped (TPicTiming _) => False
  | MTyped t => typed_canonical t = true
  | MPass p =>
      pass_ok p = true /\
      exists pl, decode_registered pl = Ok p \/ decode_unregistered pl = Ok p \/
                 exists ffi hrd, par = HPVui ffi hrd /\ decode_pic_timing_hevc (fill_hevc_par ffi hrd) pl = Ok p
  | MRaw ty pl =>
      raw_ok ty pl = true /\ (ty <> 1 \/ par = HPNone) /\ ty <> 4 /\ ty <> 5 /\ ty <> 136 /\ ty <> 137 /\ ty <> 144
  end.

Definition pres_of (r : res (list sei_message)) : pres :=
  match r with Ok ms => POk ms | Err => PErr | Panic => PPanic | OutOfFuel => PFuel end.
