(* C17EbspProofs.v — the round trip on the REAL (emulation-prevented) byte stream: the model's
   writer output is escape (ser msgs ++ [0x80]) and the model's extractor (C13 EBSP reader model)
   returns the message list from it.  Composes the rbsp-level facts with the C13 lemmas
   (writer = escape of the bit stream, reader = bit stream of the unescaped input,
   MoreRbspData = "a 1 bit follows the next bit"). *)
From V.lib Require Import Base.
From V.c13 Require Import C13Spec C13Model C13Bits C13EscProofs C13MarkProofs C13WriterProofs C13ReaderProofs.
From V.c17 Require Import C17Spec C17Model C17RbspProofs C17WriterProofs.

Lemma bytes_ok_Forall l : bytes_ok l = true <-> Forall (fun b => b < 256) l.
Proof.
  unfold bytes_ok, byte_ok. rewrite forallb_forall, Forall_forall.
  split; intros H x Hx; specialize (H x Hx); [apply N.ltb_lt|apply N.ltb_lt]; exact H.
Qed.

(* ------------------------------------------------------------------ writer *)
Lemma write_byte_stream s cur b :
  WStream s cur -> WStream (write_byte s b) (cur ++ bits_of 8 b).
Proof. intros H. exact (write_stream s cur b 8 H ltac:(lia)). Qed.

Lemma write_bytes_stream l : forall s cur,
  WStream s cur -> WStream (fold_left write_byte l s) (cur ++ bytes_to_bits l).
Proof.
  induction l as [|b t IH]; intros s cur H.
  - cbn [fold_left bytes_to_bits flat_map]. rewrite app_nil_r. exact H.
  - cbn [fold_left]. unfold bytes_to_bits. cbn [flat_map]. rewrite app_assoc.
    apply IH. apply write_byte_stream. exact H.
Qed.

Lemma WStream_init : WStream winit [].
Proof. exists []. split; [apply WInv_init|reflexivity]. Qed.

Lemma trailing_aligned l :
  bytes_to_bits l ++ op_bits (bytes_to_bits l) WTrail = bytes_to_bits (l ++ [128]).
Proof.
  rewrite bytes_to_bits_app. f_equal. cbn [op_bits]. unfold align_zeros.
  rewrite app_length, bytes_to_bits_length. cbn [length].
  replace (8 * length l + 1)%nat with (1 + length l * 8)%nat by lia.
  rewrite Nat.mod_add by lia. reflexivity.
Qed.

(* the bytes written are the emulation-prevented plain serialisation + trailing bits *)
Lemma writer_is_escape msgs :
  bytes_ok (ser msgs) = true ->
  write_sei_messages msgs = escape (rbsp_of msgs).
Proof.
  intros Hok. rewrite write_sei_messages_ser.
  pose proof (write_bytes_stream (ser msgs) winit [] WStream_init) as H1. cbn [app] in H1.
  pose proof (wstep_stream _ _ WTrail H1 eq_refl) as H2. cbn [wstep] in H2.
  rewrite trailing_aligned in H2.
  destruct (WStream_aligned _ _ H2) as [raw [Ho [Hb [Hlt _]]]].
  { rewrite bytes_to_bits_length. rewrite Nat.mul_comm. apply Nat.mod_mul. lia. }
  rewrite Ho. f_equal. unfold rbsp_of.
  apply bytes_to_bits_inj; [exact Hlt| |exact Hb].
  apply bytes_ok_Forall. rewrite bytes_ok_app, Hok. reflexivity.
Qed.

Lemma ser_bytes_ok msgs : msgs_ok msgs = true -> bytes_ok (ser msgs) = true.
Proof.
  induction msgs as [|m ms IH]; intros H; [reflexivity|].
  cbn [msgs_ok forallb] in H. apply andb_true_iff in H. destruct H as [Hm Hms].
  rewrite ser_cons, bytes_ok_app, (IH Hms), andb_true_r.
  unfold ser_msg. rewrite !bytes_ok_app, !ff_enc_bytes_ok. cbn [andb].
  unfold msg_ok in Hm. apply andb_true_iff in Hm. apply Hm.
Qed.

(* ------------------------------------------------------------------ reader *)
Section Wrap.
  Variable wrap : N -> N.
  Variable W : N.
  Hypothesis wrap_small : forall x, x < W -> wrap x = x.

  Lemma read_ff_spec : forall fuel v s acc rest,
    (N.to_nat (v / 255) < fuel)%nat ->
    RGood s -> rbits s = bytes_to_bits (ff_enc v) ++ rest -> acc + v < W ->
    exists s', read_ff fuel wrap s acc = Some (acc + v, s') /\ rbits s' = rest /\ RGood s' /\
               rdata s' = rdata s.
  Proof.
    induction fuel as [|f IH]; intros v s acc rest Hf HG Hb Hv; [lia|].
    cbn [read_ff].
    destruct (N.leb_spec 255 v) as [H|H].
    - rewrite ff_enc_ge in Hb by exact H.
      unfold bytes_to_bits in Hb. cbn [flat_map] in Hb. rewrite <- app_assoc in Hb.
      destruct (read_fixed s 8 255 _ HG ltac:(lia) ltac:(cbn; lia) Hb) as [s1 [Hr [Hb1 [HG1 Hd1]]]].
      rewrite Hr. cbn [N.eqb Pos.eqb]. rewrite wrap_small by lia.
      assert (E : v / 255 = N.succ ((v - 255) / 255)).
      { replace v with ((v - 255) + 1 * 255) at 1 by lia. rewrite N.div_add by lia. lia. }
      destruct (IH (v - 255) s1 (acc + 255) rest ltac:(lia) HG1 Hb1 ltac:(lia)) as [s' [Hr' [Hb' [HG' Hd']]]].
      exists s'. rewrite Hr'. split; [f_equal; f_equal; lia|]. split; [exact Hb'|]. split; [exact HG'|congruence].
    - rewrite ff_enc_lt in Hb by exact H.
      unfold bytes_to_bits in Hb. cbn [flat_map app] in Hb. rewrite app_nil_r in Hb.
      destruct (read_fixed s 8 v _ HG ltac:(lia) ltac:(cbn; lia) Hb) as [s1 [Hr [Hb1 [HG1 Hd1]]]].
      rewrite Hr. destruct (N.eqb_spec v 255) as [E|E]; [lia|].
      rewrite wrap_small by lia. exists s1. split; [reflexivity|]. split; [exact Hb1|]. split; [exact HG1|exact Hd1].
  Qed.
End Wrap.

Lemma bits_nonempty_more x :
  x <> [] ->
  match bytes_to_bits (x ++ [128]) with
  | [] => False
  | b :: t => negb b || existsb (fun y => y) t = true
  end.
Proof.
  destruct x as [|a x']; [congruence|]. intros _.
  change (bytes_to_bits ((a :: x') ++ [128]))
    with (N.testbit a (N.of_nat 7) :: (bits_of 7 a ++ bytes_to_bits (x' ++ [128]))).
  cbv beta iota. rewrite existsb_app, bytes_to_bits_app, existsb_app.
  replace (existsb (fun y => y) (bytes_to_bits [128])) with true by reflexivity.
  rewrite !orb_true_r. reflexivity.
Qed.

Lemma ff_len_le v rest n :
  (length (bytes_to_bits (ff_enc v) ++ rest) <= 8 * n + 7)%nat -> (N.to_nat (v / 255) < S n)%nat.
Proof.
  rewrite app_length, bytes_to_bits_length. unfold ff_enc. rewrite app_length, repeat_length.
  cbn [length]. lia.
Qed.

Lemma extract_loop_msgs : forall msgs f s,
  msgs <> [] -> msgs_ok msgs = true -> (length msgs <= f)%nat ->
  RGood s -> rbits s = bytes_to_bits (rbsp_of msgs) ->
  extract_loop f s = XOk (observed msgs).
Proof.
  induction msgs as [|m ms IH]; intros f s Hne Hok Hf HG Hb; [congruence|].
  cbn [msgs_ok forallb] in Hok. apply andb_true_iff in Hok. destruct Hok as [Hm Hms].
  destruct f as [|f]; [cbn [length] in Hf; lia|].
  pose proof Hm as Hm'. unfold msg_ok in Hm'.
  apply andb_true_iff in Hm'. destruct Hm' as [Hm' Hbytes].
  apply andb_true_iff in Hm'. destruct Hm' as [Hm' Hs].
  apply andb_true_iff in Hm'. destruct Hm' as [Ht Hz].
  apply N.ltb_lt in Ht. apply N.ltb_lt in Hz. apply N.eqb_eq in Hs.
  unfold rbsp_of in Hb. rewrite ser_cons in Hb. unfold ser_msg in Hb.
  rewrite <- !app_assoc in Hb. rewrite !bytes_to_bits_app in Hb.
  pose proof (rbits_length_le s (proj2 HG)) as Hlen.
  cbn [extract_loop].
  (* payload type *)
  destruct (read_ff_spec u64 (2 ^ 64) u64_small (S (length (rdata s))) (mtype m) s 0 _
              ltac:(rewrite Hb in Hlen; eapply ff_len_le; exact Hlen) HG Hb ltac:(cbn [N.add]; exact Ht))
    as [s1 [R1 [Hb1 [HG1 Hd1]]]].
  rewrite R1. cbn [N.add].
  (* payload size *)
  pose proof (rbits_length_le s1 (proj2 HG1)) as Hlen1. rewrite Hd1 in Hlen1.
  destruct (read_ff_spec u32 (2 ^ 32) u32_small (S (length (rdata s))) (msize m) s1 0 _
              ltac:(rewrite Hb1 in Hlen1; eapply ff_len_le; exact Hlen1) HG1 Hb1 ltac:(cbn [N.add]; exact Hz))
    as [s2 [R2 [Hb2 [HG2 Hd2]]]].
  rewrite R2. cbn [N.add].
  (* payload bytes *)
  pose proof (rbits_length_le s2 (proj2 HG2)) as Hlen2. rewrite Hd2, Hd1 in Hlen2.
  unfold read_payload. pose proof HG2 as [[He2 _] _]. rewrite He2.
  destruct (N.ltb_spec (lenN (rdata s2)) (msize m)) as [L|L].
  { exfalso. rewrite Hb2, app_length, bytes_to_bits_length in Hlen2.
    rewrite Hd2, Hd1 in L. unfold lenN in *. lia. }
  destruct (read_bytes_spec (N.to_nat (msize m)) s2 (mpayload m) _ HG2
              ltac:(rewrite Hs; unfold lenN; lia) ltac:(apply bytes_ok_Forall; exact Hbytes) Hb2)
    as [s3 [R3 [Hb3 [HG3 Hd3]]]].
  rewrite R3. pose proof HG3 as [[He3 _] _]. rewrite He3.
  rewrite <- bytes_to_bits_app in Hb3.
  (* more_rbsp_data *)
  pose proof (more_rbsp_data_spec s3 HG3) as HM. rewrite Hb3 in HM.
  destruct ms as [|m' ms'].
  - cbn [ser flat_map app] in HM. change (bytes_to_bits [128]) with
      [true; false; false; false; false; false; false; false] in HM.
    cbn [negb existsb orb] in HM. rewrite HM. reflexivity.
  - pose proof (bits_nonempty_more (ser (m' :: ms')) ltac:(apply ser_nonempty; discriminate)) as HN.
    destruct (bytes_to_bits (ser (m' :: ms') ++ [128])) as [|b t] eqn:Eb; [contradiction|].
    rewrite HN in HM. rewrite HM.
    rewrite (IH f s3); [reflexivity|discriminate|exact Hms|cbn [length] in *; lia|exact HG3|].
    rewrite Hb3. symmetry. exact Eb.
Qed.

Lemma list_roundtrip msgs :
  msgs <> [] -> msgs_ok msgs = true ->
  write_sei_messages msgs = escape (rbsp_of msgs) /\
  extract_sei_data (write_sei_messages msgs) = XOk (observed msgs).
Proof.
  intros Hne Hok.
  pose proof (writer_is_escape msgs (ser_bytes_ok msgs Hok)) as HW.
  split; [exact HW|]. rewrite HW. unfold extract_sei_data.
  assert (Hlt : Forall (fun b => b < 256) (escape (rbsp_of msgs))).
  { apply escape_lt256. apply bytes_ok_Forall. unfold rbsp_of.
    rewrite bytes_ok_app, (ser_bytes_ok msgs Hok). reflexivity. }
  assert (HG : RGood (rinit (escape (rbsp_of msgs)))).
  { split; [apply RInv_init; exact Hlt|cbn; lia]. }
  assert (Hb : rbits (rinit (escape (rbsp_of msgs))) = bytes_to_bits (rbsp_of msgs)).
  { rewrite rbits_init, unescape_escape. reflexivity. }
  apply extract_loop_msgs; try assumption.
  pose proof (rbits_length_le _ (proj2 HG)) as Hlen.
  rewrite Hb, bytes_to_bits_length in Hlen. cbn [rdata rinit] in Hlen.
  unfold rbsp_of in Hlen. rewrite app_length in Hlen.
  pose proof (length_ser_ge msgs). unfold rbsp_of. cbn [length] in Hlen. lia.
Qed.

Lemma writer_is_escape_ok msgs :
  msgs_ok msgs = true -> write_sei_messages msgs = escape (rbsp_of msgs).
Proof. intros H. apply writer_is_escape, ser_bytes_ok, H. Qed.

Lemma list_roundtrip_ebsp msgs :
  msgs <> [] -> msgs_ok msgs = true ->
  extract_sei_data (write_sei_messages msgs) = XOk (observed msgs).
Proof. intros H1 H2. apply list_roundtrip; assumption. Qed.
