(* C17HistProofs.v — the typed round trips lifted to a typed message VALUE however it was obtained
   (C17HistModel): the observables are a function of the exported field record, serialise + decode
   again is a no-op on canonical values, and the final value of ANY history round-trips, alone and
   inside an SEI NAL unit. *)
From V.lib Require Import Base.
From V.c13 Require Import C13Spec C13Model.
From V.c17 Require Import C17Spec C17Model C17EbspProofs C17TypedModel C17TypedProofs C17FswProofs
  C17ComposeProofs C17HistModel.

Lemma typed_roundtrip t :
  typed_canonical t = true ->
  typed_decode_like t (typed_payload t) = Ok t /\ lenN (typed_payload t) = typed_size t.
Proof.
  destruct t as [cs|m|m|m]; cbn [typed_canonical typed_decode_like typed_payload typed_size]; intros H.
  - destruct (timecode_exec cs H) as (_ & D & L). rewrite D. split; [reflexivity|exact L].
  - destruct (pic_timing_exec m H) as (_ & D & L). rewrite D. split; [reflexivity|exact L].
  - destruct (mdcv_roundtrip m H) as (D & L). rewrite D. split; [reflexivity|exact L].
  - destruct (cll_roundtrip m H) as (D & L). rewrite D. split; [reflexivity|exact L].
Qed.

Lemma typed_msg_ok t : typed_canonical t = true -> msg_ok (typed_msg t) = true.
Proof.
  destruct typed_msgs_ok as (H1 & H2 & H3 & H4).
  destruct t as [cs|m|m|m]; unfold typed_msg; cbn [typed_canonical typed_type typed_size typed_payload]; intros H.
  - apply H1, H.
  - apply H2, H.
  - apply H3.
  - apply H4.
Qed.

(* the observables of a value depend on its exported field record and on nothing else: two values
   with equal field records, whatever histories produced them, serialise alike *)
Lemma payload_depends_on_fields o1 ss1 o2 ss2 t1 t2 :
  run_history o1 ss1 = Ok t1 -> run_history o2 ss2 = Ok t2 -> t1 = t2 ->
  typed_payload t1 = typed_payload t2 /\ typed_size t1 = typed_size t2 /\ typed_observe t1 = typed_observe t2.
Proof. intros _ _ ->. repeat split. Qed.

(* serialise + decode again in the middle of a history changes nothing on a canonical value *)
Lemma redecode_noop t ss :
  typed_canonical t = true -> run_steps (SRedecode :: ss) t = run_steps ss t.
Proof.
  intros H. cbn [run_steps]. destruct (typed_roundtrip t H) as [D _]. rewrite D. reflexivity.
Qed.

(* a canonical typed value between arbitrary other messages of an SEI NAL unit *)
Lemma typed_in_nalu t pre post :
  typed_canonical t = true -> msgs_ok pre = true -> msgs_ok post = true ->
  extract_sei_data (write_sei_messages (pre ++ typed_msg t :: post))
  = XOk (observed pre ++ (typed_type t, typed_payload t) :: observed post).
Proof.
  intros H Hpre Hpost. rewrite list_roundtrip_ebsp.
  - unfold observed. rewrite map_app. reflexivity.
  - intros E. apply app_eq_nil in E. destruct E as [_ E]. discriminate.
  - unfold msgs_ok. rewrite forallb_app. cbn [forallb].
    fold (msgs_ok pre). fold (msgs_ok post). rewrite Hpre, Hpost, (typed_msg_ok t H). reflexivity.
Qed.

(* THE typed round trip for any message value, however it was obtained: the final value t of any
   history (built or decoded, then any number of field edits, struct copies and re-decodes), if
   canonical, decodes from its own payload to itself, Size() is the payload length, and written
   alone into an SEI NAL unit it is extracted unchanged *)
Lemma history_roundtrip o ss t :
  run_history o ss = Ok t -> typed_canonical t = true ->
  typed_decode_like t (typed_payload t) = Ok t /\
  lenN (typed_payload t) = typed_size t /\
  extract_sei_data (write_sei_messages [typed_msg t]) = XOk [(typed_type t, typed_payload t)].
Proof.
  intros _ H. destruct (typed_roundtrip t H) as [D L]. split; [exact D|]. split; [exact L|].
  apply (typed_in_nalu t [] [] H); reflexivity.
Qed.

(* edits that keep the value canonical keep the whole history inside the theorem: by induction
   on the steps, every intermediate value is canonical and the re-decodes are no-ops *)
Definition step_keeps_canonical (s : step) : Prop :=
  match s with
  | SEdit f => forall t, typed_canonical t = true -> typed_canonical (f t) = true
  | _ => True
  end.

Fixpoint apply_edits (ss : list step) (t : typed) : typed :=
  match ss with
  | [] => t
  | SEdit f :: r => apply_edits r (f t)
  | _ :: r => apply_edits r t
  end.

Lemma canonical_history_steps ss : forall t,
  Forall step_keeps_canonical ss -> typed_canonical t = true ->
  run_steps ss t = Ok (apply_edits ss t) /\ typed_canonical (apply_edits ss t) = true.
Proof.
  induction ss as [|s r IH]; intros t HF H.
  - split; [reflexivity|exact H].
  - inversion HF as [|? ? Hs Hr]; subst.
    destruct s as [f| | |].
    + cbn [run_steps apply_edits]. apply IH; [exact Hr|]. apply Hs, H.
    + cbn [run_steps apply_edits]. apply IH; assumption.
    + cbn [run_steps apply_edits]. apply IH; assumption.
    + rewrite redecode_noop by exact H. cbn [apply_edits]. apply IH; assumption.
Qed.
