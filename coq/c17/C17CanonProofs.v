(* C17CanonProofs.v — whatever a typed decoder returns is a CANONICAL value (every field within its
   coded width, every field the flags make absent zero, the clock count the one the header says):
   a message obtained from a decoder is inside the domain of the round-trip theorems, and stays
   there under canonical-preserving edits (C17HistProofs.canonical_history_steps). *)
From V.lib Require Import Base.
From V.c13 Require Import C13Model C13Bits.
From V.c17 Require Import C17Spec C17Model C17TypedModel C17HistModel C17HistProofs.

Lemma rd_lt n l v l' : rd n l = Ok (v, l') -> v < 2 ^ N.of_nat n.
Proof.
  unfold rd. destruct (Nat.ltb_spec (length l) n) as [H|H]; [discriminate|].
  intros [= <- _]. pose proof (val_of_lt (firstn n l)) as B.
  rewrite firstn_length, Nat.min_l in B by exact H. exact B.
Qed.

Lemma rd_lt_const n B l v l' : 2 ^ N.of_nat n = B -> rd n l = Ok (v, l') -> v < B.
Proof. intros <-. apply rd_lt. Qed.

(* take the next read of a monadic decoder apart *)
Ltac next_rd H :=
  match type of H with
  | rbind ?r _ = Ok _ =>
      let E := fresh "E" in
      destruct r as [[? ?]| | |] eqn:E; cbn [rbind] in H; [|discriminate H ..]
  end.

Ltac ltb_goal := apply N.ltb_lt.

(* ------------------------------------------------------------------ hh:mm:ss *)
Lemma rd_hms_canonical full l sf s mf m hf h l' :
  rd_hms full l = Ok ((sf, s, mf, m, hf, h), l') -> hms_canonical full sf s mf m hf h = true.
Proof.
  unfold rd_hms, hms_canonical. destruct full; intros H.
  - next_rd H. next_rd H. next_rd H. injection H as <- <- <- <- <- <- _.
    cbn [negb andb].
    rewrite (proj2 (N.ltb_lt _ _) (rd_lt_const 6 64 _ _ _ eq_refl E)).
    rewrite (proj2 (N.ltb_lt _ _) (rd_lt_const 6 64 _ _ _ eq_refl E0)).
    rewrite (proj2 (N.ltb_lt _ _) (rd_lt_const 5 32 _ _ _ eq_refl E1)). reflexivity.
  - next_rd H. destruct b.
    + next_rd H. next_rd H. destruct b.
      * next_rd H. next_rd H. destruct b.
        -- next_rd H. injection H as <- <- <- <- <- <- _.
           rewrite (proj2 (N.ltb_lt _ _) (rd_lt_const 6 64 _ _ _ eq_refl E0)).
           rewrite (proj2 (N.ltb_lt _ _) (rd_lt_const 6 64 _ _ _ eq_refl E2)).
           rewrite (proj2 (N.ltb_lt _ _) (rd_lt_const 5 32 _ _ _ eq_refl E4)). reflexivity.
        -- injection H as <- <- <- <- <- <- _.
           rewrite (proj2 (N.ltb_lt _ _) (rd_lt_const 6 64 _ _ _ eq_refl E0)).
           rewrite (proj2 (N.ltb_lt _ _) (rd_lt_const 6 64 _ _ _ eq_refl E2)). reflexivity.
      * injection H as <- <- <- <- <- <- _.
        rewrite (proj2 (N.ltb_lt _ _) (rd_lt_const 6 64 _ _ _ eq_refl E0)). reflexivity.
    + injection H as <- <- <- <- <- <- _. reflexivity.
Qed.

(* ------------------------------------------------------------------ SEI 136 *)
Lemma rd_clock_canonical l c l' : rd_clock l = Ok (c, l') -> clock_canonical c = true.
Proof.
  unfold rd_clock. intros H. next_rd H. destruct b.
  - do 7 next_rd H. destruct p as [[[[[sf s] mf] m] hf] h].
    pose proof (rd_hms_canonical _ _ _ _ _ _ _ _ _ E6) as Hh.
    next_rd H.
    pose proof (rd_lt_const 5 32 _ _ _ eq_refl E1) as B1.
    pose proof (rd_lt_const 9 512 _ _ _ eq_refl E5) as B5.
    pose proof (rd_lt_const 5 32 _ _ _ eq_refl E7) as B7.
    destruct (0 <? n1) eqn:Z.
    + next_rd H. injection H as <- _. unfold clock_canonical.
      cbn [c_flag c_counting c_nframes c_full c_secflag c_seconds c_minflag c_minutes c_hrflag c_hours c_tolen c_toval].
      rewrite Hh. apply rd_lt in E8. rewrite N2Nat.id in E8.
      rewrite (proj2 (N.ltb_lt _ _) B1), (proj2 (N.ltb_lt _ _) B5), (proj2 (N.ltb_lt _ _) B7),
        (proj2 (N.ltb_lt _ _) E8). reflexivity.
    + injection H as <- _. unfold clock_canonical.
      cbn [c_flag c_counting c_nframes c_full c_secflag c_seconds c_minflag c_minutes c_hrflag c_hours c_tolen c_toval].
      rewrite Hh. apply N.ltb_ge in Z. assert (n1 = 0) as -> by lia.
      rewrite (proj2 (N.ltb_lt _ _) B1), (proj2 (N.ltb_lt _ _) B5). reflexivity.
  - injection H as <- _. reflexivity.
Qed.

Lemma rd_clocks_canonical k : forall l cs l',
  rd_clocks k l = Ok (cs, l') -> length cs = k /\ forallb clock_canonical cs = true.
Proof.
  induction k as [|k IH]; intros l cs l' H; cbn [rd_clocks] in H.
  - injection H as <- _. split; reflexivity.
  - next_rd H. next_rd H. injection H as <- _.
    destruct (IH _ _ _ E0) as [HL HC]. cbn [length forallb].
    rewrite (rd_clock_canonical _ _ _ E), HC, HL. split; reflexivity.
Qed.

Lemma tc_decode_canonical pl cs : tc_decode pl = Ok cs -> tc_canonical cs = true.
Proof.
  unfold tc_decode. intros H. next_rd H. next_rd H. injection H as <-.
  destruct (rd_clocks_canonical _ _ _ _ E0) as [HL HC].
  pose proof (rd_lt_const 2 4 _ _ _ eq_refl E) as B.
  unfold tc_canonical. rewrite HC, andb_true_r. apply N.ltb_lt. unfold lenN. lia.
Qed.

(* ------------------------------------------------------------------ AVC SEI 1 *)
(* sign extension lands in the two's complement range; on abstract quantities (h = 2^(n-1)) *)
Lemma signed_range (v h : N) (bit : bool) :
  0 < h -> v < 2 * h -> bit = ((v / h) mod 2 =? 1) ->
  (- Z.of_N h <= (if bit then Z.of_N v - 2 * Z.of_N h else Z.of_N v) < Z.of_N h)%Z.
Proof.
  intros Hh Hv ->.
  assert (Q : v / h < 2) by (apply N.div_lt_upper_bound; lia).
  destruct (N.eq_dec (v / h) 1) as [E|E].
  - rewrite E. change (1 mod 2 =? 1) with true. cbv iota.
    assert (h <= v).
    { pose proof (N.mul_div_le v h ltac:(lia)) as M. rewrite E in M. lia. }
    lia.
  - assert (E0 : v / h = 0) by (revert Q E; generalize (v / h); intros q Q E; lia).
    rewrite E0. change (0 mod 2 =? 1) with false. cbv iota.
    apply N.div_small_iff in E0; lia.
Qed.

Lemma rd_signed_range n l z l' :
  (1 <= n)%nat -> rd_signed n l = Ok (z, l') ->
  (- 2 ^ (Z.of_nat n - 1) <= z < 2 ^ (Z.of_nat n - 1))%Z.
Proof.
  intros Hn H. unfold rd_signed in H. next_rd H. injection H as <- _.
  apply rd_lt in E.
  assert (Hh : Z.of_N (2 ^ N.of_nat (n - 1)) = (2 ^ (Z.of_nat n - 1))%Z).
  { rewrite N2Z.inj_pow, nat_N_Z. f_equal. lia. }
  assert (H2 : 2 ^ N.of_nat n = 2 * 2 ^ N.of_nat (n - 1)).
  { rewrite <- N.pow_succ_r'. f_equal. lia. }
  assert (HZ : (2 ^ Z.of_nat n = 2 * 2 ^ (Z.of_nat n - 1))%Z).
  { rewrite <- Z.pow_succ_r by lia. f_equal. lia. }
  rewrite HZ, <- Hh. rewrite H2 in E.
  apply signed_range; [|exact E|apply N.testbit_eqb].
  apply N.neq_0_lt_0. apply N.pow_nonzero. discriminate.
Qed.

Lemma rd_clock_avc_canonical tolen l c l' :
  tolen < 32 -> rd_clock_avc tolen l = Ok (c, l') -> clock_avc_canonical tolen c = true.
Proof.
  unfold rd_clock_avc. intros Ht H. next_rd H. destruct b.
  - do 8 next_rd H. destruct p as [[[[[sf s] mf] m] hf] h].
    pose proof (rd_hms_canonical _ _ _ _ _ _ _ _ _ E7) as Hh.
    pose proof (rd_lt_const 2 4 _ _ _ eq_refl E0) as B0.
    pose proof (rd_lt_const 5 32 _ _ _ eq_refl E2) as B2.
    pose proof (rd_lt_const 8 256 _ _ _ eq_refl E6) as B6.
    destruct (0 <? tolen) eqn:Z.
    + next_rd H. injection H as <- _. unfold clock_avc_canonical.
      cbn [a_flag a_cttype a_counting a_nframes a_full a_secflag a_seconds a_minflag a_minutes a_hrflag a_hours a_tolen a_toval].
      rewrite Hh, Z, N.eqb_refl.
      rewrite (proj2 (N.ltb_lt _ _) B0), (proj2 (N.ltb_lt _ _) B2), (proj2 (N.ltb_lt _ _) B6).
      apply N.ltb_lt in Z.
      apply rd_signed_range in E8; [|lia]. rewrite N_nat_Z in E8. destruct E8 as [L U].
      rewrite (proj2 (Z.leb_le _ _) L), (proj2 (Z.ltb_lt _ _) U). reflexivity.
    + injection H as <- _. unfold clock_avc_canonical.
      cbn [a_flag a_cttype a_counting a_nframes a_full a_secflag a_seconds a_minflag a_minutes a_hrflag a_hours a_tolen a_toval].
      rewrite Hh, Z, N.eqb_refl.
      rewrite (proj2 (N.ltb_lt _ _) B0), (proj2 (N.ltb_lt _ _) B2), (proj2 (N.ltb_lt _ _) B6). reflexivity.
  - injection H as <- _. unfold clock_avc_canonical, clock_avc_zero.
    cbn [a_flag a_cttype a_nuit a_counting a_nframes a_full a_disc a_dropped a_secflag a_seconds a_minflag a_minutes a_hrflag a_hours a_tolen a_toval].
    rewrite N.eqb_refl. reflexivity.
Qed.

Lemma rd_clocks_avc_canonical tolen k : forall l cs l',
  tolen < 32 -> rd_clocks_avc k tolen l = Ok (cs, l') ->
  length cs = k /\ forallb (clock_avc_canonical tolen) cs = true.
Proof.
  induction k as [|k IH]; intros l cs l' Ht H; cbn [rd_clocks_avc] in H.
  - injection H as <- _. split; reflexivity.
  - next_rd H. next_rd H. injection H as <- _.
    destruct (IH _ _ _ Ht E0) as [HL HC]. cbn [length forallb].
    rewrite (rd_clock_avc_canonical _ _ _ _ Ht E), HC, HL. split; reflexivity.
Qed.

(* the external parameters a decoder can be given: 5-bit length fields *)
Definition ext_ok (ext : option hrd_delay) (tolen : N) : bool :=
  (match ext with Some h => (h_cpb_len1 h <? 32) && (h_dpb_len1 h <? 32) | None => true end) && (tolen <? 32).

Lemma pt_decode_canonical ext tolen pl m :
  ext_ok ext tolen = true -> pt_decode ext tolen pl = Ok m -> pt_canonical m = true.
Proof.
  unfold ext_ok, pt_decode. intros Hx H.
  apply andb_true_iff in Hx. destruct Hx as [Hx Ht]. apply N.ltb_lt in Ht.
  next_rd H. next_rd H.
  destruct (num_clock_ts n) as [k|] eqn:K; [|discriminate].
  next_rd H. injection H as <-.
  destruct (rd_clocks_avc_canonical _ _ _ _ _ Ht E1) as [HL HC].
  unfold pt_canonical. cbn [p_hrd p_tolen p_pict p_clocks].
  rewrite K, HC, HL, Nat.eqb_refl, (proj2 (N.ltb_lt _ _) Ht), !andb_true_r.
  destruct ext as [h|].
  - apply andb_true_iff in Hx. destruct Hx as [H1 H2].
    next_rd E. next_rd E. injection E as <- _.
    unfold hrd_canonical. cbn [h_cpb_len1 h_dpb_len1 h_cpb_delay h_dpb_delay].
    rewrite H1, H2. apply rd_lt in E2, E3. rewrite N2Nat.id in E2, E3.
    rewrite (proj2 (N.ltb_lt _ _) E2), (proj2 (N.ltb_lt _ _) E3). reflexivity.
  - injection E as <- _. reflexivity.
Qed.

(* ------------------------------------------------------------------ SEI 137 / 144 *)
Lemma be_val_lt l : forall acc B,
  bytes_ok l = true -> acc < B -> be_val l acc < B * 256 ^ N.of_nat (length l).
Proof.
  induction l as [|b t IH]; intros acc B Hb Ha.
  - cbn [be_val length]. change (N.of_nat 0) with 0. rewrite N.pow_0_r. lia.
  - rewrite bytes_ok_cons in Hb. apply andb_true_iff in Hb. destruct Hb as [Hb Ht].
    unfold byte_ok in Hb. apply N.ltb_lt in Hb.
    cbn [be_val length]. rewrite Nat2N.inj_succ, N.pow_succ_r'.
    pose proof (IH (acc * 256 + b) (B * 256) Ht ltac:(lia)) as P.
    replace (B * (256 * 256 ^ N.of_nat (length t))) with (B * 256 * 256 ^ N.of_nat (length t)) by ring.
    exact P.
Qed.

Lemma bytes_ok_split n l : bytes_ok l = true -> bytes_ok (firstn n l) = true /\ bytes_ok (skipn n l) = true.
Proof.
  intros H. rewrite <- (firstn_skipn n l), bytes_ok_app in H. apply andb_true_iff in H. exact H.
Qed.

Lemma rd_be_lt k B l : bytes_ok l = true -> 256 ^ N.of_nat k = B -> fst (rd_be k l) < B /\ bytes_ok (snd (rd_be k l)) = true.
Proof.
  intros Hb <-. unfold rd_be. cbn [fst snd]. destruct (bytes_ok_split k l Hb) as [Hf Hs]. split; [|exact Hs].
  pose proof (be_val_lt (firstn k l) 0 1 Hf ltac:(lia)) as P.
  rewrite N.mul_1_l in P. eapply N.lt_le_trans; [exact P|].
  apply N.pow_le_mono_r; [discriminate|]. rewrite firstn_length. lia.
Qed.

Lemma mdcv_decode_canonical pl m : bytes_ok pl = true -> mdcv_decode pl = Ok m -> mdcv_canonical m = true.
Proof.
  unfold mdcv_decode. intros Hb H. destruct (negb (lenN pl =? mdcv_size)); [discriminate|].
  destruct (rd_be_lt 2 65536 pl Hb eq_refl) as [B1 H1]. destruct (rd_be 2 pl) as [x0 p1]. cbn [fst snd] in *.
  destruct (rd_be_lt 2 65536 p1 H1 eq_refl) as [B2 H2]. destruct (rd_be 2 p1) as [y0 p2]. cbn [fst snd] in *.
  destruct (rd_be_lt 2 65536 p2 H2 eq_refl) as [B3 H3]. destruct (rd_be 2 p2) as [x1 p3]. cbn [fst snd] in *.
  destruct (rd_be_lt 2 65536 p3 H3 eq_refl) as [B4 H4]. destruct (rd_be 2 p3) as [y1 p4]. cbn [fst snd] in *.
  destruct (rd_be_lt 2 65536 p4 H4 eq_refl) as [B5 H5]. destruct (rd_be 2 p4) as [x2 p5]. cbn [fst snd] in *.
  destruct (rd_be_lt 2 65536 p5 H5 eq_refl) as [B6 H6]. destruct (rd_be 2 p5) as [y2 p6]. cbn [fst snd] in *.
  destruct (rd_be_lt 2 65536 p6 H6 eq_refl) as [B7 H7]. destruct (rd_be 2 p6) as [wx p7]. cbn [fst snd] in *.
  destruct (rd_be_lt 2 65536 p7 H7 eq_refl) as [B8 H8]. destruct (rd_be 2 p7) as [wy p8]. cbn [fst snd] in *.
  destruct (rd_be_lt 4 4294967296 p8 H8 eq_refl) as [B9 H9]. destruct (rd_be 4 p8) as [mx p9]. cbn [fst snd] in *.
  destruct (rd_be_lt 4 4294967296 p9 H9 eq_refl) as [B10 _]. destruct (rd_be 4 p9) as [mn p10]. cbn [fst snd] in *.
  injection H as <-. unfold mdcv_canonical.
  cbn [md_x0 md_y0 md_x1 md_y1 md_x2 md_y2 md_wx md_wy md_max md_min].
  repeat match goal with B : _ < _ |- _ => apply N.ltb_lt in B; rewrite B; clear B end. reflexivity.
Qed.

Lemma cll_decode_canonical pl m : bytes_ok pl = true -> cll_decode pl = Ok m -> cll_canonical m = true.
Proof.
  unfold cll_decode. intros Hb H. destruct (negb (lenN pl =? cll_size)); [discriminate|].
  destruct (rd_be_lt 2 65536 pl Hb eq_refl) as [B1 H1]. destruct (rd_be 2 pl) as [a p1]. cbn [fst snd] in *.
  destruct (rd_be_lt 2 65536 p1 H1 eq_refl) as [B2 _]. destruct (rd_be 2 p1) as [b p2]. cbn [fst snd] in *.
  injection H as <-. unfold cll_canonical. cbn [cl_max cl_avg].
  apply N.ltb_lt in B1, B2. rewrite B1, B2. reflexivity.
Qed.

(* ------------------------------------------------------------------ any typed decoder *)
Definition like_ok (like : typed) : bool :=
  match like with
  | TPicTiming m => ext_ok (p_hrd m) (p_tolen m)
  | _ => true
  end.

Lemma decode_canonical like pl t :
  like_ok like = true -> bytes_ok pl = true ->
  typed_decode_like like pl = Ok t -> typed_canonical t = true.
Proof.
  intros Hl Hb H. destruct like as [cs|m|m|m]; cbn [typed_decode_like like_ok] in *.
  - destruct (tc_decode pl) as [cs'| | |] eqn:E; cbn [rbind] in H; try discriminate.
    injection H as <-. exact (tc_decode_canonical _ _ E).
  - destruct (pt_decode (p_hrd m) (p_tolen m) pl) as [m'| | |] eqn:E; cbn [rbind] in H; try discriminate.
    injection H as <-. exact (pt_decode_canonical _ _ _ _ Hl E).
  - destruct (mdcv_decode pl) as [m'| | |] eqn:E; cbn [rbind] in H; try discriminate.
    injection H as <-. exact (mdcv_decode_canonical _ _ Hb E).
  - destruct (cll_decode pl) as [m'| | |] eqn:E; cbn [rbind] in H; try discriminate.
    injection H as <-. exact (cll_decode_canonical _ _ Hb E).
Qed.

(* the multi-step history the property is about, start to end: a message obtained from a decoder
   (any payload bytes the decoder accepts), then any steps whose edits keep the value canonical
   (struct copies, calls of the serialiser and re-decodes in between): the history runs without error
   to the edits applied to the decoded value, and that final value round-trips *)
Lemma decoded_history_roundtrip like pl t0 ss :
  like_ok like = true -> bytes_ok pl = true -> typed_decode_like like pl = Ok t0 ->
  Forall step_keeps_canonical ss ->
  let t := apply_edits ss t0 in
  run_history (ODecode like pl) ss = Ok t /\ typed_canonical t = true /\
  typed_decode_like t (typed_payload t) = Ok t /\ lenN (typed_payload t) = typed_size t /\
  extract_sei_data (write_sei_messages [typed_msg t]) = XOk [(typed_type t, typed_payload t)].
Proof.
  intros Hl Hb Hd Hs t.
  pose proof (decode_canonical like pl t0 Hl Hb Hd) as H0.
  destruct (canonical_history_steps ss t0 Hs H0) as [Hr Hc]. fold t in Hr, Hc.
  assert (HR : run_history (ODecode like pl) ss = Ok t).
  { unfold run_history. cbn [run_origin]. rewrite Hd. cbn [rbind]. exact Hr. }
  split; [exact HR|]. split; [exact Hc|]. exact (history_roundtrip _ _ _ HR Hc).
Qed.
