(* C17RbspProofs.v — the round trip on the rbsp (plain byte list) level:
   extract_rbsp (ser msgs ++ [0x80]) = the (type, payload) list, for every non-empty list. *)
From V.lib Require Import Base.
From V.c17 Require Import C17Spec.

(* ---------- the 0xFF-run code ---------- *)
Lemma ff_enc_lt v : v < 255 -> ff_enc v = [v].
Proof.
  intros H. unfold ff_enc. rewrite N.div_small, N.mod_small by exact H. reflexivity.
Qed.

Lemma ff_enc_ge v : 255 <= v -> ff_enc v = 255 :: ff_enc (v - 255).
Proof.
  intros H. unfold ff_enc.
  assert (E : v / 255 = N.succ ((v - 255) / 255)).
  { replace v with ((v - 255) + 1 * 255) at 1 by lia.
    rewrite N.div_add by lia. lia. }
  assert (M : v mod 255 = (v - 255) mod 255).
  { replace v with ((v - 255) + 1 * 255) at 1 by lia.
    rewrite N.mod_add by lia. reflexivity. }
  rewrite E, M, N2Nat.inj_succ. reflexivity.
Qed.

Lemma ff_enc_nonempty v : ff_enc v <> [].
Proof. unfold ff_enc. destruct (repeat 255 (N.to_nat (v / 255))); discriminate. Qed.

Lemma ff_enc_bytes_ok v : bytes_ok (ff_enc v) = true.
Proof.
  unfold ff_enc. rewrite bytes_ok_app. apply andb_true_iff. split.
  - unfold bytes_ok. apply forallb_forall. intros x Hx. apply repeat_spec in Hx. subst x. reflexivity.
  - cbn [bytes_ok forallb]. unfold byte_ok. rewrite andb_true_r. apply N.ltb_lt.
    assert (v mod 255 < 255) by (apply N.mod_lt; lia). lia.
Qed.

Section Wrap.
  Variable wrap : N -> N.
  Variable W : N.
  Hypothesis wrap_small : forall x, x < W -> wrap x = x.

  Lemma ff_dec_repeat k : forall l acc,
    acc + 255 * N.of_nat k < W ->
    ff_dec wrap (repeat 255 k ++ l) acc = ff_dec wrap l (acc + 255 * N.of_nat k).
  Proof.
    induction k as [|k IH]; intros l acc H.
    - cbn [repeat app]. f_equal. lia.
    - cbn [repeat app ff_dec]. rewrite N.eqb_refl.
      rewrite wrap_small by lia. rewrite IH by lia. f_equal. lia.
  Qed.

  (* decode inverts encode, whatever follows, as long as the value fits the accumulator *)
  Lemma ff_dec_enc v r acc :
    acc + v < W -> ff_dec wrap (ff_enc v ++ r) acc = Some (acc + v, r).
  Proof.
    intros H. unfold ff_enc. rewrite <- app_assoc.
    assert (D : v = 255 * (v / 255) + v mod 255) by (apply N.div_mod; lia).
    assert (M : v mod 255 < 255) by (apply N.mod_lt; lia).
    rewrite ff_dec_repeat by (rewrite N2Nat.id; lia).
    rewrite N2Nat.id. cbn [app ff_dec].
    destruct (N.eqb_spec (v mod 255) 255) as [E|E]; [lia|].
    rewrite wrap_small by lia. f_equal. f_equal. lia.
  Qed.
End Wrap.

Lemma u64_small x : x < 2 ^ 64 -> u64 x = x.
Proof. intros H. unfold u64. apply N.mod_small. exact H. Qed.
Lemma u32_small x : x < 2 ^ 32 -> u32 x = x.
Proof. intros H. unfold u32. apply N.mod_small. exact H. Qed.

(* ---------- more_rbsp_data at the message boundaries ---------- *)
Lemma more_trailing_only : more_rbsp [128] = Some false.
Proof. reflexivity. Qed.

Lemma existsb_nonzero_end l : existsb nonzero (l ++ [128]) = true.
Proof. rewrite existsb_app. cbn. apply orb_true_r. Qed.

(* while messages remain, the rest of the rbsp is never of the form 1 0* *)
Lemma more_nonempty l : l <> [] -> more_rbsp (l ++ [128]) = Some true.
Proof.
  destruct l as [|b t]; [congruence|]. intros _. cbn [app more_rbsp].
  destruct (b <? 128); [reflexivity|].
  rewrite existsb_nonzero_end, orb_true_r. reflexivity.
Qed.

Lemma ser_msg_nonempty m : ser_msg m <> [].
Proof.
  unfold ser_msg. intros E. apply app_eq_nil in E. destruct E as [E _].
  exact (ff_enc_nonempty _ E).
Qed.

Lemma ser_cons m ms : ser (m :: ms) = ser_msg m ++ ser ms.
Proof. reflexivity. Qed.

Lemma ser_nonempty ms : ms <> [] -> ser ms <> [].
Proof.
  destruct ms as [|m t]; [congruence|]. intros _ E. rewrite ser_cons in E.
  apply app_eq_nil in E. destruct E as [E _]. exact (ser_msg_nonempty _ E).
Qed.

(* ---------- one message, then the rest ---------- *)
Lemma firstn_lenN {A} (l r : list A) : firstn (N.to_nat (lenN l)) (l ++ r) = l.
Proof.
  unfold lenN. rewrite Nat2N.id. rewrite firstn_app, Nat.sub_diag, firstn_all. cbn [firstn].
  apply app_nil_r.
Qed.

Lemma skipn_lenN {A} (l r : list A) : skipn (N.to_nat (lenN l)) (l ++ r) = r.
Proof.
  unfold lenN. rewrite Nat2N.id. rewrite skipn_app, Nat.sub_diag, skipn_all. reflexivity.
Qed.

Lemma extract_rbsp_step f m rest :
  msg_ok m = true ->
  extract_rbsp (S f) (ser_msg m ++ rest) =
    match more_rbsp rest with
    | None => XMissing [(mtype m, mpayload m)]
    | Some false => XOk [(mtype m, mpayload m)]
    | Some true => xcons (mtype m, mpayload m) (extract_rbsp f rest)
    end.
Proof.
  unfold msg_ok. intros H.
  apply andb_true_iff in H. destruct H as [H Hb].
  apply andb_true_iff in H. destruct H as [H Hs].
  apply andb_true_iff in H. destruct H as [Ht Hz].
  apply N.ltb_lt in Ht. apply N.ltb_lt in Hz. apply N.eqb_eq in Hs.
  cbn [extract_rbsp]. unfold ser_msg. rewrite <- !app_assoc.
  rewrite (ff_dec_enc u64 (2 ^ 64) u64_small) by (cbn [N.add]; exact Ht).
  rewrite (ff_dec_enc u32 (2 ^ 32) u32_small) by (cbn [N.add]; exact Hz).
  cbn [N.add]. rewrite Hs.
  destruct (N.ltb_spec (lenN (mpayload m ++ rest)) (lenN (mpayload m))) as [L|L].
  - rewrite lenN_app in L. lia.
  - rewrite firstn_lenN, skipn_lenN. reflexivity.
Qed.

Lemma extract_rbsp_msgs : forall msgs f,
  msgs <> [] -> msgs_ok msgs = true -> (length msgs <= f)%nat ->
  extract_rbsp f (rbsp_of msgs) = XOk (observed msgs).
Proof.
  induction msgs as [|m ms IH]; intros f Hne Hok Hf; [congruence|].
  cbn [msgs_ok forallb] in Hok. apply andb_true_iff in Hok. destruct Hok as [Hm Hms].
  destruct f as [|f]; [cbn [length] in Hf; lia|].
  unfold rbsp_of. rewrite ser_cons, <- app_assoc.
  rewrite extract_rbsp_step by exact Hm.
  destruct ms as [|m' ms'].
  - cbn [ser flat_map app]. rewrite more_trailing_only. reflexivity.
  - rewrite more_nonempty by (apply ser_nonempty; discriminate).
    change (ser (m' :: ms') ++ [128]) with (rbsp_of (m' :: ms')).
    rewrite IH; [reflexivity|discriminate|exact Hms|cbn [length] in *; lia].
Qed.

Lemma length_ser_ge msgs : (length msgs <= length (ser msgs))%nat.
Proof.
  induction msgs as [|m ms IH]; [apply Nat.le_refl|].
  rewrite ser_cons, app_length. cbn [length].
  assert (length (ser_msg m) <> 0)%nat.
  { intros E. apply length_zero_iff_nil in E. exact (ser_msg_nonempty _ E). }
  lia.
Qed.

Lemma rbsp_roundtrip msgs :
  msgs <> [] -> msgs_ok msgs = true ->
  extract_rbsp_all (rbsp_of msgs) = XOk (observed msgs).
Proof.
  intros Hne Hok. unfold extract_rbsp_all. apply extract_rbsp_msgs; [exact Hne|exact Hok|].
  unfold rbsp_of. rewrite app_length. pose proof (length_ser_ge msgs). lia.
Qed.

(* the empty list is outside the statement: the writer emits only 80, the extractor reads it
   as a type byte and then runs out of input *)
Lemma rbsp_empty_list_rejected : extract_rbsp_all (rbsp_of []) = XErr.
Proof. reflexivity. Qed.

Lemma sei_value_rt v r :
  (v < 2 ^ 64 -> ff_dec u64 (ff_enc v ++ r) 0 = Some (v, r)) /\
  (v < 2 ^ 32 -> ff_dec u32 (ff_enc v ++ r) 0 = Some (v, r)).
Proof.
  split; intros H.
  - rewrite (ff_dec_enc u64 (2 ^ 64) u64_small) by (cbn [N.add]; exact H). reflexivity.
  - rewrite (ff_dec_enc u32 (2 ^ 32) u32_small) by (cbn [N.add]; exact H). reflexivity.
Qed.
